(* C02: the specification decoder recovers every voxel from the encoder's
   output, and the output is well-formed. *)
From Coq Require Import NArith ZArith List Bool Lia ZifyBool ZifyNat ZifyN.
From NGS Require Import Val Ints Words Arr4 CSegEncode CSegSpec WordsProofs Arr4Proofs
     CSegPackProofs CSegSortProofs CSegEncodeProofs.
Import ListNotations.
Open Scope N_scope.

Ltac Zify.zify_post_hook ::= Z.to_euclidean_division_equations.

(* ---------- reading words back from the serialised buffer ---------- *)

Lemma skipn_nth_cons {A} (l : list A) n d :
  (n < length l)%nat -> skipn n l = nth n l d :: skipn (S n) l.
Proof.
  revert l. induction n; intros l H; destruct l; simpl in *; try lia; auto.
  apply IHn. lia.
Qed.

Lemma rd32_words W i :
  w32 W -> i < lenN W -> rd32 (bytes_of_words W) (4 * i) = Some (nthN W i 0).
Proof.
  intros Hw Hi. unfold rd32.
  replace (N.to_nat (4 * i)) with (4 * N.to_nat i)%nat by lia.
  rewrite skipn_bytes_of_words.
  rewrite (skipn_nth_cons W (N.to_nat i) 0) by (unfold lenN in Hi; lia).
  fold (nthN W i 0).
  assert (Hb : nthN W i 0 < two32).
  { unfold w32 in Hw. rewrite Forall_forall in Hw. apply Hw. unfold nthN. apply nth_In.
    unfold lenN in Hi. lia. }
  set (w := nthN W i 0) in *.
  unfold bytes_of_words. cbn [flat_map]. rewrite firstn4_le32_app.
  unfold le32. cbn [le_bytes]. f_equal. rewrite two8_val, two32_val in *. lia.
Qed.

Lemma chan_read W off Wc j :
  w32 W -> seg W off Wc -> j < lenN Wc ->
  rd32 (bytes_of_words W) (4 * off + 4 * j) = Some (nthN Wc j 0).
Proof.
  intros Hw Hs Hj. replace (4 * off + 4 * j) with (4 * (off + j)) by lia.
  rewrite rd32_words; [|exact Hw|destruct Hs; lia].
  now rewrite (seg_nth W off Wc j Hs Hj).
Qed.

Lemma ceil_quot_cdiv a b : b <> 0 -> ceil_quot a b = cdiv a b.
Proof.
  intros Hb. unfold ceil_quot, cdiv, nceil_div.
  assert (E := N.div_mod a b Hb). assert (L := N.mod_lt a b Hb).
  set (q := a / b) in *. set (r := a mod b) in *. clearbody q r.
  destruct (N.eqb_spec r 0) as [Hr|Hr].
  - apply N.div_unique with (r := b - 1); lia.
  - apply N.div_unique with (r := r - 1); lia.
Qed.

Lemma bits_allowed_In b : In b allowed_bits -> bits_allowed b = true.
Proof.
  unfold allowed_bits. simpl. intros H.
  repeat (destruct H as [<-|H]; [reflexivity|]). destruct H.
Qed.

Lemma allowed_pos_bits b : In b allowed_bits -> b <> 0 -> pos_bits b.
Proof.
  unfold allowed_bits, pos_bits. simpl. intros H Hn.
  destruct H as [<-|H]; [congruence|].
  repeat (destruct H as [<-|H]; [auto 10|]). destruct H.
Qed.

(* ---------- one block: index and table entry ---------- *)

Section Block.
Variables (dt : dtype) (W Wc vals : list N) (off lo vo bits : N).
Hypothesis HW : w32 W.
Hypothesis Hseg : seg W off Wc.
Hypothesis Hbits : number_of_encoding_bits (lenN (sort_dedup vals)) = Ok bits.
Hypothesis Hlut : seg Wc lo (lut_words dt (sort_dedup vals)).
Hypothesis Hval : seg Wc vo (pack_values bits (map (fun v => index_of v (sort_dedup vals)) vals)).
Hypothesis Hbound : Forall (fun v => v < dt_bound dt) vals.

Let lut := sort_dedup vals.
Let buf := bytes_of_words W.

Lemma spec_index_enc p :
  p < lenN vals ->
  spec_index buf (4 * off + 4 * vo) bits p = Some (index_of (nthN vals p 0) lut).
Proof.
  intros Hp. unfold spec_index.
  assert (Hin : In (nthN vals p 0) lut).
  { apply sort_dedup_In. unfold nthN. apply nth_In. unfold lenN in Hp. lia. }
  destruct (index_of_spec _ _ Hin) as [Hidx _].
  destruct (nbits_spec _ _ Hbits) as [Hle Hallowed].
  destruct (N.eqb_spec bits 0) as [Hz|Hnz].
  - f_equal. subst bits. fold lut in Hle. simpl in Hle. lia.
  - assert (Hpb := allowed_pos_bits bits Hallowed Hnz).
    destruct (pos_bits_vpw bits Hpb) as (Hv & Hm & _).
    destruct (bitpos_split bits p Hpb) as [E1 E2].
    set (idxs := map (fun v => index_of v lut) vals) in *.
    assert (Hval' : seg Wc vo (pack_values bits idxs)) by exact Hval.
    assert (Hidxs : Forall (fun i => i < 2 ^ bits) idxs) by (apply index_bound; exact Hbits).
    assert (Hlen : lenN idxs = lenN vals) by (unfold idxs; apply lenN_map).
    assert (Hk : p / (32 / bits) < lenN (pack_values bits idxs)).
    { rewrite pack_values_length by assumption. apply div_lt_cdiv; lia. }
    replace (4 * off + 4 * vo + 4 * (p * bits / 32)) with (4 * off + 4 * (vo + p * bits / 32)) by lia.
    rewrite E1, E2.
    assert (Hd := pack_values_digit bits idxs p Hpb Hidxs ltac:(lia)).
    set (kw := p / (32 / bits)) in *. set (sh := p mod (32 / bits)) in *. clearbody kw sh.
    rewrite (chan_read W off Wc) by (try assumption; destruct Hval'; lia).
    rewrite (seg_nth Wc vo _ _ Hval' Hk).
    f_equal.
    change ((nthN (pack_values bits idxs) kw 0 / 2 ^ (sh * bits)) mod 2 ^ bits)
      with (digit bits sh (nthN (pack_values bits idxs) kw 0)).
    rewrite Hd.
    unfold idxs. now rewrite nthN_map with (d := 0) by assumption.
Qed.

Lemma spec_entry_enc v :
  In v vals ->
  spec_entry dt buf (4 * off + 4 * lo) (index_of v lut) = Some v.
Proof.
  intros Hv. assert (Hin : In v lut) by now apply sort_dedup_In.
  destruct (index_of_spec _ _ Hin) as [Hidx Hnth].
  assert (Hvb : v < dt_bound dt) by (rewrite Forall_forall in Hbound; now apply Hbound).
  assert (Hll := lut_words_length dt lut).
  assert (Hlut' : seg Wc lo (lut_words dt lut)) by exact Hlut.
  assert (Hext := seg_extent _ _ _ Hlut').
  unfold spec_entry. clear Hlut Hval. destruct dt.
  - cbn [wpe lut_words] in *.
    replace (4 * off + 4 * lo + 4 * index_of v lut) with (4 * off + 4 * (lo + index_of v lut)) by lia.
    rewrite (chan_read W off Wc) by (try assumption; lia).
    rewrite (seg_nth Wc lo _ _ Hlut') by lia. now rewrite Hnth.
  - cbn [wpe] in *.
    replace (4 * off + 4 * lo + 8 * index_of v lut) with (4 * off + 4 * (lo + 2 * index_of v lut)) by lia.
    replace (4 * off + 4 * (lo + 2 * index_of v lut) + 4)
      with (4 * off + 4 * (lo + (2 * index_of v lut + 1))) by lia.
    rewrite !(chan_read W off Wc) by (try assumption; lia).
    rewrite !(seg_nth Wc lo _ _ Hlut') by lia.
    destruct (lut_words_nth64 lut _ Hidx) as [E1 E2]. rewrite E1, E2, Hnth.
    f_equal. cbn [dt_bound] in Hvb. unfold two64 in Hvb. rewrite two32_val.
    change (2 ^ 32) with 4294967296. change (2 ^ 64) with 18446744073709551616 in Hvb. lia.
Qed.
End Block.

(* ---------- geometry: a voxel lies in one block at an in-range position ---------- *)

Lemma voxel_geometry z bz : bz <> 0 -> z / bz * bz + z mod bz = z /\ z mod bz < bz.
Proof.
  intros Hb. split; [|apply N.mod_lt; exact Hb].
  assert (E := N.div_mod z bz Hb). lia.
Qed.

(* (2) the specification decoder recovers every voxel *)
Theorem encode_spec_roundtrip dt nc g a buf :
  wf_arr (dt_bound dt) a -> cseg_encode dt nc g a = Ok buf ->
  forall c z y x, in4 a c z y x ->
    spec_value dt buf (a_y a) (a_x a) (g_bx g) (g_by g) (g_bz g) c z y x = Some (get4 a c z y x).
Proof.
  intros Hwf E c z y x (Hc & Hz & Hy & Hx).
  destruct (cseg_encode_file_enc dt nc g a buf Hwf E) as (_ & Hbx & Hby & Hbz & W & chans & -> & Hf).
  destruct Hf as (EW & Hlen & HW & Hch).
  destruct (Hch c Hc) as (vl & Hce). unfold chan_enc in Hce. cbv zeta in Hce.
  destruct Hce as (_ & Hl & Hvl & Hblk & Hpad). clear Hch E.
  unfold spec_value.
  destruct (N.eqb_spec (g_bx g) 0); [contradiction|].
  destruct (N.eqb_spec (g_by g) 0); [contradiction|].
  destruct (N.eqb_spec (g_bz g) 0); [contradiction|]. cbn [orb].
  rewrite !ceil_quot_cdiv by assumption.
  change (cdiv (a_x a) (g_bx g)) with (grid_x a g). change (cdiv (a_y a) (g_by g)) with (grid_y a g).
  assert (Hxb : x / g_bx g < grid_x a g) by (apply div_lt_cdiv; [lia|exact Hx]).
  assert (Hyb : y / g_by g < grid_y a g) by (apply div_lt_cdiv; [lia|exact Hy]).
  assert (Hzb : z / g_bz g < grid_z a g) by (apply div_lt_cdiv; [lia|exact Hz]).
  destruct (voxel_geometry z _ Hbz) as [Gz Gz'].
  destruct (voxel_geometry y _ Hby) as [Gy Gy'].
  destruct (voxel_geometry x _ Hbx) as [Gx Gx'].
  set (gx := grid_x a g) in *. set (gy := grid_y a g) in *. set (gz := grid_z a g) in *.
  assert (Epad : forall pad,
            (lenN (block_padded a g c (z / g_bz g) (y / g_by g) (x / g_bx g) pad)
             = g_bz g * g_by g * g_bx g) /\
            (nthN (block_padded a g c (z / g_bz g) (y / g_by g) (x / g_bx g) pad)
                  ((z mod g_bz g * g_by g + y mod g_by g) * g_bx g + x mod g_bx g) 0
             = get4 a c z y x)).
  { intros pad. split; [apply block_padded_length|].
    rewrite block_padded_nth; try assumption; try lia. now rewrite Gz, Gy, Gx. }
  set (bx := g_bx g) in *. set (by_ := g_by g) in *. set (bz := g_bz g) in *.
  set (xb := x / bx) in *. set (yb := y / by_) in *. set (zb := z / bz) in *.
  set (xm := x mod bx) in *. set (ym := y mod by_) in *. set (zm := z mod bz) in *.
  clearbody xb yb zb xm ym zm gx gy gz bx by_ bz.
  destruct (Hpad _ _ _ Hzb Hyb Hxb) as (pad & Epd).
  destruct (Hblk _ (grid_index_lt gx gy gz xb yb zb Hxb Hyb Hzb))
    as (_ & Hbound & lo & vo & bits & B1 & B2 & B3 & B4 & B5 & B6 & B7).
  rewrite Epd in Hbound, B1, B6, B7.
  destruct (Epad pad) as [Hvlen Hpv0]. clear Epad Hblk Hpad Epd.
  destruct (layout_chan (a_c a) chans c Hlen Hc) as [L1 L2]. cbv zeta in L1, L2.
  rewrite <- EW in L1, L2.
  assert (HcW : c < lenN W).
  { rewrite EW, lenN_app, offsets_from_length. lia. }
  set (off := nthN (offsets_from (a_c a) chans) c 0) in *.
  set (Wc := nthN chans c []) in *.
  set (vals := block_padded a g c zb yb xb pad) in *.
  clearbody off Wc vals. clear EW.
  set (k := xb + gx * (yb + gy * zb)) in *.
  assert (Hkb : k < gx * gy * gz).
  { subst k. assert (yb + gy * zb + 1 <= gy * gz) by nia. nia. }
  clearbody k.
  set (p := xm + bx * (ym + by_ * zm)) in *.
  assert (Hp : p < lenN vals).
  { rewrite Hvlen. subst p. assert (ym + by_ * zm + 1 <= by_ * bz) by nia. nia. }
  assert (Hpv : nthN vals p 0 = get4 a c z y x).
  { rewrite <- Hpv0. f_equal. subst p. lia. }
  clearbody p. clear Hpv0 Gx Gy Gz Gx' Gy' Gz' Hxb Hyb Hzb.
  rewrite (rd32_words W c HW HcW), L1.
  replace (4 * off + 8 * k) with (4 * off + 4 * (2 * k)) by lia.
  replace (4 * off + 4 * (2 * k) + 4) with (4 * off + 4 * (2 * k + 1)) by lia.
  rewrite !(chan_read W off Wc) by (try assumption; lia).
  rewrite B2, B3.
  destruct (nbits_spec _ _ B1) as [_ Hallowed].
  change (2 ^ 24) with two24.
  replace ((lo + bits * two24) / two24) with bits
    by (symmetry; rewrite N.div_add by (rewrite two24_val; lia); rewrite N.div_small by exact B4; lia).
  replace ((lo + bits * two24) mod two24) with lo
    by (symmetry; rewrite N.mod_add by (rewrite two24_val; lia); apply N.mod_small; exact B4).
  rewrite (bits_allowed_In bits Hallowed). cbn [negb].
  rewrite (spec_index_enc W Wc vals off vo bits HW L2 B1 B7 p Hp).
  rewrite Hpv.
  rewrite (spec_entry_enc dt W Wc vals off lo HW L2 B6 Hbound).
  - reflexivity.
  - rewrite <- Hpv. unfold nthN. apply nth_In. unfold lenN in Hp. lia.
Qed.

(* ---------- (3) the encoder's output is well-formed ---------- *)

Lemma ceil_quot_bits B b :
  pos_bits b -> ceil_quot (B * b) 32 = cdiv B (32 / b).
Proof.
  intros Hb. rewrite ceil_quot_cdiv by lia.
  unfold cdiv, nceil_div.
  destruct Hb as [->|[->|[->|[->|[->| ->]]]]].
  - change (32 / 1) with 32. f_equal. lia.
  - change (32 / 2) with 16. lia.
  - change (32 / 4) with 8. lia.
  - change (32 / 8) with 4. lia.
  - change (32 / 16) with 2. lia.
  - change (32 / 32) with 1. lia.
Qed.

Lemma forallb_range (f : N -> bool) n : (forall k, k < n -> f k = true) -> forallb f (range n) = true.
Proof. intros H. apply forallb_forall. intros k Hk. apply H. now apply range_In. Qed.

Lemma wf_block_enc dt W Wc vals off k B :
  w32 W -> seg W off Wc -> 2 * k + 1 < lenN Wc ->
  lenN vals = B -> Forall (fun v => v < dt_bound dt) vals -> blk_enc dt Wc k vals ->
  wf_block dt (bytes_of_words W) (4 * lenN W) (4 * off) B (4 * off + 8 * k) = true.
Proof.
  intros HW Hseg Hk HB Hbound (lo & vo & bits & B1 & B2 & B3 & B4 & B5 & B6 & B7).
  unfold wf_block.
  replace (4 * off + 8 * k) with (4 * off + 4 * (2 * k)) by lia.
  replace (4 * off + 4 * (2 * k) + 4) with (4 * off + 4 * (2 * k + 1)) by lia.
  rewrite !(chan_read W off Wc) by (try assumption; lia).
  rewrite B2, B3.
  destruct (nbits_spec _ _ B1) as [Hle Hallowed].
  change (2 ^ 24) with two24.
  replace ((lo + bits * two24) / two24) with bits
    by (symmetry; rewrite N.div_add by (rewrite two24_val; lia); rewrite N.div_small by exact B4; lia).
  replace ((lo + bits * two24) mod two24) with lo
    by (symmetry; rewrite N.mod_add by (rewrite two24_val; lia); apply N.mod_small; exact B4).
  rewrite (bits_allowed_In bits Hallowed). cbn [andb].
  assert (Hext := seg_extent _ _ _ Hseg).
  assert (Hlext := seg_extent _ _ _ B6). rewrite lut_words_length in Hlext.
  assert (Hvext := seg_extent _ _ _ B7).
  apply andb_true_intro. split.
  - apply orb_true_intro. right. apply N.leb_le.
    assert (El : lenN (pack_values bits (map (fun v => index_of v (sort_dedup vals)) vals))
                 = ceil_quot (B * bits) 32).
    { destruct (N.eq_dec bits 0) as [->|Hnz].
      - rewrite pack_values_0, N.mul_0_r. reflexivity.
      - rewrite pack_values_length, lenN_map, HB by (apply allowed_pos_bits; assumption).
        symmetry. apply ceil_quot_bits. apply allowed_pos_bits; assumption. }
    rewrite El in Hvext. lia.
  - apply forallb_range. intros p Hp.
    rewrite (spec_index_enc W Wc vals off vo bits HW Hseg B1 B7 p ltac:(lia)).
    apply N.leb_le.
    assert (Hin : In (nthN vals p 0) (sort_dedup vals)).
    { apply sort_dedup_In. unfold nthN. apply nth_In. unfold lenN in HB. lia. }
    destruct (index_of_spec _ _ Hin) as [Hidx _].
    destruct dt; cbn [itemsize wpe] in *; nia.
Qed.

Theorem encode_wellformed dt nc g a buf :
  wf_arr (dt_bound dt) a -> cseg_encode dt nc g a = Ok buf ->
  well_formed dt buf (a_c a) (a_z a) (a_y a) (a_x a) (g_bx g) (g_by g) (g_bz g) = true.
Proof.
  intros Hwf E.
  destruct (cseg_encode_file_enc dt nc g a buf Hwf E) as (_ & Hbx & Hby & Hbz & W & chans & -> & Hf).
  destruct Hf as (EW & Hlen & HW & Hch).
  unfold well_formed.
  destruct (N.eqb_spec (g_bx g) 0); [contradiction|].
  destruct (N.eqb_spec (g_by g) 0); [contradiction|].
  destruct (N.eqb_spec (g_bz g) 0); [contradiction|]. cbn [orb negb andb].
  rewrite !ceil_quot_cdiv by assumption.
  change (cdiv (a_x a) (g_bx g)) with (grid_x a g). change (cdiv (a_y a) (g_by g)) with (grid_y a g).
  change (cdiv (a_z a) (g_bz g)) with (grid_z a g).
  rewrite bytes_of_words_lenN.
  assert (HCW : a_c a <= lenN W).
  { rewrite EW, lenN_app, offsets_from_length. lia. }
  replace ((4 * lenN W) mod 4) with 0 by (symmetry; rewrite N.mul_comm; apply N.mod_mul; lia).
  cbn [N.eqb andb].
  destruct (N.leb_spec (4 * a_c a) (4 * lenN W)); [|lia]. cbn [andb].
  apply forallb_range. intros c Hc.
  rewrite (rd32_words W c HW ltac:(lia)).
  destruct (layout_chan (a_c a) chans c Hlen Hc) as [L1 L2]. cbv zeta in L1, L2.
  rewrite <- EW in L1, L2. rewrite L1.
  destruct (Hch c Hc) as (vl & Hce). unfold chan_enc in Hce. cbv zeta in Hce.
  destruct Hce as (_ & Hl & Hvl & Hblk & _).
  set (off := nthN (offsets_from (a_c a) chans) c 0) in *.
  set (Wc := nthN chans c []) in *.
  assert (Hext := seg_extent _ _ _ L2).
  set (nblk := grid_x a g * grid_y a g * grid_z a g) in *.
  apply andb_true_intro. split; [apply N.leb_le; lia|].
  apply forallb_range. intros k Hk.
  destruct (Hblk k Hk) as (Hvlen & Hbound & Hbe).
  apply (wf_block_enc dt W Wc (nthN vl k []) off k); try assumption; try lia.
Qed.
