(* 4-D arrays (C, Z, Y, X) in C order, as used for chunks. *)
From Coq Require Import NArith List Bool Lia.
From NGS Require Import Val Ints Words.
Import ListNotations.
Open Scope N_scope.

Record arr4 : Type := { a_c : N; a_z : N; a_y : N; a_x : N; a_data : list N }.

Definition size4 (a : arr4) : N := a_c a * a_z a * a_y a * a_x a.

Definition idx4 (a : arr4) (c z y x : N) : N :=
  ((c * a_z a + z) * a_y a + y) * a_x a + x.

Definition get4 (a : arr4) (c z y x : N) : N := nthN (a_data a) (idx4 a c z y x) 0.

Definition in4 (a : arr4) (c z y x : N) : Prop :=
  c < a_c a /\ z < a_z a /\ y < a_y a /\ x < a_x a.

Definition tab3 (Z Y X : N) (f : N -> N -> N -> N) : list N :=
  flat_map (fun z => flat_map (fun y => map (fun x => f z y x) (range X)) (range Y)) (range Z).

Definition tab4 (C Z Y X : N) (f : N -> N -> N -> N -> N) : arr4 :=
  {| a_c := C; a_z := Z; a_y := Y; a_x := X;
     a_data := flat_map (fun c => tab3 Z Y X (f c)) (range C) |}.

(* a well-shaped array of values below [bound] *)
Definition wf_arr (bound : N) (a : arr4) : Prop :=
  lenN (a_data a) = size4 a /\ Forall (fun v => v < bound) (a_data a).
Definition wf_arrb (bound : N) (a : arr4) : bool :=
  (lenN (a_data a) =? size4 a) && forallb (fun v => v <? bound) (a_data a).

Definition same_shape (a : arr4) (C Z Y X : N) : Prop :=
  a_c a = C /\ a_z a = Z /\ a_y a = Y /\ a_x a = X.
