(* (4) Non-vacuity of the round-trip theorems: below the format's 24-bit
   offset limit the encoder model returns Ok. *)
From Coq Require Import NArith ZArith List Bool Lia ZifyBool ZifyNat ZifyN.
From NGS Require Import Val Ints Words Arr4 CSegEncode WordsProofs Arr4Proofs
     CSegPackProofs CSegSortProofs CSegEncodeProofs.
Import ListNotations.
Open Scope N_scope.

Definition blk_elems (g : geom) : N := g_bz g * g_by g * g_bx g.

(* words a channel can need at most: header + per block a table and values *)
Definition chan_bound (dt : dtype) (a : arr4) (g : geom) : N :=
  let nblk := grid_x a g * grid_y a g * grid_z a g in
  2 * nblk + nblk * ((wpe dt + 1) * blk_elems g).

Definition enc_size_bound (dt : dtype) (a : arr4) (g : geom) : N :=
  a_c a + a_c a * chan_bound dt a g.

Lemma cdiv_le_self n v : 0 < v -> cdiv n v <= n.
Proof.
  intros Hv. unfold cdiv, nceil_div.
  destruct (N.eq_dec n 0) as [->|Hn].
  - rewrite N.add_0_l. rewrite N.div_small by lia. lia.
  - apply N.div_le_upper_bound; [lia|]. nia.
Qed.

Lemma pack_values_le bits idx :
  In bits allowed_bits -> lenN (pack_values bits idx) <= lenN idx.
Proof.
  intros Hb. destruct (N.eq_dec bits 0) as [->|Hnz].
  - rewrite pack_values_0, lenN_nil. lia.
  - assert (Hpb : pos_bits bits).
    { unfold allowed_bits in Hb. simpl in Hb. unfold pos_bits.
      destruct Hb as [<-|Hb]; [congruence|]. repeat (destruct Hb as [<-|Hb]; [auto 10|]). destruct Hb. }
    rewrite pack_values_length by assumption.
    apply cdiv_le_self. now destruct (pos_bits_vpw bits Hpb).
Qed.

Lemma stinv_lut_le H st key off :
  stinv H st -> assoc_find key (e_luts st) = Some off -> off <= e_len st.
Proof.
  intros [Hlen Hluts] Hf. destruct (Hluts _ _ Hf) as [HH Hs].
  apply seg_extent in Hs. rewrite lenN_rev in Hs. lia.
Qed.

Lemma enc_block_ok dt H vals st :
  stinv H st ->
  e_len st + (wpe dt + 1) * lenN vals < two24 ->
  exists st1, enc_block dt vals st = Ok st1 /\ e_len st1 <= e_len st + (wpe dt + 1) * lenN vals.
Proof.
  intros Hinv Hb. unfold enc_block.
  set (lut := sort_dedup vals).
  assert (Hll : lenN lut <= lenN vals) by apply sort_dedup_length.
  destruct (nbits_ok (lenN lut)) as [bits Hbits].
  { rewrite two24_val, two32_val in *. nia. }
  rewrite Hbits. cbn [bind].
  set (lutw := lut_words dt lut).
  assert (Hlw : lenN lutw = wpe dt * lenN lut) by apply lut_words_length.
  set (vw := pack_values bits (map (fun v => index_of v lut) vals)).
  assert (Hvw : lenN vw <= lenN vals).
  { unfold vw. eapply N.le_trans; [apply pack_values_le|rewrite lenN_map; lia].
    now destruct (nbits_spec _ _ Hbits). }
  rewrite two24_val, two32_val in *.
  destruct (assoc_find lutw (e_luts st)) as [off|] eqn:Ef; cbv beta iota zeta.
  - assert (Hoff := stinv_lut_le H st lutw off Hinv Ef).
    destruct (N.leb_spec 16777216 off); [nia|].
    destruct (N.leb_spec 4294967296 (e_len st)); [nia|].
    eexists. split; [reflexivity|]. cbn [e_len]. nia.
  - destruct (N.leb_spec 16777216 (e_len st)); [nia|].
    destruct (N.leb_spec 4294967296 (e_len st + lenN lutw)); [nia|].
    eexists. split; [reflexivity|]. cbn [e_len]. nia.
Qed.

(* every block of the grid has at least one real voxel, so pad_block finds a
   most frequent value *)
Lemma block_vals_ok a g c zb yb xb :
  g_bx g <> 0 -> g_by g <> 0 -> g_bz g <> 0 ->
  zb < grid_z a g -> yb < grid_y a g -> xb < grid_x a g ->
  exists v, block_vals a g c (zb, yb, xb) = Ok v /\ lenN v = blk_elems g.
Proof.
  intros Hbx Hby Hbz Hz Hy Hx. unfold block_vals.
  destruct (block_full a g zb yb xb).
  - eexists. split; [reflexivity|]. apply block_padded_length.
  - destruct (most_frequent_ok (block_real a g c zb yb xb)) as (p & Hp & _).
    + intros E. assert (L : lenN (block_real a g c zb yb xb) = 0) by (rewrite E; reflexivity).
      unfold block_real in L. rewrite tab3_length in L.
      unfold grid_x, grid_y, grid_z in *.
      assert (Hsz := cdiv_spec (a_z a) (g_bz g) ltac:(lia)).
      assert (Hsy := cdiv_spec (a_y a) (g_by g) ltac:(lia)).
      assert (Hsx := cdiv_spec (a_x a) (g_bx g) ltac:(lia)).
      assert (0 < N.min (g_bz g) (a_z a - zb * g_bz g)) by nia.
      assert (0 < N.min (g_by g) (a_y a - yb * g_by g)) by nia.
      assert (0 < N.min (g_bx g) (a_x a - xb * g_bx g)) by nia.
      nia.
    + rewrite Hp. cbn [bind]. eexists. split; [reflexivity|]. apply block_padded_length.
Qed.

Lemma block_coords_In gz gy gx zb yb xb :
  In (zb, yb, xb) (block_coords gz gy gx) -> zb < gz /\ yb < gy /\ xb < gx.
Proof.
  unfold block_coords. intros H. apply in_flat_map in H. destruct H as (z & Hz & H).
  apply in_flat_map in H. destruct H as (y & Hy & H). apply in_map_iff in H.
  destruct H as (x & E & Hx). inversion E; subst. apply range_In in Hz, Hy, Hx. auto.
Qed.

Lemma enc_blocks_ok dt a g c H cs : forall st,
  wf_arr (dt_bound dt) a ->
  g_bx g <> 0 -> g_by g <> 0 -> g_bz g <> 0 ->
  (forall zb yb xb, In (zb, yb, xb) cs -> zb < grid_z a g /\ yb < grid_y a g /\ xb < grid_x a g) ->
  stinv H st ->
  e_len st + lenN cs * ((wpe dt + 1) * blk_elems g) < two24 ->
  exists st', enc_blocks dt a g c cs st = Ok st' /\
              e_len st' <= e_len st + lenN cs * ((wpe dt + 1) * blk_elems g).
Proof.
  induction cs as [|[[zb yb] xb] r IH]; intros st Hwf Hbx Hby Hbz Hin Hinv Hb.
  - exists st. split; [reflexivity|]. unfold lenN. cbn [length]. lia.
  - rewrite lenN_cons in Hb. cbn [enc_blocks].
    destruct (Hin zb yb xb ltac:(now left)) as (Hz & Hy & Hx).
    destruct (block_vals_ok a g c zb yb xb Hbx Hby Hbz Hz Hy Hx) as (v & Ev & Hlv).
    rewrite Ev. cbn [bind].
    destruct (enc_block_ok dt H v st Hinv) as (st1 & E1 & Hl1); [rewrite Hlv; nia|].
    rewrite E1. cbn [bind].
    assert (Hvb := block_vals_bound dt a g c _ _ Hwf Ev).
    destruct (enc_block_step dt H v st st1 Hinv Hvb E1) as (Hinv1 & _).
    rewrite Hlv in Hl1.
    destruct (IH st1 Hwf Hbx Hby Hbz) as (st' & E' & Hl'); try assumption.
    + intros. apply Hin. now right.
    + nia.
    + exists st'. split; [exact E'|]. rewrite lenN_cons. nia.
Qed.

Lemma encode_channel_ok dt a g c :
  wf_arr (dt_bound dt) a ->
  g_bx g <> 0 -> g_by g <> 0 -> g_bz g <> 0 ->
  chan_bound dt a g < two24 ->
  exists W, encode_channel dt a g c = Ok W /\ lenN W <= chan_bound dt a g.
Proof.
  intros Hwf Hbx Hby Hbz Hb. unfold chan_bound in *. cbv zeta in *.
  set (gx := grid_x a g) in *. set (gy := grid_y a g) in *. set (gz := grid_z a g) in *.
  unfold encode_channel. fold gx gy gz.
  assert (Hcl : lenN (block_coords gz gy gx) = gx * gy * gz) by (rewrite block_coords_length; lia).
  destruct (enc_blocks_ok dt a g c (2 * (gx * gy * gz)) (block_coords gz gy gx) (init_est (gx * gy * gz)))
    as (st' & E' & Hl'); try assumption.
  - intros zb yb xb Hin. now apply block_coords_In.
  - apply stinv_init.
  - cbn [init_est e_len]. rewrite Hcl. exact Hb.
  - rewrite E'. cbn [bind]. eexists. split; [reflexivity|].
    cbn [init_est e_len] in Hl'. rewrite Hcl in Hl'.
    (* lenN (est_words st') = e_len st' *)
    destruct (enc_blocks_vlist _ _ _ _ _ _ _ E') as (vl & HF & Hvl).
    assert (Hbound : Forall (Forall (fun v => v < dt_bound dt)) vl).
    { apply Forall_forall. intros v Hv.
      destruct (In_nth _ _ [] Hv) as (n & Hn & <-).
      assert (Hn' : N.of_nat n < lenN (block_coords gz gy gx)).
      { rewrite (Forall2_lenN _ _ _ HF). unfold lenN. lia. }
      assert (R := Forall2_nthN _ _ _ (N.of_nat n) (0, 0, 0) [] HF Hn').
      cbv beta in R. unfold nthN in R at 2. rewrite Nat2N.id in R.
      eapply block_vals_bound; eauto. }
    destruct (enc_vlist_inv dt (2 * (gx * gy * gz)) vl _ _ (stinv_init _) Hbound Hvl)
      as ([Hlen' _] & ext & hx & Eb' & _ & Eh & _ & Hlh & _).
    cbn [init_est e_body e_hdr rev app] in Eb', Eh.
    unfold est_words. rewrite lenN_app, Eh, Hlh.
    rewrite <- (Forall2_lenN _ _ _ HF), Hcl.
    rewrite lenN_rev. lia.
Qed.

Lemma enc_channels_ok dt a g cs : forall off,
  wf_arr (dt_bound dt) a ->
  g_bx g <> 0 -> g_by g <> 0 -> g_bz g <> 0 ->
  off + lenN cs * chan_bound dt a g < two24 ->
  exists os ws, enc_channels dt a g cs off = Ok (os, ws).
Proof.
  induction cs as [|c r IH]; intros off Hwf Hbx Hby Hbz Hb.
  - exists [], []. reflexivity.
  - rewrite lenN_cons in Hb. cbn [enc_channels].
    rewrite two24_val in Hb.
    destruct (N.leb_spec two32 off) as [Hbad|_]; [rewrite two32_val in Hbad; nia|].
    destruct (encode_channel_ok dt a g c Hwf Hbx Hby Hbz) as (W & EW & HlW).
    { rewrite two24_val. nia. }
    rewrite EW. cbn [bind].
    destruct (IH (off + lenN W) Hwf Hbx Hby Hbz) as (os & ws & E).
    { rewrite two24_val. nia. }
    rewrite E. cbn [bind]. eauto.
Qed.

Theorem encode_ok dt nc g a :
  wf_arr (dt_bound dt) a -> a_c a = nc ->
  g_bx g <> 0 -> g_by g <> 0 -> g_bz g <> 0 ->
  enc_size_bound dt a g < two24 ->
  exists buf, cseg_encode dt nc g a = Ok buf.
Proof.
  intros Hwf Hc Hbx Hby Hbz Hb. unfold cseg_encode.
  destruct (N.eqb_spec (a_c a) nc); [|contradiction]. cbn [negb].
  destruct (N.eqb_spec (g_bx g) 0); [contradiction|].
  destruct (N.eqb_spec (g_by g) 0); [contradiction|].
  destruct (N.eqb_spec (g_bz g) 0); [contradiction|]. cbn [orb].
  unfold encode_words.
  destruct (enc_channels_ok dt a g (range (a_c a)) (a_c a) Hwf Hbx Hby Hbz) as (os & ws & E).
  { rewrite range_length. exact Hb. }
  rewrite E. cbn [bind]. eauto.
Qed.
