(* Model of _jpeg.decode_chunk (as of /repo commit 95d7b2e).  Pillow is an oracle: the harness reports what
   PIL.Image.open and the pixel load did on the same bytes. *)
From Coq Require Import NArith List Bool Lia.
From NGS Require Import Val Ints Words Arr4.
Import ListNotations.
Open Scope N_scope.

Inductive pil_load : Type :=
| LoadFail                              (* the lazy load inside np.asarray(img) raised *)
| Pixels (bands : N) (px : list N).     (* h*w*bands samples, row major, band fastest *)

Inductive pil_result : Type :=
| OpenFail                                              (* PIL.Image.open raised *)
| Opened (mode : list N) (w h : N) (ld : pil_load).     (* mode as ASCII *)

Definition mode_L : list N := [76].
Definition mode_RGB : list N := [82; 71; 66].

(* np.moveaxis(flat_chunk, -1, 0) followed by the C-order reshape *)
Definition bands_first (bands : N) (px : list N) : list N :=
  let n := lenN px / bands in
  flat_map (fun c => map (fun i => nthN px (i * bands + c) 0) (range n)) (range bands).

Definition jpeg_decode (nc cx cy cz : N) (r : pil_result) : outcome arr4 :=
  match r with
  | OpenFail => FormatErr
  | Opened mode w h ld =>
      if (nc =? 1) && negb (list_eqb mode mode_L) then FormatErr
      else if (nc =? 3) && negb (list_eqb mode mode_RGB) then FormatErr
      else match ld with
           | LoadFail => FormatErr                 (* caught: except Exception -> InvalidFormatError *)
           | Pixels bands px =>
               let data := if (nc =? 3) && negb (bands =? 0) then bands_first bands px else px in
               if negb (lenN px =? nc * cz * cy * cx) then FormatErr
               else Ok {| a_c := nc; a_z := cz; a_y := cy; a_x := cx; a_data := data |}
           end
  end.
