(* C10: the decoder models on arbitrary byte strings: the only possible
   outcomes are an array of the requested shape or the format error, for the
   compressed_segmentation decoder, the raw decoder and the JPEG glue. *)
From Coq Require Import NArith ZArith List Bool Lia ZifyBool ZifyNat ZifyN.
From NGS Require Import Val Ints Words Arr4 CSegEncode CSegDecode RawCodec JpegGlue
     WordsProofs Arr4Proofs.
Import ListNotations.
Open Scope Z_scope.

Ltac Zify.zify_post_hook ::= Z.to_euclidean_division_equations.

(* ---------- py_slice ---------- *)

Lemma py_norm_range L i : 0 <= L -> 0 <= py_norm L i <= L.
Proof. unfold py_norm. intros H. destruct (Z.ltb_spec i 0); lia. Qed.

Lemma py_slice_length (l : list N) s e :
  zlen (py_slice l s e) = Z.max 0 (py_norm (zlen l) e - py_norm (zlen l) s).
Proof.
  unfold py_slice, zlen.
  assert (H1 := py_norm_range (Z.of_nat (length l)) s ltac:(lia)).
  assert (H2 := py_norm_range (Z.of_nat (length l)) e ltac:(lia)).
  destruct (Z.leb_spec (py_norm (Z.of_nat (length l)) e) (py_norm (Z.of_nat (length l)) s)).
  - simpl length. lia.
  - rewrite firstn_length, skipn_length. lia.
Qed.

Lemma lenN_zlen (l : list N) : Z.of_N (lenN l) = zlen l.
Proof. unfold lenN, zlen. lia. Qed.

(* ---------- outcomes that are a result or the format error ---------- *)

Definition fine {A} (o : outcome A) : bool :=
  match o with Ok _ | FormatErr => true | _ => false end.

Lemma fine_bind {A B} (o : outcome A) (f : A -> outcome B) :
  fine o = true -> (forall a, o = Ok a -> fine (f a) = true) -> fine (bind o f) = true.
Proof. destruct o; simpl; intros H1 H2; auto; discriminate. Qed.

Lemma mapM_fine {A B} (f : A -> outcome B) l :
  (forall x, In x l -> fine (f x) = true) -> fine (mapM f l) = true.
Proof.
  induction l as [|x l IH]; intros H; [reflexivity|].
  cbn [mapM]. apply fine_bind.
  - apply H. now left.
  - intros b _. apply fine_bind.
    + apply IH. intros y Hy. apply H. now right.
    + reflexivity.
Qed.

Lemma fine_cases {A} (o : outcome A) : fine o = true -> o = FormatErr \/ exists a, o = Ok a.
Proof. destruct o; simpl; intros H; try discriminate; eauto. Qed.

Lemma mapM_length {A B} (f : A -> outcome B) l r : mapM f l = Ok r -> length r = length l.
Proof.
  revert r. induction l as [|x l IH]; intros r H; cbn [mapM] in H.
  - now inversion H.
  - destruct (f x); try discriminate. cbn [bind] in H.
    destruct (mapM f l); try discriminate. cbn [bind] in H. inversion H; subst.
    simpl. f_equal. now apply IH.
Qed.

(* ---------- frombuffer never fails inside decode_block ---------- *)

Lemma frombuffer_ok isz b :
  (lenN b mod isz = 0)%N -> exists t, frombuffer isz b = Ok t.
Proof.
  intros H. unfold frombuffer. destruct (N.eqb_spec (lenN b mod isz) 0); [eauto|contradiction].
Qed.

Lemma items_of_length n c (l : list N) : length (items_of n c l) = c.
Proof. revert l. induction c; intros l; simpl; auto. Qed.

Lemma table_slice_aligned (cbuf : list N) lut_off isz P :
  8 <= zlen cbuf -> 0 <= lut_off -> (isz = 4 \/ isz = 8) -> 0 < P ->
  zlen (py_slice cbuf lut_off (lut_off + isz * Z.min P ((zlen cbuf - lut_off) / isz))) mod isz = 0.
Proof.
  intros Hlen Hoff Hisz HP. rewrite py_slice_length.
  set (L := zlen cbuf) in *. set (q := (L - lut_off) / isz).
  unfold py_norm.
  destruct (Z.ltb_spec lut_off 0); [lia|].
  destruct (Z.le_gt_cases lut_off L) as [Hin|Hout].
  - assert (Hq : 0 <= q) by (subst q; apply Z.div_pos; lia).
    assert (Hqm : isz * q <= L - lut_off) by (subst q; apply Z.mul_div_le; lia).
    set (m := Z.min P q). assert (Hm : 0 <= m <= q) by lia.
    destruct (Z.ltb_spec (lut_off + isz * m) 0); [nia|].
    replace (Z.min lut_off L) with lut_off by lia.
    replace (Z.min (lut_off + isz * m) L) with (lut_off + isz * m) by nia.
    replace (Z.max 0 (lut_off + isz * m - lut_off)) with (m * isz) by nia.
    apply Z.mod_mul. lia.
  - assert (Hq : q < 0) by (subst q; apply Z.div_lt_upper_bound; lia).
    assert (Hqm : isz * q <= L - lut_off) by (subst q; apply Z.mul_div_le; lia).
    replace (Z.min P q) with q by lia.
    replace (Z.min lut_off L) with L by lia.
    destruct (Z.ltb_spec (lut_off + isz * q) 0).
    + replace (Z.max 0 (Z.max (lut_off + isz * q + L) 0 - L)) with 0 by lia. apply Z.mod_0_l. lia.
    + replace (Z.max 0 (Z.min (lut_off + isz * q) L - L)) with 0 by lia. apply Z.mod_0_l. lia.
Qed.

Lemma mod_Z_to_N (l : list N) (isz : N) :
  (0 < isz)%N -> zlen l mod Z.of_N isz = 0 -> (lenN l mod isz = 0)%N.
Proof.
  intros Hi H. rewrite <- lenN_zlen in H. rewrite <- N2Z.inj_mod in H by lia. lia.
Qed.

Lemma u32_at_nonneg buf off : 0 <= u32_at buf off.
Proof. unfold u32_at. lia. Qed.

(* the only crash of a block iteration is struct.error, and it happens exactly
   when the channel buffer has no room for the block header; np.frombuffer is
   never reached with a misaligned length *)
Lemma decode_block_crash dt cbuf B k :
  if zlen cbuf <? 8 * Z.of_N k + 8
  then decode_block dt cbuf B k = Crash StructError
  else fine (decode_block dt cbuf B k) = true.
Proof.
  unfold decode_block.
  destruct (Z.ltb_spec (zlen cbuf) (8 * Z.of_N k + 8)) as [Hs|Hl]; [reflexivity|].
  set (res0 := u32_at cbuf (8 * Z.of_N k)).
  set (res1 := u32_at cbuf (8 * Z.of_N k + 4)).
  assert (H0 : 0 <= res0) by apply u32_at_nonneg.
  assert (H1 : 0 <= res1) by apply u32_at_nonneg.
  destruct (bits_ok (res0 / 2 ^ 24)) eqn:Hb; [|reflexivity]. cbn [negb].
  assert (Hbits : 0 <= res0 / 2 ^ 24) by (apply Z.div_pos; lia).
  assert (Hlo : 0 <= 4 * (res0 mod 2 ^ 24)).
  { assert (0 <= res0 mod 2 ^ 24) by (apply Z.mod_pos_bound; lia). lia. }
  assert (HP : 0 < 2 ^ (res0 / 2 ^ 24)) by (apply Z.pow_pos_nonneg; lia).
  assert (Hal := table_slice_aligned cbuf (4 * (res0 mod 2 ^ 24)) (Z.of_N (itemsize dt))
                   (2 ^ (res0 / 2 ^ 24)) ltac:(lia) Hlo ltac:(destruct dt; simpl; lia) HP).
  apply mod_Z_to_N in Hal; [|destruct dt; simpl; lia].
  destruct (frombuffer_ok _ _ Hal) as [table Ht]. rewrite Ht. cbn [bind].
  destruct (res0 / 2 ^ 24 =? 0) eqn:Hz.
  - destruct table; reflexivity.
  - set (vend := 4 * res1 + 4 * py_ceil_div (Z.of_N B) (32 / (res0 / 2 ^ 24))).
    destruct (Z.ltb_spec (zlen cbuf) vend) as [|Hv]; [reflexivity|].
    assert (Hvp : 0 <= py_ceil_div (Z.of_N B) (32 / (res0 / 2 ^ 24))).
    { unfold py_ceil_div.
      assert (Hd : 0 < 32 / (res0 / 2 ^ 24)).
      { unfold bits_ok in Hb. apply Z.eqb_neq in Hz.
        repeat (apply orb_prop in Hb; destruct Hb as [Hb|Hb]);
          apply Z.eqb_eq in Hb; rewrite Hb in *; try reflexivity; try lia. }
      assert (-1 <= (Z.of_N B - 1) / (32 / (res0 / 2 ^ 24))).
      { apply Z.div_le_lower_bound; lia. }
      lia. }
    assert (Hal2 : (lenN (py_slice cbuf (4 * res1) vend) mod 4 = 0)%N).
    { apply mod_Z_to_N; [lia|]. rewrite py_slice_length. unfold py_norm.
      destruct (Z.ltb_spec (4 * res1) 0); [lia|].
      destruct (Z.ltb_spec vend 0); [lia|].
      replace (Z.max 0 (Z.min vend (zlen cbuf) - Z.min (4 * res1) (zlen cbuf)))
        with (py_ceil_div (Z.of_N B) (32 / (res0 / 2 ^ 24)) * 4) by (subst vend; lia).
      apply Z.mod_mul. lia. }
    destruct (frombuffer_ok _ _ Hal2) as [packed Hp]. rewrite Hp. cbn [bind].
    destruct (lookup_all _ _); reflexivity.
Qed.

Lemma decode_channel_fine dt cbuf B nblk :
  8 * Z.of_N nblk <= zlen cbuf -> fine (decode_channel dt cbuf B nblk) = true.
Proof.
  intros H. unfold decode_channel. apply mapM_fine. intros k Hk.
  apply range_In in Hk.
  assert (Hc := decode_block_crash dt cbuf B k).
  destruct (Z.ltb_spec (zlen cbuf) (8 * Z.of_N k + 8)); [lia|exact Hc].
Qed.

(* ---------- the channel loop ---------- *)

Lemma decode_channels_fine dt buf B nblk offs :
  Forall (fun o => 0 <= o) offs ->
  fine (decode_channels dt buf B nblk offs) = true.
Proof.
  induction offs as [|off rest IH]; intros Hpos; [reflexivity|].
  cbn [decode_channels].
  destruct (Z.ltb_spec (zlen buf) (off + 8 * Z.of_N nblk)) as [|Hlen]; [reflexivity|].
  inversion Hpos as [|? ? Hoff Hrest]; subst.
  apply fine_bind.
  - apply decode_channel_fine. rewrite py_slice_length. unfold py_norm.
    destruct (Z.ltb_spec off 0); [lia|]. destruct (Z.ltb_spec (zlen buf) 0); lia.
  - intros blocks _. apply fine_bind; [|reflexivity]. now apply IH.
Qed.

Lemma channel_offsets_nonneg buf nc : Forall (fun o => 0 <= o) (channel_offsets buf nc).
Proof.
  unfold channel_offsets. apply Forall_forall. intros o Ho. apply in_map_iff in Ho.
  destruct Ho as (c & <- & _). assert (H := u32_at_nonneg buf (4 * Z.of_N c)). lia.
Qed.

(* every result has exactly the requested shape, and that many entries *)
Theorem cseg_decode_shape dt nc g cx cy cz buf a :
  cseg_decode dt nc g cx cy cz buf = Ok a ->
  same_shape a nc cz cy cx /\ lenN (a_data a) = (nc * cz * cy * cx)%N.
Proof.
  unfold cseg_decode.
  destruct ((g_bx g =? 0) || (g_by g =? 0) || (g_bz g =? 0))%N; [discriminate|].
  destruct (zlen buf <? _); [discriminate|].
  destruct (decode_channels _ _ _ _ _); try discriminate. cbn [bind].
  intros H; inversion H; subst. unfold assemble. split.
  - apply tab4_shape.
  - apply tab4_length.
Qed.

(* C10: for EVERY byte string, chunk size, (non-zero) block size, channel count
   and label type the decoder returns an array of exactly the requested shape
   or reports the format error; no other exception escapes *)
Theorem cseg_decode_total dt nc g cx cy cz buf :
  (g_bx g <> 0 /\ g_by g <> 0 /\ g_bz g <> 0)%N ->
  cseg_decode dt nc g cx cy cz buf = FormatErr \/
  exists a, cseg_decode dt nc g cx cy cz buf = Ok a /\
            same_shape a nc cz cy cx /\ lenN (a_data a) = (nc * cz * cy * cx)%N.
Proof.
  intros (Hx & Hy & Hz).
  assert (Hf : fine (cseg_decode dt nc g cx cy cz buf) = true).
  { unfold cseg_decode.
    destruct (N.eqb_spec (g_bx g) 0); [contradiction|].
    destruct (N.eqb_spec (g_by g) 0); [contradiction|].
    destruct (N.eqb_spec (g_bz g) 0); [contradiction|]. cbn [orb].
    destruct (zlen buf <? _); [reflexivity|].
    apply fine_bind; [|reflexivity].
    apply decode_channels_fine, channel_offsets_nonneg. }
  destruct (fine_cases _ Hf) as [E|[a E]]; [now left|right].
  exists a. split; [exact E|]. now apply cseg_decode_shape in E.
Qed.

(* ---------- raw ---------- *)

Theorem raw_decode_total isz nc cx cy cz buf :
  (isz <> 0)%N ->
  (exists a, raw_decode isz nc cx cy cz buf = Ok a /\ same_shape a nc cz cy cx /\
             lenN (a_data a) = (nc * cz * cy * cx)%N /\
             lenN buf = (nc * cz * cy * cx * isz)%N)
  \/ (raw_decode isz nc cx cy cz buf = FormatErr /\ lenN buf <> (nc * cz * cy * cx * isz)%N).
Proof.
  intros Hi. unfold raw_decode.
  destruct (N.eqb_spec isz 0); [contradiction|].
  destruct (N.eqb_spec (lenN buf mod isz) 0) as [Hm|Hm]; cbn [negb].
  - destruct (N.eqb_spec (lenN buf / isz) (nc * cz * cy * cx)) as [Hc|Hc]; cbn [negb].
    + left. eexists. split; [reflexivity|]. split; [repeat split|]. cbn [a_data]. split.
      * unfold lenN at 1. rewrite items_of_length. lia.
      * assert (E := N.div_mod (lenN buf) isz Hi). nia.
    + right. split; [reflexivity|]. intros E. apply Hc. rewrite E. apply N.div_mul. exact Hi.
  - right. split; [reflexivity|]. intros E. apply Hm. rewrite E. apply N.mod_mul. exact Hi.
Qed.

(* ---------- JPEG glue ---------- *)

(* what Pillow hands over is h*w*bands samples *)
Definition pil_wf (r : pil_result) : Prop :=
  match r with
  | Opened _ w h (Pixels bands px) => lenN px = (h * w * bands)%N
  | _ => True
  end.

Lemma bands_first_length bands px :
  lenN (bands_first bands px) = (bands * (lenN px / bands))%N.
Proof.
  unfold bands_first. apply lenN_flat_map_range. intros c _. apply lenN_map_range.
Qed.

(* whatever Pillow does with the bytes (oracle argument), the glue returns an
   array of the requested shape or the format error *)
Theorem jpeg_glue_total nc cx cy cz r :
  pil_wf r ->
  jpeg_decode nc cx cy cz r = FormatErr \/
  exists a, jpeg_decode nc cx cy cz r = Ok a /\ same_shape a nc cz cy cx /\
            lenN (a_data a) = (nc * cz * cy * cx)%N.
Proof.
  intros Hwf. unfold jpeg_decode. destruct r as [|mode w h ld]; [now left|].
  destruct ((nc =? 1)%N && negb (list_eqb mode mode_L)); [now left|].
  destruct ((nc =? 3)%N && negb (list_eqb mode mode_RGB)); [now left|].
  destruct ld as [|bands px]; [now left|].
  destruct (N.eqb_spec (lenN px) (nc * cz * cy * cx)) as [Hl|]; cbn [negb]; [|now left].
  right. eexists. split; [reflexivity|]. split; [repeat split|]. cbn [a_data].
  destruct (nc =? 3)%N; cbn [andb]; [|exact Hl].
  destruct (N.eqb_spec bands 0) as [|Hb]; cbn [negb]; [exact Hl|].
  rewrite bands_first_length. cbn [pil_wf] in Hwf. rewrite <- Hl, Hwf.
  rewrite N.div_mul by exact Hb. lia.
Qed.

(* ---------- raw round trip: valid data is never rejected ---------- *)

Lemma flat_le_bytes_length n (l : list N) :
  length (flat_map (le_bytes n) l) = (n * length l)%nat.
Proof.
  induction l as [|v l IH]; cbn [flat_map]; [simpl; lia|].
  rewrite app_length, le_bytes_length, IH. simpl. lia.
Qed.

Lemma items_of_le_bytes n (l : list N) :
  Forall (fun v => (v < two8 ^ N.of_nat n)%N) l ->
  items_of n (length l) (flat_map (le_bytes n) l) = l.
Proof.
  induction 1 as [|v l Hv Hl IH]; [reflexivity|].
  cbn [flat_map length items_of].
  rewrite firstn_app, le_bytes_length, Nat.sub_diag. cbn [firstn]. rewrite app_nil_r.
  rewrite firstn_all2 by (rewrite le_bytes_length; lia).
  rewrite le_val_le_bytes by assumption.
  rewrite skipn_app, le_bytes_length, Nat.sub_diag.
  rewrite skipn_all2 by (rewrite le_bytes_length; lia). cbn [skipn app].
  now rewrite IH.
Qed.

Theorem raw_roundtrip isz nc a buf :
  (isz <> 0)%N -> wf_arr (two8 ^ isz) a ->
  raw_encode isz nc a = Ok buf ->
  raw_decode isz nc (a_x a) (a_y a) (a_z a) buf = Ok a.
Proof.
  intros Hi [Hlen Hb]. unfold raw_encode.
  destruct (N.eqb_spec (a_c a) nc) as [Hc|]; [|discriminate]. cbn [negb].
  intros E. inversion E; subst buf. clear E.
  unfold raw_decode. destruct (N.eqb_spec isz 0); [contradiction|].
  assert (HL : lenN (flat_map (le_bytes (N.to_nat isz)) (a_data a)) = (isz * lenN (a_data a))%N).
  { unfold lenN. rewrite flat_le_bytes_length. lia. }
  rewrite HL.
  replace ((isz * lenN (a_data a)) mod isz)%N with 0%N
    by (symmetry; rewrite N.mul_comm; apply N.mod_mul; assumption).
  cbn [N.eqb negb].
  replace ((isz * lenN (a_data a)) / isz)%N with (lenN (a_data a))
    by (symmetry; rewrite N.mul_comm; apply N.div_mul; assumption).
  unfold size4 in Hlen. rewrite Hlen, <- Hc, N.eqb_refl. cbn [negb].
  destruct a as [C Z Y X data]. cbn [a_c a_z a_y a_x a_data] in *. f_equal. f_equal.
  rewrite <- Hlen. unfold lenN. rewrite Nat2N.id.
  apply items_of_le_bytes. rewrite N2Nat.id. exact Hb.
Qed.
