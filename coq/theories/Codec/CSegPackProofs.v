(* Bit packing: digits of from_digits, words of pack_values, unpack o pack. *)
From Coq Require Import NArith ZArith List Bool Lia ZifyBool ZifyNat ZifyN.
From NGS Require Import Val Ints Words Arr4 CSegEncode CSegDecode WordsProofs Arr4Proofs.
Import ListNotations.
Open Scope N_scope.

Ltac Zify.zify_post_hook ::= Z.to_euclidean_division_equations.

Definition digit (b s w : N) : N := (w / 2 ^ (s * b)) mod 2 ^ b.

Lemma nthN_cons_pos {A} (x : A) l s d : 0 < s -> nthN (x :: l) s d = nthN l (s - 1) d.
Proof.
  unfold nthN. intros H. replace (N.to_nat s) with (S (N.to_nat (s - 1))) by lia. reflexivity.
Qed.
Lemma nthN_cons_0 {A} (x : A) l d : nthN (x :: l) 0 d = x.
Proof. reflexivity. Qed.
Lemma nthN_overflow {A} (l : list A) s d : lenN l <= s -> nthN l s d = d.
Proof. unfold nthN, lenN. intros H. apply nth_overflow. lia. Qed.

Lemma pow2_pos k : 0 < 2 ^ k.
Proof. assert (H := N.pow_nonzero 2 k ltac:(lia)). lia. Qed.

Lemma from_digits_digit b vs :
  Forall (fun v => v < 2 ^ b) vs -> forall s, digit b s (from_digits b vs) = nthN vs s 0.
Proof.
  unfold digit. induction 1 as [|v r Hv Hr IH]; intros s.
  - cbn [from_digits]. rewrite N.div_0_l by (apply N.pow_nonzero; lia).
    rewrite N.mod_0_l by (apply N.pow_nonzero; lia). unfold nthN. now destruct (N.to_nat s).
  - cbn [from_digits]. assert (Hp := pow2_pos b).
    destruct (N.eq_dec s 0) as [->|Hs].
    + rewrite N.mul_0_l, N.pow_0_r, N.div_1_r, nthN_cons_0.
      replace (v + 2 ^ b * from_digits b r) with (v + from_digits b r * 2 ^ b) by lia.
      rewrite N.mod_add by lia. apply N.mod_small. exact Hv.
    + rewrite nthN_cons_pos by lia. rewrite <- IH.
      replace (s * b) with (b + (s - 1) * b) by nia.
      rewrite N.pow_add_r, <- N.div_div by (apply N.pow_nonzero; lia).
      f_equal. f_equal.
      replace (v + 2 ^ b * from_digits b r) with (from_digits b r * 2 ^ b + v) by lia.
      rewrite N.div_add_l by lia.
      rewrite (N.div_small v) by exact Hv. lia.
Qed.

Lemma from_digits_bound b vs :
  Forall (fun v => v < 2 ^ b) vs -> from_digits b vs < 2 ^ (b * lenN vs).
Proof.
  induction 1 as [|v r Hv Hr IH].
  - cbn [from_digits]. apply pow2_pos.
  - cbn [from_digits]. rewrite lenN_cons.
    replace (b * (1 + lenN r)) with (b + b * lenN r) by lia. rewrite N.pow_add_r.
    assert (Hp := pow2_pos b). nia.
Qed.

(* ---------- pack_n ---------- *)

Lemma pack_n_length n b vpw l : length (pack_n n b vpw l) = n.
Proof. revert l. induction n; intros l; simpl; auto. Qed.

Lemma pack_n_nth n b vpw l k :
  (k < n)%nat ->
  nth k (pack_n n b vpw l) 0 = from_digits b (firstn vpw (skipn (k * vpw) l)).
Proof.
  revert l k. induction n; intros l k H; [lia|].
  cbn [pack_n]. destruct k.
  - reflexivity.
  - cbn [nth]. rewrite IHn by lia. rewrite skipn_skipn'. reflexivity.
Qed.

Lemma Forall_firstn {A} (P : A -> Prop) n l : Forall P l -> Forall P (firstn n l).
Proof.
  intros H. revert n. induction H; intros [|n]; simpl; constructor; auto.
Qed.
Lemma Forall_skipn {A} (P : A -> Prop) n l : Forall P l -> Forall P (skipn n l).
Proof.
  intros H. revert n. induction H; intros [|n]; simpl; auto.
Qed.

Lemma pack_n_bound n b vpw l :
  Forall (fun v => v < 2 ^ b) l -> b * N.of_nat vpw <= 32 ->
  Forall (fun w => w < two32) (pack_n n b vpw l).
Proof.
  revert l. induction n; intros l Hl Hb; cbn [pack_n]; constructor.
  - eapply N.lt_le_trans; [apply from_digits_bound; now apply Forall_firstn|].
    rewrite two32_val. change 4294967296 with (2 ^ 32). apply N.pow_le_mono_r; [lia|].
    unfold lenN. rewrite firstn_length. nia.
  - apply IHn; auto. now apply Forall_skipn.
Qed.

(* the digits of one packed word are its group of indices, zero padded *)
Lemma digits_of_group b vpw grp :
  Forall (fun v => v < 2 ^ b) grp -> lenN grp <= vpw ->
  map (fun s => digit b s (from_digits b grp)) (range vpw)
  = grp ++ repeat 0 (N.to_nat (vpw - lenN grp)).
Proof.
  intros Hg Hl. apply nthN_ext.
  - rewrite lenN_map_range, lenN_app. unfold lenN at 2. rewrite repeat_length. lia.
  - intros i Hi. rewrite lenN_map_range in Hi. rewrite nthN_map_range by assumption.
    rewrite from_digits_digit by assumption.
    destruct (N.lt_ge_cases i (lenN grp)) as [Hlt|Hge].
    + now rewrite nthN_app1.
    + rewrite nthN_app2 by assumption. rewrite nthN_overflow by assumption.
      unfold nthN. symmetry. apply nth_repeat.
Qed.

Lemma unpack_all_pack_n n b vpw l :
  Forall (fun v => v < 2 ^ b) l -> 0 < vpw -> lenN l <= N.of_nat n * vpw ->
  flat_map (fun w => map (fun s => digit b s w) (range vpw)) (pack_n n b (N.to_nat vpw) l)
  = l ++ repeat 0 (N.to_nat (N.of_nat n * vpw - lenN l)).
Proof.
  revert l. induction n; intros l Hl Hv Hlen.
  - destruct l; [reflexivity|]. rewrite lenN_cons in Hlen. lia.
  - cbn [pack_n flat_map].
    rewrite digits_of_group.
    2:{ now apply Forall_firstn. }
    2:{ unfold lenN. rewrite firstn_length. lia. }
    destruct (N.le_gt_cases vpw (lenN l)) as [Hge|Hlt].
    + rewrite IHn.
      2:{ now apply Forall_skipn. }
      2:{ assumption. }
      2:{ unfold lenN in *. rewrite skipn_length. lia. }
      assert (E1 : lenN (firstn (N.to_nat vpw) l) = vpw).
      { unfold lenN in *. rewrite firstn_length. lia. }
      rewrite E1. replace (N.to_nat (vpw - vpw)) with 0%nat by lia. cbn [repeat]. rewrite app_nil_r.
      rewrite app_assoc, firstn_skipn. f_equal. f_equal.
      unfold lenN in *. rewrite skipn_length. lia.
    + rewrite firstn_all2 by (unfold lenN in *; lia).
      rewrite skipn_all2 by (unfold lenN in *; lia).
      rewrite IHn.
      2:{ constructor. }
      2:{ assumption. }
      2:{ rewrite lenN_nil. lia. }
      cbn [app]. rewrite <- app_assoc. f_equal. rewrite <- repeat_app. f_equal.
      rewrite lenN_nil. lia.
Qed.

(* ---------- the bit widths of the format ---------- *)

Definition pos_bits (b : N) : Prop := b = 1 \/ b = 2 \/ b = 4 \/ b = 8 \/ b = 16 \/ b = 32.

Lemma pos_bits_vpw b : pos_bits b -> 0 < 32 / b /\ b * (32 / b) = 32 /\ b <> 0.
Proof. intros [->|[->|[->|[->|[->| ->]]]]]; repeat split; try reflexivity; lia. Qed.

Lemma pack_values_length b idx :
  pos_bits b -> lenN (pack_values b idx) = cdiv (lenN idx) (32 / b).
Proof.
  intros Hb. destruct (pos_bits_vpw b Hb) as (Hv & _ & Hn0).
  unfold pack_values. destruct (N.eqb_spec b 0); [contradiction|].
  unfold lenN at 1. rewrite pack_n_length. lia.
Qed.

Lemma pack_values_0 idx : pack_values 0 idx = [].
Proof. reflexivity. Qed.

Lemma pack_values_bound b idx :
  Forall (fun v => v < 2 ^ b) idx -> Forall (fun w => w < two32) (pack_values b idx).
Proof.
  intros H. unfold pack_values. destruct (N.eqb_spec b 0); [constructor|].
  apply pack_n_bound; [assumption|].
  rewrite N2Nat.id. assert (Hd := N.mul_div_le 32 b ltac:(lia)). lia.
Qed.

(* (1) unpack o pack = id, for every bit width of the format and any count *)
Theorem unpack_pack b idx :
  pos_bits b -> Forall (fun v => v < 2 ^ b) idx ->
  unpack_values (pack_values b idx) b (lenN idx) = idx.
Proof.
  intros Hb Hidx. destruct (pos_bits_vpw b Hb) as (Hv & Hm & Hn0).
  unfold unpack_values, pack_values. destruct (N.eqb_spec b 0); [contradiction|].
  change (fun w : N => map (fun s : N => (w / 2 ^ (s * b)) mod 2 ^ b) (range (32 / b)))
    with (fun w : N => map (fun s : N => digit b s w) (range (32 / b))).
  rewrite unpack_all_pack_n; try assumption.
  - rewrite firstn_app. unfold lenN. rewrite Nat2N.id, firstn_all, Nat.sub_diag. cbn [firstn].
    apply app_nil_r.
  - rewrite N2Nat.id. apply cdiv_le. assumption.
Qed.

(* pointwise reading of the packed words, as the format document describes it *)
Lemma pack_values_digit b idx p :
  pos_bits b -> Forall (fun v => v < 2 ^ b) idx -> p < lenN idx ->
  digit b (p mod (32 / b)) (nthN (pack_values b idx) (p / (32 / b)) 0) = nthN idx p 0.
Proof.
  intros Hb Hidx Hp. destruct (pos_bits_vpw b Hb) as (Hv & Hm & Hn0).
  set (vpw := 32 / b) in *.
  unfold pack_values. destruct (N.eqb_spec b 0); [contradiction|]. fold vpw.
  assert (Hk : p / vpw < cdiv (lenN idx) vpw) by (apply div_lt_cdiv; assumption).
  unfold nthN at 1. rewrite pack_n_nth by lia.
  rewrite from_digits_digit by (apply Forall_firstn, Forall_skipn; assumption).
  assert (Hm' : p mod vpw < vpw) by (apply N.mod_lt; lia).
  unfold nthN. rewrite nth_firstn' by lia. rewrite nth_skipn'. f_equal.
  assert (E := N.div_mod p vpw ltac:(lia)). lia.
Qed.

(* bit position arithmetic of the format: bit offset p*b splits into word p/vpw
   and shift (p mod vpw)*b *)
Lemma bitpos_split b p :
  pos_bits b -> p * b / 32 = p / (32 / b) /\ (p * b) mod 32 = (p mod (32 / b)) * b.
Proof.
  intros [->|[->|[->|[->|[->| ->]]]]].
  - change (32 / 1) with 32. lia.
  - change (32 / 2) with 16. lia.
  - change (32 / 4) with 8. lia.
  - change (32 / 8) with 4. lia.
  - change (32 / 16) with 2. lia.
  - change (32 / 32) with 1. lia.
Qed.

(* Fidelity of modelling np.bitwise_or of the shifted lanes by a sum: the lanes
   are disjoint, so OR-ing a digit below 2^b with the remaining digits shifted
   left by b bits is the same number as adding them. *)
Lemma lor_shift_add b v F : v < 2 ^ b -> N.lor v (N.shiftl F b) = v + 2 ^ b * F.
Proof.
  intros Hv. rewrite N.shiftl_mul_pow2.
  assert (Hland : N.land v (F * 2 ^ b) = 0).
  { apply N.bits_inj. intros i. rewrite N.land_spec, N.bits_0.
    destruct (N.lt_ge_cases i b) as [Hlt|Hge].
    - rewrite N.mul_pow2_bits_low by exact Hlt. apply andb_false_r.
    - rewrite <- (N.mod_small v (2 ^ b)) by exact Hv.
      rewrite N.mod_pow2_bits_high by exact Hge. reflexivity. }
  rewrite <- N.lxor_lor by exact Hland.
  rewrite <- N.add_nocarry_lxor by exact Hland. lia.
Qed.

Fixpoint from_digits_or (bits : N) (vs : list N) : N :=
  match vs with [] => 0 | v :: r => N.lor v (N.shiftl (from_digits_or bits r) bits) end.

Lemma from_digits_lor b vs :
  Forall (fun v => v < 2 ^ b) vs -> from_digits_or b vs = from_digits b vs.
Proof.
  induction 1 as [|v r Hv Hr IH]; [reflexivity|].
  cbn [from_digits_or from_digits]. rewrite IH. now apply lor_shift_add.
Qed.
