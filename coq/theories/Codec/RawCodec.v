(* Model of chunk_encoding.RawChunkEncoder: values are the little-endian
   unsigned bit patterns of the items (float32 items are compared as bit
   patterns). *)
From Coq Require Import NArith List Bool Lia.
From NGS Require Import Val Ints Words Arr4.
Import ListNotations.
Open Scope N_scope.

(* encode(chunk) for a 4-D chunk whose dtype is the encoder's *)
Definition raw_encode (isz : N) (nc : N) (a : arr4) : outcome (list N) :=
  if negb (a_c a =? nc) then Crash AssertionError
  else Ok (flat_map (le_bytes (N.to_nat isz)) (a_data a)).

(* decode(buf, (cx, cy, cz)): np.frombuffer + reshape, every exception turned
   into InvalidFormatError *)
Definition raw_decode (isz : N) (nc cx cy cz : N) (buf : list N) : outcome arr4 :=
  if isz =? 0 then Crash ZeroDivisionError else    (* not a dtype: outside the encoder's domain *)
  if negb (lenN buf mod isz =? 0) then FormatErr
  else let cnt := lenN buf / isz in
       if negb (cnt =? nc * cz * cy * cx) then FormatErr
       else Ok {| a_c := nc; a_z := cz; a_y := cy; a_x := cx;
                  a_data := items_of (N.to_nat isz) (N.to_nat cnt) buf |}.
