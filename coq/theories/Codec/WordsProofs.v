(* Lemmas about little-endian words, byte strings and slices. *)
From Coq Require Import NArith ZArith List Bool Lia ZifyBool ZifyNat ZifyN.
From NGS Require Import Val Ints Words.
Import ListNotations.
Open Scope N_scope.

Ltac Zify.zify_post_hook ::= Z.to_euclidean_division_equations.

(* ---------- list lemmas missing from the 8.16 library ---------- *)

Lemma skipn_skipn' {A} (a b : nat) (l : list A) : skipn a (skipn b l) = skipn (b + a) l.
Proof.
  revert l. induction b; intros l; [reflexivity|].
  destruct l; simpl; [now rewrite skipn_nil|]. apply IHb.
Qed.
Lemma nth_skipn' {A} (n i : nat) (l : list A) d : nth i (skipn n l) d = nth (n + i) l d.
Proof.
  revert l. induction n; intros l; [reflexivity|].
  destruct l; simpl; [now destruct i|]. apply IHn.
Qed.
Lemma nth_firstn' {A} (n i : nat) (l : list A) d : (i < n)%nat -> nth i (firstn n l) d = nth i l d.
Proof.
  revert i l. induction n; intros i l H; [lia|].
  destruct l; [reflexivity|]. destruct i; simpl; [reflexivity|]. apply IHn. lia.
Qed.

(* ---------- N-indexed list helpers ---------- *)

Lemma lenN_app {A} (a b : list A) : lenN (a ++ b) = lenN a + lenN b.
Proof. unfold lenN. rewrite app_length. lia. Qed.
Lemma lenN_rev {A} (a : list A) : lenN (rev a) = lenN a.
Proof. unfold lenN. now rewrite rev_length. Qed.
Lemma lenN_map {A B} (f : A -> B) (a : list A) : lenN (map f a) = lenN a.
Proof. unfold lenN. now rewrite map_length. Qed.
Lemma lenN_cons {A} (x : A) (a : list A) : lenN (x :: a) = 1 + lenN a.
Proof. unfold lenN. simpl length. lia. Qed.
Lemma lenN_nil {A} : lenN (@nil A) = 0.
Proof. reflexivity. Qed.

Lemma nthN_app1 {A} (a b : list A) i d : i < lenN a -> nthN (a ++ b) i d = nthN a i d.
Proof. unfold nthN, lenN. intros H. apply app_nth1. lia. Qed.
Lemma nthN_app2 {A} (a b : list A) i d : lenN a <= i -> nthN (a ++ b) i d = nthN b (i - lenN a) d.
Proof.
  unfold nthN, lenN. intros H. rewrite app_nth2 by lia. f_equal. lia.
Qed.
Lemma nthN_map {A B} (f : A -> B) (l : list A) i d d' :
  i < lenN l -> nthN (map f l) i d' = f (nthN l i d).
Proof.
  unfold nthN, lenN. intros H. rewrite nth_indep with (d' := f d) by (rewrite map_length; lia).
  apply map_nth.
Qed.

Lemma nseq_length s n : length (nseq s n) = n.
Proof. revert s. induction n; intros; simpl; auto. Qed.
Lemma nseq_nth s n i d : (i < n)%nat -> nth i (nseq s n) d = s + N.of_nat i.
Proof.
  revert s i. induction n; intros s i H; [lia|]. destruct i; simpl.
  - lia.
  - rewrite IHn by lia. lia.
Qed.
Lemma range_length n : lenN (range n) = n.
Proof. unfold range, lenN. rewrite nseq_length. lia. Qed.
Lemma range_nth n i d : i < n -> nthN (range n) i d = i.
Proof. unfold range, nthN. intros H. rewrite nseq_nth by lia. lia. Qed.
Lemma nseq_In s n x : In x (nseq s n) <-> s <= x < s + N.of_nat n.
Proof.
  revert s. induction n; intros s; simpl.
  - lia.
  - rewrite IHn. lia.
Qed.
Lemma range_In n x : In x (range n) <-> x < n.
Proof. unfold range. rewrite nseq_In. lia. Qed.
Lemma nseq_S s n : nseq s (S n) = nseq s n ++ [s + N.of_nat n].
Proof.
  revert s. induction n; intros s.
  - simpl. f_equal. lia.
  - change (nseq s (S (S n))) with (s :: nseq (s + 1) (S n)). rewrite IHn.
    simpl. do 3 f_equal. lia.
Qed.

(* ---------- little-endian values ---------- *)

Lemma two32_val : two32 = 4294967296. Proof. reflexivity. Qed.
Lemma two24_val : two24 = 16777216. Proof. reflexivity. Qed.
Lemma two8_val : two8 = 256. Proof. reflexivity. Qed.

Lemma le_bytes_length n v : length (le_bytes n v) = n.
Proof. revert v. induction n; intros; simpl; auto. Qed.

Lemma le_bytes_ok n v : bytes_ok (le_bytes n v).
Proof.
  revert v. induction n; intros v; simpl.
  - constructor.
  - constructor.
    + unfold is_byte. apply N.mod_lt. rewrite two8_val. lia.
    + apply IHn.
Qed.

Lemma le_val_le_bytes n v : v < two8 ^ N.of_nat n -> le_val (le_bytes n v) = v.
Proof.
  revert v. induction n; intros v H.
  - simpl in *. lia.
  - change (le_val (le_bytes (S n) v)) with (v mod two8 + two8 * le_val (le_bytes n (v / two8))).
    rewrite IHn.
    + rewrite two8_val. lia.
    + replace (N.of_nat (S n)) with (N.succ (N.of_nat n)) in H by lia.
      rewrite N.pow_succ_r' in H. rewrite two8_val in *.
      apply N.div_lt_upper_bound; lia.
Qed.

Lemma le_val_bound l : bytes_ok l -> le_val l < two8 ^ N.of_nat (length l).
Proof.
  induction 1 as [|b l Hb Hl IH].
  - simpl. lia.
  - change (le_val (b :: l)) with (b + two8 * le_val l).
    replace (N.of_nat (length (b :: l))) with (N.succ (N.of_nat (length l))) by (simpl; lia).
    rewrite N.pow_succ_r'. unfold is_byte in Hb. rewrite two8_val in *. nia.
Qed.

Lemma le_bytes_le_val l : bytes_ok l -> le_bytes (length l) (le_val l) = l.
Proof.
  induction 1 as [|b l Hb Hl IH]; [reflexivity|].
  change (le_val (b :: l)) with (b + two8 * le_val l).
  change (le_bytes (length (b :: l)) (b + two8 * le_val l))
    with ((b + two8 * le_val l) mod two8 :: le_bytes (length l) ((b + two8 * le_val l) / two8)).
  unfold is_byte in Hb. rewrite two8_val in *.
  replace ((b + 256 * le_val l) mod 256) with b by lia.
  replace ((b + 256 * le_val l) / 256) with (le_val l) by lia.
  now rewrite IH.
Qed.

Lemma le_val_app a b : le_val (a ++ b) = le_val a + two8 ^ N.of_nat (length a) * le_val b.
Proof.
  induction a as [|x a IH].
  - change (N.of_nat (length (@nil N))) with 0. rewrite N.pow_0_r.
    change (le_val ([] ++ b)) with (le_val b). change (le_val []) with 0. lia.
  - change (le_val ((x :: a) ++ b)) with (x + two8 * le_val (a ++ b)).
    change (le_val (x :: a)) with (x + two8 * le_val a).
    replace (N.of_nat (length (x :: a))) with (N.succ (N.of_nat (length a))) by (simpl; lia).
    rewrite N.pow_succ_r', IH. lia.
Qed.

Lemma le32_length v : length (le32 v) = 4%nat.
Proof. apply le_bytes_length. Qed.

Lemma le_val_le32 v : v < two32 -> le_val (le32 v) = v.
Proof. intros H. apply le_val_le_bytes. exact H. Qed.

(* ---------- bytes_of_words ---------- *)

Lemma bytes_of_words_length ws : length (bytes_of_words ws) = (4 * length ws)%nat.
Proof.
  induction ws as [|w ws IH]; [reflexivity|].
  unfold bytes_of_words in *. cbn [flat_map]. rewrite app_length, IH, le32_length. simpl. lia.
Qed.

Lemma bytes_of_words_lenN ws : lenN (bytes_of_words ws) = 4 * lenN ws.
Proof. unfold lenN. rewrite bytes_of_words_length. lia. Qed.

Lemma bytes_of_words_app a b : bytes_of_words (a ++ b) = bytes_of_words a ++ bytes_of_words b.
Proof. unfold bytes_of_words. apply flat_map_app. Qed.

Lemma bytes_of_words_ok ws : bytes_ok (bytes_of_words ws).
Proof.
  induction ws as [|w ws IH]; [constructor|].
  unfold bytes_of_words in *. cbn [flat_map]. apply Forall_app. split; auto. apply le_bytes_ok.
Qed.

Lemma skipn_bytes_of_words i ws :
  skipn (4 * i) (bytes_of_words ws) = bytes_of_words (skipn i ws).
Proof.
  revert ws. induction i; intros ws; [reflexivity|].
  destruct ws as [|w ws]; [reflexivity|].
  replace (4 * S i)%nat with (4 + 4 * i)%nat by lia.
  unfold bytes_of_words. cbn [flat_map].
  rewrite <- skipn_skipn'.
  assert (Hs : skipn 4 (le32 w ++ flat_map le32 ws) = flat_map le32 ws).
  { rewrite skipn_app. rewrite le32_length. rewrite skipn_all2 by (rewrite le32_length; lia).
    reflexivity. }
  rewrite Hs. apply IHi.
Qed.

Lemma firstn_bytes_of_words i ws :
  firstn (4 * i) (bytes_of_words ws) = bytes_of_words (firstn i ws).
Proof.
  revert ws. induction i; intros ws; [reflexivity|].
  destruct ws as [|w ws]; [reflexivity|].
  replace (4 * S i)%nat with (4 + 4 * i)%nat by lia.
  unfold bytes_of_words. cbn [flat_map].
  rewrite firstn_app, le32_length.
  rewrite firstn_all2 by (rewrite le32_length; lia).
  replace (4 + 4 * i - 4)%nat with (4 * i)%nat by lia.
  rewrite firstn_cons. cbn [flat_map]. f_equal. apply IHi.
Qed.

Lemma sub_bytes_of_words ws off n :
  sub (bytes_of_words ws) (4 * off) (4 * n) = bytes_of_words (sub ws off n).
Proof.
  unfold sub.
  replace (N.to_nat (4 * off)) with (4 * N.to_nat off)%nat by lia.
  replace (N.to_nat (4 * n)) with (4 * N.to_nat n)%nat by lia.
  now rewrite skipn_bytes_of_words, firstn_bytes_of_words.
Qed.

Lemma firstn4_le32_app w rest : firstn 4 (le32 w ++ rest) = le32 w.
Proof.
  rewrite firstn_app, le32_length. simpl firstn at 2. rewrite app_nil_r.
  apply firstn_all2. rewrite le32_length. lia.
Qed.

(* items_of inverts the serialisation of bounded words *)
Lemma items_of_words ws :
  Forall (fun w => w < two32) ws ->
  items_of 4 (length ws) (bytes_of_words ws) = ws.
Proof.
  induction 1 as [|w ws Hw Hws IH]; [reflexivity|].
  unfold bytes_of_words in *. cbn [flat_map]. simpl length.
  change (items_of 4 (S (length ws)) (le32 w ++ flat_map le32 ws))
    with (le_val (firstn 4 (le32 w ++ flat_map le32 ws))
            :: items_of 4 (length ws) (skipn 4 (le32 w ++ flat_map le32 ws))).
  rewrite firstn4_le32_app, le_val_le32 by assumption.
  rewrite skipn_app, le32_length.
  rewrite skipn_all2 by (rewrite le32_length; lia).
  simpl app. replace (4 - 4)%nat with 0%nat by lia. simpl skipn. now rewrite IH.
Qed.

Lemma words_of_bytes_words ws :
  Forall (fun w => w < two32) ws -> words_of_bytes (bytes_of_words ws) = ws.
Proof.
  intros H. unfold words_of_bytes. rewrite bytes_of_words_length.
  replace (4 * length ws / 4)%nat with (length ws).
  - now apply items_of_words.
  - symmetry. rewrite Nat.mul_comm. apply Nat.div_mul. lia.
Qed.

(* ---------- sub / py_slice ---------- *)

Lemma sub_length (l : list N) off n :
  off + n <= lenN l -> lenN (sub l off n) = n.
Proof.
  unfold sub, lenN. intros H. rewrite firstn_length, skipn_length. lia.
Qed.

Lemma sub_app1 (a b : list N) off n :
  off + n <= lenN a -> sub (a ++ b) off n = sub a off n.
Proof.
  unfold sub, lenN. intros H. rewrite skipn_app, firstn_app.
  rewrite skipn_length.
  replace (N.to_nat n - (length a - N.to_nat off))%nat with 0%nat by lia.
  simpl firstn at 2. now rewrite app_nil_r.
Qed.

Lemma sub_app2 (a b : list N) off n :
  lenN a <= off -> sub (a ++ b) off n = sub b (off - lenN a) n.
Proof.
  unfold sub, lenN. intros H. rewrite skipn_app.
  rewrite skipn_all2 by lia. simpl app. do 2 f_equal. lia.
Qed.

Lemma sub_all (l : list N) : sub l 0 (lenN l) = l.
Proof. unfold sub, lenN. simpl skipn. rewrite Nat2N.id. apply firstn_all. Qed.

Lemma sub_nth (l : list N) off n j d :
  j < n -> off + n <= lenN l -> nthN (sub l off n) j d = nthN l (off + j) d.
Proof.
  unfold sub, nthN, lenN. intros Hj H.
  rewrite nth_firstn' by lia. rewrite nth_skipn'. f_equal. lia.
Qed.

Lemma sub_sub (l : list N) o1 n1 o2 n2 :
  o2 + n2 <= n1 -> sub (sub l o1 n1) o2 n2 = sub l (o1 + o2) n2.
Proof.
  unfold sub. intros H.
  rewrite skipn_firstn_comm, firstn_firstn, skipn_skipn'.
  replace (Nat.min (N.to_nat n2) (N.to_nat n1 - N.to_nat o2)) with (N.to_nat n2) by lia.
  do 2 f_equal. lia.
Qed.

Lemma py_slice_sub (l : list N) (a b : N) :
  a <= b -> b <= lenN l ->
  py_slice l (Z.of_N a) (Z.of_N b) = sub l a (b - a).
Proof.
  unfold py_slice, py_norm, sub, lenN. intros H1 H2.
  destruct (Z.ltb_spec (Z.of_N a) 0); [lia|].
  destruct (Z.ltb_spec (Z.of_N b) 0); [lia|].
  destruct (Z.leb_spec (Z.min (Z.of_N b) (Z.of_nat (length l))) (Z.min (Z.of_N a) (Z.of_nat (length l)))).
  - replace (N.to_nat (b - a)) with 0%nat by lia. reflexivity.
  - f_equal; [lia|]. f_equal. lia.
Qed.

(* ceil_div *)
Lemma cdiv_py a b : 0 < b -> Z.of_N (cdiv a b) = py_ceil_div (Z.of_N a) (Z.of_N b).
Proof.
  intros Hb. unfold cdiv, nceil_div, py_ceil_div.
  destruct (N.eq_dec a 0) as [->|Ha].
  - replace (0 + b - 1) with (b - 1) by lia.
    replace ((b - 1) / b) with 0 by (symmetry; apply N.div_small; lia).
    change (Z.of_N 0) with 0%Z.
    replace ((0 - 1) / Z.of_N b)%Z with (-1)%Z; [reflexivity|].
    apply Z.div_unique with (r := (Z.of_N b - 1)%Z); lia.
  - rewrite N2Z.inj_div.
    replace (Z.of_N (a + b - 1)) with ((Z.of_N a - 1) + 1 * Z.of_N b)%Z by lia.
    rewrite Z.div_add by lia. reflexivity.
Qed.

Lemma cdiv_spec a b : 0 < b -> (cdiv a b - 1) * b < a <= cdiv a b * b \/ (a = 0 /\ cdiv a b = 0).
Proof.
  intros Hb. unfold cdiv, nceil_div.
  destruct (N.eq_dec a 0) as [->|Ha].
  - right. split; auto. rewrite N.add_0_l. apply N.div_small. lia.
  - left. assert (H := N.div_mod (a + b - 1) b ltac:(lia)).
    assert (H2 := N.mod_lt (a + b - 1) b ltac:(lia)). nia.
Qed.

Lemma cdiv_pos a b : 0 < b -> 0 < a -> 0 < cdiv a b.
Proof. intros Hb Ha. destruct (cdiv_spec a b Hb) as [H|[H _]]; nia. Qed.

Lemma cdiv_le a b : 0 < b -> a <= cdiv a b * b.
Proof. intros Hb. destruct (cdiv_spec a b Hb) as [H|[-> _]]; lia. Qed.

Lemma div_lt_cdiv x a b : 0 < b -> x < a -> x / b < cdiv a b.
Proof.
  intros Hb Hx. destruct (cdiv_spec a b Hb) as [H|[H _]]; [|lia].
  apply N.div_lt_upper_bound; [lia|]. nia.
Qed.

Lemma list_eqb_eq a b : list_eqb a b = true <-> a = b.
Proof.
  revert b. induction a as [|x a IH]; intros [|y b]; simpl; split; intros H; try congruence; auto.
  - apply andb_prop in H. destruct H as [H1 H2]. apply N.eqb_eq in H1. apply IH in H2. congruence.
  - inversion H; subst. rewrite N.eqb_refl. simpl. now apply IH.
Qed.
