(* np.unique as sort + dedup: membership, sizes, inverse indices, the most
   frequent value. *)
From Coq Require Import NArith ZArith List Bool Lia ZifyBool ZifyNat ZifyN Permutation.
From NGS Require Import Val Ints Words Arr4 CSegEncode WordsProofs.
Import ListNotations.
Open Scope N_scope.

Lemma sort_In v l : In v (NSort.sort l) <-> In v l.
Proof.
  split; intros H.
  - eapply Permutation_in; [apply Permutation_sym, NSort.Permuted_sort|exact H].
  - eapply Permutation_in; [apply NSort.Permuted_sort|exact H].
Qed.

Lemma sort_length l : length (NSort.sort l) = length l.
Proof. symmetry. apply Permutation_length, NSort.Permuted_sort. Qed.

Lemma dedup_cons2 a b r :
  dedup (a :: b :: r) = if a =? b then dedup (b :: r) else a :: dedup (b :: r).
Proof. reflexivity. Qed.

Lemma dedup_In v l : In v (dedup l) <-> In v l.
Proof.
  induction l as [|a r IH]; [reflexivity|].
  destruct r as [|b r'].
  - reflexivity.
  - rewrite dedup_cons2. destruct (N.eqb_spec a b) as [->|Hne].
    + rewrite IH. simpl. tauto.
    + simpl In at 1. rewrite IH. simpl. tauto.
Qed.

Lemma dedup_length l : (length (dedup l) <= length l)%nat.
Proof.
  induction l as [|a r IH]; [simpl; lia|].
  destruct r as [|b r'].
  - simpl. lia.
  - rewrite dedup_cons2. destruct (a =? b).
    + simpl length in *. lia.
    + simpl length in *. lia.
Qed.

Lemma dedup_nonempty l : l <> [] -> dedup l <> [].
Proof.
  induction l as [|a r IH]; [congruence|]. intros _.
  destruct r as [|b r'].
  - discriminate.
  - rewrite dedup_cons2. destruct (a =? b); [apply IH; discriminate|discriminate].
Qed.

Lemma sort_dedup_In v l : In v (sort_dedup l) <-> In v l.
Proof. unfold sort_dedup. rewrite dedup_In. apply sort_In. Qed.

Lemma sort_dedup_length l : lenN (sort_dedup l) <= lenN l.
Proof.
  unfold sort_dedup, lenN. assert (H := dedup_length (NSort.sort l)). rewrite sort_length in H. lia.
Qed.

Lemma sort_dedup_nonempty l : l <> [] -> sort_dedup l <> [].
Proof.
  intros H. unfold sort_dedup. apply dedup_nonempty. intros E.
  assert (L := sort_length l). rewrite E in L. destruct l; [congruence|discriminate].
Qed.

Lemma sort_dedup_Forall (P : N -> Prop) l : Forall P l -> Forall P (sort_dedup l).
Proof.
  rewrite !Forall_forall. intros H v Hv. apply H. now apply sort_dedup_In.
Qed.

(* ---------- inverse indices ---------- *)

Lemma index_of_spec v l :
  In v l -> index_of v l < lenN l /\ nthN l (index_of v l) 0 = v.
Proof.
  induction l as [|a r IH]; intros H; [destruct H|].
  cbn [index_of]. rewrite lenN_cons. destruct (N.eqb_spec a v) as [->|Hne].
  - split; [lia|reflexivity].
  - destruct H as [H|H]; [congruence|]. destruct (IH H) as [H1 H2]. split; [lia|].
    unfold nthN in *. replace (N.to_nat (1 + index_of v r)) with (S (N.to_nat (index_of v r))) by lia.
    exact H2.
Qed.

(* ---------- most frequent value ---------- *)

Lemma runs_In v n l : In (v, n) (runs l) -> In v l.
Proof.
  revert v n. induction l as [|a r IH]; intros v n H; [destruct H|].
  cbn [runs] in H. destruct (runs r) as [|[b m] t] eqn:E.
  - destruct H as [H|[]]. inversion H; subst. now left.
  - destruct (N.eqb_spec a b) as [->|Hne].
    + destruct H as [H|H].
      * inversion H; subst. right. apply (IH v m). now left.
      * right. apply (IH v n). now right.
    + destruct H as [H|H].
      * inversion H; subst. now left.
      * right. apply (IH v n). exact H.
Qed.

Lemma runs_nonempty a r : runs (a :: r) <> [].
Proof.
  cbn [runs]. destruct (runs r) as [|[b m] t]; [discriminate|]. destruct (a =? b); discriminate.
Qed.

Lemma first_max_In best t : first_max best t = best \/ In (first_max best t) t.
Proof.
  revert best. induction t as [|[v n] t IH]; intros best; [now left|].
  cbn [first_max]. destruct (snd best <? n).
  - destruct (IH (v, n)) as [H|H]; [right; left; now rewrite H|right; now right].
  - destruct (IH best) as [H|H]; [now left|right; now right].
Qed.

Lemma most_frequent_ok l : l <> [] -> exists p, most_frequent l = Ok p /\ In p l.
Proof.
  intros Hl. unfold most_frequent.
  destruct (NSort.sort l) as [|a r] eqn:Es.
  - assert (L := sort_length l). rewrite Es in L. destruct l; [congruence|discriminate].
  - destruct (runs (a :: r)) as [|h t] eqn:Er; [now apply runs_nonempty in Er|].
    eexists. split; [reflexivity|].
    apply sort_In. rewrite Es.
    destruct (first_max_In h t) as [H|H].
    + rewrite H. destruct h as [v n]. apply (runs_In v n). rewrite Er. now left.
    + destruct (first_max h t) as [v n]. apply (runs_In v n). rewrite Er. now right.
Qed.

Lemma most_frequent_In l p : most_frequent l = Ok p -> In p l.
Proof.
  intros H. destruct l as [|a r].
  - unfold most_frequent in H. vm_compute in H. discriminate.
  - destruct (most_frequent_ok (a :: r) ltac:(discriminate)) as (q & Hq & Hin).
    rewrite Hq in H. inversion H; subst. exact Hin.
Qed.

(* ---------- number_of_encoding_bits ---------- *)

Lemma nbits_spec n bits :
  number_of_encoding_bits n = Ok bits ->
  n <= 2 ^ bits /\ In bits allowed_bits.
Proof.
  unfold number_of_encoding_bits, allowed_bits. cbn [first_bits].
  repeat match goal with
         | |- context [?a <=? ?b] => destruct (N.leb_spec a b);
                                     [intros E; inversion E; subst; split; [assumption|simpl; repeat ((left; reflexivity) || right)]|]
         end.
  intros E; discriminate.
Qed.

Lemma nbits_ok n : n <= two32 -> exists bits, number_of_encoding_bits n = Ok bits.
Proof.
  intros H. unfold number_of_encoding_bits, allowed_bits. cbn [first_bits].
  repeat match goal with
         | |- context [?a <=? ?b] => destruct (N.leb_spec a b); [eauto|]
         end.
  rewrite two32_val in H. change (2 ^ 32) with 4294967296 in *. lia.
Qed.

Lemma nbits_zero n : number_of_encoding_bits n = Ok 0 -> n <= 1.
Proof. intros H. apply nbits_spec in H. destruct H as [H _]. simpl in H. exact H. Qed.
