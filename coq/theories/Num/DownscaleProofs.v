(* Proofs about the striding and majority downscalers and about shapes
   (Downscale.v).  The floating-point exactness of averaging is in
   AverageProofs.v. *)
From Coq Require Import ZArith Bool List Arith Lia.
From NGS Require Import Val DType FloatModel Convert Downscale.
Import ListNotations.

(* ---- generic list facts -------------------------------------------------- *)

Lemma tab_length : forall A n (f : nat -> A), length (tab n f) = n.
Proof. intros. unfold tab. rewrite map_length, seq_length. reflexivity. Qed.

Lemma tab_nth : forall A n (f : nat -> A) i d, i < n -> nth i (tab n f) d = f i.
Proof.
  intros A n f i d Hi. unfold tab.
  rewrite (nth_indep _ d (f 0)) by (rewrite map_length, seq_length; exact Hi).
  rewrite map_nth. rewrite seq_nth by exact Hi. reflexivity.
Qed.

Lemma tab_ext : forall A n (f g : nat -> A), (forall i, i < n -> f i = g i) -> tab n f = tab n g.
Proof.
  intros A n f g H. unfold tab. apply map_ext_in. intros i Hi. apply in_seq in Hi. apply H. lia.
Qed.

Lemma tab_of_nth : forall A (l : list A) n d, length l = n -> l = tab n (fun i => nth i l d).
Proof.
  intros A l n d Hl. apply (nth_ext _ _ d d).
  - rewrite tab_length. exact Hl.
  - intros i Hi. rewrite tab_nth by lia. reflexivity.
Qed.

Lemma Forall_nth_def : forall A (P : A -> Prop) l i d, Forall P l -> i < length l -> P (nth i l d).
Proof. intros A P l i d HF Hi. rewrite Forall_forall in HF. apply HF. apply nth_In. exact Hi. Qed.

(* an array is the tabulation of its elements *)
Lemma rect4_tab : forall A (d : A) nc nz ny nx (a : arr4 A),
  rect4 nc nz ny nx a ->
  a = tab nc (fun c => tab nz (fun z => tab ny (fun y => tab nx (fun x => get4 d a c z y x)))).
Proof.
  intros A d nc nz ny nx a [Hc Ha].
  rewrite (tab_of_nth _ a nc [] Hc) at 1. apply tab_ext. intros c Hc'.
  assert (H3 : rect3 nz ny nx (nth c a [])) by (apply Forall_nth_def; [exact Ha | lia]).
  destruct H3 as [Hz H3].
  rewrite (tab_of_nth _ (nth c a []) nz [] Hz) at 1. apply tab_ext. intros z Hz'.
  assert (H2 : rect2 ny nx (nth z (nth c a []) [])) by (apply Forall_nth_def; [exact H3 | lia]).
  destruct H2 as [Hy H2].
  rewrite (tab_of_nth _ (nth z (nth c a []) []) ny [] Hy) at 1. apply tab_ext. intros y Hy'.
  assert (H1 : rect1 nx (nth y (nth z (nth c a []) []) [])) by (apply Forall_nth_def; [exact H2 | lia]).
  unfold rect1 in H1.
  rewrite (tab_of_nth _ _ nx d H1) at 1. apply tab_ext. intros x Hx'. reflexivity.
Qed.

Lemma rect_tab4 : forall A nc nz ny nx (f : nat -> nat -> nat -> nat -> A),
  rect4 nc nz ny nx (tab nc (fun c => tab nz (fun z => tab ny (fun y => tab nx (fun x => f c z y x))))).
Proof.
  intros. split. apply tab_length.
  unfold tab at 1. apply Forall_forall. intros v Hv. apply in_map_iff in Hv. destruct Hv as [c [<- _]].
  split. apply tab_length.
  unfold tab at 1. apply Forall_forall. intros p Hp. apply in_map_iff in Hp. destruct Hp as [z [<- _]].
  split. apply tab_length.
  unfold tab at 1. apply Forall_forall. intros r Hr. apply in_map_iff in Hr. destruct Hr as [y [<- _]].
  apply tab_length.
Qed.

Lemma get4_tab4 : forall A (d : A) nc nz ny nx (f : nat -> nat -> nat -> nat -> A) c z y x,
  c < nc -> z < nz -> y < ny -> x < nx ->
  get4 d (tab nc (fun c => tab nz (fun z => tab ny (fun y => tab nx (fun x => f c z y x))))) c z y x
  = f c z y x.
Proof.
  intros. unfold get4. rewrite (tab_nth _ nc) by assumption. rewrite (tab_nth _ nz) by assumption.
  rewrite (tab_nth _ ny) by assumption. apply tab_nth. assumption.
Qed.

(* ---- cdiv ---------------------------------------------------------------- *)

Lemma cdiv_lt : forall n f i, 1 <= f -> (i < cdiv n f <-> i * f < n).
Proof.
  intros n f i Hf. unfold cdiv.
  pose proof (Nat.div_mod (n + f - 1) f ltac:(lia)) as E.
  pose proof (Nat.mod_upper_bound (n + f - 1) f ltac:(lia)) as U.
  set (q := (n + f - 1) / f) in *. set (r := (n + f - 1) mod f) in *.
  split; intro H; nia.
Qed.

(* ---- l[::k] -------------------------------------------------------------- *)

Lemma every_aux_nth : forall A (d : A) k l i j,
  1 <= k -> nth j (every_aux k i l) d = nth (i + j * k) l d.
Proof.
  intros A d k l. induction l as [|a r IH]; intros i j Hk.
  - cbn. destruct j; destruct (i + _); reflexivity.
  - destruct i as [|i'].
    + cbn [every_aux]. destruct j as [|j'].
      * reflexivity.
      * cbn [nth]. rewrite IH by exact Hk.
        replace (0 + S j' * k) with (S (k - 1 + j' * k)) by (cbn; lia). reflexivity.
    + cbn [every_aux]. rewrite IH by exact Hk. reflexivity.
Qed.

Lemma every_nth : forall A (d : A) k l j, 1 <= k -> nth j (every k l) d = nth (j * k) l d.
Proof. intros. unfold every. rewrite every_aux_nth by assumption. reflexivity. Qed.

Lemma every_aux_length : forall A k (l : list A) i,
  1 <= k -> i < k -> length (every_aux k i l) = (length l + k - 1 - i) / k.
Proof.
  intros A k l. induction l as [|a r IH]; intros i Hk Hi.
  - cbn. symmetry. apply Nat.div_small. lia.
  - destruct i as [|i'].
    + cbn [every_aux length]. rewrite IH by lia.
      replace (length r + k - 1 - (k - 1)) with (length r) by lia.
      replace (S (length r) + k - 1 - 0) with (length r + 1 * k) by lia.
      rewrite Nat.div_add by lia. lia.
    + cbn [every_aux length]. rewrite IH by lia. f_equal. lia.
Qed.

Lemma every_length : forall A k (l : list A), 1 <= k -> length (every k l) = cdiv (length l) k.
Proof. intros. unfold every, cdiv. rewrite every_aux_length by lia. f_equal. lia. Qed.

Lemma every_In : forall A k i (l : list A) x, In x (every_aux k i l) -> In x l.
Proof.
  intros A k i l. revert i. induction l as [|a r IH]; intros i x H.
  - exact H.
  - destruct i; cbn [every_aux] in H.
    + destruct H as [-> | H]. left; reflexivity. right. eapply IH. exact H.
    + right. eapply IH. exact H.
Qed.

(* ---- striding ------------------------------------------------------------ *)

Lemma get4_stride : forall A (d : A) fx fy fz (a : arr4 A) c z y x,
  1 <= fx -> 1 <= fy -> 1 <= fz ->
  get4 d (stride_arr fx fy fz a) c z y x = stride_spec_at d fx fy fz a c z y x.
Proof.
  intros A d fx fy fz a c z y x Hx Hy Hz.
  unfold stride_spec_at, get4, stride_arr.
  set (F := fun vol : list (list (list A)) =>
              every fz (map (fun plane => every fy (map (every fx) plane)) vol)).
  change [] with (F []) at 1. rewrite map_nth.
  unfold F. rewrite every_nth by exact Hz.
  set (G := fun plane : list (list A) => every fy (map (every fx) plane)).
  change (@nil (list A)) with (G []) at 1. rewrite map_nth.
  unfold G. rewrite every_nth by exact Hy.
  change (@nil A) with (every fx (@nil A)) at 1. rewrite map_nth.
  apply every_nth. exact Hx.
Qed.

Lemma stride_rect : forall A fx fy fz nc nz ny nx (a : arr4 A),
  1 <= fx -> 1 <= fy -> 1 <= fz -> rect4 nc nz ny nx a ->
  rect4 nc (cdiv nz fz) (cdiv ny fy) (cdiv nx fx) (stride_arr fx fy fz a).
Proof.
  intros A fx fy fz nc nz ny nx a Hx Hy Hz [Hc Ha]. unfold stride_arr. split.
  - rewrite map_length. exact Hc.
  - apply Forall_forall. intros v Hv. apply in_map_iff in Hv. destruct Hv as [vol [<- Hin]].
    rewrite Forall_forall in Ha. destruct (Ha vol Hin) as [Hlz H3]. split.
    + rewrite every_length, map_length, Hlz by exact Hz. reflexivity.
    + apply Forall_forall. intros p Hp. apply every_In in Hp. apply in_map_iff in Hp.
      destruct Hp as [plane [<- Hin2]].
      rewrite Forall_forall in H3. destruct (H3 plane Hin2) as [Hly H2]. split.
      * rewrite every_length, map_length, Hly by exact Hy. reflexivity.
      * apply Forall_forall. intros r Hr. apply every_In in Hr. apply in_map_iff in Hr.
        destruct Hr as [row [<- Hin3]].
        rewrite Forall_forall in H2. pose proof (H2 row Hin3) as Hlx. unfold rect1 in *.
        rewrite every_length, Hlx by exact Hx. reflexivity.
Qed.

Lemma check_factors_base_fac : forall fs,
  check_factors_base fs = true -> 1 <= fac fs 0 /\ 1 <= fac fs 1 /\ 1 <= fac fs 2.
Proof.
  intros fs H. unfold check_factors_base in H. apply andb_prop in H. destruct H as [Hl Hf].
  apply Nat.eqb_eq in Hl.
  destruct fs as [|a [|b [|c [|? ?]]]]; try discriminate Hl.
  cbn in Hf. unfold fac; cbn [nth].
  repeat (apply andb_prop in Hf; destruct Hf as [? Hf]).
  repeat match goal with H : (1 <=? _)%Z = true |- _ => apply Z.leb_le in H end.
  repeat split; lia.
Qed.

(* C07 (1): striding, any factors >= 1, any shape: the shape is
   ceil(size/factor), every voxel is the first voxel of its block, and the whole
   result equals the specification array. *)
Theorem stride_spec_full : forall A (d : A) fs nc nz ny nx (a : arr4 A),
  check_factors_base fs = true -> rect4 nc nz ny nx a ->
  exists out, stride_model fs a = Ok out /\
    rect4 nc (cdiv nz (fac fs 2)) (cdiv ny (fac fs 1)) (cdiv nx (fac fs 0)) out /\
    (forall c z y x, get4 d out c z y x = get4 d a c (z * fac fs 2) (y * fac fs 1) (x * fac fs 0)) /\
    out = stride_spec d (fac fs 0) (fac fs 1) (fac fs 2) nc nz ny nx a.
Proof.
  intros A d fs nc nz ny nx a Hf Hr.
  destruct (check_factors_base_fac fs Hf) as [Hx [Hy Hz]].
  exists (stride_arr (fac fs 0) (fac fs 1) (fac fs 2) a).
  unfold stride_model. rewrite Hf.
  pose proof (stride_rect A _ _ _ _ _ _ _ a Hx Hy Hz Hr) as Hro.
  repeat split; try (apply Hro).
  - intros. rewrite get4_stride by assumption. reflexivity.
  - rewrite (rect4_tab A d _ _ _ _ _ Hro) at 1. unfold stride_spec.
    apply tab_ext; intros c Hc. apply tab_ext; intros z Hz'. apply tab_ext; intros y Hy'.
    apply tab_ext; intros x Hx'. apply get4_stride; assumption.
Qed.

Theorem stride_rejects : forall A fs (a : arr4 A),
  check_factors_base fs = false -> stride_model fs a = Crash NotImplementedError.
Proof. intros. unfold stride_model. rewrite H. reflexivity. Qed.

(* ---- majority ------------------------------------------------------------ *)
From Coq Require Import Sorting.Sorted.

Open Scope Z_scope.

(* total count recorded for label w *)
Fixpoint cnt (w : Z) (l : list (Z * nat)) : nat :=
  match l with
  | [] => 0%nat
  | (k, c) :: r => ((if (w =? k)%Z then c else 0) + cnt w r)%nat
  end.

Definition key_lt (p q : Z * nat) : Prop := fst p < fst q.

Lemma cnt_insert : forall v w l,
  cnt w (insert_count v l) = ((if (w =? v)%Z then 1 else 0) + cnt w l)%nat.
Proof.
  intros v w l. induction l as [|[k c] r IH].
  - cbn. reflexivity.
  - cbn [insert_count]. destruct (v <? k) eqn:E1.
    + cbn [cnt]. reflexivity.
    + destruct (v =? k) eqn:E2.
      * apply Z.eqb_eq in E2. subst k. cbn [cnt]. destruct (w =? v); lia.
      * cbn [cnt]. rewrite IH. lia.
Qed.

Lemma cnt_unique_counts : forall w b, cnt w (unique_counts b) = occ w b.
Proof.
  intros w b. induction b as [|x b IH].
  - reflexivity.
  - unfold unique_counts in *. cbn [fold_right]. rewrite cnt_insert, IH.
    unfold occ. cbn [count_occ]. destruct (Z.eq_dec x w) as [->|Hne].
    + rewrite Z.eqb_refl. reflexivity.
    + destruct (w =? x) eqn:E. apply Z.eqb_eq in E. congruence. reflexivity.
Qed.

Lemma insert_count_keys : forall v l q,
  In q (insert_count v l) -> fst q = v \/ exists q', In q' l /\ fst q' = fst q.
Proof.
  intros v l. induction l as [|[k c] r IH]; intros q H.
  - cbn in H. destruct H as [<-|[]]. left. reflexivity.
  - cbn [insert_count] in H. destruct (v <? k) eqn:E1.
    + destruct H as [<-|H]. left; reflexivity. right. exists q. split; [exact H | reflexivity].
    + destruct (v =? k) eqn:E2.
      * destruct H as [<-|H].
        -- right. exists (k, c). split. left; reflexivity. reflexivity.
        -- right. exists q. split. right; exact H. reflexivity.
      * destruct H as [<-|H].
        -- right. exists (k, c). split. left; reflexivity. reflexivity.
        -- destruct (IH q H) as [Hv | [q' [Hin Hq]]]. left; exact Hv.
           right. exists q'. split. right; exact Hin. exact Hq.
Qed.

Lemma insert_count_sorted : forall v l,
  StronglySorted key_lt l -> StronglySorted key_lt (insert_count v l).
Proof.
  intros v l H. induction H as [|[k c] r Hs IH Hf].
  - cbn. constructor. constructor. constructor.
  - cbn [insert_count]. destruct (v <? k) eqn:E1.
    + apply Z.ltb_lt in E1. constructor. constructor; assumption.
      constructor. exact E1. rewrite Forall_forall in *. intros q Hq. specialize (Hf q Hq).
      unfold key_lt in *. cbn [fst] in *. lia.
    + destruct (v =? k) eqn:E2.
      * constructor. exact Hs. exact Hf.
      * apply Z.ltb_ge in E1. apply Z.eqb_neq in E2. constructor. exact IH.
        rewrite Forall_forall in *. intros q Hq.
        destruct (insert_count_keys v r q Hq) as [Hv | [q' [Hin Hq']]].
        -- unfold key_lt. cbn [fst]. lia.
        -- specialize (Hf q' Hin). unfold key_lt in *. cbn [fst] in *. lia.
Qed.

Lemma unique_counts_sorted : forall b, StronglySorted key_lt (unique_counts b).
Proof.
  induction b as [|x b IH]. constructor.
  unfold unique_counts in *. cbn [fold_right]. apply insert_count_sorted. exact IH.
Qed.

Lemma cnt_zero : forall w l, (forall q, In q l -> fst q <> w) -> cnt w l = 0%nat.
Proof.
  intros w l. induction l as [|[k c] r IH]; intros H. reflexivity.
  cbn [cnt]. rewrite IH by (intros q Hq; apply H; right; exact Hq).
  destruct (w =? k) eqn:E. apply Z.eqb_eq in E. exfalso. apply (H (k, c)). left; reflexivity.
  cbn. lia. reflexivity.
Qed.

Lemma cnt_sorted_In : forall l k c, StronglySorted key_lt l -> In (k, c) l -> cnt k l = c.
Proof.
  intros l k c H. induction H as [|[k0 c0] r Hs IH Hf]; intros Hin. destruct Hin.
  cbn [cnt]. destruct Hin as [E|Hin].
  - inversion E; subst. rewrite Z.eqb_refl. rewrite cnt_zero. lia.
    intros q Hq. rewrite Forall_forall in Hf. specialize (Hf q Hq). unfold key_lt in Hf. cbn in Hf. lia.
  - rewrite IH by exact Hin. rewrite Forall_forall in Hf. specialize (Hf _ Hin).
    unfold key_lt in Hf. cbn [fst] in Hf.
    destruct (k =? k0) eqn:E. apply Z.eqb_eq in E. lia. reflexivity.
Qed.

Lemma cnt_pos_In : forall w l, (0 < cnt w l)%nat -> exists c, In (w, c) l.
Proof.
  intros w l. induction l as [|[k c] r IH]; intros H. cbn in H. lia.
  cbn [cnt] in H. destruct (w =? k) eqn:E.
  - apply Z.eqb_eq in E. subst. exists c. left. reflexivity.
  - destruct (IH ltac:(lia)) as [c' Hc]. exists c'. right. exact Hc.
Qed.

Lemma first_max_split : forall l best,
  exists pre post, best :: l = pre ++ first_max best l :: post /\
    (forall q, In q pre -> (snd q < snd (first_max best l))%nat) /\
    (forall q, In q post -> (snd q <= snd (first_max best l))%nat).
Proof.
  induction l as [|p r IH]; intros best.
  - exists [], []. repeat split; intros q [].
  - cbn [first_max]. destruct (snd best <? snd p)%nat eqn:E.
    + apply Nat.ltb_lt in E. destruct (IH p) as [pre [post [Heq [Hpre Hpost]]]].
      exists (best :: pre), post. split. cbn. rewrite <- Heq. reflexivity. split.
      * intros q [<-|Hq]; [|apply Hpre; exact Hq].
        destruct pre as [|p0 pre'].
        -- cbn in Heq. injection Heq as E1 E2. rewrite <- E1. exact E.
        -- cbn in Heq. injection Heq as E1 E2. subst p0.
           specialize (Hpre p (or_introl eq_refl)). lia.
      * exact Hpost.
    + apply Nat.ltb_ge in E. destruct (IH best) as [pre [post [Heq [Hpre Hpost]]]].
      destruct pre as [|p0 pre'].
      * cbn in Heq. injection Heq as E1 E2.
        exists [], (p :: post). split. cbn. rewrite <- E1, E2. reflexivity. split.
        -- intros q [].
        -- intros q [<-|Hq]. rewrite <- E1. exact E. apply Hpost. exact Hq.
      * cbn in Heq. injection Heq as E1 E2. subst p0.
        exists (best :: p :: pre'), post. split. cbn. do 2 f_equal. exact E2. split.
        -- intros q [<-|[<-|Hq]].
           ++ apply Hpre. left. reflexivity.
           ++ specialize (Hpre best (or_introl eq_refl)). lia.
           ++ apply Hpre. right. exact Hq.
        -- exact Hpost.
Qed.

Lemma sorted_app_later : forall (pre post : list (Z * nat)) p,
  StronglySorted key_lt (pre ++ p :: post) -> forall q, In q post -> key_lt p q.
Proof.
  induction pre as [|a pre IH]; intros post p H q Hq.
  - cbn in H. inversion H as [|? ? ? Hf]; subst. rewrite Forall_forall in Hf. apply Hf. exact Hq.
  - cbn in H. inversion H; subst. eapply IH; eassumption.
Qed.

Lemma occ_pos_In : forall w b, (0 < occ w b)%nat <-> In w b.
Proof. intros. unfold occ. symmetry. apply count_occ_In. Qed.

(* labels[argmax(counts)] of a non-empty block is the most frequent label,
   the smallest on ties *)
Lemma majority_block_spec : forall b, b <> [] ->
  exists v, majority_block b = Ok v /\ is_majority b v.
Proof.
  intros b Hb. unfold majority_block.
  pose proof (unique_counts_sorted b) as Hs.
  destruct (unique_counts b) as [|h t] eqn:Eu.
  - exfalso. destruct b as [|x b']. congruence.
    assert (H : (0 < occ x (x :: b'))%nat) by (apply occ_pos_In; left; reflexivity).
    rewrite <- cnt_unique_counts, Eu in H. cbn in H. lia.
  - eexists. split. reflexivity.
    destruct (first_max_split t h) as [pre [post [Heq [Hpre Hpost]]]].
    set (p := first_max h t) in *.
    assert (Hin : In p (unique_counts b)).
    { rewrite Eu, Heq. apply in_or_app. right. left. reflexivity. }
    assert (Hcnt : forall k c, In (k, c) (unique_counts b) -> c = occ k b).
    { intros k c Hk. rewrite <- cnt_unique_counts. symmetry. apply cnt_sorted_In.
      apply unique_counts_sorted. exact Hk. }
    destruct p as [v cv] eqn:Ep. cbn [fst].
    assert (Hcv : cv = occ v b) by (apply Hcnt; exact Hin).
    assert (Hpos : forall k c, In (k, c) (unique_counts b) -> (0 < c)%nat).
    { clear. induction b as [|x b IH]; intros k c H. destruct H.
      unfold unique_counts in *. cbn [fold_right] in H.
      remember (fold_right insert_count [] b) as l eqn:El. clear El.
      revert H IH. induction l as [|[k0 c0] r IHl]; intros H IH.
      - cbn in H. destruct H as [E|[]]. inversion E. lia.
      - cbn [insert_count] in H. destruct (x <? k0).
        + destruct H as [E|H]. inversion E. lia. eapply IH. exact H.
        + destruct (x =? k0).
          * destruct H as [E|H]. inversion E. lia. eapply IH. right. exact H.
          * destruct H as [E|H]. inversion E; subst. eapply IH. left. reflexivity.
            apply IHl. exact H. intros k' c' H'. eapply IH. right. exact H'. }
    split.
    + apply occ_pos_In. rewrite <- Hcv. eapply Hpos. exact Hin.
    + intros w Hw.
      assert (Hw' : (0 < cnt w (unique_counts b))%nat)
        by (rewrite cnt_unique_counts; apply occ_pos_In; exact Hw).
      destruct (cnt_pos_In w _ Hw') as [c Hc].
      pose proof (Hcnt w c Hc) as Hcw.
      rewrite Eu, Heq in Hc. apply in_app_or in Hc. destruct Hc as [Hc | [Hc | Hc]].
      * left. specialize (Hpre _ Hc). cbn [snd] in Hpre. lia.
      * inversion Hc; subst. right. split. reflexivity. lia.
      * specialize (Hpost _ Hc). cbn [snd] in Hpost.
        rewrite Heq in Hs. pose proof (sorted_app_later pre post (v, cv) Hs _ Hc) as Hk.
        unfold key_lt in Hk. cbn [fst] in Hk.
        destruct (Nat.eq_dec (occ w b) (occ v b)) as [E|E].
        -- right. split. exact E. lia.
        -- left. lia.
Qed.

(* the statistic is unique *)
Lemma is_majority_unique : forall b v w, is_majority b v -> is_majority b w -> v = w.
Proof.
  intros b v w [Hv Hv'] [Hw Hw'].
  destruct (Hv' w Hw) as [H1|[H1 H2]]; destruct (Hw' v Hv) as [H3|[H3 H4]]; lia.
Qed.

Close Scope Z_scope.

Lemma sequence_map_ok : forall A B (f : A -> outcome B) (g : A -> B) l,
  (forall x, In x l -> f x = Ok (g x)) -> sequence (map f l) = Ok (map g l).
Proof.
  intros A B f g l. induction l as [|a r IH]; intros H. reflexivity.
  cbn [map sequence]. rewrite (H a (or_introl eq_refl)). cbn [bind].
  rewrite IH by (intros x Hx; apply H; right; exact Hx). reflexivity.
Qed.

Lemma firstn_In' : forall A n (l : list A) x, In x (firstn n l) -> In x l.
Proof. intros A n l x H. rewrite <- (firstn_skipn n l). apply in_or_app. left. exact H. Qed.
Lemma skipn_In' : forall A n (l : list A) x, In x (skipn n l) -> In x l.
Proof. intros A n l x H. rewrite <- (firstn_skipn n l). apply in_or_app. right. exact H. Qed.

Lemma blk_In : forall A f i (l : list A) x, In x (blk f i l) -> In x l.
Proof. intros A f i l x H. unfold blk in H. apply firstn_In' in H. apply skipn_In' in H. exact H. Qed.

Lemma blk_nonempty : forall A f i (l : list A),
  1 <= f -> i * f < length l -> exists h t, blk f i l = h :: t.
Proof.
  intros A f i l Hf Hi. unfold blk.
  destruct (skipn (i * f) l) as [|h t] eqn:E.
  - pose proof (skipn_length (i * f) l) as L. rewrite E in L. cbn in L. lia.
  - destruct f as [|f']. lia. cbn. eauto.
Qed.

Lemma block_at_nonempty : forall A fx fy fz nz ny nx (vol : list (list (list A))) z y x,
  1 <= fx -> 1 <= fy -> 1 <= fz -> rect3 nz ny nx vol ->
  z < cdiv nz fz -> y < cdiv ny fy -> x < cdiv nx fx ->
  block_at fx fy fz vol z y x <> [].
Proof.
  intros A fx fy fz nz ny nx vol z y x Hx Hy Hz [Lz H3] Hzi Hyi Hxi.
  apply cdiv_lt in Hzi; try exact Hz. apply cdiv_lt in Hyi; try exact Hy.
  apply cdiv_lt in Hxi; try exact Hx.
  unfold block_at.
  destruct (blk_nonempty _ fz z vol Hz ltac:(lia)) as [plane [tp Ep]]. rewrite Ep.
  assert (Hpl : In plane vol) by (eapply blk_In; rewrite Ep; left; reflexivity).
  rewrite Forall_forall in H3. destruct (H3 _ Hpl) as [Ly H2].
  destruct (blk_nonempty _ fy y plane Hy ltac:(lia)) as [row [tr Er]].
  assert (Hrow : In row plane) by (eapply blk_In; rewrite Er; left; reflexivity).
  rewrite Forall_forall in H2. pose proof (H2 _ Hrow) as Lx. unfold rect1 in Lx.
  destruct (blk_nonempty _ fx x row Hx ltac:(lia)) as [e [te Ee]].
  cbn [map concat]. rewrite Er. cbn [map concat]. rewrite Ee. cbn. discriminate.
Qed.

Definition maj_or0 (b : list Z) : Z := match majority_block b with Ok v => v | _ => 0%Z end.

(* C07 (1): majority, any factors >= 1, any shape: no error, shape
   ceil(size/factor), every voxel is the most frequent label of its (clamped)
   block, the smallest one on ties. *)
Theorem majority_spec_full : forall fs nc nz ny nx (a : arr4 Z),
  check_factors_base fs = true -> rect4 nc nz ny nx a ->
  exists out, majority_model fs nz ny nx a = Ok out /\
    rect4 nc (cdiv nz (fac fs 2)) (cdiv ny (fac fs 1)) (cdiv nx (fac fs 0)) out /\
    forall c z y x, c < nc -> z < cdiv nz (fac fs 2) -> y < cdiv ny (fac fs 1) ->
      x < cdiv nx (fac fs 0) ->
      is_majority (majority_block_at (fac fs 0) (fac fs 1) (fac fs 2) a c z y x)
                  (get4 0%Z out c z y x).
Proof.
  intros fs nc nz ny nx a Hf [Hc Ha].
  destruct (check_factors_base_fac fs Hf) as [Hx [Hy Hz]].
  set (fx := fac fs 0) in *. set (fy := fac fs 1) in *. set (fz := fac fs 2) in *.
  set (G := fun vol : list (list (list Z)) =>
              tab (cdiv nz fz) (fun z => tab (cdiv ny fy) (fun y => tab (cdiv nx fx) (fun x =>
                maj_or0 (block_at fx fy fz vol z y x))))).
  assert (Hblk : forall vol z y x, In vol a -> z < cdiv nz fz -> y < cdiv ny fy -> x < cdiv nx fx ->
            majority_block (block_at fx fy fz vol z y x) = Ok (maj_or0 (block_at fx fy fz vol z y x))
            /\ is_majority (block_at fx fy fz vol z y x) (maj_or0 (block_at fx fy fz vol z y x))).
  { intros vol z y x Hin Hzi Hyi Hxi. rewrite Forall_forall in Ha.
    pose proof (block_at_nonempty _ fx fy fz nz ny nx vol z y x Hx Hy Hz (Ha _ Hin) Hzi Hyi Hxi) as Hne.
    destruct (majority_block_spec _ Hne) as [v [E Hm]]. unfold maj_or0. rewrite E. split; [reflexivity|exact Hm]. }
  exists (map G a). split; [|split].
  - unfold majority_model. rewrite Hf. unfold majority_arr. fold fx fy fz.
    apply sequence_map_ok. intros vol Hin. unfold G, tab.
    apply sequence_map_ok. intros z Hzi. apply in_seq in Hzi.
    apply sequence_map_ok. intros y Hyi. apply in_seq in Hyi.
    apply sequence_map_ok. intros x Hxi. apply in_seq in Hxi.
    apply Hblk; [exact Hin | lia | lia | lia].
  - split. rewrite map_length. exact Hc.
    apply Forall_forall. intros v Hv. apply in_map_iff in Hv. destruct Hv as [vol [<- Hin]].
    unfold G.
    pose proof (rect_tab4 Z 1 (cdiv nz fz) (cdiv ny fy) (cdiv nx fx)
                  (fun _ z y x => maj_or0 (block_at fx fy fz vol z y x))) as [_ HR].
    cbn in HR. inversion HR; subst. assumption.
  - intros c z y x Hci Hzi Hyi Hxi. unfold majority_block_at, get4.
    assert (HG : nth c (map G a) (G []) = G (nth c a [])) by apply map_nth.
    assert (E : nth c (map G a) [] = G (nth c a [])).
    { rewrite <- HG. apply nth_indep. rewrite map_length. lia. }
    rewrite E. unfold G. rewrite (tab_nth _ (cdiv nz fz)) by assumption.
    rewrite (tab_nth _ (cdiv ny fy)) by assumption. rewrite (tab_nth _ (cdiv nx fx)) by assumption.
    apply Hblk; try assumption. apply nth_In. lia.
Qed.

Theorem majority_rejects : forall fs nz ny nx (a : arr4 Z),
  check_factors_base fs = false -> majority_model fs nz ny nx a = Crash NotImplementedError.
Proof. intros. unfold majority_model. rewrite H. reflexivity. Qed.

(* ---- the executable oracle majority_ref computes the specified statistic ------ *)

Definition at_least (b : list Z) (v w : Z) : Prop :=
  (occ w b < occ v b) \/ (occ w b = occ v b /\ (v <= w)%Z).

Lemma better_spec : forall b w v, better b w v = true <-> ~ at_least b v w.
Proof.
  intros b w v. unfold better, at_least. rewrite orb_true_iff, andb_true_iff.
  rewrite Nat.ltb_lt, Nat.eqb_eq, Z.ltb_lt. lia.
Qed.

Lemma majority_ref_fold : forall b t best,
  let r := fold_left (fun best w => if better b w best then w else best) t best in
  (r = best \/ In r t) /\ at_least b r best /\ forall w, In w t -> at_least b r w.
Proof.
  intros b t. induction t as [|x t IH]; intros best; cbn [fold_left].
  - split. left; reflexivity. split. unfold at_least. right. split; [reflexivity | lia]. intros w [].
  - destruct (better b x best) eqn:E.
    + apply better_spec in E. destruct (IH x) as (H1 & H2 & H3).
      set (r := fold_left _ t x) in *. split; [|split].
      * destruct H1 as [-> | H1]. right; left; reflexivity. right; right; exact H1.
      * unfold at_least in *. lia.
      * intros w [<- | Hw]. exact H2. apply H3. exact Hw.
    + assert (E' : at_least b best x).
      { destruct (better b x best) eqn:E2. discriminate.
        unfold better in E2. unfold at_least.
        apply orb_false_iff in E2. destruct E2 as [E2 E3]. apply Nat.ltb_ge in E2.
        apply andb_false_iff in E3. destruct E3 as [E3 | E3].
        - apply Nat.eqb_neq in E3. lia.
        - apply Z.ltb_ge in E3. lia. }
      destruct (IH best) as (H1 & H2 & H3).
      set (r := fold_left _ t best) in *. split; [|split].
      * destruct H1 as [-> | H1]. left; reflexivity. right; right; exact H1.
      * exact H2.
      * intros w [<- | Hw]. unfold at_least in *. lia. apply H3. exact Hw.
Qed.

Theorem majority_ref_spec : forall b, b <> [] ->
  exists v, majority_ref b = Some v /\ is_majority b v.
Proof.
  intros b Hb. destruct b as [|h t]. congruence.
  unfold majority_ref. eexists. split. reflexivity.
  destruct (majority_ref_fold (h :: t) t h) as (H1 & H2 & H3).
  set (r := fold_left _ t h) in *. split.
  - destruct H1 as [-> | H1]. left; reflexivity. right; exact H1.
  - intros w [<- | Hw]. exact H2. apply H3. exact Hw.
Qed.
