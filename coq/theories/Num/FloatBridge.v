(* Bridge between the executable spec_float operations used by the models
   (FloatModel.v) and Flocq's verified binary floats: exactness of fnorm, fadd,
   fmul by one half, comparison, for any format (prec, emax).

   Flocq brings Coq's axiomatised reals: every statement proved through this
   file depends on ClassicalDedekindReals.sig_not_dec, sig_forall_dec,
   functional_extensionality_dep and (for some) Classical_Prop.classic. *)
From Coq Require Import ZArith Reals Psatz Bool Lia.
From Coq Require Import SpecFloat.
From Flocq Require Import Core BinarySingleNaN.
From NGS Require Import FloatModel.

Open Scope Z_scope.

Section Bridge.

Variable prec emax : Z.
Context (Hprec : Prec_gt_0 prec).
Context (Hmax : Prec_lt_emax prec emax).

Notation emin := (SpecFloat.emin prec emax).
Notation fexp := (SpecFloat.fexp prec emax).
Notation bfloat := (binary_float prec emax).
Notation valid := (valid_binary prec emax).

Local Instance fexp_correct' : Valid_exp fexp := FLT_exp_valid emin prec.

(* -- SpecFloat's round-to-nearest-even operations are Flocq's at mode_NE -- *)

Lemma round_nearest_even_equiv s m l :
  round_nearest_even m l = choice_mode mode_NE s m l.
Proof.
case l; [reflexivity|intro c].
case c; [ | reflexivity..].
now simpl; unfold Round.cond_incr; case Z.even.
Qed.

Lemma binary_round_aux_equiv sx mx ex lx :
  SpecFloat.binary_round_aux prec emax sx mx ex lx
  = BinarySingleNaN.binary_round_aux prec emax mode_NE sx mx ex lx.
Proof.
unfold SpecFloat.binary_round_aux, BinarySingleNaN.binary_round_aux.
set (mrse' := shr_fexp _ _ _ _ _).
case mrse'; intros mrs' e'; simpl.
now rewrite (round_nearest_even_equiv sx).
Qed.

Lemma binary_round_equiv s m e :
  SpecFloat.binary_round prec emax s m e =
  BinarySingleNaN.binary_round prec emax mode_NE s m e.
Proof.
unfold SpecFloat.binary_round, BinarySingleNaN.binary_round, shl_align_fexp.
set (mez := shl_align _ _ _); case mez as [mz ez].
apply binary_round_aux_equiv.
Qed.

Lemma binary_normalize_equiv m e szero :
  SpecFloat.binary_normalize prec emax m e szero
  = B2SF (BinarySingleNaN.binary_normalize prec emax Hprec Hmax mode_NE m e szero).
Proof.
case m as [ | p | p].
- now simpl.
- simpl; rewrite B2SF_SF2B; apply binary_round_equiv.
- simpl; rewrite B2SF_SF2B; apply binary_round_equiv.
Qed.

Lemma SFadd_equiv (x y : bfloat) :
  SFadd prec emax (B2SF x) (B2SF y) = B2SF (Bplus mode_NE x y).
Proof.
destruct x as [sx|sx| |sx mx ex Bx]; destruct y as [sy|sy| |sy my ey By];
  try reflexivity; try (simpl; now case Bool.eqb).
apply binary_normalize_equiv.
Qed.

Lemma SFmul_equiv (x y : bfloat) :
  SFmul prec emax (B2SF x) (B2SF y) = B2SF (Bmult mode_NE x y).
Proof.
destruct x as [sx|sx| |sx mx ex Bx]; destruct y as [sy|sy| |sy my ey By];
  try reflexivity.
simpl. rewrite B2SF_SF2B. apply binary_round_aux_equiv.
Qed.

(* -- a spec_float with a given real value ------------------------------- *)

Definition sf_sign (x : spec_float) : bool :=
  match x with
  | S754_zero s | S754_infinity s | S754_finite s _ _ => s
  | S754_nan => false
  end.

(* x is a valid finite float of value r *)
Definition Val (x : spec_float) (r : R) : Prop :=
  valid x = true /\ is_finite x = true /\ SF2R radix2 x = r.

(* ... and it is +0 when r = 0 *)
Definition Rep (x : spec_float) (r : R) : Prop :=
  Val x r /\ sf_sign x = Rlt_bool r 0.

Definition representable (r : R) : Prop :=
  generic_format radix2 fexp r /\ (Rabs r < bpow radix2 emax)%R.

Lemma is_finite_SF_eq x : is_finite_SF x = FloatModel.is_finite x.
Proof. destruct x; reflexivity. Qed.

Lemma Val_B (x : spec_float) r :
  Val x r -> exists b : bfloat, B2SF b = x /\ BinarySingleNaN.is_finite b = true /\ B2R b = r.
Proof.
intros (Hv & Hf & Hr). exists (SF2B x Hv). split. apply B2SF_SF2B.
split. rewrite is_finite_SF2B, is_finite_SF_eq. exact Hf.
rewrite B2R_SF2B. exact Hr.
Qed.

Lemma B_Val (b : bfloat) :
  BinarySingleNaN.is_finite b = true -> Val (B2SF b) (B2R b).
Proof.
intros Hf. split. apply valid_binary_B2SF. split.
rewrite <- is_finite_SF_eq, is_finite_SF_B2SF. exact Hf. apply SF2R_B2SF.
Qed.

Lemma sf_sign_B2SF (b : bfloat) : BinarySingleNaN.is_nan b = false -> sf_sign (B2SF b) = Bsign b.
Proof. destruct b; try reflexivity. Qed.

Lemma fin_not_nan (b : bfloat) :
  BinarySingleNaN.is_finite b = true -> BinarySingleNaN.is_nan b = false.
Proof. destruct b; try reflexivity; discriminate. Qed.

Lemma Val_sign_nonzero x r : Val x r -> r <> 0%R -> sf_sign x = Rlt_bool r 0.
Proof.
intros (Hv & Hf & Hr) Hnz. destruct x as [s|s| |s m e]; try discriminate Hf.
- simpl in Hr. congruence.
- simpl in Hr. simpl. subst r. destruct s; simpl.
  + rewrite Rlt_bool_true. reflexivity. apply F2R_lt_0. reflexivity.
  + rewrite Rlt_bool_false. reflexivity. apply F2R_ge_0. simpl. lia.
Qed.

Lemma Rep_inj x y r : Rep x r -> Rep y r -> x = y.
Proof.
intros [Hx Sx] [Hy Sy].
destruct (Val_B x r Hx) as (bx & Ex & Fx & Rx).
destruct (Val_B y r Hy) as (by_ & Ey & Fy & Ry).
rewrite <- Ex, <- Ey. f_equal.
apply B2R_Bsign_inj; try assumption. congruence.
rewrite <- (sf_sign_B2SF bx), <- (sf_sign_B2SF by_).
- rewrite Ex, Ey. congruence.
- apply fin_not_nan; assumption.
- apply fin_not_nan; assumption.
Qed.

Lemma round_representable r :
  representable r -> round radix2 fexp (round_mode mode_NE) r = r.
Proof. intros [Hg _]. apply round_generic. auto with typeclass_instances. exact Hg. Qed.

(* fnorm: exact on representable dyadics *)
Lemma fnorm_Rep m e :
  representable (F2R (Float radix2 m e)) ->
  Rep (SpecFloat.binary_normalize prec emax m e false) (F2R (Float radix2 m e)).
Proof.
intros Hr. rewrite binary_normalize_equiv.
generalize (binary_normalize_correct prec emax Hprec Hmax mode_NE m e false).
cbv zeta. rewrite (round_representable _ Hr).
rewrite Rlt_bool_true by apply Hr.
intros (H1 & H2 & H3).
split. rewrite <- H1. apply B_Val. exact H2.
rewrite sf_sign_B2SF by (apply fin_not_nan; exact H2).
rewrite H3. case Rcompare_spec; intro H.
- rewrite Rlt_bool_true; auto.
- rewrite H. rewrite Rlt_bool_false; auto. lra.
- rewrite Rlt_bool_false; auto. lra.
Qed.

Lemma fadd_Rep x y rx ry :
  Rep x rx -> Rep y ry -> representable (rx + ry)%R ->
  Rep (SFadd prec emax x y) (rx + ry)%R.
Proof.
intros [Hx Sx] [Hy Sy] Hr.
destruct (Val_B x rx Hx) as (bx & Ex & Fx & Rx).
destruct (Val_B y ry Hy) as (by_ & Ey & Fy & Ry).
rewrite <- Ex, <- Ey, SFadd_equiv.
generalize (Bplus_correct prec emax Hprec Hmax mode_NE bx by_ Fx Fy).
rewrite Rx, Ry. rewrite (round_representable _ Hr). rewrite Rlt_bool_true by apply Hr.
intros (H1 & H2 & H3).
split. rewrite <- H1. apply B_Val. exact H2.
rewrite sf_sign_B2SF by (apply fin_not_nan; exact H2).
rewrite H3. case Rcompare_spec; intro H.
- rewrite Rlt_bool_true; auto.
- rewrite H, Rlt_bool_false by lra.
  rewrite <- (sf_sign_B2SF bx), <- (sf_sign_B2SF by_), Ex, Ey, Sx, Sy
    by (apply fin_not_nan; assumption).
  destruct (Rlt_bool_spec rx 0); destruct (Rlt_bool_spec ry 0); try reflexivity. lra.
- rewrite Rlt_bool_false; auto. lra.
Qed.

(* multiplication by a positive constant *)
Lemma fmul_pos_Rep c x rc r :
  Rep c rc -> (0 < rc)%R -> Rep x r -> representable (rc * r)%R ->
  Rep (SFmul prec emax c x) (rc * r)%R.
Proof.
intros [Hc Sc] Hpos [Hx Sx] Hr.
destruct (Val_B c rc Hc) as (bc & Ec & Fc & Rc).
destruct (Val_B x r Hx) as (bx & Ex & Fx & Rx).
rewrite <- Ec, <- Ex, SFmul_equiv.
generalize (Bmult_correct prec emax Hprec Hmax mode_NE bc bx).
rewrite Rc, Rx. rewrite (round_representable _ Hr). rewrite Rlt_bool_true by apply Hr.
rewrite Fc, Fx. intros (H1 & H2 & H3).
split. rewrite <- H1. apply B_Val. exact H2.
assert (Hn : BinarySingleNaN.is_nan (Bmult mode_NE bc bx) = false)
  by (apply fin_not_nan; exact H2).
rewrite sf_sign_B2SF by exact Hn. rewrite (H3 Hn).
rewrite <- (sf_sign_B2SF bc), <- (sf_sign_B2SF bx), Ec, Ex, Sc, Sx
  by (apply fin_not_nan; assumption).
rewrite (Rlt_bool_false rc 0) by lra. simpl.
destruct (Rlt_bool_spec r 0); destruct (Rlt_bool_spec (rc * r) 0); try reflexivity; nra.
Qed.

(* comparison *)
Lemma fltb_Val x y rx ry : Val x rx -> Val y ry -> SFltb x y = Rlt_bool rx ry.
Proof.
intros Hx Hy.
destruct (Val_B x rx Hx) as (bx & Ex & Fx & Rx).
destruct (Val_B y ry Hy) as (by_ & Ey & Fy & Ry).
rewrite <- Ex, <- Ey, <- Rx, <- Ry. apply (Bltb_correct prec emax); assumption.
Qed.

(* representable dyadics *)
Lemma representable_F2R m e :
  Z.abs m < 2 ^ prec -> emin <= e -> e + prec <= emax ->
  representable (F2R (Float radix2 m e)).
Proof.
intros Hm He Hx.
assert (Hp : 0 < prec) by apply Hprec.
split.
- apply (generic_format_FLT radix2 emin prec).
  exists (Float radix2 m e); simpl; try assumption. reflexivity.
- apply F2R_lt_bpow. simpl.
  apply Z.lt_le_trans with (1 := Hm).
  apply Z.pow_le_mono_r; lia.
Qed.

End Bridge.
