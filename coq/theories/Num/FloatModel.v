(* Executable IEEE-754 binary64 / binary32 arithmetic for the models of
   data_types.py and downscaling.py.

   Only the proof-free [spec_float] operations of Coq.Floats.SpecFloat are
   used (SFadd, SFmul, binary_normalize, SFcompare); primitive floats are not.
   A format is the pair (prec, emax): (53, 1024) for float64, (24, 128) for
   float32.  A [spec_float] carries no NaN payload: every NaN is the one
   canonical quiet NaN (the harness canonicalises NaNs before comparing).

   Written here (they are not in SpecFloat): bit-pattern conversion, [of_Z],
   [rint] (np.rint: round half to even to an integral float), [to_Z_trunc],
   conversion between formats, and the exact rational value [SF2Q]. *)
From Coq Require Import ZArith QArith Bool List.
From Coq Require Import SpecFloat.
Import ListNotations.
Open Scope Z_scope.

Record ffmt : Type := { f_prec : Z; f_emax : Z }.
Definition b64 : ffmt := {| f_prec := 53; f_emax := 1024 |}.
Definition b32 : ffmt := {| f_prec := 24; f_emax := 128 |}.

Definition f_emin (f : ffmt) : Z := emin (f_prec f) (f_emax f).
(* number of exponent bits: 11 for float64, 8 for float32 *)
Definition f_ebits (f : ffmt) : Z := Z.log2 (f_emax f) + 1.
(* total width: 64 / 32 *)
Definition f_width (f : ffmt) : Z := f_prec f + f_ebits f.
(* exponent bias relative to the integer mantissa: e = E - f_bias *)
Definition f_bias (f : ffmt) : Z := f_prec f - 1 + (f_emax f - 1).

Definition fnorm (f : ffmt) (m e : Z) : spec_float :=
  binary_normalize (f_prec f) (f_emax f) m e false.

Definition fadd (f : ffmt) (x y : spec_float) : spec_float := SFadd (f_prec f) (f_emax f) x y.
Definition fmul (f : ffmt) (x y : spec_float) : spec_float := SFmul (f_prec f) (f_emax f) x y.

(* integer -> float, round to nearest even (C conversion, astype) *)
Definition of_Z (f : ffmt) (z : Z) : spec_float := fnorm f z 0.

Definition fhalf (f : ffmt) : spec_float := fnorm f 1 (-1).

Definition is_nan (x : spec_float) : bool :=
  match x with S754_nan => true | _ => false end.
Definition is_finite (x : spec_float) : bool :=
  match x with S754_zero _ | S754_finite _ _ _ => true | _ => false end.

(* x < y, false when either is NaN (C's <) *)
Definition fltb (x y : spec_float) : bool := SFltb x y.

(* ---- bit patterns ------------------------------------------------------ *)

Definition to_bits (f : ffmt) (x : spec_float) : Z :=
  let p1 := f_prec f - 1 in
  let sgn (s : bool) := if s then 2 ^ (f_width f - 1) else 0 in
  let inf := (2 * f_emax f - 1) * 2 ^ p1 in
  match x with
  | S754_zero s => sgn s
  | S754_infinity s => sgn s + inf
  | S754_nan => inf + 2 ^ (p1 - 1)
  | S754_finite s m e =>
      sgn s + (if 2 ^ p1 <=? Zpos m
               then (e + f_bias f) * 2 ^ p1 + (Zpos m - 2 ^ p1)
               else Zpos m)
  end.

Definition of_bits (f : ffmt) (n : Z) : spec_float :=
  let p1 := f_prec f - 1 in
  let n := n mod 2 ^ f_width f in
  let s := negb (n / 2 ^ (f_width f - 1) =? 0) in
  let E := (n / 2 ^ p1) mod 2 ^ f_ebits f in
  let M := n mod 2 ^ p1 in
  if E =? 0 then
    match M with
    | Zpos m => S754_finite s m (f_emin f)
    | _ => S754_zero s
    end
  else if E =? 2 * f_emax f - 1 then
    (if M =? 0 then S754_infinity s else S754_nan)
  else
    match M + 2 ^ p1 with
    | Zpos m => S754_finite s m (E - f_bias f)
    | _ => S754_nan          (* not reachable: M + 2^p1 > 0 *)
    end.

(* ---- rounding to an integral value: np.rint (nearbyint, ties to even) --- *)

(* round half to even of m / 2^k, k > 0, m >= 0 *)
Definition rhe_shift (m k : Z) : Z :=
  let q := m / 2 ^ k in
  let r := m mod 2 ^ k in
  let h := 2 ^ (k - 1) in
  if r <? h then q
  else if h <? r then q + 1
  else if Z.even q then q else q + 1.

Definition rint (f : ffmt) (x : spec_float) : spec_float :=
  match x with
  | S754_finite s m e =>
      if 0 <=? e then x
      else
        let n := rhe_shift (Zpos m) (- e) in
        if n =? 0 then S754_zero s      (* rint(-0.3) = -0.0 *)
        else fnorm f (cond_Zopp s n) 0
  | _ => x
  end.

(* truncation toward zero of a finite float; None for NaN and infinities *)
Definition to_Z_trunc (x : spec_float) : option Z :=
  match x with
  | S754_zero _ => Some 0
  | S754_finite s m e =>
      Some (cond_Zopp s (if 0 <=? e then Zpos m * 2 ^ e else Zpos m / 2 ^ (- e)))
  | _ => None
  end.

(* conversion to another format (astype between float types): exact when
   widening, round to nearest even (overflow to infinity, gradual underflow)
   when narrowing.  The sign of zero and of infinities is kept. *)
Definition fconv (f : ffmt) (x : spec_float) : spec_float :=
  match x with
  | S754_finite s m e => fnorm f (cond_Zopp s (Zpos m)) e
  | _ => x
  end.

(* exact value of a finite float as a rational (0 for NaN / infinities) *)
Definition dyadicQ (m e : Z) : Q :=
  if 0 <=? e then inject_Z (m * 2 ^ e) else Qmake m (Z.to_pos (2 ^ (- e))).

Definition SF2Q (x : spec_float) : Q :=
  match x with
  | S754_finite s m e => dyadicQ (cond_Zopp s (Zpos m)) e
  | _ => 0%Q
  end.

(* largest finite value, as mantissa and exponent *)
Definition f_max_m (f : ffmt) : Z := 2 ^ f_prec f - 1.
Definition f_max_e (f : ffmt) : Z := f_emax f - f_prec f.
