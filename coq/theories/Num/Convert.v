(* Model of data_types.get_chunk_dtype_transformer as it is coded today
   (/repo HEAD, after the fixes "buffer may be reused", "signed integers to
   uint64 without going through float64" and "saturate at the top of the
   uint64 range"), and the specification "nearest representable value,
   half-to-even, saturating" it is judged by.

     output_min, output_max = iinfo(output)
     work_dtype       = promote_types(input, output)
     if input and output are integer types and work_dtype is not:
         work_dtype = input                       (signed -> uint64, uint64 -> signed)
         output_min = max(output_min, iinfo(input).min)
         output_max = min(output_max, iinfo(input).max)
     round_to_nearest = output integer and input not integer
     clip_values      = output integer and not can_cast(input, output, "safe")
     saturate_top     = clip_values and work_dtype floating
                        and int(work_dtype.type(output_max)) > output_max
     if round or clip:
         preserve_input: chunk = np.array(chunk, dtype=work, copy=True)
         else:           chunk = np.asarray(chunk, dtype=work); copy if read-only
         np.rint(chunk, out=chunk)                       (if round)
         np.clip(chunk, output_min, output_max, out=chunk)   (if clip)
     result = chunk.astype(output, casting="unsafe")
     if saturate_top: result[chunk >= work_dtype.type(output_max)] = output_max
     return result

   Array elements are [num]: an integer or a float.  The conversion is
   elementwise, so the model is a scalar function mapped over the flat list,
   plus the aliasing rule that says when the caller's buffer is overwritten. *)
From Coq Require Import ZArith QArith Qabs Bool List.
From Coq Require Import SpecFloat.
From NGS Require Import Val DType FloatModel.
Import ListNotations.
Open Scope Z_scope.

Inductive num : Type := NI (z : Z) | NF (x : spec_float).

Definition fmt_of (d : dtype) : ffmt := match d with F32 => b32 | _ => b64 end.

(* ---- C casts from floating point to integer types ----------------------
   Out-of-range, infinite and NaN operands are undefined behaviour in C; what
   is written here is what NumPy 2.5.3 on x86-64 returns (cvttsd2si-based
   scalar code), MODELLED FROM OBSERVATION and re-checked by the harness:
     * 8/16-bit targets and int32 go through a 32-bit conversion whose
       out-of-range result is INT32_MIN (so the low 8/16 bits are 0);
     * uint32 and int64 go through a 64-bit conversion (out of range:
       INT64_MIN; low 32 bits 0).  [For NaN -> uint32 NumPy's vectorised loop
       returns 2^31 for some array positions and 0 for others; the harness
       does not compare that single combination];
     * uint64: operands below 2^63 are converted as int64 and reinterpreted;
       operands >= 2^63 have 2^63 subtracted, are converted as int64 and get
       the top bit back -- so 2^64 and everything above, and +inf, give 0. *)
Definition two63 : Z := 2 ^ 63.
Definition two64z : Z := 2 ^ 64.
Definition two31 : Z := 2 ^ 31.

Definition cvt32 (t : option Z) : Z :=      (* cvttsd2si r32 *)
  match t with
  | Some z => if (- two31 <=? z) && (z <? two31) then z else - two31
  | None => - two31
  end.
Definition cvt64 (t : option Z) : Z :=      (* cvttsd2si r64 *)
  match t with
  | Some z => if (- two63 <=? z) && (z <? two63) then z else - two63
  | None => - two63
  end.

Definition c_cast (d : dtype) (x : spec_float) : Z :=
  let t := to_Z_trunc x in
  match d with
  | I8 | U8 | I16 | U16 | I32 => wrap d (cvt32 t)
  | U32 | I64 => wrap d (cvt64 t)
  | U64 =>
      match t with
      | Some z =>
          if z <? two63 then wrap U64 (cvt64 t)
          else wrap U64 (cvt64 (Some (z - two63)) + two63)
      | None =>
          match x with
          | S754_infinity false => 0        (* +inf: the ">= 2^63" branch *)
          | _ => two63                      (* NaN, -inf *)
          end
      end
  | F32 | F64 => 0                          (* not an integer type: unused *)
  end.

(* ndarray.astype(d, casting="unsafe") on one element *)
Definition cast (d : dtype) (v : num) : num :=
  match v with
  | NI z => if is_int d then NI (wrap d z) else NF (of_Z (fmt_of d) z)
  | NF x => if is_int d then NI (c_cast d x) else NF (fconv (fmt_of d) x)
  end.

(* np.rint on one element of the work array *)
Definition rint_num (d : dtype) (v : num) : num :=
  match v with
  | NI z => NI z
  | NF x => NF (rint (fmt_of d) x)
  end.

(* np.clip(x, lo, hi) with Python-integer bounds on one element of an array of
   dtype d.  Integer arrays: min(max(x, lo), hi).  Float arrays: the bounds
   are converted to the array's float type (NEP 50) -- 2^64-1 becomes 2^64 --
   NaN is propagated, and x is replaced only when x < lo or x > hi (so -0.0
   stays -0.0 under a lower bound of 0). *)
Definition clip_num (d : dtype) (lo hi : Z) (v : num) : num :=
  match v with
  | NI z => NI (Z.min (Z.max z lo) hi)
  | NF x =>
      if is_nan x then NF x
      else
        let flo := of_Z (fmt_of d) lo in
        let fhi := of_Z (fmt_of d) hi in
        let y := if fltb x flo then flo else x in
        NF (if fltb fhi y then fhi else y)
  end.

Definition round_flag (i o : dtype) : bool := is_int o && negb (is_int i).
Definition clip_flag (i o : dtype) : bool := is_int o && negb (can_cast_safe i o).

(* integer -> integer pairs that NumPy would promote to float64 *)
Definition int_via_float (i o : dtype) : bool :=
  is_int i && is_int o && negb (is_int (promote i o)).

Definition work_dtype (i o : dtype) : dtype :=
  if int_via_float i o then i else promote i o.
(* output_min / output_max as passed to np.clip *)
Definition clip_lo (i o : dtype) : Z :=
  if int_via_float i o then Z.max (imin o) (imin i) else imin o.
Definition clip_hi (i o : dtype) : Z :=
  if int_via_float i o then Z.min (imax o) (imax i) else imax o.

(* the upper bound as a value of the floating-point work type *)
Definition fhi_of (i o : dtype) : spec_float := of_Z (fmt_of (work_dtype i o)) (clip_hi i o).

(* int(work_dtype.type(output_max)) > output_max *)
Definition saturate_top (i o : dtype) : bool :=
  clip_flag i o && negb (is_int (work_dtype i o)) &&
  match to_Z_trunc (fhi_of i o) with
  | Some z => clip_hi i o <? z
  | None => false
  end.

(* The in-place stage on one element: value of the work array after rint/clip. *)
Definition work_value (i o : dtype) (v : num) : num :=
  let w := work_dtype i o in
  let v0 := cast w v in
  let v1 := if round_flag i o then rint_num w v0 else v0 in
  if clip_flag i o then clip_num w (clip_lo i o) (clip_hi i o) v1 else v1.

(* chunk >= work_dtype.type(output_max), false for NaN *)
Definition at_top (i o : dtype) (w : num) : bool :=
  match w with
  | NF x => negb (is_nan x) && negb (fltb x (fhi_of i o))
  | NI _ => false
  end.

(* the returned element *)
Definition convert_scalar (i o : dtype) (v : num) : num :=
  if round_flag i o || clip_flag i o then
    let w := work_value i o v in
    if saturate_top i o && at_top i o w then NI (clip_hi i o) else cast o w
  else cast o v.

(* Does the transformer write into the caller's buffer?  Only when it was
   allowed to (preserve_input=False), there is an in-place stage, and
   np.asarray(chunk, dtype=work) did not have to copy: same dtype INCLUDING
   byte order ([native] = the chunk's byte order is the work dtype's; a chunk in
   the other byte order passes the "equiv" assertion but is converted, hence
   copied) and the array is writeable (a read-only one is copied). *)
Definition aliased (i o : dtype) (preserve writeable native : bool) : bool :=
  negb preserve && (round_flag i o || clip_flag i o)
  && dtype_eqb (work_dtype i o) i && writeable && native.

(* (returned array, caller's array afterwards) *)
Definition convert (i o : dtype) (preserve writeable native : bool) (l : list num)
  : list num * list num :=
  (map (convert_scalar i o) l,
   if aliased i o preserve writeable native then map (work_value i o) l else l).

(* Byte order.  The chunk and the input dtype given to the factory may each be
   native or byte-swapped (the assertion admits any mix).  promote_types
   returns a native dtype, so the work dtype is native -- except on the
   integer path (signed -> uint64), where it IS the factory's input dtype,
   byte order included.  Values never depend on byte order; only aliasing does. *)
Definition order_matches (i o : dtype) (chunk_native factory_native : bool) : bool :=
  if int_via_float i o then Bool.eqb chunk_native factory_native else chunk_native.

Definition convert_bo (i o : dtype) (preserve writeable chunk_native factory_native : bool)
           (l : list num) : list num * list num :=
  convert i o preserve writeable (order_matches i o chunk_native factory_native) l.

(* ---- specification ------------------------------------------------------ *)

(* round half to even of a rational *)
Definition rhe_Q (q : Q) : Z :=
  let n := Qnum q in
  let d := Zpos (Qden q) in
  let fl := n / d in
  let r := n mod d in
  match 2 * r ?= d with
  | Lt => fl
  | Gt => fl + 1
  | Eq => if Z.even fl then fl else fl + 1
  end.

(* floor (log2 (n / d)) for n, d > 0 *)
Definition qlog2 (n d : Z) : Z :=
  let l := Z.log2 n - Z.log2 d in
  if 0 <=? l then (if d * 2 ^ l <=? n then l else l - 1)
  else (if d <=? n * 2 ^ (- l) then l else l - 1).

(* nearest finite value of format f to the rational q, ties to even mantissa,
   saturating at +-max instead of overflowing: (mantissa, exponent) *)
Definition nearest_float (f : ffmt) (q : Q) : Z * Z :=
  let n := Qnum q in
  let d := Zpos (Qden q) in
  if n =? 0 then (0, 0)
  else
    let a := Z.abs n in
    let e := Z.max (f_emin f) (qlog2 a d - (f_prec f - 1)) in
    (* |q| / 2^e as a rational *)
    let scaled := if 0 <=? e then Qmake a (Z.to_pos (d * 2 ^ e))
                  else Qmake (a * 2 ^ (- e)) (Qden q) in
    let m := rhe_Q scaled in
    let sat := if 0 <=? e - f_max_e f
               then f_max_m f <? m * 2 ^ (e - f_max_e f)
               else false in
    if sat then (Z.sgn n * f_max_m f, f_max_e f) else (Z.sgn n * m, e).

(* the specification: nearest representable value of type d, saturating.
   Integer types: NI; float types: NF of the exactly normalised result. *)
Definition nearest_sat (d : dtype) (q : Q) : num :=
  if is_int d then NI (clamp d (rhe_Q q))
  else let '(m, e) := nearest_float (fmt_of d) q in NF (fnorm (fmt_of d) m e).

(* exact value of an element *)
Definition num2Q (v : num) : Q :=
  match v with NI z => inject_Z z | NF x => SF2Q x end.

Definition num_finite (v : num) : bool :=
  match v with NI _ => true | NF x => is_finite x end.

(* well-typed element of dtype d *)
Definition num_ok (d : dtype) (v : num) : bool :=
  match v with
  | NI z => is_int d && in_rangeb d z
  | NF x => negb (is_int d) &&
            valid_binary (f_prec (fmt_of d)) (f_emax (fmt_of d)) x
  end.

(* wire encoding: integers as themselves, floats as raw IEEE bit patterns *)
Definition num_decode (d : dtype) (z : Z) : num :=
  if is_int d then NI z else NF (of_bits (fmt_of d) z).
Definition num_encode (d : dtype) (v : num) : Z :=
  match v with NI z => z | NF x => to_bits (fmt_of d) x end.

(* ---- guard: the region where the transformer departs from nearest_sat --------
   (executable; the harness classifies the known finding with the same
   predicate, cross-checked against this one on every finite value) *)

(* float64 -> float32 overflows to infinity beyond the rounding boundary of FLT_MAX *)
Definition f32_overflow_bound : Q := inject_Z (2 ^ 128 - 2 ^ 103).
Definition float32_overflow_guard (i o : dtype) (v : num) : bool :=
  negb (dtype_eqb i F64 && dtype_eqb o F32 &&
        match Qcompare (Qabs (num2Q v)) f32_overflow_bound with Lt => false | _ => true end).


(* the transformer asserts that the chunk's dtype is the declared input dtype
   (np.can_cast(..., "equiv"): same type up to byte order) *)
Definition convert_checked (chunk_dt i o : dtype) (preserve writeable native : bool) (l : list num)
  : outcome (list num * list num) :=
  if dtype_eqb chunk_dt i then Ok (convert i o preserve writeable native l) else Crash AssertionError.
