(* Model of data_types.get_chunk_dtype_transformer as it is coded today
   (/repo HEAD, after the "buffer may be reused" fix), and the specification
   "nearest representable value, half-to-even, saturating" it is judged by.

     work_dtype       = promote_types(input, output)
     round_to_nearest = output integer and input not integer
     clip_values      = output integer and not can_cast(input, output, "safe")
     if round or clip:
         preserve_input: chunk = np.array(chunk, dtype=work, copy=True)
         else:           chunk = np.asarray(chunk, dtype=work); copy if read-only
         np.rint(chunk, out=chunk)                       (if round)
         np.clip(chunk, output_min, output_max, out=chunk)   (if clip)
     return chunk.astype(output, casting="unsafe")

   Array elements are [num]: an integer or a float.  The conversion is
   elementwise, so the model is a scalar function mapped over the flat list,
   plus the aliasing rule that says when the caller's buffer is overwritten. *)
From Coq Require Import ZArith QArith Qabs Bool List.
From Coq Require Import SpecFloat.
From NGS Require Import Val DType FloatModel.
Import ListNotations.
Open Scope Z_scope.

Inductive num : Type := NI (z : Z) | NF (x : spec_float).

Definition fmt_of (d : dtype) : ffmt := match d with F32 => b32 | _ => b64 end.

(* ---- C casts from floating point to integer types ----------------------
   Out-of-range, infinite and NaN operands are undefined behaviour in C; what
   is written here is what NumPy 2.5.3 on x86-64 returns (cvttsd2si-based
   scalar code), MODELLED FROM OBSERVATION and re-checked by the harness:
     * 8/16-bit targets and int32 go through a 32-bit conversion whose
       out-of-range result is INT32_MIN (so the low 8/16 bits are 0);
     * uint32 and int64 go through a 64-bit conversion (out of range:
       INT64_MIN; low 32 bits 0).  [For NaN -> uint32 NumPy's vectorised loop
       returns 2^31 for some array positions and 0 for others; the harness
       does not compare that single combination];
     * uint64: operands below 2^63 are converted as int64 and reinterpreted;
       operands >= 2^63 have 2^63 subtracted, are converted as int64 and get
       the top bit back -- so 2^64 and everything above, and +inf, give 0. *)
Definition two63 : Z := 2 ^ 63.
Definition two64z : Z := 2 ^ 64.
Definition two31 : Z := 2 ^ 31.

Definition cvt32 (t : option Z) : Z :=      (* cvttsd2si r32 *)
  match t with
  | Some z => if (- two31 <=? z) && (z <? two31) then z else - two31
  | None => - two31
  end.
Definition cvt64 (t : option Z) : Z :=      (* cvttsd2si r64 *)
  match t with
  | Some z => if (- two63 <=? z) && (z <? two63) then z else - two63
  | None => - two63
  end.

Definition c_cast (d : dtype) (x : spec_float) : Z :=
  let t := to_Z_trunc x in
  match d with
  | I8 | U8 | I16 | U16 | I32 => wrap d (cvt32 t)
  | U32 | I64 => wrap d (cvt64 t)
  | U64 =>
      match t with
      | Some z =>
          if z <? two63 then wrap U64 (cvt64 t)
          else wrap U64 (cvt64 (Some (z - two63)) + two63)
      | None =>
          match x with
          | S754_infinity false => 0        (* +inf: the ">= 2^63" branch *)
          | _ => two63                      (* NaN, -inf *)
          end
      end
  | F32 | F64 => 0                          (* not an integer type: unused *)
  end.

(* ndarray.astype(d, casting="unsafe") on one element *)
Definition cast (d : dtype) (v : num) : num :=
  match v with
  | NI z => if is_int d then NI (wrap d z) else NF (of_Z (fmt_of d) z)
  | NF x => if is_int d then NI (c_cast d x) else NF (fconv (fmt_of d) x)
  end.

(* np.rint on one element of the work array *)
Definition rint_num (d : dtype) (v : num) : num :=
  match v with
  | NI z => NI z
  | NF x => NF (rint (fmt_of d) x)
  end.

(* np.clip(x, lo, hi) with Python-integer bounds on one element of an array of
   dtype d.  Integer arrays: min(max(x, lo), hi).  Float arrays: the bounds
   are converted to the array's float type (NEP 50) -- 2^64-1 becomes 2^64 --
   NaN is propagated, and x is replaced only when x < lo or x > hi (so -0.0
   stays -0.0 under a lower bound of 0). *)
Definition clip_num (d : dtype) (lo hi : Z) (v : num) : num :=
  match v with
  | NI z => NI (Z.min (Z.max z lo) hi)
  | NF x =>
      if is_nan x then NF x
      else
        let flo := of_Z (fmt_of d) lo in
        let fhi := of_Z (fmt_of d) hi in
        let y := if fltb x flo then flo else x in
        NF (if fltb fhi y then fhi else y)
  end.

Definition round_flag (i o : dtype) : bool := is_int o && negb (is_int i).
Definition clip_flag (i o : dtype) : bool := is_int o && negb (can_cast_safe i o).

(* The in-place stage on one element: value of the work array after rint/clip. *)
Definition work_value (i o : dtype) (v : num) : num :=
  let w := promote i o in
  let v0 := cast w v in
  let v1 := if round_flag i o then rint_num w v0 else v0 in
  if clip_flag i o then clip_num w (imin o) (imax o) v1 else v1.

(* the returned element *)
Definition convert_scalar (i o : dtype) (v : num) : num :=
  if round_flag i o || clip_flag i o then cast o (work_value i o v) else cast o v.

(* Does the transformer write into the caller's buffer?  Only when it was
   allowed to (preserve_input=False), there is an in-place stage, and
   np.asarray(chunk, dtype=work) did not have to copy: same dtype (a
   byte-swapped chunk passes the "equiv" assertion but is converted, hence
   copied) and the array is writeable (a read-only one is copied). *)
Definition aliased (i o : dtype) (preserve writeable native : bool) : bool :=
  negb preserve && (round_flag i o || clip_flag i o)
  && dtype_eqb (promote i o) i && writeable && native.

(* (returned array, caller's array afterwards) *)
Definition convert (i o : dtype) (preserve writeable native : bool) (l : list num)
  : list num * list num :=
  (map (convert_scalar i o) l,
   if aliased i o preserve writeable native then map (work_value i o) l else l).

(* ---- specification ------------------------------------------------------ *)

(* round half to even of a rational *)
Definition rhe_Q (q : Q) : Z :=
  let n := Qnum q in
  let d := Zpos (Qden q) in
  let fl := n / d in
  let r := n mod d in
  match 2 * r ?= d with
  | Lt => fl
  | Gt => fl + 1
  | Eq => if Z.even fl then fl else fl + 1
  end.

(* floor (log2 (n / d)) for n, d > 0 *)
Definition qlog2 (n d : Z) : Z :=
  let l := Z.log2 n - Z.log2 d in
  if 0 <=? l then (if d * 2 ^ l <=? n then l else l - 1)
  else (if d <=? n * 2 ^ (- l) then l else l - 1).

(* nearest finite value of format f to the rational q, ties to even mantissa,
   saturating at +-max instead of overflowing: (mantissa, exponent) *)
Definition nearest_float (f : ffmt) (q : Q) : Z * Z :=
  let n := Qnum q in
  let d := Zpos (Qden q) in
  if n =? 0 then (0, 0)
  else
    let a := Z.abs n in
    let e := Z.max (f_emin f) (qlog2 a d - (f_prec f - 1)) in
    (* |q| / 2^e as a rational *)
    let scaled := if 0 <=? e then Qmake a (Z.to_pos (d * 2 ^ e))
                  else Qmake (a * 2 ^ (- e)) (Qden q) in
    let m := rhe_Q scaled in
    let sat := if 0 <=? e - f_max_e f
               then f_max_m f <? m * 2 ^ (e - f_max_e f)
               else false in
    if sat then (Z.sgn n * f_max_m f, f_max_e f) else (Z.sgn n * m, e).

(* the specification: nearest representable value of type d, saturating.
   Integer types: NI; float types: NF of the exactly normalised result. *)
Definition nearest_sat (d : dtype) (q : Q) : num :=
  if is_int d then NI (clamp d (rhe_Q q))
  else let '(m, e) := nearest_float (fmt_of d) q in NF (fnorm (fmt_of d) m e).

(* exact value of an element *)
Definition num2Q (v : num) : Q :=
  match v with NI z => inject_Z z | NF x => SF2Q x end.

Definition num_finite (v : num) : bool :=
  match v with NI _ => true | NF x => is_finite x end.

(* well-typed element of dtype d *)
Definition num_ok (d : dtype) (v : num) : bool :=
  match v with
  | NI z => is_int d && in_rangeb d z
  | NF x => negb (is_int d) &&
            valid_binary (f_prec (fmt_of d)) (f_emax (fmt_of d)) x
  end.

(* wire encoding: integers as themselves, floats as raw IEEE bit patterns *)
Definition num_decode (d : dtype) (z : Z) : num :=
  if is_int d then NI z else NF (of_bits (fmt_of d) z).
Definition num_encode (d : dtype) (v : num) : Z :=
  match v with NI z => z | NF x => to_bits (fmt_of d) x end.

(* ---- guards: the regions where the transformer departs from nearest_sat -------
   (executable; the harness classifies known findings with the same predicates,
   cross-checked against these on every classified case) *)

(* float -> uint64 at and above 2^64: the clip bound 2^64-1 becomes 2^64 in
   float64 and the C cast of 2^64 gives 0 *)
Definition uint64_top_guard (i o : dtype) (v : num) : bool :=
  negb (negb (is_int i) && dtype_eqb o U64 && Qle_bool (inject_Z two64z) (num2Q v)).


(* int64 -> uint64 goes through float64 (promote_types): inexact above 2^53 *)
Definition int64_via_float_guard (i o : dtype) (v : num) : bool :=
  negb (dtype_eqb i I64 && dtype_eqb o U64 &&
        match v with NI z => 2 ^ 53 <? z | NF _ => false end).


(* float64 -> float32 overflows to infinity beyond the rounding boundary of FLT_MAX *)
Definition f32_overflow_bound : Q := inject_Z (2 ^ 128 - 2 ^ 103).
Definition float32_overflow_guard (i o : dtype) (v : num) : bool :=
  negb (dtype_eqb i F64 && dtype_eqb o F32 &&
        match Qcompare (Qabs (num2Q v)) f32_overflow_bound with Lt => false | _ => true end).


(* the transformer asserts that the chunk's dtype is the declared input dtype
   (np.can_cast(..., "equiv"): same type up to byte order) *)
Definition convert_checked (chunk_dt i o : dtype) (preserve writeable native : bool) (l : list num)
  : outcome (list num * list num) :=
  if dtype_eqb chunk_dt i then Ok (convert i o preserve writeable native l) else Crash AssertionError.
