(* Exactness of the averaging downscaler's float64 computation (Downscale.v,
   avg_model) on the integer types uint8/uint16/uint32: the float64 pipeline
   equals the same pipeline in exact integer arithmetic on a fixed-point grid
   (units of 2^-k), followed by "nearest, half-to-even, saturating".
   Uses FloatBridge.v (Flocq). *)
From Coq Require Import ZArith QArith Reals Psatz Bool List Arith Lia.
From Coq Require Import SpecFloat.
From Flocq Require Import Core BinarySingleNaN.
From NGS Require Import Val DType FloatModel Convert ConvertProofs FloatBridge ConvertFloatProofs
     Downscale DownscaleProofs.
Import ListNotations.
Close Scope Q_scope.
Close Scope R_scope.

(* ---- generic list lemmas -------------------------------------------------- *)

Lemma pair_induction : forall A (P : list A -> Prop),
  P [] -> (forall a, P [a]) -> (forall a b r, P r -> P (a :: b :: r)) -> forall l, P l.
Proof.
  intros A P H0 H1 H2.
  assert (H : forall l, P l /\ forall a, P (a :: l)).
  { induction l as [|b r [IH1 IH2]].
    - split. exact H0. exact H1.
    - split. apply IH2. intros a. apply H2. exact IH1. }
  intros l. apply H.
Qed.

Lemma map_ext_Forall : forall A B (R : A -> Prop) (f h : A -> B) l,
  Forall R l -> (forall x, R x -> f x = h x) -> map f l = map h l.
Proof.
  intros A B R f h l HF H. apply map_ext_in. intros x Hx. apply H.
  rewrite Forall_forall in HF. apply HF. exact Hx.
Qed.

Lemma Forall_map_impl : forall A B (R : A -> Prop) (S : B -> Prop) (h : A -> B) l,
  Forall R l -> (forall x, R x -> S (h x)) -> Forall S (map h l).
Proof.
  intros A B R S h l HF H. apply Forall_forall. intros y Hy. apply in_map_iff in Hy.
  destruct Hy as [x [<- Hx]]. apply H. rewrite Forall_forall in HF. apply HF. exact Hx.
Qed.

Lemma last_opt_map : forall A B (g : A -> B) l, last_opt (map g l) = option_map g (last_opt l).
Proof.
  intros A B g l. induction l as [|a r IH]. reflexivity.
  destruct r as [|b r']. reflexivity. cbn [map last_opt] in *. exact IH.
Qed.

Lemma last_opt_In : forall A (l : list A) x, last_opt l = Some x -> In x l.
Proof.
  intros A l x. induction l as [|a r IH]; intros H. discriminate.
  destruct r as [|b r']. inversion H. left. reflexivity.
  right. apply IH. exact H.
Qed.

(* a homomorphism g : B -> A from exact values to floats, valid on P, landing in Q *)
Section Hom.
Context {A B : Type} (g : B -> A) (f : A -> A -> A) (f' : B -> B -> B).
Variable P Q : B -> Prop.
Hypothesis H : forall x y, P x -> P y -> f (g x) (g y) = g (f' x y) /\ Q (f' x y).

Lemma map2_hom : forall l1 l2, Forall P l1 -> Forall P l2 ->
  map2 f (map g l1) (map g l2) = map g (map2 f' l1 l2) /\ Forall Q (map2 f' l1 l2).
Proof.
  unfold map2. induction l1 as [|a r IH]; intros l2 H1 H2.
  - split. reflexivity. constructor.
  - destruct l2 as [|b r2]. split. reflexivity. constructor.
    inversion H1; subst. inversion H2; subst.
    destruct (IH r2 ltac:(assumption) ltac:(assumption)) as [E F].
    destruct (H a b ltac:(assumption) ltac:(assumption)) as [E1 Q1].
    cbn [map combine fst snd]. split. rewrite E1. f_equal. exact E.
    constructor. exact Q1. exact F.
Qed.

Lemma pair_up_hom : forall l, Forall P l ->
  pair_up f (map g l) = map g (pair_up f' l) /\ Forall Q (pair_up f' l).
Proof.
  intros l. induction l as [| a | a b r IH] using pair_induction; intros HF.
  - split. reflexivity. constructor.
  - split. reflexivity. constructor.
  - inversion HF as [|? ? Pa HF']; subst. inversion HF' as [|? ? Pb HF'']; subst.
    destruct (IH HF'') as [E F]. destruct (H a b Pa Pb) as [E1 Q1].
    cbn [map pair_up]. split. rewrite E1, E. reflexivity. constructor; assumption.
Qed.

Variable mk : A -> A.
Variable mk' : B -> B.
Hypothesis Hmk : forall x, mk (g x) = g (mk' x).
Hypothesis Pmk : forall x, P x -> P (mk' x).

Lemma pad_odd_hom : forall l, Forall P l ->
  pad_odd mk (map g l) = map g (pad_odd mk' l) /\ Forall P (pad_odd mk' l).
Proof.
  intros l HF. unfold pad_odd. rewrite map_length, last_opt_map.
  destruct (Nat.odd (length l)). 2: (split; [reflexivity | exact HF]).
  destruct (last_opt l) as [x|] eqn:El; cbn [option_map]. 2: (split; [reflexivity | exact HF]).
  split. rewrite map_app. cbn [map]. rewrite Hmk. reflexivity.
  apply Forall_app. split. exact HF. constructor. apply Pmk.
  rewrite Forall_forall in HF. apply HF. apply last_opt_In. exact El. constructor.
Qed.

Lemma halve_hom : forall l, Forall P l ->
  halve mk f (map g l) = map g (halve mk' f' l) /\ Forall Q (halve mk' f' l).
Proof.
  intros l HF. unfold halve. destruct (pad_odd_hom l HF) as [E F]. rewrite E.
  apply pair_up_hom. exact F.
Qed.

End Hom.

(* lifting a homomorphism to lists *)
Lemma hom_lift : forall A B (g : B -> A) f f' (P Q : B -> Prop),
  (forall x y, P x -> P y -> f (g x) (g y) = g (f' x y) /\ Q (f' x y)) ->
  forall r1 r2, Forall P r1 -> Forall P r2 ->
    map2 f (map g r1) (map g r2) = map g (map2 f' r1 r2) /\ Forall Q (map2 f' r1 r2).
Proof. intros. apply (map2_hom g f f' P Q); assumption. Qed.

Definition Forall4 {A} (P : A -> Prop) (a : arr4 A) : Prop :=
  Forall (Forall (Forall (Forall P))) a.

Lemma Forall4_impl : forall A (P Q : A -> Prop) a,
  (forall x, P x -> Q x) -> Forall4 P a -> Forall4 Q a.
Proof.
  intros A P Q a HPQ. unfold Forall4.
  apply Forall_impl. intros v. apply Forall_impl. intros p. apply Forall_impl. intros r.
  apply Forall_impl. exact HPQ.
Qed.

Lemma fill0_hom : forall A B (g : B -> A) (o : option B) x,
  fill0 (option_map g o) (g x) = g (fill0 o x).
Proof. intros. destruct o; reflexivity. Qed.

Lemma fill1_hom : forall A B (g : B -> A) (o : option B) r,
  fill1 (option_map g o) (map g r) = map g (fill1 o r).
Proof. intros. unfold fill1. rewrite !map_map. apply map_ext. intros. apply fill0_hom. Qed.

Lemma fill2_hom : forall A B (g : B -> A) (o : option B) p,
  fill2 (option_map g o) (map (map g) p) = map (map g) (fill2 o p).
Proof. intros. unfold fill2. rewrite !map_map. apply map_ext. intros. apply fill1_hom. Qed.

Definition optP {B} (P : B -> Prop) (o : option B) : Prop :=
  match o with None => True | Some c => P c end.

Lemma fill0_P : forall B (P : B -> Prop) o x, optP P o -> P x -> P (fill0 o x).
Proof. intros B P [c|] x Ho Hx; cbn; assumption. Qed.
Lemma fill1_P : forall B (P : B -> Prop) o r, optP P o -> Forall P r -> Forall P (fill1 o r).
Proof. intros. unfold fill1. eapply Forall_map_impl. eassumption. intros. apply fill0_P; assumption. Qed.
Lemma fill2_P : forall B (P : B -> Prop) o p, optP P o -> Forall (Forall P) p -> Forall (Forall P) (fill2 o p).
Proof. intros. unfold fill2. eapply Forall_map_impl. eassumption. intros. apply fill1_P; assumption. Qed.

(* one axis at a time *)
Section Axes.
Context {A B : Type} (g : B -> A) (f : A -> A -> A) (f' : B -> B -> B).
Variable P Q : B -> Prop.
Hypothesis H : forall x y, P x -> P y -> f (g x) (g y) = g (f' x y) /\ Q (f' x y).
Variable o : option B.
Hypothesis Ho : optP P o.

Lemma halve_x_hom : forall M, Forall4 P M ->
  halve_x f (option_map g o) (map4 g M) = map4 g (halve_x f' o M) /\ Forall4 Q (halve_x f' o M).
Proof.
  intros M HM. unfold halve_x, map4, Forall4 in *.
  assert (Hrow : forall r, Forall P r ->
            halve (fill0 (option_map g o)) f (map g r) = map g (halve (fill0 o) f' r)
            /\ Forall Q (halve (fill0 o) f' r)).
  { intros r Hr. apply (halve_hom g f f' P Q H); try assumption.
    intros; apply fill0_hom. intros; apply fill0_P; assumption. }
  split.
  - rewrite !map_map. eapply map_ext_Forall. exact HM. intros v Hv.
    rewrite !map_map. eapply map_ext_Forall. exact Hv. intros p Hp.
    rewrite !map_map. eapply map_ext_Forall. exact Hp. intros r Hr. apply Hrow. exact Hr.
  - eapply Forall_map_impl. exact HM. intros v Hv.
    eapply Forall_map_impl. exact Hv. intros p Hp.
    eapply Forall_map_impl. exact Hp. intros r Hr. apply Hrow. exact Hr.
Qed.

Lemma halve_y_hom : forall M, Forall4 P M ->
  halve_y f (option_map g o) (map4 g M) = map4 g (halve_y f' o M) /\ Forall4 Q (halve_y f' o M).
Proof.
  intros M HM. unfold halve_y, map4, Forall4 in *.
  assert (Hpl : forall p, Forall (Forall P) p ->
            halve (fill1 (option_map g o)) (map2 f) (map (map g) p)
              = map (map g) (halve (fill1 o) (map2 f') p)
            /\ Forall (Forall Q) (halve (fill1 o) (map2 f') p)).
  { intros p Hp. apply (halve_hom (map g) (map2 f) (map2 f') (Forall P) (Forall Q)); try assumption.
    intros; apply (hom_lift _ _ g f f' P Q H); assumption.
    intros; apply fill1_hom. intros; apply fill1_P; assumption. }
  split.
  - rewrite !map_map. eapply map_ext_Forall. exact HM. intros v Hv.
    rewrite !map_map. eapply map_ext_Forall. exact Hv. intros p Hp. apply Hpl. exact Hp.
  - eapply Forall_map_impl. exact HM. intros v Hv.
    eapply Forall_map_impl. exact Hv. intros p Hp. apply Hpl. exact Hp.
Qed.

Lemma halve_z_hom : forall M, Forall4 P M ->
  halve_z f (option_map g o) (map4 g M) = map4 g (halve_z f' o M) /\ Forall4 Q (halve_z f' o M).
Proof.
  intros M HM. unfold halve_z, map4, Forall4 in *.
  assert (Hvol : forall v, Forall (Forall (Forall P)) v ->
            halve (fill2 (option_map g o)) (map2 (map2 f)) (map (map (map g)) v)
              = map (map (map g)) (halve (fill2 o) (map2 (map2 f')) v)
            /\ Forall (Forall (Forall Q)) (halve (fill2 o) (map2 (map2 f')) v)).
  { intros v Hv.
    apply (halve_hom (map (map g)) (map2 (map2 f)) (map2 (map2 f'))
             (Forall (Forall P)) (Forall (Forall Q))); try assumption.
    - intros; apply (hom_lift _ _ (map g) (map2 f) (map2 f') (Forall P) (Forall Q)); try assumption.
      intros; apply (hom_lift _ _ g f f' P Q H); assumption.
    - intros; apply fill2_hom.
    - intros; apply fill2_P; assumption. }
  split.
  - rewrite !map_map. eapply map_ext_Forall. exact HM. intros v Hv. apply Hvol. exact Hv.
  - eapply Forall_map_impl. exact HM. intros v Hv. apply Hvol. exact Hv.
Qed.

End Axes.

(* ---- the numeric instance: float64 on a fixed-point grid ------------------- *)

Open Scope Z_scope.

Local Instance Hp64 : Prec_gt_0 53 := eq_refl.
Local Instance Hm64 : Prec_lt_emax 53 1024 := eq_refl.

(* the float64 of m * 2^-k *)
Definition fl (k : Z) (m : Z) : spec_float := fnorm b64 m (- k).
(* exact average on the grid (the sum is even whenever it is used) *)
Definition zavg (x y : Z) : Z := (x + y) / 2.
(* multiples of 2^j below 2^52 in absolute value *)
Definition Pu (j : Z) (m : Z) : Prop := (2 ^ j | m) /\ Z.abs m < 2 ^ 52.

Lemma fl_Rep : forall k m, 0 <= k <= 1000 -> Z.abs m < 2 ^ 53 ->
  Rep 53 1024 (fl k m) (F2R (Float radix2 m (- k))).
Proof.
  intros k m Hk Hm. unfold fl, fnorm. cbn [f_prec f_emax b64].
  apply (fnorm_Rep 53 1024 _ _). apply (representable_F2R 53 1024 _).
  - exact Hm.
  - unfold SpecFloat.emin. lia.
  - lia.
Qed.

Lemma fhalf_Rep : Rep 53 1024 (fhalf b64) (/ 2)%R.
Proof.
  unfold fhalf, fnorm. cbn [f_prec f_emax b64].
  replace (/ 2)%R with (F2R (Float radix2 1 (- 1))).
  - apply (fnorm_Rep 53 1024 _ _). apply (representable_F2R 53 1024 _).
    + vm_compute. reflexivity.
    + vm_compute. discriminate.
    + lia.
  - unfold F2R. cbn. lra.
Qed.

Lemma Pu_weaken : forall j m, 1 <= j -> Pu j m -> Pu (j - 1) m.
Proof.
  intros j m Hj [[q Hq] Hb]. split; [|exact Hb]. exists (q * 2). rewrite Hq.
  replace j with (1 + (j - 1)) at 1 by lia. rewrite Z.pow_add_r by lia. change (2 ^ 1) with 2. ring.
Qed.

Lemma favg_units : forall k j x y, 0 <= k <= 1000 -> 1 <= j ->
  Pu j x -> Pu j y ->
  favg (fl k x) (fl k y) = fl k (zavg x y) /\ Pu (j - 1) (zavg x y).
Proof.
  intros k j x y Hk Hj [[qx Hx] Bx] [[qy Hy] By].
  assert (Hj2 : 2 ^ j = 2 * 2 ^ (j - 1)).
  { replace j with (1 + (j - 1)) at 1 by lia. rewrite Z.pow_add_r by lia. reflexivity. }
  assert (Hz : x + y = 2 * ((qx + qy) * 2 ^ (j - 1))) by (rewrite Hx, Hy, Hj2; ring).
  assert (Ez : zavg x y = (qx + qy) * 2 ^ (j - 1)).
  { unfold zavg. rewrite Hz. rewrite Z.mul_comm. apply Z.div_mul. lia. }
  change (2 ^ 52) with 4503599627370496 in *.
  assert (Bz : Z.abs (zavg x y) < 4503599627370496).
  { rewrite Ez. set (t := (qx + qy) * 2 ^ (j - 1)) in *. lia. }
  split.
  2:{ split. exists (qx + qy). exact Ez. exact Bz. }
  pose proof (fl_Rep k x Hk ltac:(change (2 ^ 53) with 9007199254740992; lia)) as Rx.
  pose proof (fl_Rep k y Hk ltac:(change (2 ^ 53) with 9007199254740992; lia)) as Ry.
  pose proof (fl_Rep k (x + y) Hk ltac:(change (2 ^ 53) with 9007199254740992; lia)) as Rs.
  pose proof (fl_Rep k (zavg x y) Hk ltac:(change (2 ^ 53) with 9007199254740992; lia)) as Rz.
  assert (Esum : (F2R (Float radix2 x (- k)) + F2R (Float radix2 y (- k)))%R
                 = F2R (Float radix2 (x + y) (- k))).
  { unfold F2R. cbn [Fnum Fexp]. rewrite plus_IZR. ring. }
  assert (Rsum : Rep 53 1024 (fadd b64 (fl k x) (fl k y)) (F2R (Float radix2 (x + y) (- k)))).
  { rewrite <- Esum. apply (fadd_Rep 53 1024 _ _); try assumption.
    rewrite Esum. destruct Rs as [(Hv & Hf & Hr) _].
    apply (representable_F2R 53 1024 _). change (2 ^ 53) with 9007199254740992; lia.
    unfold SpecFloat.emin; lia. lia. }
  assert (Ehalf : (/ 2 * F2R (Float radix2 (x + y) (- k)))%R = F2R (Float radix2 (zavg x y) (- k))).
  { unfold F2R. cbn [Fnum Fexp]. rewrite Hz, Ez. rewrite mult_IZR. field. }
  assert (Rm : Rep 53 1024 (favg (fl k x) (fl k y)) (F2R (Float radix2 (zavg x y) (- k)))).
  { rewrite <- Ehalf. unfold favg. apply (fmul_pos_Rep 53 1024 _ _); try assumption.
    apply fhalf_Rep. lra.
    rewrite Ehalf. apply (representable_F2R 53 1024 _). change (2 ^ 53) with 9007199254740992; lia.
    unfold SpecFloat.emin; lia. lia. }
  eapply Rep_inj; eassumption.
Qed.

(* the whole float64 stage equals the exact stage on the grid *)
Theorem avg_f64_units : forall k (o : option Z) fx fy fz (M : arr4 Z),
  0 <= k <= 1000 -> optP (Pu 3) o -> Forall4 (Pu 3) M ->
  avg_f64 (option_map (fl k) o) fx fy fz (map4 (fl k) M)
  = map4 (fl k) (avg_gen zavg o fx fy fz M)
  /\ Forall4 (Pu 0) (avg_gen zavg o fx fy fz M).
Proof.
  intros k o fx fy fz M Hk Ho HM. unfold avg_f64, avg_gen.
  assert (Ho2 : optP (Pu 2) o) by (destruct o; [apply (Pu_weaken 3); [lia | exact Ho] | exact I]).
  assert (Ho1 : optP (Pu 1) o) by (destruct o; [apply (Pu_weaken 2); [lia | exact Ho2] | exact I]).
  (* z *)
  assert (Sz : (if (fz =? 2)%nat then halve_z favg (option_map (fl k) o) (map4 (fl k) M) else map4 (fl k) M)
               = map4 (fl k) (if (fz =? 2)%nat then halve_z zavg o M else M)
               /\ Forall4 (Pu 2) (if (fz =? 2)%nat then halve_z zavg o M else M)).
  { destruct (fz =? 2)%nat.
    - apply (halve_z_hom (fl k) favg zavg (Pu 3) (Pu 2)); try assumption.
      intros x y Hx Hy. apply (favg_units k 3 x y Hk ltac:(lia) Hx Hy).
    - split. reflexivity. eapply Forall4_impl; [|exact HM]. intros; apply (Pu_weaken 3); [lia|assumption]. }
  destruct Sz as [Ez Fz]. rewrite Ez.
  set (M1 := if (fz =? 2)%nat then halve_z zavg o M else M) in *.
  assert (Sy : (if (fy =? 2)%nat then halve_y favg (option_map (fl k) o) (map4 (fl k) M1) else map4 (fl k) M1)
               = map4 (fl k) (if (fy =? 2)%nat then halve_y zavg o M1 else M1)
               /\ Forall4 (Pu 1) (if (fy =? 2)%nat then halve_y zavg o M1 else M1)).
  { destruct (fy =? 2)%nat.
    - apply (halve_y_hom (fl k) favg zavg (Pu 2) (Pu 1)); try assumption.
      intros x y Hx Hy. apply (favg_units k 2 x y Hk ltac:(lia) Hx Hy).
    - split. reflexivity. eapply Forall4_impl; [|exact Fz]. intros; apply (Pu_weaken 2); [lia|assumption]. }
  destruct Sy as [Ey Fy]. rewrite Ey.
  set (M2 := if (fy =? 2)%nat then halve_y zavg o M1 else M1) in *.
  destruct (fx =? 2)%nat.
  - apply (halve_x_hom (fl k) favg zavg (Pu 1) (Pu 0)); try assumption.
    intros x y Hx Hy. apply (favg_units k 1 x y Hk ltac:(lia) Hx Hy).
  - split. reflexivity. eapply Forall4_impl; [|exact Fy]. intros; apply (Pu_weaken 1); [lia|assumption].
Qed.

(* ---- gluing to avg_model ---------------------------------------------------- *)

Lemma map4_map4 : forall A B C (f : B -> C) (g : A -> B) a, map4 f (map4 g a) = map4 (fun x => f (g x)) a.
Proof.
  intros. unfold map4. rewrite map_map. apply map_ext. intros v.
  rewrite map_map. apply map_ext. intros p. rewrite map_map. apply map_ext. intros r.
  apply map_map.
Qed.

Lemma map4_ext_Forall4 : forall A B (P : A -> Prop) (f h : A -> B) a,
  Forall4 P a -> (forall x, P x -> f x = h x) -> map4 f a = map4 h a.
Proof.
  intros A B P f h a HF H. unfold map4, Forall4 in *.
  eapply map_ext_Forall. exact HF. intros v Hv.
  eapply map_ext_Forall. exact Hv. intros p Hp.
  eapply map_ext_Forall. exact Hp. intros r Hr.
  eapply map_ext_Forall. exact Hr. exact H.
Qed.

Lemma Forall4_map4 : forall A B (P : A -> Prop) (Q : B -> Prop) (h : A -> B) a,
  Forall4 P a -> (forall x, P x -> Q (h x)) -> Forall4 Q (map4 h a).
Proof.
  intros A B P Q h a HF H. unfold map4, Forall4 in *.
  eapply Forall_map_impl. exact HF. intros v Hv.
  eapply Forall_map_impl. exact Hv. intros p Hp.
  eapply Forall_map_impl. exact Hp. intros r Hr.
  eapply Forall_map_impl. exact Hr. exact H.
Qed.

Lemma F2R_scaled : forall v k, 0 <= k -> F2R (Float radix2 (v * 2 ^ k) (- k)) = IZR v.
Proof.
  intros v k Hk. unfold F2R. cbn [Fnum Fexp]. rewrite mult_IZR, (IZR_Zpower radix2) by exact Hk.
  rewrite Rmult_assoc, <- bpow_plus. replace (k + - k) with 0 by lia. cbn. ring.
Qed.

(* astype(float64) of a small integer is the grid point v * 2^k *)
Lemma to_f64_units : forall k v, 0 <= k <= 1000 -> Z.abs (v * 2 ^ k) < 2 ^ 53 ->
  to_f64 (NI v) = fl k (v * 2 ^ k).
Proof.
  intros k v Hk Hb. cbn [to_f64].
  assert (Hv : Z.abs v < 2 ^ 53).
  { assert (0 < 2 ^ k) by (apply Z.pow_pos_nonneg; lia).
    rewrite Z.abs_mul in Hb. rewrite (Z.abs_eq (2 ^ k)) in Hb by lia. nia. }
  apply (Rep_inj 53 1024 _ _ (IZR v)).
  - apply (of_Z_Rep 53 1024 _ _). vm_compute; discriminate. exact Hv.
  - rewrite <- (F2R_scaled v k) by lia. apply fl_Rep; assumption.
Qed.

Definition small_uint (d : dtype) : bool :=
  match d with U8 | U16 | U32 => true | _ => false end.

(* the grid point m * 2^-k as a rational *)
Definition gridQ (k m : Z) : Q := Qmake m (Z.to_pos (2 ^ k)).

(* the C11 converter on a grid value: nearest, half to even, saturating *)
Lemma convert_units : forall dt k m, is_uint dt = true -> 0 <= k <= 1000 -> Z.abs m < 2 ^ 53 ->
  convert_scalar F64 dt (NF (fl k m)) = nearest_sat dt (gridQ k m).
Proof.
  intros dt k m Hd Hk Hm.
  destruct (fl_Rep k m Hk Hm) as [(Hv & Hf & Hr) _].
  assert (Hq : (SF2Q (fl k m) == gridQ k m)%Q).
  { apply Qreals.eqR_Qeq.
    rewrite <- SF2R_Q2R, Hr. unfold gridQ, Q2R, F2R. cbn [Qnum Qden Fnum Fexp].
    rewrite Z2Pos.id by (apply Z.pow_pos_nonneg; lia).
    rewrite (IZR_Zpower radix2) by lia. rewrite <- bpow_opp. reflexivity. }
  rewrite (float_to_int_nearest F64 dt (fl k m)); try assumption; try reflexivity.
  unfold nearest_sat. assert (Hi : is_int dt = true) by (destruct dt; try discriminate Hd; reflexivity).
  rewrite Hi. do 2 f_equal. apply rhe_Q_Qeq. exact Hq.
Qed.

(* values small enough for the grid of multiples of 2^-k *)
Definition small_val (k v : Z) : Prop := Z.abs (v * 2 ^ k) < 2 ^ 52.

Lemma small_uint_range : forall dt v, small_uint dt = true -> in_range dt v -> 0 <= v < 2 ^ 32.
Proof. intros dt v Hd Hr. destruct dt; try discriminate Hd; dt_unfold; lia. Qed.

(* C07 (3), float part: on unsigned integer voxels small enough for the grid the
   model's float64 computation is exact: the result is the exact pairwise
   average on the grid of multiples of 2^-k, rounded half to even and saturated.
   The outside value may be absent (edge padding) or any multiple of 2^(3-k)
   below 2^(52-k), 3 <= k <= 20 (0, 1.5, 255, -3, ... with k = 4). *)
Theorem avg_exact_units : forall dt k (oc : option Z) fs (V : arr4 Z),
  is_uint dt = true -> check_factors_avg fs = true -> 3 <= k <= 20 ->
  optP (Pu 3) oc -> Forall4 (small_val k) V ->
  avg_model dt (option_map (fl k) oc) fs (map4 NI V) =
    Ok (map4 (fun m => nearest_sat dt (gridQ k m))
             (avg_gen zavg oc (fac fs 0) (fac fs 1) (fac fs 2) (map4 (fun v => v * 2 ^ k) V))).
Proof.
  intros dt k oc fs V Hd Hf Hk Ho HV. unfold avg_model. rewrite Hf. cbn [negb].
  assert (Hc : dtype_eqb (promote dt F64) F64 && can_cast_safe dt F64 = true)
    by (destruct dt; try discriminate Hd; reflexivity).
  rewrite Hc. cbn [negb]. f_equal.
  assert (Hscale : forall v, small_val k v -> Pu 3 (v * 2 ^ k)).
  { intros v Hb. split; [|exact Hb].
    exists (v * 2 ^ (k - 3)). rewrite <- Z.mul_assoc, <- Z.pow_add_r by lia. do 2 f_equal. lia. }
  rewrite map4_map4.
  rewrite (map4_ext_Forall4 _ _ (small_val k) (fun x => to_f64 (NI x)) (fun v => fl k (v * 2 ^ k)) V HV).
  2:{ intros v Hb. apply to_f64_units. lia. unfold small_val in Hb.
      change (2 ^ 52) with 4503599627370496 in Hb. change (2 ^ 53) with 9007199254740992. lia. }
  rewrite <- (map4_map4 _ _ _ (fl k) (fun v => v * 2 ^ k)).
  destruct (avg_f64_units k oc (fac fs 0) (fac fs 1) (fac fs 2) (map4 (fun v => v * 2 ^ k) V)
              ltac:(lia) Ho (Forall4_map4 _ _ _ _ _ V HV Hscale)) as [E F].
  rewrite E. rewrite map4_map4.
  apply (map4_ext_Forall4 _ _ (Pu 0)). exact F.
  intros m [_ Hm]. apply convert_units. exact Hd. lia.
  change (2 ^ 52) with 4503599627370496 in Hm. change (2 ^ 53) with 9007199254740992. lia.
Qed.

(* uint8 / uint16 / uint32: every value of the type is small enough *)
Lemma small_uint_small_val : forall dt k v, small_uint dt = true -> 3 <= k <= 20 ->
  in_range dt v -> small_val k v.
Proof.
  intros dt k v Hd Hk Hr. pose proof (small_uint_range dt v Hd Hr) as Hb. unfold small_val.
  assert (0 < 2 ^ k) by (apply Z.pow_pos_nonneg; lia).
  assert (2 ^ k <= 2 ^ 20) by (apply Z.pow_le_mono_r; lia).
  rewrite Z.abs_eq by nia. change (2 ^ 52) with (2 ^ 32 * 2 ^ 20). nia.
Qed.

Lemma small_uint_is_uint : forall dt, small_uint dt = true -> is_uint dt = true.
Proof. intros dt H. destruct dt; try discriminate H; reflexivity. Qed.

Example avg_exact_units_example :
  (* uint8 row 1 2 4, factor 2 along x, outside value 1.5 = 24 * 2^-4 *)
  is_uint U8 = true /\ check_factors_avg [2; 1; 1] = true /\ optP (Pu 3) (Some 24) /\
  Forall4 (small_val 4) [[[[1; 2; 4]]]] /\
  fl 4 24 = of_bits b64 4609434218613702656 /\
  avg_model U8 (Some (fl 4 24)) [2; 1; 1] [[[[NI 1; NI 2; NI 4]]]] = Ok [[[[NI 2; NI 3]]]].
Proof.
  split. reflexivity. split. reflexivity. split. split. exists 3. reflexivity. reflexivity.
  split. repeat constructor; vm_compute; reflexivity.
  split; vm_compute; reflexivity.
Qed.

(* ---- shapes --------------------------------------------------------------- *)

Close Scope Z_scope.

Lemma pair_up_length : forall A (f : A -> A -> A) l, length (pair_up f l) = length l / 2.
Proof.
  intros A f l. induction l as [| a | a b r IH] using pair_induction.
  - reflexivity.
  - reflexivity.
  - cbn [pair_up length]. rewrite IH.
    change (S (S (length r))) with (1 * 2 + length r). rewrite Nat.div_add_l by lia. reflexivity.
Qed.

Lemma last_opt_nonempty : forall A (l : list A), l <> [] -> exists x, last_opt l = Some x.
Proof.
  intros A l. induction l as [|a r IH]; intros H. congruence.
  destruct r as [|b r']. eexists; reflexivity. apply IH. discriminate.
Qed.

Lemma halve_length : forall A mk (f : A -> A -> A) l, length (halve mk f l) = cdiv (length l) 2.
Proof.
  intros A mk f l. unfold halve, pad_odd, cdiv. rewrite pair_up_length.
  destruct (Nat.odd (length l)) eqn:Eo.
  - destruct (last_opt_nonempty _ l) as [x Ex].
    { intros ->. discriminate Eo. }
    rewrite Ex, app_length. cbn [length]. f_equal. lia.
  - apply Nat.odd_spec in Eo || idtac.
    assert (He : Nat.even (length l) = true) by (rewrite <- Nat.negb_odd, Eo; reflexivity).
    apply Nat.even_spec in He. destruct He as [q Hq]. rewrite Hq.
    replace (2 * q + 2 - 1) with (1 + q * 2) by lia. rewrite Nat.div_add by lia.
    rewrite Nat.mul_comm, Nat.div_mul by lia. reflexivity.
Qed.

Lemma map2_length_eq : forall A B C (f : A -> B -> C) l1 l2 n,
  length l1 = n -> length l2 = n -> length (map2 f l1 l2) = n.
Proof. intros. unfold map2. rewrite map_length, combine_length. lia. Qed.

Lemma cdiv_1 : forall n, cdiv n 1 = n.
Proof. intros. unfold cdiv. rewrite Nat.div_1_r. lia. Qed.

(* shape-preservation of one halving stage, through the generic machinery
   (g = identity, P = Q = "has the inner shape") *)
Section ShapeStage.
Context {A : Type} (f : A -> A -> A) (o : option A).

Lemma halve_rect_inner : forall (T : Type) (R : T -> Prop) (mk : T -> T) (h : T -> T -> T) l,
  (forall x y, R x -> R y -> R (h x y)) -> (forall x, R x -> R (mk x)) ->
  Forall R l -> Forall R (halve mk h l).
Proof.
  intros T R mk h l Hh Hmk HF.
  apply (halve_hom (fun x : T => x) h h R R (fun x y Hx Hy => conj eq_refl (Hh x y Hx Hy)) mk mk
           (fun x => eq_refl) Hmk l HF).
Qed.

Lemma fill1_length : forall (r : list A), length (fill1 o r) = length r.
Proof. intros. unfold fill1. apply map_length. Qed.

Lemma rect2_map2 : forall ny nx (p q : list (list A)),
  rect2 ny nx p -> rect2 ny nx q -> rect2 ny nx (map2 (map2 f) p q).
Proof.
  intros ny nx p q [Lp Fp] [Lq Fq]. split. apply map2_length_eq; assumption.
  unfold map2 at 1. apply Forall_forall. intros r Hr. apply in_map_iff in Hr.
  destruct Hr as [[r1 r2] [<- Hin]]. cbn [fst snd].
  pose proof (in_combine_l _ _ _ _ Hin) as H1. pose proof (in_combine_r _ _ _ _ Hin) as H2.
  rewrite Forall_forall in Fp, Fq. unfold rect1 in *.
  apply map2_length_eq. apply Fp; exact H1. apply Fq; exact H2.
Qed.

Lemma rect2_fill2 : forall ny nx (p : list (list A)), rect2 ny nx p -> rect2 ny nx (fill2 o p).
Proof.
  intros ny nx p [Lp Fp]. unfold fill2. split. rewrite map_length. exact Lp.
  eapply Forall_map_impl. exact Fp. intros r Hr. unfold rect1 in *. rewrite fill1_length. exact Hr.
Qed.

Lemma halve_z_rect : forall nc nz ny nx a, rect4 nc nz ny nx a -> rect4 nc (cdiv nz 2) ny nx (halve_z f o a).
Proof.
  intros nc nz ny nx a [Lc Fa]. unfold halve_z. split. rewrite map_length. exact Lc.
  eapply Forall_map_impl. exact Fa. intros v [Lz Fv]. split.
  - rewrite halve_length, Lz. reflexivity.
  - apply halve_rect_inner; try assumption. apply rect2_map2. apply rect2_fill2.
Qed.

Lemma halve_y_rect : forall nc nz ny nx a, rect4 nc nz ny nx a -> rect4 nc nz (cdiv ny 2) nx (halve_y f o a).
Proof.
  intros nc nz ny nx a [Lc Fa]. unfold halve_y. split. rewrite map_length. exact Lc.
  eapply Forall_map_impl. exact Fa. intros v [Lz Fv]. split. rewrite map_length. exact Lz.
  eapply Forall_map_impl. exact Fv. intros p [Ly Fp]. split.
  - rewrite halve_length, Ly. reflexivity.
  - apply halve_rect_inner; try assumption.
    + intros r1 r2 H1 H2. unfold rect1 in *. apply map2_length_eq; assumption.
    + intros r Hr. unfold rect1 in *. rewrite fill1_length. exact Hr.
Qed.

Lemma halve_x_rect : forall nc nz ny nx a, rect4 nc nz ny nx a -> rect4 nc nz ny (cdiv nx 2) (halve_x f o a).
Proof.
  intros nc nz ny nx a [Lc Fa]. unfold halve_x. split. rewrite map_length. exact Lc.
  eapply Forall_map_impl. exact Fa. intros v [Lz Fv]. split. rewrite map_length. exact Lz.
  eapply Forall_map_impl. exact Fv. intros p [Ly Fp]. split. rewrite map_length. exact Ly.
  eapply Forall_map_impl. exact Fp. intros r Hr. unfold rect1 in *.
  rewrite halve_length, Hr. reflexivity.
Qed.

Lemma avg_gen_rect : forall fx fy fz nc nz ny nx a,
  (fx = 1 \/ fx = 2) -> (fy = 1 \/ fy = 2) -> (fz = 1 \/ fz = 2) ->
  rect4 nc nz ny nx a ->
  rect4 nc (cdiv nz fz) (cdiv ny fy) (cdiv nx fx) (avg_gen f o fx fy fz a).
Proof.
  intros fx fy fz nc nz ny nx a Hx Hy Hz Hr. unfold avg_gen.
  assert (R1 : rect4 nc (cdiv nz fz) ny nx (if fz =? 2 then halve_z f o a else a)).
  { destruct Hz as [-> | ->]; cbn [Nat.eqb]. rewrite cdiv_1. exact Hr. apply halve_z_rect. exact Hr. }
  assert (R2 : rect4 nc (cdiv nz fz) (cdiv ny fy) nx
                 (if fy =? 2 then halve_y f o (if fz =? 2 then halve_z f o a else a)
                  else (if fz =? 2 then halve_z f o a else a))).
  { destruct Hy as [-> | ->]; cbn [Nat.eqb]. rewrite cdiv_1. exact R1. apply halve_y_rect. exact R1. }
  destruct Hx as [-> | ->]; cbn [Nat.eqb]. rewrite cdiv_1. exact R2. apply halve_x_rect. exact R2.
Qed.

End ShapeStage.

Lemma map4_rect : forall A B (h : A -> B) nc nz ny nx a, rect4 nc nz ny nx a -> rect4 nc nz ny nx (map4 h a).
Proof.
  intros A B h nc nz ny nx a [Lc Fa]. unfold map4. split. rewrite map_length. exact Lc.
  eapply Forall_map_impl. exact Fa. intros v [Lz Fv]. split. rewrite map_length. exact Lz.
  eapply Forall_map_impl. exact Fv. intros p [Ly Fp]. split. rewrite map_length. exact Ly.
  eapply Forall_map_impl. exact Fp. intros r Hr. unfold rect1 in *. rewrite map_length. exact Hr.
Qed.

Lemma check_factors_avg_fac : forall fs, check_factors_avg fs = true ->
  (fac fs 0 = 1 \/ fac fs 0 = 2) /\ (fac fs 1 = 1 \/ fac fs 1 = 2) /\ (fac fs 2 = 1 \/ fac fs 2 = 2).
Proof.
  intros fs H. unfold check_factors_avg in H. apply andb_prop in H. destruct H as [Hl Hf].
  apply Nat.eqb_eq in Hl. destruct fs as [|a [|b [|c [|? ?]]]]; try discriminate Hl.
  cbn in Hf. unfold fac; cbn [nth].
  repeat (apply andb_prop in Hf; destruct Hf as [? Hf]).
  repeat match goal with H : (_ || _) = true |- _ => apply orb_prop in H end.
  repeat match goal with H : (_ =? _)%Z = true \/ (_ =? _)%Z = true |- _ =>
    destruct H as [H|H]; apply Z.eqb_eq in H; subst end; cbn; auto.
Qed.

(* C07 (2): averaging, every dtype, every outside value: supported factors give
   shape ceil(size/factor); unsupported ones NotImplementedError. *)
Theorem avg_shape : forall dt o fs nc nz ny nx (a : arr4 num),
  check_factors_avg fs = true -> rect4 nc nz ny nx a ->
  exists out, avg_model dt o fs a = Ok out /\
    rect4 nc (cdiv nz (fac fs 2)) (cdiv ny (fac fs 1)) (cdiv nx (fac fs 0)) out.
Proof.
  intros dt o fs nc nz ny nx a Hf Hr. unfold avg_model. rewrite Hf. cbn [negb].
  assert (Hc : dtype_eqb (promote dt F64) F64 && can_cast_safe dt F64 = true) by (destruct dt; reflexivity).
  rewrite Hc. cbn [negb]. eexists. split. reflexivity.
  destruct (check_factors_avg_fac fs Hf) as (Hx & Hy & Hz).
  apply map4_rect. unfold avg_f64. apply avg_gen_rect; try assumption. apply map4_rect. exact Hr.
Qed.

Theorem avg_rejects : forall dt o fs a,
  check_factors_avg fs = false -> avg_model dt o fs a = Crash NotImplementedError.
Proof. intros. unfold avg_model. rewrite H. reflexivity. Qed.
