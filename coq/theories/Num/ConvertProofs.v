(* Proofs about the dtype transformer model (Convert.v): the integer-only
   part.  The floating-point part is in ConvertFloatProofs.v. *)
From Coq Require Import ZArith QArith Qabs Bool List Lia.
From Coq Require Import SpecFloat.
From NGS Require Import DType FloatModel Convert.
Import ListNotations.
Close Scope Q_scope.
Open Scope Z_scope.

Ltac Zify.zify_post_hook ::= Z.to_euclidean_division_equations.

(* evaluate the closed powers of two that appear once the dtype is known *)
Ltac eval_pows :=
  repeat match goal with
  | |- context [2 ^ ?k] =>
      let v := eval vm_compute in (2 ^ k) in change (2 ^ k) with v
  | H : context [2 ^ ?k] |- _ =>
      let v := eval vm_compute in (2 ^ k) in change (2 ^ k) with v in H
  end.

Ltac dt_unfold :=
  unfold in_range, clamp, wrap, imin, imax in *;
  cbn [is_int is_signed ibits Z.sub Z.add Z.pos_sub Pos.pred_double Z.opp Pos.succ Z.succ_double Z.pred_double Z.double] in *;
  eval_pows.

Lemma wrap_id : forall d z, is_int d = true -> in_range d z -> wrap d z = z.
Proof.
  intros d z Hi Hr.
  destruct d; try discriminate Hi; dt_unfold;
    repeat match goal with |- context [if ?c then _ else _] => destruct c eqn:? end; lia.
Qed.

Lemma clamp_in_range : forall d z, is_int d = true -> in_range d (clamp d z).
Proof.
  intros d z Hi. destruct d; try discriminate Hi; dt_unfold; lia.
Qed.

Lemma clamp_id : forall d z, in_range d z -> clamp d z = z.
Proof. intros d z H. unfold clamp, in_range in *. lia. Qed.

(* a value of type i fits the work type promote i o whenever that is an
   integer type, and fits o when the cast is "safe" *)
Lemma in_range_promote : forall i o z,
  is_int i = true -> is_int (promote i o) = true -> in_range i z -> in_range (promote i o) z.
Proof.
  intros i o z Hi Hw Hr.
  destruct i; try discriminate Hi; destruct o; try discriminate Hw;
    cbn [promote]; dt_unfold; lia.
Qed.

Lemma in_range_promote_r : forall i o z,
  is_int o = true -> is_int (promote i o) = true -> in_range o z -> in_range (promote i o) z.
Proof.
  intros i o z Hi Hw Hr.
  destruct o; try discriminate Hi; destruct i; try discriminate Hw;
    cbn [promote]; dt_unfold; lia.
Qed.

Lemma in_range_safe : forall i o z,
  is_int i = true -> is_int o = true -> can_cast_safe i o = true -> in_range i z -> in_range o z.
Proof.
  intros i o z Hi Ho Hc Hr.
  destruct i; try discriminate Hi; destruct o; try discriminate Ho; try discriminate Hc;
    dt_unfold; lia.
Qed.

(* the work type of an integer pair is an integer type that holds the input *)
Lemma work_dtype_int : forall i o, is_int i = true -> is_int o = true -> is_int (work_dtype i o) = true.
Proof. intros i o Hi Ho. destruct i; try discriminate Hi; destruct o; try discriminate Ho; reflexivity. Qed.

Lemma in_range_work : forall i o z,
  is_int i = true -> is_int o = true -> in_range i z -> in_range (work_dtype i o) z.
Proof.
  intros i o z Hi Ho Hr. unfold work_dtype. destruct (int_via_float i o) eqn:E. exact Hr.
  apply in_range_promote; try assumption.
  unfold int_via_float in E. rewrite Hi, Ho in E. cbn [andb] in E. apply negb_false_iff in E. exact E.
Qed.

Lemma imin_le_imax : forall d, imin d <= imax d.
Proof. intros d. destruct d; vm_compute; intro H; discriminate H. Qed.

(* clipping with the bounds the transformer passes to np.clip is saturation
   into the output range, on every value of the input type *)
Lemma clip_bounds_clamp : forall i o v, in_range i v ->
  Z.min (Z.max v (clip_lo i o)) (clip_hi i o) = clamp o v.
Proof.
  intros i o v Hr. unfold clip_lo, clip_hi.
  destruct (int_via_float i o) eqn:E.
  - destruct i; try discriminate E; destruct o; try discriminate E; dt_unfold; lia.
  - pose proof (imin_le_imax o). unfold clamp. lia.
Qed.

Lemma saturate_top_int : forall i o, is_int i = true -> is_int o = true -> saturate_top i o = false.
Proof.
  intros i o Hi Ho. unfold saturate_top. rewrite (work_dtype_int i o Hi Ho).
  cbn [negb]. rewrite andb_false_r. reflexivity.
Qed.

(* C11 (1): integer to integer is exact saturation, for ALL integer pairs
   (signed -> uint64 included: it no longer goes through float64) and ALL
   values of the input type. *)
Theorem int_to_int_exact : forall i o v,
  is_int i = true -> is_int o = true -> in_range i v ->
  convert_scalar i o (NI v) = NI (clamp o v).
Proof.
  intros i o v Hi Ho Hr.
  unfold convert_scalar, work_value, round_flag, clip_flag.
  rewrite (saturate_top_int i o Hi Ho). rewrite Hi, Ho. cbn [negb andb orb].
  destruct (can_cast_safe i o) eqn:Hc; cbn [negb].
  - (* safe: plain astype *)
    cbn [cast]. rewrite Ho. f_equal.
    pose proof (in_range_safe i o v Hi Ho Hc Hr) as Hro.
    rewrite wrap_id by assumption. symmetry. apply clamp_id. exact Hro.
  - cbn [cast]. rewrite (work_dtype_int i o Hi Ho). cbn [clip_num cast]. rewrite Ho. f_equal.
    rewrite (wrap_id (work_dtype i o) v (work_dtype_int i o Hi Ho) (in_range_work i o v Hi Ho Hr)).
    rewrite (clip_bounds_clamp i o v Hr).
    apply wrap_id. exact Ho. apply clamp_in_range. exact Ho.
Qed.

(* the result is in range of the output type: never wraps *)
Corollary int_to_int_in_range : forall i o v,
  is_int i = true -> is_int o = true ->
  in_range i v -> exists r, convert_scalar i o (NI v) = NI r /\ in_range o r.
Proof.
  intros. eexists. split. apply int_to_int_exact; assumption. apply clamp_in_range; assumption.
Qed.

(* the work type of an integer pair: NumPy's promotion, except for
   signed -> uint64 (and uint64 -> signed), where it is the input type *)
Lemma int_work_pairs : forall i o,
  is_int i = true -> is_int o = true ->
  work_dtype i o =
    if is_signed i && dtype_eqb o U64 || dtype_eqb i U64 && is_signed o then i else promote i o.
Proof. intros i o Hi Ho. destruct i; try discriminate Hi; destruct o; try discriminate Ho; reflexivity. Qed.

(* C11 (4): buffer modes *)
Theorem preserve_input_kept : forall i o wr nat_ l,
  snd (convert i o true wr nat_ l) = l.
Proof. intros. unfold convert, aliased. reflexivity. Qed.

Theorem result_mode_independent : forall i o p1 w1 n1 p2 w2 n2 l,
  fst (convert i o p1 w1 n1 l) = fst (convert i o p2 w2 n2 l).
Proof. intros. reflexivity. Qed.

(* the caller's buffer changes only under the stated conditions, and then it
   holds the rounded / clipped work values *)
Theorem input_after_char : forall i o p wr nat_ l,
  snd (convert i o p wr nat_ l) =
    if negb p && (round_flag i o || clip_flag i o) && dtype_eqb (work_dtype i o) i && wr && nat_
    then map (work_value i o) l else l.
Proof. intros. reflexivity. Qed.

(* ---- the remaining departure from the specification: exact witness -------- *)

(* float64 -> float32 overflows to infinity *)
(* 1e39 as float64 *)
Definition w_1e39 : num := NF (of_bits b64 5183643171103440896).

Lemma float32_overflow_refuted :
  exists i o v, float32_overflow_guard i o v = false /\ num_finite v = true /\
    convert_scalar i o v <> nearest_sat o (num2Q v) /\
    convert_scalar i o v = NF (S754_infinity false) /\
    num_encode F32 (nearest_sat o (num2Q v)) = 2139095039.   (* 0x7f7fffff = FLT_MAX *)
Proof.
  exists F64, F32, w_1e39. repeat split; try (vm_compute; reflexivity).
  vm_compute. discriminate.
Qed.

(* the two repaired regions, on their former witnesses *)
Lemma repaired_examples :
  convert_scalar F64 U64 (NF (of_bits b64 4895412794951729152)) = NI (2 ^ 64 - 1) /\   (* 2.0**64 *)
  convert_scalar F32 U64 (NF (of_bits b32 1602224128)) = NI (2 ^ 64 - 1) /\           (* float32 2**64 *)
  convert_scalar I64 U64 (NI (2 ^ 53 + 1)) = NI (2 ^ 53 + 1) /\
  convert_scalar I64 U64 (NI (2 ^ 63 - 1)) = NI (2 ^ 63 - 1) /\
  convert_scalar I8 U64 (NI (-5)) = NI 0.
Proof. repeat split; vm_compute; reflexivity. Qed.

(* aliasing really happens: the in-place mode overwrites the caller's buffer;
   since the integer path for signed -> uint64, also for those pairs *)
Lemma input_overwritten_example :
  snd (convert F64 U8 false true true [NF (of_bits b64 4643211215818981376)])  (* 256.0 *)
  = [NF (of_bits b64 4643176031446892544)]                                      (* 255.0 *)
  /\ snd (convert I8 U64 false true true [NI (-5); NI 7]) = [NI 0; NI 7].
Proof. split; vm_compute; reflexivity. Qed.

(* non-vacuity of int_to_int_exact *)
Example int_to_int_example :
  is_int I16 = true /\ is_int U8 = true /\ in_range I16 (-300) /\
  convert_scalar I16 U8 (NI (-300)) = NI 0 /\ convert_scalar I64 U32 (NI (2 ^ 40)) = NI (2 ^ 32 - 1).
Proof. repeat split; try (vm_compute; reflexivity); vm_compute; discriminate. Qed.

(* ---- non-finite and signed-zero values with a floating-point output ------------ *)

(* zeros (either sign), infinities and NaN: everything but a finite non-zero value *)
Definition special_float (x : spec_float) : bool :=
  match x with S754_finite _ _ _ => false | _ => true end.

(* With a floating-point output type there is no rounding and no clipping stage,
   and the cast keeps zeros, infinities and NaN as they are: +inf -> +inf,
   -inf -> -inf, NaN -> NaN, -0.0 -> -0.0, +0.0 -> +0.0 (float32 -> float32,
   float64 -> float32, and the float64 outputs the model also covers); the
   caller's buffer is never written. *)
Theorem float_output_preserves_nonfinite : forall i o x,
  is_int i = false -> is_int o = false -> special_float x = true ->
  round_flag i o = false /\ clip_flag i o = false /\ saturate_top i o = false /\
  convert_scalar i o (NF x) = NF x /\
  forall p wr nat_ l, snd (convert i o p wr nat_ l) = l.
Proof.
  intros i o x Hi Ho Hx.
  destruct i; try discriminate Hi; destruct o; try discriminate Ho;
    (repeat split; try reflexivity;
     [ destruct x; try discriminate Hx; reflexivity
     | intros p wr nat_ l; unfold convert, aliased; destruct p; reflexivity ]).
Qed.

Example float_output_nonfinite_example :
  convert_scalar F64 F32 (NF (S754_infinity false)) = NF (S754_infinity false) /\
  convert_scalar F64 F32 (NF (S754_infinity true)) = NF (S754_infinity true) /\
  convert_scalar F32 F32 (NF S754_nan) = NF S754_nan /\
  convert_scalar F64 F32 (NF (S754_zero true)) = NF (S754_zero true) /\
  num_encode F32 (convert_scalar F64 F32 (num_decode F64 9218868437227405312)) = 2139095040 /\
  num_encode F32 (convert_scalar F64 F32 (num_decode F64 9223372036854775808)) = 2147483648.
Proof. repeat split; vm_compute; reflexivity. Qed.
