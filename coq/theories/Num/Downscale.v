(* Models of downscaling.StridingDownscaler / MajorityDownscaler /
   AveragingDownscaler, and the specification they are judged by (exact block
   statistics over Z and Q).

   A chunk is a 4-D array indexed (C, Z, Y, X), here a nested list
   [arr4 A = list (list (list (list A)))] (channel, then plane z, then row y,
   then voxel x); [unflatten]/[flatten] convert from/to the C-order flat list
   the harness exchanges.  Factors arrive as Python passes them: a sequence
   (Dx, Dy, Dz). *)
From Coq Require Import ZArith QArith Bool List Arith.
From Coq Require Import SpecFloat.
From NGS Require Import Val DType FloatModel Convert.
Import ListNotations.
Close Scope Q_scope.

Definition arr4 (A : Type) : Type := list (list (list (list A))).

Definition map4 {A B} (f : A -> B) (a : arr4 A) : arr4 B :=
  map (map (map (map f))) a.

Definition get4 {A} (d : A) (a : arr4 A) (c z y x : nat) : A :=
  nth x (nth y (nth z (nth c a []) []) []) d.

(* a has shape (C, Z, Y, X) *)
Definition rect1 {A} (n : nat) (l : list A) : Prop := length l = n.
Definition rect2 {A} (n m : nat) (l : list (list A)) : Prop :=
  length l = n /\ Forall (rect1 m) l.
Definition rect3 {A} (n m k : nat) (l : list (list (list A))) : Prop :=
  length l = n /\ Forall (rect2 m k) l.
Definition rect4 {A} (nc nz ny nx : nat) (a : arr4 A) : Prop :=
  length a = nc /\ Forall (rect3 nz ny nx) a.

(* ---- flat <-> nested ---------------------------------------------------- *)

Fixpoint chunks {A} (k n : nat) (l : list A) : list (list A) :=
  match k with
  | O => []
  | S k' => firstn n l :: chunks k' n (skipn n l)
  end.

Definition unflatten {A} (nc nz ny nx : nat) (l : list A) : arr4 A :=
  map (fun vol => map (fun plane => chunks ny nx plane) (chunks nz (ny * nx) vol))
      (chunks nc (nz * ny * nx) l).

Definition flatten {A} (a : arr4 A) : list A :=
  concat (map (fun vol => concat (map (@concat A) vol)) a).

(* ceil_div of utils.py on non-negative sizes *)
Definition cdiv (a b : nat) : nat := (a + b - 1) / b.

(* ---- factor checks ------------------------------------------------------ *)

Open Scope Z_scope.

(* Downscaler.check_factors: three integers, all >= 1 *)
Definition check_factors_base (fs : list Z) : bool :=
  (length fs =? 3)%nat && forallb (fun f => 1 <=? f) fs.
(* AveragingDownscaler.check_factors: three values, each 1 or 2 *)
Definition check_factors_avg (fs : list Z) : bool :=
  (length fs =? 3)%nat && forallb (fun f => (f =? 1) || (f =? 2)) fs.

Definition fac (fs : list Z) (i : nat) : nat := Z.to_nat (nth i fs 1).

Close Scope Z_scope.

(* ---- striding: chunk[:, ::Dz, ::Dy, ::Dx] ------------------------------- *)

(* l[::k] for k >= 1: i counts the elements still to skip *)
Fixpoint every_aux {A} (k i : nat) (l : list A) : list A :=
  match l with
  | [] => []
  | a :: r =>
      match i with
      | O => a :: every_aux k (k - 1) r
      | S j => every_aux k j r
      end
  end.
Definition every {A} (k : nat) (l : list A) : list A := every_aux k 0 l.

Definition stride_arr {A} (fx fy fz : nat) (a : arr4 A) : arr4 A :=
  map (fun vol => every fz (map (fun plane => every fy (map (every fx) plane)) vol)) a.

Definition stride_model {A} (fs : list Z) (a : arr4 A) : outcome (arr4 A) :=
  if check_factors_base fs
  then Ok (stride_arr (fac fs 0) (fac fs 1) (fac fs 2) a)
  else Crash NotImplementedError.

(* ---- majority ----------------------------------------------------------- *)

(* np.unique(block, return_counts=True): sorted distinct labels with counts *)
Fixpoint insert_count (v : Z) (l : list (Z * nat)) : list (Z * nat) :=
  match l with
  | [] => [(v, 1)]
  | (w, c) :: r =>
      if (v <? w)%Z then (v, 1) :: l
      else if (v =? w)%Z then (w, S c) :: r
      else (w, c) :: insert_count v r
  end.
Definition unique_counts (b : list Z) : list (Z * nat) :=
  fold_right insert_count [] b.

(* np.argmax: index of the FIRST maximum *)
Fixpoint first_max (best : Z * nat) (l : list (Z * nat)) : Z * nat :=
  match l with
  | [] => best
  | p :: r => if snd best <? snd p then first_max p r else first_max best r
  end.

(* labels[np.argmax(counts)]; np.argmax of an empty sequence raises ValueError *)
Definition majority_block (b : list Z) : outcome Z :=
  match unique_counts b with
  | [] => Crash ValueError
  | h :: t => Ok (fst (first_max h t))
  end.

(* l[i*f : i*f + f] with Python's clamping of slice bounds *)
Definition blk {A} (f i : nat) (l : list A) : list A := firstn f (skipn (i * f) l).

(* chunk[t, zd:zd+Dz, yd:yd+Dy, xd:xd+Dx].flat *)
Definition block_at {A} (fx fy fz : nat) (vol : list (list (list A))) (z y x : nat) : list A :=
  concat (map (fun plane => concat (map (fun row => blk fx x row) (blk fy y plane)))
              (blk fz z vol)).

Fixpoint sequence {A} (l : list (outcome A)) : outcome (list A) :=
  match l with
  | [] => Ok []
  | o :: r => bind o (fun a => bind (sequence r) (fun r' => Ok (a :: r')))
  end.

Definition majority_arr (fx fy fz : nat) (nz ny nx : nat) (a : arr4 Z) : outcome (arr4 Z) :=
  sequence (map (fun vol =>
    sequence (map (fun z =>
      sequence (map (fun y =>
        sequence (map (fun x => majority_block (block_at fx fy fz vol z y x))
                      (seq 0 (cdiv nx fx))))
        (seq 0 (cdiv ny fy))))
      (seq 0 (cdiv nz fz)))) a).

(* chunk.shape is (length a, nz, ny, nx) *)
Definition majority_model (fs : list Z) (nz ny nx : nat) (a : arr4 Z) : outcome (arr4 Z) :=
  if check_factors_base fs
  then majority_arr (fac fs 0) (fac fs 1) (fac fs 2) nz ny nx a
  else Crash NotImplementedError.

(* ---- averaging ---------------------------------------------------------- *)

(* chunk.astype(float64, casting="safe") on one element *)
Definition to_f64 (v : num) : spec_float :=
  match v with NI z => of_Z b64 z | NF x => fconv b64 x end.

(* half * (a + b) in float64 *)
Definition favg (x y : spec_float) : spec_float := fmul b64 (fhalf b64) (fadd b64 x y).

Definition map2 {A B C} (f : A -> B -> C) (l1 : list A) (l2 : list B) : list C :=
  map (fun p => f (fst p) (snd p)) (combine l1 l2).

(* f(l[0], l[1]), f(l[2], l[3]), ...   (l[::2] combined with l[1::2]) *)
Fixpoint pair_up {A} (f : A -> A -> A) (l : list A) : list A :=
  match l with
  | a :: (b :: r) => f a b :: pair_up f r
  | _ => []
  end.

Fixpoint last_opt {A} (l : list A) : option A :=
  match l with
  | [] => None
  | [a] => Some a
  | _ :: r => last_opt r
  end.

(* np.pad(..., (0, 1), mode) along one axis when its length is odd: mk builds
   the appended slice from the last one (edge: the same; constant: same shape
   filled with the constant) *)
Definition pad_odd {A} (mk : A -> A) (l : list A) : list A :=
  if Nat.odd (length l)
  then match last_opt l with Some x => l ++ [mk x] | None => l end
  else l.

Definition halve {A} (mk : A -> A) (f : A -> A -> A) (l : list A) : list A :=
  pair_up f (pad_odd mk l).

(* The per-axis stage, generic in the element type and the averaging function
   (the model instantiates it with float64 [favg]; the proofs also with exact
   arithmetic). *)
Section AvgGen.
Context {A : Type} (f : A -> A -> A).

Definition fill0 (o : option A) (x : A) : A :=
  match o with None => x | Some c => c end.
Definition fill1 (o : option A) := map (fill0 o).
Definition fill2 (o : option A) := map (fill1 o).

Definition halve_z (o : option A) (a : arr4 A) : arr4 A :=
  map (halve (fill2 o) (map2 (map2 f))) a.
Definition halve_y (o : option A) (a : arr4 A) : arr4 A :=
  map (map (halve (fill1 o) (map2 f))) a.
Definition halve_x (o : option A) (a : arr4 A) : arr4 A :=
  map (map (map (halve (fill0 o) f))) a.

(* z, then y, then x *)
Definition avg_gen (o : option A) (fx fy fz : nat) (a : arr4 A) : arr4 A :=
  let a1 := if (fz =? 2)%nat then halve_z o a else a in
  let a2 := if (fy =? 2)%nat then halve_y o a1 else a1 in
  if (fx =? 2)%nat then halve_x o a2 else a2.
End AvgGen.

(* the float64 stage *)
Definition avg_f64 (o : option spec_float) (fx fy fz : nat) (a : arr4 spec_float)
  : arr4 spec_float := avg_gen favg o fx fy fz a.

(* AveragingDownscaler(outside).downscale(chunk of dtype dt, fs).  The work
   type promote_types(dt, float64) is float64 for all ten types (DType table);
   astype(..., casting="safe") to it is always allowed. *)
Definition avg_model (dt : dtype) (o : option spec_float) (fs : list Z) (a : arr4 num)
  : outcome (arr4 num) :=
  if negb (check_factors_avg fs) then Crash NotImplementedError
  else if negb (dtype_eqb (promote dt F64) F64 && can_cast_safe dt F64) then Crash TypeError
  else
    let w := avg_f64 o (fac fs 0) (fac fs 1) (fac fs 2) (map4 to_f64 a) in
    Ok (map4 (fun x => convert_scalar F64 dt (NF x)) w).

(* ---- specification ------------------------------------------------------ *)

(* stride: the first voxel of each block *)
Definition stride_spec_at {A} (d : A) (fx fy fz : nat) (a : arr4 A) (c z y x : nat) : A :=
  get4 d a c (z * fz) (y * fy) (x * fx).

(* number of occurrences *)
Definition occ (v : Z) (b : list Z) : nat := count_occ Z.eq_dec b v.

(* v is the most frequent label of b, the smallest one on ties *)
Definition is_majority (b : list Z) (v : Z) : Prop :=
  In v b /\ forall w, In w b -> (occ w b < occ v b)%nat \/ (occ w b = occ v b /\ (v <= w)%Z).

(* executable restatement used as oracle: scan the block keeping the better
   candidate under (more occurrences, then smaller label) *)
Definition better (b : list Z) (w v : Z) : bool :=
  (occ v b <? occ w b)%nat || ((occ w b =? occ v b)%nat && (w <? v)%Z).
Definition majority_ref (b : list Z) : option Z :=
  match b with
  | [] => None
  | h :: t => Some (fold_left (fun best w => if better b w best then w else best) t h)
  end.

(* blocks of the input that an output voxel covers, with Python's clamping *)
Definition majority_block_at (fx fy fz : nat) (a : arr4 Z) (c z y x : nat) : list Z :=
  block_at fx fy fz (nth c a []) z y x.

(* averaging: exact mean over the block completed to full size.  Positions
   beyond the border read the edge voxel (outside = None) or the outside value. *)
Definition qsum (l : list Q) : Q := fold_right Qplus 0%Q l.
Definition qmean (l : list Q) : Q := (qsum l / inject_Z (Z.of_nat (length l)))%Q.

Definition pad_index (n i : nat) : nat := if (i <? n)%nat then i else n - 1.

Definition padded_get (o : option Q) (nz ny nx : nat) (a : arr4 Q) (c z y x : nat) : Q :=
  match o with
  | Some q => if ((z <? nz) && (y <? ny) && (x <? nx))%nat then get4 0%Q a c z y x else q
  | None => get4 0%Q a c (pad_index nz z) (pad_index ny y) (pad_index nx x)
  end.

Definition block_values (o : option Q) (fx fy fz : nat) (nz ny nx : nat) (a : arr4 Q)
           (c z y x : nat) : list Q :=
  flat_map (fun dz => flat_map (fun dy => map (fun dx =>
      padded_get o nz ny nx a c (z * fz + dz) (y * fy + dy) (x * fx + dx))
    (seq 0 fx)) (seq 0 fy)) (seq 0 fz).

(* exact mean of the padded block *)
Definition block_mean (o : option Q) (fx fy fz : nat) (nz ny nx : nat) (a : arr4 Q)
           (c z y x : nat) : Q :=
  qmean (block_values o fx fy fz nz ny nx a c z y x).

(* "mean rounded half to even" for integer types, nearest float32 for float32 *)
Definition mean_rhe (dt : dtype) (l : list Q) : num := nearest_sat dt (qmean l).

Definition tab {A} (n : nat) (f : nat -> A) : list A := map f (seq 0 n).

Definition avg_spec (dt : dtype) (o : option Q) (fx fy fz : nat) (nc nz ny nx : nat) (a : arr4 Q)
  : arr4 num :=
  tab nc (fun c => tab (cdiv nz fz) (fun z => tab (cdiv ny fy) (fun y => tab (cdiv nx fx) (fun x =>
    nearest_sat dt (block_mean o fx fy fz nz ny nx a c z y x))))).

Definition stride_spec {A} (d : A) (fx fy fz : nat) (nc nz ny nx : nat) (a : arr4 A) : arr4 A :=
  tab nc (fun c => tab (cdiv nz fz) (fun z => tab (cdiv ny fy) (fun y => tab (cdiv nx fx) (fun x =>
    stride_spec_at d fx fy fz a c z y x)))).

Definition majority_spec (fx fy fz : nat) (nc nz ny nx : nat) (a : arr4 Z) : arr4 (option Z) :=
  tab nc (fun c => tab (cdiv nz fz) (fun z => tab (cdiv ny fy) (fun y => tab (cdiv nx fx) (fun x =>
    majority_ref (majority_block_at fx fy fz a c z y x))))).

(* guard of the uint64 averaging findings: some voxel at or above 2^49 (below,
   every partial sum of eight voxels in units of 1/8 fits 53 bits) *)
Definition avg_uint64_guard (dt : dtype) (V : arr4 Z) : bool :=
  negb (dtype_eqb dt U64 && existsb (fun v => (2 ^ 49 <=? v)%Z) (flatten V)).

