(* The separable pairwise averaging (per axis z, y, x with one-voxel padding)
   computes the mean over the padded block: index-level characterisation of the
   stages of Downscale.avg_gen, then the block-sum identity on the exact grid.
   Together with AverageProofs.avg_exact_units this gives C07 avg_exact. *)
From Coq Require Import ZArith QArith Bool List Arith Lia.
From Coq Require Import SpecFloat.
From NGS Require Import Val DType FloatModel Convert ConvertProofs ConvertFloatProofs Downscale DownscaleProofs AverageProofs.
Import ListNotations.
Close Scope Q_scope.

(* ---- one-dimensional facts ---------------------------------------------------- *)

Lemma pair_up_nth : forall A (f : A -> A -> A) l j d,
  2 * j + 1 < length l -> nth j (pair_up f l) d = f (nth (2 * j) l d) (nth (2 * j + 1) l d).
Proof.
  intros A f l. induction l as [| a | a b r IH] using pair_induction; intros j d Hj.
  - cbn in Hj. lia.
  - cbn in Hj. lia.
  - cbn [pair_up]. destruct j as [|j'].
    + reflexivity.
    + cbn [nth]. rewrite IH by (cbn [length] in Hj; lia).
      replace (2 * S j') with (S (S (2 * j'))) by lia.
      replace (S (S (2 * j')) + 1) with (S (S (2 * j' + 1))) by lia. reflexivity.
Qed.

Lemma last_opt_nth : forall A (l : list A) x d, last_opt l = Some x -> x = nth (length l - 1) l d.
Proof.
  intros A l x d. induction l as [|a r IH]; intros H. discriminate.
  destruct r as [|b r']. inversion H. reflexivity.
  cbn [length]. replace (S (S (length r')) - 1) with (S (length (b :: r') - 1)) by (cbn; lia).
  cbn [nth]. apply IH. exact H.
Qed.

Lemma pad_odd_length : forall A (mk : A -> A) l, length (pad_odd mk l) = 2 * cdiv (length l) 2.
Proof.
  intros A mk l. unfold pad_odd, cdiv.
  pose proof (Nat.div_mod (length l + 2 - 1) 2 ltac:(lia)) as E.
  pose proof (Nat.mod_upper_bound (length l + 2 - 1) 2 ltac:(lia)) as U.
  destruct (Nat.odd (length l)) eqn:Eo.
  - destruct (last_opt_nonempty _ l) as [x Ex]. { intros ->. discriminate Eo. }
    rewrite Ex. rewrite app_length. cbn [length].
    apply Nat.odd_spec in Eo. destruct Eo as [q Hq]. lia.
  - assert (He : Nat.even (length l) = true) by (rewrite <- Nat.negb_odd, Eo; reflexivity).
    apply Nat.even_spec in He. destruct He as [q Hq]. lia.
Qed.

(* read with one-element padding *)
Definition rd {A} (mk : A -> A) (l : list A) (d : A) (i : nat) : A :=
  if i <? length l then nth i l d else mk (nth (length l - 1) l d).

Lemma pad_odd_nth : forall A (mk : A -> A) l i d,
  i < length (pad_odd mk l) -> nth i (pad_odd mk l) d = rd mk l d i.
Proof.
  intros A mk l i d Hi. unfold rd, pad_odd in *. destruct (Nat.odd (length l)) eqn:Eo.
  - destruct (last_opt_nonempty _ l) as [x Ex]. { intros ->. discriminate Eo. }
    rewrite Ex in *. rewrite app_length in Hi. cbn [length] in Hi.
    destruct (i <? length l) eqn:El.
    + apply Nat.ltb_lt in El. apply app_nth1. exact El.
    + apply Nat.ltb_ge in El. rewrite app_nth2 by lia.
      replace (i - length l) with 0 by lia. cbn [nth]. f_equal. apply last_opt_nth. exact Ex.
  - replace (i <? length l) with true by (symmetry; apply Nat.ltb_lt; exact Hi). reflexivity.
Qed.

Lemma halve_nth : forall A (mk : A -> A) (f : A -> A -> A) l j d,
  j < cdiv (length l) 2 ->
  nth j (halve mk f l) d = f (rd mk l d (2 * j)) (rd mk l d (2 * j + 1)).
Proof.
  intros A mk f l j d Hj. unfold halve.
  pose proof (pad_odd_length A mk l) as HL.
  rewrite pair_up_nth by lia. rewrite !pad_odd_nth by lia. reflexivity.
Qed.

Lemma map2_nth : forall A B C (f : A -> B -> C) l1 l2 i d d1 d2,
  i < length l1 -> i < length l2 -> nth i (map2 f l1 l2) d = f (nth i l1 d1) (nth i l2 d2).
Proof.
  intros A B C f l1. induction l1 as [|a r IH]; intros l2 i d d1 d2 H1 H2.
  - cbn in H1. lia.
  - destruct l2 as [|b r2]. cbn in H2. lia.
    destruct i as [|i']. reflexivity.
    unfold map2 in *. cbn [combine map nth]. apply IH; cbn [length] in *; lia.
Qed.

(* ---- one channel: volumes ----------------------------------------------------- *)

Section Volume.
Context {A : Type} (f : A -> A -> A) (o : option A) (d : A).

Definition get3 (vol : list (list (list A))) (z y x : nat) : A :=
  nth x (nth y (nth z vol []) []) d.

Definition hz (vol : list (list (list A))) := halve (fill2 o) (map2 (map2 f)) vol.
Definition hy (vol : list (list (list A))) := map (halve (fill1 o) (map2 f)) vol.
Definition hx (vol : list (list (list A))) := map (map (halve (fill0 o) f)) vol.

Lemma rect3_plane : forall nz ny nx (vol : list (list (list A))) z, rect3 nz ny nx vol -> z < nz -> rect2 ny nx (nth z vol []).
Proof. intros nz ny nx vol z [Lz F] Hz. apply Forall_nth_def. exact F. lia. Qed.

Lemma rect2_row : forall ny nx (p : list (list A)) y, rect2 ny nx p -> y < ny -> length (nth y p []) = nx.
Proof. intros ny nx p y [Ly F] Hy. apply (Forall_nth_def _ (rect1 nx)). exact F. lia. Qed.

Lemma fill2_get : forall ny nx (p : list (list A)) y x, rect2 ny nx p -> y < ny -> x < nx ->
  nth x (nth y (fill2 o p) []) d = fill0 o (nth x (nth y p []) d).
Proof.
  intros ny nx p y x Hr Hy Hx. unfold fill2, fill1.
  change (@nil A) with (map (fill0 o) (@nil A)) at 1. rewrite map_nth.
  rewrite (nth_indep _ d (fill0 o d)) by (rewrite map_length, (rect2_row ny nx p y Hr Hy); exact Hx).
  apply map_nth.
Qed.

Lemma hz_get : forall nz ny nx vol z y x, rect3 nz ny nx vol ->
  z < cdiv nz 2 -> y < ny -> x < nx ->
  get3 (hz vol) z y x =
    f (if 2 * z <? nz then get3 vol (2 * z) y x else fill0 o (get3 vol (nz - 1) y x))
      (if 2 * z + 1 <? nz then get3 vol (2 * z + 1) y x else fill0 o (get3 vol (nz - 1) y x)).
Proof.
  intros nz ny nx vol z y x Hr Hz Hy Hx. unfold get3, hz.
  pose proof Hr as [Lz F].
  assert (Hnz : 1 <= nz) by (unfold cdiv in Hz; destruct nz; [cbn in Hz; lia | lia]).
  rewrite (halve_nth _ _ _ vol z []) by (rewrite Lz; exact Hz).
  assert (Hrd : forall i, i <= nz -> rect2 ny nx (rd (fill2 o) vol [] i) /\
            nth x (nth y (rd (fill2 o) vol [] i) []) d
            = if i <? nz then nth x (nth y (nth i vol []) []) d
              else fill0 o (nth x (nth y (nth (nz - 1) vol []) []) d)).
  { intros i Hi. unfold rd. rewrite Lz. destruct (i <? nz) eqn:E.
    - apply Nat.ltb_lt in E. split. apply (rect3_plane nz ny nx); assumption. reflexivity.
    - assert (R2 : rect2 ny nx (nth (nz - 1) vol [])) by (apply (rect3_plane nz ny nx); [assumption | lia]).
      split. apply rect2_fill2. exact R2. apply (fill2_get ny nx); assumption. }
  assert (H01 : 2 * z + 1 <= nz).
  { unfold cdiv in Hz.
    pose proof (Nat.div_mod (nz + 2 - 1) 2 ltac:(lia)). pose proof (Nat.mod_upper_bound (nz + 2 - 1) 2 ltac:(lia)). lia. }
  assert (H0 : 2 * z <= nz) by lia. assert (H1 : 2 * z + 1 <= nz) by lia.
  destruct (Hrd (2 * z) H0) as [[L0 F0] E0]. destruct (Hrd (2 * z + 1) H1) as [[L1 F1] E1].
  rewrite (map2_nth _ _ _ _ _ _ y [] [] []) by lia.
  rewrite (map2_nth _ _ _ _ _ _ x d d d).
  - rewrite E0, E1. reflexivity.
  - rewrite (Forall_nth_def _ (rect1 nx) _ y [] F0) by lia. exact Hx.
  - rewrite (Forall_nth_def _ (rect1 nx) _ y [] F1) by lia. exact Hx.
Qed.

Lemma hy_get : forall nz ny nx vol z y x, rect3 nz ny nx vol ->
  z < nz -> y < cdiv ny 2 -> x < nx ->
  get3 (hy vol) z y x =
    f (if 2 * y <? ny then get3 vol z (2 * y) x else fill0 o (get3 vol z (ny - 1) x))
      (if 2 * y + 1 <? ny then get3 vol z (2 * y + 1) x else fill0 o (get3 vol z (ny - 1) x)).
Proof.
  intros nz ny nx vol z y x Hr Hz Hy Hx. unfold get3, hy.
  pose proof Hr as [Lz F].
  set (H := halve (fill1 o) (map2 f)).
  assert (Em : nth z (map H vol) [] = H (nth z vol [])).
  { rewrite (nth_indep _ [] (H [])) by (rewrite map_length; lia). apply map_nth. }
  rewrite Em. unfold H.
  destruct (rect3_plane nz ny nx vol z Hr Hz) as [Ly Fp].
  assert (Hny : 1 <= ny) by (unfold cdiv in Hy; destruct ny; [cbn in Hy; lia | lia]).
  rewrite (halve_nth _ _ _ (nth z vol []) y []) by (rewrite Ly; exact Hy).
  assert (Hrd : forall i, i <= ny -> length (rd (fill1 o) (nth z vol []) [] i) = nx /\
            nth x (rd (fill1 o) (nth z vol []) [] i) d
            = if i <? ny then nth x (nth i (nth z vol []) []) d
              else fill0 o (nth x (nth (ny - 1) (nth z vol []) []) d)).
  { intros i Hi. unfold rd. rewrite Ly. destruct (i <? ny) eqn:E.
    - apply Nat.ltb_lt in E. split. apply (Forall_nth_def _ (rect1 nx)). exact Fp. lia. reflexivity.
    - assert (L : length (nth (ny - 1) (nth z vol []) []) = nx)
        by (apply (Forall_nth_def _ (rect1 nx)); [exact Fp | lia]).
      split. rewrite fill1_length. exact L.
      unfold fill1. rewrite (nth_indep _ d (fill0 o d)) by (rewrite map_length, L; exact Hx).
      apply map_nth. }
  assert (H01 : 2 * y + 1 <= ny).
  { unfold cdiv in Hy.
    pose proof (Nat.div_mod (ny + 2 - 1) 2 ltac:(lia)). pose proof (Nat.mod_upper_bound (ny + 2 - 1) 2 ltac:(lia)). lia. }
  assert (H0 : 2 * y <= ny) by lia. assert (H1 : 2 * y + 1 <= ny) by lia.
  destruct (Hrd (2 * y) H0) as [L0 E0]. destruct (Hrd (2 * y + 1) H1) as [L1 E1].
  rewrite (map2_nth _ _ _ _ _ _ x d d d) by lia.
  rewrite E0, E1. reflexivity.
Qed.

Lemma hx_get : forall nz ny nx vol z y x, rect3 nz ny nx vol ->
  z < nz -> y < ny -> x < cdiv nx 2 ->
  get3 (hx vol) z y x =
    f (if 2 * x <? nx then get3 vol z y (2 * x) else fill0 o (get3 vol z y (nx - 1)))
      (if 2 * x + 1 <? nx then get3 vol z y (2 * x + 1) else fill0 o (get3 vol z y (nx - 1))).
Proof.
  intros nz ny nx vol z y x Hr Hz Hy Hx. unfold get3, hx.
  pose proof Hr as [Lz F].
  set (H := halve (fill0 o) f).
  assert (Em : nth z (map (map H) vol) [] = map H (nth z vol [])).
  { rewrite (nth_indep _ [] (map H [])) by (rewrite map_length; lia). apply map_nth. }
  rewrite Em.
  destruct (rect3_plane nz ny nx vol z Hr Hz) as [Ly Fp].
  assert (Em2 : nth y (map H (nth z vol [])) [] = H (nth y (nth z vol []) [])).
  { rewrite (nth_indep _ [] (H [])) by (rewrite map_length; lia). apply map_nth. }
  rewrite Em2. unfold H.
  assert (Lx : length (nth y (nth z vol []) []) = nx)
    by (apply (Forall_nth_def _ (rect1 nx)); [exact Fp | lia]).
  rewrite (halve_nth _ _ _ _ x d) by (rewrite Lx; exact Hx).
  unfold rd. rewrite Lx. reflexivity.
Qed.

End Volume.

(* ---- composition of the three stages on the exact grid ---------------------- *)

Open Scope Z_scope.

Section Compose.
Variable oc : option Z.

Notation g3 := (get3 0).

(* fully padded read of a volume of shape (nz, ny, nx): beyond the border the
   outside value, or (edge mode) the clamped position *)
Definition PG (vol : list (list (list Z))) (nz ny nx : nat) (z y x : nat) : Z :=
  match oc with
  | Some c0 => if ((z <? nz) && (y <? ny) && (x <? nx))%nat then g3 vol z y x else c0
  | None => g3 vol (pad_index nz z) (pad_index ny y) (pad_index nx x)
  end.

Lemma zavg_same : forall c, zavg c c = c.
Proof. intros c. unfold zavg. replace (c + c) with (c * 2) by lia. apply Z.div_mul. lia. Qed.

Lemma hz_rect3 : forall nz ny nx vol, rect3 nz ny nx vol -> rect3 (cdiv nz 2) ny nx (hz zavg oc vol).
Proof.
  intros nz ny nx vol Hr.
  assert (R4 : rect4 1 nz ny nx [vol]) by (split; [reflexivity | constructor; [exact Hr | constructor]]).
  destruct (halve_z_rect zavg oc 1 nz ny nx [vol] R4) as [_ F]. cbn in F. inversion F; subst. assumption.
Qed.
Lemma hy_rect3 : forall nz ny nx vol, rect3 nz ny nx vol -> rect3 nz (cdiv ny 2) nx (hy zavg oc vol).
Proof.
  intros nz ny nx vol Hr.
  assert (R4 : rect4 1 nz ny nx [vol]) by (split; [reflexivity | constructor; [exact Hr | constructor]]).
  destruct (halve_y_rect zavg oc 1 nz ny nx [vol] R4) as [_ F]. cbn in F. inversion F; subst. assumption.
Qed.
Lemma hx_rect3 : forall nz ny nx vol, rect3 nz ny nx vol -> rect3 nz ny (cdiv nx 2) (hx zavg oc vol).
Proof.
  intros nz ny nx vol Hr.
  assert (R4 : rect4 1 nz ny nx [vol]) by (split; [reflexivity | constructor; [exact Hr | constructor]]).
  destruct (halve_x_rect zavg oc 1 nz ny nx [vol] R4) as [_ F]. cbn in F. inversion F; subst. assumption.
Qed.

Lemma pad_index_lt : forall n i, (1 <= n)%nat -> (pad_index n i < n)%nat.
Proof. intros n i Hn. unfold pad_index. destruct (i <? n)%nat eqn:E. apply Nat.ltb_lt. exact E. lia. Qed.
Lemma pad_index_id : forall n i, (i < n)%nat -> pad_index n i = i.
Proof. intros n i H. unfold pad_index. apply Nat.ltb_lt in H. rewrite H. reflexivity. Qed.
Lemma pad_index_ge : forall n i, (n <= i)%nat -> pad_index n i = (n - 1)%nat.
Proof. intros n i H. unfold pad_index. apply Nat.ltb_ge in H. rewrite H. reflexivity. Qed.

(* the padded read of a stage along the halved axis is the full padded read *)
Lemma rd_is_PG_z : forall vol nz ny nx i y x, (1 <= nz)%nat -> (y < ny)%nat -> (x < nx)%nat ->
  (if (i <? nz)%nat then g3 vol i y x else fill0 oc (g3 vol (nz - 1) y x)) = PG vol nz ny nx i y x.
Proof.
  intros vol nz ny nx i y x Hn Hy Hx. unfold PG.
  apply Nat.ltb_lt in Hy. apply Nat.ltb_lt in Hx.
  destruct oc as [c0|]; cbn [fill0].
  - rewrite Hy, Hx. destruct (i <? nz)%nat; reflexivity.
  - apply Nat.ltb_lt in Hy. apply Nat.ltb_lt in Hx.
    rewrite (pad_index_id ny y Hy), (pad_index_id nx x Hx). unfold pad_index.
    destruct (i <? nz)%nat; reflexivity.
Qed.

Variable fx fy fz : nat.
Hypothesis Hfx : fx = 1%nat \/ fx = 2%nat.
Hypothesis Hfy : fy = 1%nat \/ fy = 2%nat.
Hypothesis Hfz : fz = 1%nat \/ fz = 2%nat.
Variable nz ny nx : nat.
Variable vol : list (list (list Z)).
Hypothesis Hvol : rect3 nz ny nx vol.
Hypothesis Hnz : (1 <= nz)%nat.
Hypothesis Hny : (1 <= ny)%nat.
Hypothesis Hnx : (1 <= nx)%nat.

Definition V1 := if (fz =? 2)%nat then hz zavg oc vol else vol.
Definition V2 := if (fy =? 2)%nat then hy zavg oc V1 else V1.
Definition V3 := if (fx =? 2)%nat then hx zavg oc V2 else V2.
Definition n1 := cdiv nz fz.
Definition n2 := cdiv ny fy.
Definition n3 := cdiv nx fx.

Definition G0 (z y x : nat) : Z := PG vol nz ny nx z y x.
Definition G1 (z y x : nat) : Z :=
  if (fz =? 2)%nat then zavg (G0 (2 * z) y x) (G0 (2 * z + 1) y x) else G0 z y x.
Definition G2 (z y x : nat) : Z :=
  if (fy =? 2)%nat then zavg (G1 z (2 * y) x) (G1 z (2 * y + 1) x) else G1 z y x.
Definition G3 (z y x : nat) : Z :=
  if (fx =? 2)%nat then zavg (G2 z y (2 * x)) (G2 z y (2 * x + 1)) else G2 z y x.

Lemma V1_rect : rect3 n1 ny nx V1.
Proof.
  unfold V1, n1. destruct Hfz as [-> | ->]; cbn [Nat.eqb].
  rewrite cdiv_1. exact Hvol. apply hz_rect3. exact Hvol.
Qed.
Lemma V2_rect : rect3 n1 n2 nx V2.
Proof.
  unfold V2, n2. destruct Hfy as [-> | ->]; cbn [Nat.eqb].
  rewrite cdiv_1. exact V1_rect. apply hy_rect3. exact V1_rect.
Qed.

Lemma n2_pos : (1 <= n2)%nat.
Proof. unfold n2. apply (cdiv_lt ny fy 0); lia. Qed.

Lemma oc_cases : (exists c0, oc = Some c0) \/ oc = None.
Proof. destruct oc; eauto. Qed.

Lemma PG_some : forall c0, oc = Some c0 -> forall v m1 m2 m3 z y x,
  PG v m1 m2 m3 z y x = if ((z <? m1) && (y <? m2) && (x <? m3))%nat then g3 v z y x else c0.
Proof. intros c0 E v m1 m2 m3 z y x. unfold PG. rewrite E. reflexivity. Qed.

Lemma PG_none : oc = None -> forall v m1 m2 m3 z y x,
  PG v m1 m2 m3 z y x = g3 v (pad_index m1 z) (pad_index m2 y) (pad_index m3 x).
Proof. intros E v m1 m2 m3 z y x. unfold PG. rewrite E. reflexivity. Qed.

Lemma n1_pos : (1 <= n1)%nat.
Proof. unfold n1. apply (cdiv_lt nz fz 0); lia. Qed.

(* stage z *)
Lemma C1 : forall z y x, (z < n1)%nat -> PG V1 n1 ny nx z y x = G1 z y x.
Proof.
  intros z y x Hz. unfold G1, V1, n1 in *. destruct Hfz as [E | E]; rewrite E in *; cbn [Nat.eqb].
  - rewrite cdiv_1 in *. reflexivity.
  - destruct oc_cases as [[c0 Eo] | Eo].
    + rewrite (PG_some c0 Eo).
      replace (z <? cdiv nz 2)%nat with true by (symmetry; apply Nat.ltb_lt; exact Hz). cbn [andb].
      destruct ((y <? ny) && (x <? nx))%nat eqn:Eyx.
      * apply andb_prop in Eyx. destruct Eyx as [Ey Ex]. apply Nat.ltb_lt in Ey. apply Nat.ltb_lt in Ex.
        rewrite (hz_get zavg oc 0 nz ny nx vol z y x Hvol Hz Ey Ex).
        rewrite !(rd_is_PG_z vol nz ny nx _ y x Hnz Ey Ex). reflexivity.
      * unfold G0. rewrite !(PG_some c0 Eo).
        replace (((2 * z <? nz) && (y <? ny) && (x <? nx))%nat) with false
          by (rewrite <- andb_assoc, Eyx, andb_false_r; reflexivity).
        replace (((2 * z + 1 <? nz) && (y <? ny) && (x <? nx))%nat) with false
          by (rewrite <- andb_assoc, Eyx, andb_false_r; reflexivity).
        symmetry. apply zavg_same.
    + rewrite (PG_none Eo). rewrite (pad_index_id _ z Hz).
      pose proof (pad_index_lt ny y Hny) as Hy'. pose proof (pad_index_lt nx x Hnx) as Hx'.
      rewrite (hz_get zavg oc 0 nz ny nx vol z _ _ Hvol Hz Hy' Hx').
      rewrite !(rd_is_PG_z vol nz ny nx _ _ _ Hnz Hy' Hx').
      unfold G0. rewrite !(PG_none Eo).
      rewrite !(pad_index_id ny (pad_index ny y)), !(pad_index_id nx (pad_index nx x)) by assumption.
      reflexivity.
Qed.

(* the padded read along y of a stage (z and x in range) *)
Lemma rd_is_PG_y : forall v m1 m2 m3 z i x, (1 <= m2)%nat -> (z < m1)%nat -> (x < m3)%nat ->
  (if (i <? m2)%nat then g3 v z i x else fill0 oc (g3 v z (m2 - 1) x)) = PG v m1 m2 m3 z i x.
Proof.
  intros v m1 m2 m3 z i x Hn Hz Hx.
  destruct oc_cases as [[c0 Eo] | Eo].
  - rewrite (PG_some c0 Eo). rewrite Eo. cbn [fill0].
    apply Nat.ltb_lt in Hz. apply Nat.ltb_lt in Hx. rewrite Hz, Hx. cbn [andb].
    rewrite andb_true_r. destruct (i <? m2)%nat; reflexivity.
  - rewrite (PG_none Eo). rewrite Eo. cbn [fill0].
    rewrite (pad_index_id m1 z Hz), (pad_index_id m3 x Hx). unfold pad_index.
    destruct (i <? m2)%nat; reflexivity.
Qed.

Lemma rd_is_PG_x : forall v m1 m2 m3 z y i, (1 <= m3)%nat -> (z < m1)%nat -> (y < m2)%nat ->
  (if (i <? m3)%nat then g3 v z y i else fill0 oc (g3 v z y (m3 - 1))) = PG v m1 m2 m3 z y i.
Proof.
  intros v m1 m2 m3 z y i Hn Hz Hy.
  destruct oc_cases as [[c0 Eo] | Eo].
  - rewrite (PG_some c0 Eo). rewrite Eo. cbn [fill0].
    apply Nat.ltb_lt in Hz. apply Nat.ltb_lt in Hy. rewrite Hz, Hy. cbn [andb].
    destruct (i <? m3)%nat; reflexivity.
  - rewrite (PG_none Eo). rewrite Eo. cbn [fill0].
    rewrite (pad_index_id m1 z Hz), (pad_index_id m2 y Hy). unfold pad_index.
    destruct (i <? m3)%nat; reflexivity.
Qed.

(* stage y *)
Lemma C2 : forall z y x, (z < n1)%nat -> (y < n2)%nat -> PG V2 n1 n2 nx z y x = G2 z y x.
Proof.
  intros z y x Hz Hy. unfold G2, V2, n2 in *. destruct Hfy as [E | E]; rewrite E in *; cbn [Nat.eqb].
  - rewrite cdiv_1 in *. apply C1. exact Hz.
  - destruct oc_cases as [[c0 Eo] | Eo].
    + rewrite (PG_some c0 Eo).
      replace (z <? n1)%nat with true by (symmetry; apply Nat.ltb_lt; exact Hz).
      replace (y <? cdiv ny 2)%nat with true by (symmetry; apply Nat.ltb_lt; exact Hy). cbn [andb].
      destruct (x <? nx)%nat eqn:Ex.
      * apply Nat.ltb_lt in Ex.
        rewrite (hy_get zavg oc 0 n1 ny nx V1 z y x V1_rect Hz Hy Ex).
        rewrite !(rd_is_PG_y V1 n1 ny nx z _ x Hny Hz Ex). rewrite !C1 by exact Hz. reflexivity.
      * rewrite <- !C1 by exact Hz. rewrite !(PG_some c0 Eo). rewrite Ex, !andb_false_r.
        symmetry. apply zavg_same.
    + rewrite (PG_none Eo). rewrite (pad_index_id _ z Hz), (pad_index_id _ y Hy).
      pose proof (pad_index_lt nx x Hnx) as Hx'.
      rewrite (hy_get zavg oc 0 n1 ny nx V1 z y _ V1_rect Hz Hy Hx').
      rewrite !(rd_is_PG_y V1 n1 ny nx z _ _ Hny Hz Hx').
      rewrite <- !C1 by exact Hz. rewrite !(PG_none Eo).
      rewrite !(pad_index_id nx (pad_index nx x)) by assumption. reflexivity.
Qed.

(* stage x: the final array *)
Lemma C3 : forall z y x, (z < n1)%nat -> (y < n2)%nat -> (x < n3)%nat -> g3 V3 z y x = G3 z y x.
Proof.
  intros z y x Hz Hy Hx. unfold G3, V3, n3 in *. destruct Hfx as [E | E]; rewrite E in *; cbn [Nat.eqb].
  - rewrite cdiv_1 in *. rewrite <- (C2 z y x Hz Hy).
    rewrite <- (rd_is_PG_x V2 n1 n2 nx z y x Hnx Hz Hy).
    replace (x <? nx)%nat with true by (symmetry; apply Nat.ltb_lt; exact Hx). reflexivity.
  - rewrite (hx_get zavg oc 0 n1 n2 nx V2 z y x V2_rect Hz Hy Hx).
    rewrite !(rd_is_PG_x V2 n1 n2 nx z y _ Hnx Hz Hy). rewrite !C2 by assumption. reflexivity.
Qed.

End Compose.

(* ---- block sums on the grid --------------------------------------------------- *)

Definition Forall3 {A} (P : A -> Prop) (vol : list (list (list A))) : Prop :=
  Forall (Forall (Forall P)) vol.

Lemma get3_Forall : forall (P : Z -> Prop) nz ny nx vol z y x,
  rect3 nz ny nx vol -> Forall3 P vol -> (z < nz)%nat -> (y < ny)%nat -> (x < nx)%nat ->
  P (get3 0 vol z y x).
Proof.
  intros P nz ny nx vol z y x Hr HF Hz Hy Hx. unfold get3, Forall3 in *.
  pose proof Hr as [Lz F].
  pose proof (rect3_plane Z.add 0 nz ny nx vol z Hr Hz) as Hp. pose proof Hp as [Ly Fp].
  pose proof (rect2_row Z.add 0 ny nx _ y Hp Hy) as Lx.
  apply Forall_nth_def; [|lia]. apply Forall_nth_def; [|lia]. apply Forall_nth_def; [|lia]. exact HF.
Qed.

Lemma zavg_double : forall j a b, 1 <= j -> Pu j a -> Pu j b ->
  2 * zavg a b = a + b /\ Pu (j - 1) (zavg a b).
Proof.
  intros j a b Hj [[qa Ha] Ba] [[qb Hb] Bb].
  assert (Hj2 : 2 ^ j = 2 * 2 ^ (j - 1)).
  { replace j with (1 + (j - 1)) at 1 by lia. rewrite Z.pow_add_r by lia. reflexivity. }
  assert (Hz : a + b = 2 * ((qa + qb) * 2 ^ (j - 1))) by (rewrite Ha, Hb, Hj2; ring).
  assert (Ez : zavg a b = (qa + qb) * 2 ^ (j - 1)).
  { unfold zavg. rewrite Hz. rewrite Z.mul_comm. apply Z.div_mul. lia. }
  split. rewrite Ez, Hz. reflexivity.
  split. exists (qa + qb). exact Ez.
  change (2 ^ 52) with 4503599627370496 in *. rewrite Ez. set (t := (qa + qb) * 2 ^ (j - 1)) in *. lia.
Qed.

Definition zsum (l : list Z) : Z := fold_right Z.add 0 l.

Section Sums.
Variable oc : option Z.
Variable fx fy fz : nat.
Hypothesis Hfx : fx = 1%nat \/ fx = 2%nat.
Hypothesis Hfy : fy = 1%nat \/ fy = 2%nat.
Hypothesis Hfz : fz = 1%nat \/ fz = 2%nat.
Variable nz ny nx : nat.
Variable vol : list (list (list Z)).
Hypothesis Hvol : rect3 nz ny nx vol.
Hypothesis Hnz : (1 <= nz)%nat.
Hypothesis Hny : (1 <= ny)%nat.
Hypothesis Hnx : (1 <= nx)%nat.
Hypothesis HP : Forall3 (Pu 3) vol.
Hypothesis Ho : optP (Pu 3) oc.

Notation G0 := (G0 oc nz ny nx vol).
Notation G1 := (G1 oc fz nz ny nx vol).
Notation G2 := (G2 oc fy fz nz ny nx vol).
Notation G3 := (G3 oc fx fy fz nz ny nx vol).

Lemma G0_Pu : forall z y x, Pu 3 (G0 z y x).
Proof.
  intros z y x. unfold AverageBlock.G0, PG. destruct oc as [c0|].
  - destruct ((z <? nz) && (y <? ny) && (x <? nx))%nat eqn:E.
    + apply andb_prop in E. destruct E as [E Ex]. apply andb_prop in E. destruct E as [Ez Ey].
      apply Nat.ltb_lt in Ex. apply Nat.ltb_lt in Ey. apply Nat.ltb_lt in Ez.
      apply (get3_Forall _ nz ny nx); assumption.
    + exact Ho.
  - apply (get3_Forall _ nz ny nx); try assumption; apply pad_index_lt; assumption.
Qed.

Lemma G1_Pu : forall z y x, Pu 2 (G1 z y x).
Proof.
  intros z y x. unfold AverageBlock.G1. destruct (fz =? 2)%nat.
  - apply (zavg_double 3); [lia | apply G0_Pu | apply G0_Pu].
  - apply (Pu_weaken 3). lia. apply G0_Pu.
Qed.

Lemma G2_Pu : forall z y x, Pu 1 (G2 z y x).
Proof.
  intros z y x. unfold AverageBlock.G2. destruct (fy =? 2)%nat.
  - apply (zavg_double 2); [lia | apply G1_Pu | apply G1_Pu].
  - apply (Pu_weaken 2). lia. apply G1_Pu.
Qed.

(* sums over the block, axis by axis *)
Definition S1 (z y x : nat) : Z :=
  if (fz =? 2)%nat then G0 (2 * z) y x + G0 (2 * z + 1) y x else G0 z y x.
Definition S2 (z y x : nat) : Z :=
  if (fy =? 2)%nat then S1 z (2 * y) x + S1 z (2 * y + 1) x else S1 z y x.
Definition S3 (z y x : nat) : Z :=
  if (fx =? 2)%nat then S2 z y (2 * x) + S2 z y (2 * x + 1) else S2 z y x.

Lemma S1_G1 : forall z y x, Z.of_nat fz * G1 z y x = S1 z y x.
Proof.
  intros z y x. unfold S1, AverageBlock.G1. destruct Hfz as [E0 | E0]; rewrite E0; cbn [Nat.eqb].
  - lia.
  - destruct (zavg_double 3 (G0 (2 * z) y x) (G0 (2 * z + 1) y x) ltac:(lia) (G0_Pu _ _ _) (G0_Pu _ _ _)) as [E _].
    change (Z.of_nat 2) with 2. exact E.
Qed.

Lemma S2_G2 : forall z y x, Z.of_nat (fz * fy) * G2 z y x = S2 z y x.
Proof.
  intros z y x. unfold S2, AverageBlock.G2. rewrite Nat2Z.inj_mul.
  destruct Hfy as [E0 | E0]; rewrite E0; cbn [Nat.eqb].
  - rewrite <- S1_G1. change (Z.of_nat 1) with 1. lia.
  - destruct (zavg_double 2 (G1 z (2 * y) x) (G1 z (2 * y + 1) x) ltac:(lia) (G1_Pu _ _ _) (G1_Pu _ _ _)) as [E _].
    rewrite <- !S1_G1. change (Z.of_nat 2) with 2.
    set (a := G1 z (2 * y) x) in *. set (b := G1 z (2 * y + 1) x) in *. set (m := zavg a b) in *.
    set (F := Z.of_nat fz). nia.
Qed.

Lemma S3_G3 : forall z y x, Z.of_nat (fz * fy * fx) * G3 z y x = S3 z y x.
Proof.
  intros z y x. unfold S3, AverageBlock.G3. rewrite Nat2Z.inj_mul.
  destruct Hfx as [E0 | E0]; rewrite E0; cbn [Nat.eqb].
  - rewrite <- S2_G2. change (Z.of_nat 1) with 1. lia.
  - destruct (zavg_double 1 (G2 z y (2 * x)) (G2 z y (2 * x + 1)) ltac:(lia) (G2_Pu _ _ _) (G2_Pu _ _ _)) as [E _].
    rewrite <- !S2_G2. change (Z.of_nat 2) with 2.
    set (a := G2 z y (2 * x)) in *. set (b := G2 z y (2 * x + 1)) in *. set (m := zavg a b) in *.
    set (F := Z.of_nat (fz * fy)). nia.
Qed.

(* the contributors of output voxel (z, y, x), in block order *)
Definition blockZ (z y x : nat) : list Z :=
  flat_map (fun dz => flat_map (fun dy => map (fun dx =>
      G0 (z * fz + dz) (y * fy + dy) (x * fx + dx)) (seq 0 fx)) (seq 0 fy)) (seq 0 fz).

Lemma S3_blockZ : forall z y x, S3 z y x = zsum (blockZ z y x) /\ length (blockZ z y x) = (fz * fy * fx)%nat.
Proof.
  intros z y x. unfold S3, S2, S1, blockZ.
  destruct Hfx as [Ex | Ex]; destruct Hfy as [Ey | Ey]; destruct Hfz as [Ez | Ez]; rewrite Ex, Ey, Ez;
    cbn [Nat.eqb seq flat_map map app zsum fold_right length];
    rewrite ?Nat.mul_1_r, ?Nat.add_0_r, ?(Nat.mul_comm z 2), ?(Nat.mul_comm y 2), ?(Nat.mul_comm x 2);
    (split; [lia | reflexivity]).
Qed.

End Sums.

(* ---- from the grid to rationals ----------------------------------------------- *)

Lemma gridQ_scaled : forall k v, 0 <= k -> (gridQ k (v * 2 ^ k) == inject_Z v)%Q.
Proof.
  intros k v Hk. unfold gridQ, Qeq, inject_Z. cbn [Qnum Qden].
  rewrite Z2Pos.id by (apply Z.pow_pos_nonneg; lia). ring.
Qed.

Lemma gridQ_plus : forall k a b, (gridQ k a + gridQ k b == gridQ k (a + b))%Q.
Proof. intros k a b. unfold gridQ, Qeq, Qplus. cbn [Qnum Qden]. rewrite Pos2Z.inj_mul. ring. Qed.

Lemma qsum_grid : forall k lq lz,
  Forall2 (fun q m => (q == gridQ k m)%Q) lq lz -> (qsum lq == gridQ k (zsum lz))%Q.
Proof.
  intros k lq lz H. induction H as [|q m lq lz Hq _ IH].
  - unfold qsum, zsum, gridQ, Qeq. cbn. reflexivity.
  - cbn [qsum zsum fold_right]. fold (qsum lq). fold (zsum lz).
    rewrite Hq, IH. apply gridQ_plus.
Qed.

Lemma gridQ_div : forall k (n : positive) g, (gridQ k (Zpos n * g) / inject_Z (Zpos n) == gridQ k g)%Q.
Proof.
  intros k n g. unfold gridQ, Qdiv, Qinv, inject_Z. cbn [Qnum Qden].
  unfold Qmult, Qeq. cbn [Qnum Qden]. rewrite !Pos2Z.inj_mul. ring.
Qed.

Lemma Forall2_map2 : forall A B C (R : B -> C -> Prop) (f : A -> B) (g : A -> C) l,
  (forall a, In a l -> R (f a) (g a)) -> Forall2 R (map f l) (map g l).
Proof.
  intros A B C R f g l H. induction l as [|a r IH]. constructor.
  cbn [map]. constructor. apply H. left; reflexivity. apply IH. intros; apply H; right; assumption.
Qed.

Lemma Forall2_flat_map : forall A B C (R : B -> C -> Prop) (f : A -> list B) (g : A -> list C) l,
  (forall a, In a l -> Forall2 R (f a) (g a)) -> Forall2 R (flat_map f l) (flat_map g l).
Proof.
  intros A B C R f g l H. induction l as [|a r IH]. constructor.
  cbn [flat_map]. apply Forall2_app. apply H. left; reflexivity. apply IH. intros; apply H; right; assumption.
Qed.

Lemma Forall2_length' : forall A B (R : A -> B -> Prop) l1 l2, Forall2 R l1 l2 -> length l1 = length l2.
Proof. intros A B R l1 l2 H. induction H; cbn; congruence. Qed.

Lemma get4_map4 : forall A B (h : A -> B) (d : A) (d' : B) nc nz ny nx a c z y x,
  rect4 nc nz ny nx a -> (c < nc)%nat -> (z < nz)%nat -> (y < ny)%nat -> (x < nx)%nat ->
  get4 d' (map4 h a) c z y x = h (get4 d a c z y x).
Proof.
  intros A B h d d' nc nz ny nx a c z y x Hr Hc Hz Hy Hx.
  rewrite (rect4_tab A d nc nz ny nx a Hr) at 1.
  assert (E : map4 h (tab nc (fun c => tab nz (fun z => tab ny (fun y => tab nx (fun x => get4 d a c z y x)))))
              = tab nc (fun c => tab nz (fun z => tab ny (fun y => tab nx (fun x => h (get4 d a c z y x)))))).
  { unfold map4, tab. rewrite map_map. apply map_ext. intros c'.
    rewrite map_map. apply map_ext. intros z'. rewrite map_map. apply map_ext. intros y'.
    rewrite map_map. reflexivity. }
  rewrite E. apply get4_tab4; assumption.
Qed.

Lemma avg_gen_vol : forall oc fx fy fz (a : arr4 Z),
  avg_gen zavg oc fx fy fz a = map (V3 oc fx fy fz) a.
Proof.
  intros oc fx fy fz a. unfold avg_gen, V3, V2, V1, halve_x, halve_y, halve_z, hx, hy, hz.
  destruct (fz =? 2)%nat; destruct (fy =? 2)%nat; destruct (fx =? 2)%nat;
    rewrite ?map_map; try reflexivity; symmetry; apply map_id.
Qed.

Lemma rect4_vol : forall A nc nz ny nx (a : arr4 A) c, rect4 nc nz ny nx a -> (c < nc)%nat ->
  rect3 nz ny nx (nth c a []).
Proof. intros A nc nz ny nx a c [Lc F] Hc. apply Forall_nth_def. exact F. lia. Qed.

Lemma cdiv_pos : forall n f i, (1 <= f)%nat -> (i < cdiv n f)%nat -> (1 <= n)%nat.
Proof. intros n f i Hf Hi. apply cdiv_lt in Hi; lia. Qed.

(* C07 (3): on unsigned integer voxels small enough for the grid (every uint8 /
   uint16 / uint32 value; uint64 values below 2^(52-k)) the averaging
   downscaler returns, in every output voxel, the exact mean of the padded
   source block, rounded half to even (and saturated); the whole result equals
   the specification array avg_spec. *)
Theorem avg_exact : forall dt k (oc : option Z) fs nc nz ny nx (V : arr4 Z),
  is_uint dt = true -> check_factors_avg fs = true -> 3 <= k <= 20 ->
  optP (Pu 3) oc -> rect4 nc nz ny nx V -> Forall4 (small_val k) V ->
  avg_model dt (option_map (fl k) oc) fs (map4 NI V) =
    Ok (avg_spec dt (option_map (gridQ k) oc) (fac fs 0) (fac fs 1) (fac fs 2) nc nz ny nx
                 (map4 inject_Z V)).
Proof.
  intros dt k oc fs nc nz ny nx V Hd Hf Hk Ho HrV HV.
  rewrite (avg_exact_units dt k oc fs V Hd Hf Hk Ho HV). f_equal.
  destruct (check_factors_avg_fac fs Hf) as (Hx & Hy & Hz).
  set (fx := fac fs 0) in *. set (fy := fac fs 1) in *. set (fz := fac fs 2) in *.
  set (M := map4 (fun v => v * 2 ^ k) V).
  assert (HrM : rect4 nc nz ny nx M) by (apply map4_rect; exact HrV).
  assert (HPM : Forall4 (Pu 3) M).
  { apply (Forall4_map4 _ _ (small_val k)). exact HV. intros v Hb. split; [|exact Hb].
    exists (v * 2 ^ (k - 3)). rewrite <- Z.mul_assoc, <- Z.pow_add_r by lia. do 2 f_equal. lia. }
  set (R := avg_gen zavg oc fx fy fz M).
  assert (HrR : rect4 nc (cdiv nz fz) (cdiv ny fy) (cdiv nx fx) R)
    by (apply avg_gen_rect; assumption).
  set (h := fun m => nearest_sat dt (gridQ k m)).
  rewrite (rect4_tab _ (NI 0) _ _ _ _ _ (map4_rect _ _ h _ _ _ _ R HrR)).
  unfold avg_spec.
  apply tab_ext; intros c Hc. apply tab_ext; intros z Hzi. apply tab_ext; intros y Hyi.
  apply tab_ext; intros x Hxi.
  rewrite (get4_map4 _ _ h 0 (NI 0) _ _ _ _ R c z y x HrR Hc Hzi Hyi Hxi).
  unfold h, nearest_sat.
  assert (Hi : is_int dt = true) by (destruct dt; try discriminate Hd; reflexivity).
  rewrite Hi. do 2 f_equal. apply rhe_Q_Qeq.
  (* dims are positive *)
  assert (Hf1 : forall f, f = 1%nat \/ f = 2%nat -> (1 <= f)%nat) by (intros ? [-> | ->]; lia).
  pose proof (cdiv_pos nz fz z (Hf1 _ Hz) Hzi) as Pz.
  pose proof (cdiv_pos ny fy y (Hf1 _ Hy) Hyi) as Py.
  pose proof (cdiv_pos nx fx x (Hf1 _ Hx) Hxi) as Px.
  set (vol := nth c M []).
  assert (Hvol : rect3 nz ny nx vol) by (apply (rect4_vol _ nc); assumption).
  assert (HPv : Forall3 (Pu 3) vol).
  { unfold vol, Forall3. apply Forall_nth_def. exact HPM. destruct HrM as [L _]. lia. }
  (* the model's voxel is G3 *)
  assert (EG : get4 0 R c z y x = G3 oc fx fy fz nz ny nx vol z y x).
  { unfold R. rewrite avg_gen_vol. unfold get4.
    assert (Em : nth c (map (V3 oc fx fy fz) M) [] = V3 oc fx fy fz vol).
    { rewrite (nth_indep _ [] (V3 oc fx fy fz [])) by (rewrite map_length; destruct HrM as [L _]; lia).
      apply map_nth. }
    rewrite Em. apply (C3 oc fx fy fz Hx Hy Hz nz ny nx vol Hvol Pz Py Px z y x Hzi Hyi Hxi). }
  rewrite EG.
  pose proof (S3_G3 oc fx fy fz Hx Hy Hz nz ny nx vol Hvol Pz Py Px HPv Ho z y x) as ES.
  destruct (S3_blockZ oc fx fy fz Hx Hy Hz nz ny nx vol Pz Py Px z y x) as [EB LB].
  (* the specification's contributors are the grid contributors *)
  unfold block_mean, qmean.
  set (lq := block_values (option_map (gridQ k) oc) fx fy fz nz ny nx (map4 inject_Z V) c z y x).
  set (lz := blockZ oc fx fy fz nz ny nx vol z y x) in *.
  assert (HF2 : Forall2 (fun q m => (q == gridQ k m)%Q) lq lz).
  { unfold lq, lz, block_values, blockZ.
    apply Forall2_flat_map. intros dz _. apply Forall2_flat_map. intros dy _.
    apply Forall2_map2. intros dx _.
    set (z' := (z * fz + dz)%nat). set (y' := (y * fy + dy)%nat). set (x' := (x * fx + dx)%nat).
    assert (Hin : forall z0 y0 x0, (z0 < nz)%nat -> (y0 < ny)%nat -> (x0 < nx)%nat ->
              (get4 0%Q (map4 inject_Z V) c z0 y0 x0 == gridQ k (get3 0%Z vol z0 y0 x0))%Q).
    { intros z0 y0 x0 H0 H1 H2.
      rewrite (get4_map4 _ _ inject_Z 0 0%Q nc nz ny nx V c z0 y0 x0 HrV Hc H0 H1 H2).
      change (get3 0 vol z0 y0 x0) with (get4 0 M c z0 y0 x0). unfold M.
      rewrite (get4_map4 _ _ (fun v => v * 2 ^ k) 0 0 nc nz ny nx V c z0 y0 x0 HrV Hc H0 H1 H2).
      symmetry. apply gridQ_scaled. lia. }
    unfold padded_get, G0, PG. destruct oc as [c0|]; cbn [option_map].
    - destruct ((z' <? nz) && (y' <? ny) && (x' <? nx))%nat eqn:E.
      + apply andb_prop in E. destruct E as [E E3]. apply andb_prop in E. destruct E as [E1 E2].
        apply Nat.ltb_lt in E1. apply Nat.ltb_lt in E2. apply Nat.ltb_lt in E3. apply Hin; assumption.
      + reflexivity.
    - apply Hin; apply pad_index_lt; assumption. }
  pose proof (qsum_grid k lq lz HF2) as Hs.
  pose proof (Forall2_length' _ _ _ _ _ HF2) as Hl.
  rewrite Hl, LB, Hs, <- EB, <- ES.
  assert (HN : exists n : positive, Z.of_nat (fz * fy * fx) = Zpos n).
  { destruct Hx as [-> | ->]; destruct Hy as [-> | ->]; destruct Hz as [-> | ->]; cbn; eauto. }
  destruct HN as [n Hn]. rewrite Hn. symmetry. apply gridQ_div.
Qed.

(* ---- bounds ------------------------------------------------------------------- *)

Lemma rhe_Q_le : forall z q, (q <= inject_Z z)%Q -> rhe_Q q <= z.
Proof.
  intros z [n d] H. unfold Qle, inject_Z in H. cbn [Qnum Qden] in H.
  unfold rhe_Q. cbn [Qnum Qden].
  pose proof (Z.div_mod n (Zpos d) ltac:(lia)) as E.
  pose proof (Z.mod_pos_bound n (Zpos d) ltac:(lia)) as B.
  set (f := n / Zpos d) in *. set (r := n mod Zpos d) in *.
  destruct (Z.compare_spec (2 * r) (Zpos d)) as [He|Hl|Hg].
  - assert (f < z) by nia. destruct (Z.even f); lia.
  - assert (f <= z) by nia. lia.
  - assert (f < z) by nia. lia.
Qed.

Lemma qsum_bounds : forall lo hi l,
  (forall q, In q l -> (inject_Z lo <= q /\ q <= inject_Z hi)%Q) ->
  (inject_Z (Z.of_nat (length l) * lo) <= qsum l /\ qsum l <= inject_Z (Z.of_nat (length l) * hi))%Q.
Proof.
  intros lo hi l. induction l as [|q r IH]; intros H.
  - cbn. split; apply Qle_refl.
  - destruct (IH (fun q' Hq' => H q' (or_intror Hq'))) as [I1 I2].
    destruct (H q (or_introl eq_refl)) as [Q1 Q2].
    cbn [qsum fold_right length]. fold (qsum r).
    replace (Z.of_nat (S (length r)) * lo) with (lo + Z.of_nat (length r) * lo) by lia.
    replace (Z.of_nat (S (length r)) * hi) with (hi + Z.of_nat (length r) * hi) by lia.
    rewrite !inject_Z_plus. split; apply Qplus_le_compat; assumption.
Qed.

Lemma qmean_bounds : forall lo hi l, l <> [] ->
  (forall q, In q l -> (inject_Z lo <= q /\ q <= inject_Z hi)%Q) ->
  lo <= rhe_Q (qmean l) <= hi.
Proof.
  intros lo hi l Hne H. destruct (qsum_bounds lo hi l H) as [I1 I2].
  assert (Hn : 0 < Z.of_nat (length l)) by (destruct l; [congruence | cbn; lia]).
  set (N := Z.of_nat (length l)) in *.
  assert (HNq : (0 < inject_Z N)%Q) by (unfold Qlt, inject_Z; cbn; lia).
  unfold qmean. fold N. split.
  - apply rhe_Q_ge. apply Qle_shift_div_l. exact HNq.
    rewrite <- inject_Z_mult. rewrite Z.mul_comm. exact I1.
  - apply rhe_Q_le. apply Qle_shift_div_r. exact HNq.
    rewrite <- inject_Z_mult. rewrite Z.mul_comm. exact I2.
Qed.

(* C07 (4): on the exact region every output voxel lies between any integer
   bounds of its contributors (hence between their minimum and maximum when
   they are integers), and inside the type's range: it never wraps. *)
Theorem avg_bounds : forall dt k (oc : option Z) fs nc nz ny nx (V : arr4 Z) out,
  is_uint dt = true -> check_factors_avg fs = true -> 3 <= k <= 20 ->
  optP (Pu 3) oc -> rect4 nc nz ny nx V -> Forall4 (small_val k) V ->
  avg_model dt (option_map (fl k) oc) fs (map4 NI V) = Ok out ->
  forall c z y x, (c < nc)%nat -> (z < cdiv nz (fac fs 2))%nat -> (y < cdiv ny (fac fs 1))%nat ->
    (x < cdiv nx (fac fs 0))%nat ->
    exists r, get4 (NI 0) out c z y x = NI r /\ in_range dt r /\
      forall lo hi, lo <= imax dt -> imin dt <= hi ->
        (forall q, In q (block_values (option_map (gridQ k) oc) (fac fs 0) (fac fs 1) (fac fs 2)
                           nz ny nx (map4 inject_Z V) c z y x) ->
                   (inject_Z lo <= q /\ q <= inject_Z hi)%Q) ->
        lo <= r <= hi.
Proof.
  intros dt k oc fs nc nz ny nx V out Hd Hf Hk Ho HrV HV Hm c z y x Hc Hz Hy Hx.
  rewrite (avg_exact dt k oc fs nc nz ny nx V Hd Hf Hk Ho HrV HV) in Hm. inversion Hm; subst out.
  unfold avg_spec. rewrite get4_tab4 by assumption.
  assert (Hi : is_int dt = true) by (destruct dt; try discriminate Hd; reflexivity).
  unfold nearest_sat. rewrite Hi. eexists. split. reflexivity. split.
  apply clamp_in_range. exact Hi.
  intros lo hi Hlo Hhi Hb. unfold block_mean.
  set (l := block_values _ _ _ _ _ _ _ _ _ _ _ _) in *.
  assert (Hne : l <> []).
  { unfold l, block_values. destruct (check_factors_avg_fac fs Hf) as ([-> | ->] & [-> | ->] & [-> | ->]);
      cbn; discriminate. }
  pose proof (qmean_bounds lo hi l Hne Hb) as Hq. unfold clamp.
  assert (imin dt <= imax dt) by (destruct dt; try discriminate Hd; dt_unfold; lia). lia.
Qed.

(* ---- where averaging is not exact: uint64 and float32 --------------------------- *)

(* uint64 voxels at or above 2^49: float64 loses precision (the top of the range
   now saturates instead of wrapping, but is still imprecise) *)
Lemma avg_uint64_refuted :
  exists V fs,
    avg_uint64_guard U64 V = false /\ check_factors_avg fs = true /\ Forall4 (in_range U64) V /\
    ~ Forall4 (small_val 3) V /\
    avg_model U64 None fs (map4 NI V) = Ok [[[[NI (2 ^ 64 - 1); NI (2 ^ 53)]]]] /\
    avg_spec U64 None (fac fs 0) (fac fs 1) (fac fs 2) 1 1 1 4 (map4 inject_Z V)
      = [[[[NI (2 ^ 64 - 512); NI (2 ^ 53 + 1)]]]].
Proof.
  exists [[[[2 ^ 64 - 1; 2 ^ 64 - 1023; 2 ^ 53 + 1; 2 ^ 53 + 1]]]], [2; 1; 1].
  split. vm_compute; reflexivity. split. reflexivity.
  split. repeat constructor; vm_compute; discriminate.
  split. { intros H. inversion H as [|? ? H1 _]; subst. inversion H1 as [|? ? H2 _]; subst.
           inversion H2 as [|? ? H3 _]; subst. inversion H3 as [|? ? H4 _]; subst.
           vm_compute in H4. discriminate. }
  split; vm_compute; reflexivity.
Qed.

(* the former wrap-around witness: the mean of two voxels 2^64-1 is now 2^64-1 *)
Lemma avg_uint64_top_saturates :
  avg_model U64 None [2; 1; 1] [[[[NI (2 ^ 64 - 1); NI (2 ^ 64 - 1)]]]] = Ok [[[[NI (2 ^ 64 - 1)]]]] /\
  avg_spec U64 None 2 1 1 1 1 1 2 (map4 inject_Z [[[[2 ^ 64 - 1; 2 ^ 64 - 1]]]]) = [[[[NI (2 ^ 64 - 1)]]]].
Proof. split; vm_compute; reflexivity. Qed.

(* the guard delimits the region: where it holds (uint64 voxels below 2^49, or
   any other unsigned type) averaging is exact *)
Lemma avg_uint64_guard_small : forall V, avg_uint64_guard U64 V = true ->
  (forall v, In v (flatten V) -> 0 <= v) -> forall v, In v (flatten V) -> small_val 3 v.
Proof.
  intros V Hg Hpos v Hv. unfold avg_uint64_guard in Hg. cbn [dtype_eqb andb] in Hg.
  apply negb_true_iff in Hg.
  assert (Hn : (2 ^ 49 <=? v) = false).
  { destruct (2 ^ 49 <=? v) eqn:E; [|reflexivity].
    assert (existsb (fun v => 2 ^ 49 <=? v) (flatten V) = true)
      by (apply existsb_exists; exists v; split; assumption). congruence. }
  apply Z.leb_gt in Hn. specialize (Hpos v Hv). unfold small_val.
  change (2 ^ 3) with 8. change (2 ^ 49) with 562949953421312 in Hn.
  change (2 ^ 52) with 4503599627370496. lia.
Qed.

(* float32: the float64 partial sums round, and the result is rounded again *)
Lemma avg_float32_refuted :
  let a := [[[[NF (of_bits b32 1065353217); NF (of_bits b32 0)];
              [NF (of_bits b32 1065353216); NF (of_bits b32 226492416)]]]] in
  (* (1 + 2^-23, 0; 1, 2^-100), factors (Dx, Dy, Dz) = (2, 2, 1) *)
  avg_model F32 None [2; 2; 1] a = Ok [[[[NF (of_bits b32 1056964608)]]]] /\         (* 0.5 *)
  avg_spec F32 None 2 2 1 1 1 2 2 (map4 num2Q a) = [[[[NF (of_bits b32 1056964609)]]]].  (* 0.5 + 2^-24 *)
Proof. split; vm_compute; reflexivity. Qed.

(* uint8 / uint16 / uint32: exact for ALL values of the type *)
Corollary avg_exact_small_uint : forall dt k (oc : option Z) fs nc nz ny nx (V : arr4 Z),
  small_uint dt = true -> check_factors_avg fs = true -> 3 <= k <= 20 ->
  optP (Pu 3) oc -> rect4 nc nz ny nx V -> Forall4 (in_range dt) V ->
  avg_model dt (option_map (fl k) oc) fs (map4 NI V) =
    Ok (avg_spec dt (option_map (gridQ k) oc) (fac fs 0) (fac fs 1) (fac fs 2) nc nz ny nx
                 (map4 inject_Z V)).
Proof.
  intros dt k oc fs nc nz ny nx V Hd Hf Hk Ho Hr HV.
  apply avg_exact; try assumption. apply small_uint_is_uint. exact Hd.
  eapply Forall4_impl; [|exact HV]. intros v Hv. apply (small_uint_small_val dt); assumption.
Qed.

(* ======================================================================== *)
(* Non-finite voxels through the averaging downscaler: the per-voxel value of
   the separable pairwise averaging as a pairing tree of padded reads, generic in
   the element type and the averaging function (a generic copy of the
   composition above, which is specialised to the exact grid), then
   float64/float32: a block of +inf (-inf) voxels averages to +inf (-inf); a NaN
   contributor gives NaN. *)
Close Scope Z_scope.

Section ComposeGen.
Context {A : Type} (f : A -> A -> A) (d : A).
Variable oc : option A.
(* padding with a constant is only transparent when averaging it with itself gives it back *)
Hypothesis Hsame : forall c, oc = Some c -> f c c = c.

Notation g3 := (get3 d).

(* fully padded read of a volume of shape (nz, ny, nx): beyond the border the
   outside value, or (edge mode) the clamped position *)
Definition PGa (vol : list (list (list A))) (nz ny nx : nat) (z y x : nat) : A :=
  match oc with
  | Some c0 => if ((z <? nz) && (y <? ny) && (x <? nx))%nat then g3 vol z y x else c0
  | None => g3 vol (pad_index nz z) (pad_index ny y) (pad_index nx x)
  end.

Lemma hz_rect3a : forall nz ny nx vol, rect3 nz ny nx vol -> rect3 (cdiv nz 2) ny nx (hz f oc vol).
Proof.
  intros nz ny nx vol Hr.
  assert (R4 : rect4 1 nz ny nx [vol]) by (split; [reflexivity | constructor; [exact Hr | constructor]]).
  destruct (halve_z_rect f oc 1 nz ny nx [vol] R4) as [_ F]. cbn in F. inversion F; subst. assumption.
Qed.
Lemma hy_rect3a : forall nz ny nx vol, rect3 nz ny nx vol -> rect3 nz (cdiv ny 2) nx (hy f oc vol).
Proof.
  intros nz ny nx vol Hr.
  assert (R4 : rect4 1 nz ny nx [vol]) by (split; [reflexivity | constructor; [exact Hr | constructor]]).
  destruct (halve_y_rect f oc 1 nz ny nx [vol] R4) as [_ F]. cbn in F. inversion F; subst. assumption.
Qed.
Lemma hx_rect3a : forall nz ny nx vol, rect3 nz ny nx vol -> rect3 nz ny (cdiv nx 2) (hx f oc vol).
Proof.
  intros nz ny nx vol Hr.
  assert (R4 : rect4 1 nz ny nx [vol]) by (split; [reflexivity | constructor; [exact Hr | constructor]]).
  destruct (halve_x_rect f oc 1 nz ny nx [vol] R4) as [_ F]. cbn in F. inversion F; subst. assumption.
Qed.





(* the padded read of a stage along the halved axis is the full padded read *)
Lemma rd_is_PG_za : forall vol nz ny nx i y x, (1 <= nz)%nat -> (y < ny)%nat -> (x < nx)%nat ->
  (if (i <? nz)%nat then g3 vol i y x else fill0 oc (g3 vol (nz - 1) y x)) = PGa vol nz ny nx i y x.
Proof.
  intros vol nz ny nx i y x Hn Hy Hx. unfold PGa.
  apply Nat.ltb_lt in Hy. apply Nat.ltb_lt in Hx.
  destruct oc as [c0|]; cbn [fill0].
  - rewrite Hy, Hx. destruct (i <? nz)%nat; reflexivity.
  - apply Nat.ltb_lt in Hy. apply Nat.ltb_lt in Hx.
    rewrite (pad_index_id ny y Hy), (pad_index_id nx x Hx). unfold pad_index.
    destruct (i <? nz)%nat; reflexivity.
Qed.

Variable fx fy fz : nat.
Hypothesis Hfx : fx = 1%nat \/ fx = 2%nat.
Hypothesis Hfy : fy = 1%nat \/ fy = 2%nat.
Hypothesis Hfz : fz = 1%nat \/ fz = 2%nat.
Variable nz ny nx : nat.
Variable vol : list (list (list A)).
Hypothesis Hvol : rect3 nz ny nx vol.
Hypothesis Hnz : (1 <= nz)%nat.
Hypothesis Hny : (1 <= ny)%nat.
Hypothesis Hnx : (1 <= nx)%nat.

Definition V1a := if (fz =? 2)%nat then hz f oc vol else vol.
Definition V2a := if (fy =? 2)%nat then hy f oc V1a else V1a.
Definition V3a := if (fx =? 2)%nat then hx f oc V2a else V2a.
Definition n1a := cdiv nz fz.
Definition n2a := cdiv ny fy.
Definition n3a := cdiv nx fx.

Definition G0a (z y x : nat) : A := PGa vol nz ny nx z y x.
Definition G1a (z y x : nat) : A :=
  if (fz =? 2)%nat then f (G0a (2 * z) y x) (G0a (2 * z + 1) y x) else G0a z y x.
Definition G2a (z y x : nat) : A :=
  if (fy =? 2)%nat then f (G1a z (2 * y) x) (G1a z (2 * y + 1) x) else G1a z y x.
Definition G3a (z y x : nat) : A :=
  if (fx =? 2)%nat then f (G2a z y (2 * x)) (G2a z y (2 * x + 1)) else G2a z y x.

Lemma V1_recta : rect3 n1a ny nx V1a.
Proof.
  unfold V1a, n1a. destruct Hfz as [-> | ->]; cbn [Nat.eqb].
  rewrite cdiv_1. exact Hvol. apply hz_rect3a. exact Hvol.
Qed.
Lemma V2_recta : rect3 n1a n2a nx V2a.
Proof.
  unfold V2a, n2a. destruct Hfy as [-> | ->]; cbn [Nat.eqb].
  rewrite cdiv_1. exact V1_recta. apply hy_rect3a. exact V1_recta.
Qed.

Lemma n2_posa : (1 <= n2a)%nat.
Proof. unfold n2a. apply (cdiv_lt ny fy 0); lia. Qed.

Lemma oc_casesa : (exists c0, oc = Some c0) \/ oc = None.
Proof. destruct oc; eauto. Qed.

Lemma PG_somea : forall c0, oc = Some c0 -> forall v m1 m2 m3 z y x,
  PGa v m1 m2 m3 z y x = if ((z <? m1) && (y <? m2) && (x <? m3))%nat then g3 v z y x else c0.
Proof. intros c0 E v m1 m2 m3 z y x. unfold PGa. rewrite E. reflexivity. Qed.

Lemma PG_nonea : oc = None -> forall v m1 m2 m3 z y x,
  PGa v m1 m2 m3 z y x = g3 v (pad_index m1 z) (pad_index m2 y) (pad_index m3 x).
Proof. intros E v m1 m2 m3 z y x. unfold PGa. rewrite E. reflexivity. Qed.

Lemma n1_posa : (1 <= n1a)%nat.
Proof. unfold n1a. apply (cdiv_lt nz fz 0); lia. Qed.

(* stage z *)
Lemma C1a : forall z y x, (z < n1a)%nat -> PGa V1a n1a ny nx z y x = G1a z y x.
Proof.
  intros z y x Hz. unfold G1a, V1a, n1a in *. destruct Hfz as [E | E]; rewrite E in *; cbn [Nat.eqb].
  - rewrite cdiv_1 in *. reflexivity.
  - destruct oc_casesa as [[c0 Eo] | Eo].
    + rewrite (PG_somea c0 Eo).
      replace (z <? cdiv nz 2)%nat with true by (symmetry; apply Nat.ltb_lt; exact Hz). cbn [andb].
      destruct ((y <? ny) && (x <? nx))%nat eqn:Eyx.
      * apply andb_prop in Eyx. destruct Eyx as [Ey Ex]. apply Nat.ltb_lt in Ey. apply Nat.ltb_lt in Ex.
        rewrite (hz_get f oc d nz ny nx vol z y x Hvol Hz Ey Ex).
        rewrite !(rd_is_PG_za vol nz ny nx _ y x Hnz Ey Ex). reflexivity.
      * unfold G0a. rewrite !(PG_somea c0 Eo).
        replace (((2 * z <? nz) && (y <? ny) && (x <? nx))%nat) with false
          by (rewrite <- andb_assoc, Eyx, andb_false_r; reflexivity).
        replace (((2 * z + 1 <? nz) && (y <? ny) && (x <? nx))%nat) with false
          by (rewrite <- andb_assoc, Eyx, andb_false_r; reflexivity).
        symmetry. apply (Hsame c0 Eo).
    + rewrite (PG_nonea Eo). rewrite (pad_index_id _ z Hz).
      pose proof (pad_index_lt ny y Hny) as Hy'. pose proof (pad_index_lt nx x Hnx) as Hx'.
      rewrite (hz_get f oc d nz ny nx vol z _ _ Hvol Hz Hy' Hx').
      rewrite !(rd_is_PG_za vol nz ny nx _ _ _ Hnz Hy' Hx').
      unfold G0a. rewrite !(PG_nonea Eo).
      rewrite !(pad_index_id ny (pad_index ny y)), !(pad_index_id nx (pad_index nx x)) by assumption.
      reflexivity.
Qed.

(* the padded read along y of a stage (z and x in range) *)
Lemma rd_is_PG_ya : forall v m1 m2 m3 z i x, (1 <= m2)%nat -> (z < m1)%nat -> (x < m3)%nat ->
  (if (i <? m2)%nat then g3 v z i x else fill0 oc (g3 v z (m2 - 1) x)) = PGa v m1 m2 m3 z i x.
Proof.
  intros v m1 m2 m3 z i x Hn Hz Hx.
  destruct oc_casesa as [[c0 Eo] | Eo].
  - rewrite (PG_somea c0 Eo). rewrite Eo. cbn [fill0].
    apply Nat.ltb_lt in Hz. apply Nat.ltb_lt in Hx. rewrite Hz, Hx. cbn [andb].
    rewrite andb_true_r. destruct (i <? m2)%nat; reflexivity.
  - rewrite (PG_nonea Eo). rewrite Eo. cbn [fill0].
    rewrite (pad_index_id m1 z Hz), (pad_index_id m3 x Hx). unfold pad_index.
    destruct (i <? m2)%nat; reflexivity.
Qed.

Lemma rd_is_PG_xa : forall v m1 m2 m3 z y i, (1 <= m3)%nat -> (z < m1)%nat -> (y < m2)%nat ->
  (if (i <? m3)%nat then g3 v z y i else fill0 oc (g3 v z y (m3 - 1))) = PGa v m1 m2 m3 z y i.
Proof.
  intros v m1 m2 m3 z y i Hn Hz Hy.
  destruct oc_casesa as [[c0 Eo] | Eo].
  - rewrite (PG_somea c0 Eo). rewrite Eo. cbn [fill0].
    apply Nat.ltb_lt in Hz. apply Nat.ltb_lt in Hy. rewrite Hz, Hy. cbn [andb].
    destruct (i <? m3)%nat; reflexivity.
  - rewrite (PG_nonea Eo). rewrite Eo. cbn [fill0].
    rewrite (pad_index_id m1 z Hz), (pad_index_id m2 y Hy). unfold pad_index.
    destruct (i <? m3)%nat; reflexivity.
Qed.

(* stage y *)
Lemma C2a : forall z y x, (z < n1a)%nat -> (y < n2a)%nat -> PGa V2a n1a n2a nx z y x = G2a z y x.
Proof.
  intros z y x Hz Hy. unfold G2a, V2a, n2a in *. destruct Hfy as [E | E]; rewrite E in *; cbn [Nat.eqb].
  - rewrite cdiv_1 in *. apply C1a. exact Hz.
  - destruct oc_casesa as [[c0 Eo] | Eo].
    + rewrite (PG_somea c0 Eo).
      replace (z <? n1a)%nat with true by (symmetry; apply Nat.ltb_lt; exact Hz).
      replace (y <? cdiv ny 2)%nat with true by (symmetry; apply Nat.ltb_lt; exact Hy). cbn [andb].
      destruct (x <? nx)%nat eqn:Ex.
      * apply Nat.ltb_lt in Ex.
        rewrite (hy_get f oc d n1a ny nx V1a z y x V1_recta Hz Hy Ex).
        rewrite !(rd_is_PG_ya V1a n1a ny nx z _ x Hny Hz Ex). rewrite !C1a by exact Hz. reflexivity.
      * rewrite <- !C1a by exact Hz. rewrite !(PG_somea c0 Eo). rewrite Ex, !andb_false_r.
        symmetry. apply (Hsame c0 Eo).
    + rewrite (PG_nonea Eo). rewrite (pad_index_id _ z Hz), (pad_index_id _ y Hy).
      pose proof (pad_index_lt nx x Hnx) as Hx'.
      rewrite (hy_get f oc d n1a ny nx V1a z y _ V1_recta Hz Hy Hx').
      rewrite !(rd_is_PG_ya V1a n1a ny nx z _ _ Hny Hz Hx').
      rewrite <- !C1a by exact Hz. rewrite !(PG_nonea Eo).
      rewrite !(pad_index_id nx (pad_index nx x)) by assumption. reflexivity.
Qed.

(* stage x: the final array *)
Lemma C3a : forall z y x, (z < n1a)%nat -> (y < n2a)%nat -> (x < n3a)%nat -> g3 V3a z y x = G3a z y x.
Proof.
  intros z y x Hz Hy Hx. unfold G3a, V3a, n3a in *. destruct Hfx as [E | E]; rewrite E in *; cbn [Nat.eqb].
  - rewrite cdiv_1 in *. rewrite <- (C2a z y x Hz Hy).
    rewrite <- (rd_is_PG_xa V2a n1a n2a nx z y x Hnx Hz Hy).
    replace (x <? nx)%nat with true by (symmetry; apply Nat.ltb_lt; exact Hx). reflexivity.
  - rewrite (hx_get f oc d n1a n2a nx V2a z y x V2_recta Hz Hy Hx).
    rewrite !(rd_is_PG_xa V2a n1a n2a nx z y _ Hnx Hz Hy). rewrite !C2a by assumption. reflexivity.
Qed.

End ComposeGen.

(* ---- predicates through the pairing tree ------------------------------------ *)

Close Scope Z_scope.

Section Tree.
Context {A : Type} (f : A -> A -> A) (d : A) (oc : option A).
Variable fx fy fz : nat.
Hypothesis Hfx : fx = 1 \/ fx = 2.
Hypothesis Hfy : fy = 1 \/ fy = 2.
Hypothesis Hfz : fz = 1 \/ fz = 2.
Variable nz ny nx : nat.
Variable vol : list (list (list A)).

Notation G0 := (G0a d oc nz ny nx vol).
Notation G1 := (G1a f d oc fz nz ny nx vol).
Notation G2 := (G2a f d oc fy fz nz ny nx vol).
Notation G3 := (G3a f d oc fx fy fz nz ny nx vol).

(* P is closed under the averaging function: all contributors in P => result in P *)
Variable P : A -> Prop.
Hypothesis Pf : forall a b, P a -> P b -> P (f a b).

Lemma tree_all : forall z y x,
  (forall dz dy dx, dz < fz -> dy < fy -> dx < fx -> P (G0 (z * fz + dz) (y * fy + dy) (x * fx + dx))) ->
  P (G3 z y x).
Proof.
  intros z y x H.
  assert (L1 : forall y' x', (forall dz, dz < fz -> P (G0 (z * fz + dz) y' x')) -> P (G1 z y' x')).
  { intros y' x' H1. unfold G1a. destruct Hfz as [E | E]; rewrite E in *; cbn [Nat.eqb].
    - specialize (H1 0 ltac:(lia)). rewrite Nat.mul_1_r, Nat.add_0_r in H1. exact H1.
    - apply Pf.
      + specialize (H1 0 ltac:(lia)). replace (z * 2 + 0) with (2 * z) in H1 by lia. exact H1.
      + specialize (H1 1 ltac:(lia)). replace (z * 2 + 1) with (2 * z + 1) in H1 by lia. exact H1. }
  assert (L2 : forall x', (forall dy, dy < fy -> P (G1 z (y * fy + dy) x')) -> P (G2 z y x')).
  { intros x' H2. unfold G2a. destruct Hfy as [E | E]; rewrite E in *; cbn [Nat.eqb].
    - specialize (H2 0 ltac:(lia)). rewrite Nat.mul_1_r, Nat.add_0_r in H2. exact H2.
    - apply Pf.
      + specialize (H2 0 ltac:(lia)). replace (y * 2 + 0) with (2 * y) in H2 by lia. exact H2.
      + specialize (H2 1 ltac:(lia)). replace (y * 2 + 1) with (2 * y + 1) in H2 by lia. exact H2. }
  assert (L3 : (forall dx, dx < fx -> P (G2 z y (x * fx + dx))) -> P (G3 z y x)).
  { intros H3. unfold G3a. destruct Hfx as [E | E]; rewrite E in *; cbn [Nat.eqb].
    - specialize (H3 0 ltac:(lia)). rewrite Nat.mul_1_r, Nat.add_0_r in H3. exact H3.
    - apply Pf.
      + specialize (H3 0 ltac:(lia)). replace (x * 2 + 0) with (2 * x) in H3 by lia. exact H3.
      + specialize (H3 1 ltac:(lia)). replace (x * 2 + 1) with (2 * x + 1) in H3 by lia. exact H3. }
  apply L3. intros dx Hdx. apply L2. intros dy Hdy. apply L1. intros dz Hdz. apply H; assumption.
Qed.

(* Q is absorbing: one contributor in Q => result in Q *)
Variable Q : A -> Prop.
Hypothesis Qf : forall a b, Q a \/ Q b -> Q (f a b).

Lemma tree_any : forall z y x,
  (exists dz dy dx, dz < fz /\ dy < fy /\ dx < fx /\ Q (G0 (z * fz + dz) (y * fy + dy) (x * fx + dx))) ->
  Q (G3 z y x).
Proof.
  intros z y x (dz & dy & dx & Hdz & Hdy & Hdx & H).
  assert (L1 : Q (G1 z (y * fy + dy) (x * fx + dx))).
  { unfold G1a. destruct Hfz as [E | E]; rewrite E in *; cbn [Nat.eqb].
    - replace dz with 0 in H by lia. rewrite Nat.mul_1_r, Nat.add_0_r in H. exact H.
    - apply Qf. assert (dz = 0 \/ dz = 1) as [-> | ->] by lia.
      + left. replace (2 * z) with (z * 2 + 0) by lia. exact H.
      + right. replace (2 * z + 1) with (z * 2 + 1) by lia. exact H. }
  assert (L2 : Q (G2 z y (x * fx + dx))).
  { unfold G2a. destruct Hfy as [E | E]; rewrite E in *; cbn [Nat.eqb].
    - replace dy with 0 in L1 by lia. rewrite Nat.mul_1_r, Nat.add_0_r in L1. exact L1.
    - apply Qf. assert (dy = 0 \/ dy = 1) as [-> | ->] by lia.
      + left. replace (2 * y) with (y * 2 + 0) by lia. exact L1.
      + right. replace (2 * y + 1) with (y * 2 + 1) by lia. exact L1. }
  unfold G3a. destruct Hfx as [E | E]; rewrite E in *; cbn [Nat.eqb].
  - replace dx with 0 in L2 by lia. rewrite Nat.mul_1_r, Nat.add_0_r in L2. exact L2.
  - apply Qf. assert (dx = 0 \/ dx = 1) as [-> | ->] by lia.
    + left. replace (2 * x) with (x * 2 + 0) by lia. exact L2.
    + right. replace (2 * x + 1) with (x * 2 + 1) by lia. exact L2.
Qed.

End Tree.

(* ---- float64 averaging and the float32 path ----------------------------------- *)

Lemma favg_inf : forall s, favg (S754_infinity s) (S754_infinity s) = S754_infinity s.
Proof. intros [|]; vm_compute; reflexivity. Qed.

Lemma favg_nan : forall a b, a = S754_nan \/ b = S754_nan -> favg a b = S754_nan.
Proof.
  intros a b [-> | ->]; unfold favg, fadd, fmul.
  - reflexivity.
  - destruct a; reflexivity.
Qed.

Lemma favg_inf_opposite : forall s, favg (S754_infinity s) (S754_infinity (negb s)) = S754_nan.
Proof. intros [|]; vm_compute; reflexivity. Qed.

Lemma avg_gen_vol_gen : forall A (f : A -> A -> A) oc fx fy fz (a : arr4 A),
  avg_gen f oc fx fy fz a = map (V3a f oc fx fy fz) a.
Proof.
  intros A f oc fx fy fz a. unfold avg_gen, V3a, V2a, V1a, halve_x, halve_y, halve_z, hx, hy, hz.
  destruct (fz =? 2); destruct (fy =? 2); destruct (fx =? 2);
    rewrite ?map_map; try reflexivity; symmetry; apply map_id.
Qed.

Definition fzero : spec_float := S754_zero false.

(* the float64 contributors of output voxel (c, z, y, x): padded reads of the
   chunk converted to float64 *)
Definition contributor (o : option spec_float) (nz ny nx : nat) (a : arr4 num) (c : nat)
           (z y x : nat) : spec_float :=
  PGa fzero o (nth c (map4 to_f64 a) []) nz ny nx z y x.

(* C07, non-finite voxels on the float32 path (float32 -> float64, pairwise
   averaging, float64 -> float32): if all contributors of a voxel are the same
   infinity, the voxel is that infinity; if one of them is NaN, it is NaN. *)
Theorem average_nonfinite : forall o fs nc nz ny nx (a : arr4 num) c z y x,
  check_factors_avg fs = true -> rect4 nc nz ny nx a ->
  (forall c0, o = Some c0 -> favg c0 c0 = c0) ->
  c < nc -> z < cdiv nz (fac fs 2) -> y < cdiv ny (fac fs 1) -> x < cdiv nx (fac fs 0) ->
  exists out, avg_model F32 o fs a = Ok out /\
    (forall s,
       (forall dz dy dx, dz < fac fs 2 -> dy < fac fs 1 -> dx < fac fs 0 ->
          contributor o nz ny nx a c (z * fac fs 2 + dz) (y * fac fs 1 + dy) (x * fac fs 0 + dx)
          = S754_infinity s) ->
       get4 (NI 0%Z) out c z y x = NF (S754_infinity s)) /\
    ((exists dz dy dx, dz < fac fs 2 /\ dy < fac fs 1 /\ dx < fac fs 0 /\
          contributor o nz ny nx a c (z * fac fs 2 + dz) (y * fac fs 1 + dy) (x * fac fs 0 + dx)
          = S754_nan) ->
       get4 (NI 0%Z) out c z y x = NF S754_nan).
Proof.
  intros o fs nc nz ny nx a c z y x Hf Hr Hsame Hc Hz Hy Hx.
  destruct (check_factors_avg_fac fs Hf) as (Hfx & Hfy & Hfz).
  set (fx := fac fs 0) in *. set (fy := fac fs 1) in *. set (fz := fac fs 2) in *.
  unfold avg_model. rewrite Hf. cbn [negb promote dtype_eqb can_cast_safe andb].
  eexists. split. reflexivity.
  set (M := map4 to_f64 a).
  assert (HrM : rect4 nc nz ny nx M) by (apply map4_rect; exact Hr).
  set (W := avg_f64 o (fac fs 0) (fac fs 1) (fac fs 2) M).
  assert (HrW : rect4 nc (cdiv nz fz) (cdiv ny fy) (cdiv nx fx) W)
    by (apply avg_gen_rect; assumption).
  assert (Hf1 : forall k, k = 1 \/ k = 2 -> 1 <= k) by (intros ? [-> | ->]; lia).
  pose proof (cdiv_pos nz fz z (Hf1 _ Hfz) Hz) as Pz.
  pose proof (cdiv_pos ny fy y (Hf1 _ Hfy) Hy) as Py.
  pose proof (cdiv_pos nx fx x (Hf1 _ Hfx) Hx) as Px.
  set (vol := nth c M []).
  assert (Hvol : rect3 nz ny nx vol) by (apply (rect4_vol _ nc); assumption).
  assert (EG : get4 fzero W c z y x = G3a favg fzero o fx fy fz nz ny nx vol z y x).
  { unfold W, avg_f64. rewrite avg_gen_vol_gen. unfold get4.
    assert (Em : nth c (map (V3a favg o fx fy fz) M) [] = V3a favg o fx fy fz vol).
    { rewrite (nth_indep _ [] (V3a favg o fx fy fz [])) by (rewrite map_length; destruct HrM as [L _]; lia).
      apply map_nth. }
    fold fx fy fz. rewrite Em.
    apply (C3a favg fzero o Hsame fx fy fz Hfx Hfy Hfz nz ny nx vol Hvol Pz Py Px z y x Hz Hy Hx). }
  rewrite (get4_map4 _ _ (fun x0 => convert_scalar F64 F32 (NF x0)) fzero (NI 0%Z) _ _ _ _ W c z y x HrW Hc Hz Hy Hx).
  rewrite EG. split.
  - intros s Hall.
    assert (E : G3a favg fzero o fx fy fz nz ny nx vol z y x = S754_infinity s).
    { apply (tree_all favg fzero o fx fy fz Hfx Hfy Hfz nz ny nx vol (fun v => v = S754_infinity s)).
      - intros a0 b0 -> ->. apply favg_inf.
      - exact Hall. }
    rewrite E. reflexivity.
  - intros Hex.
    assert (E : G3a favg fzero o fx fy fz nz ny nx vol z y x = S754_nan).
    { apply (tree_any favg fzero o fx fy fz Hfx Hfy Hfz nz ny nx vol (fun _ => True) (fun _ _ _ _ => I)
               (fun v => v = S754_nan)).
      - intros a0 b0 H. apply favg_nan. exact H.
      - exact Hex. }
    rewrite E. reflexivity.
Qed.

(* reading the chunk: float32 infinities and NaN are infinities and NaN in float64,
   and the final float64 -> float32 conversion keeps them (C11) *)
Lemma to_f64_nonfinite : forall x, FloatModel.is_finite x = false -> to_f64 (NF x) = x.
Proof. intros [s|s| |s m e] H; try discriminate H; reflexivity. Qed.

Example average_nonfinite_example :
  avg_model F32 None [2; 2; 1]%Z
    [[[[NF (S754_infinity false); NF (S754_infinity false); NF (S754_infinity true)];
       [NF (S754_infinity false); NF (S754_infinity false); NF (S754_infinity false)]]]]
  = Ok [[[[NF (S754_infinity false); NF S754_nan]]]]
  /\ avg_model F32 (Some (of_Z b64 255)) [2; 1; 1]%Z [[[[NF (S754_infinity true)]]]]
     = Ok [[[[NF (S754_infinity true)]]]]
  /\ favg (of_Z b64 255) (of_Z b64 255) = of_Z b64 255.
Proof. repeat split; vm_compute; reflexivity. Qed.
