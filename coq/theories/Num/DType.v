(* NumPy scalar types handled by data_types.get_chunk_dtype_transformer and the
   downscalers: the ten native input types and (as a subset) the five
   Neuroglancer output types.  The promotion and safe-cast tables are written
   out entry by entry; harness/props/c11.py re-validates all 10x10 entries of
   both tables against the live NumPy on every run (table tie). *)
From Coq Require Import ZArith List String Bool.
Import ListNotations.
Open Scope Z_scope.

Inductive dtype : Type := I8 | I16 | I32 | I64 | U8 | U16 | U32 | U64 | F32 | F64.

Definition all_dtypes : list dtype := [I8; I16; I32; I64; U8; U16; U32; U64; F32; F64].
(* data_types.NG_DATA_TYPES *)
Definition ng_dtypes : list dtype := [U8; U16; U32; U64; F32].

Definition dtype_eqb (a b : dtype) : bool :=
  match a, b with
  | I8, I8 | I16, I16 | I32, I32 | I64, I64 | U8, U8 | U16, U16 | U32, U32 | U64, U64
  | F32, F32 | F64, F64 => true
  | _, _ => false
  end.

(* np.issubdtype(dt, np.integer) *)
Definition is_int (d : dtype) : bool :=
  match d with F32 | F64 => false | _ => true end.
Definition is_signed (d : dtype) : bool :=
  match d with I8 | I16 | I32 | I64 => true | _ => false end.
Definition is_ng (d : dtype) : bool :=
  match d with U8 | U16 | U32 | U64 | F32 => true | _ => false end.

(* width in bits of the integer types (0 for floats) *)
Definition ibits (d : dtype) : Z :=
  match d with
  | I8 | U8 => 8 | I16 | U16 => 16 | I32 | U32 => 32 | I64 | U64 => 64
  | F32 | F64 => 0
  end.

(* np.iinfo(d).min / .max (0 for the float types, where they are not used) *)
Definition imin (d : dtype) : Z :=
  if is_int d then (if is_signed d then - 2 ^ (ibits d - 1) else 0) else 0.
Definition imax (d : dtype) : Z :=
  if is_int d then (if is_signed d then 2 ^ (ibits d - 1) - 1 else 2 ^ ibits d - 1) else 0.

Definition in_range (d : dtype) (z : Z) : Prop := imin d <= z <= imax d.
Definition in_rangeb (d : dtype) (z : Z) : bool := (imin d <=? z) && (z <=? imax d).

(* C integer conversion to an integer type: reduction modulo 2^bits into the
   type's range (what astype(casting="unsafe") does between integer types). *)
Definition wrap (d : dtype) (z : Z) : Z :=
  let m := 2 ^ ibits d in
  let r := z mod m in
  if is_signed d then (if 2 ^ (ibits d - 1) <=? r then r - m else r) else r.

(* saturation into the range of an integer type: the specification's notion *)
Definition clamp (d : dtype) (z : Z) : Z := Z.max (imin d) (Z.min (imax d) z).

(* np.promote_types, all 100 entries *)
Definition promote (a b : dtype) : dtype :=
  match a, b with
  | I8, I8 => I8 | I8, I16 => I16 | I8, I32 => I32 | I8, I64 => I64 | I8, U8 => I16 | I8, U16 => I32 | I8, U32 => I64 | I8, U64 => F64 | I8, F32 => F32 | I8, F64 => F64
  | I16, I8 => I16 | I16, I16 => I16 | I16, I32 => I32 | I16, I64 => I64 | I16, U8 => I16 | I16, U16 => I32 | I16, U32 => I64 | I16, U64 => F64 | I16, F32 => F32 | I16, F64 => F64
  | I32, I8 => I32 | I32, I16 => I32 | I32, I32 => I32 | I32, I64 => I64 | I32, U8 => I32 | I32, U16 => I32 | I32, U32 => I64 | I32, U64 => F64 | I32, F32 => F64 | I32, F64 => F64
  | I64, I8 => I64 | I64, I16 => I64 | I64, I32 => I64 | I64, I64 => I64 | I64, U8 => I64 | I64, U16 => I64 | I64, U32 => I64 | I64, U64 => F64 | I64, F32 => F64 | I64, F64 => F64
  | U8, I8 => I16 | U8, I16 => I16 | U8, I32 => I32 | U8, I64 => I64 | U8, U8 => U8 | U8, U16 => U16 | U8, U32 => U32 | U8, U64 => U64 | U8, F32 => F32 | U8, F64 => F64
  | U16, I8 => I32 | U16, I16 => I32 | U16, I32 => I32 | U16, I64 => I64 | U16, U8 => U16 | U16, U16 => U16 | U16, U32 => U32 | U16, U64 => U64 | U16, F32 => F32 | U16, F64 => F64
  | U32, I8 => I64 | U32, I16 => I64 | U32, I32 => I64 | U32, I64 => I64 | U32, U8 => U32 | U32, U16 => U32 | U32, U32 => U32 | U32, U64 => U64 | U32, F32 => F64 | U32, F64 => F64
  | U64, I8 => F64 | U64, I16 => F64 | U64, I32 => F64 | U64, I64 => F64 | U64, U8 => U64 | U64, U16 => U64 | U64, U32 => U64 | U64, U64 => U64 | U64, F32 => F64 | U64, F64 => F64
  | F32, I8 => F32 | F32, I16 => F32 | F32, I32 => F64 | F32, I64 => F64 | F32, U8 => F32 | F32, U16 => F32 | F32, U32 => F64 | F32, U64 => F64 | F32, F32 => F32 | F32, F64 => F64
  | F64, I8 => F64 | F64, I16 => F64 | F64, I32 => F64 | F64, I64 => F64 | F64, U8 => F64 | F64, U16 => F64 | F64, U32 => F64 | F64, U64 => F64 | F64, F32 => F64 | F64, F64 => F64
  end.

(* np.can_cast(a, b, casting="safe"), all 100 entries *)
Definition can_cast_safe (a b : dtype) : bool :=
  match a, b with
  | I8, I8 => true | I8, I16 => true | I8, I32 => true | I8, I64 => true | I8, U8 => false | I8, U16 => false | I8, U32 => false | I8, U64 => false | I8, F32 => true | I8, F64 => true
  | I16, I8 => false | I16, I16 => true | I16, I32 => true | I16, I64 => true | I16, U8 => false | I16, U16 => false | I16, U32 => false | I16, U64 => false | I16, F32 => true | I16, F64 => true
  | I32, I8 => false | I32, I16 => false | I32, I32 => true | I32, I64 => true | I32, U8 => false | I32, U16 => false | I32, U32 => false | I32, U64 => false | I32, F32 => false | I32, F64 => true
  | I64, I8 => false | I64, I16 => false | I64, I32 => false | I64, I64 => true | I64, U8 => false | I64, U16 => false | I64, U32 => false | I64, U64 => false | I64, F32 => false | I64, F64 => true
  | U8, I8 => false | U8, I16 => true | U8, I32 => true | U8, I64 => true | U8, U8 => true | U8, U16 => true | U8, U32 => true | U8, U64 => true | U8, F32 => true | U8, F64 => true
  | U16, I8 => false | U16, I16 => false | U16, I32 => true | U16, I64 => true | U16, U8 => false | U16, U16 => true | U16, U32 => true | U16, U64 => true | U16, F32 => true | U16, F64 => true
  | U32, I8 => false | U32, I16 => false | U32, I32 => false | U32, I64 => true | U32, U8 => false | U32, U16 => false | U32, U32 => true | U32, U64 => true | U32, F32 => false | U32, F64 => true
  | U64, I8 => false | U64, I16 => false | U64, I32 => false | U64, I64 => false | U64, U8 => false | U64, U16 => false | U64, U32 => false | U64, U64 => true | U64, F32 => false | U64, F64 => true
  | F32, I8 => false | F32, I16 => false | F32, I32 => false | F32, I64 => false | F32, U8 => false | F32, U16 => false | F32, U32 => false | F32, U64 => false | F32, F32 => true | F32, F64 => true
  | F64, I8 => false | F64, I16 => false | F64, I32 => false | F64, I64 => false | F64, U8 => false | F64, U16 => false | F64, U32 => false | F64, U64 => false | F64, F32 => false | F64, F64 => true
  end.

Definition dtype_name (d : dtype) : string :=
  match d with
  | I8 => "int8" | I16 => "int16" | I32 => "int32" | I64 => "int64"
  | U8 => "uint8" | U16 => "uint16" | U32 => "uint32" | U64 => "uint64"
  | F32 => "float32" | F64 => "float64"
  end%string.

Definition dtype_of_name (s : string) : option dtype :=
  find (fun d => String.eqb (dtype_name d) s) all_dtypes.
