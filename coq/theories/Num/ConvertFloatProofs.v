(* Proofs about the floating-point part of the dtype transformer model:
   float -> unsigned integer is "round half to even, then saturate" outside the
   uint64 top region; float64 -> float32 is Flocq's round-to-nearest-even.
   Uses FloatBridge.v (Flocq), hence Coq's real-number axioms. *)
From Coq Require Import ZArith QArith Reals Psatz Bool List Lia.
From Coq Require Import SpecFloat.
From Flocq Require Import Core BinarySingleNaN.
From NGS Require Import DType FloatModel Convert ConvertProofs FloatBridge.
Import ListNotations.
Close Scope Q_scope.
Close Scope R_scope.
Open Scope Z_scope.

(* ---- integer / rational rounding lemmas --------------------------------- *)

Lemma div_mod_opp : forall n d, 0 < d ->
  ((- n) / d = if n mod d =? 0 then - (n / d) else - (n / d) - 1) /\
  ((- n) mod d = if n mod d =? 0 then 0 else d - n mod d).
Proof.
  intros n d Hd.
  pose proof (Z.div_mod n d ltac:(lia)) as E.
  pose proof (Z.mod_pos_bound n d Hd) as B.
  destruct (n mod d =? 0) eqn:Er.
  - apply Z.eqb_eq in Er. split.
    + symmetry. apply (Z.div_unique (- n) d (- (n / d)) 0); lia.
    + symmetry. apply (Z.mod_unique (- n) d (- (n / d)) 0); lia.
  - apply Z.eqb_neq in Er. split.
    + symmetry. apply (Z.div_unique (- n) d (- (n / d) - 1) (d - n mod d)); lia.
    + symmetry. apply (Z.mod_unique (- n) d (- (n / d) - 1) (d - n mod d)); lia.
Qed.

Lemma even_opp_pred : forall q, Z.even (- q - 1) = negb (Z.even q).
Proof.
  intros q. replace (- q - 1) with (- (q + 1)) by lia. rewrite Z.even_opp.
  rewrite Z.add_1_r, Z.even_succ. rewrite <- Z.negb_even. reflexivity.
Qed.

Lemma rhe_Q_opp : forall n d, rhe_Q (Qmake (- n) d) = - rhe_Q (Qmake n d).
Proof.
  intros n d. unfold rhe_Q. cbn [Qnum Qden].
  destruct (div_mod_opp n (Zpos d) ltac:(lia)) as [Hq Hr]. rewrite Hq, Hr.
  pose proof (Z.mod_pos_bound n (Zpos d) ltac:(lia)) as B.
  destruct (n mod Zpos d =? 0) eqn:Er.
  - apply Z.eqb_eq in Er. rewrite Er.
    replace (2 * 0 ?= Zpos d) with Lt by (symmetry; apply Z.compare_lt_iff; lia). reflexivity.
  - apply Z.eqb_neq in Er.
    destruct (Z.compare_spec (2 * (n mod Zpos d)) (Zpos d)) as [He|Hl|Hg].
    + replace (2 * (Zpos d - n mod Zpos d) ?= Zpos d) with Eq
        by (symmetry; apply Z.compare_eq_iff; lia).
      rewrite even_opp_pred. destruct (Z.even (n / Zpos d)); cbn [negb]; lia.
    + replace (2 * (Zpos d - n mod Zpos d) ?= Zpos d) with Gt
        by (symmetry; apply Z.compare_gt_iff; lia). lia.
    + replace (2 * (Zpos d - n mod Zpos d) ?= Zpos d) with Lt
        by (symmetry; apply Z.compare_lt_iff; lia). lia.
Qed.

Lemma rhe_Q_inject : forall z, rhe_Q (inject_Z z) = z.
Proof.
  intros z. unfold rhe_Q, inject_Z. cbn [Qnum Qden].
  rewrite Z.div_1_r, Z.mod_1_r. reflexivity.
Qed.

Lemma rhe_shift_Q : forall m k, 0 <= m -> 0 < k ->
  rhe_Q (Qmake m (Z.to_pos (2 ^ k))) = rhe_shift m k.
Proof.
  intros m k Hm Hk. unfold rhe_Q, rhe_shift. cbn [Qnum Qden].
  assert (Hd : 0 < 2 ^ k) by (apply Z.pow_pos_nonneg; lia).
  rewrite Z2Pos.id by exact Hd.
  assert (Hh : 2 ^ k = 2 * 2 ^ (k - 1)).
  { replace k with (1 + (k - 1)) at 1 by lia. rewrite Z.pow_add_r by lia. reflexivity. }
  set (d := 2 ^ k) in *. set (h := 2 ^ (k - 1)) in *.
  pose proof (Z.mod_pos_bound m d Hd) as B.
  destruct (Z.compare_spec (2 * (m mod d)) d) as [He|Hl|Hg].
  - replace (m mod d <? h) with false by (symmetry; apply Z.ltb_ge; lia).
    replace (h <? m mod d) with false by (symmetry; apply Z.ltb_ge; lia). reflexivity.
  - replace (m mod d <? h) with true by (symmetry; apply Z.ltb_lt; lia). reflexivity.
  - replace (m mod d <? h) with false by (symmetry; apply Z.ltb_ge; lia).
    replace (h <? m mod d) with true by (symmetry; apply Z.ltb_lt; lia). reflexivity.
Qed.

Lemma rhe_shift_bounds : forall m k, 0 <= m -> 0 < k -> 0 <= rhe_shift m k <= m / 2 ^ k + 1.
Proof.
  intros m k Hm Hk. unfold rhe_shift.
  assert (Hd : 0 < 2 ^ k) by (apply Z.pow_pos_nonneg; lia).
  pose proof (Z.div_pos m (2 ^ k) Hm Hd).
  repeat match goal with |- context [if ?c then _ else _] => destruct c end; lia.
Qed.

(* rounding of the exact value of a finite float, in terms of its fields *)
Lemma rhe_dyadic : forall s m e, e < 0 ->
  rhe_Q (dyadicQ (cond_Zopp s (Zpos m)) e) = cond_Zopp s (rhe_shift (Zpos m) (- e)).
Proof.
  intros s m e He. unfold dyadicQ.
  replace (0 <=? e) with false by (symmetry; apply Z.leb_gt; exact He).
  destruct s; cbn [cond_Zopp].
  - rewrite rhe_Q_opp. rewrite rhe_shift_Q by lia. reflexivity.
  - apply rhe_shift_Q; lia.
Qed.

(* ---- float-level lemmas, any format --------------------------------------- *)

Section AnyFormat.

Variable prec emax : Z.
Context (Hprec : Prec_gt_0 prec).
Context (Hmax : Prec_lt_emax prec emax).
Hypothesis Hemin0 : SpecFloat.emin prec emax <= 0.

Notation Val := (Val prec emax).
Notation Rep := (Rep prec emax).
Notation F := {| f_prec := prec; f_emax := emax |}.

Lemma Val_trunc : forall x n, Val x (IZR n) -> to_Z_trunc x = Some n.
Proof.
  intros x n (Hv & Hf & Hr). destruct x as [s|s| |s m e]; try discriminate Hf.
  - cbn in Hr. apply eq_IZR in Hr. cbn. congruence.
  - cbn [to_Z_trunc]. f_equal. cbn [SF2R] in Hr. unfold F2R in Hr. cbn [Fnum Fexp] in Hr.
    destruct (0 <=? e) eqn:Ee.
    + apply Z.leb_le in Ee. rewrite <- IZR_Zpower in Hr by exact Ee.
      rewrite <- mult_IZR in Hr. apply eq_IZR in Hr. cbn [radix_val radix2] in Hr.
      rewrite <- Hr. destruct s; cbn [cond_Zopp]; lia.
    + apply Z.leb_gt in Ee.
      assert (Hk : IZR (cond_Zopp s (Zpos m)) = IZR (n * 2 ^ (- e))).
      { rewrite mult_IZR. rewrite (IZR_Zpower radix2) by lia. rewrite <- Hr.
        rewrite Rmult_assoc, <- bpow_plus. replace (e + - e) with 0 by lia. cbn. ring. }
      apply eq_IZR in Hk.
      assert (Hd : 0 < 2 ^ (- e)) by (apply Z.pow_pos_nonneg; lia).
      destruct s; cbn [cond_Zopp] in *.
      * replace (Zpos m) with ((- n) * 2 ^ (- e)) by lia. rewrite Z.div_mul by lia. lia.
      * rewrite Hk. rewrite Z.div_mul by lia. reflexivity.
Qed.

Lemma valid_mantissa_lt : forall s m e,
  valid_binary prec emax (S754_finite s m e) = true ->
  Zpos m < 2 ^ prec /\ SpecFloat.emin prec emax <= e /\ e <= emax - prec.
Proof.
  intros s m e H. cbn [valid_binary] in H. unfold bounded in H.
  apply andb_prop in H. destruct H as [Hc Hb].
  apply Z.leb_le in Hb. unfold canonical_mantissa in Hc. apply Zeq_bool_eq in Hc.
  unfold SpecFloat.fexp in Hc.
  assert (Hp : 0 < prec) by apply Hprec.
  split; [|split; [lia | exact Hb]].
  rewrite Zpos_digits2_pos in Hc.
  pose proof (Zdigits_correct radix2 (Zpos m)) as [_ Hu].
  rewrite Z.abs_eq in Hu by lia.
  apply Z.lt_le_trans with (1 := Hu). change (Zpower radix2 ?a) with (2 ^ a).
  apply Z.pow_le_mono_r; lia.
Qed.

Lemma SF2R_SF2Q_int : forall s m e, 0 <= e ->
  SF2R radix2 (S754_finite s m e) = IZR (cond_Zopp s (Zpos m) * 2 ^ e).
Proof.
  intros s m e He. cbn [SF2R]. unfold F2R. cbn [Fnum Fexp].
  rewrite mult_IZR, (IZR_Zpower radix2) by exact He. reflexivity.
Qed.

(* np.rint *)
Lemma rint_Val : forall x, valid_binary prec emax x = true -> is_finite x = true ->
  Val (rint F x) (IZR (rhe_Q (SF2Q x))).
Proof.
  intros x Hv Hf. destruct x as [s|s| |s m e]; try discriminate Hf.
  - cbn [rint SF2Q]. split; [exact Hv | split; [reflexivity | reflexivity]].
  - cbn [rint SF2Q]. destruct (0 <=? e) eqn:Ee.
    + apply Z.leb_le in Ee. split; [exact Hv | split; [reflexivity|]].
      rewrite SF2R_SF2Q_int by exact Ee. unfold dyadicQ.
      replace (0 <=? e) with true by (symmetry; apply Z.leb_le; exact Ee).
      rewrite rhe_Q_inject. reflexivity.
    + apply Z.leb_gt in Ee. rewrite rhe_dyadic by exact Ee.
      destruct (valid_mantissa_lt s m e Hv) as (Hm & He1 & He2).
      pose proof (rhe_shift_bounds (Zpos m) (- e) ltac:(lia) ltac:(lia)) as Hb.
      destruct (rhe_shift (Zpos m) (- e) =? 0) eqn:En.
      * apply Z.eqb_eq in En. rewrite En.
        replace (cond_Zopp s 0) with 0 by (destruct s; reflexivity).
        split; [reflexivity | split; reflexivity].
      * apply Z.eqb_neq in En. unfold fnorm. cbn [f_prec f_emax].
        set (n := cond_Zopp s (rhe_shift (Zpos m) (- e))).
        assert (Hn : Z.abs n < 2 ^ prec).
        { unfold n. rewrite abs_cond_Zopp. rewrite Z.abs_eq by lia.
          assert (Zpos m / 2 ^ (- e) < 2 ^ (prec - 1)).
          { apply Z.div_lt_upper_bound. apply Z.pow_pos_nonneg; lia.
            apply Z.lt_le_trans with (1 := Hm).
            replace prec with ((prec - 1) + 1) at 1 by lia.
            assert (Hp : 0 < prec) by apply Hprec.
            rewrite Z.pow_add_r by lia.
            assert (2 ^ 1 <= 2 ^ (- e)) by (apply Z.pow_le_mono_r; lia).
            assert (0 < 2 ^ (prec - 1)) by (apply Z.pow_pos_nonneg; lia). nia. }
          assert (Hp : 0 < prec) by apply Hprec.
          assert (2 ^ prec = 2 * 2 ^ (prec - 1)).
          { replace prec with (1 + (prec - 1)) at 1 by lia. rewrite Z.pow_add_r by lia. reflexivity. }
          assert (0 < 2 ^ (prec - 1)) by (apply Z.pow_pos_nonneg; lia). lia. }
        assert (Hrep : representable prec emax (F2R (Float radix2 n 0))).
        { apply representable_F2R; try assumption. pose proof Hmax. unfold Prec_lt_emax in *. lia. }
        pose proof (fnorm_Rep prec emax Hprec Hmax n 0 Hrep) as [HV _].
        replace (IZR n) with (F2R (Float radix2 n 0)). exact HV.
        unfold F2R. cbn. ring.
Qed.

(* of_Z on small integers *)
Lemma of_Z_Rep : forall z, Z.abs z < 2 ^ prec -> Rep (of_Z F z) (IZR z).
Proof.
  intros z Hz. unfold of_Z, fnorm. cbn [f_prec f_emax].
  replace (IZR z) with (F2R (Float radix2 z 0)) by (unfold F2R; cbn; ring).
  apply (fnorm_Rep prec emax Hprec Hmax). apply representable_F2R; try assumption.
  pose proof Hmax. unfold Prec_lt_emax in *. lia.
Qed.

(* one element through np.clip with float bounds of integral value *)
Lemma clip_Val : forall y n flo fhi lo hi,
  Val y (IZR n) -> Val flo (IZR lo) -> Val fhi (IZR hi) ->
  exists y', (if is_nan y then NF y
              else NF (if fltb fhi (if fltb y flo then flo else y) then fhi
                       else (if fltb y flo then flo else y))) = NF y' /\
             Val y' (IZR (Z.min (Z.max n lo) hi)).
Proof.
  intros y n flo fhi lo hi Hy Hlo Hhi.
  assert (Hn : is_nan y = false).
  { destruct Hy as (_ & Hf & _). destruct y; try discriminate Hf; reflexivity. }
  rewrite Hn. unfold fltb.
  rewrite (fltb_Val prec emax y flo _ _ Hy Hlo).
  destruct (Rlt_bool_spec (IZR n) (IZR lo)) as [H1|H1].
  - apply lt_IZR in H1.
    rewrite (fltb_Val prec emax fhi flo _ _ Hhi Hlo).
    destruct (Rlt_bool_spec (IZR hi) (IZR lo)) as [H2|H2].
    + apply lt_IZR in H2. eexists. split. reflexivity.
      replace (Z.min (Z.max n lo) hi) with hi by lia. exact Hhi.
    + apply le_IZR in H2. eexists. split. reflexivity.
      replace (Z.min (Z.max n lo) hi) with lo by lia. exact Hlo.
  - apply le_IZR in H1.
    rewrite (fltb_Val prec emax fhi y _ _ Hhi Hy).
    destruct (Rlt_bool_spec (IZR hi) (IZR n)) as [H2|H2].
    + apply lt_IZR in H2. eexists. split. reflexivity.
      replace (Z.min (Z.max n lo) hi) with hi by lia. exact Hhi.
    + apply le_IZR in H2. eexists. split. reflexivity.
      replace (Z.min (Z.max n lo) hi) with n by lia. exact Hy.
Qed.

End AnyFormat.

(* ---- conversion between formats ------------------------------------------- *)

Section TwoFormats.

Variable p1 e1 p2 e2 : Z.
Context (Hp1 : Prec_gt_0 p1).
Context (Hp2 : Prec_gt_0 p2).
Context (Hm2 : Prec_lt_emax p2 e2).
Hypothesis Hpp : p1 <= p2.
Hypothesis Hemin : SpecFloat.emin p2 e2 <= SpecFloat.emin p1 e1.
Hypothesis Hemax : e1 - p1 + p2 <= e2.

(* widening (or same-format) conversion is exact *)
Lemma fconv_Val : forall x, valid_binary p1 e1 x = true -> is_finite x = true ->
  Val p2 e2 (fconv {| f_prec := p2; f_emax := e2 |} x) (SF2R radix2 x).
Proof.
  intros x Hv Hf. destruct x as [s|s| |s m e]; try discriminate Hf.
  - cbn [fconv]. split; [reflexivity | split; reflexivity].
  - cbn [fconv]. unfold fnorm. cbn [f_prec f_emax].
    destruct (valid_mantissa_lt p1 e1 Hp1 s m e Hv) as (Hm & He1 & He2).
    assert (Hrep : representable p2 e2 (F2R (Float radix2 (cond_Zopp s (Zpos m)) e))).
    { apply (representable_F2R p2 e2 Hp2).
      - rewrite abs_cond_Zopp. rewrite Z.abs_eq by lia.
        apply Z.lt_le_trans with (1 := Hm). apply Z.pow_le_mono_r; try lia.
      - lia.
      - lia. }
    destruct (fnorm_Rep p2 e2 Hp2 Hm2 _ _ Hrep) as [HV _]. exact HV.
Qed.

End TwoFormats.

(* ---- the two concrete formats ---------------------------------------------- *)

Local Instance Hprec64 : Prec_gt_0 53 := eq_refl.
Local Instance Hmax64 : Prec_lt_emax 53 1024 := eq_refl.
Local Instance Hprec32 : Prec_gt_0 24 := eq_refl.
Local Instance Hmax32 : Prec_lt_emax 24 128 := eq_refl.

Definition is_uint (o : dtype) : bool :=
  match o with U8 | U16 | U32 | U64 => true | _ => false end.

(* the C cast of an integral float that fits the unsigned target is the value *)
Lemma c_cast_in_range : forall o y n,
  is_uint o = true -> to_Z_trunc y = Some n -> 0 <= n <= imax o -> c_cast o y = n.
Proof.
  intros o y n Ho Ht Hn. unfold c_cast. rewrite Ht.
  destruct o; try discriminate Ho; unfold cvt32, cvt64, two31, two63 in *; dt_unfold;
    repeat match goal with |- context [if ?c then _ else _] => destruct c eqn:? end;
    try lia.
Qed.

Section Core.

Variable prec emax : Z.
Context (Hprec : Prec_gt_0 prec).
Context (Hmax : Prec_lt_emax prec emax).
Hypothesis Hemin0 : SpecFloat.emin prec emax <= 0.
Hypothesis Hprec2 : 2 <= prec.
Variable w : dtype.
Hypothesis Hw : fmt_of w = {| f_prec := prec; f_emax := emax |}.
Hypothesis Hwf : is_int w = false.

(* rint, clip with the target's bounds converted to the work float type, the
   final cast and the saturate_top patch, on a finite work value x = cast w v:
   saturation of the rounded value.  hi' is the value the upper bound takes in
   the work type (2^64 for uint64 in float64, the bound itself otherwise). *)
Lemma convert_float_core : forall i o v x hi',
  is_uint o = true -> round_flag i o = true -> clip_flag i o = true ->
  work_dtype i o = w -> clip_lo i o = imin o -> clip_hi i o = imax o ->
  cast w v = NF x ->
  valid_binary prec emax x = true -> is_finite x = true ->
  Val prec emax (of_Z (fmt_of w) (imax o)) (IZR hi') -> imax o <= hi' ->
  (saturate_top i o = true -> hi' <= imax o + 1) ->
  (saturate_top i o = false -> Z.min (Z.max (rhe_Q (SF2Q x)) 0) hi' <= imax o) ->
  convert_scalar i o v = NI (clamp o (rhe_Q (SF2Q x))).
Proof.
  intros i o v x hi' Ho Hrf Hcf Hwd Hlo' Hhi' Hcast Hv Hf Hhi Hge Hsat1 Hsat0.
  assert (Hio : is_int o = true) by (destruct o; try discriminate Ho; reflexivity).
  assert (Hmin : imin o = 0) by (destruct o; try discriminate Ho; reflexivity).
  unfold convert_scalar, work_value, at_top, fhi_of. rewrite Hrf, Hcf, Hwd, Hlo', Hhi', Hcast.
  cbn [orb rint_num clip_num]. rewrite Hmin.
  pose proof (rint_Val prec emax Hprec Hmax Hemin0 x Hv Hf) as Hy.
  rewrite <- Hw in Hy.
  assert (Hlo : Val prec emax (of_Z (fmt_of w) 0) (IZR 0)).
  { rewrite Hw. apply of_Z_Rep; try assumption. cbn. apply Z.pow_pos_nonneg; lia. }
  destruct (clip_Val prec emax _ _ _ _ _ _ Hy Hlo Hhi) as [y' [Ey Hy']].
  rewrite Ey.
  pose proof (Val_trunc prec emax _ _ Hy') as Ht.
  set (n := rhe_Q (SF2Q x)) in *.
  assert (H0 : 0 <= imax o) by (destruct o; try discriminate Ho; dt_unfold; lia).
  assert (Hnan : is_nan y' = false).
  { destruct Hy' as (_ & Hfy & _). destruct y'; try discriminate Hfy; reflexivity. }
  rewrite Hnan. cbn [negb andb]. unfold fltb. rewrite (fltb_Val prec emax y' _ _ _ Hy' Hhi).
  destruct (saturate_top i o) eqn:Es; cbn [andb].
  - specialize (Hsat1 eq_refl).
    destruct (Rlt_bool_spec (IZR (Z.min (Z.max n 0) hi')) (IZR hi')) as [Hl|Hl]; cbn [negb].
    + apply lt_IZR in Hl. cbn [cast]. rewrite Hio. f_equal.
      rewrite (c_cast_in_range o y' _ Ho Ht) by lia. unfold clamp. rewrite Hmin. lia.
    + apply le_IZR in Hl. f_equal. unfold clamp. rewrite Hmin. lia.
  - specialize (Hsat0 eq_refl). cbn [cast]. rewrite Hio. f_equal.
    rewrite (c_cast_in_range o y' _ Ho Ht) by lia. unfold clamp. rewrite Hmin. lia.
Qed.

End Core.

(* ---- exact rational value vs real value ------------------------------------ *)
From Coq Require Import Qreals.
Close Scope Q_scope.
Close Scope R_scope.
Open Scope Z_scope.

Lemma SF2R_Q2R : forall x, SF2R radix2 x = Q2R (SF2Q x).
Proof.
  intros [s|s| |s m e]; try (cbn; unfold Q2R; cbn; lra).
  cbn [SF2R SF2Q]. unfold dyadicQ, F2R. cbn [Fnum Fexp].
  destruct (0 <=? e) eqn:Ee.
  - apply Z.leb_le in Ee. unfold Q2R, inject_Z. cbn [Qnum Qden].
    rewrite mult_IZR, (IZR_Zpower radix2) by exact Ee. cbn. lra.
  - apply Z.leb_gt in Ee. unfold Q2R. cbn [Qnum Qden].
    assert (Hd : 0 < 2 ^ (- e)) by (apply Z.pow_pos_nonneg; lia).
    rewrite Z2Pos.id by exact Hd. rewrite (IZR_Zpower radix2) by lia.
    rewrite <- bpow_opp. replace (- - e) with e by lia. reflexivity.
Qed.

Lemma rhe_Q_Qeq : forall q1 q2, (q1 == q2)%Q -> rhe_Q q1 = rhe_Q q2.
Proof.
  intros [n1 d1] [n2 d2] H. unfold Qeq in H. cbn [Qnum Qden] in H.
  unfold rhe_Q. cbn [Qnum Qden].
  pose proof (Z.div_mod n1 (Zpos d1) ltac:(lia)) as E1.
  pose proof (Z.mod_pos_bound n1 (Zpos d1) ltac:(lia)) as B1.
  set (f := n1 / Zpos d1) in *. set (r1 := n1 mod Zpos d1) in *.
  set (D1 := Zpos d1) in *. set (D2 := Zpos d2) in *.
  assert (HD1 : 0 < D1) by (unfold D1; lia). assert (HD2 : 0 < D2) by (unfold D2; lia).
  assert (Hr2 : (n2 - D2 * f) * D1 = D2 * r1) by nia.
  assert (Hb2 : 0 <= n2 - D2 * f < D2) by nia.
  assert (Ef : n2 / D2 = f) by (symmetry; apply (Z.div_unique n2 D2 f (n2 - D2 * f)); lia).
  assert (Er : n2 mod D2 = n2 - D2 * f) by (symmetry; apply (Z.mod_unique n2 D2 f (n2 - D2 * f)); lia).
  rewrite Ef, Er.
  destruct (Z.compare_spec (2 * r1) D1) as [He|Hl|Hg].
  - replace (2 * (n2 - D2 * f) ?= D2) with Eq by (symmetry; apply Z.compare_eq_iff; nia). reflexivity.
  - replace (2 * (n2 - D2 * f) ?= D2) with Lt by (symmetry; apply Z.compare_lt_iff; nia). reflexivity.
  - replace (2 * (n2 - D2 * f) ?= D2) with Gt by (symmetry; apply Z.compare_gt_iff; nia). reflexivity.
Qed.

Lemma SF2Q_eq_of_R : forall x y, SF2R radix2 y = SF2R radix2 x -> (SF2Q y == SF2Q x)%Q.
Proof. intros x y H. apply eqR_Qeq. rewrite <- !SF2R_Q2R. exact H. Qed.

(* a finite float64 below 2^64 rounds to an integer below 2^64 *)
Lemma rhe_below_two64 : forall y,
  valid_binary 53 1024 y = true -> is_finite y = true ->
  (SF2Q y < inject_Z two64z)%Q -> rhe_Q (SF2Q y) < two64z.
Proof.
  intros y Hv Hf Hlt. destruct y as [s|s| |s m e]; try discriminate Hf.
  - cbn. reflexivity.
  - cbn [SF2Q] in *. destruct (0 <=? e) eqn:Ee.
    + unfold dyadicQ in *. rewrite Ee in *. rewrite rhe_Q_inject.
      unfold Qlt, inject_Z in Hlt. cbn [Qnum Qden] in Hlt. lia.
    + apply Z.leb_gt in Ee. rewrite rhe_dyadic by exact Ee.
      destruct (valid_mantissa_lt 53 1024 Hprec64 s m e Hv) as (Hm & _ & _).
      pose proof (rhe_shift_bounds (Zpos m) (- e) ltac:(lia) ltac:(lia)) as Hb.
      assert (Zpos m / 2 ^ (- e) <= Zpos m).
      { apply Z.div_le_upper_bound. apply Z.pow_pos_nonneg; lia.
        assert (0 < 2 ^ (- e)) by (apply Z.pow_pos_nonneg; lia). nia. }
      unfold two64z. change (2 ^ 53) with 9007199254740992 in Hm.
      change (2 ^ 64) with 18446744073709551616.
      destruct s; cbn [cond_Zopp]; lia.
Qed.

(* upper clip bounds in the work type *)
Lemma hi_bound_exact : forall prec emax (Hp : Prec_gt_0 prec) (Hm : Prec_lt_emax prec emax) z,
  SpecFloat.emin prec emax <= 0 -> Z.abs z < 2 ^ prec ->
  Val prec emax (of_Z {| f_prec := prec; f_emax := emax |} z) (IZR z).
Proof. intros. apply of_Z_Rep; assumption. Qed.

Lemma hi_bound_u64 : Val 53 1024 (of_Z b64 (imax U64)) (IZR two64z).
Proof.
  assert (E : of_Z b64 (imax U64) = S754_finite false 4503599627370496 12) by (vm_compute; reflexivity).
  rewrite E. split. vm_compute; reflexivity. split. reflexivity.
  rewrite SF2R_SF2Q_int by lia. f_equal.
Qed.

Ltac side_false := let H := fresh in intro H; vm_compute in H; discriminate H.

(* C11 (2): float -> unsigned integer is round-half-even then saturation, for
   EVERY finite float32 / float64 and every unsigned target, uint64 included
   (values at and above 2^64 saturate to 2^64-1 through the saturate_top patch). *)
Theorem float_to_int_nearest : forall i o x,
  is_int i = false -> is_uint o = true ->
  valid_binary (f_prec (fmt_of i)) (f_emax (fmt_of i)) x = true -> is_finite x = true ->
  convert_scalar i o (NF x) = nearest_sat o (SF2Q x).
Proof.
  intros i o x Hi Ho Hv Hf.
  assert (Hio : is_int o = true) by (destruct o; try discriminate Ho; reflexivity).
  unfold nearest_sat. rewrite Hio.
  destruct i; try discriminate Hi; destruct o; try discriminate Ho;
    cbn [fmt_of f_prec f_emax] in *.
  (* float32 -> uint8 / uint16: work type float32 *)
  1,2: pose proof (fconv_Val 24 128 24 128 _ _ _ ltac:(lia) ltac:(lia) ltac:(lia) x Hv Hf) as (Hv0 & Hf0 & Hr0);
       rewrite <- (rhe_Q_Qeq _ _ (SF2Q_eq_of_R x _ Hr0));
       match goal with |- convert_scalar _ ?o _ = _ =>
       apply (convert_float_core 24 128 _ _ ltac:(vm_compute; discriminate) ltac:(lia) F32 eq_refl)
         with (hi' := imax o);
       [ reflexivity | reflexivity | reflexivity | reflexivity | reflexivity | reflexivity | reflexivity
       | exact Hv0 | exact Hf0
       | apply (hi_bound_exact _ _ _ _); [vm_compute; discriminate | vm_compute; reflexivity]
       | lia | side_false | intros _; lia ] end.
  (* float32 -> uint32: work type float64 *)
  1: pose proof (fconv_Val 24 128 53 1024 _ _ _ ltac:(lia) ltac:(vm_compute; discriminate) ltac:(lia) x Hv Hf) as (Hv0 & Hf0 & Hr0);
     rewrite <- (rhe_Q_Qeq _ _ (SF2Q_eq_of_R x _ Hr0));
     match goal with |- convert_scalar _ ?o _ = _ =>
     apply (convert_float_core 53 1024 _ _ ltac:(vm_compute; discriminate) ltac:(lia) F64 eq_refl)
       with (hi' := imax o);
     [ reflexivity | reflexivity | reflexivity | reflexivity | reflexivity | reflexivity | reflexivity
     | exact Hv0 | exact Hf0
     | apply (hi_bound_exact _ _ _ _); [vm_compute; discriminate | vm_compute; reflexivity]
     | lia | side_false | intros _; lia ] end.
  (* float32 -> uint64: saturate_top *)
  1: pose proof (fconv_Val 24 128 53 1024 _ _ _ ltac:(lia) ltac:(vm_compute; discriminate) ltac:(lia) x Hv Hf) as (Hv0 & Hf0 & Hr0);
     rewrite <- (rhe_Q_Qeq _ _ (SF2Q_eq_of_R x _ Hr0));
     apply (convert_float_core 53 1024 _ _ ltac:(vm_compute; discriminate) ltac:(lia) F64 eq_refl)
       with (hi' := two64z);
     [ reflexivity | reflexivity | reflexivity | reflexivity | reflexivity | reflexivity | reflexivity
     | exact Hv0 | exact Hf0 | exact hi_bound_u64
     | vm_compute; discriminate | intros _; vm_compute; discriminate | side_false ].
  (* float64 -> uint8 / uint16 / uint32 *)
  1,2,3: pose proof (fconv_Val 53 1024 53 1024 _ _ _ ltac:(lia) ltac:(lia) ltac:(lia) x Hv Hf) as (Hv0 & Hf0 & Hr0);
     rewrite <- (rhe_Q_Qeq _ _ (SF2Q_eq_of_R x _ Hr0));
     match goal with |- convert_scalar _ ?o _ = _ =>
     apply (convert_float_core 53 1024 _ _ ltac:(vm_compute; discriminate) ltac:(lia) F64 eq_refl)
       with (hi' := imax o);
     [ reflexivity | reflexivity | reflexivity | reflexivity | reflexivity | reflexivity | reflexivity
     | exact Hv0 | exact Hf0
     | apply (hi_bound_exact _ _ _ _); [vm_compute; discriminate | vm_compute; reflexivity]
     | lia | side_false | intros _; lia ] end.
  (* float64 -> uint64: saturate_top *)
  pose proof (fconv_Val 53 1024 53 1024 _ _ _ ltac:(lia) ltac:(lia) ltac:(lia) x Hv Hf) as (Hv0 & Hf0 & Hr0).
  rewrite <- (rhe_Q_Qeq _ _ (SF2Q_eq_of_R x _ Hr0)).
  apply (convert_float_core 53 1024 _ _ ltac:(vm_compute; discriminate) ltac:(lia) F64 eq_refl)
    with (hi' := two64z);
     [ reflexivity | reflexivity | reflexivity | reflexivity | reflexivity | reflexivity | reflexivity
     | exact Hv0 | exact Hf0 | exact hi_bound_u64
     | vm_compute; discriminate | intros _; vm_compute; discriminate | side_false ].
Qed.

(* non-vacuity: 2.5 -> 2, 2^64 - 2048 -> itself, 2^64 and a huge finite float -> 2^64 - 1 *)
Example float_to_int_example :
  let x := of_bits b64 4612811918334230528 in      (* 2.5 *)
  is_int F64 = false /\ is_uint U8 = true /\ valid_binary 53 1024 x = true /\ is_finite x = true /\
  convert_scalar F64 U8 (NF x) = NI 2 /\
  convert_scalar F64 U64 (NF (of_bits b64 4895412794951729151)) = NI (2 ^ 64 - 2048) /\
  convert_scalar F64 U64 (NF (of_bits b64 4895412794951729152)) = NI (2 ^ 64 - 1) /\
  convert_scalar F64 U64 (NF (of_bits b64 9132645911191595000)) = NI (2 ^ 64 - 1).
Proof. repeat split; vm_compute; reflexivity. Qed.

Lemma rhe_Q_ge : forall z q, (inject_Z z <= q)%Q -> z <= rhe_Q q.
Proof.
  intros z [n d] H. unfold Qle, inject_Z in H. cbn [Qnum Qden] in H.
  unfold rhe_Q. cbn [Qnum Qden].
  assert (z <= n / Zpos d) by (apply Z.div_le_lower_bound; lia).
  destruct (2 * (n mod Zpos d) ?= Zpos d); try lia. destruct (Z.even (n / Zpos d)); lia.
Qed.

(* C11 (3): float64 -> float32 is Flocq's rounding to nearest, ties to even,
   on the float32 format -- with overflow to infinity, which is where it
   departs from "saturating" (float32_overflow_refuted). *)
Theorem to_float32_nearest : forall x,
  valid_binary 53 1024 x = true -> is_finite x = true ->
  let r := round radix2 (SpecFloat.fexp 24 128) ZnearestE (SF2R radix2 x) in
  if Rlt_bool (Rabs r) (bpow radix2 128)
  then exists y, convert_scalar F64 F32 (NF x) = NF y /\ Val 24 128 y r
  else convert_scalar F64 F32 (NF x) = NF (S754_infinity (sf_sign x)).
Proof.
  intros x Hv Hf r.
  assert (E : convert_scalar F64 F32 (NF x) = NF (fconv b32 x)) by reflexivity.
  rewrite E. destruct x as [s|s| |s m e]; try discriminate Hf.
  - unfold r. cbn [SF2R]. rewrite round_0 by auto with typeclass_instances.
    rewrite Rabs_R0, Rlt_bool_true by apply bpow_gt_0.
    eexists. split. reflexivity. split; [reflexivity | split; reflexivity].
  - cbn [fconv]. unfold fnorm. cbn [f_prec f_emax b32].
    rewrite (binary_normalize_equiv 24 128 _ _).
    generalize (binary_normalize_correct 24 128 _ _ mode_NE (cond_Zopp s (Zpos m)) e false).
    cbv zeta. fold r. change (round_mode mode_NE) with ZnearestE.
    change (round radix2 (fexp 24 128) ZnearestE (F2R (Float radix2 (cond_Zopp s (Zpos m)) e))) with r.
    destruct (Rlt_bool (Rabs r) (bpow radix2 128)).
    + intros (H1 & H2 & _). eexists. split. reflexivity.
      rewrite <- H1. apply B_Val. exact H2.
    + intros H. rewrite H. unfold binary_overflow. cbn [overflow_to_inf]. do 2 f_equal.
      cbn [sf_sign]. destruct s; cbn [cond_Zopp].
      * apply Rlt_bool_true. apply F2R_lt_0. reflexivity.
      * apply Rlt_bool_false. apply F2R_ge_0. cbn. lia.
Qed.

Example to_float32_example :
  valid_binary 53 1024 (of_bits b64 4602678819172646912) = true /\
  convert_scalar F64 F32 (NF (of_bits b64 4602678819172646912)) = NF (of_bits b32 1056964608).
Proof. split; vm_compute; reflexivity. Qed.
