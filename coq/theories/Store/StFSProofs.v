(* Lemmas about the abstract file system: lookup/update, path walk on clean
   paths, makedirs, open. *)
From Coq Require Import NArith Arith List Bool Lia.
From NGS Require Import Val Ints StFS.
Import ListNotations.
Open Scope N_scope.

(* ---------- equality tests ---------- *)

Lemma bytes_eqb_eq : forall a b, bytes_eqb a b = true <-> a = b.
Proof.
  induction a as [|x a IH]; destruct b as [|y b]; simpl; split; intro H; try congruence; try discriminate.
  - apply andb_true_iff in H as [H1 H2]. apply N.eqb_eq in H1. apply IH in H2. congruence.
  - inversion H; subst. rewrite N.eqb_refl. simpl. apply IH. reflexivity.
Qed.

Lemma bytes_eqb_refl : forall a, bytes_eqb a a = true.
Proof. intro a. apply bytes_eqb_eq. reflexivity. Qed.

Lemma bytes_eqb_neq : forall a b, bytes_eqb a b = false <-> a <> b.
Proof.
  intros a b. split; intro H.
  - intro E. apply bytes_eqb_eq in E. congruence.
  - destruct (bytes_eqb a b) eqn:E; [|reflexivity]. apply bytes_eqb_eq in E. contradiction.
Qed.

Lemma path_eqb_eq : forall a b, path_eqb a b = true <-> a = b.
Proof.
  induction a as [|x a IH]; destruct b as [|y b]; simpl; split; intro H; try congruence; try discriminate.
  - apply andb_true_iff in H as [H1 H2]. apply bytes_eqb_eq in H1. apply IH in H2. congruence.
  - inversion H; subst. rewrite bytes_eqb_refl. simpl. apply IH. reflexivity.
Qed.

Lemma path_eqb_refl : forall a, path_eqb a a = true.
Proof. intro a. apply path_eqb_eq. reflexivity. Qed.

Lemma path_eqb_neq : forall a b, path_eqb a b = false <-> a <> b.
Proof.
  intros a b. split; intro H.
  - intro E. apply path_eqb_eq in E. congruence.
  - destruct (path_eqb a b) eqn:E; [|reflexivity]. apply path_eqb_eq in E. contradiction.
Qed.

Lemma path_eq_dec : forall a b : path, {a = b} + {a <> b}.
Proof.
  intros a b. destruct (path_eqb a b) eqn:E.
  - left. apply path_eqb_eq. exact E.
  - right. apply path_eqb_neq. exact E.
Qed.

(* ---------- prefixes ---------- *)

Definition prefix (q p : path) : Prop := exists r, p = q ++ r.

Lemma is_prefix_iff : forall q p, is_prefix q p = true <-> prefix q p.
Proof.
  induction q as [|x q IH]; intros p; simpl.
  - split; [intros _; exists p; reflexivity | reflexivity].
  - destruct p as [|y p].
    + split; [discriminate | intros [r Hr]; discriminate].
    + rewrite andb_true_iff, bytes_eqb_eq, IH. split.
      * intros [-> [r ->]]. exists r. reflexivity.
      * intros [r Hr]. simpl in Hr. inversion Hr; subst. split; [reflexivity | exists r; reflexivity].
Qed.

Lemma prefix_refl : forall p, prefix p p.
Proof. intro p. exists []. rewrite app_nil_r. reflexivity. Qed.

Lemma prefix_nil : forall p, prefix [] p.
Proof. intro p. exists p. reflexivity. Qed.

Lemma prefix_app : forall a b, prefix a (a ++ b).
Proof. intros a b. exists b. reflexivity. Qed.

Lemma prefix_trans : forall a b c, prefix a b -> prefix b c -> prefix a c.
Proof. intros a b c [r ->] [s ->]. exists (r ++ s). rewrite app_assoc. reflexivity. Qed.

Lemma prefix_length : forall a b, prefix a b -> (length a <= length b)%nat.
Proof. intros a b [r ->]. rewrite app_length. lia. Qed.

Lemma prefix_antisym : forall a b, prefix a b -> prefix b a -> a = b.
Proof.
  intros a b [r ->] [s Hs]. rewrite <- app_assoc in Hs.
  rewrite <- (app_nil_r a) in Hs at 1. apply app_inv_head in Hs.
  symmetry in Hs. apply app_eq_nil in Hs as [-> _]. rewrite app_nil_r. reflexivity.
Qed.

(* prefixes of  h ++ [c]  are the prefixes of h, and the path itself *)
Lemma prefix_snoc : forall q h c, prefix q (h ++ [c]) <-> prefix q h \/ q = h ++ [c].
Proof.
  intros q h c. split.
  - intros [r Hr]. destruct (rev r) as [|x rr] eqn:Er.
    + apply (f_equal (@rev _)) in Er. rewrite rev_involutive in Er. simpl in Er. subst r.
      rewrite app_nil_r in Hr. right. congruence.
    + apply (f_equal (@rev _)) in Er. rewrite rev_involutive in Er. simpl in Er. subst r.
      rewrite app_assoc in Hr. apply app_inj_tail in Hr as [Hh _]. left. exists (rev rr). exact Hh.
  - intros [[r ->] | ->].
    + exists (r ++ [c]). rewrite app_assoc. reflexivity.
    + apply prefix_refl.
Qed.

Lemma prefix_app_inv : forall a x y, prefix (a ++ x) (a ++ y) <-> prefix x y.
Proof.
  intros a x y. split.
  - intros [r Hr]. rewrite <- app_assoc in Hr. apply app_inv_head in Hr. exists r. exact Hr.
  - intros [r ->]. exists r. rewrite app_assoc. reflexivity.
Qed.

(* two prefixes of the same path are comparable *)
Lemma prefix_comparable : forall a b p, prefix a p -> prefix b p -> prefix a b \/ prefix b a.
Proof.
  induction a as [|x a IH]; intros b p Ha Hb.
  - left. apply prefix_nil.
  - destruct b as [|y b]; [right; apply prefix_nil|].
    destruct Ha as [r Hr], Hb as [s Hs]. subst p. simpl in Hs. inversion Hs; subst.
    destruct (IH b (a ++ r)) as [[u Hu] | [u Hu]].
    + apply prefix_app.
    + exists s. assumption.
    + left. exists u. simpl. congruence.
    + right. exists u. simpl. congruence.
Qed.

(* ---------- clean paths ---------- *)

Definition cleanb (p : path) : bool := forallb (fun c => negb (is_dotdot c)) p.

Lemma cleanb_app : forall a b, cleanb (a ++ b) = cleanb a && cleanb b.
Proof. intros. unfold cleanb. apply forallb_app. Qed.

Lemma cleanb_prefix : forall q p, prefix q p -> cleanb p = true -> cleanb q = true.
Proof. intros q p [r ->] H. rewrite cleanb_app in H. apply andb_true_iff in H. tauto. Qed.

Lemma removelast_snoc : forall (A : Type) (l : list A) x, removelast (l ++ [x]) = l.
Proof. intros. apply removelast_last. Qed.

Lemma snoc_cases : forall (A : Type) (l : list A), l = [] \/ exists h x, l = h ++ [x].
Proof.
  intros A l. destruct (rev l) as [|x r] eqn:E.
  - left. apply (f_equal (@rev _)) in E. rewrite rev_involutive in E. exact E.
  - right. exists (rev r), x. apply (f_equal (@rev _)) in E. rewrite rev_involutive in E. exact E.
Qed.

Section FSP.
Variable B : Type.
Variable empty : B.
Notation fs := (fs B).
Notation lookup := (lookup B).
Notation update := (update B).

Lemma lookup_update_same : forall (t : fs) p n, p <> [] -> lookup (update t p n) p = Some n.
Proof.
  intros t p n Hp. destruct p as [|c p]; [contradiction|].
  unfold lookup, update. simpl assoc.
  change (bytes_eqb c c && path_eqb p p) with (path_eqb (c :: p) (c :: p)).
  rewrite path_eqb_refl. reflexivity.
Qed.

Lemma lookup_update_other : forall (t : fs) p q n, p <> q -> lookup (update t p n) q = lookup t q.
Proof.
  intros t p q n Hpq. destruct q as [|c q]; [reflexivity|].
  unfold lookup, update. simpl assoc.
  destruct (path_eqb p (c :: q)) eqn:E; [|reflexivity].
  apply path_eqb_eq in E. contradiction.
Qed.

Lemma lookup_update : forall (t : fs) p q n, p <> [] ->
  lookup (update t p n) q = if path_eqb p q then Some n else lookup t q.
Proof.
  intros t p q n Hp. destruct (path_eqb p q) eqn:E.
  - apply path_eqb_eq in E. subst q. apply lookup_update_same. exact Hp.
  - apply path_eqb_neq in E. apply lookup_update_other. exact E.
Qed.

(* every bound path has a directory as parent *)
Definition tree_closed (t : fs) : Prop :=
  forall p c, lookup t (p ++ [c]) <> None -> lookup t p = Some Dir.

Lemma closed_prefix : forall t, tree_closed t ->
  forall b a, b <> [] -> lookup t (a ++ b) <> None -> lookup t a = Some Dir.
Proof.
  intros t Ht b. induction b as [|x b IH] using rev_ind; intros a Hb Hl; [contradiction|].
  rewrite app_assoc in Hl. apply Ht in Hl.
  destruct b as [|y b'].
  - rewrite app_nil_r in Hl. exact Hl.
  - apply IH; [discriminate | rewrite Hl; discriminate].
Qed.

Lemma closed_update : forall t p n, tree_closed t -> p <> [] ->
  lookup t (removelast p) = Some Dir ->
  (forall c, lookup t (p ++ [c]) = None \/ n = Dir) ->
  tree_closed (update t p n).
Proof.
  intros t p n Ht Hp Hpar Hch q c Hq.
  rewrite lookup_update in Hq by exact Hp. rewrite lookup_update by exact Hp.
  destruct (path_eqb p (q ++ [c])) eqn:E1.
  - apply path_eqb_eq in E1. subst p. rewrite removelast_snoc in Hpar.
    destruct (path_eqb (q ++ [c]) q) eqn:E2.
    + apply path_eqb_eq in E2. apply (f_equal (@length _)) in E2. rewrite app_length in E2. simpl in E2. lia.
    + exact Hpar.
  - destruct (path_eqb p q) eqn:E2.
    + apply path_eqb_eq in E2. subst q. destruct (Hch c) as [Hn | ->]; [contradiction | reflexivity].
    + apply Ht in Hq. exact Hq.
Qed.

(* ---------- the path walk on clean paths ---------- *)

Lemma walk_clean : forall (t : fs) rest rc q,
  cleanb rest = true -> walk B t rc rest = inr q -> q = rev rc ++ rest.
Proof.
  intros t rest. induction rest as [|c r IH]; intros rc q Hc Hw; simpl in *.
  - inversion Hw. rewrite app_nil_r. reflexivity.
  - apply andb_true_iff in Hc as [Hc1 Hc2]. apply negb_true_iff in Hc1.
    destruct (StFS.lookup B t (rev rc)) as [[b|]|]; try discriminate.
    rewrite Hc1 in Hw. apply IH in Hw; [|exact Hc2]. simpl in Hw. rewrite <- app_assoc in Hw. exact Hw.
Qed.

Lemma walk_ok : forall (t : fs) rest rc,
  cleanb rest = true ->
  (forall k, (k < length rest)%nat -> lookup t (rev rc ++ firstn k rest) = Some Dir) ->
  walk B t rc rest = inr (rev rc ++ rest).
Proof.
  intros t rest. induction rest as [|c r IH]; intros rc Hc Hd; simpl.
  - rewrite app_nil_r. reflexivity.
  - simpl in Hc. apply andb_true_iff in Hc as [Hc1 Hc2]. apply negb_true_iff in Hc1.
    pose proof (Hd 0%nat ltac:(simpl; lia)) as H0. simpl in H0. rewrite app_nil_r in H0.
    fold (lookup t (rev rc)). rewrite H0, Hc1.
    rewrite IH; [simpl; rewrite <- app_assoc; reflexivity | exact Hc2 |].
    intros k Hk. specialize (Hd (S k) ltac:(simpl; lia)). simpl in Hd. simpl.
    rewrite <- app_assoc. exact Hd.
Qed.

Lemma resolve_clean : forall (t : fs) p q,
  cleanb p = true -> resolve B t p = inr q -> q = p.
Proof. intros t p q Hc Hr. apply (walk_clean t p [] q Hc) in Hr. exact Hr. Qed.

Lemma resolve_ok : forall (t : fs) p,
  tree_closed t -> cleanb p = true ->
  (p = [] \/ lookup t (removelast p) = Some Dir) -> resolve B t p = inr p.
Proof.
  intros t p Ht Hc Hpar. unfold resolve.
  rewrite (walk_ok t p [] Hc); [reflexivity|].
  intros k Hk. simpl.
  destruct Hpar as [-> | Hpar]; [simpl in Hk; lia|].
  destruct (snoc_cases _ p) as [-> | [h [x ->]]]; [simpl in Hk; lia|].
  rewrite removelast_snoc in Hpar. rewrite app_length in Hk. simpl in Hk.
  assert (Hf : firstn k (h ++ [x]) = firstn k h).
  { rewrite firstn_app. replace (k - length h)%nat with 0%nat by lia. simpl. apply app_nil_r. }
  rewrite Hf.
  destruct (Nat.eq_dec k (length h)) as [-> | Hne].
  - rewrite firstn_all. exact Hpar.
  - apply (closed_prefix t Ht (skipn k h)).
    + intro E. apply (f_equal (@length _)) in E. rewrite skipn_length in E. simpl in E. lia.
    + rewrite firstn_skipn. rewrite Hpar. discriminate.
Qed.

Lemma is_file_lookup : forall (t : fs) p,
  cleanb p = true -> is_file B t p = true -> exists b, lookup t p = Some (File b).
Proof.
  intros t p Hc H. unfold is_file in H.
  destruct (resolve B t p) as [e|q] eqn:Er; [discriminate|].
  apply resolve_clean in Er; [|exact Hc]. subst q.
  fold (lookup t p) in H. destruct (lookup t p) as [[b|]|]; try discriminate. exists b. reflexivity.
Qed.

Lemma parent_dir : forall (t : fs) p n, tree_closed t -> p <> [] -> lookup t p = Some n ->
  lookup t (removelast p) = Some Dir.
Proof.
  intros t p n Ht Hp Hl. destruct (snoc_cases _ p) as [-> | [h [x ->]]]; [contradiction|].
  rewrite removelast_snoc. apply Ht with (c := x). rewrite Hl. discriminate.
Qed.

Lemma lookup_is_file : forall (t : fs) p b,
  tree_closed t -> cleanb p = true -> lookup t p = Some (File b) -> is_file B t p = true.
Proof.
  intros t p b Ht Hc Hl. unfold is_file.
  assert (Hp : p <> []) by (intro E; subst p; simpl in Hl; discriminate).
  rewrite (resolve_ok t p Ht Hc); [|right; eapply parent_dir; eauto].
  fold (lookup t p). rewrite Hl. reflexivity.
Qed.

Lemma is_file_false : forall (t : fs) p,
  cleanb p = true -> (forall b, lookup t p <> Some (File b)) -> is_file B t p = false.
Proof.
  intros t p Hc H. destruct (is_file B t p) eqn:E; [|reflexivity].
  apply is_file_lookup in E as [b Hb]; [|exact Hc]. exfalso. exact (H b Hb).
Qed.

Lemma exists_iff : forall (t : fs) p,
  tree_closed t -> cleanb p = true -> (exists_ B t p = true <-> lookup t p <> None).
Proof.
  intros t p Ht Hc. unfold exists_. split.
  - destruct (resolve B t p) as [e|q] eqn:Er; [discriminate|].
    apply resolve_clean in Er; [|exact Hc]. subst q. fold (lookup t p).
    destruct (lookup t p); [intros _; discriminate | discriminate].
  - intro Hl. destruct (lookup t p) as [n|] eqn:El; [|contradiction].
    destruct (list_eq_dec (list_eq_dec N.eq_dec) p []) as [-> | Hp].
    + reflexivity.
    + rewrite (resolve_ok t p Ht Hc); [|right; eapply parent_dir; eauto].
      fold (lookup t p). rewrite El. reflexivity.
Qed.

Lemma is_dir_lookup : forall (t : fs) p,
  tree_closed t -> cleanb p = true -> lookup t p = Some Dir -> is_dir B t p = true.
Proof.
  intros t p Ht Hc Hl. unfold is_dir.
  destruct (list_eq_dec (list_eq_dec N.eq_dec) p []) as [-> | Hp]; [reflexivity|].
  rewrite (resolve_ok t p Ht Hc); [|right; eapply parent_dir; eauto].
  fold (lookup t p). rewrite Hl. reflexivity.
Qed.

(* ---------- makedirs ---------- *)

Definition makedirs_post (t t' : fs) (p : path) : Prop :=
  tree_closed t' /\
  forall q, lookup t' q = if is_prefix q p then Some Dir else lookup t q.

Lemma is_prefix_snoc : forall q h c,
  is_prefix q (h ++ [c]) = is_prefix q h || path_eqb q (h ++ [c]).
Proof.
  intros q h c. apply eq_true_iff_eq. rewrite orb_true_iff, !is_prefix_iff, path_eqb_eq.
  apply prefix_snoc.
Qed.

Lemma makedirs_r_ok : forall rp (t : fs),
  tree_closed t -> cleanb (rev rp) = true ->
  (forall q b, prefix q (rev rp) -> lookup t q <> Some (File b)) ->
  exists t', makedirs_r B t rp = inr t' /\ makedirs_post t t' (rev rp).
Proof.
  induction rp as [|c rh IH]; intros t Ht Hc Hnf.
  - exists t. split; [reflexivity|]. split; [exact Ht|].
    intro q. simpl. destruct q; reflexivity.
  - simpl rev in *. simpl makedirs_r.
    assert (Hch : cleanb (rev rh) = true) by (eapply cleanb_prefix; [apply prefix_app | exact Hc]).
    (* step 1: the head exists afterwards, as a directory *)
    assert (H1 : exists t1,
      (if exists_ B t (rev rh) then inr t
       else match makedirs_r B t rh with inl EEXIST => inr t | r => r end) = inr t1 /\
      makedirs_post t t1 (rev rh)).
    { destruct (exists_ B t (rev rh)) eqn:Ee.
      - exists t. split; [reflexivity|]. split; [exact Ht|].
        intro q. destruct (is_prefix q (rev rh)) eqn:Ep; [|reflexivity].
        apply is_prefix_iff in Ep. destruct Ep as [r Hr].
        apply exists_iff in Ee; [|exact Ht|exact Hch].
        destruct r as [|x r].
        + rewrite app_nil_r in Hr. subst q.
          destruct (lookup t (rev rh)) as [[b|]|] eqn:El; [|reflexivity|contradiction].
          exfalso. apply (Hnf (rev rh) b); [apply prefix_app | exact El].
        + apply (closed_prefix t Ht (x :: r)); [discriminate | rewrite <- Hr; exact Ee].
      - destruct (IH t Ht Hch) as [t1 [Hm Hp]].
        { intros q b Hq. apply Hnf. eapply prefix_trans; [exact Hq | apply prefix_app]. }
        exists t1. rewrite Hm. split; [reflexivity | exact Hp]. }
    destruct H1 as [t1 [E1 [Hcl1 Hl1]]]. rewrite E1.
    assert (Hhead : lookup t1 (rev rh) = Some Dir).
    { rewrite Hl1. replace (is_prefix (rev rh) (rev rh)) with true; [reflexivity|].
      symmetry. apply is_prefix_iff. apply prefix_refl. }
    assert (Hres : resolve B t1 (rev rh ++ [c]) = inr (rev rh ++ [c])).
    { apply resolve_ok; [exact Hcl1 | exact Hc | right; rewrite removelast_snoc; exact Hhead]. }
    assert (Hnp : is_prefix (rev rh ++ [c]) (rev rh) = false).
    { destruct (is_prefix (rev rh ++ [c]) (rev rh)) eqn:E; [|reflexivity].
      apply is_prefix_iff, prefix_length in E. rewrite app_length in E. simpl in E. lia. }
    unfold mkdir. rewrite Hres. fold (lookup t1 (rev rh ++ [c])).
    destruct (lookup t1 (rev rh ++ [c])) as [n|] eqn:El.
    + (* exists already: must be a directory *)
      assert (Hd : n = Dir).
      { rewrite Hl1, Hnp in El. destruct n as [b|]; [|reflexivity].
        exfalso. apply (Hnf (rev rh ++ [c]) b); [apply prefix_refl | exact El]. }
      subst n. rewrite (is_dir_lookup t1 _ Hcl1 Hc El).
      exists t1. split; [reflexivity|]. split; [exact Hcl1|].
      intro q. rewrite is_prefix_snoc, Hl1.
      destruct (is_prefix q (rev rh)); simpl; [reflexivity|].
      destruct (path_eqb q (rev rh ++ [c])) eqn:Eq; [|reflexivity].
      apply path_eqb_eq in Eq. subst q. rewrite Hl1, Hnp in El. exact El.
    + exists (update t1 (rev rh ++ [c]) Dir). split; [reflexivity|]. split.
      * apply closed_update; [exact Hcl1 | intro E; destruct (rev rh); discriminate
                              | rewrite removelast_snoc; exact Hhead | intros; right; reflexivity].
      * intro q. rewrite lookup_update by (intro E; destruct (rev rh); discriminate).
        rewrite is_prefix_snoc, Hl1.
        destruct (path_eqb (rev rh ++ [c]) q) eqn:Eq.
        -- apply path_eqb_eq in Eq. subst q. rewrite Hnp, path_eqb_refl. reflexivity.
        -- replace (path_eqb q (rev rh ++ [c])) with false.
           ++ rewrite orb_false_r. reflexivity.
           ++ symmetry. apply path_eqb_neq. apply path_eqb_neq in Eq. congruence.
Qed.

Lemma makedirs_ok : forall (t : fs) p,
  tree_closed t -> cleanb p = true ->
  (forall q b, prefix q p -> lookup t q <> Some (File b)) ->
  exists t', makedirs B t p = inr t' /\ makedirs_post t t' p.
Proof.
  intros t p Ht Hc Hnf. unfold makedirs.
  destruct (makedirs_r_ok (rev p) t Ht) as [t' [Hm Hp]].
  - rewrite rev_involutive. exact Hc.
  - rewrite rev_involutive. exact Hnf.
  - exists t'. rewrite rev_involutive in Hp. split; assumption.
Qed.

(* ---------- open / write / read on a clean path whose parent exists ---------- *)

Lemma open_ok : forall (t : fs) p m,
  tree_closed t -> cleanb p = true -> p <> [] -> lookup t (removelast p) = Some Dir ->
  open_ B empty t p m =
    match m, lookup t p with
    | MR, None => inl ENOENT
    | MR, Some Dir => inl EISDIR
    | MR, Some (File _) => inr t
    | MX, Some _ => inl EEXIST
    | MX, None => inr (update t p (File empty))
    | MW, Some Dir => inl EISDIR
    | MW, _ => inr (update t p (File empty))
    end.
Proof.
  intros t p m Ht Hc Hp Hpar. unfold open_.
  rewrite (resolve_ok t p Ht Hc) by (right; exact Hpar). reflexivity.
Qed.

Lemma write_ok : forall (t : fs) p d,
  tree_closed t -> cleanb p = true -> p <> [] -> lookup t (removelast p) = Some Dir ->
  write_at B t p d = update t p (File d).
Proof.
  intros t p d Ht Hc Hp Hpar. unfold write_at.
  rewrite (resolve_ok t p Ht Hc) by (right; exact Hpar). reflexivity.
Qed.

Lemma read_ok : forall (t : fs) p d,
  tree_closed t -> cleanb p = true -> lookup t p = Some (File d) ->
  read_at B t p = Some d.
Proof.
  intros t p d Ht Hc Hl. unfold read_at.
  assert (Hp : p <> []) by (intro E; subst p; simpl in Hl; discriminate).
  rewrite (resolve_ok t p Ht Hc) by (right; eapply parent_dir; eauto).
  fold (lookup t p). rewrite Hl. reflexivity.
Qed.

(* ---------- unlink ---------- *)

Lemma assoc_remove : forall (t : fs) p q,
  assoc B (remove B t p) q = if path_eqb p q then None else assoc B t q.
Proof.
  induction t as [|[k n] t IH]; intros p q; simpl.
  - destruct (path_eqb p q); reflexivity.
  - destruct (path_eqb k p) eqn:Ekp; simpl.
    + apply path_eqb_eq in Ekp. subst k. rewrite IH. destruct (path_eqb p q); reflexivity.
    + rewrite IH. destruct (path_eqb k q) eqn:Ekq; [|reflexivity].
      apply path_eqb_eq in Ekq. subst k. rewrite (proj2 (path_eqb_neq p q)); [reflexivity|].
      apply path_eqb_neq in Ekp. congruence.
Qed.

Lemma lookup_remove : forall (t : fs) p q, p <> [] ->
  lookup (remove B t p) q = if path_eqb p q then None else lookup t q.
Proof.
  intros t p q Hp. destruct q as [|x q].
  - simpl. destruct p; [contradiction | reflexivity].
  - unfold lookup. apply assoc_remove.
Qed.

Lemma closed_remove : forall t p, tree_closed t -> p <> [] ->
  (forall x, lookup t (p ++ [x]) = None) -> tree_closed (remove B t p).
Proof.
  intros t p Ht Hp Hch q x Hq. rewrite lookup_remove in Hq by exact Hp. rewrite lookup_remove by exact Hp.
  destruct (path_eqb p (q ++ [x])) eqn:E1; [contradiction|].
  destruct (path_eqb p q) eqn:E2.
  - apply path_eqb_eq in E2. subst q. rewrite Hch in Hq. contradiction.
  - apply Ht in Hq. exact Hq.
Qed.

Lemma unlink_ok : forall (t : fs) p d,
  tree_closed t -> cleanb p = true -> lookup t p = Some (File d) ->
  unlink_ B t p = inr (remove B t p).
Proof.
  intros t p d Ht Hc Hl. unfold unlink_.
  assert (Hp : p <> []) by (intro E; subst p; simpl in Hl; discriminate).
  rewrite (resolve_ok t p Ht Hc) by (right; eapply parent_dir; eauto).
  fold (lookup t p). rewrite Hl. reflexivity.
Qed.

End FSP.
