(* Model of the file-level methods of sharded_file_accessor.ShardedFileAccessor
   exactly as coded:
     __init__    : base_dir.mkdir(exist_ok=True, parents=True)   (even for reading)
     _file_path  : base_dir / Path(relative_path); ValueError when that is not
                   below base_dir or mentions ".." (outcome Refused, raised
                   before any file-system primitive); the empty name is
                   accepted and denotes the dataset directory itself
     file_exists : _file_path(...).exists()                      (true for directories too)
     fetch_file  : open(_file_path(...), "rb").read()            (no ".gz" fallback)
     store_file  : if not overwrite and exists: raise OSError; open(..., "wb").write(buf)
                   (no parent creation, MIME type ignored)
   I/O errors are plain OSError (outcome IOErr), never DataAccessError. *)
From Coq Require Import NArith ZArith List Bool Lia.
From NGS Require Import Val Ints StFS StFileAccessor.
Import ListNotations.
Open Scope N_scope.

Section SH.
Variable B : Type.
Variable plain : list N -> B.
Notation prog := (prog B).

Definition sh_ctor (b : path) : prog (outcome (resval B)) :=
  Do (CMakedirs b) (fun r => match r with RErr _ => Ret IOErr | _ => Ret (Ok VUnit) end).

Definition sh_path (b : path) (name : list N) : option path := checked_path_gen false b name.

Definition sh_file_exists (b : path) (name : list N) : prog (outcome (resval B)) :=
  match sh_path b name with
  | None => Ret Refused
  | Some p =>
  Do (CExists p) (fun r =>
    match r with RBool x => Ret (Ok (VBool x)) | RErr _ => Ret IOErr | _ => Ret (Ok (VBool false)) end)
  end.

Definition sh_fetch_file (b : path) (name : list N) : prog (outcome (resval B)) :=
  match sh_path b name with
  | None => Ret Refused
  | Some p =>
  Do (COpen p MR) (fun r =>
  match r with
  | RErr _ => Ret IOErr
  | _ => Do (CRead p) (fun r =>
         match r with
         | RData d => Do (CClose p) (fun r => match r with RErr _ => Ret IOErr | _ => Ret (Ok (VData d)) end)
         | _ => Do (CClose p) (fun _ => Ret IOErr)
         end)
  end)
  end.

Definition sh_write (p : path) (buf : list N) : prog (outcome (resval B)) :=
  Do (COpen p MW) (fun r =>
  match r with
  | RErr _ => Ret IOErr
  | _ => Do (CWrite p (plain buf)) (fun r =>
         match r with
         | RErr _ => Do (CClose p) (fun _ => Ret IOErr)
         | _ => Do (CClose p) (fun r => match r with RErr _ => Ret IOErr | _ => Ret (Ok VUnit) end)
         end)
  end).

Definition sh_store_file (b : path) (name buf : list N) (ow : bool) : prog (outcome (resval B)) :=
  match sh_path b name with
  | None => Ret Refused
  | Some p =>
  if ow then sh_write p buf
  else Do (CExists p) (fun r =>
       match r with
       | RBool true => Ret IOErr           (* OSError("file at ... already exists") *)
       | RErr _ => Ret IOErr
       | _ => sh_write p buf
       end)
  end.

(* file-level operations only; chunk operations belong to the shard writer /
   reader models (Shard/*.v) *)
Definition sh_op_prog (b : path) (o : op) : prog (outcome (resval B)) :=
  match o with
  | OStoreFile n buf _ ow => sh_store_file b n buf ow
  | OFetchFile n => sh_fetch_file b n
  | OExists n => sh_file_exists b n
  | _ => Ret (Crash NotImplementedError)
  end.

Fixpoint sh_run_ops (b : path) (t : fs B) (ops : list op) : list (outcome (resval B)) * fs B :=
  match ops with
  | [] => ([], t)
  | o :: r => let '(x, t1) := run B (plain []) t (sh_op_prog b o) in
              let '(xs, t2) := sh_run_ops b t1 r in (x :: xs, t2)
  end.

End SH.
