(* Model of the file-level methods of sharded_file_accessor.ShardedFileAccessor
   exactly as coded:
     __init__    : base_dir.mkdir(exist_ok=True, parents=True)   (even for reading)
     file_exists : (base_dir / relative_path).exists()           (true for directories too)
     fetch_file  : open(base_dir / relative_path, "rb").read()   (no ".gz" fallback)
     store_file  : if not overwrite and exists: raise OSError; open(..., "wb").write(buf)
                   (no parent creation, MIME type ignored)
   There is NO path confinement: the name goes through the pathlib join only
   (absolute names replace the base, ".." is resolved by the kernel).
   Errors are plain OSError (outcome IOErr), never DataAccessError. *)
From Coq Require Import NArith ZArith List Bool Lia.
From NGS Require Import Val Ints StFS StFileAccessor.
Import ListNotations.
Open Scope N_scope.

Section SH.
Variable B : Type.
Variable plain : list N -> B.
Notation prog := (prog B).

Definition sh_ctor (b : path) : prog (outcome (resval B)) :=
  Do (CMakedirs b) (fun r => match r with RErr _ => Ret IOErr | _ => Ret (Ok VUnit) end).

Definition sh_file_exists (b : path) (name : list N) : prog (outcome (resval B)) :=
  Do (CExists (unchecked_path b name)) (fun r =>
    match r with RBool x => Ret (Ok (VBool x)) | RErr _ => Ret IOErr | _ => Ret (Ok (VBool false)) end).

Definition sh_fetch_file (b : path) (name : list N) : prog (outcome (resval B)) :=
  let p := unchecked_path b name in
  Do (COpen p MR) (fun r =>
  match r with
  | RErr _ => Ret IOErr
  | _ => Do (CRead p) (fun r =>
         match r with
         | RData d => Do (CClose p) (fun r => match r with RErr _ => Ret IOErr | _ => Ret (Ok (VData d)) end)
         | _ => Do (CClose p) (fun _ => Ret IOErr)
         end)
  end).

Definition sh_write (p : path) (buf : list N) : prog (outcome (resval B)) :=
  Do (COpen p MW) (fun r =>
  match r with
  | RErr _ => Ret IOErr
  | _ => Do (CWrite p (plain buf)) (fun r =>
         match r with
         | RErr _ => Do (CClose p) (fun _ => Ret IOErr)
         | _ => Do (CClose p) (fun r => match r with RErr _ => Ret IOErr | _ => Ret (Ok VUnit) end)
         end)
  end).

Definition sh_store_file (b : path) (name buf : list N) (ow : bool) : prog (outcome (resval B)) :=
  let p := unchecked_path b name in
  if ow then sh_write p buf
  else Do (CExists p) (fun r =>
       match r with
       | RBool true => Ret IOErr           (* OSError("file at ... already exists") *)
       | RErr _ => Ret IOErr
       | _ => sh_write p buf
       end).

(* file-level operations only; chunk operations belong to the shard writer /
   reader models (Shard/*.v) *)
Definition sh_op_prog (b : path) (o : op) : prog (outcome (resval B)) :=
  match o with
  | OStoreFile n buf _ ow => sh_store_file b n buf ow
  | OFetchFile n => sh_fetch_file b n
  | OExists n => sh_file_exists b n
  | _ => Ret (Crash NotImplementedError)
  end.

Fixpoint sh_run_ops (b : path) (t : fs B) (ops : list op) : list (outcome (resval B)) * fs B :=
  match ops with
  | [] => ([], t)
  | o :: r => let '(x, t1) := run B (plain []) t (sh_op_prog b o) in
              let '(xs, t2) := sh_run_ops b t1 r in (x :: xs, t2)
  end.

End SH.
