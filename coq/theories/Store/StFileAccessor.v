(* Model of file_accessor.FileAccessor exactly as coded, followed by the
   independent specification functions of C12 (documented paths, name
   normalisation, the abstract map name -> bytes).

   gzip is an oracle: [gz]/[gunzip] are Section variables; file contents have
   an abstract type [B] with [plain : bytes -> B].  In the executable model B
   is a tagged value (StBlob below) and the harness checks the tags against
   the real files. *)
From Coq Require Import NArith ZArith List Bool Lia.
From NGS Require Import Val Ints StFS.
Import ListNotations.
Open Scope N_scope.

(* ---------- decimal printing ("{0}".format(int)) ---------- *)

Fixpoint dec_aux (fuel : nat) (n : N) (acc : list N) : list N :=
  match fuel with
  | O => acc
  | S f => let acc' := (48 + n mod 10) :: acc in
           if n <? 10 then acc' else dec_aux f (n / 10) acc'
  end.
Definition dec_N (n : N) : list N := dec_aux (S (N.to_nat (N.log2 n))) n [].
Definition dec_Z (z : Z) : list N :=
  if (z <? 0)%Z then 45 :: dec_N (Z.to_N (- z)) else dec_N (Z.to_N z).

(* ---------- chunk file names ---------- *)

Record coords := { cx0 : Z; cx1 : Z; cy0 : Z; cy1 : Z; cz0 : Z; cz1 : Z }.

Definition dash : N := 45.
Definition usc : N := 95.
Definition axis_name (a b : Z) : list N := dec_Z a ++ dash :: dec_Z b.

(* accessor._CHUNK_PATTERN_FLAT = "{key}/{0}-{1}_{2}-{3}_{4}-{5}" *)
Definition chunk_str_flat (key : list N) (c : coords) : list N :=
  key ++ slash :: axis_name (cx0 c) (cx1 c) ++ usc :: axis_name (cy0 c) (cy1 c)
      ++ usc :: axis_name (cz0 c) (cz1 c).
(* file_accessor._CHUNK_PATTERN_SUBDIR = "{key}/{0}-{1}/{2}-{3}/{4}-{5}" *)
Definition chunk_str_deep (key : list N) (c : coords) : list N :=
  key ++ slash :: axis_name (cx0 c) (cx1 c) ++ slash :: axis_name (cy0 c) (cy1 c)
      ++ slash :: axis_name (cz0 c) (cz1 c).

(* file_accessor.NO_COMPRESS_MIME_TYPES *)
Definition mime_json : list N := [97;112;112;108;105;99;97;116;105;111;110;47;106;115;111;110].
Definition mime_jpeg : list N := [105;109;97;103;101;47;106;112;101;103].
Definition mime_png : list N := [105;109;97;103;101;47;112;110;103].
Definition no_compress_mimes : list (list N) := [mime_json; mime_jpeg; mime_png].
Definition exempt (mime : list N) : bool := existsb (bytes_eqb mime) no_compress_mimes.

Record cfg := { base : path; flat : bool; gzip : bool; level : N }.

(* base_path / relative  (pathlib join: an absolute right operand replaces
   the base) *)
Definition unchecked_path (b : path) (s : list N) : path :=
  match root_kind s with O => b ++ parse_parts s | _ => parse_parts s end.

(* base_path / Path(relative_path), then
     relative_parts = file_path.relative_to(base_path).parts
     if ".." in relative_parts or not relative_parts: raise ValueError     (file methods)
     if ".." in chunk_path.relative_to(base_path).parts: raise ValueError   (_chunk_path)
   None = ValueError (from relative_to or from the explicit check), raised
   before any file-system primitive: the outcome [Refused].
   [need_name] = true for the file methods (the dataset directory itself is
   not a file name), false for chunk paths (they always have a last component). *)
Definition rel_ok (need_name : bool) (rel : path) : bool :=
  negb (existsb is_dotdot rel) && negb (need_name && match rel with [] => true | _ => false end).
Definition checked_path_gen (need_name : bool) (b : path) (s : list N) : option path :=
  let parts := parse_parts s in
  match root_kind s with
  | O => if rel_ok need_name parts then Some (b ++ parts) else None
  | 1%nat => if is_prefix b parts
             then (if rel_ok need_name (skipn (length b) parts) then Some parts else None)
             else None
  | _ => None
  end.
Definition checked_path (b : path) (s : list N) : option path := checked_path_gen true b s.

Inductive gzres := GzOk (b : list N) | GzBad | GzEOF | GzZlib.

Inductive resval (B : Type) := VUnit | VBool (b : bool) | VData (d : B).
Arguments VUnit {B}.
Arguments VBool {B} b.
Arguments VData {B} d.

Inductive op :=
| OStoreFile (name buf mime : list N) (ow : bool)
| OFetchFile (name : list N)
| OExists (name : list N)
| OStoreChunk (key : list N) (c : coords) (buf mime : list N) (ow : bool)
| OFetchChunk (key : list N) (c : coords).

Section FA.
Variable B : Type.
Variable plain : list N -> B.
Variable gz : N -> list N -> B.          (* gzip.open(..., compresslevel).write *)
Variable gunzip : B -> gzres.            (* gzip.open(...).read() *)

Notation prog := (prog B).

(* open(target, "wb" | "xb"); write; close.  Every OSError becomes DataAccessError. *)
Definition write_it (target : path) (data : B) (ow : bool) : prog (outcome (resval B)) :=
  Do (COpen target (if ow then MW else MX)) (fun r =>
  match r with
  | RErr _ => Ret AccessErr
  | _ =>
    Do (CWrite target data) (fun r =>
    match r with
    | RErr _ => Do (CClose target) (fun _ => Ret AccessErr)
    | _ => Do (CClose target) (fun r =>
           match r with RErr _ => Ret AccessErr | _ => Ret (Ok VUnit) end)
    end)
  end).

(* os.makedirs(parent); then the form NOT being written (plain vs .gz) must
   not survive (_drop_other_form): if other.is_file(): FileExistsError when
   overwrite is False, else other.unlink(); then open / write / close. *)
Definition store_at (c : cfg) (fp : path) (buf mime : list N) (ow : bool)
  : prog (outcome (resval B)) :=
  Do (CMakedirs (parent fp)) (fun r =>
  match r with
  | RErr _ => Ret AccessErr
  | _ =>
    let zip := gzip c && negb (exempt mime) in
    let target := if zip then with_gz fp else fp in
    let other := if zip then fp else with_gz fp in
    let data := if zip then gz (level c) buf else plain buf in
    Do (CIsFile other) (fun r =>
    match r with
    | RErr _ => Ret AccessErr
    | RBool true =>
        if ow then Do (CUnlink other) (fun r =>
                     match r with RErr _ => Ret AccessErr | _ => write_it target data ow end)
        else Ret AccessErr                       (* FileExistsError *)
    | _ => write_it target data ow
    end)
  end).

Definition gunzip_out (d : B) : outcome (resval B) :=
  match gunzip d with
  | GzOk b => Ok (VData (plain b))
  | GzBad => AccessErr                  (* gzip.BadGzipFile is an OSError *)
  | GzEOF => AccessErr                  (* except (OSError, EOFError, zlib.error) *)
  | GzZlib => AccessErr
  end.

(* with f: return f.read() *)
Definition read_handle (p : path) (zipped : bool) : prog (outcome (resval B)) :=
  Do (CRead p) (fun r =>
  match r with
  | RData d => Do (CClose p) (fun r =>
                 match r with
                 | RErr _ => Ret AccessErr        (* OSError from __exit__ *)
                 | _ => Ret (if zipped then gunzip_out d else Ok (VData d))
                 end)
  | _ => Do (CClose p) (fun _ => Ret AccessErr)
  end).

(* if p.is_file(): f = open(p) elif p.gz.is_file(): f = gzip.open(p.gz) *)
Definition probe {A} (p : path) (f : option (path * bool)) (fail : prog A)
           (k : option (path * bool) -> prog A) : prog A :=
  Do (CIsFile p) (fun r =>
  match r with
  | RErr _ => fail
  | RBool true =>
      Do (COpen p MR) (fun r => match r with RErr _ => fail | _ => k (Some (p, false)) end)
  | _ =>
      Do (CIsFile (with_gz p)) (fun r =>
      match r with
      | RErr _ => fail
      | RBool true =>
          Do (COpen (with_gz p) MR) (fun r =>
            match r with RErr _ => fail | _ => k (Some (with_gz p, true)) end)
      | _ => k f
      end)
  end).

Definition fa_store_file (c : cfg) (name buf mime : list N) (ow : bool) :=
  match checked_path (base c) name with
  | None => Ret Refused
  | Some fp => store_at c fp buf mime ow
  end.

Definition fa_fetch_file (c : cfg) (name : list N) : prog (outcome (resval B)) :=
  match checked_path (base c) name with
  | None => Ret Refused
  | Some fp =>
      probe fp None (Ret AccessErr) (fun f =>
        match f with
        | None => Ret AccessErr
        | Some (p, z) => read_handle p z
        end)
  end.

Definition fa_file_exists (c : cfg) (name : list N) : prog (outcome (resval B)) :=
  match checked_path (base c) name with
  | None => Ret Refused
  | Some fp =>
      Do (CIsFile fp) (fun r =>
      match r with
      | RErr _ => Ret AccessErr
      | RBool true => Ret (Ok (VBool true))
      | _ => Do (CIsFile (with_gz fp)) (fun r =>
             match r with
             | RErr _ => Ret AccessErr
             | RBool b => Ret (Ok (VBool b))
             | _ => Ret (Ok (VBool false))
             end)
      end)
  end.

(* FileAccessor._chunk_path: None = ValueError *)
Definition chunk_path (c : cfg) (is_flat : bool) (key : list N) (co : coords) : option path :=
  checked_path_gen false (base c) (if is_flat then chunk_str_flat key co else chunk_str_deep key co).

Definition fa_store_chunk (c : cfg) (key : list N) (co : coords) (buf mime : list N) (ow : bool) :=
  match chunk_path c (flat c) key co with
  | None => Ret Refused
  | Some fp => store_at c fp buf mime ow
  end.

(* probes flat then deep and keeps probing after a hit: the last match wins;
   a handle opened for an earlier match is simply dropped *)
Definition fa_fetch_chunk (c : cfg) (key : list N) (co : coords) : prog (outcome (resval B)) :=
  match chunk_path c true key co with
  | None => Ret Refused                  (* raised by the first _chunk_path, before any probe *)
  | Some pf =>
  probe pf None (Ret AccessErr) (fun f1 =>
  match chunk_path c false key co with
  | None => Ret Refused
  | Some pd =>
  probe pd f1 (Ret AccessErr) (fun f2 =>
    match f2 with
    | None => Ret AccessErr
    | Some (p, z) => read_handle p z
    end)
  end)
  end.

Definition op_prog (c : cfg) (o : op) : prog (outcome (resval B)) :=
  match o with
  | OStoreFile n b m ow => fa_store_file c n b m ow
  | OFetchFile n => fa_fetch_file c n
  | OExists n => fa_file_exists c n
  | OStoreChunk k co b m ow => fa_store_chunk c k co b m ow
  | OFetchChunk k co => fa_fetch_chunk c k co
  end.

Definition run_op (c : cfg) (t : fs B) (o : op) : outcome (resval B) * fs B :=
  run B (plain []) t (op_prog c o).

Fixpoint run_ops (c : cfg) (t : fs B) (ops : list op) : list (outcome (resval B)) * fs B :=
  match ops with
  | [] => ([], t)
  | o :: r => let '(x, t1) := run_op c t o in
              let '(xs, t2) := run_ops c t1 r in (x :: xs, t2)
  end.

End FA.

(* ====================================================================== *)
(* Specification side (written from the property statement and the
   documentation docs/serving-data.rst, not from the code).               *)

(* Documented chunk locations, as component lists below the dataset dir. *)
Definition spec_axis (a b : Z) : comp := dec_Z a ++ [45] ++ dec_Z b.
Definition spec_flat_name (c : coords) : comp :=
  spec_axis (cx0 c) (cx1 c) ++ [95] ++ spec_axis (cy0 c) (cy1 c) ++ [95] ++ spec_axis (cz0 c) (cz1 c).
Definition spec_chunk_rel (is_flat : bool) (key : comp) (c : coords) : path :=
  if is_flat then [key; spec_flat_name c]
  else [key; spec_axis (cx0 c) (cx1 c); spec_axis (cy0 c) (cy1 c); spec_axis (cz0 c) (cz1 c)].

(* a simple component: non-empty, no '/', not "." or ".." *)
Definition simple_comp (k : comp) : bool :=
  negb (existsb (N.eqb slash) k) && keep_comp k && negb (is_dotdot k).

(* Names: a relative name denotes the list of its non-empty, non-"."
   components; names that are absolute or mention ".." are not acceptable. *)
Definition is_absolute (s : list N) : bool :=
  match s with a :: _ => a =? 47 | [] => false end.
Definition spec_norm (s : list N) : option path :=
  if is_absolute s then None else
  let parts := filter keep_comp (split_slash s) in
  if existsb is_dotdot parts then None else
  match parts with [] => None | _ => Some parts end.    (* the dataset directory is not a file name *)

(* scale keys: a relative path (possibly several components, possibly none
   for "."), never empty, never absolute, never mentioning ".." *)
Definition spec_key (k : list N) : option path :=
  match k with
  | [] => None
  | _ => if is_absolute k then None else
         let parts := filter keep_comp (split_slash k) in
         if existsb is_dotdot parts then None else Some parts
  end.
Definition spec_chunk_tail (is_flat : bool) (c : coords) : path :=
  if is_flat then [spec_flat_name c]
  else [spec_axis (cx0 c) (cx1 c); spec_axis (cy0 c) (cy1 c); spec_axis (cz0 c) (cz1 c)].
Definition spec_chunk_name (is_flat : bool) (k : list N) (c : coords) : option path :=
  match spec_key k with Some kp => Some (kp ++ spec_chunk_tail is_flat c) | None => None end.

(* the abstract dataset: name -> bytes *)
Definition amap := list (path * list N).
Fixpoint aget (m : amap) (n : path) : option (list N) :=
  match m with
  | [] => None
  | (k, v) :: r => if path_eqb k n then Some v else aget r n
  end.
Definition aset (m : amap) (n : path) (v : list N) : amap := (n, v) :: m.

Inductive aval := AUnit | ABool (b : bool) | AData (d : list N).

Definition spec_store (m : amap) (n : path) (buf : list N) (ow : bool) : outcome aval * amap :=
  match aget m n with
  | Some _ => if ow then (Ok AUnit, aset m n buf) else (AccessErr, m)
  | None => (Ok AUnit, aset m n buf)
  end.
Definition spec_fetch (m : amap) (n : path) : outcome aval :=
  match aget m n with Some b => Ok (AData b) | None => AccessErr end.
Definition spec_exists (m : amap) (n : path) : outcome aval :=
  match aget m n with Some _ => Ok (ABool true) | None => Ok (ABool false) end.

(* the abstract name an operation talks about under a layout *)
Definition op_name (is_flat : bool) (o : op) : option path :=
  match o with
  | OStoreFile n _ _ _ | OFetchFile n | OExists n => spec_norm n
  | OStoreChunk k c _ _ _ | OFetchChunk k c => spec_chunk_name is_flat k c
  end.

Definition spec_op (is_flat : bool) (m : amap) (o : op) : outcome aval * amap :=
  match op_name is_flat o with
  | None => (Refused, m)
  | Some n =>
      match o with
      | OStoreFile _ b _ ow | OStoreChunk _ _ b _ ow => spec_store m n b ow
      | OFetchFile _ | OFetchChunk _ _ => (spec_fetch m n, m)
      | OExists _ => (spec_exists m n, m)
      end
  end.

Fixpoint spec_ops (is_flat : bool) (m : amap) (ops : list op) : list (outcome aval) * amap :=
  match ops with
  | [] => ([], m)
  | o :: r => let '(x, m1) := spec_op is_flat m o in
              let '(xs, m2) := spec_ops is_flat m1 r in (x :: xs, m2)
  end.

(* ---------- executable instance of the content type ---------- *)

(* BPlain b: the file holds exactly b.  BGz l b: the file holds a gzip stream
   written by gzip.open(..., compresslevel=l) from payload b (header bytes
   depend on time and file name, so the model does not predict them; the
   harness checks that the real file gunzips to b and has a valid header).
   BCut d k: a file left by an interrupted write of d: class k = 0 empty,
   otherwise a non-empty proper prefix. *)
Inductive blob :=
| BPlain (b : list N)
| BGz (l : N) (b : list N)
| BCut (k : N) (of : blob).

(* gunzip on the executable side: exact on BGz; on plain bytes the class is
   looked up in a table supplied by the harness (real gzip's answer) *)
Definition gz_table := list (list N * gzres).
Fixpoint gz_lookup (tb : gz_table) (b : list N) : gzres :=
  match tb with
  | [] => GzBad
  | (k, r) :: rest => if bytes_eqb k b then r else gz_lookup rest b
  end.
Definition blob_gunzip (tb : gz_table) (d : blob) : gzres :=
  match d with
  | BGz _ b => GzOk b
  | BPlain [] => GzOk []              (* an empty file reads as empty data *)
  | BPlain b => gz_lookup tb b
  | BCut 0 _ => GzOk []
  | BCut 1 (BGz _ _) => GzBad         (* a single byte: "Not a gzipped file" (BadGzipFile, an OSError) *)
  | BCut _ (BGz _ _) => GzEOF         (* >= 2 bytes of a gzip stream: EOFError; class checked by the harness *)
  | BCut _ _ => GzBad
  end.
