(* Models of
     - accessor.get_accessor_for_url (URL splitting, options, info sniffing),
       accessor.convert_file_url_to_pathname;
     - http_accessor.HttpAccessor;
     - the HTTP-side logic of sharded_http_accessor (HEAD probes, Range
       requests + length check, which dictionary fetch_cmc_chunk consults);
     - [serve]: the static web server that docs/serving-data.rst prescribes
       (flat URL -> deep path rewrite, gzip_static, Range).
   The transport (requests/urllib3/TCP) is an oracle: a server is a function
   from request number and request to response. *)
From Coq Require Import NArith ZArith List Bool Lia.
From NGS Require Import Val Ints StFS StFileAccessor StSharded.
Import ListNotations.
Open Scope N_scope.

(* ---------- byte-string helpers ---------- *)

Fixpoint starts_with (pre s : list N) : bool :=
  match pre, s with
  | [], _ => true
  | a :: p, b :: r => (a =? b) && starts_with p r
  | _ :: _, [] => false
  end.

Fixpoint find_byte (c : N) (s : list N) : option nat :=
  match s with
  | [] => None
  | a :: r => if a =? c then Some O else option_map S (find_byte c r)
  end.

Definition lower (c : N) : N := if (65 <=? c) && (c <=? 90) then c + 32 else c.
Definition is_alpha (c : N) : bool := let l := lower c in (97 <=? l) && (l <=? 122).
Definition is_digit (c : N) : bool := (48 <=? c) && (c <=? 57).
Definition scheme_char (c : N) : bool :=
  is_alpha c || is_digit c || (c =? 43) || (c =? 45) || (c =? 46).

Fixpoint lstrip_c0 (s : list N) : list N :=
  match s with a :: r => if a <=? 32 then lstrip_c0 r else s | [] => [] end.
Definition drop_unsafe (s : list N) : list N :=
  filter (fun c => negb ((c =? 9) || (c =? 10) || (c =? 13))) s.

Definition s_precomputed : list N := [112;114;101;99;111;109;112;117;116;101;100;58;47;47].
Definition strip_precomputed (url : list N) : list N :=
  if starts_with s_precomputed url then skipn (length s_precomputed) url else url.

(* urllib.parse.urlsplit, for URLs whose netloc is ASCII without brackets *)
Record split := { u_scheme : list N; u_netloc : list N; u_path : list N;
                  u_query : list N; u_frag : list N }.

Fixpoint first_delim (s : list N) : nat :=       (* index of first of "/?#" or length *)
  match s with
  | [] => O
  | a :: r => if (a =? 47) || (a =? 63) || (a =? 35) then O else S (first_delim r)
  end.

Definition urlsplit (url0 : list N) : split :=
  let url := drop_unsafe (lstrip_c0 url0) in
  let '(scheme, url) :=
    match find_byte 58 url, url with
    | Some (S i), c0 :: _ =>
        if is_alpha c0 && forallb scheme_char (firstn (S i) url)
        then (map lower (firstn (S i) url), skipn (S (S i)) url)
        else ([], url)
    | _, _ => ([], url)
    end in
  let '(netloc, url) :=
    match url with
    | 47 :: 47 :: r => let d := first_delim r in (firstn d r, skipn d r)
    | _ => ([], url)
    end in
  let '(url, frag) :=
    match find_byte 35 url with
    | Some i => (firstn i url, skipn (S i) url)
    | None => (url, [])
    end in
  let '(url, query) :=
    match find_byte 63 url with
    | Some i => (firstn i url, skipn (S i) url)
    | None => (url, [])
    end in
  {| u_scheme := scheme; u_netloc := netloc; u_path := url; u_query := query; u_frag := frag |}.

Definition s_file : list N := [102;105;108;101].
Definition s_http : list N := [104;116;116;112].
Definition s_https : list N := [104;116;116;112;115].
Definition s_localhost : list N := [108;111;99;97;108;104;111;115;116].

(* urllib.parse.unquote(path, errors="strict") on the UTF-8 bytes of the
   string: escapes are decoded inside each maximal ASCII run and every run
   must decode to valid UTF-8 *)
Definition hexval (c : N) : option N :=
  if is_digit c then Some (c - 48)
  else let l := lower c in if (97 <=? l) && (l <=? 102) then Some (l - 87) else None.

Fixpoint unquote_run (s : list N) : list N :=
  match s with
  | 37 :: r =>
      match r with
      | a :: b :: r2 =>
          match hexval a, hexval b with
          | Some x, Some y => (16 * x + y) :: unquote_run r2
          | _, _ => 37 :: unquote_run r
          end
      | _ => 37 :: unquote_run r
      end
  | c :: r => c :: unquote_run r
  | [] => []
  end.

Definition cont (b : N) : bool := (128 <=? b) && (b <=? 191).
Fixpoint utf8_ok (l : list N) : bool :=
  match l with
  | [] => true
  | a :: r =>
      if a <? 128 then utf8_ok r
      else if (194 <=? a) && (a <=? 223) then
        match r with b :: r1 => cont b && utf8_ok r1 | _ => false end
      else if (224 <=? a) && (a <=? 239) then
        match r with
        | b :: c :: r2 =>
            cont b && cont c && (if a =? 224 then 160 <=? b else true)
            && (if a =? 237 then b <=? 159 else true) && utf8_ok r2
        | _ => false end
      else if (240 <=? a) && (a <=? 244) then
        match r with
        | b :: c :: d :: r3 =>
            cont b && cont c && cont d && (if a =? 240 then 144 <=? b else true)
            && (if a =? 244 then b <=? 143 else true) && utf8_ok r3
        | _ => false end
      else false
  end.

(* split into maximal runs of ASCII / non-ASCII bytes *)
Fixpoint runs_aux (s : list N) (cur : list N) (ascii : bool) : list (bool * list N) :=
  match s with
  | [] => [(ascii, rev cur)]
  | c :: r => if Bool.eqb (c <? 128) ascii then runs_aux r (c :: cur) ascii
              else (ascii, rev cur) :: runs_aux r [c] (c <? 128)
  end.
Definition unquote_strict (s : list N) : option (list N) :=
  if negb (existsb (N.eqb 37) s) then Some s else
  let parts := map (fun '(a, r) => if (a : bool) then unquote_run r else r) (runs_aux s [] true) in
  if forallb (fun '(a, r) => if (a : bool) then utf8_ok (unquote_run r) else true) (runs_aux s [] true)
  then Some (concat parts) else None.

Inductive url_res (A : Type) := UOk (a : A) | UrlError.
Arguments UOk {A} a.
Arguments UrlError {A}.

(* accessor._convert_split_file_url_to_pathname *)
Definition split_to_pathname (r : split) : url_res (list N) :=
  match u_scheme r with
  | [] => UOk (u_path r)
  | sch =>
      if bytes_eqb sch s_file then
        if negb (bytes_eqb (u_netloc r) [] || bytes_eqb (u_netloc r) s_localhost) then UrlError
        else match unquote_strict (u_path r) with Some p => UOk p | None => UrlError end
      else UrlError
  end.
Definition convert_file_url_to_pathname (url : list N) : url_res (list N) :=
  split_to_pathname (urlsplit (strip_precomputed url)).

(* ---------- parsed info (JSON is an oracle) ---------- *)
(* What json.loads, ShardedAccessorBase.info_is_sharded and the info setter
   of ShardedAccessorBase see:
   PBadJson      json.JSONDecodeError (caught by get_accessor_for_url)
   PCrash k      json.loads raises something else (UnicodeDecodeError), or
                 "scales" is a truthy non-iterable: both users crash with k
   PNotDict      valid JSON that is not an object
   PScales l     an object; l describes the entries of "scales" (absent: [])
   per entry:
   SNotDict      the entry is not an object
   SNoSharding   an object without a truthy "sharding"
   SShardingBad  "sharding" is truthy but not an object
   SType t       "sharding" is an object; t is its "@type" when that is a string *)
Inductive pscale := SNotDict | SNoSharding | SShardingBad | SType (t : option (list N)).
Inductive pinfo := PBadJson | PCrash (k : crash) | PNotDict | PScales (l : list pscale).

Definition s_sharded_v1 : list N :=
  [110;101;117;114;111;103;108;97;110;99;101;114;95;117;105;110;116;54;52;95;115;104;97;114;100;101;100;95;118;49].
(* ShardedScaleBase.is_sharded: scale["sharding"]["@type"] == "...", any
   exception -> False *)
Definition scale_is_sharded (s : pscale) : bool :=
  match s with SType (Some t) => bytes_eqb t s_sharded_v1 | _ => false end.
Definition info_is_sharded (l : list pscale) : bool :=
  negb (match l with [] => true | _ => false end) && forallb scale_is_sharded l.

Definition s_info : list N := [105;110;102;111].

(* ---------- HTTP ---------- *)

Inductive meth := GET | HEAD.
Record req := { r_meth : meth; r_url : list N; r_range : option (N * N) }.   (* bytes=a-b *)

Section HTTP.
Variable B : Type.
Variable plain : list N -> B.
Variable gunzip : B -> gzres.
Variable unplain : B -> option (list N).     (* the bytes of an unencoded body *)
Variable parse_info : B -> pinfo.

(* status, Content-Encoding: gzip?, body as received *)
Inductive resp := Resp (status : N) (enc : bool) (body : B) | ConnErr.
Definition server := nat -> req -> resp.

Inductive hprog (A : Type) := HRet (a : A) | HDo (r : req) (k : resp -> hprog A).
Arguments HRet {A} a.
Arguments HDo {A} r k.

Fixpoint hrun {A} (srv : server) (n : nat) (p : hprog A) : A * nat :=
  match p with
  | HRet a => (a, n)
  | HDo r k => hrun srv (S n) (k (srv n r))
  end.
Fixpoint htrace {A} (srv : server) (n : nat) (p : hprog A) : list req :=
  match p with
  | HRet _ => []
  | HDo r k => r :: htrace srv (S n) (k (srv n r))
  end.

Definition is_error_status (s : N) : bool := (400 <=? s) && (s <? 600).

(* HttpAccessor.__init__: base URL normalisation:
   r.path if r.path.endswith("/") else r.path + "/"  (an empty path becomes "/") *)
Definition urlunsplit_base (scheme netloc path : list N) : list N :=
  let url :=
    if negb (bytes_eqb netloc [])
       || (negb (bytes_eqb scheme []) && (bytes_eqb scheme s_http || bytes_eqb scheme s_https
                                           || bytes_eqb scheme s_file)
           && negb (starts_with [47; 47] path))
    then let p := match path with [] => [] | 47 :: _ => path | _ => 47 :: path end in
         47 :: 47 :: netloc ++ p
    else path in
  match scheme with [] => url | _ => scheme ++ 58 :: url end.

Definition http_init (url : list N) : outcome (list N) :=
  let r := urlsplit url in
  let p := match rev (u_path r) with
           | l :: _ => if l =? 47 then u_path r else u_path r ++ [47]
           | [] => [47]
           end in
  Ok (urlunsplit_base (u_scheme r) (u_netloc r) p).

(* what requests hands back as r.content *)
Definition content (enc : bool) (body : B) : option B :=
  if enc then match gunzip body with GzOk b => Some (plain b) | _ => None end
  else Some body.

Definition http_fetch_file (base_url rel : list N) : hprog (outcome B) :=
  HDo {| r_meth := GET; r_url := base_url ++ rel; r_range := None |} (fun r =>
  match r with
  | ConnErr => HRet AccessErr
  | Resp st enc body =>
      if is_error_status st then HRet AccessErr
      else match content enc body with Some c => HRet (Ok c) | None => HRet AccessErr end
  end).

Definition http_file_exists (base_url rel : list N) : hprog (outcome bool) :=
  HDo {| r_meth := HEAD; r_url := base_url ++ rel; r_range := None |} (fun r =>
  match r with
  | ConnErr => HRet AccessErr
  | Resp st _ _ =>
      if st =? 404 then HRet (Ok false)
      else if is_error_status st then HRet AccessErr else HRet (Ok true)
  end).

Definition http_fetch_chunk (base_url key : list N) (c : coords) : hprog (outcome B) :=
  http_fetch_file base_url (chunk_str_flat key c).

(* ---------- sharded HTTP: HttpShard ---------- *)

Definition s_shard : list N := [46;115;104;97;114;100].
Definition s_index : list N := [46;105;110;100;101;120].
Definition s_data : list N := [46;100;97;116;97].

(* HttpShard.file_exists: 200 -> True, 404 -> False, otherwise
   raise_for_status (requests.HTTPError, an OSError: IOErr) and then False.
   A dropped connection is a requests.ConnectionError (also an OSError). *)
Definition hs_file_exists (url : list N) (k : bool -> hprog (outcome B)) : hprog (outcome B) :=
  HDo {| r_meth := HEAD; r_url := url; r_range := None |} (fun r =>
  match r with
  | ConnErr => HRet IOErr
  | Resp st _ _ =>
      if st =? 200 then k true else if st =? 404 then k false
      else if is_error_status st then HRet IOErr else k false
  end).

(* HttpShard.read_bytes: nothing to ask for an empty range; otherwise Range
   GET, raise_for_status, length check *)
Definition hs_read_bytes (shard_url : list N) (legacy : bool) (header_len offset len : N)
           (k : list N -> hprog (outcome B)) : hprog (outcome B) :=
  let '(url, off) :=
    if legacy then
      if offset <? header_len then (shard_url ++ s_index, offset)
      else (shard_url ++ s_data, offset - header_len)
    else (shard_url ++ s_shard, offset) in
  if len =? 0 then k [] else
  (* Python: f"bytes={offset}-{offset+length-1}" on unbounded integers *)
  HDo {| r_meth := GET; r_url := url; r_range := Some (off, off + len - 1) |} (fun r =>
  match r with
  | ConnErr => HRet IOErr
  | Resp st enc body =>
      if is_error_status st then HRet IOErr
      else match content enc body with
           | None => HRet IOErr                       (* requests ContentDecodingError *)
           | Some c =>
               match unplain c with
               | None => HRet (Crash OutOfFuel)       (* outside the model: encoded body kept opaque *)
               | Some bytes => if lenN bytes =? len then k bytes else HRet IOErr   (* ShardedIOError *)
               end
           end
  end).

Fixpoint unle (l : list N) : N := match l with [] => 0 | a :: r => a + 256 * unle r end.
Fixpoint words64 (fuel : nat) (l : list N) : list N :=
  match fuel, l with
  | S f, _ :: _ => unle (firstn 8 l) :: words64 f (skipn 8 l)
  | _, _ => []
  end.
Fixpoint pairs (l : list N) : list (N * N) :=
  match l with a :: b :: r => (a, b) :: pairs r | _ => [] end.

(* The minishard index contents are the shard reader's business (cluster B);
   here only: which byte ranges are requested, and what a decoded index must
   satisfy for ReadableMiniShardCMC to be built:
     idx_decode b   = Some decoded | None (zlib.error)
   len(decoded) % 8 <> 0 -> ValueError (np.frombuffer); (len/8) % 3 <> 0 ->
   ShardedIOError; an empty index -> IndexError on minishard_index[0]. *)
Variable idx_decode : list N -> option (list N).

Definition minishard_ok (dec : list N) : outcome unit :=
  if negb (lenN dec mod 8 =? 0) then Crash ValueError
  else if negb ((lenN dec / 8) mod 3 =? 0) then IOErr
  else if lenN dec =? 0 then Crash IndexError
  else Ok tt.

Fixpoint hs_populate (shard_url : list N) (legacy : bool) (hl : N) (ranges : list (N * N))
         (acc : list (list N)) (k : list (list N) -> hprog (outcome B)) : hprog (outcome B) :=
  match ranges with
  | [] => k (rev acc)
  | (off, en) :: r =>
      (* int(end - offset) on uint64: wraps when end < offset *)
      let len := (en + two64 - off) mod two64 in
      if len =? 0 then hs_populate shard_url legacy hl r acc k
      else hs_read_bytes shard_url legacy hl (off + hl) len (fun raw =>
        match idx_decode raw with
        | None => HRet (Crash ZlibError)
        | Some dec =>
            match minishard_ok dec with
            | Ok _ => hs_populate shard_url legacy hl r (dec :: acc) k
            | Crash c => HRet (Crash c)
            | _ => HRet IOErr
            end
        end)
  end.

(* HttpShard.__init__ followed by fetch_cmc_chunk: the probes, the shard index
   and the minishard indices are read; a shard that is not there is a
   ShardedIOError; fetch_cmc_chunk looks the identifier up in the minishards
   read (ro_minishard_dict, then an assertion on the writer-side dictionary,
   which is empty for a reader) and reads the chunk with one more Range
   request.  Which minishard holds an identifier and where the chunk lies in
   it is the local reader's computation (Shard/ShardReader.v), taken as given:
   [locate idxs id] = Ok (offset, length) | IOErr | Crash AssertionError (no
   minishard for the identifier) | Crash IndexError ... *)
Variable locate : list (list N) -> N -> outcome (N * N).    (* decoded indices, id -> (offset, length) *)
Variable data_decode : list N -> outcome (list N).           (* ShardSpec.data_decoder *)

Definition hs_fetch (scale_url shard_name : list N) (hl : N) (cmc : N)
  : hprog (outcome B) :=
  let su := scale_url ++ shard_name in
  let go (legacy : bool) :=
    hs_read_bytes su legacy hl 0 hl (fun hdr =>
      hs_populate su legacy hl (pairs (words64 (length hdr) hdr)) [] (fun idxs =>
        match locate idxs cmc with
        | Ok (off, len) =>
            hs_read_bytes su legacy hl off len (fun raw =>
              match data_decode raw with
              | Ok b => HRet (Ok (plain b))
              | Crash c => HRet (Crash c)
              | _ => HRet IOErr
              end)
        | Crash c => HRet (Crash c)
        | _ => HRet IOErr
        end)) in
  hs_file_exists (su ++ s_shard) (fun e1 =>
    if e1 then go false
    else hs_file_exists (su ++ s_index) (fun e2 =>
      if e2 then
        hs_file_exists (su ++ s_data) (fun e3 =>
          if e3 then go true else HRet IOErr)     (* ShardedIOError: shard not found *)
      else HRet IOErr)).

(* The same algorithm over an arbitrary byte source: this is the code that
   Shard (local files) and HttpShard share (ShardCMC.__init__,
   populate_minishard_dict, ReadableMiniShardCMC).  [ex suffix]: does
   <shard><suffix> exist; [rd legacy offset length]: read_bytes; [missing]:
   what happens when the shard is not there. *)
Section ALGO.
Variable ex : list N -> outcome bool.
Variable rd : bool -> N -> N -> outcome (list N).
Variable missing : outcome (list N).

Fixpoint populate_pure (legacy : bool) (hl : N) (ranges : list (N * N)) (acc : list (list N))
  : outcome (list (list N)) :=
  match ranges with
  | [] => Ok (rev acc)
  | (off, en) :: r =>
      let len := (en + two64 - off) mod two64 in
      if len =? 0 then populate_pure legacy hl r acc
      else bind (rd legacy (off + hl) len) (fun raw =>
        match idx_decode raw with
        | None => Crash ZlibError
        | Some dec =>
            match minishard_ok dec with
            | Ok _ => populate_pure legacy hl r (dec :: acc)
            | Crash c => Crash c
            | _ => IOErr
            end
        end)
  end.

Definition shard_fetch_pure (hl cmc : N) : outcome (list N) :=
  let go (legacy : bool) :=
    bind (rd legacy 0 hl) (fun hdr =>
    bind (populate_pure legacy hl (pairs (words64 (length hdr) hdr)) []) (fun idxs =>
      match locate idxs cmc with
      | Ok (off, len) =>
          bind (rd legacy off len) (fun raw =>
            match data_decode raw with
            | Ok b => Ok b
            | Crash c => Crash c
            | _ => IOErr
            end)
      | Crash c => Crash c
      | _ => IOErr
      end)) in
  bind (ex s_shard) (fun e1 =>
    if e1 then go false
    else bind (ex s_index) (fun e2 =>
      if e2 then bind (ex s_data) (fun e3 => if e3 then go true else missing)
      else missing)).
End ALGO.

(* ---------- ShardedHttpAccessor.__init__ ---------- *)
(* the info setter: the first offending scale decides.  AttributeError has
   no constructor in Val.crash; it is reported as TypeError (harness
   convention, see harness/props/c14.py) *)
Fixpoint setter_scales (l : list pscale) : outcome unit :=
  match l with
  | [] => Ok tt
  | SNotDict :: _ => Crash TypeError            (* scale.get: AttributeError *)
  | SNoSharding :: _ => IOErr                   (* ShardedIOError: not a sharded source *)
  | SShardingBad :: _ => Crash TypeError        (* sharding.pop: AttributeError / TypeError *)
  | SType t :: r => if scale_is_sharded (SType t) then setter_scales r else IOErr
  end.
Definition sharded_http_ctor_check (p : pinfo) : outcome unit :=
  match p with
  | PBadJson => Crash ValueError               (* json.JSONDecodeError is a ValueError *)
  | PCrash k => Crash k
  | PNotDict => Crash AssertionError           (* ".info must be a dictionary" *)
  | PScales [] => Crash AssertionError         (* ".info must have scales property" *)
  | PScales l => setter_scales l
  end.

(* ---------- get_accessor_for_url ---------- *)

Record options := { o_flat : bool; o_gzip : bool; o_level : N;
                    o_shard_truthy : bool;     (* accessor_options.get("sharding") is truthy *)
                    o_shard_present : bool }.  (* "sharding" in accessor_options *)

Inductive selection :=
| SelFile (c : cfg)
| SelShardedFile (b : path)
| SelHttp (base_url : list N)
| SelShardedHttp (base_url : list N).

Inductive dres :=
| DOk (s : selection)
| DUrlError                       (* accessor.URLError *)
| DErr (o : outcome unit)         (* another exception escapes get_accessor_for_url *)
| DUnmodelled.                    (* relative or empty local pathname: depends on the cwd *)

Definition sniff (fetched : outcome B) : outcome bool :=
  match fetched with
  | Ok d =>
      match parse_info d with
      | PBadJson => Ok false
      | PCrash k => Crash k
      | PNotDict => Crash TypeError         (* info_json.get: AttributeError *)
      | PScales l => Ok (info_is_sharded l)
      end
  | AccessErr => Ok false
  | FormatErr => FormatErr | InfoErr => InfoErr | IOErr => IOErr
  | Refused => Refused | Crash k => Crash k
  end.

Definition err_of {A} (o : outcome A) : outcome unit :=
  match o with
  | Ok _ => Ok tt | FormatErr => FormatErr | InfoErr => InfoErr | AccessErr => AccessErr
  | IOErr => IOErr | Refused => Refused | Crash k => Crash k
  end.

(* the http branch, as a program over the server *)
Definition dispatch_http (url : list N) (o : options) : hprog dres :=
  match http_init url with
  | Ok bu =>
      let finish (sh : bool) : hprog dres :=
        if sh then
          (* ShardedHttpAccessor(url): fetches and checks the info again *)
          HDo {| r_meth := GET; r_url := bu ++ s_info; r_range := None |} (fun r =>
            let fetched :=
              match r with
              | ConnErr => AccessErr
              | Resp st enc body =>
                  if is_error_status st then AccessErr
                  else match content enc body with Some c => Ok c | None => AccessErr end
              end in
            match fetched with
            | Ok d => match sharded_http_ctor_check (parse_info d) with
                      | Ok _ => HRet (DOk (SelShardedHttp bu))
                      | e => HRet (DErr e)
                      end
            | e => HRet (DErr (err_of e))
            end)
        else HRet (DOk (SelHttp bu)) in
      if o_shard_present o then finish true
      else
        HDo {| r_meth := GET; r_url := bu ++ s_info; r_range := None |} (fun r =>
          let fetched :=
            match r with
            | ConnErr => AccessErr
            | Resp st enc body =>
                if is_error_status st then AccessErr
                else match content enc body with Some c => Ok c | None => AccessErr end
            end in
          match sniff fetched with
          | Ok sh => finish sh
          | e => HRet (DErr (err_of e))
          end)
  | e => HRet (DErr (err_of e))
  end.

End HTTP.

Arguments Resp {B} status enc body.
Arguments ConnErr {B}.
Arguments HRet {B A} a.
Arguments HDo {B A} r k.

(* the local branch, as a program over the file system *)
Section DISPATCH_FILE.
Variable B : Type.
Variable plain : list N -> B.
Variable gz : N -> list N -> B.
Variable gunzip : B -> gzres.
Variable parse_info : B -> pinfo.

Definition data_of (o : outcome (resval B)) : outcome B :=
  match o with
  | Ok (VData d) => Ok d
  | Ok _ => Crash TypeError
  | FormatErr => FormatErr | InfoErr => InfoErr | AccessErr => AccessErr | IOErr => IOErr
  | Refused => Refused | Crash k => Crash k
  end.

Fixpoint pmap {A C} (f : A -> C) (p : prog B A) : prog B C :=
  match p with
  | Ret a => Ret (f a)
  | Do c k => Do c (fun r => pmap f (k r))
  end.
Fixpoint pbind {A C} (p : prog B A) (f : A -> prog B C) : prog B C :=
  match p with
  | Ret a => f a
  | Do c k => Do c (fun r => pbind (k r) f)
  end.

Definition dispatch_file (pathname : list N) (o : options) : prog B dres :=
  match root_kind pathname with
  | O => Ret DUnmodelled
  | _ =>
      let b := parse_parts pathname in
      let c := {| base := b; flat := o_flat o; gzip := o_gzip o; level := o_level o |} in
      let sharded : prog B dres :=
        pmap (fun r => match r with Ok _ => DOk (SelShardedFile b) | e => DErr (err_of e) end)
             (sh_ctor B b) in
      if o_shard_truthy o then sharded
      else pbind (fa_fetch_file B plain gunzip c s_info) (fun r =>
             match sniff B parse_info (data_of r) with
             | Ok true => sharded
             | Ok false => Ret (DOk (SelFile c))
             | e => Ret (DErr (err_of e))
             end)
  end.

(* scheme decision of get_accessor_for_url *)
Inductive branch := BrFile (pathname : list N) | BrHttp (url : list N) | BrUrlError.
Definition dispatch_branch (url0 : list N) : branch :=
  let url := strip_precomputed url0 in
  let r := urlsplit url in
  if bytes_eqb (u_scheme r) [] || bytes_eqb (u_scheme r) s_file then
    match split_to_pathname r with UOk p => BrFile p | UrlError => BrUrlError end
  else if bytes_eqb (u_scheme r) s_http || bytes_eqb (u_scheme r) s_https then BrHttp url
  else BrUrlError.

End DISPATCH_FILE.

(* ====================================================================== *)
(* serve: the documented static server over a file system.

   docs/serving-data.rst: nginx with
       gzip_static always;   gunzip off;
       location ~ ^PREFIX/([0-9]+-[0-9]+)_([0-9]+-[0-9]+)_([0-9]+-[0-9]+)$ { alias PREFIX/$2/$3/$4; }
       (PREFIX is the regex group 1, any string)
   for the deep layout; "Flat layout: ... you do not need to configure any URL
   rewriting"; sharded data: no Content-Encoding, Range support. *)

Record scfg := { s_origin : list N;          (* "http://host:port" *)
                 s_root : path;              (* document root in the fs *)
                 s_rewrite : bool;           (* the flat -> deep location block *)
                 s_gzip_static : bool }.

(* [0-9]+-[0-9]+ *)
Fixpoint all_digits (l : list N) : bool :=
  match l with [] => true | a :: r => is_digit a && all_digits r end.
Definition axis_re (s : list N) : bool :=
  match find_byte 45 s with
  | Some i => let a := firstn i s in let b := skipn (S i) s in
              negb (bytes_eqb a []) && negb (bytes_eqb b []) && all_digits a && all_digits b
  | None => false
  end.
Fixpoint split_on (c : N) (s cur : list N) : list (list N) :=
  match s with
  | [] => [rev cur]
  | a :: r => if a =? c then rev cur :: split_on c r [] else split_on c r (a :: cur)
  end.
(* the last URL component, if it has the flat chunk shape: its three axes *)
Definition flat_axes (name : comp) : option (comp * comp * comp) :=
  match split_on 95 name [] with
  | [a; b; c] => if axis_re a && axis_re b && axis_re c then Some (a, b, c) else None
  | _ => None
  end.

Definition url_to_parts (sc : scfg) (url : list N) : option path :=
  if starts_with (s_origin sc) url
  then Some (filter (fun c => negb (bytes_eqb c [])) (split_slash (skipn (length (s_origin sc)) url)))
  else None.

(* the rewrite block: PREFIX/x-X_y-Y_z-Z -> PREFIX/x-X/y-Y/z-Z (PREFIX non-empty) *)
Definition rewrite_target (parts : path) : path :=
  match rev parts with
  | name :: ((_ :: _) as rh) =>
      match flat_axes name with
      | Some (a, b, c) => rev rh ++ [a; b; c]
      | None => parts
      end
  | _ => parts
  end.

Section SERVE.
Variable B : Type.
Variable empty : B.
Variable slice : B -> N -> N -> option B.   (* bytes a..b inclusive, clipped; None if a >= length *)

Definition file_at (t : fs B) (p : path) : option B :=
  if existsb is_dotdot p then None else
  match lookup B t p with Some (File b) => Some b | _ => None end.

(* the server after URL parsing: request path components, method, range *)
Definition serve_parts (sc : scfg) (t : fs B) (parts : path) (m : meth) (rg : option (N * N)) : resp B :=
  let target := if s_rewrite sc then rewrite_target parts else parts in
  let full := s_root sc ++ target in
  let found : option (bool * B) :=
    match (if s_gzip_static sc then file_at t (with_gz full) else None) with
    | Some z => Some (true, z)
    | None => match file_at t full with Some d => Some (false, d) | None => None end
    end in
  match found with
  | None => Resp 404 false empty
  | Some (enc, d) =>
      match m with
      | HEAD => Resp 200 enc empty
      | GET =>
          match rg with
          | None => Resp 200 enc d
          | Some (a, b) =>
              if b <? a then Resp 200 enc d            (* malformed range: ignored *)
              else match slice d a b with
                   | Some s => Resp 206 enc s
                   | None => Resp 416 false empty
                   end
          end
      end
  end.

Definition serve (sc : scfg) (t : fs B) : server B :=
  fun _ rq =>
  match url_to_parts sc (r_url rq) with
  | None => ConnErr
  | Some parts => serve_parts sc t parts (r_meth rq) (r_range rq)
  end.
End SERVE.

(* ====================================================================== *)
(* The local shard reader's file access (Shard.file_exists / read_bytes of
   sharded_file_accessor.py): is_file probes, and seek + read of the shard
   file (or of the legacy .index / .data pair).  [checked] = true adds the
   length check that only the HTTP reader performs. *)
Section LOCAL_SHARD.
Variable B : Type.
Variable unplain : B -> option (list N).

Definition shard_file (dir : path) (name suffix : list N) : path := dir ++ [name ++ suffix].

Definition local_ex (t : fs B) (dir : path) (name suffix : list N) : outcome bool :=
  Ok (is_file B t (shard_file dir name suffix)).

Definition pick (legacy : bool) (hl off : N) : list N * N :=
  if legacy then if off <? hl then (s_index, off) else (s_data, off - hl) else (s_shard, off).

Definition local_rd (checked : bool) (t : fs B) (dir : path) (name : list N) (hl : N)
           (legacy : bool) (off len : N) : outcome (list N) :=
  if len =? 0 then Ok [] else
  let '(suffix, o) := pick legacy hl off in
  match lookup B t (shard_file dir name suffix) with
  | Some (File d) =>
      match unplain d with
      | None => Crash OutOfFuel            (* outside the model: not a plain file *)
      | Some x =>
          let y := firstn (N.to_nat len) (skipn (N.to_nat o) x) in     (* fp.seek(o); fp.read(len) *)
          if checked && negb (lenN y =? len) then IOErr else Ok y
      end
  | _ => IOErr
  end.
End LOCAL_SHARD.
