(* Proofs for C18: a failing primitive makes the operation fail with the
   accessor's error and leaves the other names' files untouched; interrupted
   stores leave a state in which the reader finds the old content, the new
   content, a prefix of the new content (uncompressed files: as-is), or a
   detectable error. *)
From Coq Require Import NArith ZArith Arith List Bool Lia.
From NGS Require Import Val Ints StFS StFSProofs StFileAccessor StFileAccessorProofs
                        StRefineProofs StSharded StFaults.
Import ListNotations.
Open Scope N_scope.

Section SAFE.
Variable B : Type.
Variable empty : B.
Variable trunc : B -> B.

Definition ends_err {A} (err : A) (p : prog B A) : Prop :=
  forall t, fst (run B empty t p) = err.

(* every continuation, when handed an OSError, ends in [err] *)
Fixpoint fault_safe {A} (err : A) (p : prog B A) : Prop :=
  match p with
  | Ret _ => True
  | Do c k => (forall e, ends_err err (k (RErr e))) /\ forall r, fault_safe err (k r)
  end.

(* a single fault either turns the result into [err] or never fires *)
Theorem fault_safe_sound : forall A (err : A) (p : prog B A), fault_safe err p ->
  forall k e t,
    fst (run_fault B empty trunc k e t p) = err \/
    run_fault B empty trunc k e t p = run B empty t p.
Proof.
  intros A err p. induction p as [a | c kont IH]; intros Hs k e t.
  - right. destruct k; reflexivity.
  - destruct Hs as [He Hr]. destruct k as [|k'].
    + left. simpl. apply He.
    + simpl. destruct (exec_call B empty t c) as [r t'] eqn:Ec.
      destruct (IH r (Hr r) k' e t') as [H|H]; [left; exact H | right; exact H].
Qed.

(* reads never modify the tree, with or without a fault *)
Definition read_call (c : call B) : bool :=
  match c with
  | CIsFile _ | CExists _ | CRead _ | CClose _ | COpen _ MR => true
  | _ => false
  end.
Fixpoint read_only {A} (p : prog B A) : Prop :=
  match p with
  | Ret _ => True
  | Do c k => read_call c = true /\ forall r, read_only (k r)
  end.

Lemma exec_read_call : forall t c, read_call c = true -> snd (exec_call B empty t c) = t.
Proof.
  intros t c H. destruct c as [p|p|p|p|p m|p d|p|p]; try discriminate; simpl; try reflexivity.
  - destruct m; try discriminate. unfold open_.
    destruct (resolve B t p) as [e|q]; [reflexivity|].
    destruct (lookup B t q) as [[b|]|]; reflexivity.
  - destruct (read_at B t p); reflexivity.
Qed.

Lemma read_only_run : forall A (p : prog B A), read_only p -> forall t, snd (run B empty t p) = t.
Proof.
  intros A p. induction p as [a | c kont IH]; intros Hr t; [reflexivity|].
  destruct Hr as [Hc Hk]. simpl.
  pose proof (exec_read_call t c Hc) as He.
  destruct (exec_call B empty t c) as [r t']. simpl in He. subst t'. apply IH, Hk.
Qed.

Theorem read_only_fault : forall A (p : prog B A), read_only p ->
  forall k e t, snd (run_fault B empty trunc k e t p) = t.
Proof.
  intros A p. induction p as [a | c kont IH]; intros Hr k e t.
  - destruct k; reflexivity.
  - destruct Hr as [Hc Hk]. destruct k as [|k'].
    + simpl. assert (Hf : fail_effect B trunc t c = t) by (destruct c; try discriminate; reflexivity).
      rewrite Hf. apply read_only_run, Hk.
    + simpl. pose proof (exec_read_call t c Hc) as He.
      destruct (exec_call B empty t c) as [r t']. simpl in He. subst t'. apply IH, Hk.
Qed.

End SAFE.

Definition is_read_op (o : op) : bool :=
  match o with OFetchFile _ | OExists _ | OFetchChunk _ _ => true | _ => false end.

(* ---------- the accessors' programs are fault-safe ---------- *)

Section ACC.
Variable B : Type.
Variable plain : list N -> B.
Variable gz : N -> list N -> B.
Variable gunzip : B -> gzres.
Variable trunc : B -> B.
Notation empty := (plain []).

Ltac ends := let t := fresh "t" in intro t; reflexivity.

Lemma safe_read_handle : forall p z,
  fault_safe B empty AccessErr (read_handle B plain gunzip p z).
Proof.
  intros p z. unfold read_handle. simpl. split; [intro e; ends|].
  intros [b| |d|e]; simpl; (split; [intro e'; ends | intros r; destruct r; exact I]).
Qed.

Lemma safe_probe : forall p f (k : option (path * bool) -> prog B (outcome (resval B))),
  (forall f', fault_safe B empty AccessErr (k f')) ->
  fault_safe B empty AccessErr (probe B p f (Ret AccessErr) k).
Proof.
  intros p f k Hk. unfold probe. simpl. split; [intro e; ends|].
  intros [[|]| |d|e]; simpl; try exact I.
  - split; [intro e; ends|]. intros [b| |d|e]; simpl; try exact I; apply Hk.
  - split; [intro e; ends|]. intros [[|]| |d|e]; simpl; try exact I; try apply Hk.
    split; [intro e; ends|]. intros [b| |d|e]; simpl; try exact I; apply Hk.
  - split; [intro e; ends|]. intros [[|]| |d'|e]; simpl; try exact I; try apply Hk.
    split; [intro e; ends|]. intros [b| |d''|e]; simpl; try exact I; apply Hk.
  - split; [intro e; ends|]. intros [[|]| |d'|e]; simpl; try exact I; try apply Hk.
    split; [intro e; ends|]. intros [b| |d''|e]; simpl; try exact I; apply Hk.
Qed.

Lemma safe_write_it : forall target data ow,
  fault_safe B empty AccessErr (write_it B target data ow).
Proof.
  intros target data ow. unfold write_it. simpl. split; [intro e; ends|].
  intros [b1| |d1|e1]; simpl; try exact I;
    (split; [intro e2; ends|]; intros [b2| |d2|e2]; simpl;
     (split; [intro e3; ends | intros r; destruct r; exact I])).
Qed.

Lemma ends_access : ends_err B empty (AccessErr : outcome (resval B)) (Ret AccessErr).
Proof. intro t. reflexivity. Qed.

Lemma safe_store_at : forall c fp buf mime ow,
  fault_safe B empty AccessErr (store_at B plain gz c fp buf mime ow).
Proof.
  intros c fp buf mime ow. unfold store_at. cbn [fault_safe]. split; [intro e; ends|].
  assert (Hrest : forall r1 : reply B,
    fault_safe B empty AccessErr
      match r1 with
      | RErr _ => Ret AccessErr
      | RBool true =>
          if ow
          then Do (CUnlink (if gzip c && negb (exempt mime) then fp else with_gz fp))
                 (fun r => match r with
                           | RErr _ => Ret AccessErr
                           | _ => write_it B (if gzip c && negb (exempt mime) then with_gz fp else fp)
                                    (if gzip c && negb (exempt mime) then gz (level c) buf else plain buf) ow
                           end)
          else Ret AccessErr
      | _ => write_it B (if gzip c && negb (exempt mime) then with_gz fp else fp)
               (if gzip c && negb (exempt mime) then gz (level c) buf else plain buf) ow
      end).
  { intros r1. destruct r1 as [[|]| |d1|e1]; try exact I; try apply safe_write_it.
    destruct ow; [|exact I]. cbn [fault_safe]. split; [intro e; ends|].
    intros r2. destruct r2; try exact I; apply safe_write_it. }
  intros r0. destruct r0 as [x| |d|e]; try exact I;
    (cbn [fault_safe]; split; [intro e'; ends | exact Hrest]).
Qed.

Theorem fa_fault_safe : forall c o,
  fault_safe B empty AccessErr (op_prog B plain gz gunzip c o).
Proof.
  intros c o. destruct o as [n buf mime ow | n | n | k co buf mime ow | k co]; simpl op_prog.
  - unfold fa_store_file. destruct (checked_path (base c) n) as [fp|]; [apply safe_store_at | exact I].
  - unfold fa_fetch_file. destruct (checked_path (base c) n) as [fp|]; [|exact I].
    apply safe_probe. intros [[q z]|]; [apply safe_read_handle | exact I].
  - unfold fa_file_exists. destruct (checked_path (base c) n) as [fp|]; [|exact I].
    simpl. split; [intro e; ends|].
    intros [[|]| |d|e]; simpl; try exact I;
      (split; [intro e'; ends | intros r; destruct r; exact I]).
  - unfold fa_store_chunk. destruct (chunk_path c (flat c) k co) as [fp|]; [apply safe_store_at | exact I].
  - unfold fa_fetch_chunk. destruct (chunk_path c true k co) as [pf|]; [|exact I].
    apply safe_probe. intro f1. destruct (chunk_path c false k co) as [pd|]; [|exact I].
    apply safe_probe. intros [[q z]|]; [apply safe_read_handle | exact I].
Qed.

(* (1) FileAccessor: whichever primitive call fails, with whichever errno, the
   operation ends in DataAccessError - or the fault index lies beyond the
   operation's trace and nothing happened *)
Theorem fa_fault_to_error : forall c o k e t,
  fst (run_fault B empty trunc k e t (op_prog B plain gz gunzip c o)) = AccessErr \/
  run_fault B empty trunc k e t (op_prog B plain gz gunzip c o)
  = run B empty t (op_prog B plain gz gunzip c o).
Proof. intros. apply fault_safe_sound, fa_fault_safe. Qed.

(* ShardedFileAccessor file methods: plain OSError (outcome IOErr) *)
Theorem sh_fault_safe : forall b o, fault_safe B empty IOErr (sh_op_prog B plain b o).
Proof.
  intros b o. destruct o as [n buf mime ow | n | n | k co buf mime ow | k co]; simpl sh_op_prog;
    try exact I.
  - unfold sh_store_file. destruct (sh_path b n) as [sp|]; [|exact I].
    assert (Hw : forall p, fault_safe B empty IOErr (sh_write B plain p buf)).
    { intro p. unfold sh_write. simpl. split; [intro e; ends|].
      intros [x| |d|e]; simpl; try exact I;
        (split; [intro e'; ends|]);
        intros [x'| |d'|e']; simpl; (split; [intro e''; ends | intros r; destruct r; exact I]). }
    destruct ow; [apply Hw|]. simpl. split; [intro e; ends|].
    intros [[|]| |d|e]; simpl; try exact I; apply Hw.
  - unfold sh_fetch_file. destruct (sh_path b n) as [sp|]; [|exact I]. simpl. split; [intro e; ends|].
    intros [x| |d|e]; simpl; try exact I;
      (split; [intro e'; ends|]);
      intros [x'| |d'|e']; simpl; (split; [intro e''; ends | intros r; destruct r; exact I]).
  - unfold sh_file_exists. destruct (sh_path b n) as [sp|]; [|exact I].
    simpl. split; [intro e; ends|]. intros r; destruct r; exact I.
Qed.

Theorem sh_fault_to_error : forall b o k e t,
  fst (run_fault B empty trunc k e t (sh_op_prog B plain b o)) = IOErr \/
  run_fault B empty trunc k e t (sh_op_prog B plain b o) = run B empty t (sh_op_prog B plain b o).
Proof. intros. apply fault_safe_sound, sh_fault_safe. Qed.

(* fetch / exists never change the tree, faulted or not *)
Lemma ro_read_handle : forall p z, read_only B (read_handle B plain gunzip p z).
Proof.
  intros p z. unfold read_handle. simpl. split; [reflexivity|].
  intros [b| |d|e]; simpl; (split; [reflexivity | intros r; destruct r; exact I]).
Qed.

Lemma ro_probe : forall p f (k : option (path * bool) -> prog B (outcome (resval B))),
  (forall f', read_only B (k f')) -> read_only B (probe B p f (Ret AccessErr) k).
Proof.
  intros p f k Hk. unfold probe. simpl. split; [reflexivity|].
  intros [[|]| |d|e]; simpl; try exact I.
  - split; [reflexivity|]. intros [b| |d|e]; simpl; try exact I; apply Hk.
  - split; [reflexivity|]. intros [[|]| |d|e]; simpl; try exact I; try apply Hk.
    split; [reflexivity|]. intros [b| |d|e]; simpl; try exact I; apply Hk.
  - split; [reflexivity|]. intros [[|]| |d'|e]; simpl; try exact I; try apply Hk.
    split; [reflexivity|]. intros [b| |d''|e]; simpl; try exact I; apply Hk.
  - split; [reflexivity|]. intros [[|]| |d'|e]; simpl; try exact I; try apply Hk.
    split; [reflexivity|]. intros [b| |d''|e]; simpl; try exact I; apply Hk.
Qed.

Theorem fa_read_fault_tree : forall c o k e t, is_read_op o = true ->
  snd (run_fault B empty trunc k e t (op_prog B plain gz gunzip c o)) = t.
Proof.
  intros c o k e t Hr. apply read_only_fault.
  destruct o as [n buf mime ow | n | n | k0 co buf mime ow | k0 co]; try discriminate; simpl op_prog.
  - unfold fa_fetch_file. destruct (checked_path (base c) n) as [fp|]; [|exact I].
    apply ro_probe. intros [[q z]|]; [apply ro_read_handle | exact I].
  - unfold fa_file_exists. destruct (checked_path (base c) n) as [fp|]; [|exact I].
    simpl. split; [reflexivity|].
    intros [[|]| |d|e']; simpl; try exact I; (split; [reflexivity | intros r; destruct r; exact I]).
  - unfold fa_fetch_chunk. destruct (chunk_path c true k0 co) as [pf|]; [|exact I].
    apply ro_probe. intro f1. destruct (chunk_path c false k0 co) as [pd|]; [|exact I].
    apply ro_probe. intros [[q z]|]; [apply ro_read_handle | exact I].
Qed.

End ACC.

(* ====================================================================== *)
(* ShardedFileAccessor.close(): faults, what was written, the retry. *)

Section CLOSEP.
Variable B : Type.
Variable plain : list N -> B.
Variable trunc : B -> B.
Notation empty := (plain []).
Notation prog := (prog B).

Fixpoint reach {A} (p : prog A) (cs : list (call B)) (a : A) : Prop :=
  match p with
  | Ret x => cs = [] /\ a = x
  | Do c k => exists r cs', cs = c :: cs' /\ reach (k r) cs' a
  end.

Lemma run_reach : forall A (p : prog A) t, exists cs, reach p cs (fst (run B empty t p)).
Proof.
  intros A p. induction p as [a | c k IH]; intro t.
  - exists []. simpl. auto.
  - simpl. destruct (exec_call B empty t c) as [r t']. destruct (IH r t') as [cs H].
    exists (c :: cs), r, cs. auto.
Qed.

Lemma run_fault_reach : forall A (p : prog A) k e t,
  exists cs, reach p cs (fst (run_fault B empty trunc k e t p)).
Proof.
  intros A p. induction p as [a | c kont IH]; intros k e t.
  - exists []. destruct k; simpl; auto.
  - destruct k as [|k']; simpl.
    + destruct (run_reach A (kont (RErr e)) (fail_effect B trunc t c)) as [cs H].
      exists (c :: cs), (RErr e), cs. auto.
    + destruct (exec_call B empty t c) as [r t']. destruct (IH r k' e t') as [cs H].
      exists (c :: cs), r, cs. auto.
Qed.

Lemma reach_pbindp : forall A C (p : prog A) (f : A -> prog C) cs a,
  reach (pbindp B p f) cs a ->
  exists cs1 x cs2, reach p cs1 x /\ reach (f x) cs2 a /\ cs = cs1 ++ cs2.
Proof.
  intros A C p f. induction p as [x | c k IH]; intros cs a H; simpl in H.
  - exists [], x, cs. simpl. auto.
  - destruct H as [r [cs' [E H']]]. subst cs.
    destruct (IH r cs' a H') as [cs1 [x [cs2 [H1 [H2 E]]]]].
    exists (c :: cs1), x, cs2. split; [simpl; exists r, cs1; auto|]. split; [exact H2 | simpl; congruence].
Qed.

(* ---------- what a reachable run of close has done ---------- *)

Definition cpath (c : call B) : path :=
  match c with
  | CIsFile p | CExists p | CMakedirs p | CUnlink p | COpen p _ | CWrite p _ | CRead p | CClose p => p
  end.
(* the content last written to a file *)
Fixpoint last_written (f : path) (cs : list (call B)) : option B :=
  match cs with
  | [] => None
  | c :: r =>
      match last_written f r with
      | Some d => Some d
      | None => match c with CWrite p d => if path_eqb p f then Some d else None | _ => None end
      end
  end.
Definition on_shard (d : shard_desc) (cs : list (call B)) : Prop :=
  Forall (fun c => cpath c = sd_dir d \/ cpath c = sd_file d) cs.

Ltac shard_calls := unfold on_shard; repeat (apply Forall_cons; [right; reflexivity|]); apply Forall_nil.

Lemma leave_reach : forall f cs r, reach (leave B f) cs r -> cs = [CClose f] /\ r = CIOErr.
Proof. intros f cs r [r0 [cs0 [-> [-> ->]]]]. auto. Qed.

Lemma idx_reach : forall d fuel j cs r,
  reach (idx_writes B plain d j fuel) cs r ->
  on_shard d cs /\ (r = COk -> last_written (sd_file d) cs = Some (plain (complete d))).
Proof.
  intros d fuel. induction fuel as [|f IH]; intros j cs r H; simpl in H.
  - destruct H as [r0 [cs0 [-> H]]]. destruct r0 as [b| |x|e].
    4:{ apply leave_reach in H. destruct H as [-> ->]. split; [shard_calls | discriminate]. }
    all: (destruct H as [r1 [cs1 [-> H]]]; destruct r1 as [b1| |x1|e1]; simpl in H; destruct H as [-> ->];
          (split; [shard_calls|]); intro E; try discriminate; simpl; rewrite path_eqb_refl; reflexivity).
  - destruct H as [r0 [cs0 [-> H]]]. destruct r0 as [b| |x|e].
    4:{ apply leave_reach in H. destruct H as [-> ->]. split; [shard_calls | discriminate]. }
    all: (destruct (IH (S j) cs0 r H) as [H1 H2];
          split; [constructor; [right; reflexivity | exact H1]|];
          intro E; simpl; rewrite (H2 E); reflexivity).
Qed.

Lemma data_reach : forall d fuel i cs r,
  reach (data_writes B plain d i fuel) cs r ->
  on_shard d cs /\ (r = COk -> last_written (sd_file d) cs = Some (plain (complete d))).
Proof.
  intros d fuel. induction fuel as [|f IH]; intros i cs r H; simpl in H.
  - exact (idx_reach d _ 0%nat cs r H).
  - destruct H as [r0 [cs0 [-> H]]]. destruct r0 as [b| |x|e].
    4:{ apply leave_reach in H. destruct H as [-> ->]. split; [shard_calls | discriminate]. }
    all: (destruct (IH (S i) cs0 r H) as [H1 H2];
          split; [constructor; [right; reflexivity | exact H1]|];
          intro E; simpl; rewrite (H2 E); reflexivity).
Qed.

(* Shard.close: everything it can reach *)
Lemma shard_reach : forall d dirty cs r,
  reach (shard_close_prog B plain d dirty) cs r ->
  on_shard d cs /\
  match r with
  | COk => dirty = false /\ cs = [] \/
           dirty = true /\ last_written (sd_file d) cs = Some (plain (complete d))
  | CIOErr => dirty = true
  end.
Proof.
  intros d dirty cs r H. unfold shard_close_prog in H.
  destruct dirty; simpl in H.
  2:{ destruct H as [-> ->]. split; [constructor|]. left. auto. }
  destruct H as [r0 [cs0 [-> H]]].
  destruct r0 as [b| |x|e]; simpl in H.
  4:{ destruct H as [-> ->]. split; [unfold on_shard; repeat constructor; left; reflexivity | reflexivity]. }
  all: destruct H as [r1 [cs1 [-> H]]]; destruct r1 as [b1| |x1|e1]; simpl in H.
  all: try (destruct H as [-> ->];
            split; [unfold on_shard; constructor; [left; reflexivity | constructor; [right; reflexivity | constructor]]
                   | reflexivity]).
  all: destruct H as [r2 [cs2 [-> H]]]; destruct r2 as [b2| |x2|e2].
  all: try (apply leave_reach in H; destruct H as [-> ->];
            split; [unfold on_shard; constructor; [left; reflexivity | repeat (constructor; [right; reflexivity|]); constructor]
                   | reflexivity]).
  all: destruct (data_reach d _ 0%nat cs2 r H) as [H1 H2];
       (split; [unfold on_shard; constructor; [left; reflexivity | repeat (constructor; [right; reflexivity|]); exact H1]|]);
       destruct r; [right; split; [reflexivity|]; simpl; rewrite (H2 eq_refl); reflexivity | reflexivity].
Qed.

(* ---------- the whole close: every reachable result ---------- *)

Fixpoint segs (l1 : list (shard_desc * bool)) (cs : list (call B)) : Prop :=
  match l1 with
  | [] => cs = []
  | x :: r => exists ca cb, cs = ca ++ cb /\
              reach (shard_close_prog B plain (fst x) (snd x)) ca COk /\ segs r cb
  end.

Definition clean {A} (l : list A) : list bool := map (fun _ => false) l.

Theorem close_reach : forall l done cs r S',
  reach (close_shards B plain l done) cs (r, S') ->
  (r = COk /\ S' = rev done ++ clean l /\ segs l cs) \/
  (r = CIOErr /\ exists l1 x l2 ca cb,
     l = l1 ++ x :: l2 /\ cs = ca ++ cb /\ segs l1 ca /\ snd x = true /\
     reach (shard_close_prog B plain (fst x) (snd x)) cb CIOErr /\
     S' = rev done ++ clean l1 ++ true :: map snd l2).
Proof.
  induction l as [|[d st] l IH]; intros done cs r S' H.
  - simpl in H. destruct H as [-> H]. inversion H; subst. left. simpl. rewrite app_nil_r. repeat split.
  - simpl in H. apply reach_pbindp in H. destruct H as [cs1 [res [cs2 [H1 [H2 ->]]]]].
    destruct res.
    + destruct (IH _ _ _ _ H2) as [[-> [-> Hs]] | [-> [l1 [y [l2 [ca [cb [-> [-> [Hs [Hy [Hr ->]]]]]]]]]]]].
      * left. split; [reflexivity|]. split; [simpl; rewrite <- app_assoc; reflexivity|].
        simpl. exists cs1, cs2. auto.
      * right. split; [reflexivity|]. exists ((d, st) :: l1), y, l2, (cs1 ++ ca), cb.
        split; [reflexivity|]. split; [rewrite app_assoc; reflexivity|]. split; [simpl; exists cs1, ca; auto|].
        split; [exact Hy|]. split; [exact Hr|]. simpl. rewrite <- app_assoc. reflexivity.
    + simpl in H2. destruct H2 as [-> H2]. inversion H2; subst. right. split; [reflexivity|].
      pose proof (shard_reach _ _ _ _ H1) as [_ Hst]. simpl in Hst. subst st.
      exists [], (d, true), l, [], cs1. rewrite app_nil_r. simpl. repeat split; auto.
Qed.

Lemma lw_app_some : forall f ca cb x, last_written f cb = Some x -> last_written f (ca ++ cb) = Some x.
Proof. induction ca as [|c ca IH]; intros cb x H; simpl; [exact H|]. rewrite (IH cb x H). reflexivity. Qed.

Lemma lw_app_none : forall f ca cb, Forall (fun c => cpath c <> f) cb ->
  last_written f (ca ++ cb) = last_written f ca.
Proof.
  intros f ca cb H. induction ca as [|c ca IH]; simpl.
  - induction cb as [|c cb IHb]; [reflexivity|]. inversion H; subst. simpl. rewrite (IHb H3).
    destruct c; try reflexivity. simpl in H2.
    destruct (path_eqb p f) eqn:E; [apply path_eqb_eq in E; contradiction | reflexivity].
  - rewrite IH. reflexivity.
Qed.

Definition files_apart (l : list (shard_desc * bool)) : Prop :=
  forall i j x y, nth_error l i = Some x -> nth_error l j = Some y -> i <> j ->
    sd_file (fst x) <> sd_file (fst y) /\ sd_file (fst x) <> sd_dir (fst y).

Lemma segs_on : forall l1 cs, segs l1 cs ->
  Forall (fun c => exists x, In x l1 /\ (cpath c = sd_dir (fst x) \/ cpath c = sd_file (fst x))) cs.
Proof.
  induction l1 as [|x l1 IH]; intros cs H; simpl in H.
  - subst. constructor.
  - destruct H as [ca [cb [-> [Hr Hs]]]]. apply Forall_app. split.
    + destruct (shard_reach _ _ _ _ Hr) as [Ho _]. eapply Forall_impl; [|exact Ho].
      intros c Hc. exists x. split; [left; reflexivity | exact Hc].
    + eapply Forall_impl; [|exact (IH cb Hs)]. intros c [y [Hy Hc]]. exists y. split; [right; exact Hy | exact Hc].
Qed.

Lemma segs_complete : forall l1 cs, segs l1 cs -> files_apart l1 ->
  forall x, In x l1 -> snd x = true ->
  last_written (sd_file (fst x)) cs = Some (plain (complete (fst x))).
Proof.
  induction l1 as [|y l1 IH]; intros cs Hs Hfa x Hin Hd; [contradiction|].
  simpl in Hs. destruct Hs as [ca [cb [-> [Hr Hrest]]]].
  assert (Hfa' : files_apart l1).
  { intros i j a b Ha Hb Hij. apply (Hfa (S i) (S j) a b); simpl; auto. }
  destruct Hin as [-> | Hin].
  - destruct (shard_reach _ _ _ _ Hr) as [_ [[Hc _] | [_ Hlw]]]; [congruence|].
    rewrite lw_app_none; [exact Hlw|].
    eapply Forall_impl; [|exact (segs_on l1 cb Hrest)]. intros c [z [Hz Hc]].
    apply In_nth_error in Hz. destruct Hz as [j Hj].
    destruct (Hfa 0%nat (S j) x z eq_refl Hj ltac:(discriminate)) as [H1 H2].
    destruct Hc as [Hc|Hc]; rewrite Hc; congruence.
  - apply lw_app_some. exact (IH cb Hrest Hfa' x Hin Hd).
Qed.

(* ---------- (a) a failing primitive makes close fail with an I/O error ---------- *)

Fixpoint fault_safeP {A} (P : A -> Prop) (p : prog A) : Prop :=
  match p with
  | Ret _ => True
  | Do c k => (forall e t, P (fst (run B empty t (k (RErr e))))) /\ forall r, fault_safeP P (k r)
  end.

Theorem fault_safeP_sound : forall A (P : A -> Prop) (p : prog A), fault_safeP P p ->
  forall k e t,
    P (fst (run_fault B empty trunc k e t p)) \/
    run_fault B empty trunc k e t p = run B empty t p.
Proof.
  intros A P p. induction p as [a | c kont IH]; intros Hs k e t.
  - right. destruct k; reflexivity.
  - destruct Hs as [He Hr]. destruct k as [|k'].
    + left. simpl. apply He.
    + simpl. destruct (exec_call B empty t c) as [r t'] eqn:Ec.
      destruct (IH r (Hr r) k' e t') as [H|H]; [left; exact H | right; exact H].
Qed.

Lemma run_pbindp : forall A C (p : prog A) (f : A -> prog C) t,
  run B empty t (pbindp B p f) = let '(a, t') := run B empty t p in run B empty t' (f a).
Proof.
  intros A C p f. induction p as [a | c k IH]; intro t; simpl; [reflexivity|].
  destruct (exec_call B empty t c) as [r t']. apply IH.
Qed.

Lemma fsP_bind : forall A C (Pi : A -> Prop) (P : C -> Prop) (p : prog A) (f : A -> prog C),
  fault_safeP Pi p -> (forall x, Pi x -> forall t, P (fst (run B empty t (f x)))) ->
  (forall x, fault_safeP P (f x)) -> fault_safeP P (pbindp B p f).
Proof.
  intros A C Pi P p f. induction p as [a | c k IH]; intros Hp Hf Hs; simpl.
  - apply Hs.
  - destruct Hp as [He Hr]. split.
    + intros e t. rewrite run_pbindp. specialize (He e t).
      destruct (run B empty t (k (RErr e))) as [a t']. apply Hf. exact He.
    + intro r. apply IH; auto.
Qed.

Definition is_io (x : cres) : Prop := x = CIOErr.

Lemma safe_idx : forall d fuel j, fault_safeP is_io (idx_writes B plain d j fuel).
Proof.
  intros d fuel. induction fuel as [|f IH]; intro j; simpl.
  - split; [intros e t; reflexivity|]. intros [b| |x|e]; simpl;
      (split; [intros e' t; reflexivity | intros r; try destruct r; exact I]).
  - split; [intros e t; reflexivity|]. intros [b| |x|e]; simpl; try apply IH.
    split; [intros e' t; reflexivity | intros r; exact I].
Qed.

Lemma safe_data : forall d fuel i, fault_safeP is_io (data_writes B plain d i fuel).
Proof.
  intros d fuel. induction fuel as [|f IH]; intro i; simpl; [apply safe_idx|].
  split; [intros e t; reflexivity|]. intros [b| |x|e]; simpl; try apply IH.
  split; [intros e' t; reflexivity | intros r; exact I].
Qed.

Lemma safe_shard : forall d st, fault_safeP is_io (shard_close_prog B plain d st).
Proof.
  intros d st. unfold shard_close_prog. destruct st; simpl; [|exact I].
  split; [intros e t; reflexivity|]. intros [b| |x|e]; simpl; try exact I;
    (split; [intros e' t; reflexivity|]; intros [b1| |x1|e1]; simpl; try exact I;
     (split; [intros e2 t; reflexivity|]; intros [b2| |x2|e2]; simpl;
      try (split; [intros e3 t; reflexivity | intros r; exact I]);
      apply safe_data)).
Qed.

Lemma safe_close : forall l done, fault_safeP (fun x : cres * list bool => fst x = CIOErr) (close_shards B plain l done).
Proof.
  induction l as [|[d st] l IH]; intro done; simpl; [exact I|].
  apply (fsP_bind _ _ is_io); [apply safe_shard | |].
  - intros res Hx t. unfold is_io in Hx. subst res. reflexivity.
  - intros res. destruct res; [apply IH | exact I].
Qed.

Theorem close_fault_to_error : forall l k e t,
  fst (fst (run_fault B empty trunc k e t (close_prog B plain l))) = CIOErr \/
  run_fault B empty trunc k e t (close_prog B plain l) = run B empty t (close_prog B plain l).
Proof. intros l k e t. apply (fault_safeP_sound _ _ _ (safe_close l [])). Qed.

End CLOSEP.

(* ---------- (c) the trees: close(), then close() again ---------- *)

Section CLOSEFS.
Variable B : Type.
Variable plain : list N -> B.
Variable trunc : B -> B.
Notation empty := (plain []).
Notation prog := (prog B).
Notation lookup := (lookup B).
Notation update := (update B).

(* every run with its trees: each call is executed, or it fails and leaves
   [fail_effect] (any number of failures, any errno) *)
Fixpoint treach {A} (p : prog A) (t : fs B) (a : A) (t' : fs B) : Prop :=
  match p with
  | Ret x => a = x /\ t' = t
  | Do c k => treach (k (fst (exec_call B empty t c))) (snd (exec_call B empty t c)) a t' \/
              exists e, treach (k (RErr e)) (fail_effect B trunc t c) a t'
  end.

Lemma run_treach : forall A (p : prog A) t,
  treach p t (fst (run B empty t p)) (snd (run B empty t p)).
Proof.
  intros A p. induction p as [a | c k IH]; intro t; simpl; [auto|].
  left. destruct (exec_call B empty t c) as [r t1]. simpl. apply IH.
Qed.

Lemma run_fault_treach : forall A (p : prog A) k e t,
  treach p t (fst (run_fault B empty trunc k e t p)) (snd (run_fault B empty trunc k e t p)).
Proof.
  intros A p. induction p as [a | c kont IH]; intros k e t.
  - destruct k; simpl; auto.
  - destruct k as [|k']; simpl.
    + right. exists e. apply run_treach.
    + left. destruct (exec_call B empty t c) as [r t1]. simpl. apply IH.
Qed.

Lemma treach_pbindp : forall A C (p : prog A) (f : A -> prog C) t a t',
  treach (pbindp B p f) t a t' -> exists x tm, treach p t x tm /\ treach (f x) tm a t'.
Proof.
  intros A C p f. induction p as [x | c k IH]; intros t a t' H; simpl in H.
  - exists x, t. simpl. auto.
  - destruct H as [H | [e H]].
    + destruct (IH _ _ _ _ H) as [x [tm [H1 H2]]]. exists x, tm. split; [simpl; left; exact H1 | exact H2].
    + destruct (IH _ _ _ _ H) as [x [tm [H1 H2]]]. exists x, tm. split; [simpl; right; exists e; exact H1 | exact H2].
Qed.

Lemma treach_Do : forall A c (k : reply B -> prog A) t a t',
  treach (Do c k) t a t' ->
  (exists r t1, exec_call B empty t c = (r, t1) /\ treach (k r) t1 a t') \/
  (exists e, treach (k (RErr e)) (fail_effect B trunc t c) a t').
Proof.
  intros A c k t a t' H. simpl in H. destruct H as [H | H]; [left | right; exact H].
  destruct (exec_call B empty t c) as [r t1]. exists r, t1. auto.
Qed.

(* the shard files of one accessor: <dir>/<name> with ordinary names, and no
   shard file is (a directory above) a shard directory *)
Definition shard_wf (d : shard_desc) : Prop :=
  cleanb (sd_file d) = true /\ exists c, sd_file d = sd_dir d ++ [c].
Definition apart (ds : list shard_desc) : Prop :=
  (forall d, In d ds -> shard_wf d) /\
  (forall x y, In x ds -> In y ds -> ~ prefix (sd_file x) (sd_dir y)).
(* the tree lets every shard be written: no file where a directory is needed,
   no directory where a shard file goes *)
Definition good (ds : list shard_desc) (t : fs B) : Prop :=
  tree_closed B t /\
  forall d, In d ds ->
    (forall q b, prefix q (sd_dir d) -> lookup t q <> Some (File b)) /\
    lookup t (sd_file d) <> Some Dir.
Definition ready (ds : list shard_desc) (d : shard_desc) (t : fs B) : Prop :=
  good ds t /\ lookup t (sd_dir d) = Some Dir.

Lemma wf_facts : forall d, shard_wf d ->
  sd_file d <> [] /\ removelast (sd_file d) = sd_dir d /\ cleanb (sd_dir d) = true /\
  path_eqb (sd_file d) (sd_dir d) = false.
Proof.
  intros d [Hc [c E]]. split; [rewrite E; intro H; destruct (sd_dir d); discriminate|].
  split; [rewrite E; apply removelast_snoc|].
  split; [rewrite E, cleanb_app in Hc; apply andb_true_iff in Hc; tauto|].
  apply path_eqb_neq. rewrite E. intro H. apply (f_equal (@length _)) in H. rewrite app_length in H. simpl in H. lia.
Qed.

Section ONE.
Variable ds : list shard_desc.
Hypothesis Hap : apart ds.
Variable d : shard_desc.
Hypothesis Hd : In d ds.

Lemma ready_update : forall t b, ready ds d t -> ready ds d (update t (sd_file d) (File b)).
Proof.
  intros t b [[Hcl Hg] Hdir]. destruct Hap as [Hwf Hpre].
  destruct (wf_facts d (Hwf d Hd)) as [Hne [Hrl [Hcd Hfd]]].
  split; [split|].
  - apply closed_update; [exact Hcl | exact Hne | rewrite Hrl; exact Hdir|].
    intro c. left. destruct (lookup t (sd_file d ++ [c])) eqn:E; [|reflexivity].
    exfalso. apply (proj2 (Hg d Hd)). apply (Hcl (sd_file d) c). rewrite E. discriminate.
  - intros y Hy. destruct (Hg y Hy) as [G1 G2]. split.
    + intros q b' Hq. rewrite lookup_update by exact Hne.
      destruct (path_eqb (sd_file d) q) eqn:E.
      * apply path_eqb_eq in E. subst q. exfalso. exact (Hpre d y Hd Hy Hq).
      * apply G1. exact Hq.
    + rewrite lookup_update by exact Hne. destruct (path_eqb (sd_file d) (sd_file y)); [discriminate | exact G2].
  - rewrite lookup_update by exact Hne. rewrite Hfd. exact Hdir.
Qed.

Lemma write_ready : forall t b, ready ds d t ->
  write_at B t (sd_file d) b = update t (sd_file d) (File b).
Proof.
  intros t b [[Hcl Hg] Hdir]. destruct Hap as [Hwf Hpre].
  destruct (wf_facts d (Hwf d Hd)) as [Hne [Hrl [Hcd Hfd]]].
  apply write_ok; [exact Hcl | exact (proj1 (Hwf d Hd)) | exact Hne | rewrite Hrl; exact Hdir].
Qed.

Lemma exec_open_ready : forall t, ready ds d t ->
  exec_call B empty t (COpen (sd_file d) MW) = (RUnit, update t (sd_file d) (File empty)).
Proof.
  intros t [[Hcl Hg] Hdir]. destruct Hap as [Hwf Hpre].
  destruct (wf_facts d (Hwf d Hd)) as [Hne [Hrl [Hcd Hfd]]].
  simpl. rewrite (open_ok B empty t (sd_file d) MW Hcl (proj1 (Hwf d Hd)) Hne) by (rewrite Hrl; exact Hdir).
  pose proof (proj2 (Hg d Hd)) as G2.
  destruct (lookup t (sd_file d)) as [[b|]|]; try reflexivity. congruence.
Qed.

Lemma exec_mk_good : forall t, good ds t ->
  exists t1, exec_call B empty t (CMakedirs (sd_dir d)) = (RUnit, t1) /\ ready ds d t1 /\
    forall q, lookup t1 q = if is_prefix q (sd_dir d) then Some Dir else lookup t q.
Proof.
  intros t [Hcl Hg]. destruct Hap as [Hwf Hpre].
  destruct (wf_facts d (Hwf d Hd)) as [Hne [Hrl [Hcd Hfd]]].
  destruct (makedirs_ok B t (sd_dir d) Hcl Hcd (proj1 (Hg d Hd))) as [t1 [Hm [Hc1 Hl1]]].
  exists t1. simpl. rewrite Hm. split; [reflexivity|]. split; [|exact Hl1].
  split; [split; [exact Hc1|]|].
  - intros y Hy. destruct (Hg y Hy) as [G1 G2]. split.
    + intros q b Hq. rewrite Hl1. destruct (is_prefix q (sd_dir d)); [discriminate | apply G1; exact Hq].
    + rewrite Hl1. destruct (is_prefix (sd_file y) (sd_dir d)) eqn:E; [|exact G2].
      apply is_prefix_iff in E. exfalso. exact (Hpre y d Hy Hd E).
  - rewrite Hl1. replace (is_prefix (sd_dir d) (sd_dir d)) with true; [reflexivity|].
    symmetry. apply is_prefix_iff. apply prefix_refl.
Qed.

Definition upd (t t' : fs B) : Prop := forall q, q <> sd_file d -> lookup t' q = lookup t q.

Lemma upd_update : forall t b, upd t (update t (sd_file d) (File b)).
Proof.
  intros t b q Hq. apply lookup_update_other. congruence.
Qed.
Lemma upd_trans : forall a b c, upd a b -> upd b c -> upd a c.
Proof. intros a b c H1 H2 q Hq. rewrite (H2 q Hq). apply H1. exact Hq. Qed.

Lemma lookup_file_update : forall t b, lookup (update t (sd_file d) (File b)) (sd_file d) = Some (File b).
Proof.
  intros t b. destruct Hap as [Hwf _]. apply lookup_update_same. exact (proj1 (wf_facts d (Hwf d Hd))).
Qed.

Lemma treach_leave : forall t r t', treach (leave B (sd_file d)) t r t' -> r = CIOErr /\ t' = t.
Proof.
  intros t r t' H. simpl in H. destruct H as [[-> ->] | [e [-> ->]]]; auto.
Qed.

(* one write of the shard file, executed or failing *)
Lemma write_cases : forall A b (k : reply B -> prog A) t a t',
  ready ds d t -> treach (Do (CWrite (sd_file d) b) k) t a t' ->
  exists t1, ready ds d t1 /\ upd t t1 /\
    ((lookup t1 (sd_file d) = Some (File b) /\ treach (k RUnit) t1 a t') \/
     (exists e, treach (k (RErr e)) t1 a t')).
Proof.
  intros A b k t a t' Hr H. simpl in H. destruct H as [H | [e H]].
  - rewrite (write_ready t b Hr) in H. exists (update t (sd_file d) (File b)).
    split; [apply ready_update; exact Hr|]. split; [apply upd_update|]. left.
    split; [apply lookup_file_update | exact H].
  - rewrite (write_ready t (trunc b) Hr) in H. exists (update t (sd_file d) (File (trunc b))).
    split; [apply ready_update; exact Hr|]. split; [apply upd_update|]. right. exists e. exact H.
Qed.

Lemma T_idx : forall fuel j t r t',
  ready ds d t -> treach (idx_writes B plain d j fuel) t r t' ->
  ready ds d t' /\ upd t t' /\ (r = COk -> lookup t' (sd_file d) = Some (File (plain (complete d)))).
Proof.
  induction fuel as [|f IH]; intros j t r t' Hr H; cbn [idx_writes] in H.
  - destruct (write_cases _ _ _ _ _ _ Hr H) as [t1 [Hr1 [Hu1 [[Hl H1] | [e H1]]]]].
    + simpl in H1. destruct H1 as [[-> ->] | [e [-> ->]]]; (split; [exact Hr1|]; split; [exact Hu1|]);
        intro E; [exact Hl | discriminate].
    + apply treach_leave in H1. destruct H1 as [-> ->]. split; [exact Hr1|]. split; [exact Hu1 | discriminate].
  - destruct (write_cases _ _ _ _ _ _ Hr H) as [t1 [Hr1 [Hu1 [[Hl H1] | [e H1]]]]].
    + destruct (IH _ _ _ _ Hr1 H1) as [H2 [H3 H4]]. split; [exact H2|]. split; [exact (upd_trans _ _ _ Hu1 H3) | exact H4].
    + apply treach_leave in H1. destruct H1 as [-> ->]. split; [exact Hr1|]. split; [exact Hu1 | discriminate].
Qed.

Lemma T_data : forall fuel i t r t',
  ready ds d t -> treach (data_writes B plain d i fuel) t r t' ->
  ready ds d t' /\ upd t t' /\ (r = COk -> lookup t' (sd_file d) = Some (File (plain (complete d)))).
Proof.
  induction fuel as [|f IH]; intros i t r t' Hr H; cbn [data_writes] in H.
  - exact (T_idx _ _ _ _ _ Hr H).
  - destruct (write_cases _ _ _ _ _ _ Hr H) as [t1 [Hr1 [Hu1 [[Hl H1] | [e H1]]]]].
    + destruct (IH _ _ _ _ Hr1 H1) as [H2 [H3 H4]]. split; [exact H2|]. split; [exact (upd_trans _ _ _ Hu1 H3) | exact H4].
    + apply treach_leave in H1. destruct H1 as [-> ->]. split; [exact Hr1|]. split; [exact Hu1 | discriminate].
Qed.

Lemma shard_close_dirty :
  shard_close_prog B plain d true =
  Do (CMakedirs (sd_dir d)) (fun r =>
  match r with
  | RErr _ => Ret CIOErr
  | _ =>
    Do (COpen (sd_file d) MW) (fun r =>
    match r with
    | RErr _ => Ret CIOErr
    | _ =>
      Do (CWrite (sd_file d) (plain (sd_zero d))) (fun r =>
      match r with
      | RErr _ => leave B (sd_file d)
      | _ => data_writes B plain d 0 (sd_n d)
      end)
    end)
  end).
Proof. reflexivity. Qed.

(* Shard.close on a good tree, with any failures: the tree stays good, only the
   shard file and (as directories) the path to it change; a normal return of a
   dirty shard leaves the complete shard file *)
Lemma T_shard : forall dirty t r t',
  good ds t -> treach (shard_close_prog B plain d dirty) t r t' ->
  good ds t' /\
  (forall q, q <> sd_file d -> ~ prefix q (sd_dir d) -> lookup t' q = lookup t q) /\
  (dirty = false -> t' = t /\ r = COk) /\
  (r = CIOErr -> dirty = true) /\
  (r = COk -> dirty = true -> lookup t' (sd_file d) = Some (File (plain (complete d)))).
Proof.
  intros dirty t r t' Hg H. destruct dirty.
  2:{ simpl in H. destruct H as [-> ->]. split; [exact Hg|]. split; [reflexivity|].
      split; [auto|]. split; [discriminate | discriminate]. }
  rewrite shard_close_dirty in H.
  assert (Hsame : forall t1, (forall q, lookup t1 q = if is_prefix q (sd_dir d) then Some Dir else lookup t q) ->
            forall t2, upd t1 t2 -> forall q, q <> sd_file d -> ~ prefix q (sd_dir d) -> lookup t2 q = lookup t q).
  { intros t1 Hl1 t2 Hu q Hq Hp. rewrite (Hu q Hq), Hl1.
    destruct (is_prefix q (sd_dir d)) eqn:E; [|reflexivity]. apply is_prefix_iff in E. contradiction. }
  destruct (exec_mk_good t Hg) as [t1 [Hmk [Hr1 Hl1]]].
  apply treach_Do in H. destruct H as [[r0 [t0 [E H]]] | [e H]].
  2:{ simpl in H. destruct H as [-> ->]. split; [exact Hg|]. split; [reflexivity|].
      split; [discriminate|]. split; [reflexivity | discriminate]. }
  rewrite Hmk in E. inversion E; subst r0 t0. clear E.
  apply treach_Do in H. destruct H as [[r0 [t0 [E H]]] | [e H]].
  2:{ simpl in H. destruct H as [-> ->]. split; [exact (proj1 Hr1)|].
      split; [apply (Hsame t1 Hl1 t1); intros q Hq; reflexivity|].
      split; [discriminate|]. split; [reflexivity | discriminate]. }
  rewrite (exec_open_ready t1 Hr1) in E. inversion E; subst r0 t0. clear E.
  pose proof (ready_update t1 empty Hr1) as Hr2. pose proof (upd_update t1 empty) as Hu2.
  destruct (write_cases _ _ _ _ _ _ Hr2 H) as [t3 [Hr3 [Hu3 [[Hl H3] | [e H3]]]]].
  - destruct (T_data _ _ _ _ _ Hr3 H3) as [H4 [H5 H6]].
    split; [exact (proj1 H4)|].
    split; [apply (Hsame t1 Hl1); exact (upd_trans _ _ _ Hu2 (upd_trans _ _ _ Hu3 H5))|].
    split; [discriminate|]. split; [reflexivity|]. intros E _. exact (H6 E).
  - apply treach_leave in H3. destruct H3 as [-> ->]. split; [exact (proj1 Hr3)|].
    split; [apply (Hsame t1 Hl1); exact (upd_trans _ _ _ Hu2 Hu3)|].
    split; [discriminate|]. split; [reflexivity | discriminate].
Qed.

(* without failure the writes cannot fail: only mkdir and open can, and on a
   good tree they do not *)
Lemma R_idx : forall fuel j t, fst (run B empty t (idx_writes B plain d j fuel)) = COk.
Proof. induction fuel as [|f IH]; intros j t; simpl; [reflexivity | apply IH]. Qed.
Lemma R_data : forall fuel i t, fst (run B empty t (data_writes B plain d i fuel)) = COk.
Proof. induction fuel as [|f IH]; intros i t; simpl; [apply R_idx | apply IH]. Qed.

Lemma R_shard : forall dirty t, good ds t -> fst (run B empty t (shard_close_prog B plain d dirty)) = COk.
Proof.
  intros dirty t Hg. destruct dirty; [|reflexivity].
  rewrite shard_close_dirty. destruct (exec_mk_good t Hg) as [t1 [Hmk [Hr1 Hl1]]].
  cbn [run]. rewrite Hmk. cbn [run]. rewrite (exec_open_ready t1 Hr1). cbn [run exec_call]. apply R_data.
Qed.

End ONE.

(* ---------- the whole close on the trees ---------- *)

Section ALL.
Variable ds : list shard_desc.
Hypothesis Hap : apart ds.

Definition fname (x : shard_desc * bool) : path := sd_file (fst x).
Definition whole (t : fs B) (x : shard_desc * bool) : Prop :=
  lookup t (fname x) = Some (File (plain (complete (fst x)))).
(* q is neither the file of a dirty shard of l nor a directory on the way to one *)
Definition off (l : list (shard_desc * bool)) (q : path) : Prop :=
  forall x, In x l -> snd x = true -> q <> fname x /\ ~ prefix q (sd_dir (fst x)).

Lemma off_file : forall x l, In (fst x) ds -> incl (map fst l) ds -> ~ In (fname x) (map fname l) -> off l (fname x).
Proof.
  intros x l Hx Hl Hn y Hy _. split.
  - intro E. apply Hn. rewrite E. apply in_map. exact Hy.
  - apply (proj2 Hap); [exact Hx | apply Hl; apply in_map; exact Hy].
Qed.

(* any run of close - failures included - on a good tree *)
Theorem T_close : forall l done t r S t',
  incl (map fst l) ds -> NoDup (map fname l) -> good ds t ->
  treach (close_shards B plain l done) t (r, S) t' ->
  good ds t' /\
  (forall q, off l q -> lookup t' q = lookup t q) /\
  exists S0, S = rev done ++ S0 /\
    Forall2 (fun x s => s = false -> snd x = true -> whole t' x) l S0.
Proof.
  induction l as [|[d st] l IH]; intros done t r S t' Hin Hnd Hg H.
  - simpl in H. destruct H as [E ->]. inversion E; subst. split; [exact Hg|]. split; [reflexivity|].
    exists []. rewrite app_nil_r. split; [reflexivity | constructor].
  - simpl in H. apply treach_pbindp in H. destruct H as [res [tm [H1 H2]]].
    assert (Hd : In d ds) by (apply Hin; left; reflexivity).
    assert (Hin' : incl (map fst l) ds) by (intros y Hy; apply Hin; right; exact Hy).
    inversion Hnd as [|? ? Hnotin Hnd']; subst.
    destruct (T_shard ds Hap d Hd st t res tm Hg H1) as [Hgm [Hsame [Hclean [Hio Hok]]]].
    destruct res.
    + destruct (IH _ _ _ _ _ Hin' Hnd' Hgm H2) as [Hg' [Hoff [S0 [-> HF]]]].
      split; [exact Hg'|]. split.
      * intros q Hq. rewrite Hoff by (intros y Hy Hdy; apply Hq; [right; exact Hy | exact Hdy]).
        destruct st.
        -- destruct (Hq (d, true) (or_introl eq_refl) eq_refl) as [Q1 Q2]. apply Hsame; assumption.
        -- destruct (Hclean eq_refl) as [-> _]. reflexivity.
      * exists (false :: S0). split; [simpl; rewrite <- app_assoc; reflexivity|].
        constructor; [|exact HF]. intros _ Hst. simpl in Hst. subst st. unfold whole.
        rewrite (Hoff (fname (d, true))); [exact (Hok eq_refl eq_refl)|].
        apply (off_file (d, true)); assumption.
    + simpl in H2. destruct H2 as [E ->]. inversion E; subst. split; [exact Hgm|]. split.
      * intros q Hq. rewrite (Hio eq_refl) in *.
        destruct (Hq (d, true) (or_introl eq_refl) eq_refl) as [Q1 Q2]. apply Hsame; assumption.
      * exists (st :: map snd l). split; [reflexivity|]. constructor.
        -- intros Hs. rewrite (Hio eq_refl) in Hs. discriminate.
        -- clear. induction l as [|y l IHl]; simpl; constructor; [|exact IHl].
           intros Hs Hy. rewrite Hs in Hy. discriminate.
Qed.

(* close without failure on a good tree returns normally; the shards that were
   dirty, and those whose file was whole before, have a whole file afterwards *)
Theorem R_close : forall l done t,
  incl (map fst l) ds -> NoDup (map fname l) -> good ds t ->
  exists t', run B empty t (close_shards B plain l done) = ((COk, rev done ++ clean l), t') /\
    good ds t' /\
    (forall q, off l q -> lookup t' q = lookup t q) /\
    (forall x, In x l -> snd x = true \/ whole t x -> whole t' x).
Proof.
  induction l as [|[d st] l IH]; intros done t Hin Hnd Hg.
  - exists t. simpl. rewrite app_nil_r. split; [reflexivity|]. split; [exact Hg|]. split; [reflexivity | contradiction].
  - assert (Hd : In d ds) by (apply Hin; left; reflexivity).
    assert (Hin' : incl (map fst l) ds) by (intros y Hy; apply Hin; right; exact Hy).
    inversion Hnd as [|? ? Hnotin Hnd']; subst.
    simpl. rewrite run_pbindp.
    pose proof (run_treach _ (shard_close_prog B plain d st) t) as H1.
    pose proof (R_shard ds Hap d Hd st t Hg) as Hres.
    destruct (run B empty t (shard_close_prog B plain d st)) as [res tm]. simpl in H1, Hres. subst res.
    destruct (T_shard ds Hap d Hd st t COk tm Hg H1) as [Hgm [Hsame [Hclean [_ Hok]]]].
    destruct (IH (false :: done) tm Hin' Hnd' Hgm) as [t' [Hrun [Hg' [Hoff Hwh]]]].
    exists t'. rewrite Hrun. split; [simpl; rewrite <- app_assoc; reflexivity|]. split; [exact Hg'|].
    assert (Hoffm : forall q, off ((d, st) :: l) q -> lookup tm q = lookup t q).
    { intros q Hq. destruct st.
      - destruct (Hq (d, true) (or_introl eq_refl) eq_refl) as [Q1 Q2]. apply Hsame; assumption.
      - destruct (Hclean eq_refl) as [-> _]. reflexivity. }
    split.
    + intros q Hq. rewrite Hoff by (intros y Hy Hdy; apply Hq; [right; exact Hy | exact Hdy]).
      apply Hoffm. exact Hq.
    + intros x [<- | Hx] Hc.
      * unfold whole. rewrite (Hoff (fname (d, st))) by (apply (off_file (d, st)); assumption).
        destruct st.
        -- exact (Hok eq_refl eq_refl).
        -- destruct (Hclean eq_refl) as [-> _]. destruct Hc as [Hc | Hc]; [discriminate | exact Hc].
      * apply Hwh; [exact Hx|]. destruct Hc as [Hc | Hc]; [left; exact Hc | right].
        unfold whole. destruct st.
        -- rewrite Hsame; [exact Hc | |].
           ++ intro E. apply Hnotin. replace (fname (d, true)) with (fname x) by exact E. apply in_map. exact Hx.
           ++ apply (proj2 Hap); [apply Hin'; apply in_map; exact Hx | exact Hd].
        -- destruct (Hclean eq_refl) as [-> _]. exact Hc.
Qed.

End ALL.

Lemma F2_in : forall (R : shard_desc * bool -> bool -> Prop) l S0, Forall2 R l S0 ->
  map fst (combine (map fst l) S0) = map fst l /\
  forall x, In x l -> exists s, In (fst x, s) (combine (map fst l) S0) /\ R x s.
Proof.
  intros R l S0 H. induction H as [|x s l S0 Hxs HF [IH1 IH2]]; simpl; [split; [reflexivity | contradiction]|].
  split; [f_equal; exact IH1|]. intros y [<- | Hy].
  - exists s. split; [left; reflexivity | exact Hxs].
  - destruct (IH2 y Hy) as [s' [Hi Hr]]. exists s'. split; [right; exact Hi | exact Hr].
Qed.

(* (c) close() with ANY failures, then close() again without failure *)
Theorem close_retry : forall l t r1 S1 t1,
  apart (map fst l) -> NoDup (map fname l) -> good (map fst l) t ->
  treach (close_prog B plain l) t (r1, S1) t1 ->
  exists t2, run B empty t1 (close_prog B plain (retry_descs l S1)) = ((COk, clean l), t2) /\
    good (map fst l) t2 /\
    (forall x, In x l -> snd x = true -> whole t2 x) /\
    (forall q, (forall x, In x l -> q <> fname x /\ ~ prefix q (sd_dir (fst x))) -> lookup t2 q = lookup t q).
Proof.
  intros l t r1 S1 t1 Hap Hnd Hg H. unfold close_prog in *.
  destruct (T_close (map fst l) Hap l [] t r1 S1 t1 (incl_refl _) Hnd Hg H) as [Hg1 [Hoff1 [S0 [-> HF]]]].
  simpl. destruct (F2_in _ _ _ HF) as [Hfst Hin]. unfold retry_descs.
  assert (Hfn : map fname (combine (map fst l) S0) = map fname l).
  { unfold fname. rewrite <- (map_map fst sd_file), Hfst, map_map. reflexivity. }
  destruct (R_close (map fst l) Hap (combine (map fst l) S0) [] t1) as [t2 [Hrun [Hg2 [Hoff2 Hwh]]]].
  - rewrite Hfst. apply incl_refl.
  - rewrite Hfn. exact Hnd.
  - exact Hg1.
  - exists t2. rewrite Hrun. split.
    + simpl. f_equal. f_equal. unfold clean.
      rewrite <- (map_map fst (fun _ => false)), Hfst, map_map. reflexivity.
    + split; [exact Hg2|]. split.
      * intros x Hx Hdx. destruct (Hin x Hx) as [s [Hs HR]].
        change (whole t2 (fst x, s)). apply Hwh; [exact Hs|]. destruct s; [left; reflexivity | right].
        exact (HR eq_refl Hdx).
      * intros q Hq. rewrite Hoff2, Hoff1; [reflexivity | |].
        -- intros x Hx _. exact (Hq x Hx).
        -- intros y Hy _. assert (Hy' : In (fst y) (map fst l)).
           { rewrite <- Hfst. apply in_map. exact Hy. }
           apply in_map_iff in Hy'. destruct Hy' as [x [E Hx]]. unfold fname. rewrite <- E. exact (Hq x Hx).
Qed.

(* the same for the interpreter the harness compares with *)
Corollary close_retry_fault : forall l k e t,
  apart (map fst l) -> NoDup (map fname l) -> good (map fst l) t ->
  let '((r1, S1), t1) := run_fault B empty trunc k e t (close_prog B plain l) in
  exists t2, run B empty t1 (close_prog B plain (retry_descs l S1)) = ((COk, clean l), t2) /\
    forall x, In x l -> snd x = true -> whole t2 x.
Proof.
  intros l k e t Hap Hnd Hg.
  pose proof (run_fault_treach _ (close_prog B plain l) k e t) as H.
  destruct (run_fault B empty trunc k e t (close_prog B plain l)) as [[r1 S1] t1]. simpl in H.
  destruct (close_retry l t r1 S1 t1 Hap Hnd Hg H) as [t2 [H1 [_ [H2 _]]]]. exists t2. auto.
Qed.

(* every interpreter run is a [reach] / [treach] run *)
Lemma runs_are_reachable : forall A (p : prog A) k e t,
  (exists cs, reach B p cs (fst (run_fault B empty trunc k e t p))) /\
  treach p t (fst (run_fault B empty trunc k e t p)) (snd (run_fault B empty trunc k e t p)) /\
  treach p t (fst (run B empty t p)) (snd (run B empty t p)).
Proof.
  intros. split; [apply run_fault_reach|]. split; [apply run_fault_treach | apply run_treach].
Qed.

End CLOSEFS.

(* ---------- the hypotheses are decidable; the checkers are sound ---------- *)

Lemma wfb_sound : forall d, wfb d = true -> shard_wf d.
Proof.
  intros d H. unfold wfb in H. apply andb_true_iff in H. destruct H as [H1 H2]. split; [exact H1|].
  destruct (rev (sd_file d)) as [|c r] eqn:E; [discriminate|]. apply path_eqb_eq in H2.
  exists c. rewrite <- H2. apply (f_equal (@rev _)) in E. rewrite rev_involutive in E. exact E.
Qed.

Lemma apartb_sound : forall ds, apartb ds = true -> apart ds.
Proof.
  intros ds H. unfold apartb in H. apply andb_true_iff in H. destruct H as [H1 H2].
  rewrite forallb_forall in H1. rewrite forallb_forall in H2. split.
  - intros d Hd. apply wfb_sound. apply H1. exact Hd.
  - intros x y Hx Hy Hp. specialize (H2 x Hx). rewrite forallb_forall in H2. specialize (H2 y Hy).
    apply is_prefix_iff in Hp. rewrite Hp in H2. discriminate.
Qed.

Lemma nodupb_sound : forall l, nodupb l = true -> NoDup l.
Proof.
  induction l as [|p l IH]; intro H; [constructor|]. simpl in H. apply andb_true_iff in H. destruct H as [H1 H2].
  constructor; [|exact (IH H2)]. intro Hin. apply negb_true_iff in H1.
  assert (E : existsb (path_eqb p) l = true) by (apply existsb_exists; exists p; split; [exact Hin | apply path_eqb_refl]).
  congruence.
Qed.

Section CHKP.
Variable B : Type.

Lemma assoc_in : forall (t : fs B) q n, assoc B t q = Some n -> In (q, n) t.
Proof.
  induction t as [|[q' n'] t IH]; intros q n H; simpl in H; [discriminate|].
  destruct (path_eqb q' q) eqn:E.
  - apply path_eqb_eq in E. inversion H; subst. left. reflexivity.
  - right. exact (IH q n H).
Qed.

Lemma closedb_sound : forall t, closedb B t = true -> tree_closed B t.
Proof.
  intros t H p c Hl. unfold closedb in H. rewrite forallb_forall in H.
  destruct (lookup B t (p ++ [c])) as [n|] eqn:El; [|contradiction].
  assert (Ha : assoc B t (p ++ [c]) = Some n).
  { unfold lookup in El. destruct (p ++ [c]) eqn:E; [destruct p; discriminate | exact El]. }
  specialize (H _ (assoc_in _ _ _ Ha)). simpl in H.
  destruct (p ++ [c]) eqn:E; [destruct p; discriminate|]. rewrite <- E in H. rewrite removelast_snoc in H.
  destruct (lookup B t p) as [[b|]|]; try discriminate. reflexivity.
Qed.

Lemma goodb_sound : forall ds t, goodb B ds t = true -> good B ds t.
Proof.
  intros ds t H. unfold goodb in H. apply andb_true_iff in H. destruct H as [H1 H2].
  split; [apply closedb_sound; exact H1|]. rewrite forallb_forall in H2.
  intros d Hd. specialize (H2 d Hd). apply andb_true_iff in H2. destruct H2 as [H2 H3]. split.
  - intros q b [r Hr] Hq. rewrite forallb_forall in H2.
    specialize (H2 (length q)). rewrite Hr in H2 at 2. rewrite firstn_app, firstn_all, Nat.sub_diag in H2.
    simpl in H2. rewrite app_nil_r, Hq in H2.
    assert (Hin : In (length q) (seq 0 (S (length (sd_dir d))))).
    { apply in_seq. rewrite Hr, app_length. lia. }
    specialize (H2 Hin). discriminate.
  - intro E. rewrite E in H3. discriminate.
Qed.

Theorem close_hyps_sound : forall l t, close_hyps B l t = true ->
  apart (map fst l) /\ NoDup (map fname l) /\ good B (map fst l) t.
Proof.
  intros l t H. unfold close_hyps in H. apply andb_true_iff in H. destruct H as [H H3].
  apply andb_true_iff in H. destruct H as [H1 H2].
  split; [apply apartb_sound; exact H1|]. split; [apply nodupb_sound; exact H2 | apply goodb_sound; exact H3].
Qed.

End CHKP.

(* the retry theorem under the executable hypotheses *)
Theorem close_retry_checked : forall (B : Type) (plain : list N -> B) (trunc : B -> B) l k e t,
  close_hyps B l t = true ->
  let '((r1, S1), t1) := run_fault B (plain []) trunc k e t (close_prog B plain l) in
  exists t2, run B (plain []) t1 (close_prog B plain (retry_descs l S1)) = ((COk, clean l), t2) /\
    forall x, In x l -> snd x = true -> whole B plain t2 x.
Proof.
  intros B plain trunc l k e t H. destruct (close_hyps_sound B l t H) as [H1 [H2 H3]].
  exact (close_retry_fault B plain trunc l k e t H1 H2 H3).
Qed.
