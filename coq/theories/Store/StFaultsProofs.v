(* Proofs for C18: a failing primitive makes the operation fail with the
   accessor's error and leaves the other names' files untouched; interrupted
   stores leave a state in which the reader finds the old content, the new
   content, a prefix of the new content (uncompressed files: as-is), or a
   detectable error. *)
From Coq Require Import NArith ZArith Arith List Bool Lia.
From NGS Require Import Val Ints StFS StFSProofs StFileAccessor StFileAccessorProofs
                        StRefineProofs StSharded StFaults.
Import ListNotations.
Open Scope N_scope.

Section SAFE.
Variable B : Type.
Variable empty : B.
Variable trunc : B -> B.

Definition ends_err {A} (err : A) (p : prog B A) : Prop :=
  forall t, fst (run B empty t p) = err.

(* every continuation, when handed an OSError, ends in [err] *)
Fixpoint fault_safe {A} (err : A) (p : prog B A) : Prop :=
  match p with
  | Ret _ => True
  | Do c k => (forall e, ends_err err (k (RErr e))) /\ forall r, fault_safe err (k r)
  end.

(* a single fault either turns the result into [err] or never fires *)
Theorem fault_safe_sound : forall A (err : A) (p : prog B A), fault_safe err p ->
  forall k e t,
    fst (run_fault B empty trunc k e t p) = err \/
    run_fault B empty trunc k e t p = run B empty t p.
Proof.
  intros A err p. induction p as [a | c kont IH]; intros Hs k e t.
  - right. destruct k; reflexivity.
  - destruct Hs as [He Hr]. destruct k as [|k'].
    + left. simpl. apply He.
    + simpl. destruct (exec_call B empty t c) as [r t'] eqn:Ec.
      destruct (IH r (Hr r) k' e t') as [H|H]; [left; exact H | right; exact H].
Qed.

(* reads never modify the tree, with or without a fault *)
Definition read_call (c : call B) : bool :=
  match c with
  | CIsFile _ | CExists _ | CRead _ | CClose _ | COpen _ MR => true
  | _ => false
  end.
Fixpoint read_only {A} (p : prog B A) : Prop :=
  match p with
  | Ret _ => True
  | Do c k => read_call c = true /\ forall r, read_only (k r)
  end.

Lemma exec_read_call : forall t c, read_call c = true -> snd (exec_call B empty t c) = t.
Proof.
  intros t c H. destruct c as [p|p|p|p|p m|p d|p|p]; try discriminate; simpl; try reflexivity.
  - destruct m; try discriminate. unfold open_.
    destruct (resolve B t p) as [e|q]; [reflexivity|].
    destruct (lookup B t q) as [[b|]|]; reflexivity.
  - destruct (read_at B t p); reflexivity.
Qed.

Lemma read_only_run : forall A (p : prog B A), read_only p -> forall t, snd (run B empty t p) = t.
Proof.
  intros A p. induction p as [a | c kont IH]; intros Hr t; [reflexivity|].
  destruct Hr as [Hc Hk]. simpl.
  pose proof (exec_read_call t c Hc) as He.
  destruct (exec_call B empty t c) as [r t']. simpl in He. subst t'. apply IH, Hk.
Qed.

Theorem read_only_fault : forall A (p : prog B A), read_only p ->
  forall k e t, snd (run_fault B empty trunc k e t p) = t.
Proof.
  intros A p. induction p as [a | c kont IH]; intros Hr k e t.
  - destruct k; reflexivity.
  - destruct Hr as [Hc Hk]. destruct k as [|k'].
    + simpl. assert (Hf : fail_effect B trunc t c = t) by (destruct c; try discriminate; reflexivity).
      rewrite Hf. apply read_only_run, Hk.
    + simpl. pose proof (exec_read_call t c Hc) as He.
      destruct (exec_call B empty t c) as [r t']. simpl in He. subst t'. apply IH, Hk.
Qed.

End SAFE.

Definition is_read_op (o : op) : bool :=
  match o with OFetchFile _ | OExists _ | OFetchChunk _ _ => true | _ => false end.

(* ---------- the accessors' programs are fault-safe ---------- *)

Section ACC.
Variable B : Type.
Variable plain : list N -> B.
Variable gz : N -> list N -> B.
Variable gunzip : B -> gzres.
Variable trunc : B -> B.
Notation empty := (plain []).

Ltac ends := let t := fresh "t" in intro t; reflexivity.

Lemma safe_read_handle : forall p z,
  fault_safe B empty AccessErr (read_handle B plain gunzip p z).
Proof.
  intros p z. unfold read_handle. simpl. split; [intro e; ends|].
  intros [b| |d|e]; simpl; (split; [intro e'; ends | intros r; destruct r; exact I]).
Qed.

Lemma safe_probe : forall p f (k : option (path * bool) -> prog B (outcome (resval B))),
  (forall f', fault_safe B empty AccessErr (k f')) ->
  fault_safe B empty AccessErr (probe B p f (Ret AccessErr) k).
Proof.
  intros p f k Hk. unfold probe. simpl. split; [intro e; ends|].
  intros [[|]| |d|e]; simpl; try exact I.
  - split; [intro e; ends|]. intros [b| |d|e]; simpl; try exact I; apply Hk.
  - split; [intro e; ends|]. intros [[|]| |d|e]; simpl; try exact I; try apply Hk.
    split; [intro e; ends|]. intros [b| |d|e]; simpl; try exact I; apply Hk.
  - split; [intro e; ends|]. intros [[|]| |d'|e]; simpl; try exact I; try apply Hk.
    split; [intro e; ends|]. intros [b| |d''|e]; simpl; try exact I; apply Hk.
  - split; [intro e; ends|]. intros [[|]| |d'|e]; simpl; try exact I; try apply Hk.
    split; [intro e; ends|]. intros [b| |d''|e]; simpl; try exact I; apply Hk.
Qed.

Lemma safe_write_it : forall target data ow,
  fault_safe B empty AccessErr (write_it B target data ow).
Proof.
  intros target data ow. unfold write_it. simpl. split; [intro e; ends|].
  intros [b1| |d1|e1]; simpl; try exact I;
    (split; [intro e2; ends|]; intros [b2| |d2|e2]; simpl;
     (split; [intro e3; ends | intros r; destruct r; exact I])).
Qed.

Lemma ends_access : ends_err B empty (AccessErr : outcome (resval B)) (Ret AccessErr).
Proof. intro t. reflexivity. Qed.

Lemma safe_store_at : forall c fp buf mime ow,
  fault_safe B empty AccessErr (store_at B plain gz c fp buf mime ow).
Proof.
  intros c fp buf mime ow. unfold store_at. cbn [fault_safe]. split; [intro e; ends|].
  assert (Hrest : forall r1 : reply B,
    fault_safe B empty AccessErr
      match r1 with
      | RErr _ => Ret AccessErr
      | RBool true =>
          if ow
          then Do (CUnlink (if gzip c && negb (exempt mime) then fp else with_gz fp))
                 (fun r => match r with
                           | RErr _ => Ret AccessErr
                           | _ => write_it B (if gzip c && negb (exempt mime) then with_gz fp else fp)
                                    (if gzip c && negb (exempt mime) then gz (level c) buf else plain buf) ow
                           end)
          else Ret AccessErr
      | _ => write_it B (if gzip c && negb (exempt mime) then with_gz fp else fp)
               (if gzip c && negb (exempt mime) then gz (level c) buf else plain buf) ow
      end).
  { intros r1. destruct r1 as [[|]| |d1|e1]; try exact I; try apply safe_write_it.
    destruct ow; [|exact I]. cbn [fault_safe]. split; [intro e; ends|].
    intros r2. destruct r2; try exact I; apply safe_write_it. }
  intros r0. destruct r0 as [x| |d|e]; try exact I;
    (cbn [fault_safe]; split; [intro e'; ends | exact Hrest]).
Qed.

Theorem fa_fault_safe : forall c o,
  fault_safe B empty AccessErr (op_prog B plain gz gunzip c o).
Proof.
  intros c o. destruct o as [n buf mime ow | n | n | k co buf mime ow | k co]; simpl op_prog.
  - unfold fa_store_file. destruct (checked_path (base c) n) as [fp|]; [apply safe_store_at | exact I].
  - unfold fa_fetch_file. destruct (checked_path (base c) n) as [fp|]; [|exact I].
    apply safe_probe. intros [[q z]|]; [apply safe_read_handle | exact I].
  - unfold fa_file_exists. destruct (checked_path (base c) n) as [fp|]; [|exact I].
    simpl. split; [intro e; ends|].
    intros [[|]| |d|e]; simpl; try exact I;
      (split; [intro e'; ends | intros r; destruct r; exact I]).
  - unfold fa_store_chunk. destruct (chunk_path c (flat c) k co) as [fp|]; [apply safe_store_at | exact I].
  - unfold fa_fetch_chunk. destruct (chunk_path c true k co) as [pf|]; [|exact I].
    apply safe_probe. intro f1. destruct (chunk_path c false k co) as [pd|]; [|exact I].
    apply safe_probe. intros [[q z]|]; [apply safe_read_handle | exact I].
Qed.

(* (1) FileAccessor: whichever primitive call fails, with whichever errno, the
   operation ends in DataAccessError - or the fault index lies beyond the
   operation's trace and nothing happened *)
Theorem fa_fault_to_error : forall c o k e t,
  fst (run_fault B empty trunc k e t (op_prog B plain gz gunzip c o)) = AccessErr \/
  run_fault B empty trunc k e t (op_prog B plain gz gunzip c o)
  = run B empty t (op_prog B plain gz gunzip c o).
Proof. intros. apply fault_safe_sound, fa_fault_safe. Qed.

(* ShardedFileAccessor file methods: plain OSError (outcome IOErr) *)
Theorem sh_fault_safe : forall b o, fault_safe B empty IOErr (sh_op_prog B plain b o).
Proof.
  intros b o. destruct o as [n buf mime ow | n | n | k co buf mime ow | k co]; simpl sh_op_prog;
    try exact I.
  - unfold sh_store_file. destruct (sh_path b n) as [sp|]; [|exact I].
    assert (Hw : forall p, fault_safe B empty IOErr (sh_write B plain p buf)).
    { intro p. unfold sh_write. simpl. split; [intro e; ends|].
      intros [x| |d|e]; simpl; try exact I;
        (split; [intro e'; ends|]);
        intros [x'| |d'|e']; simpl; (split; [intro e''; ends | intros r; destruct r; exact I]). }
    destruct ow; [apply Hw|]. simpl. split; [intro e; ends|].
    intros [[|]| |d|e]; simpl; try exact I; apply Hw.
  - unfold sh_fetch_file. destruct (sh_path b n) as [sp|]; [|exact I]. simpl. split; [intro e; ends|].
    intros [x| |d|e]; simpl; try exact I;
      (split; [intro e'; ends|]);
      intros [x'| |d'|e']; simpl; (split; [intro e''; ends | intros r; destruct r; exact I]).
  - unfold sh_file_exists. destruct (sh_path b n) as [sp|]; [|exact I].
    simpl. split; [intro e; ends|]. intros r; destruct r; exact I.
Qed.

Theorem sh_fault_to_error : forall b o k e t,
  fst (run_fault B empty trunc k e t (sh_op_prog B plain b o)) = IOErr \/
  run_fault B empty trunc k e t (sh_op_prog B plain b o) = run B empty t (sh_op_prog B plain b o).
Proof. intros. apply fault_safe_sound, sh_fault_safe. Qed.

(* fetch / exists never change the tree, faulted or not *)
Lemma ro_read_handle : forall p z, read_only B (read_handle B plain gunzip p z).
Proof.
  intros p z. unfold read_handle. simpl. split; [reflexivity|].
  intros [b| |d|e]; simpl; (split; [reflexivity | intros r; destruct r; exact I]).
Qed.

Lemma ro_probe : forall p f (k : option (path * bool) -> prog B (outcome (resval B))),
  (forall f', read_only B (k f')) -> read_only B (probe B p f (Ret AccessErr) k).
Proof.
  intros p f k Hk. unfold probe. simpl. split; [reflexivity|].
  intros [[|]| |d|e]; simpl; try exact I.
  - split; [reflexivity|]. intros [b| |d|e]; simpl; try exact I; apply Hk.
  - split; [reflexivity|]. intros [[|]| |d|e]; simpl; try exact I; try apply Hk.
    split; [reflexivity|]. intros [b| |d|e]; simpl; try exact I; apply Hk.
  - split; [reflexivity|]. intros [[|]| |d'|e]; simpl; try exact I; try apply Hk.
    split; [reflexivity|]. intros [b| |d''|e]; simpl; try exact I; apply Hk.
  - split; [reflexivity|]. intros [[|]| |d'|e]; simpl; try exact I; try apply Hk.
    split; [reflexivity|]. intros [b| |d''|e]; simpl; try exact I; apply Hk.
Qed.

Theorem fa_read_fault_tree : forall c o k e t, is_read_op o = true ->
  snd (run_fault B empty trunc k e t (op_prog B plain gz gunzip c o)) = t.
Proof.
  intros c o k e t Hr. apply read_only_fault.
  destruct o as [n buf mime ow | n | n | k0 co buf mime ow | k0 co]; try discriminate; simpl op_prog.
  - unfold fa_fetch_file. destruct (checked_path (base c) n) as [fp|]; [|exact I].
    apply ro_probe. intros [[q z]|]; [apply ro_read_handle | exact I].
  - unfold fa_file_exists. destruct (checked_path (base c) n) as [fp|]; [|exact I].
    simpl. split; [reflexivity|].
    intros [[|]| |d|e']; simpl; try exact I; (split; [reflexivity | intros r; destruct r; exact I]).
  - unfold fa_fetch_chunk. destruct (chunk_path c true k0 co) as [pf|]; [|exact I].
    apply ro_probe. intro f1. destruct (chunk_path c false k0 co) as [pd|]; [|exact I].
    apply ro_probe. intros [[q z]|]; [apply ro_read_handle | exact I].
Qed.

End ACC.

(* ====================================================================== *)
(* ShardedFileAccessor.close(): faults, what was written, the retry. *)

Section CLOSEP.
Variable B : Type.
Variable plain : list N -> B.
Variable trunc : B -> B.
Notation empty := (plain []).
Notation prog := (prog B).

(* [reach p cs a]: some sequence of replies drives p through the calls cs to
   the result a.  Every interpreter (fault-free, single fault, schedule) ends
   in a reachable result, so statements about all reachable results hold for
   every fault position, every errno and every tree. *)
Fixpoint reach {A} (p : prog A) (cs : list (call B)) (a : A) : Prop :=
  match p with
  | Ret x => cs = [] /\ a = x
  | Do c k => exists r cs', cs = c :: cs' /\ reach (k r) cs' a
  end.

Lemma run_reach : forall A (p : prog A) t, exists cs, reach p cs (fst (run B empty t p)).
Proof.
  intros A p. induction p as [a | c k IH]; intro t.
  - exists []. simpl. auto.
  - simpl. destruct (exec_call B empty t c) as [r t']. destruct (IH r t') as [cs H].
    exists (c :: cs), r, cs. auto.
Qed.

Lemma run_fault_reach : forall A (p : prog A) k e t,
  exists cs, reach p cs (fst (run_fault B empty trunc k e t p)).
Proof.
  intros A p. induction p as [a | c kont IH]; intros k e t.
  - exists []. destruct k; simpl; auto.
  - destruct k as [|k']; simpl.
    + destruct (run_reach A (kont (RErr e)) (fail_effect B trunc t c)) as [cs H].
      exists (c :: cs), (RErr e), cs. auto.
    + destruct (exec_call B empty t c) as [r t']. destruct (IH r k' e t') as [cs H].
      exists (c :: cs), r, cs. auto.
Qed.

Lemma reach_pbindp : forall A C (p : prog A) (f : A -> prog C) cs a,
  reach (pbindp B p f) cs a ->
  exists cs1 x cs2, reach p cs1 x /\ reach (f x) cs2 a /\ cs = cs1 ++ cs2.
Proof.
  intros A C p f. induction p as [x | c k IH]; intros cs a H; simpl in H.
  - exists [], x, cs. simpl. auto.
  - destruct H as [r [cs' [E H']]]. subst cs.
    destruct (IH r cs' a H') as [cs1 [x [cs2 [H1 [H2 E]]]]].
    exists (c :: cs1), x, cs2. split; [simpl; exists r, cs1; auto|]. split; [exact H2 | simpl; congruence].
Qed.

(* ---------- what a reachable run of close has done ---------- *)

Definition cpath (c : call B) : path :=
  match c with
  | CIsFile p | CExists p | CMakedirs p | CUnlink p | COpen p _ | CWrite p _ | CRead p | CClose p => p
  end.
Definition nwrites (cs : list (call B)) : nat :=
  length (filter (fun c => match c with CWrite _ _ => true | _ => false end) cs).
(* the content last written to a file *)
Fixpoint last_written (f : path) (cs : list (call B)) : option B :=
  match cs with
  | [] => None
  | c :: r =>
      match last_written f r with
      | Some d => Some d
      | None => match c with CWrite p d => if path_eqb p f then Some d else None | _ => None end
      end
  end.
Definition on_shard (d : shard_desc) (cs : list (call B)) : Prop :=
  Forall (fun c => cpath c = sd_dir d \/ cpath c = sd_file d) cs.

Ltac shard_calls := unfold on_shard; repeat (apply Forall_cons; [right; reflexivity|]); apply Forall_nil.

Lemma idx_reach : forall d fuel j cs r st',
  reach (idx_writes B plain d j fuel) cs (r, st') ->
  on_shard d cs /\ (1 <= nwrites cs)%nat /\
  match r with
  | COk => st' = {| sh_dirty := false; sh_dead := sd_n d |} /\
           last_written (sd_file d) cs = Some (plain (complete d))
  | CIOErr => st' = {| sh_dirty := true; sh_dead := sd_n d |}
  | CAttrErr => False
  end.
Proof.
  intros d fuel. induction fuel as [|f IH]; intros j cs r st' H; simpl in H.
  - destruct H as [r0 [cs0 [-> H]]]. destruct r0 as [b| |x|e]; simpl in H;
      destruct H as [r1 [cs1 [-> H]]].
    1-3: (destruct r1 as [b1| |x1|e1]; simpl in H; destruct H as [-> H]; inversion H; subst;
          (split; [shard_calls|]); (split; [unfold nwrites; simpl; lia|]); try reflexivity;
          (split; [reflexivity|]); simpl; rewrite path_eqb_refl; reflexivity).
    destruct r1; simpl in H; destruct H as [-> H]; inversion H; subst;
      (split; [shard_calls|]; split; [unfold nwrites; simpl; lia | reflexivity]).
  - destruct H as [r0 [cs0 [-> H]]]. destruct r0 as [b| |x|e]; simpl in H.
    4:{ destruct H as [r1 [cs1 [-> H]]]. destruct r1; simpl in H; destruct H as [-> H]; inversion H; subst;
        (split; [shard_calls|]; split; [unfold nwrites; simpl; lia | reflexivity]). }
    all: (destruct (IH (S j) cs0 r st' H) as [H1 [H2 H3]];
          split; [constructor; [right; reflexivity | exact H1]|];
          split; [unfold nwrites in *; simpl; lia|];
          destruct r; try exact H3; destruct H3 as [H3 H4]; split; [exact H3|]; simpl; rewrite H4; reflexivity).
Qed.

Lemma data_reach : forall d fuel i cs r st',
  reach (data_writes B plain d i fuel) cs (r, st') ->
  on_shard d cs /\ (1 <= nwrites cs)%nat /\
  match r with
  | COk => st' = {| sh_dirty := false; sh_dead := sd_n d |} /\
           last_written (sd_file d) cs = Some (plain (complete d))
  | CIOErr => sh_dirty st' = true /\
              ((sh_dead st' = i + nwrites cs - 1 /\ nwrites cs <= fuel)%nat \/
               (sh_dead st' = sd_n d /\ fuel < nwrites cs)%nat)
  | CAttrErr => False
  end.
Proof.
  intros d fuel. induction fuel as [|f IH]; intros i cs r st' H; simpl in H.
  - destruct (idx_reach d _ 0%nat cs r st' H) as [H1 [H2 H3]]. split; [exact H1|]. split; [exact H2|].
    destruct r; try exact H3. subst st'. split; [reflexivity|]. right. split; [reflexivity | lia].
  - destruct H as [r0 [cs0 [-> H]]]. destruct r0 as [b| |x|e]; simpl in H.
    4:{ destruct H as [r1 [cs1 [-> H]]]. destruct r1; simpl in H; destruct H as [-> H]; inversion H; subst;
        (split; [shard_calls|]; split; [unfold nwrites; simpl; lia|];
         split; [reflexivity|]; left; unfold nwrites; simpl; split; lia). }
    all: (destruct (IH (S i) cs0 r st' H) as [H1 [H2 H3]];
          split; [constructor; [right; reflexivity | exact H1]|];
          split; [unfold nwrites in *; simpl; lia|];
          destruct r; try exact H3;
          [destruct H3 as [H3 H4]; split; [exact H3|]; simpl; rewrite H4; reflexivity
          |destruct H3 as [H3 [[H4 H5]|[H4 H5]]]; (split; [exact H3|]); unfold nwrites in *; simpl;
           [left; split; lia | right; split; [exact H4 | lia]]]).
Qed.

Definition closed_of (x : shard_desc * shst) : shst :=
  if sh_dirty (snd x) then {| sh_dirty := false; sh_dead := sd_n (fst x) |} else snd x.

Ltac io_tail dead :=
  split; [reflexivity|]; split; [reflexivity|];
  destruct dead; [left; split; [reflexivity|]; unfold nwrites; simpl; rewrite Nat.min_0_r; reflexivity
                 | right; split; [lia | reflexivity]].

(* Shard.close: everything it can reach *)
Lemma shard_reach : forall d st cs r st',
  reach (shard_close_prog B plain d st) cs (r, st') ->
  on_shard d cs /\
  match r with
  | COk => st' = closed_of (d, st) /\
           (sh_dirty st = false /\ cs = [] \/
            sh_dirty st = true /\ sh_dead st = 0%nat /\
            last_written (sd_file d) cs = Some (plain (complete d)))
  | CIOErr => sh_dirty st = true /\ sh_dirty st' = true /\
              ((sh_dead st = 0%nat /\ sh_dead st' = Nat.min (sd_n d) (nwrites cs - 2)) \/
               ((0 < sh_dead st)%nat /\ st' = st))
  | CAttrErr => sh_dirty st = true /\ (0 < sh_dead st)%nat /\ st' = st /\
                last_written (sd_file d) cs = Some (plain (sd_zero d))
  end.
Proof.
  intros d [dirty dead] cs r st' H. unfold shard_close_prog in H. simpl sh_dirty in *. simpl sh_dead in *.
  destruct dirty; simpl in H.
  2:{ destruct H as [-> H]. inversion H; subst. split; [constructor|]. split; [reflexivity|]. left. auto. }
  destruct H as [r0 [cs0 [-> H]]].
  destruct r0 as [b| |x|e]; simpl in H.
  4:{ destruct H as [-> H]. inversion H; subst. split; [unfold on_shard; repeat constructor; left; reflexivity|].
      io_tail dead. }
  all: destruct H as [r1 [cs1 [-> H]]]; destruct r1 as [b1| |x1|e1]; simpl in H.
  all: try (destruct H as [-> H]; inversion H; subst;
            split; [unfold on_shard; constructor; [left; reflexivity | constructor; [right; reflexivity | constructor]]|];
            io_tail dead).
  all: destruct H as [r2 [cs2 [-> H]]]; destruct r2 as [b2| |x2|e2]; simpl in H.
  all: try (destruct H as [r3 [cs3 [-> H]]]; destruct r3; simpl in H; destruct H as [-> H]; inversion H; subst;
            (split; [unfold on_shard; constructor; [left; reflexivity | repeat (constructor; [right; reflexivity|]); constructor]|]);
            io_tail dead).
  all: destruct dead as [|dd]; simpl in H.
  all: try (destruct H as [r3 [cs3 [-> H]]]; destruct r3; simpl in H; destruct H as [-> H]; inversion H; subst;
            (split; [unfold on_shard; constructor; [left; reflexivity | repeat (constructor; [right; reflexivity|]); constructor]|]);
            try (split; [reflexivity|]; split; [lia|]; split; [reflexivity|];
                 simpl; rewrite path_eqb_refl; reflexivity);
            (split; [reflexivity|]; split; [reflexivity|]; right; split; [lia | reflexivity])).
  all: destruct (data_reach d _ 0%nat cs2 r st' H) as [H1 [H2 H3]];
       (split; [unfold on_shard; constructor; [left; reflexivity | repeat (constructor; [right; reflexivity|]); exact H1]|]);
       destruct r; try contradiction.
  all: try (destruct H3 as [H3 H4]; split; [exact H3|]; right; split; [reflexivity|]; split; [reflexivity|];
            simpl; rewrite H4; reflexivity).
  all: destruct H3 as [H3 [[H4 H5]|[H4 H5]]]; (split; [reflexivity|]); (split; [exact H3|]); left; (split; [reflexivity|]);
       unfold nwrites in *; simpl; rewrite H4; unfold sd_n in *; lia.
Qed.

(* ---------- the whole close: every reachable result ---------- *)

Fixpoint segs (l1 : list (shard_desc * shst)) (cs : list (call B)) : Prop :=
  match l1 with
  | [] => cs = []
  | x :: r => exists ca cb, cs = ca ++ cb /\
              reach (shard_close_prog B plain (fst x) (snd x)) ca (COk, closed_of x) /\ segs r cb
  end.

Theorem close_reach : forall l done cs r S',
  reach (close_shards B plain l done) cs (r, S') ->
  (r = COk /\ S' = rev done ++ map closed_of l /\ segs l cs) \/
  (r <> COk /\ exists l1 x l2 ca cb stx,
     l = l1 ++ x :: l2 /\ cs = ca ++ cb /\ segs l1 ca /\
     reach (shard_close_prog B plain (fst x) (snd x)) cb (r, stx) /\
     S' = rev done ++ map closed_of l1 ++ stx :: map snd l2).
Proof.
  induction l as [|[d st] l IH]; intros done cs r S' H.
  - simpl in H. destruct H as [-> H]. inversion H; subst. left. simpl. rewrite app_nil_r. repeat split.
  - simpl in H. apply reach_pbindp in H. destruct H as [cs1 [[res st'] [cs2 [H1 [H2 ->]]]]].
    simpl fst in H2. simpl snd in H2. destruct res.
    + pose proof (shard_reach _ _ _ _ _ H1) as [_ [Hst _]]. subst st'.
      destruct (IH _ _ _ _ H2) as [[-> [-> Hs]] | [Hne [l1 [y [l2 [ca [cb [stx [-> [-> [Hs [Hr ->]]]]]]]]]]]].
      * left. split; [reflexivity|]. split; [simpl; rewrite <- app_assoc; reflexivity|].
        simpl. exists cs1, cs2. auto.
      * right. split; [exact Hne|]. exists ((d, st) :: l1), y, l2, (cs1 ++ ca), cb, stx.
        split; [reflexivity|]. split; [rewrite app_assoc; reflexivity|]. split; [simpl; exists cs1, ca; auto|].
        split; [exact Hr|]. simpl. rewrite <- app_assoc. reflexivity.
    + simpl in H2. destruct H2 as [-> H2]. inversion H2; subst. right. split; [discriminate|].
      exists [], (d, st), l, [], cs1, st'. rewrite app_nil_r. simpl. auto.
    + simpl in H2. destruct H2 as [-> H2]. inversion H2; subst. right. split; [discriminate|].
      exists [], (d, st), l, [], cs1, st'. rewrite app_nil_r. simpl. auto.
Qed.

(* the calls of the successfully closed shards stay on those shards, and each
   dirty one among them had intact buffers and was written completely *)
Lemma lw_app_some : forall f ca cb x, last_written f cb = Some x -> last_written f (ca ++ cb) = Some x.
Proof. induction ca as [|c ca IH]; intros cb x H; simpl; [exact H|]. rewrite (IH cb x H). reflexivity. Qed.

Lemma lw_app_none : forall f ca cb, Forall (fun c => cpath c <> f) cb ->
  last_written f (ca ++ cb) = last_written f ca.
Proof.
  intros f ca cb H. induction ca as [|c ca IH]; simpl.
  - induction cb as [|c cb IHb]; [reflexivity|]. inversion H; subst. simpl. rewrite (IHb H3).
    destruct c; try reflexivity. simpl in H2.
    destruct (path_eqb p f) eqn:E; [apply path_eqb_eq in E; contradiction | reflexivity].
  - rewrite IH. reflexivity.
Qed.

Definition files_apart (l : list (shard_desc * shst)) : Prop :=
  forall i j x y, nth_error l i = Some x -> nth_error l j = Some y -> i <> j ->
    sd_file (fst x) <> sd_file (fst y) /\ sd_file (fst x) <> sd_dir (fst y).

Lemma segs_on : forall l1 cs, segs l1 cs ->
  Forall (fun c => exists x, In x l1 /\ (cpath c = sd_dir (fst x) \/ cpath c = sd_file (fst x))) cs.
Proof.
  induction l1 as [|x l1 IH]; intros cs H; simpl in H.
  - subst. constructor.
  - destruct H as [ca [cb [-> [Hr Hs]]]]. apply Forall_app. split.
    + destruct (shard_reach _ _ _ _ _ Hr) as [Ho _]. eapply Forall_impl; [|exact Ho].
      intros c Hc. exists x. split; [left; reflexivity | exact Hc].
    + eapply Forall_impl; [|exact (IH cb Hs)]. intros c [y [Hy Hc]]. exists y. split; [right; exact Hy | exact Hc].
Qed.

Lemma segs_complete : forall l1 cs, segs l1 cs -> files_apart l1 ->
  forall x, In x l1 -> sh_dirty (snd x) = true ->
  sh_dead (snd x) = 0%nat /\ last_written (sd_file (fst x)) cs = Some (plain (complete (fst x))).
Proof.
  induction l1 as [|y l1 IH]; intros cs Hs Hfa x Hin Hd; [contradiction|].
  simpl in Hs. destruct Hs as [ca [cb [-> [Hr Hrest]]]].
  assert (Hfa' : files_apart l1).
  { intros i j a b Ha Hb Hij. apply (Hfa (S i) (S j) a b); simpl; auto. }
  destruct Hin as [-> | Hin].
  - destruct (shard_reach _ _ _ _ _ Hr) as [_ [_ [[Hc _] | [_ [Hdead Hlw]]]]]; [congruence|].
    split; [exact Hdead|]. rewrite lw_app_none; [exact Hlw|].
    eapply Forall_impl; [|exact (segs_on l1 cb Hrest)]. intros c [z [Hz Hc]].
    apply In_nth_error in Hz. destruct Hz as [j Hj].
    destruct (Hfa 0%nat (S j) x z eq_refl Hj ltac:(discriminate)) as [H1 H2].
    destruct Hc as [Hc|Hc]; rewrite Hc; congruence.
  - destruct (IH cb Hrest Hfa' x Hin Hd) as [H1 H2]. split; [exact H1 | apply lw_app_some; exact H2].
Qed.

(* ---------- (a) a failing primitive makes close fail with an I/O error ---------- *)

Fixpoint fault_safeP {A} (P : A -> Prop) (p : prog A) : Prop :=
  match p with
  | Ret _ => True
  | Do c k => (forall e t, P (fst (run B empty t (k (RErr e))))) /\ forall r, fault_safeP P (k r)
  end.

Theorem fault_safeP_sound : forall A (P : A -> Prop) (p : prog A), fault_safeP P p ->
  forall k e t,
    P (fst (run_fault B empty trunc k e t p)) \/
    run_fault B empty trunc k e t p = run B empty t p.
Proof.
  intros A P p. induction p as [a | c kont IH]; intros Hs k e t.
  - right. destruct k; reflexivity.
  - destruct Hs as [He Hr]. destruct k as [|k'].
    + left. simpl. apply He.
    + simpl. destruct (exec_call B empty t c) as [r t'] eqn:Ec.
      destruct (IH r (Hr r) k' e t') as [H|H]; [left; exact H | right; exact H].
Qed.

Lemma run_pbindp : forall A C (p : prog A) (f : A -> prog C) t,
  run B empty t (pbindp B p f) = let '(a, t') := run B empty t p in run B empty t' (f a).
Proof.
  intros A C p f. induction p as [a | c k IH]; intro t; simpl; [reflexivity|].
  destruct (exec_call B empty t c) as [r t']. apply IH.
Qed.

Lemma fsP_bind : forall A C (Pi : A -> Prop) (P : C -> Prop) (p : prog A) (f : A -> prog C),
  fault_safeP Pi p -> (forall x, Pi x -> forall t, P (fst (run B empty t (f x)))) ->
  (forall x, fault_safeP P (f x)) -> fault_safeP P (pbindp B p f).
Proof.
  intros A C Pi P p f. induction p as [a | c k IH]; intros Hp Hf Hs; simpl.
  - apply Hs.
  - destruct Hp as [He Hr]. split.
    + intros e t. rewrite run_pbindp. specialize (He e t).
      destruct (run B empty t (k (RErr e))) as [a t']. apply Hf. exact He.
    + intro r. apply IH; auto.
Qed.

Definition is_io (x : cres * shst) : Prop := fst x = CIOErr.

Lemma safe_idx : forall d fuel j, fault_safeP is_io (idx_writes B plain d j fuel).
Proof.
  intros d fuel. induction fuel as [|f IH]; intro j; simpl.
  - split; [intros e t; reflexivity|]. intros [b| |x|e]; simpl;
      (split; [intros e' t; reflexivity | intros r; destruct r; exact I]).
  - split; [intros e t; reflexivity|]. intros [b| |x|e]; simpl; try apply IH.
    split; [intros e' t; reflexivity | intros r; destruct r; exact I].
Qed.

Lemma safe_data : forall d fuel i, fault_safeP is_io (data_writes B plain d i fuel).
Proof.
  intros d fuel. induction fuel as [|f IH]; intro i; simpl; [apply safe_idx|].
  split; [intros e t; reflexivity|]. intros [b| |x|e]; simpl; try apply IH.
  split; [intros e' t; reflexivity | intros r; destruct r; exact I].
Qed.

Lemma safe_shard : forall d st, fault_safeP is_io (shard_close_prog B plain d st).
Proof.
  intros d st. unfold shard_close_prog. destruct (sh_dirty st); simpl; [|exact I].
  split; [intros e t; reflexivity|]. intros [b| |x|e]; simpl; try exact I;
    (split; [intros e' t; reflexivity|]; intros [b1| |x1|e1]; simpl; try exact I;
     (split; [intros e2 t; reflexivity|]; intros [b2| |x2|e2]; simpl;
      try (split; [intros e3 t; reflexivity | intros r; destruct r; exact I]);
      (destruct (sh_dead st); [apply safe_data|];
       simpl; split; [intros e3 t; reflexivity | intros r; destruct r; exact I]))).
Qed.

Lemma safe_close : forall l done, fault_safeP (fun x : cres * list shst => fst x = CIOErr) (close_shards B plain l done).
Proof.
  induction l as [|[d st] l IH]; intro done; simpl; [exact I|].
  apply (fsP_bind _ _ is_io); [apply safe_shard | |].
  - intros [res st'] Hx t. unfold is_io in Hx. simpl in Hx. subst res. reflexivity.
  - intros [res st']. simpl. destruct res; [apply IH | exact I | exact I].
Qed.

Theorem close_fault_to_error : forall l k e t,
  fst (fst (run_fault B empty trunc k e t (close_prog B plain l))) = CIOErr \/
  run_fault B empty trunc k e t (close_prog B plain l) = run B empty t (close_prog B plain l).
Proof. intros l k e t. apply (fault_safeP_sound _ _ _ (safe_close l [])). Qed.

(* ---------- (c) the retry ---------- *)

(* the shard list of a second close on the state the first one left *)
Lemma retry_descs_eq : forall l1 x l2 stx,
  retry_descs (l1 ++ x :: l2) (map closed_of l1 ++ stx :: map snd l2)
  = map (fun y => (fst y, closed_of y)) l1 ++ (fst x, stx) :: l2.
Proof.
  intros l1 x l2 stx. unfold retry_descs. induction l1 as [|y l1 IH]; simpl.
  - f_equal. induction l2 as [|[d s] l2 IHl]; simpl; [reflexivity | f_equal; exact IHl].
  - f_equal. exact IH.
Qed.

(* a second close can only return normally if the buffers of the shard that
   failed were all still there ... *)
Theorem retry_ok_needs_buffers : forall l1 dx stx l2 cs2 S2,
  sh_dirty stx = true ->
  reach (close_prog B plain (l1 ++ (dx, stx) :: l2)) cs2 (COk, S2) -> sh_dead stx = 0%nat.
Proof.
  intros l1 dx stx l2 cs2 S2 Hd H. unfold close_prog in H.
  destruct (close_reach _ _ _ _ _ H) as [[_ [_ Hs]] | [Hne _]]; [|congruence].
  clear H. revert cs2 Hs. induction l1 as [|y l1 IH]; intros cs2 Hs; simpl in Hs.
  - destruct Hs as [ca [cb [_ [Hr _]]]]. simpl in Hr.
    destruct (shard_reach _ _ _ _ _ Hr) as [_ [_ [[Hc _] | [_ [H0 _]]]]]; [congruence | exact H0].
  - destruct Hs as [ca [cb [_ [_ Hs]]]]. exact (IH cb Hs).
Qed.

(* ... and then every shard that was still dirty is written completely (the
   others are not touched: no call at all) *)
Theorem retry_ok_complete : forall l cs2 S2,
  reach (close_prog B plain l) cs2 (COk, S2) -> files_apart l ->
  S2 = map closed_of l /\
  forall x, In x l -> sh_dirty (snd x) = true ->
    sh_dead (snd x) = 0%nat /\ last_written (sd_file (fst x)) cs2 = Some (plain (complete (fst x))).
Proof.
  intros l cs2 S2 H Hfa. unfold close_prog in H.
  destruct (close_reach _ _ _ _ _ H) as [[_ [HS Hs]] | [Hne _]]; [|congruence].
  split; [exact HS|]. exact (segs_complete l cs2 Hs Hfa).
Qed.

(* otherwise the second close raises: it is an I/O error or the
   AttributeError, and in the latter case the shard file has just been
   truncated to the zero header *)
Lemma skip_clean : forall l1 rest done, Forall (fun y => sh_dirty (snd y) = false) l1 ->
  close_shards B plain (l1 ++ rest) done = close_shards B plain rest (rev (map snd l1) ++ done).
Proof.
  induction l1 as [|[d st] l1 IH]; intros rest done Hc; [reflexivity|].
  inversion Hc as [|? ? Hd Hrest]; subst. simpl in Hd. simpl.
  unfold shard_close_prog. rewrite Hd. simpl. rewrite (IH rest (st :: done) Hrest).
  rewrite <- app_assoc. reflexivity.
Qed.

Theorem retry_raises : forall l1 dx stx l2 cs2 r2 S2,
  sh_dirty stx = true -> (0 < sh_dead stx)%nat ->
  Forall (fun y => sh_dirty (snd y) = false) l1 ->
  reach (close_prog B plain (l1 ++ (dx, stx) :: l2)) cs2 (r2, S2) ->
  r2 <> COk /\ S2 = map snd l1 ++ stx :: map snd l2 /\
  (r2 = CAttrErr -> last_written (sd_file dx) cs2 = Some (plain (sd_zero dx))).
Proof.
  intros l1 dx stx l2 cs2 r2 S2 Hd Hdead Hclean H. unfold close_prog in H.
  rewrite (skip_clean l1 _ [] Hclean) in H. simpl in H. rewrite app_nil_r in H.
  apply reach_pbindp in H. destruct H as [cs1 [[res st'] [cs3 [H1 [H2 ->]]]]].
  pose proof (shard_reach _ _ _ _ _ H1) as [_ Hs]. simpl fst in H2. simpl snd in H2.
  destruct res.
  - destruct Hs as [_ [[Hc _] | [_ [H0 _]]]]; [congruence | lia].
  - simpl in H2. destruct H2 as [-> H2]. inversion H2; subst.
    destruct Hs as [_ [_ [[H0 _] | [_ ->]]]]; [lia|].
    split; [discriminate|]. split; [rewrite rev_involutive; reflexivity | discriminate].
  - simpl in H2. destruct H2 as [-> H2]. inversion H2; subst.
    destruct Hs as [_ [_ [-> Hlw]]].
    split; [discriminate|]. split; [rewrite rev_involutive; reflexivity|].
    intros _. rewrite app_nil_r. exact Hlw.
Qed.

End CLOSEP.
