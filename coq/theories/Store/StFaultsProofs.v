(* Proofs for C18: a failing primitive makes the operation fail with the
   accessor's error and leaves the other names' files untouched; interrupted
   stores leave a state in which the reader finds the old content, the new
   content, a prefix of the new content (uncompressed files: as-is), or a
   detectable error. *)
From Coq Require Import NArith ZArith Arith List Bool Lia.
From NGS Require Import Val Ints StFS StFSProofs StFileAccessor StFileAccessorProofs
                        StRefineProofs StSharded StFaults.
Import ListNotations.
Open Scope N_scope.

Section SAFE.
Variable B : Type.
Variable empty : B.
Variable trunc : B -> B.

Definition ends_err {A} (err : A) (p : prog B A) : Prop :=
  forall t, fst (run B empty t p) = err.

(* every continuation, when handed an OSError, ends in [err] *)
Fixpoint fault_safe {A} (err : A) (p : prog B A) : Prop :=
  match p with
  | Ret _ => True
  | Do c k => (forall e, ends_err err (k (RErr e))) /\ forall r, fault_safe err (k r)
  end.

(* a single fault either turns the result into [err] or never fires *)
Theorem fault_safe_sound : forall A (err : A) (p : prog B A), fault_safe err p ->
  forall k e t,
    fst (run_fault B empty trunc k e t p) = err \/
    run_fault B empty trunc k e t p = run B empty t p.
Proof.
  intros A err p. induction p as [a | c kont IH]; intros Hs k e t.
  - right. destruct k; reflexivity.
  - destruct Hs as [He Hr]. destruct k as [|k'].
    + left. simpl. apply He.
    + simpl. destruct (exec_call B empty t c) as [r t'] eqn:Ec.
      destruct (IH r (Hr r) k' e t') as [H|H]; [left; exact H | right; exact H].
Qed.

(* reads never modify the tree, with or without a fault *)
Definition read_call (c : call B) : bool :=
  match c with
  | CIsFile _ | CExists _ | CRead _ | CClose _ | COpen _ MR => true
  | _ => false
  end.
Fixpoint read_only {A} (p : prog B A) : Prop :=
  match p with
  | Ret _ => True
  | Do c k => read_call c = true /\ forall r, read_only (k r)
  end.

Lemma exec_read_call : forall t c, read_call c = true -> snd (exec_call B empty t c) = t.
Proof.
  intros t c H. destruct c as [p|p|p|p|p m|p d|p|p]; try discriminate; simpl; try reflexivity.
  - destruct m; try discriminate. unfold open_.
    destruct (resolve B t p) as [e|q]; [reflexivity|].
    destruct (lookup B t q) as [[b|]|]; reflexivity.
  - destruct (read_at B t p); reflexivity.
Qed.

Lemma read_only_run : forall A (p : prog B A), read_only p -> forall t, snd (run B empty t p) = t.
Proof.
  intros A p. induction p as [a | c kont IH]; intros Hr t; [reflexivity|].
  destruct Hr as [Hc Hk]. simpl.
  pose proof (exec_read_call t c Hc) as He.
  destruct (exec_call B empty t c) as [r t']. simpl in He. subst t'. apply IH, Hk.
Qed.

Theorem read_only_fault : forall A (p : prog B A), read_only p ->
  forall k e t, snd (run_fault B empty trunc k e t p) = t.
Proof.
  intros A p. induction p as [a | c kont IH]; intros Hr k e t.
  - destruct k; reflexivity.
  - destruct Hr as [Hc Hk]. destruct k as [|k'].
    + simpl. assert (Hf : fail_effect B trunc t c = t) by (destruct c; try discriminate; reflexivity).
      rewrite Hf. apply read_only_run, Hk.
    + simpl. pose proof (exec_read_call t c Hc) as He.
      destruct (exec_call B empty t c) as [r t']. simpl in He. subst t'. apply IH, Hk.
Qed.

End SAFE.

Definition is_read_op (o : op) : bool :=
  match o with OFetchFile _ | OExists _ | OFetchChunk _ _ => true | _ => false end.

(* ---------- the accessors' programs are fault-safe ---------- *)

Section ACC.
Variable B : Type.
Variable plain : list N -> B.
Variable gz : N -> list N -> B.
Variable gunzip : B -> gzres.
Variable trunc : B -> B.
Notation empty := (plain []).

Ltac ends := let t := fresh "t" in intro t; reflexivity.

Lemma safe_read_handle : forall p z,
  fault_safe B empty AccessErr (read_handle B plain gunzip p z).
Proof.
  intros p z. unfold read_handle. simpl. split; [intro e; ends|].
  intros [b| |d|e]; simpl; (split; [intro e'; ends | intros r; destruct r; exact I]).
Qed.

Lemma safe_probe : forall p f (k : option (path * bool) -> prog B (outcome (resval B))),
  (forall f', fault_safe B empty AccessErr (k f')) ->
  fault_safe B empty AccessErr (probe B p f (Ret AccessErr) k).
Proof.
  intros p f k Hk. unfold probe. simpl. split; [intro e; ends|].
  intros [[|]| |d|e]; simpl; try exact I.
  - split; [intro e; ends|]. intros [b| |d|e]; simpl; try exact I; apply Hk.
  - split; [intro e; ends|]. intros [[|]| |d|e]; simpl; try exact I; try apply Hk.
    split; [intro e; ends|]. intros [b| |d|e]; simpl; try exact I; apply Hk.
  - split; [intro e; ends|]. intros [[|]| |d'|e]; simpl; try exact I; try apply Hk.
    split; [intro e; ends|]. intros [b| |d''|e]; simpl; try exact I; apply Hk.
  - split; [intro e; ends|]. intros [[|]| |d'|e]; simpl; try exact I; try apply Hk.
    split; [intro e; ends|]. intros [b| |d''|e]; simpl; try exact I; apply Hk.
Qed.

Lemma safe_write_it : forall target data ow,
  fault_safe B empty AccessErr (write_it B target data ow).
Proof.
  intros target data ow. unfold write_it. simpl. split; [intro e; ends|].
  intros [b1| |d1|e1]; simpl; try exact I;
    (split; [intro e2; ends|]; intros [b2| |d2|e2]; simpl;
     (split; [intro e3; ends | intros r; destruct r; exact I])).
Qed.

Lemma ends_access : ends_err B empty (AccessErr : outcome (resval B)) (Ret AccessErr).
Proof. intro t. reflexivity. Qed.

Lemma safe_store_at : forall c fp buf mime ow,
  fault_safe B empty AccessErr (store_at B plain gz c fp buf mime ow).
Proof.
  intros c fp buf mime ow. unfold store_at. cbn [fault_safe]. split; [intro e; ends|].
  assert (Hrest : forall r1 : reply B,
    fault_safe B empty AccessErr
      match r1 with
      | RErr _ => Ret AccessErr
      | RBool true =>
          if ow
          then Do (CUnlink (if gzip c && negb (exempt mime) then fp else with_gz fp))
                 (fun r => match r with
                           | RErr _ => Ret AccessErr
                           | _ => write_it B (if gzip c && negb (exempt mime) then with_gz fp else fp)
                                    (if gzip c && negb (exempt mime) then gz (level c) buf else plain buf) ow
                           end)
          else Ret AccessErr
      | _ => write_it B (if gzip c && negb (exempt mime) then with_gz fp else fp)
               (if gzip c && negb (exempt mime) then gz (level c) buf else plain buf) ow
      end).
  { intros r1. destruct r1 as [[|]| |d1|e1]; try exact I; try apply safe_write_it.
    destruct ow; [|exact I]. cbn [fault_safe]. split; [intro e; ends|].
    intros r2. destruct r2; try exact I; apply safe_write_it. }
  intros r0. destruct r0 as [x| |d|e]; try exact I;
    (cbn [fault_safe]; split; [intro e'; ends | exact Hrest]).
Qed.

Theorem fa_fault_safe : forall c o,
  fault_safe B empty AccessErr (op_prog B plain gz gunzip c o).
Proof.
  intros c o. destruct o as [n buf mime ow | n | n | k co buf mime ow | k co]; simpl op_prog.
  - unfold fa_store_file. destruct (checked_path (base c) n) as [fp|]; [apply safe_store_at | exact I].
  - unfold fa_fetch_file. destruct (checked_path (base c) n) as [fp|]; [|exact I].
    apply safe_probe. intros [[q z]|]; [apply safe_read_handle | exact I].
  - unfold fa_file_exists. destruct (checked_path (base c) n) as [fp|]; [|exact I].
    simpl. split; [intro e; ends|].
    intros [[|]| |d|e]; simpl; try exact I;
      (split; [intro e'; ends | intros r; destruct r; exact I]).
  - unfold fa_store_chunk. destruct (chunk_path c (flat c) k co) as [fp|]; [apply safe_store_at | exact I].
  - unfold fa_fetch_chunk. destruct (chunk_path c true k co) as [pf|]; [|exact I].
    apply safe_probe. intro f1. destruct (chunk_path c false k co) as [pd|]; [|exact I].
    apply safe_probe. intros [[q z]|]; [apply safe_read_handle | exact I].
Qed.

(* (1) FileAccessor: whichever primitive call fails, with whichever errno, the
   operation ends in DataAccessError - or the fault index lies beyond the
   operation's trace and nothing happened *)
Theorem fa_fault_to_error : forall c o k e t,
  fst (run_fault B empty trunc k e t (op_prog B plain gz gunzip c o)) = AccessErr \/
  run_fault B empty trunc k e t (op_prog B plain gz gunzip c o)
  = run B empty t (op_prog B plain gz gunzip c o).
Proof. intros. apply fault_safe_sound, fa_fault_safe. Qed.

(* ShardedFileAccessor file methods: plain OSError (outcome IOErr) *)
Theorem sh_fault_safe : forall b o, fault_safe B empty IOErr (sh_op_prog B plain b o).
Proof.
  intros b o. destruct o as [n buf mime ow | n | n | k co buf mime ow | k co]; simpl sh_op_prog;
    try exact I.
  - unfold sh_store_file. destruct (sh_path b n) as [sp|]; [|exact I].
    assert (Hw : forall p, fault_safe B empty IOErr (sh_write B plain p buf)).
    { intro p. unfold sh_write. simpl. split; [intro e; ends|].
      intros [x| |d|e]; simpl; try exact I;
        (split; [intro e'; ends|]);
        intros [x'| |d'|e']; simpl; (split; [intro e''; ends | intros r; destruct r; exact I]). }
    destruct ow; [apply Hw|]. simpl. split; [intro e; ends|].
    intros [[|]| |d|e]; simpl; try exact I; apply Hw.
  - unfold sh_fetch_file. destruct (sh_path b n) as [sp|]; [|exact I]. simpl. split; [intro e; ends|].
    intros [x| |d|e]; simpl; try exact I;
      (split; [intro e'; ends|]);
      intros [x'| |d'|e']; simpl; (split; [intro e''; ends | intros r; destruct r; exact I]).
  - unfold sh_file_exists. destruct (sh_path b n) as [sp|]; [|exact I].
    simpl. split; [intro e; ends|]. intros r; destruct r; exact I.
Qed.

Theorem sh_fault_to_error : forall b o k e t,
  fst (run_fault B empty trunc k e t (sh_op_prog B plain b o)) = IOErr \/
  run_fault B empty trunc k e t (sh_op_prog B plain b o) = run B empty t (sh_op_prog B plain b o).
Proof. intros. apply fault_safe_sound, sh_fault_safe. Qed.

(* fetch / exists never change the tree, faulted or not *)
Lemma ro_read_handle : forall p z, read_only B (read_handle B plain gunzip p z).
Proof.
  intros p z. unfold read_handle. simpl. split; [reflexivity|].
  intros [b| |d|e]; simpl; (split; [reflexivity | intros r; destruct r; exact I]).
Qed.

Lemma ro_probe : forall p f (k : option (path * bool) -> prog B (outcome (resval B))),
  (forall f', read_only B (k f')) -> read_only B (probe B p f (Ret AccessErr) k).
Proof.
  intros p f k Hk. unfold probe. simpl. split; [reflexivity|].
  intros [[|]| |d|e]; simpl; try exact I.
  - split; [reflexivity|]. intros [b| |d|e]; simpl; try exact I; apply Hk.
  - split; [reflexivity|]. intros [[|]| |d|e]; simpl; try exact I; try apply Hk.
    split; [reflexivity|]. intros [b| |d|e]; simpl; try exact I; apply Hk.
  - split; [reflexivity|]. intros [[|]| |d'|e]; simpl; try exact I; try apply Hk.
    split; [reflexivity|]. intros [b| |d''|e]; simpl; try exact I; apply Hk.
  - split; [reflexivity|]. intros [[|]| |d'|e]; simpl; try exact I; try apply Hk.
    split; [reflexivity|]. intros [b| |d''|e]; simpl; try exact I; apply Hk.
Qed.

Theorem fa_read_fault_tree : forall c o k e t, is_read_op o = true ->
  snd (run_fault B empty trunc k e t (op_prog B plain gz gunzip c o)) = t.
Proof.
  intros c o k e t Hr. apply read_only_fault.
  destruct o as [n buf mime ow | n | n | k0 co buf mime ow | k0 co]; try discriminate; simpl op_prog.
  - unfold fa_fetch_file. destruct (checked_path (base c) n) as [fp|]; [|exact I].
    apply ro_probe. intros [[q z]|]; [apply ro_read_handle | exact I].
  - unfold fa_file_exists. destruct (checked_path (base c) n) as [fp|]; [|exact I].
    simpl. split; [reflexivity|].
    intros [[|]| |d|e']; simpl; try exact I; (split; [reflexivity | intros r; destruct r; exact I]).
  - unfold fa_fetch_chunk. destruct (chunk_path c true k0 co) as [pf|]; [|exact I].
    apply ro_probe. intro f1. destruct (chunk_path c false k0 co) as [pd|]; [|exact I].
    apply ro_probe. intros [[q z]|]; [apply ro_read_handle | exact I].
Qed.

End ACC.
