(* Proofs for C12, part C: the executable guard on histories, the final
   statements (last_write_wins, no_overwrite_preserves, path_spec,
   cross_config_read, confined) and the refutation witnesses. *)
From Coq Require Import NArith ZArith Arith List Bool Lia.
From NGS Require Import Val Ints StFS StFSProofs StFileAccessor StFileAccessorProofs
                        StRefineProofs StSharded.
Import ListNotations.
Open Scope N_scope.

(* ---------- the guard, as a boolean function of the history ---------- *)

Definition names_of (f : bool) (ops : list op) : list path :=
  flat_map (fun o => match op_name f o with Some p => [p] | None => [] end) ops.

Definition others_of (f : bool) (ops : list op) : list path :=
  flat_map (fun o => match o with
                     | OFetchChunk k co =>
                         match spec_chunk_name (negb f) k co with Some o' => [o'] | None => [] end
                     | _ => [] end) ops.

Definition memb (p : path) (l : list path) : bool := existsb (path_eqb p) l.

Definition name_okb (n : path) : bool :=
  negb (match n with [] => true | _ => false end) && cleanb n && gzfree n.

Definition prefix_freeb (l : list path) : bool :=
  forallb (fun n => forallb (fun m => negb (is_prefix n m) || path_eqb n m) l) l.

Definition universe_okb (U X : list path) : bool :=
  forallb name_okb U && prefix_freeb U &&
  forallb (fun o => negb (memb o U) && name_okb o) X.

Definition op_okb (c : cfg) (U X : list path) (o : op) : bool :=
  match o with
  | OStoreFile n _ mime _ =>
      negb (is_absolute n) &&
      match spec_norm n with Some p => memb p U | None => true end
  | OFetchFile n | OExists n =>
      negb (is_absolute n) &&
      match spec_norm n with Some p => memb p U | None => true end
  | OStoreChunk k co _ mime _ =>
      negb (match k with [] => true | _ => false end) && negb (is_absolute k) &&
      match spec_chunk_name (flat c) k co with
      | Some p => memb p U
      | None => true
      end
  | OFetchChunk k co =>
      negb (match k with [] => true | _ => false end) && negb (is_absolute k) &&
      match spec_key k with
      | Some kp => memb (kp ++ spec_chunk_tail (flat c) co) U &&
                   memb (kp ++ spec_chunk_tail (negb (flat c)) co) X
      | None => true
      end
  end.

(* the history guard: relative file names, relative non-empty scale keys, no
   accepted name with a component ending in ".gz", accepted names pairwise
   prefix-free, other-layout chunk paths unused.  The MIME type is free per
   operation.  (Empty file names, names and keys mentioning ".." may occur:
   they are refused on both sides.) *)
Definition hist_guard (c : cfg) (ops : list op) : bool :=
  let U := names_of (flat c) ops in
  let X := others_of (flat c) ops in
  cleanb (base c) && universe_okb U X && forallb (op_okb c U X) ops.

Lemma memb_In : forall p l, memb p l = true <-> In p l.
Proof.
  intros p l. unfold memb. rewrite existsb_exists. split.
  - intros [x [Hx E]]. apply path_eqb_eq in E. subst x. exact Hx.
  - intro H. exists p. split; [exact H | apply path_eqb_refl].
Qed.

Lemma universe_ok_sound : forall U X, universe_okb U X = true ->
  (forall n, In n U -> n <> [] /\ cleanb n = true /\ gzfree n = true) /\
  (forall n m, In n U -> In m U -> prefix n m -> n = m) /\
  (forall o, In o X -> ~ In o U /\ o <> [] /\ cleanb o = true /\ gzfree o = true).
Proof.
  intros U X H. unfold universe_okb in H.
  apply andb_true_iff in H as [H H3]. apply andb_true_iff in H as [H1 H2].
  rewrite forallb_forall in H1, H3. unfold prefix_freeb in H2. rewrite forallb_forall in H2.
  assert (Hname : forall n, name_okb n = true -> n <> [] /\ cleanb n = true /\ gzfree n = true).
  { intros n Hn. unfold name_okb in Hn. apply andb_true_iff in Hn as [Hn Hg].
    apply andb_true_iff in Hn as [Hn Hc]. repeat split; try assumption.
    intro E. subst n. discriminate. }
  split; [|split].
  - intros n Hn. exact (Hname n (H1 n Hn)).
  - intros n m Hn Hm Hp. specialize (H2 n Hn). rewrite forallb_forall in H2. specialize (H2 m Hm).
    apply orb_true_iff in H2 as [H2|H2].
    + apply negb_true_iff in H2. apply is_prefix_iff in Hp. congruence.
    + apply path_eqb_eq. exact H2.
  - intros o Ho. specialize (H3 o Ho). apply andb_true_iff in H3 as [H3 H4].
    apply negb_true_iff in H3. split.
    + intro Hin. apply memb_In in Hin. congruence.
    + exact (Hname o H4).
Qed.

Lemma skipn_app_len : forall (A : Type) (a b : list A), skipn (length a) (a ++ b) = b.
Proof. induction a; intro b; simpl; auto. Qed.

Section C12.
Variable B : Type.
Variable plain : list N -> B.
Variable gz : N -> list N -> B.
Variable gunzip : B -> gzres.
Hypothesis Hgz : forall l b, gunzip (gz l b) = GzOk b.

Lemma op_ok_sound : forall c U X o, op_okb c U X o = true -> op_ok c U X o.
Proof.
  intros c U X o H. destruct o as [n buf mime ow | n | n | k co buf mime ow | k co]; simpl in *.
  - apply andb_true_iff in H as [H1 H2]. apply negb_true_iff in H1. split; [exact H1|].
    intros p Hp. rewrite Hp in H2. apply memb_In. exact H2.
  - apply andb_true_iff in H as [H1 H2]. apply negb_true_iff in H1. split; [exact H1|].
    intros p Hp. rewrite Hp in H2. apply memb_In. exact H2.
  - apply andb_true_iff in H as [H1 H2]. apply negb_true_iff in H1. split; [exact H1|].
    intros p Hp. rewrite Hp in H2. apply memb_In. exact H2.
  - apply andb_true_iff in H as [H H3]. apply andb_true_iff in H as [H1 H2].
    apply negb_true_iff in H2. split; [intro E; subst k; discriminate|]. split; [exact H2|].
    intros p Hp. rewrite Hp in H3. apply memb_In. exact H3.
  - apply andb_true_iff in H as [H H3]. apply andb_true_iff in H as [H1 H2].
    apply negb_true_iff in H2. split; [intro E; subst k; discriminate|]. split; [exact H2|].
    intros kp Hp. rewrite Hp in H3. apply andb_true_iff in H3 as [H3 H4].
    split; apply memb_In; assumption.
Qed.

(* (1) last write wins: every guarded history on a fresh location *)
Theorem last_write_wins : forall c ops t0,
  hist_guard c ops = true -> fresh B c t0 ->
  fst (run_ops B plain gz gunzip c t0 ops)
  = map (to_model B plain) (fst (spec_ops (flat c) [] ops)).
Proof.
  intros c ops t0 Hg Hf. unfold hist_guard in Hg.
  apply andb_true_iff in Hg as [Hg H3]. apply andb_true_iff in Hg as [H1 H2].
  destruct (universe_ok_sound _ _ H2) as [HU [HPF HX]].
  apply (refinement B plain gz gunzip Hgz c _ _ H1 HU HPF HX ops (fun _ => false) t0 []).
  - apply inv_fresh; assumption.
  - apply Forall_forall. intros o Ho. rewrite forallb_forall in H3. apply op_ok_sound, H3, Ho.
Qed.

(* the invariant holds in every state reached by a guarded history, for some
   assignment of a form (plain / .gz) to the names *)
Theorem reachable_inv : forall c ops t0,
  hist_guard c ops = true -> fresh B c t0 ->
  exists fm, Inv B plain gz c (names_of (flat c) ops) fm
      (snd (run_ops B plain gz gunzip c t0 ops)) (snd (spec_ops (flat c) [] ops)).
Proof.
  intros c ops t0 Hg Hf. unfold hist_guard in Hg.
  apply andb_true_iff in Hg as [Hg H3]. apply andb_true_iff in Hg as [H1 H2].
  destruct (universe_ok_sound _ _ H2) as [HU [HPF HX]].
  apply (refinement B plain gz gunzip Hgz c _ _ H1 HU HPF HX ops (fun _ => false) t0 []).
  - apply inv_fresh; assumption.
  - apply Forall_forall. intros o Ho. rewrite forallb_forall in H3. apply op_ok_sound, H3, Ho.
Qed.

(* (2) storing without permission to overwrite, under ANY MIME type, fails
   and leaves the content (and its form) as it is *)
Theorem no_overwrite_preserves : forall c U X fm t m n buf mime old,
  cleanb (base c) = true -> universe_okb U X = true ->
  Inv B plain gz c U fm t m -> In n U -> aget m n = Some old ->
  exists t' fm', run B (plain []) t (store_at B plain gz c (base c ++ n) buf mime false) = (AccessErr, t')
          /\ Inv B plain gz c U fm' t' m
          /\ lookup B t' (phys c fm' n) = Some (File (enc B plain gz c fm' n old)).
Proof.
  intros c U X fm t m n buf mime old Hb Hu HI Hn Hg.
  destruct (universe_ok_sound _ _ Hu) as [HU [HPF HX]].
  destruct (store_refines B plain gz c U Hb HU HPF fm t m n buf mime false HI Hn) as [t' [fm' [Hr [HI' _]]]].
  unfold spec_store in Hr, HI'. rewrite Hg in Hr, HI'. simpl in Hr, HI'.
  exists t', fm'. split; [exact Hr | split; [exact HI'|]].
  rewrite (i_phys B plain gz c U fm' t' m HI' n Hn), Hg. reflexivity.
Qed.

(* (3) a stored name lands at the documented path, compressed iff gzip is on
   and the MIME type of THIS store is not exempt - and the other form of the
   name does not exist afterwards (never both forms) *)
Theorem store_lands : forall c U X fm t m n buf mime ow t' r,
  cleanb (base c) = true -> universe_okb U X = true ->
  Inv B plain gz c U fm t m -> In n U ->
  run B (plain []) t (store_at B plain gz c (base c ++ n) buf mime ow) = (Ok r, t') ->
  lookup B t' (base c ++ (if gzip c && negb (exempt mime) then with_gz n else n))
  = Some (File (if gzip c && negb (exempt mime) then gz (level c) buf else plain buf)) /\
  lookup B t' (base c ++ (if gzip c && negb (exempt mime) then n else with_gz n)) = None.
Proof.
  intros c U X fm t m n buf mime ow t' r Hb Hu HI Hn Hrun.
  destruct (universe_ok_sound _ _ Hu) as [HU [HPF HX]].
  destruct (store_refines B plain gz c U Hb HU HPF fm t m n buf mime ow HI Hn) as [t2 [fm' [Hr [HI' Hform]]]].
  rewrite Hrun in Hr. inversion Hr as [[Ho Ht]]. subst t2.
  assert (Hok : exists r0, fst (spec_store m n buf ow) = Ok r0 /\ snd (spec_store m n buf ow) = aset m n buf).
  { unfold spec_store in *. destruct (aget m n); [destruct ow; simpl in Ho; [|discriminate]|]; eexists; split; reflexivity. }
  destruct Hok as [r0 [Hr0 Hm]]. pose proof (Hform r0 Hr0) as Hfn. rewrite Hm in HI'.
  pose proof (i_phys B plain gz c U fm' t' _ HI' n Hn) as Hp.
  rewrite aget_aset, path_eqb_refl in Hp. unfold phys, relphys, enc, zipped in Hp. rewrite Hfn in Hp.
  split; [exact Hp|].
  apply (form_absent B plain gz c U HU HPF fm' t' _ n _ HI' Hn).
  - destruct (gzip c && negb (exempt mime)); auto.
  - unfold phys, relphys, zipped. rewrite Hfn. destruct (HU n Hn) as [Hne _].
    destruct (gzip c && negb (exempt mime)); intro E; apply app_inv_head in E.
    + symmetry in E. exact (gzfree_not_with_gz n n Hne (proj2 (proj2 (HU n Hn))) E).
    + exact (gzfree_not_with_gz n n Hne (proj2 (proj2 (HU n Hn))) E).
Qed.

(* (4) reading does not depend on the reader's configuration *)
Definition is_read (o : op) : bool :=
  match o with OFetchFile _ | OExists _ | OFetchChunk _ _ => true | _ => false end.

Theorem cross_config_read : forall c1 c2 t o,
  base c1 = base c2 -> is_read o = true ->
  run_op B plain gz gunzip c2 t o = run_op B plain gz gunzip c1 t o.
Proof.
  intros c1 c2 t o Hb Hr. unfold run_op.
  destruct o; try discriminate; simpl op_prog;
    unfold fa_fetch_file, fa_file_exists, fa_fetch_chunk, chunk_path; rewrite Hb; reflexivity.
Qed.

(* hence a dataset written by a guarded history under c1 reads, under any
   c2, as the abstract map says *)
Theorem cross_config_correct : forall c1 c2 ops reads t0,
  base c1 = base c2 -> forallb is_read reads = true ->
  hist_guard c1 (ops ++ reads) = true -> fresh B c1 t0 ->
  fst (run_ops B plain gz gunzip c2 (snd (run_ops B plain gz gunzip c1 t0 ops)) reads)
  = map (to_model B plain)
        (fst (spec_ops (flat c1) (snd (spec_ops (flat c1) [] ops)) reads)).
Proof.
  intros c1 c2 ops reads t0 Hb Hr Hg Hf.
  assert (Hsame : forall t, run_ops B plain gz gunzip c2 t reads = run_ops B plain gz gunzip c1 t reads).
  { clear Hg. induction reads as [|o r IH]; intro t; [reflexivity|].
    simpl in Hr. apply andb_true_iff in Hr as [Ho Hr].
    simpl. rewrite (cross_config_read c1 c2 t o Hb Ho).
    destruct (run_op B plain gz gunzip c1 t o) as [x t1]. rewrite (IH Hr t1). reflexivity. }
  rewrite Hsame.
  pose proof (last_write_wins c1 (ops ++ reads) t0 Hg Hf) as H.
  assert (Hsplit : forall t l1 l2,
            fst (run_ops B plain gz gunzip c1 t (l1 ++ l2))
            = fst (run_ops B plain gz gunzip c1 t l1)
              ++ fst (run_ops B plain gz gunzip c1 (snd (run_ops B plain gz gunzip c1 t l1)) l2)).
  { intros t l1. revert t. induction l1 as [|o l1 IH]; intros t l2; [reflexivity|].
    simpl. destruct (run_op B plain gz gunzip c1 t o) as [x t1]. specialize (IH t1 l2).
    destruct (run_ops B plain gz gunzip c1 t1 (l1 ++ l2)) as [xs t2].
    destruct (run_ops B plain gz gunzip c1 t1 l1) as [ys t3]. simpl in *. rewrite IH. reflexivity. }
  assert (Hsplit2 : forall m l1 l2,
            fst (spec_ops (flat c1) m (l1 ++ l2))
            = fst (spec_ops (flat c1) m l1)
              ++ fst (spec_ops (flat c1) (snd (spec_ops (flat c1) m l1)) l2)).
  { intros m l1. revert m. induction l1 as [|o l1 IH]; intros m l2; [reflexivity|].
    simpl. destruct (spec_op (flat c1) m o) as [x m1]. specialize (IH m1 l2).
    destruct (spec_ops (flat c1) m1 (l1 ++ l2)) as [xs m2].
    destruct (spec_ops (flat c1) m1 l1) as [ys m3]. simpl in *. rewrite IH. reflexivity. }
  rewrite Hsplit, Hsplit2, map_app in H.
  apply app_inv_head_iff with (l := fst (run_ops B plain gz gunzip c1 t0 ops)).
  rewrite H at 1. f_equal.
  assert (Hg1 : hist_guard c1 ops = true -> True) by auto.
  (* the first halves agree by the same theorem on the prefix of the history *)
  clear Hg1. pose proof H as H'.
  apply (f_equal (firstn (length (fst (run_ops B plain gz gunzip c1 t0 ops))))) in H'.
  rewrite firstn_app, firstn_all, Nat.sub_diag in H'. simpl in H'. rewrite app_nil_r in H'.
  rewrite H'. rewrite firstn_app.
  assert (Hlen : length (fst (run_ops B plain gz gunzip c1 t0 ops))
                 = length (map (to_model B plain) (fst (spec_ops (flat c1) [] ops)))).
  { rewrite map_length. clear. generalize (@nil (path * list N)). revert t0.
    induction ops as [|o ops IH]; intros t m; [reflexivity|].
    simpl. destruct (run_op B plain gz gunzip c1 t o) as [x t1].
    destruct (spec_op (flat c1) m o) as [y m1]. specialize (IH t1 m1).
    destruct (run_ops B plain gz gunzip c1 t1 ops). destruct (spec_ops (flat c1) m1 ops).
    simpl in *. f_equal. exact IH. }
  rewrite Hlen, firstn_all, Nat.sub_diag. simpl. rewrite app_nil_r. reflexivity.
Qed.

(* (5) confinement.  [op_target]: the path an operation is about, None when
   the name / key is refused. *)
Definition op_target (c : cfg) (o : op) : option path :=
  match o with
  | OStoreFile n _ _ _ | OFetchFile n | OExists n => checked_path (base c) n
  | OStoreChunk k co _ _ _ => chunk_path c (flat c) k co
  | OFetchChunk k co => chunk_path c true k co
  end.

(* a refused operation calls no primitive: the tree is the same *)
Theorem refused_untouched : forall c t o,
  op_target c o = None -> run_op B plain gz gunzip c t o = (Refused, t).
Proof.
  intros c t o H. unfold run_op.
  destruct o as [n buf mime ow | n | n | k co buf mime ow | k co]; simpl in H; simpl op_prog;
    unfold fa_store_file, fa_fetch_file, fa_file_exists, fa_store_chunk, fa_fetch_chunk;
    rewrite H; reflexivity.
Qed.

(* an accepted name or key denotes a path strictly below the base, without ".." *)
Lemma checked_gen_confined : forall nn b s p, checked_path_gen nn b s = Some p ->
  exists rest, p = b ++ rest /\ existsb is_dotdot rest = false /\ (nn = true -> rest <> []).
Proof.
  intros nn b s p H. unfold checked_path_gen in H.
  assert (Hrel : forall r, rel_ok nn r = true -> existsb is_dotdot r = false /\ (nn = true -> r <> [])).
  { intros r Hr. unfold rel_ok in Hr. apply andb_true_iff in Hr as [H1 H2].
    apply negb_true_iff in H1. split; [exact H1|]. intros -> E. subst r. discriminate. }
  destruct (root_kind s) as [|[|k]].
  - destruct (rel_ok nn (parse_parts s)) eqn:E; [|discriminate]. inversion H; subst.
    exists (parse_parts s). split; [reflexivity | apply Hrel; exact E].
  - destruct (is_prefix b (parse_parts s)) eqn:Ep; [|discriminate].
    destruct (rel_ok nn (skipn (length b) (parse_parts s))) eqn:E; [|discriminate].
    inversion H; subst. apply is_prefix_iff in Ep. destruct Ep as [r Hr].
    exists r. rewrite Hr in E |- *. rewrite skipn_app_len in E.
    split; [reflexivity | apply Hrel; exact E].
  - discriminate.
Qed.

Theorem accepted_confined : forall c o p, op_target c o = Some p ->
  exists rest, p = base c ++ rest /\ existsb is_dotdot rest = false.
Proof.
  intros c o p H.
  destruct o as [n buf mime ow | n | n | k co buf mime ow | k co]; simpl in H;
    unfold checked_path, chunk_path in H;
    destruct (checked_gen_confined _ _ _ _ H) as [r [H1 [H2 _]]]; exists r; auto.
Qed.

(* strictly below: file methods always; chunk methods for non-empty relative keys *)
Definition strict_op (o : op) : bool :=
  match o with
  | OStoreChunk k _ _ _ _ | OFetchChunk k _ =>
      negb (match k with [] => true | _ => false end) && negb (is_absolute k)
  | _ => true
  end.

Theorem accepted_strict : forall c o p, strict_op o = true -> op_target c o = Some p ->
  exists rest, p = base c ++ rest /\ existsb is_dotdot rest = false /\ rest <> [].
Proof.
  intros c o p Hs H.
  assert (Hchunk : forall f k co, strict_op (OFetchChunk k co) = true -> chunk_path c f k co = Some p ->
            exists rest, p = base c ++ rest /\ existsb is_dotdot rest = false /\ rest <> []).
  { intros f k co Hk Hc. simpl in Hk. apply andb_true_iff in Hk as [Hk1 Hk2].
    apply negb_true_iff in Hk2.
    assert (Hne : k <> []) by (intro E; subst k; discriminate).
    pose proof Hc as Hc'. rewrite (chunk_path_spec c f k co Hne Hk2) in Hc'.
    unfold spec_chunk_name in Hc'. destruct (spec_key k) as [kp|]; [|discriminate].
    simpl in Hc'. inversion Hc'; subst. exists (kp ++ spec_chunk_tail f co).
    split; [reflexivity|]. split.
    - unfold chunk_path in Hc. destruct (checked_gen_confined _ _ _ _ Hc) as [r [H1 [H2 _]]].
      apply app_inv_head in H1. rewrite H1. exact H2.
    - destruct f; simpl; intro E; apply app_eq_nil in E as [_ E]; discriminate. }
  destruct o as [n buf mime ow | n | n | k co buf mime ow | k co]; simpl in H.
  - destruct (checked_gen_confined _ _ _ _ H) as [r [H1 [H2 H3]]]. exists r. auto.
  - destruct (checked_gen_confined _ _ _ _ H) as [r [H1 [H2 H3]]]. exists r. auto.
  - destruct (checked_gen_confined _ _ _ _ H) as [r [H1 [H2 H3]]]. exists r. auto.
  - apply (Hchunk (flat c) k co); assumption.
  - apply (Hchunk true k co); assumption.
Qed.

(* every path handed to a file-system primitive *)
Definition call_path (cl : call B) : path :=
  match cl with
  | CIsFile p | CExists p | CMakedirs p | CUnlink p | COpen p _ | CWrite p _ | CRead p | CClose p => p
  end.
Fixpoint calls_in {A} (P : path -> Prop) (p : prog B A) : Prop :=
  match p with
  | Ret _ => True
  | Do cl k => P (call_path cl) /\ forall r, calls_in P (k r)
  end.

Lemma calls_in_trace : forall A (P : path -> Prop) (p : prog B A), calls_in P p ->
  forall t, Forall (fun cl => P (call_path cl)) (trace B (plain []) t p).
Proof.
  intros A P p. induction p as [a | cl k IH]; intros H t; simpl; [constructor|].
  destruct H as [H1 H2]. destruct (exec_call B (plain []) t cl) as [r t'].
  constructor; [exact H1 | apply IH, H2].
Qed.

Definition below (b : path) (q : path) : Prop :=
  exists r, q = b ++ r /\ existsb is_dotdot r = false.

Lemma below_parent : forall b rest, rest <> [] -> existsb is_dotdot rest = false ->
  below b (parent (b ++ rest)).
Proof.
  intros b rest Hne Hd. unfold parent. rewrite removelast_app by exact Hne.
  exists (removelast rest). split; [reflexivity|].
  destruct (snoc_cases _ rest) as [-> | [h [l ->]]]; [contradiction|].
  rewrite removelast_snoc. rewrite existsb_app in Hd. apply orb_false_iff in Hd. tauto.
Qed.

Lemma below_gz : forall b rest, rest <> [] -> existsb is_dotdot rest = false ->
  below b (with_gz (b ++ rest)).
Proof.
  intros b rest Hne Hd. rewrite with_gz_app by exact Hne. exists (with_gz rest). split; [reflexivity|].
  destruct (snoc_cases _ rest) as [-> | [h [l ->]]]; [contradiction|].
  rewrite with_gz_snoc. rewrite existsb_app in *. apply orb_false_iff in Hd as [Hd _].
  rewrite Hd. simpl. rewrite is_dotdot_gz. reflexivity.
Qed.

Lemma calls_read_handle : forall (P : path -> Prop) q z, P q -> calls_in P (read_handle B plain gunzip q z).
Proof.
  intros P q z H. unfold read_handle. simpl. split; [exact H|].
  intros [x| |d|e]; simpl; (split; [exact H | intros r; destruct r; exact I]).
Qed.

Definition handle_ok (P : path -> Prop) (f : option (path * bool)) : Prop :=
  match f with None => True | Some (q, _) => P q end.

Lemma calls_probe : forall A (P : path -> Prop) q f (fail : prog B A) (k : option (path * bool) -> prog B A),
  P q -> P (with_gz q) -> handle_ok P f -> calls_in P fail ->
  (forall f', handle_ok P f' -> calls_in P (k f')) ->
  calls_in P (probe B q f fail k).
Proof.
  intros A P q f fail k H1 H2 Hh Hf Hk. unfold probe. simpl. split; [exact H1|].
  intros [[|]| |d|e]; simpl; try exact Hf.
  - split; [exact H1|]. intros [x| |d|e]; simpl; try exact Hf; apply Hk; exact H1.
  - split; [exact H2|]. intros [[|]| |d|e]; simpl; try exact Hf; try (apply Hk; exact Hh).
    split; [exact H2|]. intros [x| |d|e]; simpl; try exact Hf; apply Hk; exact H2.
  - split; [exact H2|]. intros [[|]| |d'|e]; simpl; try exact Hf; try (apply Hk; exact Hh).
    split; [exact H2|]. intros [x| |d''|e]; simpl; try exact Hf; apply Hk; exact H2.
  - split; [exact H2|]. intros [[|]| |d'|e]; simpl; try exact Hf; try (apply Hk; exact Hh).
    split; [exact H2|]. intros [x| |d''|e]; simpl; try exact Hf; apply Hk; exact H2.
Qed.

Lemma calls_write_it : forall (P : path -> Prop) target data ow,
  P target -> calls_in P (write_it B target data ow).
Proof.
  intros P target data ow Ht. unfold write_it. simpl. split; [exact Ht|].
  intros [x1| |d1|e1]; simpl; try exact I;
    (split; [exact Ht|]; intros [x2| |d2|e2]; simpl;
     (split; [exact Ht | intros r; destruct r; exact I])).
Qed.

Lemma calls_store_at : forall (P : path -> Prop) c fp buf mime ow,
  P (parent fp) -> P fp -> P (with_gz fp) -> calls_in P (store_at B plain gz c fp buf mime ow).
Proof.
  intros P c fp buf mime ow H0 H1 H2. unfold store_at. cbn [calls_in call_path]. split; [exact H0|].
  assert (Ht : P (if gzip c && negb (exempt mime) then with_gz fp else fp))
    by (destruct (gzip c && negb (exempt mime)); assumption).
  assert (Ho : P (if gzip c && negb (exempt mime) then fp else with_gz fp))
    by (destruct (gzip c && negb (exempt mime)); assumption).
  assert (Hrest : forall r1 : reply B,
    calls_in P match r1 with
               | RErr _ => Ret AccessErr
               | RBool true =>
                   if ow
                   then Do (CUnlink (if gzip c && negb (exempt mime) then fp else with_gz fp))
                          (fun r => match r with
                                    | RErr _ => Ret AccessErr
                                    | _ => write_it B (if gzip c && negb (exempt mime) then with_gz fp else fp)
                                             (if gzip c && negb (exempt mime) then gz (level c) buf else plain buf) ow
                                    end)
                   else Ret AccessErr
               | _ => write_it B (if gzip c && negb (exempt mime) then with_gz fp else fp)
                        (if gzip c && negb (exempt mime) then gz (level c) buf else plain buf) ow
               end).
  { intros r1. destruct r1 as [[|]| |d1|e1]; try exact I; try (apply calls_write_it; exact Ht).
    destruct ow; [|exact I]. cbn [calls_in call_path]. split; [exact Ho|].
    intros r2. destruct r2; try exact I; apply calls_write_it; exact Ht. }
  intros r0. destruct r0 as [x| |d|e]; try exact I; (cbn [calls_in call_path]; split; [exact Ho | exact Hrest]).
Qed.

(* no operation ever hands a path outside the dataset directory (or one
   mentioning "..") to a primitive: for EVERY tree and every name / key *)
Theorem touches_only_below : forall c o, strict_op o = true ->
  calls_in (below (base c)) (op_prog B plain gz gunzip c o).
Proof.
  intros c o Hs.
  assert (Hfp : forall p, op_target c o = Some p ->
            below (base c) (parent p) /\ below (base c) p /\ below (base c) (with_gz p)).
  { intros p Hp. destruct (accepted_strict c o p Hs Hp) as [rest [-> [Hd Hne]]].
    split; [apply below_parent; assumption|]. split; [exists rest; auto | apply below_gz; assumption]. }
  assert (Hafter : forall f', handle_ok (below (base c)) f' ->
            calls_in (below (base c))
              (match f' with None => Ret AccessErr | Some (q, z) => read_handle B plain gunzip q z end)).
  { intros [[q z]|] Hq; [apply calls_read_handle; exact Hq | exact I]. }
  destruct o as [n buf mime ow | n | n | k co buf mime ow | k co]; simpl op_prog; simpl op_target in Hfp.
  - unfold fa_store_file. destruct (checked_path (base c) n) as [fp|]; [|exact I].
    destruct (Hfp fp eq_refl) as [H0 [H1 H2]]. apply calls_store_at; assumption.
  - unfold fa_fetch_file. destruct (checked_path (base c) n) as [fp|]; [|exact I].
    destruct (Hfp fp eq_refl) as [H0 [H1 H2]].
    apply calls_probe; try assumption; try exact I.
  - unfold fa_file_exists. destruct (checked_path (base c) n) as [fp|]; [|exact I].
    destruct (Hfp fp eq_refl) as [H0 [H1 H2]]. simpl. split; [exact H1|].
    intros [[|]| |d|e]; simpl; try exact I; (split; [exact H2 | intros r; destruct r; exact I]).
  - unfold fa_store_chunk. destruct (chunk_path c (flat c) k co) as [fp|]; [|exact I].
    destruct (Hfp fp eq_refl) as [H0 [H1 H2]]. apply calls_store_at; assumption.
  - unfold fa_fetch_chunk. destruct (chunk_path c true k co) as [pf|] eqn:Ef; [|exact I].
    destruct (Hfp pf eq_refl) as [H0 [H1 H2]].
    apply calls_probe; try assumption; try exact I.
    intros f1 Hf1. destruct (chunk_path c false k co) as [pd|] eqn:Ed; [|exact I].
    assert (Hd : below (base c) pd /\ below (base c) (with_gz pd)).
    { simpl in Hs. apply andb_true_iff in Hs as [Hk1 Hk2]. apply negb_true_iff in Hk2.
      assert (Hne : k <> []) by (intro E; subst k; discriminate).
      pose proof Ed as Ed'. rewrite (chunk_path_spec c false k co Hne Hk2) in Ed'.
      unfold spec_chunk_name in Ed'. destruct (spec_key k) as [kp|]; [|discriminate].
      simpl in Ed'. inversion Ed'; subst.
      unfold chunk_path in Ed. destruct (checked_gen_confined _ _ _ _ Ed) as [r [E1 [E2 _]]].
      apply app_inv_head in E1. subst r.
      assert (Hne2 : kp ++ spec_chunk_tail false co <> [])
        by (simpl; intro E; apply app_eq_nil in E as [_ E]; discriminate).
      split; [exists (kp ++ spec_chunk_tail false co); auto | apply below_gz; assumption]. }
    destruct Hd as [Hd1 Hd2]. apply calls_probe; try assumption; try exact I.
Qed.

Definition file_op_of (kind : nat) (name buf mime : list N) (ow : bool) : op :=
  match kind with
  | O => OStoreFile name buf mime ow
  | 1%nat => OFetchFile name
  | _ => OExists name
  end.

(* ShardedFileAccessor file methods: the same confinement (the empty name is
   accepted there and denotes the dataset directory itself) *)
Definition sh_target (b : path) (o : op) : option path :=
  match o with
  | OStoreFile n _ _ _ | OFetchFile n | OExists n => sh_path b n
  | _ => None
  end.

Theorem sh_refused_untouched : forall b t n buf mime ow kind,
  sh_path b n = None ->
  run B (plain []) t (sh_op_prog B plain b (file_op_of kind n buf mime ow)) = (Refused, t).
Proof.
  intros b t n buf mime ow kind H.
  destruct kind as [|[|k]]; simpl; unfold sh_store_file, sh_fetch_file, sh_file_exists; rewrite H; reflexivity.
Qed.

Theorem sh_touches_only_below : forall b n buf mime ow kind,
  calls_in (below b) (sh_op_prog B plain b (file_op_of kind n buf mime ow)).
Proof.
  intros b n buf mime ow kind.
  assert (Hw : forall p, below b p -> calls_in (below b) (sh_write B plain p buf)).
  { intros p Hp. unfold sh_write. simpl. split; [exact Hp|].
    intros [x| |d|e]; simpl; try exact I;
      (split; [exact Hp|]; intros [x1| |d1|e1]; simpl; (split; [exact Hp | intros r; destruct r; exact I])). }
  destruct kind as [|[|k]]; simpl.
  - unfold sh_store_file. destruct (sh_path b n) as [p|] eqn:E; [|exact I].
    unfold sh_path in E. destruct (checked_gen_confined _ _ _ _ E) as [r [H1 [H2 _]]].
    assert (Hp : below b p) by (exists r; auto).
    destruct ow; [apply Hw; exact Hp|]. simpl. split; [exact Hp|].
    intros [[|]| |d|e]; simpl; try exact I; apply Hw; exact Hp.
  - unfold sh_fetch_file. destruct (sh_path b n) as [p|] eqn:E; [|exact I].
    unfold sh_path in E. destruct (checked_gen_confined _ _ _ _ E) as [r [H1 [H2 _]]].
    assert (Hp : below b p) by (exists r; auto).
    simpl. split; [exact Hp|].
    intros [x| |d|e]; simpl; try exact I;
      (split; [exact Hp|]; intros [x1| |d1|e1]; simpl; (split; [exact Hp | intros r0; destruct r0; exact I])).
  - unfold sh_file_exists. destruct (sh_path b n) as [p|] eqn:E; [|exact I].
    unfold sh_path in E. destruct (checked_gen_confined _ _ _ _ E) as [r [H1 [H2 _]]].
    simpl. split; [exists r; auto | intros r0; destruct r0; exact I].
Qed.

(* which names and keys are refused *)
Lemma abs_root_kind : forall s, is_absolute s = true -> root_kind s <> 0%nat.
Proof.
  intros s H. destruct s as [|a r]; [discriminate|]. simpl in *.
  apply N.eqb_eq in H. subst a. simpl. destruct r as [|b r]; [discriminate|].
  destruct (b =? slash); [destruct r as [|x r]; [discriminate | destruct (x =? slash); discriminate] | discriminate].
Qed.

Theorem escaping_refused : forall c,
  (forall n, is_absolute n = false -> spec_norm n = None -> checked_path (base c) n = None) /\
  (forall nn n, is_absolute n = true -> is_prefix (base c) (parse_parts n) = false ->
                checked_path_gen nn (base c) n = None) /\
  (forall k co f, k <> [] -> is_absolute k = false -> spec_key k = None -> chunk_path c f k co = None) /\
  (forall n, is_absolute n = false -> existsb is_dotdot (parse_parts n) = true -> sh_path (base c) n = None).
Proof.
  intro c. repeat split.
  - intros n H1 H2. rewrite (checked_path_rel c n H1), H2. reflexivity.
  - intros nn n H1 H2. unfold checked_path_gen. pose proof (abs_root_kind n H1) as Hr.
    destruct (root_kind n) as [|[|k]]; [contradiction | rewrite H2; reflexivity | reflexivity].
  - intros k co f Hk Ha Hs. rewrite (chunk_path_spec c f k co Hk Ha). unfold spec_chunk_name. rewrite Hs. reflexivity.
  - intros n H1 H2. unfold sh_path, checked_path_gen, rel_ok. rewrite (root_kind_rel0 n H1), H2. reflexivity.
Qed.

End C12.

(* ====================================================================== *)
(* Refutation witnesses, on the executable instance of the content type. *)

Definition w_base : path := [[119]; [100; 115]].                 (* /w/ds *)
Definition w_sentinel : path := [[119]; [115]].                   (* /w/s  *)
Definition w_cfg (f g : bool) : cfg := {| base := w_base; flat := f; gzip := g; level := 9 |}.
Definition w_tree : fs blob := [([[119]], Dir); (w_base, Dir); (w_sentinel, File (BPlain [83]))].
Definition w_run (c : cfg) (ops : list op) :=
  run_ops blob BPlain BGz (blob_gunzip []) c w_tree ops.

(* a tree written under two LAYOUTS: the copy that is found is fixed by the
   probe order (deep after flat), not by recency *)
(* gzip on / off no longer matters across writers: the second writer removes
   the other form, the latest bytes are read under every configuration *)
Lemma mixed_gzip_latest_wins :
  exists name old new,
    let t1 := snd (w_run (w_cfg false false) [OStoreFile name old [] true]) in
    let '(_, t2) := run_ops blob BPlain BGz (blob_gunzip []) (w_cfg false true) t1
                            [OStoreFile name new [] true] in
    old <> new /\
    forall f g, fst (run_ops blob BPlain BGz (blob_gunzip []) (w_cfg f g) t2 [OFetchFile name])
                = [Ok (VData (BPlain new))].
Proof.
  exists [97], [1], [2]. vm_compute. split; [discriminate|]. intros [] []; reflexivity.
Qed.

Lemma mixed_layout_refuted :
  exists key co old new,
    let t1 := snd (w_run (w_cfg false false) [OStoreChunk key co old [] true]) in
    let '(_, t2) := run_ops blob BPlain BGz (blob_gunzip []) (w_cfg true false) t1
                            [OStoreChunk key co new [] true] in
    old <> new /\
    forall f g, fst (run_ops blob BPlain BGz (blob_gunzip []) (w_cfg f g) t2 [OFetchChunk key co])
                = [Ok (VData (BPlain old))].
Proof.
  exists [107], {| cx0 := 0; cx1 := 1; cy0 := 0; cy1 := 1; cz0 := 0; cz1 := 1 |}, [1], [2].
  vm_compute. split; [discriminate|]. intros [] []; reflexivity.
Qed.

(* non-vacuity of the guard: a history with files and chunks, both stores and
   reads, spelled in different ways *)
Definition ex_history : list op :=
  [ OStoreFile [105;110;102;111] [123;125] mime_json false;            (* info *)
    OStoreChunk [107] {| cx0 := 0; cx1 := 64; cy0 := 0; cy1 := 64; cz0 := 0; cz1 := 64 |} [1;2;3] [] true;
    OFetchFile [46;47;105;110;102;111];                                (* ./info *)
    OStoreFile [105;110;102;111] [0] mime_json false;
    OFetchChunk [107] {| cx0 := 0; cx1 := 64; cy0 := 0; cy1 := 64; cz0 := 0; cz1 := 64 |};
    OExists [97;47;46;46;47;98];                                       (* a/../b: refused *)
    OStoreFile [109;47;47;49;58;48] [9] [] true;                       (* m//1:0 *)
    OFetchFile [109;47;49;58;48];
    OStoreFile [105;110;102;111] [5] [] true;                          (* info again, another MIME class *)
    OFetchFile [105;110;102;111];
    OStoreChunk [107] {| cx0 := 0; cx1 := 64; cy0 := 0; cy1 := 64; cz0 := 0; cz1 := 64 |} [4] mime_jpeg false ].

Lemma guard_example : forall f g, hist_guard (w_cfg f g) ex_history = true.
Proof. intros [] []; vm_compute; reflexivity. Qed.

Lemma fresh_example : forall f g, fresh blob (w_cfg f g) [([[119]], Dir)].
Proof.
  intros f g. split; [|split].
  - intros p x H. unfold lookup in H. destruct (p ++ [x]) as [|y l] eqn:E; [destruct p; discriminate|].
    cbn [assoc] in H. destruct (path_eqb [[119]] (y :: l)) eqn:E2; [|exfalso; apply H; reflexivity].
    apply path_eqb_eq in E2. rewrite <- E2 in E.
    destruct p as [|a p]; [reflexivity|]. simpl in E. inversion E. destruct p; discriminate.
  - intros q [r Hr] Hne. subst q. destruct r as [|a r].
    + exfalso. apply Hne. rewrite app_nil_r. reflexivity.
    + reflexivity.
  - intros q d [r Hr] Hl. simpl in Hr.
    destruct q as [|a [|b [|x q]]]; simpl in Hr;
      try (inversion Hr; subst; simpl in Hl; discriminate).
Qed.
