(* Proofs for C18, part 2: faults and interruptions of a FileAccessor store on
   a dataset written by a guarded history (invariant Inv of StRefineProofs),
   for an arbitrary MIME type of the store: other names' files are untouched,
   and the reader of the interrupted name finds the old state, nothing (after
   the other form was unlinked), a prefix of the new bytes (uncompressed:
   as-is), or a data-access error. *)
From Coq Require Import NArith ZArith Arith List Bool Lia.
From NGS Require Import Val Ints StFS StFSProofs StFileAccessor StFileAccessorProofs
                        StRefineProofs StFaults.
Import ListNotations.
Open Scope N_scope.

Section CRASH.
Variable B : Type.
Variable plain : list N -> B.
Variable gz : N -> list N -> B.
Variable gunzip : B -> gzres.
Variable trunc : B -> B.
Hypothesis Hgz : forall l b, gunzip (gz l b) = GzOk b.

Variable c : cfg.
Variable U X : list path.
Hypothesis Hbase : cleanb (base c) = true.
Hypothesis HU : forall n, In n U -> n <> [] /\ cleanb n = true /\ gzfree n = true.
Hypothesis HPF : forall n m, In n U -> In m U -> prefix n m -> n = m.
Hypothesis HX : forall o, In o X -> ~ In o U /\ o <> [] /\ cleanb o = true /\ gzfree o = true.

Notation empty := (plain []).
Notation lookup := (lookup B).
Notation update := (update B).
Notation run := (run B empty).

(* ---------- one assignment of forms ---------- *)
Section ST.
Variable fm : path -> bool.
Notation Inv := (Inv B plain gz c U fm).
Notation phys := (phys c fm).
Notation zipped := (zipped fm).
Notation enc := (enc B plain gz c fm).

Lemma phys_facts' : forall n, In n U -> phys n <> [] /\ cleanb (phys n) = true.
Proof. intros n Hn. exact (phys_facts c U Hbase HU fm n Hn). Qed.
Notation phys_facts := phys_facts'.

(* trees that differ from a dataset state only at the physical path of n *)
Definition over (t1 t' : fs B) (n : path) (Xc : B) : Prop :=
  tree_closed B t' /\
  forall q, lookup t' q = if path_eqb (phys n) q then Some (File Xc) else lookup t1 q.

Lemma over_update : forall t1 m n Xc, Inv t1 m -> In n U ->
  lookup t1 (removelast (phys n)) = Some Dir ->
  over t1 (update t1 (phys n) (File Xc)) n Xc.
Proof.
  intros t1 m n Xc HI Hn Hpar. destruct (phys_facts n Hn) as [Hpne Hpcl]. split.
  - apply closed_update; [exact (i_closed B plain gz c U fm t1 m HI) | exact Hpne | exact Hpar|].
    intro x. left. destruct (lookup t1 (phys n ++ [x])) eqn:E; [|reflexivity].
    exfalso. assert (Hd : lookup t1 (phys n) = Some Dir).
    { apply (i_closed B plain gz c U fm t1 m HI) with (c := x). rewrite E. discriminate. }
    exact (phys_not_dir B plain gz c U HU HPF fm t1 m n HI Hn Hd).
  - intro q. apply lookup_update. exact Hpne.
Qed.

Lemma over_again : forall t1 t' n Xc Y, In n U -> over t1 t' n Xc ->
  lookup t1 (removelast (phys n)) = Some Dir ->
  (forall x, lookup t1 (phys n ++ [x]) = None) ->
  over t1 (update t' (phys n) (File Y)) n Y.
Proof.
  intros t1 t' n Xc Y Hn [Hc Hl] Hpar Hch. destruct (phys_facts n Hn) as [Hpne Hpcl]. split.
  - apply closed_update; [exact Hc | exact Hpne | |].
    + rewrite Hl. destruct (path_eqb (phys n) (removelast (phys n))) eqn:E; [|exact Hpar].
      apply path_eqb_eq in E. apply (f_equal (@length _)) in E.
      destruct (snoc_cases _ (phys n)) as [E0 | [h [l E0]]]; [contradiction|].
      rewrite E0, removelast_snoc, app_length in E. simpl in E. lia.
    + intro x. left. rewrite Hl.
      destruct (path_eqb (phys n) (phys n ++ [x])) eqn:E; [|apply Hch].
      apply path_eqb_eq in E. apply (f_equal (@length _)) in E. rewrite app_length in E. simpl in E. lia.
  - intro q. rewrite lookup_update by exact Hpne. rewrite Hl.
    destruct (path_eqb (phys n) q); reflexivity.
Qed.

Lemma no_children' : forall t1 m n, Inv t1 m -> In n U -> forall x, lookup t1 (phys n ++ [x]) = None.
Proof. intros t1 m n HI Hn. exact (no_children B plain gz c U HU HPF fm t1 m n HI Hn). Qed.

(* other names' files are not touched *)
Lemma over_others : forall t1 t' m n Xc s, Inv t1 m -> over t1 t' n Xc -> In n U -> In s U -> s <> n ->
  lookup t' (phys s) = lookup t1 (phys s).
Proof.
  intros t1 t' m n Xc s HI [_ Hl] Hn Hs Hne. rewrite Hl.
  destruct (path_eqb (phys n) (phys s)) eqn:E; [|reflexivity].
  apply path_eqb_eq in E. unfold StRefineProofs.phys in E. apply app_inv_head in E.
  apply (relphys_inj U HU fm) in E; auto. congruence.
Qed.

(* the reader of n on such a tree returns the content found there *)
Definition fetch_prog (n : path) : prog B (outcome (resval B)) :=
  probe B (base c ++ n) None (Ret AccessErr)
        (fun f => match f with None => Ret AccessErr | Some (p, z) => read_handle B plain gunzip p z end).

Lemma fetch_over : forall t1 t' m n Xc, Inv t1 m -> In n U -> over t1 t' n Xc ->
  fst (run t' (fetch_prog n)) = if zipped n then gunzip_out B plain gunzip Xc else Ok (VData Xc).
Proof.
  intros t1 t' m n Xc HI Hn [Hc Hl]. destruct (HU n Hn) as [Hne [Hcl Hfr]].
  destruct (phys_facts n Hn) as [Hpne Hpcl].
  assert (Hlt : lookup t' (phys n) = Some (File Xc)) by (rewrite Hl, path_eqb_refl; reflexivity).
  assert (Hopen : open_ B empty t' (phys n) MR = inr t').
  { rewrite (open_ok B empty t' (phys n) MR Hc Hpcl Hpne); [rewrite Hlt; reflexivity|].
    eapply parent_dir; eauto. }
  assert (Hread : forall z, run t' (read_handle B plain gunzip (phys n) z)
                            = ((if z then gunzip_out B plain gunzip Xc else Ok (VData Xc)), t')).
  { intro z. unfold read_handle. rewrite run_do. simpl exec_call.
    rewrite (read_ok B t' (phys n) Xc Hc Hpcl Hlt). rewrite run_do. simpl exec_call. reflexivity. }
  unfold fetch_prog, probe. rewrite run_do. simpl exec_call.
  destruct (StRefineProofs.zipped fm n) eqn:Ez.
  - (* compressed: the plain path holds no file *)
    assert (Hp : with_gz (base c ++ n) = phys n).
    { unfold StRefineProofs.phys, relphys. rewrite Ez. apply with_gz_app. exact Hne. }
    assert (Hnf : is_file B t' (base c ++ n) = false).
    { apply is_file_false; [apply probe_clean; assumption|]. intros d Hd.
      rewrite Hl in Hd. destruct (path_eqb (phys n) (base c ++ n)) eqn:E.
      - apply path_eqb_eq in E. rewrite <- Hp in E.
        rewrite with_gz_app in E by exact Hne. apply app_inv_head in E.
        exact (gzfree_not_with_gz n n Hne Hfr E).
      - destruct (i_files B plain gz c U fm t1 m HI _ d Hd (prefix_app _ _)) as [s [Hs E2]].
        unfold StRefineProofs.phys in E2. apply app_inv_head in E2. symmetry in E2.
        apply (relphys_eq_free U HU fm) in E2 as [-> Hz]; auto. congruence. }
    rewrite Hnf. cbv iota. rewrite run_do. simpl exec_call. rewrite Hp.
    rewrite (lookup_is_file B t' (phys n) Xc Hc Hpcl Hlt).
    rewrite run_do. simpl exec_call. rewrite Hopen. rewrite Hread. reflexivity.
  - assert (Hp : base c ++ n = phys n) by (unfold StRefineProofs.phys, relphys; rewrite Ez; reflexivity).
    rewrite Hp, (lookup_is_file B t' (phys n) Xc Hc Hpcl Hlt).
    rewrite run_do. simpl exec_call. rewrite Hopen. rewrite Hread. reflexivity.
Qed.

Lemma fetch_inv : forall t m n, Inv t m -> In n U ->
  fst (run t (fetch_prog n)) = to_model B plain (spec_fetch m n).
Proof.
  intros t m n HI Hn. unfold fetch_prog.
  rewrite (probe_name B plain gz c U Hbase HU fm _ t m n None _ _ HI Hn).
  pose proof (fetch_after B plain gz gunzip Hgz c U Hbase HU fm t m n HI Hn) as H.
  unfold after_probe in H. rewrite H. reflexivity.
Qed.

(* ---------- open / write / close of n, call by call ---------- *)

Variable n : path.
Variable buf : list N.
Variable ow : bool.
Hypothesis Hn : In n U.

(* the states a fault or a cut in write_it can leave, relative to the state tb
   in which write_it starts *)
Inductive wleft (tb : fs B) : fs B -> Prop :=
| WL_base : wleft tb tb
| WL_over : forall t' Xc, over tb t' n Xc ->
            (Xc = empty \/ Xc = trunc (enc n buf) \/ Xc = enc n buf) -> wleft tb t'.

Lemma open_cases : forall tb m, Inv tb m -> lookup tb (base c ++ removelast n) = Some Dir ->
  (open_ B empty tb (phys n) (if ow then MW else MX) = inl EEXIST) \/
  (open_ B empty tb (phys n) (if ow then MW else MX) = inr (update tb (phys n) (File empty))).
Proof.
  intros tb m HI Hpar0. destruct (phys_facts n Hn) as [Hpne Hpcl].
  assert (Hpar : lookup tb (removelast (phys n)) = Some Dir)
    by (rewrite (phys_parent c U HU fm n Hn); exact Hpar0).
  rewrite (open_ok B empty tb (phys n) _ (i_closed B plain gz c U fm tb m HI) Hpcl Hpne Hpar).
  rewrite (i_phys B plain gz c U fm tb m HI n Hn).
  destruct (aget m n); destruct ow; auto.
Qed.

Lemma write_over : forall tb t' m Xc Y, Inv tb m -> over tb t' n Xc ->
  lookup tb (base c ++ removelast n) = Some Dir ->
  write_at B t' (phys n) Y = update t' (phys n) (File Y).
Proof.
  intros tb t' m Xc Y HI [Hc Hl] Hpar0. destruct (phys_facts n Hn) as [Hpne Hpcl].
  assert (Hpar : lookup tb (removelast (phys n)) = Some Dir)
    by (rewrite (phys_parent c U HU fm n Hn); exact Hpar0).
  apply write_ok; [exact Hc | exact Hpcl | exact Hpne|].
  rewrite Hl. destruct (path_eqb (phys n) (removelast (phys n))) eqn:E; [|exact Hpar].
  apply path_eqb_eq in E. apply (f_equal (@length _)) in E.
  destruct (snoc_cases _ (phys n)) as [E0 | [h [l E0]]]; [contradiction|].
  rewrite E0, removelast_snoc, app_length in E. simpl in E. lia.
Qed.

Lemma write_cut_left : forall tb m k, Inv tb m -> lookup tb (base c ++ removelast n) = Some Dir ->
  wleft tb (run_cut B empty trunc k tb (write_it B (phys n) (enc n buf) ow)).
Proof.
  intros tb m k HI Hpar0.
  assert (Hpar : lookup tb (removelast (phys n)) = Some Dir)
    by (rewrite (phys_parent c U HU fm n Hn); exact Hpar0).
  unfold write_it. destruct k as [|k]; [simpl; apply WL_base|].
  simpl run_cut. destruct (open_cases tb m HI Hpar0) as [Ho|Ho]; rewrite Ho.
  - simpl. apply WL_base.
  - pose proof (over_update tb m n empty HI Hn Hpar) as Hov.
    destruct k as [|k].
    + simpl. rewrite (write_over tb _ m empty _ HI Hov Hpar0).
      eapply WL_over; [eapply over_again; eauto; eapply no_children'; eauto | auto].
    + simpl run_cut. rewrite (write_over tb _ m empty _ HI Hov Hpar0).
      destruct k as [|k]; simpl;
        (eapply WL_over; [eapply over_again; eauto; eapply no_children'; eauto | auto]).
Qed.

Lemma write_fault_left : forall tb m k e, Inv tb m -> lookup tb (base c ++ removelast n) = Some Dir ->
  wleft tb (snd (run_fault B empty trunc k e tb (write_it B (phys n) (enc n buf) ow))).
Proof.
  intros tb m k e HI Hpar0.
  assert (Hpar : lookup tb (removelast (phys n)) = Some Dir)
    by (rewrite (phys_parent c U HU fm n Hn); exact Hpar0).
  unfold write_it. destruct k as [|k]; [simpl; apply WL_base|].
  simpl run_fault. destruct (open_cases tb m HI Hpar0) as [Ho|Ho]; rewrite Ho.
  - simpl. destruct k; apply WL_base.
  - pose proof (over_update tb m n empty HI Hn Hpar) as Hov.
    destruct k as [|k].
    + simpl. rewrite (write_over tb _ m empty _ HI Hov Hpar0).
      eapply WL_over; [eapply over_again; eauto; eapply no_children'; eauto | auto].
    + simpl run_fault. rewrite (write_over tb _ m empty _ HI Hov Hpar0).
      destruct k as [|k]; simpl;
        (eapply WL_over; [eapply over_again; eauto; eapply no_children'; eauto | auto]).
Qed.

End ST.

(* ---------- the store program, call by call, any MIME type ---------- *)

Variable n : path.
Variable buf mime : list N.
Variable ow : bool.
Hypothesis Hn : In n U.

Definition store_prog := store_at B plain gz c (base c ++ n) buf mime ow.
Definition zipb : bool := gzip c && negb (exempt mime).
Definition other_path : path := base c ++ (if zipb then n else with_gz n).

Lemma store_shape : forall fm,
  store_prog =
  Do (CMakedirs (base c ++ removelast n)) (fun r =>
  match r with
  | RErr _ => Ret AccessErr
  | _ =>
    Do (CIsFile other_path) (fun r =>
    match r with
    | RErr _ => Ret AccessErr
    | RBool true =>
        if ow then Do (CUnlink other_path) (fun r =>
                     match r with
                     | RErr _ => Ret AccessErr
                     | _ => write_it B (phys c (upd fm n zipb) n) (enc B plain gz c (upd fm n zipb) n buf) ow
                     end)
        else Ret AccessErr
    | _ => write_it B (phys c (upd fm n zipb) n) (enc B plain gz c (upd fm n zipb) n buf) ow
    end)
  end).
Proof.
  intro fm. destruct (HU n Hn) as [Hne _].
  assert (Hf : upd fm n zipb n = zipb) by (unfold upd; rewrite path_eqb_refl; reflexivity).
  unfold store_prog, store_at, other_path, phys, relphys, enc, zipped, parent. rewrite Hf.
  rewrite removelast_app_ne by exact Hne. fold zipb.
  destruct zipb; rewrite with_gz_app by exact Hne; reflexivity.
Qed.

Lemma isfile_other : forall fm t1 m, Inv B plain gz c U fm t1 m ->
  is_file B t1 other_path = match aget m n with Some _ => negb (Bool.eqb (fm n) zipb) | None => false end.
Proof.
  intros fm t1 m HI1. destruct (HU n Hn) as [Hne [Hcl Hfree]]. unfold other_path. destruct zipb.
  - rewrite (is_file_plain B plain gz c U Hbase HU fm t1 m n HI1 Hne Hcl Hfree), (in_U_existsb U n Hn).
    destruct (aget m n); [|reflexivity]. unfold zipped. destruct (fm n); reflexivity.
  - rewrite <- (with_gz_app (base c) n Hne).
    rewrite (is_file_gz B plain gz c U Hbase HU fm t1 m n HI1 Hne Hcl Hfree), (in_U_existsb U n Hn).
    destruct (aget m n); [|reflexivity]. unfold zipped. destruct (fm n); reflexivity.
Qed.

Lemma other_is_phys : forall fm, fm n = negb zipb -> other_path = phys c fm n.
Proof.
  intros fm H. unfold other_path, phys, relphys, zipped. rewrite H. destruct zipb; reflexivity.
Qed.

(* the states a fault or a cut can leave *)
Inductive left_state (fm : path -> bool) (m : amap) : fs B -> Prop :=
| LS : forall fmb tb mb t',
    Inv B plain gz c U fmb tb mb ->
    (forall s, In s U -> s <> n -> fmb s = fm s /\ aget mb s = aget m s) ->
    (aget mb n = aget m n \/ aget mb n = None) ->
    wleft fmb n buf tb t' -> left_state fm m t'.

Lemma LS_same : forall fm m tb, Inv B plain gz c U fm tb m -> left_state fm m tb.
Proof.
  intros fm m tb HI. eapply (LS fm m fm tb m tb HI); [intros; split; reflexivity | left; reflexivity | apply WL_base].
Qed.

Lemma upd_others : forall fm s, s <> n -> upd fm n zipb s = fm s.
Proof. intros fm s H. unfold upd. rewrite (proj2 (path_eqb_neq s n) H). reflexivity. Qed.

Lemma reform_here : forall fm t1 m, Inv B plain gz c U fm t1 m ->
  (aget m n = None \/ fm n = zipb) -> Inv B plain gz c U (upd fm n zipb) t1 m.
Proof.
  intros fm t1 m HI H. apply (Inv_reform B plain gz c U HU HPF fm _ t1 m HI).
  intros s Hs Hsome. unfold upd. destruct (path_eqb s n) eqn:E; [|reflexivity].
  apply path_eqb_eq in E. subst s. destruct H as [H|H]; [congruence | symmetry; exact H].
Qed.

Theorem cut_left : forall fm t m k, Inv B plain gz c U fm t m ->
  left_state fm m (run_cut B empty trunc k t store_prog).
Proof.
  intros fm t m k HI.
  assert (Hsame : forall s, In s U -> s <> n -> fm s = fm s /\ aget m s = aget m s) by (intros; split; reflexivity).
  destruct (store_prepare B plain gz c U Hbase HU HPF fm t m n HI Hn) as [t1 [Hmk [HI1 Hdir]]].
  rewrite (store_shape fm).
  destruct k as [|k]; [simpl; apply LS_same; exact HI|].
  simpl run_cut. rewrite Hmk.
  destruct k as [|k]; [simpl; apply LS_same; exact HI1|].
  simpl run_cut. rewrite (isfile_other fm t1 m HI1).
  assert (Hsame' : forall s, In s U -> s <> n -> upd fm n zipb s = fm s /\ aget m s = aget m s)
    by (intros s Hs Hne; split; [apply upd_others; exact Hne | reflexivity]).
  destruct (aget m n) as [old|] eqn:Eg.
  - destruct (Bool.eqb (fm n) zipb) eqn:Ef; simpl negb; cbv iota.
    + apply eqb_prop in Ef.
      pose proof (reform_here fm t1 m HI1 (or_intror Ef)) as HI1'.
      eapply LS; [exact HI1' | exact Hsame' | left; reflexivity|].
      apply (write_cut_left (upd fm n zipb) n buf ow Hn t1 m k HI1' Hdir).
    + destruct ow.
      * destruct k as [|k]; [simpl; apply LS_same; exact HI1|].
        simpl run_cut.
        assert (Hfn : fm n = negb zipb) by (destruct (fm n); destruct zipb; try discriminate; reflexivity).
        rewrite (other_is_phys fm Hfn).
        destruct (phys_facts c U Hbase HU fm n Hn) as [Hpne Hpcl].
        rewrite (unlink_ok B t1 (phys c fm n) _ (i_closed B plain gz c U fm t1 m HI1) Hpcl
                   (lookup_phys_file B plain gz c U fm t1 m n old HI1 Hn Eg)).
        pose proof (unlink_inv B plain gz c U Hbase HU HPF fm t1 m n old zipb HI1 Hn Eg) as HIr.
        assert (Hdir' : lookup (remove B t1 (phys c fm n)) (base c ++ removelast n) = Some Dir).
        { rewrite lookup_remove by exact Hpne.
          destruct (path_eqb (phys c fm n) (base c ++ removelast n)) eqn:E; [|exact Hdir].
          apply path_eqb_eq in E. pose proof (lookup_phys_file B plain gz c U fm t1 m n old HI1 Hn Eg) as Hf.
          rewrite E in Hf. congruence. }
        eapply LS; [exact HIr | | right; rewrite aget_adel, path_eqb_refl; reflexivity|].
        -- intros s Hs Hne. split; [apply upd_others; exact Hne|].
           rewrite aget_adel. rewrite (proj2 (path_eqb_neq n s)) by congruence. reflexivity.
        -- apply (write_cut_left (upd fm n zipb) n buf true Hn _ (adel m n) k HIr Hdir').
      * simpl. apply LS_same; exact HI1.
  - cbv iota.
    pose proof (reform_here fm t1 m HI1 (or_introl Eg)) as HI1'.
    eapply LS; [exact HI1' | exact Hsame' | left; reflexivity|].
    apply (write_cut_left (upd fm n zipb) n buf ow Hn t1 m k HI1' Hdir).
Qed.

Theorem fault_left : forall fm t m k e, Inv B plain gz c U fm t m ->
  left_state fm m (snd (run_fault B empty trunc k e t store_prog)).
Proof.
  intros fm t m k e HI.
  assert (Hsame : forall s, In s U -> s <> n -> fm s = fm s /\ aget m s = aget m s) by (intros; split; reflexivity).
  destruct (store_prepare B plain gz c U Hbase HU HPF fm t m n HI Hn) as [t1 [Hmk [HI1 Hdir]]].
  rewrite (store_shape fm).
  destruct k as [|k]; [simpl; apply LS_same; exact HI|].
  simpl run_fault. rewrite Hmk.
  destruct k as [|k]; [simpl; apply LS_same; exact HI1|].
  simpl run_fault. rewrite (isfile_other fm t1 m HI1).
  assert (Hsame' : forall s, In s U -> s <> n -> upd fm n zipb s = fm s /\ aget m s = aget m s)
    by (intros s Hs Hne; split; [apply upd_others; exact Hne | reflexivity]).
  destruct (aget m n) as [old|] eqn:Eg.
  - destruct (Bool.eqb (fm n) zipb) eqn:Ef; simpl negb; cbv iota.
    + apply eqb_prop in Ef.
      pose proof (reform_here fm t1 m HI1 (or_intror Ef)) as HI1'.
      eapply LS; [exact HI1' | exact Hsame' | left; reflexivity|].
      apply (write_fault_left (upd fm n zipb) n buf ow Hn t1 m k e HI1' Hdir).
    + destruct ow.
      * destruct k as [|k]; [simpl; apply LS_same; exact HI1|].
        simpl run_fault.
        assert (Hfn : fm n = negb zipb) by (destruct (fm n); destruct zipb; try discriminate; reflexivity).
        rewrite (other_is_phys fm Hfn).
        destruct (phys_facts c U Hbase HU fm n Hn) as [Hpne Hpcl].
        rewrite (unlink_ok B t1 (phys c fm n) _ (i_closed B plain gz c U fm t1 m HI1) Hpcl
                   (lookup_phys_file B plain gz c U fm t1 m n old HI1 Hn Eg)).
        pose proof (unlink_inv B plain gz c U Hbase HU HPF fm t1 m n old zipb HI1 Hn Eg) as HIr.
        assert (Hdir' : lookup (remove B t1 (phys c fm n)) (base c ++ removelast n) = Some Dir).
        { rewrite lookup_remove by exact Hpne.
          destruct (path_eqb (phys c fm n) (base c ++ removelast n)) eqn:E; [|exact Hdir].
          apply path_eqb_eq in E. pose proof (lookup_phys_file B plain gz c U fm t1 m n old HI1 Hn Eg) as Hf.
          rewrite E in Hf. congruence. }
        eapply LS; [exact HIr | | right; rewrite aget_adel, path_eqb_refl; reflexivity|].
        -- intros s Hs Hne. split; [apply upd_others; exact Hne|].
           rewrite aget_adel. rewrite (proj2 (path_eqb_neq n s)) by congruence. reflexivity.
        -- apply (write_fault_left (upd fm n zipb) n buf true Hn _ (adel m n) k e HIr Hdir').
      * simpl. destruct k; apply LS_same; exact HI1.
  - cbv iota.
    pose proof (reform_here fm t1 m HI1 (or_introl Eg)) as HI1'.
    eapply LS; [exact HI1' | exact Hsame' | left; reflexivity|].
    apply (write_fault_left (upd fm n zipb) n buf ow Hn t1 m k e HI1' Hdir).
Qed.

(* (a) whatever the fault or the cut point, the files of the other names are
   exactly what they were *)
Theorem left_others : forall fm t m t', Inv B plain gz c U fm t m -> left_state fm m t' ->
  forall s, In s U -> s <> n -> lookup t' (phys c fm s) = lookup t (phys c fm s).
Proof.
  intros fm t m t' HI Hls s Hs Hne. destruct Hls as [fmb tb mb t' HIb Hsame Hn' Hw].
  destruct (Hsame s Hs Hne) as [Hf Hg].
  assert (Hp : phys c fmb s = phys c fm s) by (unfold phys, relphys, zipped; rewrite Hf; reflexivity).
  assert (H1 : lookup tb (phys c fm s) = lookup t (phys c fm s)).
  { rewrite <- Hp at 1. rewrite (i_phys B plain gz c U fmb tb mb HIb s Hs), (i_phys B plain gz c U fm t m HI s Hs), Hg.
    unfold enc, zipped. rewrite Hf. reflexivity. }
  destruct Hw as [ | t' Xc Hov _]; [exact H1|].
  rewrite <- Hp at 1. rewrite (over_others fmb tb t' mb n Xc s HIb Hov Hn Hs Hne). rewrite Hp. exact H1.
Qed.

Theorem store_fault_others : forall fm t m k e, Inv B plain gz c U fm t m ->
  forall s, In s U -> s <> n ->
  lookup (snd (run_fault B empty trunc k e t store_prog)) (phys c fm s) = lookup t (phys c fm s).
Proof. intros fm t m k e HI. exact (left_others fm t m _ HI (fault_left fm t m k e HI)). Qed.

Theorem store_cut_others : forall fm t m k, Inv B plain gz c U fm t m ->
  forall s, In s U -> s <> n ->
  lookup (run_cut B empty trunc k t store_prog) (phys c fm s) = lookup t (phys c fm s).
Proof. intros fm t m k HI. exact (left_others fm t m _ HI (cut_left fm t m k HI)). Qed.

(* (b) the reader of the interrupted name *)
Hypothesis Htp : forall b, exists pre suf, trunc (plain b) = plain pre /\ b = pre ++ suf.
Hypothesis Htg : forall l b x, gunzip (trunc (gz l b)) = GzOk x -> x = b \/ x = [].
Hypothesis Hge : gunzip (plain []) = GzOk [].     (* an empty file reads as empty data *)

(* old state | a prefix of the new bytes (all of them when the write
   completed) | a data-access error (also: the name is absent, which is what
   an interruption between the unlink of the other form and the write leaves) *)
Definition crash_ok (old r : outcome (resval B)) : Prop :=
  r = old \/
  (exists pre suf, r = Ok (VData (plain pre)) /\ buf = pre ++ suf) \/
  r = AccessErr.

Theorem left_reader : forall fm m t', left_state fm m t' ->
  crash_ok (to_model B plain (spec_fetch m n)) (fst (run t' (fetch_prog n))).
Proof.
  intros fm m t' Hls. destruct Hls as [fmb tb mb t' HIb Hsame Hn' Hw].
  destruct Hw as [ | t' Xc Hov HX'].
  - rewrite (fetch_inv fmb tb mb n HIb Hn). unfold spec_fetch.
    destruct Hn' as [E|E]; rewrite E; [left; reflexivity | right; right; reflexivity].
  - rewrite (fetch_over fmb tb t' mb n Xc HIb Hn Hov). unfold enc in HX'.
    destruct (zipped fmb n) eqn:Ez.
    + unfold gunzip_out. destruct HX' as [-> | [-> | ->]].
      * rewrite Hge. right. left. exists [], buf. split; reflexivity.
      * destruct (gunzip (trunc (gz (level c) buf))) as [x| | |] eqn:Eg.
        -- destruct (Htg _ _ _ Eg) as [-> | ->].
           ++ right. left. exists buf, []. rewrite app_nil_r. split; reflexivity.
           ++ right. left. exists [], buf. split; reflexivity.
        -- right. right. reflexivity.
        -- right. right. reflexivity.
        -- right. right. reflexivity.
      * rewrite Hgz. right. left. exists buf, []. rewrite app_nil_r. split; reflexivity.
    + destruct HX' as [-> | [-> | ->]].
      * right. left. exists [], buf. split; reflexivity.
      * destruct (Htp buf) as [pre [suf [Ht Hb]]]. rewrite Ht. right. left. exists pre, suf. auto.
      * right. left. exists buf, []. rewrite app_nil_r. split; reflexivity.
Qed.

Theorem crash_safe : forall fm t m k, Inv B plain gz c U fm t m ->
  crash_ok (to_model B plain (spec_fetch m n))
           (fst (run (run_cut B empty trunc k t store_prog) (fetch_prog n))).
Proof. intros fm t m k HI. exact (left_reader fm m _ (cut_left fm t m k HI)). Qed.

(* the same holds for the state left by a failed (not interrupted) store *)
Theorem failed_store_reader : forall fm t m k e, Inv B plain gz c U fm t m ->
  crash_ok (to_model B plain (spec_fetch m n))
           (fst (run (snd (run_fault B empty trunc k e t store_prog)) (fetch_prog n))).
Proof. intros fm t m k e HI. exact (left_reader fm m _ (fault_left fm t m k e HI)). Qed.

End CRASH.

(* ====================================================================== *)
(* Gaps, on the executable instance (the harness replays them on the real
   code): *)

Definition g_cfg (g : bool) : cfg := {| base := [[119]; [100]]; flat := false; gzip := g; level := 9 |}.
Definition g_tree : fs blob := [([[119]], Dir); ([[119]; [100]], Dir)].
Definition g_name : list N := [97].
Definition g_fetch (g : bool) (t : fs blob) : outcome (resval blob) :=
  fst (run blob (BPlain []) t (fa_fetch_file blob BPlain (blob_gunzip []) (g_cfg g) g_name)).
Definition g_store (g : bool) (buf : list N) (ow : bool) :=
  fa_store_file blob BPlain BGz (g_cfg g) g_name buf [] ow.

(* an overwriting store that fails at the write has already destroyed the
   previous content of that name: "everything stored earlier remains
   readable and unchanged" does not hold for the overwritten name itself *)
Lemma overwrite_not_atomic_refuted :
  let t1 := snd (run blob (BPlain []) g_tree (g_store false [1] false)) in
  g_fetch false t1 = Ok (VData (BPlain [1])) /\
  let '(r, t2) := run_fault blob (BPlain []) (BCut 0) 3 ENOSPC t1 (g_store false [2; 3] true) in
  r = AccessErr /\ g_fetch false t2 = Ok (VData (BCut 0 (BPlain [2; 3]))).
Proof. vm_compute. repeat split. Qed.

(* a .gz left truncated (by a failed or an interrupted write) is reported by
   the next fetch as a data-access error *)
Lemma truncated_gz_detected :
  let '(r, t2) := run_fault blob (BPlain []) (BCut 2) 3 ENOSPC g_tree (g_store true [2; 3] false) in
  r = AccessErr /\ g_fetch true t2 = AccessErr.
Proof. vm_compute. split; reflexivity. Qed.

(* an interruption right after the .gz file was created leaves an empty file,
   which reads back successfully as empty data *)
Lemma empty_gz_refuted :
  g_fetch true (run_cut blob (BPlain []) (BCut 0) 3 g_tree (g_store true [2; 3] false))
  = Ok (VData (BPlain [])).
Proof. vm_compute. reflexivity. Qed.


(* a name held as a plain file (exempt MIME type) is stored again under a
   compressible MIME type with overwrite: the plain form is unlinked first; an
   interruption between the unlink and the open leaves the name absent *)
Lemma unlink_then_cut_absent :
  let t1 := snd (run blob (BPlain []) g_tree (fa_store_file blob BPlain BGz (g_cfg true) g_name [1] mime_jpeg false)) in
  g_fetch true t1 = Ok (VData (BPlain [1])) /\
  g_fetch true (run_cut blob (BPlain []) (BCut 0) 3 t1 (g_store true [2; 3] true)) = AccessErr /\
  g_fetch true (snd (run blob (BPlain []) t1 (g_store true [2; 3] true))) = Ok (VData (BPlain [2; 3])).
Proof. vm_compute. repeat split. Qed.

(* non-vacuity of the oracle hypotheses of crash_safe: a toy instance
   (contents = byte lists, "gzip" = two magic bytes + payload, interrupted
   writes leave an empty file) satisfies all of them *)
Definition toy_gz (l : N) (b : list N) : list N := 31 :: 139 :: b.
Definition toy_gunzip (d : list N) : gzres :=
  match d with
  | [] => GzOk []
  | 31 :: 139 :: b => GzOk b
  | _ => GzBad
  end.
Lemma crash_hyps_example :
  (forall l b, toy_gunzip (toy_gz l b) = GzOk b) /\
  (forall b : list N, exists pre suf, (fun _ : list N => @nil N) ((fun x => x) b) = (fun x => x) pre /\ b = pre ++ suf) /\
  (forall l b x, toy_gunzip ((fun _ : list N => @nil N) (toy_gz l b)) = GzOk x -> x = b \/ x = []) /\
  toy_gunzip ((fun x => x) []) = GzOk [].
Proof.
  split; [reflexivity|]. split; [intro b; exists [], b; split; reflexivity|].
  split; [|reflexivity]. intros l b x H. simpl in H. inversion H. right. reflexivity.
Qed.
