(* Proofs for C18, part 2: faults and interruptions of a FileAccessor store on
   a dataset written by a guarded history (invariant Inv of StRefineProofs):
   other names' files are untouched, and the reader of the interrupted name
   finds the old state, a prefix of the new bytes (uncompressed: as-is), or a
   detectable error. *)
From Coq Require Import NArith ZArith Arith List Bool Lia.
From NGS Require Import Val Ints StFS StFSProofs StFileAccessor StFileAccessorProofs
                        StRefineProofs StFaults.
Import ListNotations.
Open Scope N_scope.

Section CRASH.
Variable B : Type.
Variable plain : list N -> B.
Variable gz : N -> list N -> B.
Variable gunzip : B -> gzres.
Variable trunc : B -> B.
Hypothesis Hgz : forall l b, gunzip (gz l b) = GzOk b.

Variable c : cfg.
Variable ex : path -> bool.
Variable U X : list path.
Hypothesis Hbase : cleanb (base c) = true.
Hypothesis HU : forall n, In n U -> n <> [] /\ cleanb n = true /\ gzfree n = true.
Hypothesis HPF : forall n m, In n U -> In m U -> prefix n m -> n = m.
Hypothesis HX : forall o, In o X -> ~ In o U /\ o <> [] /\ cleanb o = true /\ gzfree o = true.

Notation empty := (plain []).
Notation Inv := (Inv B plain gz c ex U).
Notation phys := (phys c ex).
Notation zipped := (zipped c ex).
Notation enc := (enc B plain gz c ex).
Notation lookup := (lookup B).
Notation update := (update B).
Notation run := (run B empty).

(* after makedirs of the parent: same abstract content, parent present *)
Lemma store_prepare : forall t m n, Inv t m -> In n U ->
  exists t1, makedirs B t (base c ++ removelast n) = inr t1 /\ Inv t1 m /\
             lookup t1 (removelast (phys n)) = Some Dir.
Proof.
  intros t m n HI Hn. destruct (HU n Hn) as [Hne [Hcl Hfree]].
  assert (Hclp : cleanb (base c ++ removelast n) = true).
  { rewrite cleanb_app, Hbase. simpl. eapply cleanb_prefix; [|exact Hcl].
    destruct (snoc_cases _ n) as [-> | [h [l ->]]]; [contradiction|].
    rewrite removelast_snoc. apply prefix_app. }
  destruct (makedirs_ok B t (base c ++ removelast n) (i_closed B plain gz c ex U t m HI) Hclp)
    as [t1 [Hmk [Hc1 Hl1]]].
  { intros q d Hq. eapply (way_free B plain gz c ex U HU HPF); eauto. }
  assert (Hnp : forall s, In s U -> is_prefix (phys s) (base c ++ removelast n) = false).
  { intros s Hs. destruct (is_prefix (phys s) (base c ++ removelast n)) eqn:E; [|reflexivity].
    apply is_prefix_iff in E. unfold StRefineProofs.phys in E. apply prefix_cancel in E.
    exfalso. exact (no_phys_above c ex U HU HPF s n _ Hs Hn E eq_refl). }
  exists t1. split; [exact Hmk|]. split.
  - constructor.
    + exact Hc1.
    + exact (i_dom B plain gz c ex U t m HI).
    + intros s Hs. rewrite Hl1, (Hnp s Hs). apply (i_phys B plain gz c ex U t m HI). exact Hs.
    + intros q d Hl Hp. rewrite Hl1 in Hl.
      destruct (is_prefix q (base c ++ removelast n)); [discriminate|].
      exact (i_files B plain gz c ex U t m HI q d Hl Hp).
    + intros q d Hp Hl. rewrite Hl1 in Hl.
      destruct (is_prefix q (base c ++ removelast n)); [discriminate|].
      exact (i_above B plain gz c ex U t m HI q d Hp Hl).
    + intros q Hl Hp Hneq. rewrite Hl1 in Hl.
      destruct (is_prefix q (base c ++ removelast n)) eqn:E.
      * exists n. split; [exact Hn|]. apply is_prefix_iff in E. split.
        -- eapply prefix_trans; [exact E|]. apply prefix_add.
           destruct (snoc_cases _ n) as [-> | [h [l ->]]]; [contradiction|].
           rewrite removelast_snoc. apply prefix_app.
        -- intro E2. subst q. apply prefix_cancel, prefix_length in E.
           destruct (snoc_cases _ n) as [-> | [h [l ->]]]; [contradiction|].
           rewrite removelast_snoc, app_length in E. simpl in E. lia.
      * exact (i_dirs B plain gz c ex U t m HI q Hl Hp Hneq).
  - unfold StRefineProofs.phys. rewrite removelast_app_ne by (apply relphys_nonempty; exact Hne).
    rewrite relphys_parent, Hl1.
    replace (is_prefix (base c ++ removelast n) (base c ++ removelast n)) with true; [reflexivity|].
    symmetry. apply is_prefix_iff, prefix_refl.
Qed.

Lemma phys_facts : forall n, In n U -> phys n <> [] /\ cleanb (phys n) = true.
Proof.
  intros n Hn. destruct (HU n Hn) as [Hne [Hcl _]]. split.
  - unfold StRefineProofs.phys. intro E. apply app_eq_nil in E as [_ E]. exact (relphys_nonempty c ex n Hne E).
  - unfold StRefineProofs.phys. rewrite cleanb_app, Hbase. simpl. apply relphys_clean. exact Hcl.
Qed.

(* trees that differ from a dataset state only at the physical path of n *)
Definition over (t1 t' : fs B) (n : path) (Xc : B) : Prop :=
  tree_closed B t' /\
  forall q, lookup t' q = if path_eqb (phys n) q then Some (File Xc) else lookup t1 q.

Lemma over_update : forall t1 m n Xc, Inv t1 m -> In n U ->
  lookup t1 (removelast (phys n)) = Some Dir ->
  over t1 (update t1 (phys n) (File Xc)) n Xc.
Proof.
  intros t1 m n Xc HI Hn Hpar. destruct (phys_facts n Hn) as [Hpne Hpcl]. split.
  - apply closed_update; [exact (i_closed B plain gz c ex U t1 m HI) | exact Hpne | exact Hpar|].
    intro x. left. destruct (lookup t1 (phys n ++ [x])) eqn:E; [|reflexivity].
    exfalso. assert (Hd : lookup t1 (phys n) = Some Dir).
    { apply (i_closed B plain gz c ex U t1 m HI) with (c := x). rewrite E. discriminate. }
    exact (phys_not_dir B plain gz c ex U HU HPF t1 m n HI Hn Hd).
  - intro q. apply lookup_update. exact Hpne.
Qed.

Lemma over_again : forall t1 t' n Xc Y, In n U -> over t1 t' n Xc ->
  lookup t1 (removelast (phys n)) = Some Dir ->
  (forall x, lookup t1 (phys n ++ [x]) = None) ->
  over t1 (update t' (phys n) (File Y)) n Y.
Proof.
  intros t1 t' n Xc Y Hn [Hc Hl] Hpar Hch. destruct (phys_facts n Hn) as [Hpne Hpcl]. split.
  - apply closed_update; [exact Hc | exact Hpne | |].
    + rewrite Hl. destruct (path_eqb (phys n) (removelast (phys n))) eqn:E; [|exact Hpar].
      apply path_eqb_eq in E. apply (f_equal (@length _)) in E.
      destruct (snoc_cases _ (phys n)) as [E0 | [h [l E0]]]; [contradiction|].
      rewrite E0, removelast_snoc, app_length in E. simpl in E. lia.
    + intro x. left. rewrite Hl.
      destruct (path_eqb (phys n) (phys n ++ [x])) eqn:E; [|apply Hch].
      apply path_eqb_eq in E. apply (f_equal (@length _)) in E. rewrite app_length in E. simpl in E. lia.
  - intro q. rewrite lookup_update by exact Hpne. rewrite Hl.
    destruct (path_eqb (phys n) q); reflexivity.
Qed.

Lemma no_children : forall t1 m n, Inv t1 m -> In n U -> forall x, lookup t1 (phys n ++ [x]) = None.
Proof.
  intros t1 m n HI Hn x. destruct (lookup t1 (phys n ++ [x])) eqn:E; [|reflexivity].
  exfalso. assert (Hd : lookup t1 (phys n) = Some Dir).
  { apply (i_closed B plain gz c ex U t1 m HI) with (c := x). rewrite E. discriminate. }
  exact (phys_not_dir B plain gz c ex U HU HPF t1 m n HI Hn Hd).
Qed.

(* other names' files are not touched *)
Lemma over_others : forall t1 t' m n Xc s, Inv t1 m -> over t1 t' n Xc -> In n U -> In s U -> s <> n ->
  lookup t' (phys s) = lookup t1 (phys s).
Proof.
  intros t1 t' m n Xc s HI [_ Hl] Hn Hs Hne. rewrite Hl.
  destruct (path_eqb (phys n) (phys s)) eqn:E; [|reflexivity].
  apply path_eqb_eq in E. unfold StRefineProofs.phys in E. apply app_inv_head in E.
  apply (relphys_inj c ex U HU) in E; auto. congruence.
Qed.

(* the reader of n on such a tree returns the content found there *)
Definition fetch_prog (n : path) : prog B (outcome (resval B)) :=
  probe B (base c ++ n) None (Ret AccessErr)
        (fun f => match f with None => Ret AccessErr | Some (p, z) => read_handle B plain gunzip p z end).

Lemma fetch_over : forall t1 t' m n Xc, Inv t1 m -> In n U -> over t1 t' n Xc ->
  fst (run t' (fetch_prog n)) = if zipped n then gunzip_out B plain gunzip Xc else Ok (VData Xc).
Proof.
  intros t1 t' m n Xc HI Hn [Hc Hl]. destruct (HU n Hn) as [Hne [Hcl Hfr]].
  destruct (phys_facts n Hn) as [Hpne Hpcl].
  assert (Hlt : lookup t' (phys n) = Some (File Xc)) by (rewrite Hl, path_eqb_refl; reflexivity).
  assert (Hopen : open_ B empty t' (phys n) MR = inr t').
  { rewrite (open_ok B empty t' (phys n) MR Hc Hpcl Hpne); [rewrite Hlt; reflexivity|].
    eapply parent_dir; eauto. }
  assert (Hread : forall z, run t' (read_handle B plain gunzip (phys n) z)
                            = ((if z then gunzip_out B plain gunzip Xc else Ok (VData Xc)), t')).
  { intro z. unfold read_handle. rewrite run_do. simpl exec_call.
    rewrite (read_ok B t' (phys n) Xc Hc Hpcl Hlt). rewrite run_do. simpl exec_call. reflexivity. }
  unfold fetch_prog, probe. rewrite run_do. simpl exec_call.
  destruct (StRefineProofs.zipped c ex n) eqn:Ez.
  - (* compressed: the plain path holds no file *)
    assert (Hp : with_gz (base c ++ n) = phys n).
    { unfold StRefineProofs.phys, relphys. rewrite Ez. apply with_gz_app. exact Hne. }
    assert (Hnf : is_file B t' (base c ++ n) = false).
    { apply is_file_false; [apply probe_clean; assumption|]. intros d Hd.
      rewrite Hl in Hd. destruct (path_eqb (phys n) (base c ++ n)) eqn:E.
      - apply path_eqb_eq in E. rewrite <- Hp in E.
        rewrite with_gz_app in E by exact Hne. apply app_inv_head in E.
        exact (gzfree_not_with_gz n n Hne Hfr E).
      - destruct (i_files B plain gz c ex U t1 m HI _ d Hd (prefix_app _ _)) as [s [Hs E2]].
        unfold StRefineProofs.phys in E2. apply app_inv_head in E2. symmetry in E2.
        apply (relphys_eq_free c ex U HU) in E2 as [-> Hz]; auto. congruence. }
    rewrite Hnf. cbv iota. rewrite run_do. simpl exec_call. rewrite Hp.
    rewrite (lookup_is_file B t' (phys n) Xc Hc Hpcl Hlt).
    rewrite run_do. simpl exec_call. rewrite Hopen. rewrite Hread. reflexivity.
  - assert (Hp : base c ++ n = phys n) by (unfold StRefineProofs.phys, relphys; rewrite Ez; reflexivity).
    rewrite Hp, (lookup_is_file B t' (phys n) Xc Hc Hpcl Hlt).
    rewrite run_do. simpl exec_call. rewrite Hopen. rewrite Hread. reflexivity.
Qed.

Lemma fetch_inv : forall t m n, Inv t m -> In n U ->
  fst (run t (fetch_prog n)) = to_model B plain (spec_fetch m n).
Proof.
  intros t m n HI Hn. unfold fetch_prog.
  rewrite (probe_name B plain gz c ex U Hbase HU _ t m n None _ _ HI Hn).
  pose proof (fetch_after B plain gz gunzip Hgz c ex U Hbase HU t m n HI Hn) as H.
  unfold after_probe in H. rewrite H. reflexivity.
Qed.

(* ---------- the store program, call by call ---------- *)

Variable n : path.
Variable buf mime : list N.
Variable ow : bool.
Hypothesis Hn : In n U.
Hypothesis Hex : exempt mime = ex n.

Definition store_prog := store_at B plain gz c (base c ++ n) buf mime ow.

Lemma store_shape :
  store_prog =
  Do (CMakedirs (base c ++ removelast n)) (fun r =>
  match r with
  | RErr _ => Ret AccessErr
  | _ =>
    Do (COpen (phys n) (if ow then MW else MX)) (fun r =>
    match r with
    | RErr _ => Ret AccessErr
    | _ =>
      Do (CWrite (phys n) (enc n buf)) (fun r =>
      match r with
      | RErr _ => Do (CClose (phys n)) (fun _ => Ret AccessErr)
      | _ => Do (CClose (phys n)) (fun r =>
             match r with RErr _ => Ret AccessErr | _ => Ret (Ok (@VUnit B)) end)
      end)
    end)
  end).
Proof.
  destruct (HU n Hn) as [Hne _]. unfold store_prog, store_at.
  assert (Hzip : gzip c && negb (exempt mime) = StRefineProofs.zipped c ex n)
    by (unfold StRefineProofs.zipped; rewrite Hex; reflexivity).
  assert (Htarget : (if gzip c && negb (exempt mime) then with_gz (base c ++ n) else base c ++ n) = phys n).
  { unfold StRefineProofs.phys, relphys. rewrite <- Hzip.
    destruct (gzip c && negb (exempt mime)); [apply with_gz_app; exact Hne | reflexivity]. }
  assert (Hdata : (if gzip c && negb (exempt mime) then gz (level c) buf else plain buf) = enc n buf).
  { unfold StRefineProofs.enc. rewrite <- Hzip. reflexivity. }
  rewrite Htarget, Hdata. unfold parent. rewrite removelast_app_ne by exact Hne. reflexivity.
Qed.

(* the states a fault or a cut can leave *)
Inductive left_state (t t1 : fs B) (m : amap) : fs B -> Prop :=
| LS_before : left_state t t1 m t
| LS_dirs : left_state t t1 m t1
| LS_over : forall t' Xc, over t1 t' n Xc ->
            (Xc = empty \/ Xc = trunc (enc n buf) \/ Xc = enc n buf) -> left_state t t1 m t'.

Lemma open_cases : forall t1 m, Inv t1 m -> lookup t1 (removelast (phys n)) = Some Dir ->
  (open_ B empty t1 (phys n) (if ow then MW else MX) = inl EEXIST) \/
  (open_ B empty t1 (phys n) (if ow then MW else MX) = inr (update t1 (phys n) (File empty))).
Proof.
  intros t1 m HI Hpar. destruct (phys_facts n Hn) as [Hpne Hpcl].
  rewrite (open_ok B empty t1 (phys n) _ (i_closed B plain gz c ex U t1 m HI) Hpcl Hpne Hpar).
  rewrite (i_phys B plain gz c ex U t1 m HI n Hn).
  destruct (aget m n); destruct ow; auto.
Qed.

Lemma write_over : forall t1 t' m Xc Y, Inv t1 m -> over t1 t' n Xc ->
  lookup t1 (removelast (phys n)) = Some Dir ->
  write_at B t' (phys n) Y = update t' (phys n) (File Y).
Proof.
  intros t1 t' m Xc Y HI [Hc Hl] Hpar. destruct (phys_facts n Hn) as [Hpne Hpcl].
  apply write_ok; [exact Hc | exact Hpcl | exact Hpne|].
  rewrite Hl. destruct (path_eqb (phys n) (removelast (phys n))) eqn:E; [|exact Hpar].
  apply path_eqb_eq in E. apply (f_equal (@length _)) in E.
  destruct (snoc_cases _ (phys n)) as [E0 | [h [l E0]]]; [contradiction|].
  rewrite E0, removelast_snoc, app_length in E. simpl in E. lia.
Qed.

Theorem cut_left : forall t m k, Inv t m ->
  exists t1, Inv t1 m /\ left_state t t1 m (run_cut B empty trunc k t store_prog).
Proof.
  intros t m k HI. destruct (store_prepare t m n HI Hn) as [t1 [Hmk [HI1 Hpar]]].
  exists t1. split; [exact HI1|]. rewrite store_shape.
  destruct k as [|k]; [simpl; apply LS_before|].
  simpl run_cut. rewrite Hmk.
  destruct k as [|k]; [simpl; apply LS_dirs|].
  simpl run_cut.
  destruct (open_cases t1 m HI1 Hpar) as [Ho|Ho]; rewrite Ho.
  - simpl. apply LS_dirs.
  - pose proof (over_update t1 m n empty HI1 Hn Hpar) as Hov.
    destruct k as [|k].
    + simpl. rewrite (write_over t1 _ m empty _ HI1 Hov Hpar).
      eapply LS_over; [eapply over_again; eauto; eapply no_children; eauto | auto].
    + simpl run_cut. rewrite (write_over t1 _ m empty _ HI1 Hov Hpar).
      destruct k as [|k]; simpl;
        (eapply LS_over; [eapply over_again; eauto; eapply no_children; eauto | auto]).
Qed.

Theorem fault_left : forall t m k e, Inv t m ->
  exists t1, Inv t1 m /\ left_state t t1 m (snd (run_fault B empty trunc k e t store_prog)).
Proof.
  intros t m k e HI. destruct (store_prepare t m n HI Hn) as [t1 [Hmk [HI1 Hpar]]].
  exists t1. split; [exact HI1|]. rewrite store_shape.
  destruct k as [|k]; [simpl; apply LS_before|].
  simpl run_fault. rewrite Hmk.
  destruct k as [|k]; [simpl; apply LS_dirs|].
  simpl run_fault.
  destruct (open_cases t1 m HI1 Hpar) as [Ho|Ho]; rewrite Ho.
  - simpl. destruct k; apply LS_dirs.
  - pose proof (over_update t1 m n empty HI1 Hn Hpar) as Hov.
    destruct k as [|k].
    + simpl. rewrite (write_over t1 _ m empty _ HI1 Hov Hpar).
      eapply LS_over; [eapply over_again; eauto; eapply no_children; eauto | auto].
    + simpl run_fault. rewrite (write_over t1 _ m empty _ HI1 Hov Hpar).
      destruct k as [|k]; simpl;
        (eapply LS_over; [eapply over_again; eauto; eapply no_children; eauto | auto]).
Qed.

(* (a) whatever the fault or the cut point, the files of the other names are
   exactly what they were *)
Theorem left_others : forall t t1 m t', Inv t m -> Inv t1 m -> left_state t t1 m t' ->
  forall s, In s U -> s <> n -> lookup t' (phys s) = lookup t (phys s).
Proof.
  intros t t1 m t' HI HI1 Hls s Hs Hne.
  assert (H1 : lookup t1 (phys s) = lookup t (phys s)).
  { rewrite (i_phys B plain gz c ex U t1 m HI1 s Hs), (i_phys B plain gz c ex U t m HI s Hs). reflexivity. }
  destruct Hls as [ | | t' Xc Hov _]; [reflexivity | exact H1|].
  rewrite (over_others t1 t' m n Xc s HI1 Hov Hn Hs Hne). exact H1.
Qed.

Theorem store_fault_others : forall t m k e, Inv t m ->
  forall s, In s U -> s <> n ->
  lookup (snd (run_fault B empty trunc k e t store_prog)) (phys s) = lookup t (phys s).
Proof.
  intros t m k e HI s Hs Hne. destruct (fault_left t m k e HI) as [t1 [HI1 Hls]].
  exact (left_others t t1 m _ HI HI1 Hls s Hs Hne).
Qed.

Theorem store_cut_others : forall t m k, Inv t m ->
  forall s, In s U -> s <> n ->
  lookup (run_cut B empty trunc k t store_prog) (phys s) = lookup t (phys s).
Proof.
  intros t m k HI s Hs Hne. destruct (cut_left t m k HI) as [t1 [HI1 Hls]].
  exact (left_others t t1 m _ HI HI1 Hls s Hs Hne).
Qed.

(* (b) the reader of the interrupted name *)
Hypothesis Htp : forall b, exists pre suf, trunc (plain b) = plain pre /\ b = pre ++ suf.
Hypothesis Htg : forall l b x, gunzip (trunc (gz l b)) = GzOk x -> x = b \/ x = [].
Hypothesis Hge : gunzip (plain []) = GzOk [].     (* an empty file reads as empty data *)

Definition crash_ok (old r : outcome (resval B)) : Prop :=
  r = old \/
  (exists pre suf, r = Ok (VData (plain pre)) /\ buf = pre ++ suf) \/
  r = AccessErr.

Theorem left_reader : forall t t1 m t', Inv t m -> Inv t1 m -> left_state t t1 m t' ->
  crash_ok (to_model B plain (spec_fetch m n)) (fst (run t' (fetch_prog n))).
Proof.
  intros t t1 m t' HI HI1 Hls. destruct Hls as [ | | t' Xc Hov HX'].
  - left. apply fetch_inv; assumption.
  - left. apply fetch_inv; assumption.
  - rewrite (fetch_over t1 t' m n Xc HI1 Hn Hov). unfold StRefineProofs.enc in HX'.
    destruct (StRefineProofs.zipped c ex n) eqn:Ez.
    + unfold gunzip_out. destruct HX' as [-> | [-> | ->]].
      * rewrite Hge. right. left. exists [], buf. split; reflexivity.
      * destruct (gunzip (trunc (gz (level c) buf))) as [x| | |] eqn:Eg.
        -- destruct (Htg _ _ _ Eg) as [-> | ->].
           ++ right. left. exists buf, []. rewrite app_nil_r. split; reflexivity.
           ++ right. left. exists [], buf. split; reflexivity.
        -- right. right. reflexivity.
        -- right. right. reflexivity.
        -- right. right. reflexivity.
      * rewrite Hgz. right. left. exists buf, []. rewrite app_nil_r. split; reflexivity.
    + destruct HX' as [-> | [-> | ->]].
      * right. left. exists [], buf. split; reflexivity.
      * destruct (Htp buf) as [pre [suf [Ht Hb]]]. rewrite Ht. right. left. exists pre, suf. auto.
      * right. left. exists buf, []. rewrite app_nil_r. split; reflexivity.
Qed.

Theorem crash_safe : forall t m k, Inv t m ->
  crash_ok (to_model B plain (spec_fetch m n))
           (fst (run (run_cut B empty trunc k t store_prog) (fetch_prog n))).
Proof.
  intros t m k HI. destruct (cut_left t m k HI) as [t1 [HI1 Hls]].
  exact (left_reader t t1 m _ HI HI1 Hls).
Qed.

(* the same holds for the state left by a failed (not interrupted) store *)
Theorem failed_store_reader : forall t m k e, Inv t m ->
  crash_ok (to_model B plain (spec_fetch m n))
           (fst (run (snd (run_fault B empty trunc k e t store_prog)) (fetch_prog n))).
Proof.
  intros t m k e HI. destruct (fault_left t m k e HI) as [t1 [HI1 Hls]].
  exact (left_reader t t1 m _ HI HI1 Hls).
Qed.

End CRASH.

(* ====================================================================== *)
(* Gaps, on the executable instance (the harness replays them on the real
   code): *)

Definition g_cfg (g : bool) : cfg := {| base := [[119]; [100]]; flat := false; gzip := g; level := 9 |}.
Definition g_tree : fs blob := [([[119]], Dir); ([[119]; [100]], Dir)].
Definition g_name : list N := [97].
Definition g_fetch (g : bool) (t : fs blob) : outcome (resval blob) :=
  fst (run blob (BPlain []) t (fa_fetch_file blob BPlain (blob_gunzip []) (g_cfg g) g_name)).
Definition g_store (g : bool) (buf : list N) (ow : bool) :=
  fa_store_file blob BPlain BGz (g_cfg g) g_name buf [] ow.

(* an overwriting store that fails at the write has already destroyed the
   previous content of that name: "everything stored earlier remains
   readable and unchanged" does not hold for the overwritten name itself *)
Lemma overwrite_not_atomic_refuted :
  let t1 := snd (run blob (BPlain []) g_tree (g_store false [1] false)) in
  g_fetch false t1 = Ok (VData (BPlain [1])) /\
  let '(r, t2) := run_fault blob (BPlain []) (BCut 0) 2 ENOSPC t1 (g_store false [2; 3] true) in
  r = AccessErr /\ g_fetch false t2 = Ok (VData (BCut 0 (BPlain [2; 3]))).
Proof. vm_compute. repeat split. Qed.

(* a .gz left truncated (by a failed or an interrupted write) is reported by
   the next fetch as a data-access error *)
Lemma truncated_gz_detected :
  let '(r, t2) := run_fault blob (BPlain []) (BCut 2) 2 ENOSPC g_tree (g_store true [2; 3] false) in
  r = AccessErr /\ g_fetch true t2 = AccessErr.
Proof. vm_compute. split; reflexivity. Qed.

(* an interruption right after the .gz file was created leaves an empty file,
   which reads back successfully as empty data *)
Lemma empty_gz_refuted :
  g_fetch true (run_cut blob (BPlain []) (BCut 0) 2 g_tree (g_store true [2; 3] false))
  = Ok (VData (BPlain [])).
Proof. vm_compute. reflexivity. Qed.


(* non-vacuity of the oracle hypotheses of crash_safe: a toy instance
   (contents = byte lists, "gzip" = two magic bytes + payload, interrupted
   writes leave an empty file) satisfies all of them *)
Definition toy_gz (l : N) (b : list N) : list N := 31 :: 139 :: b.
Definition toy_gunzip (d : list N) : gzres :=
  match d with
  | [] => GzOk []
  | 31 :: 139 :: b => GzOk b
  | _ => GzBad
  end.
Lemma crash_hyps_example :
  (forall l b, toy_gunzip (toy_gz l b) = GzOk b) /\
  (forall b : list N, exists pre suf, (fun _ : list N => @nil N) ((fun x => x) b) = (fun x => x) pre /\ b = pre ++ suf) /\
  (forall l b x, toy_gunzip ((fun _ : list N => @nil N) (toy_gz l b)) = GzOk x -> x = b \/ x = []) /\
  toy_gunzip ((fun x => x) []) = GzOk [].
Proof.
  split; [reflexivity|]. split; [intro b; exists [], b; split; reflexivity|].
  split; [|reflexivity]. intros l b x H. simpl in H. inversion H. right. reflexivity.
Qed.
