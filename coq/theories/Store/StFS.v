(* Abstract file system used by the storage models (C12, C14, C18).

   fs := path -> option node, represented as an association list (latest
   binding first).  A path is a list of components (byte strings); the root is
   [] and is always a directory.  Syntactic paths handed to the primitives may
   contain ".." components: they are resolved against the tree the way the
   kernel does it (every traversed component must be an existing directory).
   "." and empty components never reach the primitives because pathlib has
   removed them (see StFileAccessor.parse_rel).

   Accessor operations are written as programs over primitive calls (type
   [prog]); [run] is the fault-free interpreter, StFaults.v adds the
   interpreters with a fault schedule / a crash cut, which is what makes every
   operation a TRACE of primitives. *)
From Coq Require Import NArith List Bool Lia.
From NGS Require Import Val Ints.
Import ListNotations.
Open Scope N_scope.

Definition comp := list N.
Definition path := list comp.

Fixpoint bytes_eqb (a b : list N) : bool :=
  match a, b with
  | [], [] => true
  | x :: a', y :: b' => (x =? y) && bytes_eqb a' b'
  | _, _ => false
  end.

Fixpoint path_eqb (a b : path) : bool :=
  match a, b with
  | [], [] => true
  | x :: a', y :: b' => bytes_eqb x y && path_eqb a' b'
  | _, _ => false
  end.

Definition dotdot : comp := [46; 46].
Definition is_dotdot (c : comp) : bool := bytes_eqb c dotdot.

(* errno values that the models distinguish *)
Inductive errno := ENOENT | EEXIST | ENOTDIR | EISDIR | ENOSPC | EACCES | EIO.

Definition errno_name (e : errno) : list N :=
  match e with
  | ENOENT => [69;78;79;69;78;84] | EEXIST => [69;69;88;73;83;84]
  | ENOTDIR => [69;78;79;84;68;73;82] | EISDIR => [69;73;83;68;73;82]
  | ENOSPC => [69;78;79;83;80;67] | EACCES => [69;65;67;67;69;83]
  | EIO => [69;73;79]
  end.

Inductive mode := MR | MW | MX.      (* "rb", "wb", "xb" *)

Section FS.
Variable B : Type.                   (* file contents *)
Variable empty : B.                  (* content of a freshly created file *)

Inductive node := File (b : B) | Dir.
Definition fs := list (path * node).

Fixpoint assoc (t : fs) (p : path) : option node :=
  match t with
  | [] => None
  | (q, n) :: r => if path_eqb q p then Some n else assoc r p
  end.

Definition lookup (t : fs) (p : path) : option node :=
  match p with [] => Some Dir | _ => assoc t p end.

Definition update (t : fs) (p : path) (n : node) : fs := (p, n) :: t.

(* kernel path walk; [rcur] is the current directory, reversed *)
Fixpoint walk (t : fs) (rcur : list comp) (rest : path) : errno + path :=
  match rest with
  | [] => inr (rev rcur)
  | c :: r =>
      match lookup t (rev rcur) with
      | None => inl ENOENT
      | Some (File _) => inl ENOTDIR
      | Some Dir => if is_dotdot c then walk t (tl rcur) r else walk t (c :: rcur) r
      end
  end.

Definition resolve (t : fs) (p : path) : errno + path := walk t [] p.

(* pathlib.Path.is_file / exists / is_dir: False on ENOENT / ENOTDIR *)
Definition is_file (t : fs) (p : path) : bool :=
  match resolve t p with
  | inr q => match lookup t q with Some (File _) => true | _ => false end
  | inl _ => false
  end.
Definition exists_ (t : fs) (p : path) : bool :=
  match resolve t p with
  | inr q => match lookup t q with Some _ => true | None => false end
  | inl _ => false
  end.
Definition is_dir (t : fs) (p : path) : bool :=
  match resolve t p with
  | inr q => match lookup t q with Some Dir => true | _ => false end
  | inl _ => false
  end.

Definition mkdir (t : fs) (p : path) : errno + fs :=
  match resolve t p with
  | inl e => inl e
  | inr q => match lookup t q with
             | Some _ => inl EEXIST
             | None => inr (update t q Dir)
             end
  end.

(* os.makedirs(name, exist_ok=True), on the reversed path:
     if head and not exists(head): try makedirs(head) except FileExistsError: pass
     try mkdir(name) except OSError: if not isdir(name): raise
   (pathlib's Path.mkdir(parents=True, exist_ok=True) has the same effect) *)
Fixpoint makedirs_r (t : fs) (rp : list comp) : errno + fs :=
  match rp with
  | [] => inr t
  | c :: rh =>
      let step1 :=
        if exists_ t (rev rh) then inr t
        else match makedirs_r t rh with inl EEXIST => inr t | r => r end in
      match step1 with
      | inl e => inl e
      | inr t1 =>
          match mkdir t1 (rev rp) with
          | inr t2 => inr t2
          | inl e => if is_dir t1 (rev rp) then inr t1 else inl e
          end
      end
  end.
Definition makedirs (t : fs) (p : path) : errno + fs := makedirs_r t (rev p).

Definition open_ (t : fs) (p : path) (m : mode) : errno + fs :=
  match resolve t p with
  | inl e => inl e
  | inr q =>
      match m, lookup t q with
      | MR, None => inl ENOENT
      | MR, Some Dir => inl EISDIR
      | MR, Some (File _) => inr t
      | MX, Some _ => inl EEXIST
      | MX, None => inr (update t q (File empty))
      | MW, Some Dir => inl EISDIR
      | MW, _ => inr (update t q (File empty))
      end
  end.

(* os.unlink / pathlib.Path.unlink *)
Definition remove (t : fs) (p : path) : fs :=
  filter (fun e => negb (path_eqb (fst e) p)) t.
Definition unlink_ (t : fs) (p : path) : errno + fs :=
  match resolve t p with
  | inl e => inl e
  | inr q => match lookup t q with
             | Some (File _) => inr (remove t q)
             | Some Dir => inl EISDIR
             | None => inl ENOENT
             end
  end.

Definition write_at (t : fs) (p : path) (d : B) : fs :=
  match resolve t p with inr q => update t q (File d) | inl _ => t end.

Definition read_at (t : fs) (p : path) : option B :=
  match resolve t p with
  | inr q => match lookup t q with Some (File b) => Some b | _ => None end
  | inl _ => None
  end.

(* ---------- programs over primitive calls ---------- *)

Inductive call :=
| CIsFile (p : path)               (* pathlib.Path.is_file *)
| CExists (p : path)               (* pathlib.Path.exists *)
| CMakedirs (p : path)             (* os.makedirs(exist_ok) / Path.mkdir(parents, exist_ok) *)
| CUnlink (p : path)               (* pathlib.Path.unlink *)
| COpen (p : path) (m : mode)      (* builtins.open (also the one inside gzip.open) *)
| CWrite (p : path) (d : B)        (* the write(s) on the handle, as one step *)
| CRead (p : path)                 (* read() of the whole file *)
| CClose (p : path).

Inductive reply := RBool (b : bool) | RUnit | RData (d : B) | RErr (e : errno).

Inductive prog (A : Type) :=
| Ret (a : A)
| Do (c : call) (k : reply -> prog A).
Arguments Ret {A} a.
Arguments Do {A} c k.

Definition exec_call (t : fs) (c : call) : reply * fs :=
  match c with
  | CIsFile p => (RBool (is_file t p), t)
  | CExists p => (RBool (exists_ t p), t)
  | CMakedirs p => match makedirs t p with inl e => (RErr e, t) | inr t' => (RUnit, t') end
  | CUnlink p => match unlink_ t p with inl e => (RErr e, t) | inr t' => (RUnit, t') end
  | COpen p m => match open_ t p m with inl e => (RErr e, t) | inr t' => (RUnit, t') end
  | CWrite p d => (RUnit, write_at t p d)
  | CRead p => match read_at t p with Some d => (RData d, t) | None => (RErr EIO, t) end
  | CClose _ => (RUnit, t)
  end.

Fixpoint run {A} (t : fs) (p : prog A) : A * fs :=
  match p with
  | Ret a => (a, t)
  | Do c k => let '(r, t') := exec_call t c in run t' (k r)
  end.

(* the list of calls made in the fault-free run *)
Fixpoint trace {A} (t : fs) (p : prog A) : list call :=
  match p with
  | Ret _ => []
  | Do c k => let '(r, t') := exec_call t c in c :: trace t' (k r)
  end.

(* canonical listing of the tree: every bound path once, latest binding *)
Fixpoint mem_path (p : path) (l : list path) : bool :=
  match l with [] => false | q :: r => path_eqb q p || mem_path p r end.
Fixpoint listing_aux (t : fs) (seen : list path) : list (path * node) :=
  match t with
  | [] => []
  | (p, n) :: r => if mem_path p seen then listing_aux r seen
                   else (p, n) :: listing_aux r (p :: seen)
  end.
Definition listing (t : fs) : list (path * node) := listing_aux t [].

End FS.

Arguments File {B} b.
Arguments Dir {B}.
Arguments Ret {B A} a.
Arguments Do {B A} c k.
Arguments CIsFile {B} p.
Arguments CExists {B} p.
Arguments CMakedirs {B} p.
Arguments CUnlink {B} p.
Arguments COpen {B} p m.
Arguments CWrite {B} p d.
Arguments CRead {B} p.
Arguments CClose {B} p.
Arguments RBool {B} b.
Arguments RUnit {B}.
Arguments RData {B} d.
Arguments RErr {B} e.

(* ---------- byte-string helpers shared by the accessor models ---------- *)

Definition slash : N := 47.
Definition dot : comp := [46].
Definition gz_suffix : list N := [46; 103; 122].      (* ".gz" *)

(* str.split("/") *)
Fixpoint split_slash_aux (s : list N) (cur : list N) : list (list N) :=
  match s with
  | [] => [rev cur]
  | c :: r => if c =? slash then rev cur :: split_slash_aux r [] else split_slash_aux r (c :: cur)
  end.
Definition split_slash (s : list N) : list (list N) := split_slash_aux s [].

Definition keep_comp (c : comp) : bool :=
  match c with [] => false | _ => negb (bytes_eqb c dot) end.

(* pathlib parsing of a POSIX path string: number of leading slashes that
   form the root (0 relative, 1 "/", 2 exactly "//"), and the components *)
Definition root_kind (s : list N) : nat :=
  match s with
  | a :: r =>
      if a =? slash then
        match r with
        | b :: r2 =>
            if b =? slash then
              match r2 with
              | c :: _ => if c =? slash then 1%nat else 2%nat
              | [] => 2%nat
              end
            else 1%nat
        | [] => 1%nat
        end
      else 0%nat
  | [] => 0%nat
  end.
Definition parse_parts (s : list N) : list comp := filter keep_comp (split_slash s).

Fixpoint is_prefix (a b : path) : bool :=
  match a, b with
  | [], _ => true
  | x :: a', y :: b' => bytes_eqb x y && is_prefix a' b'
  | _ :: _, [] => false
  end.

Definition parent (p : path) : path := removelast p.
(* file_path.with_name(file_path.name + ".gz") *)
Definition with_gz (p : path) : path :=
  match rev p with
  | [] => []
  | l :: rh => rev ((l ++ gz_suffix) :: rh)
  end.
