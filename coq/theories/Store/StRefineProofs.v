(* Proofs for C12, part B: within one configuration the FileAccessor model
   refines the abstract map name -> bytes, for every sequence of operations
   whose names lie in a compatible universe (see [guard] below). *)
From Coq Require Import NArith ZArith Arith List Bool Lia.
From NGS Require Import Val Ints StFS StFSProofs StFileAccessor StFileAccessorProofs.
Import ListNotations.
Open Scope N_scope.

(* ---------- ".gz" names ---------- *)

Definition ends_gz (k : comp) : bool :=
  match rev k with 122 :: 103 :: 46 :: _ => true | _ => false end.
Definition gzfree (n : path) : bool := forallb (fun k => negb (ends_gz k)) n.

Lemma ends_gz_suffix : forall l, ends_gz (l ++ gz_suffix) = true.
Proof. intro l. unfold ends_gz, gz_suffix. rewrite rev_app_distr. reflexivity. Qed.

Lemma with_gz_snoc : forall h l, with_gz (h ++ [l]) = h ++ [l ++ gz_suffix].
Proof.
  intros h l. unfold with_gz. rewrite rev_app_distr. simpl. rewrite rev_involutive. reflexivity.
Qed.

Lemma with_gz_app : forall b n, n <> [] -> with_gz (b ++ n) = b ++ with_gz n.
Proof.
  intros b n Hn. destruct (snoc_cases _ n) as [-> | [h [l ->]]]; [contradiction|].
  rewrite app_assoc, !with_gz_snoc, app_assoc. reflexivity.
Qed.

Lemma gzfree_app : forall a b, gzfree (a ++ b) = gzfree a && gzfree b.
Proof. intros. unfold gzfree. apply forallb_app. Qed.

Lemma gzfree_not_with_gz : forall m n, m <> [] -> gzfree n = true -> with_gz m <> n.
Proof.
  intros m n Hm Hn E. destruct (snoc_cases _ m) as [-> | [h [l ->]]]; [contradiction|].
  rewrite with_gz_snoc in E. subst n. rewrite gzfree_app in Hn.
  apply andb_true_iff in Hn as [_ Hn]. simpl in Hn. rewrite ends_gz_suffix in Hn. discriminate.
Qed.

Lemma with_gz_inj : forall n m, n <> [] -> m <> [] -> with_gz n = with_gz m -> n = m.
Proof.
  intros n m Hn Hm E.
  destruct (snoc_cases _ n) as [-> | [h [l ->]]]; [contradiction|].
  destruct (snoc_cases _ m) as [-> | [h' [l' ->]]]; [contradiction|].
  rewrite !with_gz_snoc in E. apply app_inj_tail in E as [-> E].
  apply app_inv_tail in E. subst. reflexivity.
Qed.

Lemma with_gz_prefix_not_free : forall s r, s <> [] -> prefix (with_gz s) r -> gzfree r = false.
Proof.
  intros s r Hs [u ->]. destruct (snoc_cases _ s) as [-> | [h [l ->]]]; [contradiction|].
  rewrite with_gz_snoc, !gzfree_app. simpl. rewrite ends_gz_suffix. simpl.
  rewrite andb_false_r. reflexivity.
Qed.

Lemma removelast_with_gz : forall n, removelast (with_gz n) = removelast n.
Proof.
  intro n. destruct (snoc_cases _ n) as [-> | [h [l ->]]]; [reflexivity|].
  rewrite with_gz_snoc, !removelast_snoc. reflexivity.
Qed.

Lemma is_dotdot_gz : forall l, is_dotdot (l ++ gz_suffix) = false.
Proof.
  intro l. apply bytes_eqb_neq. intro E. apply (f_equal (@length _)) in E.
  rewrite app_length in E. simpl in E. lia.
Qed.

Lemma cleanb_with_gz : forall n, cleanb n = true -> cleanb (with_gz n) = true.
Proof.
  intros n H. destruct (snoc_cases _ n) as [-> | [h [l ->]]]; [reflexivity|].
  rewrite with_gz_snoc. rewrite cleanb_app in *. apply andb_true_iff in H as [H1 _].
  rewrite H1. simpl. rewrite is_dotdot_gz. reflexivity.
Qed.

Lemma with_gz_nonempty : forall n, n <> [] -> with_gz n <> [].
Proof.
  intros n Hn E. destruct (snoc_cases _ n) as [-> | [h [l ->]]]; [contradiction|].
  rewrite with_gz_snoc in E. destruct h; discriminate.
Qed.

Lemma removelast_app_ne : forall (A : Type) (b n : list A), n <> [] -> removelast (b ++ n) = b ++ removelast n.
Proof. intros. apply removelast_app. assumption. Qed.

Lemma prefix_cancel : forall a x y, prefix (a ++ x) (a ++ y) -> prefix x y.
Proof. intros a x y. apply prefix_app_inv. Qed.
Lemma prefix_add : forall a x y, prefix x y -> prefix (a ++ x) (a ++ y).
Proof. intros a x y. apply prefix_app_inv. Qed.

(* ---------- outcomes of the abstract side, in the model's vocabulary ---------- *)

Section REFINE.
Variable B : Type.
Variable plain : list N -> B.
Variable gz : N -> list N -> B.
Variable gunzip : B -> gzres.
Hypothesis Hgz : forall l b, gunzip (gz l b) = GzOk b.

Definition to_model (o : outcome aval) : outcome (resval B) :=
  match o with
  | Ok AUnit => Ok VUnit
  | Ok (ABool b) => Ok (VBool b)
  | Ok (AData d) => Ok (VData (plain d))
  | FormatErr => FormatErr | InfoErr => InfoErr | AccessErr => AccessErr
  | IOErr => IOErr | Refused => Refused | Crash k => Crash k
  end.

Variable c : cfg.
Variable U X : list path.            (* names of the history; other-layout chunk paths *)

Hypothesis Hbase : cleanb (base c) = true.
Hypothesis HU : forall n, In n U -> n <> [] /\ cleanb n = true /\ gzfree n = true.
Hypothesis HPF : forall n m, In n U -> In m U -> prefix n m -> n = m.
Hypothesis HX : forall o, In o X -> ~ In o U /\ o <> [] /\ cleanb o = true /\ gzfree o = true.

Notation lookup := (lookup B).
Notation update := (update B).
Notation run := (run B (plain [])).

(* ---------- one state: the form (plain / .gz) in which each name is held ---------- *)
Section STATE.
Variable fm : path -> bool.          (* true: the name is currently held as <name>.gz *)

Definition zipped (n : path) : bool := fm n.
Definition relphys (n : path) : path := if zipped n then with_gz n else n.
Definition phys (n : path) : path := base c ++ relphys n.
Definition enc (n : path) (b : list N) : B := if zipped n then gz (level c) b else plain b.

Lemma relphys_nonempty : forall n, n <> [] -> relphys n <> [].
Proof. intros n Hn. unfold relphys. destruct (zipped n); [apply with_gz_nonempty|]; assumption. Qed.

Lemma relphys_clean : forall n, cleanb n = true -> cleanb (relphys n) = true.
Proof. intros n H. unfold relphys. destruct (zipped n); [apply cleanb_with_gz|]; assumption. Qed.

Lemma relphys_parent : forall n, removelast (relphys n) = removelast n.
Proof. intro n. unfold relphys. destruct (zipped n); [apply removelast_with_gz | reflexivity]. Qed.

(* collisions between physical paths and gz-free paths *)
Lemma relphys_eq_free : forall s r, In s U -> gzfree r = true -> relphys s = r -> s = r /\ zipped s = false.
Proof.
  intros s r Hs Hr E. destruct (HU s Hs) as [Hne _]. unfold relphys in E.
  destruct (zipped s); [exfalso; exact (gzfree_not_with_gz s r Hne Hr E) | auto].
Qed.

Lemma relphys_eq_gz : forall s r, In s U -> r <> [] -> relphys s = with_gz r -> s = r /\ zipped s = true.
Proof.
  intros s r Hs Hr E. destruct (HU s Hs) as [Hne [_ Hf]]. unfold relphys in E.
  destruct (zipped s).
  - split; [apply with_gz_inj; assumption | reflexivity].
  - exfalso. symmetry in E. exact (gzfree_not_with_gz r s Hr Hf E).
Qed.

Lemma relphys_prefix_free : forall s r, In s U -> gzfree r = true -> prefix (relphys s) r ->
  prefix s r /\ zipped s = false.
Proof.
  intros s r Hs Hr Hp. destruct (HU s Hs) as [Hne _]. unfold relphys in Hp.
  destruct (zipped s); [|auto].
  apply with_gz_prefix_not_free in Hp; [congruence | exact Hne].
Qed.

Lemma relphys_inj : forall s n, In s U -> In n U -> relphys s = relphys n -> s = n.
Proof.
  intros s n Hs Hn E. destruct (HU n Hn) as [Hne [_ Hf]].
  unfold relphys at 2 in E. destruct (zipped n).
  - apply relphys_eq_gz in E; tauto.
  - apply relphys_eq_free in E; tauto.
Qed.

(* no physical path of a name lies on the way to another name's parent *)
Lemma no_phys_above : forall s n r, In s U -> In n U -> prefix r (removelast n) -> relphys s <> r.
Proof.
  intros s n r Hs Hn Hr E. destruct (HU n Hn) as [Hne [_ Hf]].
  assert (Hrn : prefix r n).
  { destruct Hr as [u Hu]. destruct (snoc_cases _ n) as [-> | [h [l ->]]]; [contradiction|].
    rewrite removelast_snoc in Hu. subst h. exists (u ++ [l]). rewrite app_assoc. reflexivity. }
  assert (Hfr : gzfree r = true).
  { destruct Hrn as [u ->]. rewrite gzfree_app in Hf. apply andb_true_iff in Hf. tauto. }
  apply relphys_eq_free in E as [-> _]; auto.
  assert (r = n) by (apply HPF; assumption). subst r.
  apply prefix_length in Hr. destruct (snoc_cases _ n) as [-> | [h [l ->]]]; [contradiction|].
  rewrite removelast_snoc, app_length in Hr. simpl in Hr. lia.
Qed.

(* ---------- the invariant ---------- *)

Record Inv (t : fs B) (m : amap) : Prop := {
  i_closed : tree_closed B t;
  i_dom : forall n b, aget m n = Some b -> In n U;
  i_phys : forall n, In n U ->
     lookup t (phys n) = match aget m n with Some b => Some (File (enc n b)) | None => None end;
  i_files : forall q d, lookup t q = Some (File d) -> prefix (base c) q ->
     exists n, In n U /\ q = phys n;
  i_above : forall q d, prefix q (base c) -> lookup t q <> Some (File d);
  i_dirs : forall q, lookup t q = Some Dir -> prefix (base c) q -> q <> base c ->
     exists n, In n U /\ prefix q (base c ++ n) /\ q <> base c ++ n
}.

(* a fresh dataset location: nothing at or below the base except possibly the
   base directory itself, and no file on the way to it *)
Definition fresh (t : fs B) : Prop :=
  tree_closed B t /\
  (forall q, prefix (base c) q -> q <> base c -> lookup t q = None) /\
  (forall q d, prefix q (base c) -> lookup t q <> Some (File d)).

Lemma phys_below : forall n, n <> [] -> prefix (base c) (phys n) /\ phys n <> base c.
Proof.
  intros n Hn. split; [apply prefix_app|]. unfold phys. intro E.
  rewrite <- (app_nil_r (base c)) in E at 2. apply app_inv_head in E.
  exact (relphys_nonempty n Hn E).
Qed.

Lemma inv_fresh : forall t, fresh t -> Inv t [].
Proof.
  intros t [Hc [Hb Ha]]. constructor; try assumption.
  - intros n b H. discriminate.
  - intros n Hn. simpl. destruct (HU n Hn) as [Hne _]. destruct (phys_below n Hne). apply Hb; assumption.
  - intros q d Hl Hp. destruct (path_eq_dec q (base c)) as [->|Hne].
    + exfalso. exact (Ha _ d (prefix_refl _) Hl).
    + rewrite Hb in Hl by assumption. discriminate.
  - intros q Hl Hp Hne. rewrite Hb in Hl by assumption. discriminate.
Qed.

Lemma aget_aset : forall m n v k, aget (aset m n v) k = if path_eqb n k then Some v else aget m k.
Proof. reflexivity. Qed.

(* a physical path is never a directory, and the way to it is free of files *)
Lemma phys_not_dir : forall t m n, Inv t m -> In n U -> lookup t (phys n) <> Some Dir.
Proof.
  intros t m n HI Hn Hl. destruct (HU n Hn) as [Hne [_ Hf]].
  destruct (phys_below n Hne) as [Hp Hb].
  destruct (i_dirs t m HI _ Hl Hp Hb) as [s [Hs [Hps Hnes]]].
  unfold phys in Hps, Hnes. apply prefix_cancel in Hps.
  destruct (HU s Hs) as [_ [_ Hfs]].
  destruct (relphys_prefix_free n s Hn Hfs Hps) as [Hpns Hz].
  assert (n = s) by (apply HPF; assumption). subst s.
  unfold relphys in Hnes. rewrite Hz in Hnes. contradiction.
Qed.

Lemma way_free : forall t m n q d, Inv t m -> In n U ->
  prefix q (base c ++ removelast n) -> lookup t q <> Some (File d).
Proof.
  intros t m n q d HI Hn Hq Hl.
  destruct (prefix_comparable q (base c) (base c ++ removelast n) Hq (prefix_app _ _)) as [H|H].
  - exact (i_above t m HI q d H Hl).
  - destruct (i_files t m HI q d Hl H) as [s [Hs ->]].
    unfold phys in Hq. apply prefix_cancel in Hq.
    exact (no_phys_above s n (relphys s) Hs Hn Hq eq_refl).
Qed.

(* ---------- store ---------- *)

Lemma run_do : forall A (t : fs B) cl (k : reply B -> prog B A),
  run t (Do cl k) = let '(r, t') := exec_call B (plain []) t cl in run t' (k r).
Proof. reflexivity. Qed.

Lemma phys_facts : forall n, In n U -> phys n <> [] /\ cleanb (phys n) = true.
Proof.
  intros n Hn. destruct (HU n Hn) as [Hne [Hcl _]]. split.
  - unfold phys. intro E. apply app_eq_nil in E as [_ E]. exact (relphys_nonempty n Hne E).
  - unfold phys. rewrite cleanb_app, Hbase. simpl. apply relphys_clean. exact Hcl.
Qed.

(* after makedirs of the parent: same abstract content, parent present *)
Lemma store_prepare : forall t m n, Inv t m -> In n U ->
  exists t1, makedirs B t (base c ++ removelast n) = inr t1 /\ Inv t1 m /\
             lookup t1 (base c ++ removelast n) = Some Dir.
Proof.
  intros t m n HI Hn. destruct (HU n Hn) as [Hne [Hcl Hfree]].
  assert (Hclp : cleanb (base c ++ removelast n) = true).
  { rewrite cleanb_app, Hbase. simpl. eapply cleanb_prefix; [|exact Hcl].
    destruct (snoc_cases _ n) as [-> | [h [l ->]]]; [contradiction|].
    rewrite removelast_snoc. apply prefix_app. }
  destruct (makedirs_ok B t (base c ++ removelast n) (i_closed t m HI) Hclp) as [t1 [Hmk [Hc1 Hl1]]].
  { intros q d Hq. eapply way_free; eauto. }
  assert (Hnp : forall s, In s U -> is_prefix (phys s) (base c ++ removelast n) = false).
  { intros s Hs. destruct (is_prefix (phys s) (base c ++ removelast n)) eqn:E; [|reflexivity].
    apply is_prefix_iff in E. unfold phys in E. apply prefix_cancel in E.
    exfalso. exact (no_phys_above s n _ Hs Hn E eq_refl). }
  exists t1. split; [exact Hmk|]. split.
  - constructor.
    + exact Hc1.
    + exact (i_dom t m HI).
    + intros s Hs. rewrite Hl1, (Hnp s Hs). apply (i_phys t m HI). exact Hs.
    + intros q d Hl Hp. rewrite Hl1 in Hl.
      destruct (is_prefix q (base c ++ removelast n)); [discriminate|].
      exact (i_files t m HI q d Hl Hp).
    + intros q d Hp Hl. rewrite Hl1 in Hl.
      destruct (is_prefix q (base c ++ removelast n)); [discriminate|].
      exact (i_above t m HI q d Hp Hl).
    + intros q Hl Hp Hneq. rewrite Hl1 in Hl.
      destruct (is_prefix q (base c ++ removelast n)) eqn:E.
      * exists n. split; [exact Hn|]. apply is_prefix_iff in E. split.
        -- eapply prefix_trans; [exact E|]. apply prefix_add.
           destruct (snoc_cases _ n) as [-> | [h [l ->]]]; [contradiction|].
           rewrite removelast_snoc. apply prefix_app.
        -- intro E2. subst q. apply prefix_cancel, prefix_length in E.
           destruct (snoc_cases _ n) as [-> | [h [l ->]]]; [contradiction|].
           rewrite removelast_snoc, app_length in E. simpl in E. lia.
      * exact (i_dirs t m HI q Hl Hp Hneq).
  - rewrite Hl1.
    replace (is_prefix (base c ++ removelast n) (base c ++ removelast n)) with true; [reflexivity|].
    symmetry. apply is_prefix_iff, prefix_refl.
Qed.

Lemma phys_parent : forall n, In n U -> removelast (phys n) = base c ++ removelast n.
Proof.
  intros n Hn. destruct (HU n Hn) as [Hne _]. unfold phys.
  rewrite removelast_app_ne by (apply relphys_nonempty; exact Hne). rewrite relphys_parent. reflexivity.
Qed.

Lemma no_children : forall t m n, Inv t m -> In n U -> forall x, lookup t (phys n ++ [x]) = None.
Proof.
  intros t m n HI Hn x. destruct (lookup t (phys n ++ [x])) eqn:E; [|reflexivity].
  exfalso. assert (Hd : lookup t (phys n) = Some Dir).
  { apply (i_closed t m HI) with (c := x). rewrite E. discriminate. }
  exact (phys_not_dir t m n HI Hn Hd).
Qed.

(* open / write / close of a name in the form it is held in (or not held at all) *)
Lemma write_refines : forall t1 m n buf ow,
  Inv t1 m -> In n U -> lookup t1 (base c ++ removelast n) = Some Dir ->
  exists t', run t1 (write_it B (phys n) (enc n buf) ow)
             = (to_model (fst (spec_store m n buf ow)), t')
          /\ Inv t' (snd (spec_store m n buf ow)).
Proof.
  intros t1 m n buf ow HI1 Hn Hpar0. destruct (HU n Hn) as [Hne [Hcl Hfree]].
  destruct (phys_facts n Hn) as [Hpne Hpcl].
  pose proof (i_closed t1 m HI1) as Hc1.
  assert (Hppar : lookup t1 (removelast (phys n)) = Some Dir) by (rewrite (phys_parent n Hn); exact Hpar0).
  unfold write_it. rewrite run_do. simpl exec_call.
  rewrite (open_ok B (plain []) t1 (phys n) (if ow then MW else MX) Hc1 Hpcl Hpne Hppar).
  pose proof (i_phys t1 m HI1 n Hn) as Hph.
  unfold spec_store.
  assert (Hdone : forall (t2 : fs B),
            t2 = update t1 (phys n) (File (plain [])) ->
            run t2 (Do (CWrite (phys n) (enc n buf))
                     (fun r => match r with
                               | RErr _ => Do (CClose (phys n)) (fun _ => Ret AccessErr)
                               | _ => Do (CClose (phys n)) (fun r0 =>
                                        match r0 with RErr _ => Ret AccessErr | _ => Ret (Ok (@VUnit B)) end)
                               end))
            = (Ok (@VUnit B), update t2 (phys n) (File (enc n buf)))
            /\ Inv (update t2 (phys n) (File (enc n buf))) (aset m n buf)).
  { intros t2 ->.
    assert (Hc2 : tree_closed B (update t1 (phys n) (File (plain [])))).
    { apply closed_update; auto. intro x. left. exact (no_children t1 m n HI1 Hn x). }
    assert (Hpar2 : lookup (update t1 (phys n) (File (plain []))) (removelast (phys n)) = Some Dir).
    { rewrite lookup_update_other; [exact Hppar|]. intro E.
      apply (f_equal (@length _)) in E. destruct (snoc_cases _ (phys n)) as [E0 | [h [l E0]]]; [contradiction|].
      rewrite E0, removelast_snoc, app_length in E. simpl in E. lia. }
    split.
    - rewrite run_do. simpl exec_call.
      rewrite (write_ok B _ (phys n) (enc n buf) Hc2 Hpcl Hpne Hpar2). reflexivity.
    - set (t3 := update (update t1 (phys n) (File (plain []))) (phys n) (File (enc n buf))).
      assert (Hl3 : forall q, lookup t3 q = if path_eqb (phys n) q then Some (File (enc n buf)) else lookup t1 q).
      { intro q. unfold t3. rewrite !lookup_update by exact Hpne. destruct (path_eqb (phys n) q); reflexivity. }
      constructor.
      + unfold t3. apply closed_update; auto. intro x. left.
        rewrite lookup_update_other.
        * exact (no_children t1 m n HI1 Hn x).
        * intro E. apply (f_equal (@length _)) in E. rewrite app_length in E. simpl in E. lia.
      + intros k b. rewrite aget_aset. destruct (path_eqb n k) eqn:E.
        * apply path_eqb_eq in E. subst k. intros _. exact Hn.
        * apply (i_dom t1 m HI1).
      + intros s Hs. rewrite Hl3, aget_aset.
        destruct (path_eqb n s) eqn:E.
        * apply path_eqb_eq in E. subst s. rewrite path_eqb_refl. reflexivity.
        * destruct (path_eqb (phys n) (phys s)) eqn:E2.
          -- apply path_eqb_eq in E2. unfold phys in E2. apply app_inv_head in E2.
             apply relphys_inj in E2; auto. subst s. rewrite path_eqb_refl in E. discriminate.
          -- apply (i_phys t1 m HI1). exact Hs.
      + intros q d. rewrite Hl3. destruct (path_eqb (phys n) q) eqn:E.
        * apply path_eqb_eq in E. subst q. intros _ _. exists n. auto.
        * apply (i_files t1 m HI1).
      + intros q d Hp. rewrite Hl3. destruct (path_eqb (phys n) q) eqn:E.
        * apply path_eqb_eq in E. subst q. exfalso.
          destruct (phys_below n Hne) as [Hp2 Hb]. apply Hb. apply prefix_antisym; assumption.
        * apply (i_above t1 m HI1). exact Hp.
      + intros q. rewrite Hl3. destruct (path_eqb (phys n) q) eqn:E; [discriminate|].
        apply (i_dirs t1 m HI1). }
  destruct (aget m n) as [old|] eqn:Eg; rewrite Hph.
  - destruct ow.
    + destruct (Hdone _ eq_refl) as [Hr HI3]. eexists. split; [exact Hr | exact HI3].
    + exists t1. split; [reflexivity | exact HI1].
  - destruct ow; destruct (Hdone _ eq_refl) as [Hr HI3]; eexists; (split; [exact Hr | exact HI3]).
Qed.

(* ---------- probes and reads ---------- *)

Lemma probe_clean : forall n, cleanb n = true -> cleanb (base c ++ n) = true.
Proof. intros n H. rewrite cleanb_app, Hbase, H. reflexivity. Qed.

Lemma lookup_phys_file : forall t m n b, Inv t m -> In n U -> aget m n = Some b ->
  lookup t (phys n) = Some (File (enc n b)).
Proof. intros t m n b HI Hn Hg. rewrite (i_phys t m HI n Hn), Hg. reflexivity. Qed.

(* is_file on a gz-free relative path r (r or r.gz): decided by the map *)
Lemma is_file_plain : forall t m r, Inv t m -> r <> [] -> cleanb r = true -> gzfree r = true ->
  is_file B t (base c ++ r) =
    match (if existsb (path_eqb r) U then aget m r else None) with
    | Some _ => negb (zipped r)
    | None => false
    end.
Proof.
  intros t m r HI Hr Hc Hf.
  destruct (existsb (path_eqb r) U) eqn:EU.
  - apply existsb_exists in EU as [r' [Hin E]]. apply path_eqb_eq in E. subst r'.
    destruct (aget m r) as [b|] eqn:Eg.
    + destruct (zipped r) eqn:Ez; simpl.
      * apply is_file_false; [apply probe_clean; exact Hc|]. intros d Hl.
        destruct (i_files t m HI _ d Hl (prefix_app _ _)) as [s [Hs E]].
        unfold phys in E. apply app_inv_head in E. symmetry in E.
        apply relphys_eq_free in E as [-> Hz]; auto. congruence.
      * eapply lookup_is_file; [exact (i_closed t m HI) | apply probe_clean; exact Hc|].
        pose proof (lookup_phys_file t m r b HI Hin Eg) as Hl.
        unfold phys, relphys in Hl. rewrite Ez in Hl. exact Hl.
    + apply is_file_false; [apply probe_clean; exact Hc|]. intros d Hl.
      destruct (i_files t m HI _ d Hl (prefix_app _ _)) as [s [Hs E]].
      unfold phys in E. apply app_inv_head in E. symmetry in E.
      apply relphys_eq_free in E as [-> Hz]; auto.
      pose proof (i_phys t m HI r Hin) as Hp. rewrite Eg in Hp.
      unfold phys, relphys in Hp. rewrite Hz in Hp. congruence.
  - apply is_file_false; [apply probe_clean; exact Hc|]. intros d Hl.
    destruct (i_files t m HI _ d Hl (prefix_app _ _)) as [s [Hs E]].
    unfold phys in E. apply app_inv_head in E. symmetry in E.
    apply relphys_eq_free in E as [-> Hz]; auto.
    assert (existsb (path_eqb r) U = true).
    { apply existsb_exists. exists r. split; [exact Hs | apply path_eqb_refl]. }
    congruence.
Qed.

Lemma is_file_gz : forall t m r, Inv t m -> r <> [] -> cleanb r = true -> gzfree r = true ->
  is_file B t (with_gz (base c ++ r)) =
    match (if existsb (path_eqb r) U then aget m r else None) with
    | Some _ => zipped r
    | None => false
    end.
Proof.
  intros t m r HI Hr Hc Hf. rewrite with_gz_app by exact Hr.
  assert (Hcg : cleanb (base c ++ with_gz r) = true) by (apply probe_clean, cleanb_with_gz; exact Hc).
  destruct (existsb (path_eqb r) U) eqn:EU.
  - apply existsb_exists in EU as [r' [Hin E]]. apply path_eqb_eq in E. subst r'.
    destruct (aget m r) as [b|] eqn:Eg.
    + destruct (zipped r) eqn:Ez.
      * eapply lookup_is_file; [exact (i_closed t m HI) | exact Hcg |].
        pose proof (lookup_phys_file t m r b HI Hin Eg) as Hl.
        unfold phys, relphys in Hl. rewrite Ez in Hl. exact Hl.
      * apply is_file_false; [exact Hcg|]. intros d Hl.
        destruct (i_files t m HI _ d Hl (prefix_app _ _)) as [s [Hs E]].
        unfold phys in E. apply app_inv_head in E. symmetry in E.
        apply relphys_eq_gz in E as [-> Hz]; auto. congruence.
    + apply is_file_false; [exact Hcg|]. intros d Hl.
      destruct (i_files t m HI _ d Hl (prefix_app _ _)) as [s [Hs E]].
      unfold phys in E. apply app_inv_head in E. symmetry in E.
      apply relphys_eq_gz in E as [-> Hz]; auto.
      pose proof (i_phys t m HI r Hin) as Hp. rewrite Eg in Hp.
      unfold phys, relphys in Hp. rewrite Hz in Hp. congruence.
  - apply is_file_false; [exact Hcg|]. intros d Hl.
    destruct (i_files t m HI _ d Hl (prefix_app _ _)) as [s [Hs E]].
    unfold phys in E. apply app_inv_head in E. symmetry in E.
    apply relphys_eq_gz in E as [-> Hz]; auto.
    assert (existsb (path_eqb r) U = true).
    { apply existsb_exists. exists r. split; [exact Hs | apply path_eqb_refl]. }
    congruence.
Qed.

Lemma in_U_existsb : forall n, In n U -> existsb (path_eqb n) U = true.
Proof. intros n H. apply existsb_exists. exists n. split; [exact H | apply path_eqb_refl]. Qed.

Lemma not_in_U_existsb : forall n, ~ In n U -> existsb (path_eqb n) U = false.
Proof.
  intros n H. destruct (existsb (path_eqb n) U) eqn:E; [|reflexivity].
  apply existsb_exists in E as [x [Hx E]]. apply path_eqb_eq in E. subst x. contradiction.
Qed.

Lemma open_read_ok : forall t m n b, Inv t m -> In n U -> aget m n = Some b ->
  open_ B (plain []) t (phys n) MR = inr t.
Proof.
  intros t m n b HI Hn Hg. destruct (HU n Hn) as [Hne [Hcl _]].
  pose proof (lookup_phys_file t m n b HI Hn Hg) as Hl.
  assert (Hpcl : cleanb (phys n) = true).
  { unfold phys. rewrite cleanb_app, Hbase. simpl. apply relphys_clean. exact Hcl. }
  assert (Hpne : phys n <> []) by (intro E; rewrite E in Hl; discriminate).
  rewrite (open_ok B (plain []) t (phys n) MR (i_closed t m HI) Hpcl Hpne).
  - rewrite Hl. reflexivity.
  - eapply parent_dir; [exact (i_closed t m HI) | exact Hpne | exact Hl].
Qed.

(* probe on a name of the universe *)
Lemma probe_name : forall A t m n f (fail : prog B A) (k : option (path * bool) -> prog B A),
  Inv t m -> In n U ->
  run t (probe B (base c ++ n) f fail k)
  = run t (k (match aget m n with Some _ => Some (phys n, zipped n) | None => f end)).
Proof.
  intros A t m n f fail k HI Hn. destruct (HU n Hn) as [Hne [Hcl Hfr]].
  unfold probe. rewrite run_do. simpl exec_call.
  rewrite (is_file_plain t m n HI Hne Hcl Hfr), (in_U_existsb n Hn).
  destruct (aget m n) as [b|] eqn:Eg.
  - destruct (zipped n) eqn:Ez; simpl negb; cbv iota.
    + rewrite run_do. simpl exec_call.
      rewrite (is_file_gz t m n HI Hne Hcl Hfr), (in_U_existsb n Hn), Eg, Ez.
      rewrite run_do. simpl exec_call.
      assert (Hp : with_gz (base c ++ n) = phys n).
      { unfold phys, relphys. rewrite Ez. apply with_gz_app. exact Hne. }
      rewrite Hp, (open_read_ok t m n b HI Hn Eg). reflexivity.
    + rewrite run_do. simpl exec_call.
      assert (Hp : base c ++ n = phys n) by (unfold phys, relphys; rewrite Ez; reflexivity).
      rewrite Hp, (open_read_ok t m n b HI Hn Eg). reflexivity.
  - cbv iota. rewrite run_do. simpl exec_call.
    rewrite (is_file_gz t m n HI Hne Hcl Hfr), (in_U_existsb n Hn), Eg. reflexivity.
Qed.

(* probe on an other-layout path: finds nothing *)
Lemma probe_other : forall A t m o f (fail : prog B A) (k : option (path * bool) -> prog B A),
  Inv t m -> In o X ->
  run t (probe B (base c ++ o) f fail k) = run t (k f).
Proof.
  intros A t m o f fail k HI Ho. destruct (HX o Ho) as [Hnu [Hne [Hcl Hfr]]].
  unfold probe. rewrite run_do. simpl exec_call.
  rewrite (is_file_plain t m o HI Hne Hcl Hfr), (not_in_U_existsb o Hnu). cbv iota.
  rewrite run_do. simpl exec_call.
  rewrite (is_file_gz t m o HI Hne Hcl Hfr), (not_in_U_existsb o Hnu). reflexivity.
Qed.

Lemma read_refines : forall t m n b, Inv t m -> In n U -> aget m n = Some b ->
  run t (read_handle B plain gunzip (phys n) (zipped n)) = (Ok (VData (plain b)), t).
Proof.
  intros t m n b HI Hn Hg. destruct (HU n Hn) as [Hne [Hcl _]].
  pose proof (lookup_phys_file t m n b HI Hn Hg) as Hl.
  assert (Hpcl : cleanb (phys n) = true).
  { unfold phys. rewrite cleanb_app, Hbase. simpl. apply relphys_clean. exact Hcl. }
  unfold read_handle. rewrite run_do. simpl exec_call.
  rewrite (read_ok B t (phys n) _ (i_closed t m HI) Hpcl Hl).
  rewrite run_do. simpl exec_call. simpl run.
  unfold enc, gunzip_out. destruct (zipped n); [rewrite Hgz|]; reflexivity.
Qed.

Definition after_probe (f : option (path * bool)) : prog B (outcome (resval B)) :=
  match f with None => Ret AccessErr | Some (p, z) => read_handle B plain gunzip p z end.

Lemma fetch_after : forall t m n, Inv t m -> In n U ->
  run t (after_probe (match aget m n with Some _ => Some (phys n, zipped n) | None => None end))
  = (to_model (spec_fetch m n), t).
Proof.
  intros t m n HI Hn. unfold spec_fetch. destruct (aget m n) as [b|] eqn:Eg.
  - simpl after_probe. rewrite (read_refines t m n b HI Hn Eg). reflexivity.
  - reflexivity.
Qed.

(* a form that is not the one in use holds nothing *)
Lemma form_absent : forall t m n r, Inv t m -> In n U -> (r = n \/ r = with_gz n) ->
  base c ++ r <> phys n -> lookup t (base c ++ r) = None.
Proof.
  intros t m n r HI Hn Hr Hneq. destruct (HU n Hn) as [Hne [Hcl Hfr]].
  destruct (lookup t (base c ++ r)) as [[d|]|] eqn:El; [| |reflexivity]; exfalso.
  - destruct (i_files t m HI _ d El (prefix_app _ _)) as [s [Hs E]].
    unfold phys in E. apply app_inv_head in E. symmetry in E. destruct Hr as [-> | ->].
    + apply relphys_eq_free in E as [-> Hz]; auto. apply Hneq. unfold phys, relphys. rewrite Hz. reflexivity.
    + apply relphys_eq_gz in E as [-> Hz]; auto. apply Hneq. unfold phys, relphys. rewrite Hz. reflexivity.
  - assert (Hrne : r <> []) by (destruct Hr as [-> | ->]; [exact Hne | apply with_gz_nonempty; exact Hne]).
    assert (Hb : base c ++ r <> base c).
    { intro E. rewrite <- (app_nil_r (base c)) in E at 2. apply app_inv_head in E. contradiction. }
    destruct (i_dirs t m HI _ El (prefix_app _ _) Hb) as [s [Hs [Hp Hn2]]].
    apply prefix_cancel in Hp. destruct (HU s Hs) as [_ [_ Hfs]]. destruct Hr as [-> | ->].
    + assert (n = s) by (apply HPF; assumption). subst s. contradiction.
    + apply with_gz_prefix_not_free in Hp; [congruence | exact Hne].
Qed.

End STATE.

(* ---------- changing the form of names ---------- *)

(* the forms recorded for names that hold nothing are irrelevant *)
Lemma Inv_reform : forall fm fm' t m, Inv fm t m ->
  (forall s, In s U -> aget m s <> None -> fm' s = fm s) -> Inv fm' t m.
Proof.
  intros fm fm' t m HI Hsame. constructor.
  - exact (i_closed fm t m HI).
  - exact (i_dom fm t m HI).
  - intros s Hs. pose proof (i_phys fm t m HI s Hs) as Hp.
    destruct (aget m s) as [b|] eqn:Eg.
    + assert (E : fm' s = fm s) by (apply Hsame; [exact Hs | rewrite Eg; discriminate]).
      unfold phys, relphys, enc, zipped in *. rewrite E. exact Hp.
    + destruct (HU s Hs) as [Hne _].
      destruct (path_eq_dec (phys fm' s) (phys fm s)) as [E|E]; [rewrite E; exact Hp|].
      unfold phys at 1. unfold relphys, zipped.
      apply (form_absent fm t m s _ HI Hs); [destruct (fm' s); auto|].
      exact E.
  - intros q d Hl Hp. destruct (i_files fm t m HI q d Hl Hp) as [s [Hs ->]].
    exists s. split; [exact Hs|].
    pose proof (i_phys fm t m HI s Hs) as Hps. rewrite Hl in Hps.
    destruct (aget m s) as [b|] eqn:Eg; [|discriminate].
    assert (E : fm' s = fm s) by (apply Hsame; [exact Hs | rewrite Eg; discriminate]).
    unfold phys, relphys, zipped. rewrite E. reflexivity.
  - exact (i_above fm t m HI).
  - exact (i_dirs fm t m HI).
Qed.

Lemma Inv_map_ext : forall fm t m m', (forall k, aget m k = aget m' k) -> Inv fm t m -> Inv fm t m'.
Proof.
  intros fm t m m' He HI. constructor.
  - exact (i_closed fm t m HI).
  - intros n b H. rewrite <- He in H. exact (i_dom fm t m HI n b H).
  - intros n Hn. rewrite <- He. exact (i_phys fm t m HI n Hn).
  - exact (i_files fm t m HI).
  - exact (i_above fm t m HI).
  - exact (i_dirs fm t m HI).
Qed.

Definition upd (fm : path -> bool) (n : path) (z : bool) : path -> bool :=
  fun q => if path_eqb q n then z else fm q.

Definition adel (m : amap) (n : path) : amap := filter (fun e => negb (path_eqb (fst e) n)) m.

Lemma aget_adel : forall m n k, aget (adel m n) k = if path_eqb n k then None else aget m k.
Proof.
  induction m as [|[a v] m IH]; intros n k; simpl.
  - destruct (path_eqb n k); reflexivity.
  - destruct (path_eqb a n) eqn:Ean; simpl.
    + apply path_eqb_eq in Ean. subst a. rewrite IH. destruct (path_eqb n k); reflexivity.
    + rewrite IH. destruct (path_eqb a k) eqn:Eak; [|reflexivity].
      apply path_eqb_eq in Eak. subst a. rewrite (proj2 (path_eqb_neq n k)); [reflexivity|].
      apply path_eqb_neq in Ean. congruence.
Qed.

(* unlinking the file of a stored name *)
Lemma unlink_inv : forall fm t m n b z, Inv fm t m -> In n U -> aget m n = Some b ->
  Inv (upd fm n z) (remove B t (phys fm n)) (adel m n).
Proof.
  intros fm t m n b z HI Hn Hg. destruct (HU n Hn) as [Hne [Hcl Hfr]].
  destruct (phys_facts fm n Hn) as [Hpne Hpcl].
  assert (Hl : forall q, lookup (remove B t (phys fm n)) q = if path_eqb (phys fm n) q then None else lookup t q)
    by (intro q; apply lookup_remove; exact Hpne).
  assert (Hother : forall s, In s U -> s <> n -> upd fm n z s = fm s).
  { intros s Hs Hne2. unfold upd. rewrite (proj2 (path_eqb_neq s n) Hne2). reflexivity. }
  assert (Hphys_other : forall s, In s U -> s <> n -> phys (upd fm n z) s = phys fm s /\ phys fm s <> phys fm n).
  { intros s Hs Hne2. split.
    - unfold phys, relphys, zipped. rewrite (Hother s Hs Hne2). reflexivity.
    - intro E. unfold phys in E. apply app_inv_head in E. apply (relphys_inj fm) in E; auto. }
  constructor.
  - apply closed_remove; [exact (i_closed fm t m HI) | exact Hpne | exact (no_children fm t m n HI Hn)].
  - intros k v. rewrite aget_adel. destruct (path_eqb n k); [discriminate | apply (i_dom fm t m HI)].
  - intros s Hs. rewrite aget_adel, Hl. destruct (path_eqb n s) eqn:E.
    + apply path_eqb_eq in E. subst s.
      destruct (path_eqb (phys fm n) (phys (upd fm n z) n)) eqn:E2; [reflexivity|].
      apply path_eqb_neq in E2. unfold phys at 1. unfold relphys, zipped.
      apply (form_absent fm t m n _ HI Hn); [destruct (upd fm n z n); auto|].
      intro E3. apply E2. symmetry. exact E3.
    + apply path_eqb_neq in E. assert (Hsn : s <> n) by congruence.
      destruct (Hphys_other s Hs Hsn) as [E1 E2]. rewrite E1.
      rewrite (proj2 (path_eqb_neq (phys fm n) (phys fm s))) by congruence.
      pose proof (i_phys fm t m HI s Hs) as Hp. unfold enc, zipped in *. rewrite (Hother s Hs Hsn). exact Hp.
  - intros q d. rewrite Hl. destruct (path_eqb (phys fm n) q) eqn:E; [discriminate|].
    intros Hq Hp. destruct (i_files fm t m HI q d Hq Hp) as [s [Hs ->]].
    exists s. split; [exact Hs|].
    assert (Hsn : s <> n) by (intro E2; subst s; rewrite path_eqb_refl in E; discriminate).
    symmetry. apply (Hphys_other s Hs Hsn).
  - intros q d Hp. rewrite Hl. destruct (path_eqb (phys fm n) q); [discriminate | apply (i_above fm t m HI); exact Hp].
  - intros q. rewrite Hl. destruct (path_eqb (phys fm n) q); [discriminate | apply (i_dirs fm t m HI)].
Qed.

(* ---------- store: any MIME type on any name ---------- *)

Lemma store_refines : forall fm t m n buf mime ow,
  Inv fm t m -> In n U ->
  exists t' fm', run t (store_at B plain gz c (base c ++ n) buf mime ow)
             = (to_model (fst (spec_store m n buf ow)), t')
          /\ Inv fm' t' (snd (spec_store m n buf ow))
          /\ (forall r, fst (spec_store m n buf ow) = Ok r -> fm' n = gzip c && negb (exempt mime)).
Proof.
  intros fm t m n buf mime ow HI Hn.
  destruct (HU n Hn) as [Hne [Hcl Hfree]].
  assert (Hpar : parent (base c ++ n) = base c ++ removelast n)
    by (unfold parent; apply removelast_app_ne; exact Hne).
  destruct (store_prepare fm t m n HI Hn) as [t1 [Hmk [HI1 Hdir]]].
  set (zip := gzip c && negb (exempt mime)).
  set (fm' := upd fm n zip).
  assert (Hfm'n : fm' n = zip) by (unfold fm', upd; rewrite path_eqb_refl; reflexivity).
  assert (Htarget : (if zip then with_gz (base c ++ n) else base c ++ n) = phys fm' n).
  { unfold phys, relphys, zipped. rewrite Hfm'n. destruct zip; [apply with_gz_app; exact Hne | reflexivity]. }
  assert (Hdata : (if zip then gz (level c) buf else plain buf) = enc fm' n buf).
  { unfold enc, zipped. rewrite Hfm'n. reflexivity. }
  (* is the name held in the other form? *)
  assert (Hisf : is_file B t1 (if zip then base c ++ n else with_gz (base c ++ n))
                 = match aget m n with Some _ => negb (Bool.eqb (fm n) zip) | None => false end).
  { destruct zip.
    - rewrite (is_file_plain fm t1 m n HI1 Hne Hcl Hfree), (in_U_existsb n Hn).
      destruct (aget m n); [|reflexivity]. unfold zipped. destruct (fm n); reflexivity.
    - rewrite (is_file_gz fm t1 m n HI1 Hne Hcl Hfree), (in_U_existsb n Hn).
      destruct (aget m n); [|reflexivity]. unfold zipped. destruct (fm n); reflexivity. }
  unfold store_at. fold zip. rewrite Htarget, Hdata, Hpar.
  rewrite run_do. simpl exec_call. rewrite Hmk.
  rewrite run_do. simpl exec_call.
  match goal with
  | |- context [is_file B t1 ?p] =>
      replace (is_file B t1 p)
        with (match aget m n with Some _ => negb (Bool.eqb (fm n) zip) | None => false end)
        by (symmetry; exact Hisf)
  end.
  destruct (aget m n) as [old|] eqn:Eg.
  - destruct (Bool.eqb (fm n) zip) eqn:Ef; simpl negb; cbv iota.
    + (* held in the form being written *)
      apply eqb_prop in Ef.
      assert (HI1' : Inv fm' t1 m).
      { apply (Inv_reform fm fm' t1 m HI1). intros s Hs _. unfold fm', upd.
        destruct (path_eqb s n) eqn:E; [|reflexivity]. apply path_eqb_eq in E. subst s. symmetry. exact Ef. }
      destruct (write_refines fm' t1 m n buf ow HI1' Hn Hdir) as [t' [Hr HI']].
      exists t', fm'. split; [exact Hr | split; [exact HI' | intros; exact Hfm'n]].
    + (* held in the other form *)
      destruct ow.
      * (* unlink it, then write *)
        assert (Hoth : (if zip then base c ++ n else with_gz (base c ++ n)) = phys fm n).
        { unfold phys, relphys, zipped. destruct zip; destruct (fm n); try discriminate.
          - reflexivity.
          - apply with_gz_app. exact Hne. }
        match goal with
        | |- context [CUnlink ?p] => replace p with (phys fm n) by (symmetry; exact Hoth)
        end.
        rewrite run_do. simpl exec_call.
        destruct (phys_facts fm n Hn) as [Hpne Hpcl].
        rewrite (unlink_ok B t1 (phys fm n) _ (i_closed fm t1 m HI1) Hpcl (lookup_phys_file fm t1 m n old HI1 Hn Eg)).
        pose proof (unlink_inv fm t1 m n old zip HI1 Hn Eg) as HIr. fold fm' in HIr.
        assert (Hdir' : lookup (remove B t1 (phys fm n)) (base c ++ removelast n) = Some Dir).
        { rewrite lookup_remove by exact Hpne.
          destruct (path_eqb (phys fm n) (base c ++ removelast n)) eqn:E; [|exact Hdir].
          apply path_eqb_eq in E. pose proof (lookup_phys_file fm t1 m n old HI1 Hn Eg) as Hf.
          rewrite E in Hf. congruence. }
        destruct (write_refines fm' _ (adel m n) n buf true HIr Hn Hdir') as [t' [Hr HI']].
        unfold spec_store in Hr, HI'. rewrite aget_adel, path_eqb_refl in Hr, HI'. simpl in Hr, HI'.
        exists t', fm'. unfold spec_store. rewrite Eg. simpl. split; [exact Hr|]. split; [|intros; exact Hfm'n].
        apply (Inv_map_ext fm' t' (aset (adel m n) n buf)); [|exact HI'].
        intro k. rewrite !aget_aset, aget_adel. destruct (path_eqb n k); reflexivity.
      * (* FileExistsError *)
        exists t1, fm. unfold spec_store. rewrite Eg. split; [reflexivity | split; [exact HI1 | discriminate]].
  - (* not held at all *)
    cbv iota.
    assert (HI1' : Inv fm' t1 m).
    { apply (Inv_reform fm fm' t1 m HI1). intros s Hs Hsome. unfold fm', upd.
      destruct (path_eqb s n) eqn:E; [|reflexivity]. apply path_eqb_eq in E. subst s. congruence. }
    destruct (write_refines fm' t1 m n buf ow HI1' Hn Hdir) as [t' [Hr HI']].
    exists t', fm'. split; [exact Hr | split; [exact HI' | intros; exact Hfm'n]].
Qed.

(* ---------- one operation ---------- *)

Definition op_ok (o : op) : Prop :=
  match o with
  | OStoreFile n _ mime _ =>
      is_absolute n = false /\ forall p, spec_norm n = Some p -> In p U
  | OFetchFile n | OExists n =>
      is_absolute n = false /\ forall p, spec_norm n = Some p -> In p U
  | OStoreChunk k co _ mime _ =>
      k <> [] /\ is_absolute k = false /\
      forall p, spec_chunk_name (flat c) k co = Some p -> In p U
  | OFetchChunk k co =>
      k <> [] /\ is_absolute k = false /\
      forall kp, spec_key k = Some kp ->
        In (kp ++ spec_chunk_tail (flat c) co) U /\ In (kp ++ spec_chunk_tail (negb (flat c)) co) X
  end.

Lemma root_kind_rel0 : forall s, is_absolute s = false -> root_kind s = 0%nat.
Proof.
  intros s H. destruct s as [|a r]; [reflexivity|]. simpl in *.
  destruct (a =? slash) eqn:E; [|reflexivity]. unfold slash in E. congruence.
Qed.

Lemma checked_path_rel : forall s, is_absolute s = false ->
  checked_path (base c) s = option_map (app (base c)) (spec_norm s).
Proof.
  intros s H. unfold checked_path, checked_path_gen, spec_norm, rel_ok.
  rewrite (root_kind_rel0 s H), H. unfold parse_parts.
  destruct (existsb is_dotdot (filter keep_comp (split_slash s))); [reflexivity|].
  destruct (filter keep_comp (split_slash s)); reflexivity.
Qed.

Lemma op_refines : forall fm t m o, Inv fm t m -> op_ok o ->
  exists t' fm', run_op B plain gz gunzip c t o = (to_model (fst (spec_op (flat c) m o)), t')
          /\ Inv fm' t' (snd (spec_op (flat c) m o)).
Proof.
  intros fm t m o HI Hok. unfold run_op. destruct o as [n buf mime ow | n | n | k co buf mime ow | k co];
    simpl op_prog; unfold spec_op; simpl op_name.
  - (* store_file *)
    destruct Hok as [Hrel Hn]. unfold fa_store_file. rewrite (checked_path_rel n Hrel).
    destruct (spec_norm n) as [p|] eqn:Es; simpl option_map.
    + destruct (store_refines fm t m p buf mime ow HI (Hn p eq_refl)) as [t' [fm' [H1 [H2 _]]]].
      exists t', fm'. split; assumption.
    + exists t, fm. split; [reflexivity | exact HI].
  - (* fetch_file *)
    destruct Hok as [Hrel Hn]. unfold fa_fetch_file. rewrite (checked_path_rel n Hrel).
    destruct (spec_norm n) as [p|] eqn:Es; simpl option_map.
    + pose proof (Hn p eq_refl) as Hin. exists t, fm. split; [|exact HI].
      rewrite (probe_name fm _ t m p None _ _ HI Hin). simpl fst.
      exact (fetch_after fm t m p HI Hin).
    + exists t, fm. split; [reflexivity | exact HI].
  - (* file_exists *)
    destruct Hok as [Hrel Hn]. unfold fa_file_exists. rewrite (checked_path_rel n Hrel).
    destruct (spec_norm n) as [p|] eqn:Es; simpl option_map.
    + pose proof (Hn p eq_refl) as Hin. destruct (HU p Hin) as [Hne [Hcl Hfr]].
      exists t, fm. split; [|exact HI].
      rewrite run_do. simpl exec_call.
      rewrite (is_file_plain fm t m p HI Hne Hcl Hfr), (in_U_existsb p Hin).
      simpl fst. unfold spec_exists.
      destruct (aget m p) as [b|] eqn:Eg.
      * destruct (zipped fm p) eqn:Ez; simpl negb; cbv iota.
        -- rewrite run_do. simpl exec_call.
           rewrite (is_file_gz fm t m p HI Hne Hcl Hfr), (in_U_existsb p Hin), Eg, Ez. reflexivity.
        -- reflexivity.
      * cbv iota. rewrite run_do. simpl exec_call.
        rewrite (is_file_gz fm t m p HI Hne Hcl Hfr), (in_U_existsb p Hin), Eg. reflexivity.
    + exists t, fm. split; [reflexivity | exact HI].
  - (* store_chunk *)
    destruct Hok as [Hk [Ha Hn]]. unfold fa_store_chunk.
    rewrite (chunk_path_spec c (flat c) k co Hk Ha).
    destruct (spec_chunk_name (flat c) k co) as [p|] eqn:Es; simpl option_map.
    + destruct (store_refines fm t m p buf mime ow HI (Hn p eq_refl)) as [t' [fm' [H1 [H2 _]]]].
      exists t', fm'. split; assumption.
    + exists t, fm. split; [reflexivity | exact HI].
  - (* fetch_chunk *)
    destruct Hok as [Hk [Ha Hn]]. unfold fa_fetch_chunk.
    rewrite (chunk_path_spec c true k co Hk Ha), (chunk_path_spec c false k co Hk Ha).
    unfold spec_chunk_name. destruct (spec_key k) as [kp|] eqn:Es; simpl option_map.
    + destruct (Hn kp eq_refl) as [Hin Hoth].
      exists t, fm. split; [|exact HI]. simpl fst.
      destruct (flat c) eqn:Ef; simpl negb in Hoth.
      * rewrite (probe_name fm _ t m _ None _ _ HI Hin).
        rewrite (probe_other fm _ t m _ _ _ _ HI Hoth).
        exact (fetch_after fm t m _ HI Hin).
      * rewrite (probe_other fm _ t m _ None _ _ HI Hoth).
        rewrite (probe_name fm _ t m _ None _ _ HI Hin).
        exact (fetch_after fm t m _ HI Hin).
    + exists t, fm. split; [reflexivity | exact HI].
Qed.

(* ---------- every sequence ---------- *)

Theorem refinement : forall ops fm t m, Inv fm t m -> Forall op_ok ops ->
  fst (run_ops B plain gz gunzip c t ops) = map to_model (fst (spec_ops (flat c) m ops)) /\
  exists fm', Inv fm' (snd (run_ops B plain gz gunzip c t ops)) (snd (spec_ops (flat c) m ops)).
Proof.
  induction ops as [|o ops IH]; intros fm t m HI Hok.
  - simpl. split; [reflexivity | exists fm; exact HI].
  - inversion Hok as [|? ? Ho Hrest]; subst.
    destruct (op_refines fm t m o HI Ho) as [t' [fm1 [Hr HI']]].
    simpl run_ops. simpl spec_ops. rewrite Hr.
    destruct (spec_op (flat c) m o) as [x m1] eqn:Es. simpl fst in *. simpl snd in *.
    specialize (IH fm1 t' m1 HI' Hrest).
    destruct (run_ops B plain gz gunzip c t' ops) as [xs t2].
    destruct (spec_ops (flat c) m1 ops) as [ys m2]. simpl in *.
    destruct IH as [IH1 IH2]. split; [f_equal; exact IH1 | exact IH2].
Qed.

End REFINE.
