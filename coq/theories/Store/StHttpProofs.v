(* Proofs for C14: HTTP reads through the documented static server equal
   local reads (plain datasets); dispatch; status handling; the sharded HTTP
   reader never returns data. *)
From Coq Require Import NArith ZArith Arith List Bool Lia.
From NGS Require Import Val Ints StFS StFSProofs StFileAccessor StFileAccessorProofs
                        StRefineProofs StSharded StHttp.
Import ListNotations.
Open Scope N_scope.

(* ---------- URL strings ---------- *)

Definition ne_parts (s : list N) : path :=
  filter (fun c => negb (bytes_eqb c [])) (split_slash s).

Lemma ne_split_app : forall a b cur,
  filter (fun c => negb (bytes_eqb c [])) (split_slash_aux (a ++ slash :: b) cur)
  = filter (fun c => negb (bytes_eqb c [])) (split_slash_aux a cur)
    ++ filter (fun c => negb (bytes_eqb c [])) (split_slash_aux b []).
Proof.
  induction a as [|x a IH]; intros b cur.
  - simpl. destruct (negb (bytes_eqb (rev cur) [])); reflexivity.
  - simpl. destruct (x =? slash).
    + simpl. rewrite IH. destruct (negb (bytes_eqb (rev cur) [])); reflexivity.
    + apply IH.
Qed.

Lemma ne_parts_app : forall a b, ne_parts (a ++ slash :: b) = ne_parts a ++ ne_parts b.
Proof. intros. unfold ne_parts, split_slash. apply ne_split_app. Qed.

Lemma ne_parts_comp : forall k, no_slash k -> k <> [] -> ne_parts k = [k].
Proof.
  intros k Hk Hne. unfold ne_parts, split_slash. rewrite split_no_slash by exact Hk. simpl.
  destruct k; [contradiction | reflexivity].
Qed.

Lemma starts_with_app : forall a b, starts_with a (a ++ b) = true.
Proof. induction a as [|x a IH]; intro b; simpl; [reflexivity|]. rewrite N.eqb_refl. apply IH. Qed.

Lemma skipn_app_exact : forall (A : Type) (a b : list A), skipn (length a) (a ++ b) = b.
Proof. induction a; intro b; simpl; auto. Qed.

(* ---------- the rewrite rule recognises flat chunk names ---------- *)

Lemma split_on_no : forall ch a cur, Forall (fun x => x <> ch) a -> split_on ch a cur = [rev cur ++ a].
Proof.
  induction a as [|x a IH]; intros cur Ha; simpl.
  - rewrite app_nil_r. reflexivity.
  - inversion Ha; subst. destruct (N.eqb_spec x ch); [contradiction|].
    rewrite IH by assumption. simpl. rewrite <- app_assoc. reflexivity.
Qed.

Lemma split_on_at : forall ch a r cur, Forall (fun x => x <> ch) a ->
  split_on ch (a ++ ch :: r) cur = (rev cur ++ a) :: split_on ch r [].
Proof.
  induction a as [|x a IH]; intros r cur Ha; simpl.
  - rewrite N.eqb_refl, app_nil_r. reflexivity.
  - inversion Ha; subst. destruct (N.eqb_spec x ch); [contradiction|].
    rewrite IH by assumption. simpl. rewrite <- app_assoc. reflexivity.
Qed.

Lemma all_digits_iff : forall l, Forall digit l -> all_digits l = true.
Proof.
  induction l as [|x l IH]; intro H; [reflexivity|]. inversion H; subst. simpl.
  rewrite IH by assumption. unfold is_digit. destruct H2 as [Ha Hb].
  apply N.leb_le in Ha, Hb. rewrite Ha, Hb. reflexivity.
Qed.

Lemma find_byte_digits : forall l r, Forall digit l -> find_byte 45 (l ++ 45 :: r) = Some (length l).
Proof.
  induction l as [|x l IH]; intros r H; [reflexivity|]. inversion H; subst. simpl.
  destruct (N.eqb_spec x 45) as [E|E]; [subst; exfalso; apply not_digit_45; assumption|].
  rewrite IH by assumption. reflexivity.
Qed.

Lemma dec_Z_nonneg : forall z, (0 <= z)%Z -> dec_Z z = dec_N (Z.to_N z).
Proof. intros z H. unfold dec_Z. destruct (Z.ltb_spec z 0); [lia | reflexivity]. Qed.

Lemma axis_re_ok : forall a b, (0 <= a)%Z -> (0 <= b)%Z -> axis_re (spec_axis a b) = true.
Proof.
  intros a b Ha Hb. unfold axis_re, spec_axis. rewrite !dec_Z_nonneg by assumption. simpl app.
  rewrite find_byte_digits by apply dec_N_digits.
  rewrite firstn_app, firstn_all, Nat.sub_diag. simpl firstn. rewrite app_nil_r.
  replace (skipn (S (length (dec_N (Z.to_N a)))) (dec_N (Z.to_N a) ++ 45 :: dec_N (Z.to_N b)))
    with (dec_N (Z.to_N b)).
  2:{ change (45 :: dec_N (Z.to_N b)) with ([45] ++ dec_N (Z.to_N b)). rewrite app_assoc.
      replace (S (length (dec_N (Z.to_N a)))) with (length (dec_N (Z.to_N a) ++ [45]))
        by (rewrite app_length; simpl; lia).
      rewrite skipn_app_exact. reflexivity. }
  rewrite !all_digits_iff by apply dec_N_digits.
  pose proof (dec_N_nonempty (Z.to_N a)). pose proof (dec_N_nonempty (Z.to_N b)).
  destruct (dec_N (Z.to_N a)); [contradiction|]. destruct (dec_N (Z.to_N b)); [contradiction|]. reflexivity.
Qed.

Lemma spec_axis_no_usc : forall a b, (0 <= a)%Z -> (0 <= b)%Z -> Forall (fun x => x <> 95) (spec_axis a b).
Proof.
  intros a b Ha Hb. unfold spec_axis. rewrite !dec_Z_nonneg by assumption.
  assert (Hd : forall n, Forall (fun x => x <> 95) (dec_N n)).
  { intro n. eapply Forall_impl; [|apply dec_N_digits]. intros x [H1 H2]. lia. }
  apply Forall_app; split; [apply Hd|]. apply Forall_app; split; [|apply Hd].
  constructor; [lia | constructor].
Qed.

Definition nonneg (c : coords) : Prop :=
  (0 <= cx0 c /\ 0 <= cx1 c /\ 0 <= cy0 c /\ 0 <= cy1 c /\ 0 <= cz0 c /\ 0 <= cz1 c)%Z.

Lemma flat_axes_ok : forall c, nonneg c ->
  flat_axes (spec_flat_name c)
  = Some (spec_axis (cx0 c) (cx1 c), spec_axis (cy0 c) (cy1 c), spec_axis (cz0 c) (cz1 c)).
Proof.
  intros c [H1 [H2 [H3 [H4 [H5 H6]]]]]. unfold flat_axes, spec_flat_name. simpl app.
  rewrite split_on_at by (apply spec_axis_no_usc; assumption).
  rewrite split_on_at by (apply spec_axis_no_usc; assumption).
  rewrite split_on_no by (apply spec_axis_no_usc; assumption). simpl rev. simpl app.
  rewrite !axis_re_ok by assumption. reflexivity.
Qed.

Lemma rewrite_target_none : forall h l, flat_axes l = None -> rewrite_target (h ++ [l]) = h ++ [l].
Proof.
  intros h l H. unfold rewrite_target. rewrite rev_app_distr. simpl.
  destruct (rev h); [reflexivity|]. rewrite H. reflexivity.
Qed.

Lemma rewrite_target_flat : forall h l a b c, h <> [] -> flat_axes l = Some (a, b, c) ->
  rewrite_target (h ++ [l]) = h ++ [a; b; c].
Proof.
  intros h l a b c Hh H. unfold rewrite_target. rewrite rev_app_distr. simpl.
  destruct (rev h) as [|x r] eqn:E.
  - apply (f_equal (@rev _)) in E. rewrite rev_involutive in E. contradiction.
  - rewrite H. rewrite <- E, rev_involutive. reflexivity.
Qed.

Lemma rewrite_target_deep : forall (d : path) key ax ay az, flat_axes az = None ->
  rewrite_target (d ++ [key; ax; ay; az]) = (d ++ [key]) ++ [ax; ay; az].
Proof.
  intros d key ax ay az H.
  replace (d ++ [key; ax; ay; az]) with ((d ++ [key; ax; ay]) ++ [az]) by (rewrite <- app_assoc; reflexivity).
  rewrite rewrite_target_none by exact H. rewrite <- !app_assoc. reflexivity.
Qed.

Lemma rewrite_target_flat3 : forall (d : path) key l a b c, flat_axes l = Some (a, b, c) ->
  rewrite_target (d ++ [key] ++ [l]) = (d ++ [key]) ++ [a; b; c].
Proof.
  intros d key l a b c H. rewrite app_assoc. apply rewrite_target_flat; [|exact H].
  intro E. apply app_eq_nil in E as [_ E]. discriminate.
Qed.

(* ---------- HTTP == local, plain datasets ---------- *)

Section EQ.
Variable B : Type.
Variable plain : list N -> B.
Variable gz : N -> list N -> B.
Variable gunzip : B -> gzres.
Hypothesis Hgz : forall l b, gunzip (gz l b) = GzOk b.
Variable slice : B -> N -> N -> option B.

Variable c : cfg.
Variable fm : path -> bool.        (* the form in which each name is held *)
Variable U X : list path.
Hypothesis Hbase : cleanb (base c) = true.
Hypothesis HU : forall n, In n U -> n <> [] /\ cleanb n = true /\ gzfree n = true.
Hypothesis HPF : forall n m, In n U -> In m U -> prefix n m -> n = m.
Hypothesis HX : forall o, In o X -> ~ In o U /\ o <> [] /\ cleanb o = true /\ gzfree o = true.

(* the server: document root + dataset directory = the accessor's base; the
   rewrite block is configured iff the dataset is deep; gzip_static on *)
Variable sc : scfg.
Variable dpath : list N.                    (* URL path of the dataset, without trailing slash *)
Hypothesis Hroot : base c = s_root sc ++ ne_parts dpath.
Hypothesis Hrw : s_rewrite sc = negb (flat c).
Hypothesis Hgs : s_gzip_static sc = true.
Definition base_url : list N := s_origin sc ++ dpath ++ [slash].

Notation Inv := (Inv B plain gz c U fm).
Notation phys := (phys c fm).
Notation zipped := (zipped fm).

Definition out_data (o : outcome (resval B)) : outcome B :=
  match o with
  | Ok (VData d) => Ok d
  | Ok _ => Crash TypeError
  | FormatErr => FormatErr | InfoErr => InfoErr | AccessErr => AccessErr | IOErr => IOErr
  | Refused => Refused | Crash k => Crash k
  end.

Lemma has_dotdot_clean : forall p, cleanb p = true -> existsb is_dotdot p = false.
Proof.
  induction p as [|x p IH]; intro H; [reflexivity|]. simpl in *.
  apply andb_true_iff in H as [H1 H2]. apply negb_true_iff in H1. rewrite H1. simpl. apply IH, H2.
Qed.

Lemma serve_parts_target : forall t p1 p2 m0 r,
  (if s_rewrite sc then rewrite_target p1 else p1) = (if s_rewrite sc then rewrite_target p2 else p2) ->
  serve_parts B (plain []) slice sc t p1 m0 r = serve_parts B (plain []) slice sc t p2 m0 r.
Proof. intros t p1 p2 m0 r H. unfold serve_parts. rewrite H. reflexivity. Qed.

(* what the server finds for a name of the universe *)
Lemma serve_finds : forall t m n, Inv t m -> In n U ->
  serve_parts B (plain []) slice sc t (ne_parts dpath ++ n) GET None =
  match aget m n with
  | Some b => Resp 200 (zipped n) (enc B plain gz c fm n b)
  | None => Resp 404 false (plain [])
  end
  \/ s_rewrite sc = true /\ flat_axes (last n []) <> None.
Proof.
  intros t m n HI Hn. destruct (HU n Hn) as [Hne [Hcl Hfr]].
  destruct (s_rewrite sc) eqn:Erw.
  - (* rewrite on: either the last component is not a flat chunk name ... *)
    destruct (flat_axes (last n [])) eqn:Efa; [right; split; [reflexivity | discriminate]|].
    left. unfold serve_parts. rewrite Erw.
    assert (Htarget : rewrite_target (ne_parts dpath ++ n) = ne_parts dpath ++ n).
    { destruct (snoc_cases _ n) as [-> | [h [l E]]]; [contradiction|]. subst n.
      rewrite last_last in Efa. rewrite app_assoc. apply rewrite_target_none. exact Efa. }
    rewrite Htarget, Hgs, app_assoc, <- Hroot.
    clear Htarget.
    assert (Hcg : cleanb (with_gz (base c ++ n)) = true)
      by (rewrite with_gz_app by exact Hne; apply probe_clean; [exact Hbase | apply cleanb_with_gz; exact Hcl]).
    assert (Hcp : cleanb (base c ++ n) = true) by (apply probe_clean; assumption).
    unfold file_at. rewrite (has_dotdot_clean _ Hcg), (has_dotdot_clean _ Hcp).
    rewrite with_gz_app by exact Hne.
    pose proof (i_phys B plain gz c U fm t m HI n Hn) as Hph.
    unfold StRefineProofs.phys, relphys in Hph.
    destruct (aget m n) as [b|] eqn:Eg.
    + destruct (StRefineProofs.zipped fm n) eqn:Ez.
      * rewrite Hph. unfold enc. rewrite Ez. reflexivity.
      * assert (Hnone : forall d, lookup B t (base c ++ with_gz n) <> Some (File d)).
        { intros d Hl. destruct (i_files B plain gz c U fm t m HI _ d Hl (prefix_app _ _)) as [s [Hs E]].
          unfold StRefineProofs.phys in E. apply app_inv_head in E. symmetry in E.
          apply (relphys_eq_gz U HU fm) in E as [-> Hz]; auto. congruence. }
        destruct (lookup B t (base c ++ with_gz n)) as [[d|]|] eqn:El;
          [exfalso; exact (Hnone d eq_refl) | |]; rewrite Hph; unfold enc; rewrite Ez; reflexivity.
    + assert (Hnone1 : forall d, lookup B t (base c ++ with_gz n) <> Some (File d)).
      { intros d Hl. destruct (i_files B plain gz c U fm t m HI _ d Hl (prefix_app _ _)) as [s [Hs E]].
        unfold StRefineProofs.phys in E. apply app_inv_head in E. symmetry in E.
        apply (relphys_eq_gz U HU fm) in E as [-> Hz]; auto.
        rewrite Hz in Hph. congruence. }
      assert (Hnone2 : forall d, lookup B t (base c ++ n) <> Some (File d)).
      { intros d Hl. destruct (i_files B plain gz c U fm t m HI _ d Hl (prefix_app _ _)) as [s [Hs E]].
        unfold StRefineProofs.phys in E. apply app_inv_head in E. symmetry in E.
        apply (relphys_eq_free U HU fm) in E as [-> Hz]; auto.
        rewrite Hz in Hph. congruence. }
      destruct (lookup B t (base c ++ with_gz n)) as [[d|]|] eqn:El1;
        [exfalso; exact (Hnone1 d eq_refl) | |];
        (destruct (lookup B t (base c ++ n)) as [[d|]|] eqn:El2;
         [exfalso; exact (Hnone2 d eq_refl) | reflexivity | reflexivity]).
  - (* rewrite off *)
    left. unfold serve_parts. rewrite Erw, Hgs, app_assoc, <- Hroot.
    assert (Hcg : cleanb (with_gz (base c ++ n)) = true)
      by (rewrite with_gz_app by exact Hne; apply probe_clean; [exact Hbase | apply cleanb_with_gz; exact Hcl]).
    assert (Hcp : cleanb (base c ++ n) = true) by (apply probe_clean; assumption).
    unfold file_at. rewrite (has_dotdot_clean _ Hcg), (has_dotdot_clean _ Hcp).
    rewrite with_gz_app by exact Hne.
    pose proof (i_phys B plain gz c U fm t m HI n Hn) as Hph.
    unfold StRefineProofs.phys, relphys in Hph.
    destruct (aget m n) as [b|] eqn:Eg.
    + destruct (StRefineProofs.zipped fm n) eqn:Ez.
      * rewrite Hph. unfold enc. rewrite Ez. reflexivity.
      * assert (Hnone : forall d, lookup B t (base c ++ with_gz n) <> Some (File d)).
        { intros d Hl. destruct (i_files B plain gz c U fm t m HI _ d Hl (prefix_app _ _)) as [s [Hs E]].
          unfold StRefineProofs.phys in E. apply app_inv_head in E. symmetry in E.
          apply (relphys_eq_gz U HU fm) in E as [-> Hz]; auto. congruence. }
        destruct (lookup B t (base c ++ with_gz n)) as [[d|]|] eqn:El;
          [exfalso; exact (Hnone d eq_refl) | |]; rewrite Hph; unfold enc; rewrite Ez; reflexivity.
    + assert (Hnone1 : forall d, lookup B t (base c ++ with_gz n) <> Some (File d)).
      { intros d Hl. destruct (i_files B plain gz c U fm t m HI _ d Hl (prefix_app _ _)) as [s [Hs E]].
        unfold StRefineProofs.phys in E. apply app_inv_head in E. symmetry in E.
        apply (relphys_eq_gz U HU fm) in E as [-> Hz]; auto.
        rewrite Hz in Hph. congruence. }
      assert (Hnone2 : forall d, lookup B t (base c ++ n) <> Some (File d)).
      { intros d Hl. destruct (i_files B plain gz c U fm t m HI _ d Hl (prefix_app _ _)) as [s [Hs E]].
        unfold StRefineProofs.phys in E. apply app_inv_head in E. symmetry in E.
        apply (relphys_eq_free U HU fm) in E as [-> Hz]; auto.
        rewrite Hz in Hph. congruence. }
      destruct (lookup B t (base c ++ with_gz n)) as [[d|]|] eqn:El1;
        [exfalso; exact (Hnone1 d eq_refl) | |];
        (destruct (lookup B t (base c ++ n)) as [[d|]|] eqn:El2;
         [exfalso; exact (Hnone2 d eq_refl) | reflexivity | reflexivity]).
Qed.

(* the client on such a response *)
Lemma client_on_found : forall n m,
  (match (match aget m n with
          | Some b => Resp 200 (zipped n) (enc B plain gz c fm n b)
          | None => Resp 404 false (plain [])
          end) with
   | ConnErr => AccessErr
   | Resp st e body =>
       if is_error_status st then AccessErr
       else match content B plain gunzip e body with Some x => Ok x | None => AccessErr end
   end) = out_data (to_model B plain (spec_fetch m n)).
Proof.
  intros n m. unfold spec_fetch. destruct (aget m n) as [b|]; [|reflexivity].
  simpl is_error_status. cbv iota. unfold content, enc.
  destruct (StRefineProofs.zipped fm n); [rewrite Hgz|]; reflexivity.
Qed.

Lemma url_parts_rel : forall rel,
  url_to_parts sc (base_url ++ rel) = Some (ne_parts dpath ++ ne_parts rel).
Proof.
  intro rel. unfold url_to_parts, base_url. rewrite <- !app_assoc, starts_with_app, skipn_app_exact.
  f_equal. simpl app. apply ne_parts_app.
Qed.

Lemma spec_key_simple : forall k, simple_comp k = true -> spec_key k = Some [k].
Proof.
  intros k Hk. apply simple_comp_facts in Hk as [Hns [Hkeep [Hdd Hne]]].
  unfold spec_key. destruct k as [|x k'] eqn:Ek; [contradiction|]. rewrite <- Ek in *.
  assert (Ha : is_absolute k = false).
  { subst k. simpl. inversion Hns; subst. destruct (N.eqb_spec x 47); [|reflexivity].
    exfalso. apply H1. assumption. }
  rewrite Ha. unfold split_slash. rewrite split_no_slash by exact Hns. simpl rev. simpl app.
  simpl filter. rewrite Hkeep. simpl existsb. rewrite Hdd. reflexivity.
Qed.

Lemma chunk_name_simple : forall f k co, simple_comp k = true ->
  spec_chunk_name f k co = Some (spec_chunk_rel f k co).
Proof.
  intros f k co Hk. unfold spec_chunk_name. rewrite (spec_key_simple k Hk). destruct f; reflexivity.
Qed.

(* chunks: the flat URL, through the documented server, gives what the local
   accessor gives (scale keys as generated: one component) *)
Theorem http_eq_local_chunk : forall t m key co,
  Inv t m -> simple_comp key = true -> op_ok c U X (OFetchChunk key co) -> nonneg co ->
  fst (hrun B (serve B (plain []) slice sc t) 0
            (http_fetch_chunk B plain gunzip base_url key co))
  = out_data (fst (run_op B plain gz gunzip c t (OFetchChunk key co))).
Proof.
  intros t m key co HI Hk Hok Hnn. pose proof Hok as [_ [_ Hin']].
  destruct (Hin' [key] (spec_key_simple key Hk)) as [Hin Hoth].
  replace ([key] ++ spec_chunk_tail (flat c) co) with (spec_chunk_rel (flat c) key co) in Hin
    by (destruct (flat c); reflexivity).
  destruct (op_refines B plain gz gunzip Hgz c U X Hbase HU HPF HX fm t m _ HI Hok) as [t' [fm' [Hr _]]].
  rewrite Hr. unfold spec_op. simpl op_name. rewrite (chunk_name_simple (flat c) key co Hk). cbv iota. simpl fst.
  apply simple_comp_facts in Hk as [Hns [Hkeep [_ Hkne]]].
  unfold http_fetch_chunk, http_fetch_file. simpl hrun. unfold serve. simpl r_url.
  rewrite chunk_str_flat_eq, url_parts_rel, ne_parts_app.
  rewrite (ne_parts_comp key Hns Hkne).
  rewrite (ne_parts_comp _ (name_char_no_slash _ (spec_flat_name_chars co)) (spec_flat_name_nonempty co)).
  simpl r_meth. simpl r_range.
  (* the server's target is the dataset-relative configured-layout path *)
  assert (Hserve : serve_parts B (plain []) slice sc t
                     (ne_parts dpath ++ [key] ++ [spec_flat_name co]) GET None
                   = match aget m (spec_chunk_rel (flat c) key co) with
                     | Some b => Resp 200 (zipped (spec_chunk_rel (flat c) key co))
                                      (enc B plain gz c fm (spec_chunk_rel (flat c) key co) b)
                     | None => Resp 404 false (plain [])
                     end).
  { destruct (Bool.bool_dec (flat c) true) as [Ef|Ef]; [|apply not_true_is_false in Ef].
    - (* flat dataset: no rewriting *)
      destruct (serve_finds t m _ HI Hin) as [H | [H _]].
      + rewrite Ef in H |- *. simpl spec_chunk_rel in H |- *. exact H.
      + rewrite Hrw, Ef in H. discriminate.
    - (* deep dataset: the rewrite block maps the flat name to the deep path *)
      assert (Hrw' : s_rewrite sc = true) by (rewrite Hrw, Ef; reflexivity).
      destruct (serve_finds t m _ HI Hin) as [H | [_ H]].
      + rewrite Ef in H |- *. simpl spec_chunk_rel in H |- *. rewrite <- H.
        assert (Hno : flat_axes (spec_axis (cz0 co) (cz1 co)) = None).
        { unfold flat_axes. destruct Hnn as [_ [_ [_ [_ [H5 H6]]]]].
          rewrite split_on_no by (apply spec_axis_no_usc; assumption). reflexivity. }
        apply serve_parts_target. rewrite Hrw'.
        etransitivity; [apply (rewrite_target_flat3 _ _ _ _ _ _ (flat_axes_ok co Hnn))|].
        symmetry. apply rewrite_target_deep. exact Hno.
      + exfalso. apply H. rewrite Ef. simpl spec_chunk_rel. simpl last.
        unfold flat_axes. destruct Hnn as [_ [_ [_ [_ [H5 H6]]]]].
        rewrite split_on_no by (apply spec_axis_no_usc; assumption). reflexivity. }
  match goal with
  | |- context [serve_parts B ?e slice sc t ?p GET None] =>
      replace (serve_parts B e slice sc t p GET None)
        with (match aget m (spec_chunk_rel (flat c) key co) with
              | Some b => Resp 200 (StRefineProofs.zipped fm (spec_chunk_rel (flat c) key co))
                               (enc B plain gz c fm (spec_chunk_rel (flat c) key co) b)
              | None => Resp 404 false (plain [])
              end) by (symmetry; exact Hserve)
  end.
  unfold spec_fetch.
  destruct (aget m (spec_chunk_rel (flat c) key co)) as [b|]; [|reflexivity].
  simpl is_error_status. cbv iota. unfold content, enc.
  destruct (StRefineProofs.zipped fm (spec_chunk_rel (flat c) key co)); [rewrite Hgz|]; reflexivity.
Qed.

(* files (info, meshes, ...): URL-safe relative names without "." components *)
Theorem http_eq_local_file : forall t m name n,
  Inv t m -> is_absolute name = false -> spec_norm name = Some n -> ne_parts name = n -> In n U ->
  (s_rewrite sc = false \/ flat_axes (last n []) = None) ->
  fst (hrun B (serve B (plain []) slice sc t) 0 (http_fetch_file B plain gunzip base_url name))
  = out_data (fst (run_op B plain gz gunzip c t (OFetchFile name))).
Proof.
  intros t m name n HI Hrel Hsn Hnp Hin Hnr.
  assert (Hok : op_ok c U X (OFetchFile name)).
  { split; [exact Hrel|]. intros p Hp. rewrite Hsn in Hp. inversion Hp; subst. exact Hin. }
  destruct (op_refines B plain gz gunzip Hgz c U X Hbase HU HPF HX fm t m _ HI Hok) as [t' [fm' [Hr _]]].
  rewrite Hr. unfold spec_op. simpl op_name. rewrite Hsn. simpl fst.
  unfold http_fetch_file. simpl hrun. unfold serve. simpl r_url.
  rewrite url_parts_rel, Hnp. simpl r_meth. simpl r_range.
  destruct (serve_finds t m n HI Hin) as [H | [H1 H2]].
  - rewrite H. unfold spec_fetch. destruct (aget m n) as [b|]; [|reflexivity].
    simpl is_error_status. cbv iota. unfold content, enc.
    destruct (StRefineProofs.zipped fm n); [rewrite Hgz|]; reflexivity.
  - destruct Hnr as [Hnr | Hnr]; [congruence | contradiction].
Qed.

End EQ.

(* ---------- status handling ---------- *)

Section STATUS.
Variable B : Type.
Variable plain : list N -> B.
Variable gunzip : B -> gzres.

Definition failing (r : resp B) : Prop :=
  match r with ConnErr => True | Resp st _ _ => is_error_status st = true end.

Theorem fetch_status_to_error : forall (srv : server B) n bu rel,
  failing (srv n {| r_meth := GET; r_url := bu ++ rel; r_range := None |}) ->
  fst (hrun B srv n (http_fetch_file B plain gunzip bu rel)) = AccessErr.
Proof.
  intros srv n bu rel H. unfold http_fetch_file. simpl.
  destruct (srv n _) as [st e body|]; [|reflexivity]. simpl in H. rewrite H. reflexivity.
Qed.

(* the only ways to get data: a non-error status (and a decodable body) *)
Theorem fetch_ok_inv : forall (srv : server B) n bu rel d,
  fst (hrun B srv n (http_fetch_file B plain gunzip bu rel)) = Ok d ->
  exists st e body, srv n {| r_meth := GET; r_url := bu ++ rel; r_range := None |} = Resp st e body
                    /\ is_error_status st = false /\ content B plain gunzip e body = Some d.
Proof.
  intros srv n bu rel d H. unfold http_fetch_file in H. simpl in H.
  destruct (srv n _) as [st e body|]; [|discriminate].
  destruct (is_error_status st) eqn:Es; [discriminate|].
  destruct (content B plain gunzip e body) eqn:Ec; [|discriminate].
  inversion H; subst. exists st, e, body. auto.
Qed.

Theorem exists_status : forall (srv : server B) n bu rel,
  fst (hrun B srv n (http_file_exists B bu rel)) =
  match srv n {| r_meth := HEAD; r_url := bu ++ rel; r_range := None |} with
  | ConnErr => AccessErr
  | Resp st _ _ => if st =? 404 then Ok false else if is_error_status st then AccessErr else Ok true
  end.
Proof.
  intros srv n bu rel. unfold http_file_exists. simpl.
  destruct (srv n _) as [st e body|]; [|reflexivity].
  destruct (st =? 404); [reflexivity|]. destruct (is_error_status st); reflexivity.
Qed.

End STATUS.

(* ---------- dispatch ---------- *)

(* the property's reading of "the info declares sharding": at least one scale
   and every scale carries the sharded-v1 type *)
Definition spec_declares (l : list pscale) : Prop :=
  l <> [] /\ forall s, In s l -> s = SType (Some s_sharded_v1).

Lemma info_is_sharded_spec : forall l, info_is_sharded l = true <-> spec_declares l.
Proof.
  intro l. unfold info_is_sharded, spec_declares. rewrite andb_true_iff, forallb_forall. split.
  - intros [H1 H2]. split; [intro E; subst l; discriminate|].
    intros s Hs. specialize (H2 s Hs). destruct s as [| | |[t|]]; try discriminate.
    simpl in H2. apply bytes_eqb_eq in H2. subst t. reflexivity.
  - intros [H1 H2]. split; [destruct l; [contradiction | reflexivity]|].
    intros s Hs. rewrite (H2 s Hs). reflexivity.
Qed.

Section DISPATCH.
Variable B : Type.
Variable plain : list N -> B.
Variable gunzip : B -> gzres.
Variable parse_info : B -> pinfo.

Definition info_reply (r : resp B) : outcome B :=
  match r with
  | ConnErr => AccessErr
  | Resp st enc body =>
      if is_error_status st then AccessErr
      else match content B plain gunzip enc body with Some x => Ok x | None => AccessErr end
  end.

Definition sel_sharded (s : selection) : bool :=
  match s with SelShardedHttp _ | SelShardedFile _ => true | _ => false end.

(* when get_accessor_for_url returns an accessor for an http(s) URL, it is the
   sharded one exactly when the "sharding" option key is present or the info
   (first response) parses to an object that declares sharding for all scales *)
Theorem dispatch_iff : forall (srv : server B) url o bu s,
  http_init url = Ok bu ->
  fst (hrun B srv 0 (dispatch_http B plain gunzip parse_info url o)) = DOk s ->
  (sel_sharded s = true <->
   o_shard_present o = true \/
   exists d l, info_reply (srv 0%nat {| r_meth := GET; r_url := bu ++ s_info; r_range := None |}) = Ok d
               /\ parse_info d = PScales l /\ spec_declares l).
Proof.
  intros srv url o bu s Hi Hd. unfold dispatch_http in Hd. rewrite Hi in Hd.
  destruct (o_shard_present o) eqn:Eo.
  - (* forced *)
    simpl in Hd. fold (info_reply (srv 0%nat {| r_meth := GET; r_url := bu ++ s_info; r_range := None |})) in Hd.
    destruct (info_reply _) as [d| | | | | |k]; try discriminate.
    destruct (sharded_http_ctor_check (parse_info d)); try discriminate.
    inversion Hd; subst. simpl. split; auto.
  - simpl in Hd. fold (info_reply (srv 0%nat {| r_meth := GET; r_url := bu ++ s_info; r_range := None |})) in Hd.
    destruct (info_reply (srv 0%nat _)) as [d| | | | | |k] eqn:Er; simpl in Hd; try discriminate.
    + destruct (parse_info d) as [|k| |l] eqn:Ep; simpl in Hd; try discriminate.
      * inversion Hd; subst. simpl. split; [discriminate|].
        intros [H|[d' [l' [H1 [H2 _]]]]]; [discriminate|]. inversion H1; subst. congruence.
      * destruct (info_is_sharded l) eqn:Es.
        -- simpl in Hd.
           fold (info_reply (srv 1%nat {| r_meth := GET; r_url := bu ++ s_info; r_range := None |})) in Hd.
           destruct (info_reply (srv 1%nat _)) as [d2| | | | | |k2]; try discriminate.
           destruct (sharded_http_ctor_check (parse_info d2)); try discriminate.
           inversion Hd; subst. simpl. split; [|reflexivity]. intros _. right.
           exists d, l. split; [reflexivity | split; [exact Ep | apply info_is_sharded_spec; exact Es]].
        -- inversion Hd; subst. simpl. split; [discriminate|].
           intros [H|[d' [l' [H1 [H2 H3]]]]]; [discriminate|]. inversion H1; subst.
           rewrite Ep in H2. inversion H2; subst. apply info_is_sharded_spec in H3. congruence.
    + (* info not retrievable: plain accessor *)
      inversion Hd; subst. simpl. split; [discriminate|].
      intros [H|[d' [l' [H1 _]]]]; discriminate.
Qed.

End DISPATCH.

(* ---------- base URL ---------- *)

(* HttpAccessor.__init__ always yields a base URL (an empty path becomes "/") *)
Theorem http_init_total : forall url, exists bu, http_init url = Ok bu.
Proof. intro url. unfold http_init. eexists. reflexivity. Qed.

Lemma http_init_empty_path_example :
  (* "http://h:80" *)
  u_path (urlsplit [104;116;116;112;58;47;47;104;58;56;48]) = [] /\
  http_init [104;116;116;112;58;47;47;104;58;56;48]
  = Ok [104;116;116;112;58;47;47;104;58;56;48;47].
Proof. vm_compute. split; reflexivity. Qed.

(* ====================================================================== *)
(* Sharded datasets: the HTTP reader equals the local reader. *)

Section SHARDED.
Variable B : Type.
Variable plain : list N -> B.
Variable gunzip : B -> gzres.
Variable unplain : B -> option (list N).
Variable idx_decode : list N -> option (list N).
Variable locate : list (list N) -> N -> outcome (N * N).
Variable data_decode : list N -> outcome (list N).

Definition omap (o : outcome (list N)) : outcome B :=
  match o with
  | Ok b => Ok (plain b)
  | FormatErr => FormatErr | InfoErr => InfoErr | AccessErr => AccessErr
  | IOErr => IOErr | Refused => Refused | Crash k => Crash k
  end.

Lemma omap_bind : forall A (o : outcome A) (f : A -> outcome (list N)),
  omap (bind o f) = match o with
                    | Ok x => omap (f x)
                    | FormatErr => FormatErr | InfoErr => InfoErr | AccessErr => AccessErr
                    | IOErr => IOErr | Refused => Refused | Crash k => Crash k
                    end.
Proof. intros A o f. destruct o; reflexivity. Qed.

(* --- any stateless server: hs_fetch is the generic algorithm over the
   server's answers --- *)
Variable srv : server B.
Hypothesis Hstateless : forall n m r, srv n r = srv m r.

Definition http_ex (url : list N) : outcome bool :=
  match srv 0%nat {| r_meth := HEAD; r_url := url; r_range := None |} with
  | ConnErr => IOErr
  | Resp st _ _ =>
      if st =? 200 then Ok true else if st =? 404 then Ok false
      else if is_error_status st then IOErr else Ok false
  end.

Definition http_rd (su : list N) (hl : N) (legacy : bool) (off len : N) : outcome (list N) :=
  if len =? 0 then Ok [] else
  let '(suffix, o) := pick legacy hl off in
  match srv 0%nat {| r_meth := GET; r_url := su ++ suffix; r_range := Some (o, o + len - 1) |} with
  | ConnErr => IOErr
  | Resp st enc body =>
      if is_error_status st then IOErr
      else match content B plain gunzip enc body with
           | None => IOErr
           | Some c =>
               match unplain c with
               | None => Crash OutOfFuel
               | Some bytes => if lenN bytes =? len then Ok bytes else IOErr
               end
           end
  end.

Lemma ex_run : forall url (k : bool -> hprog B (outcome B)) (kp : bool -> outcome (list N)),
  (forall b n, fst (hrun B srv n (k b)) = omap (kp b)) ->
  forall n, fst (hrun B srv n (hs_file_exists B url k)) = omap (bind (http_ex url) kp).
Proof.
  intros url k kp Hk n. unfold hs_file_exists, http_ex. simpl.
  rewrite (Hstateless n 0%nat).
  destruct (srv 0%nat _) as [st e body|]; [|reflexivity].
  destruct (st =? 200); [apply Hk|]. destruct (st =? 404); [apply Hk|].
  destruct (is_error_status st); [reflexivity | apply Hk].
Qed.

Lemma rd_run : forall su legacy hl off len (k : list N -> hprog B (outcome B)) (kp : list N -> outcome (list N)),
  (forall x n, fst (hrun B srv n (k x)) = omap (kp x)) ->
  forall n, fst (hrun B srv n (hs_read_bytes B plain gunzip unplain su legacy hl off len k))
            = omap (bind (http_rd su hl legacy off len) kp).
Proof.
  intros su legacy hl off len k kp Hk n. unfold hs_read_bytes, http_rd, pick.
  destruct legacy; [destruct (off <? hl)|]; (destruct (len =? 0); [simpl; apply Hk|]);
    simpl; rewrite (Hstateless n 0%nat);
    (destruct (srv 0%nat _) as [st e body|]; [|reflexivity];
     destruct (is_error_status st); [reflexivity|];
     destruct (content B plain gunzip e body) as [x|]; [|reflexivity];
     destruct (unplain x) as [bs|]; [|reflexivity];
     destruct (lenN bs =? len); [apply Hk | reflexivity]).
Qed.

Lemma populate_run : forall ranges su legacy hl acc (k : list (list N) -> hprog B (outcome B))
                            (kp : list (list N) -> outcome (list N)),
  (forall x n, fst (hrun B srv n (k x)) = omap (kp x)) ->
  forall n, fst (hrun B srv n (hs_populate B plain gunzip unplain idx_decode su legacy hl ranges acc k))
            = omap (bind (populate_pure idx_decode (http_rd su hl) legacy hl ranges acc) kp).
Proof.
  induction ranges as [|[off en] r IH]; intros su legacy hl acc k kp Hk n; simpl.
  - apply Hk.
  - destruct ((en + two64 - off) mod two64 =? 0); [apply IH; exact Hk|].
    rewrite (rd_run su legacy hl (off + hl) _ _
               (fun raw => bind (match idx_decode raw with
                                 | None => Crash ZlibError
                                 | Some dec => match minishard_ok dec with
                                               | Ok _ => populate_pure idx_decode (http_rd su hl) legacy hl r (dec :: acc)
                                               | Crash c => Crash c
                                               | _ => IOErr end end) kp)).
    + destruct (http_rd su hl legacy (off + hl) _); reflexivity.
    + intros raw n'. destruct (idx_decode raw) as [dec|]; [|reflexivity].
      destruct (minishard_ok dec); try reflexivity. apply IH. exact Hk.
Qed.

Theorem hs_fetch_is_algo : forall scale_url shard_name hl cmc n,
  fst (hrun B srv n (hs_fetch B plain gunzip unplain idx_decode locate data_decode scale_url shard_name hl cmc))
  = omap (shard_fetch_pure idx_decode locate data_decode
            (fun suffix => http_ex ((scale_url ++ shard_name) ++ suffix))
            (http_rd (scale_url ++ shard_name) hl) IOErr hl cmc).
Proof.
  intros scale_url shard_name hl cmc n. unfold hs_fetch, shard_fetch_pure.
  set (su := scale_url ++ shard_name).
  assert (Hgo : forall legacy n',
    fst (hrun B srv n'
      (hs_read_bytes B plain gunzip unplain su legacy hl 0 hl (fun hdr =>
         hs_populate B plain gunzip unplain idx_decode su legacy hl (pairs (words64 (length hdr) hdr)) []
           (fun idxs => match locate idxs cmc with
                        | Ok (off, len) =>
                            hs_read_bytes B plain gunzip unplain su legacy hl off len (fun raw =>
                              match data_decode raw with
                              | Ok b => HRet (Ok (plain b))
                              | Crash c => HRet (Crash c)
                              | _ => HRet IOErr end)
                        | Crash c => HRet (Crash c)
                        | _ => HRet IOErr end))))
    = omap (bind (http_rd su hl legacy 0 hl) (fun hdr =>
            bind (populate_pure idx_decode (http_rd su hl) legacy hl (pairs (words64 (length hdr) hdr)) [])
              (fun idxs => match locate idxs cmc with
                           | Ok (off, len) =>
                               bind (http_rd su hl legacy off len) (fun raw =>
                                 match data_decode raw with
                                 | Ok b => Ok b
                                 | Crash c => Crash c
                                 | _ => IOErr end)
                           | Crash c => Crash c
                           | _ => IOErr end)))).
  { intros legacy n'. apply rd_run. intros hdr n1. apply populate_run. intros idxs n2.
    destruct (locate idxs cmc) as [[off len]| | | | | |c]; try reflexivity.
    apply rd_run. intros raw n3. destruct (data_decode raw); reflexivity. }
  apply ex_run. intros [|] n1; [apply Hgo|].
  apply ex_run. intros [|] n2; [|reflexivity].
  apply ex_run. intros [|] n3; [apply Hgo | reflexivity].
Qed.

End SHARDED.

(* --- the generic algorithm respects its byte source --- *)
Section ALGO_FACTS.
Variable idx_decode : list N -> option (list N).
Variable locate : list (list N) -> N -> outcome (N * N).
Variable data_decode : list N -> outcome (list N).

Lemma populate_ext : forall rd1 rd2 legacy hl, (forall o l, rd1 legacy o l = rd2 legacy o l) ->
  forall ranges acc, populate_pure idx_decode rd1 legacy hl ranges acc
                     = populate_pure idx_decode rd2 legacy hl ranges acc.
Proof.
  intros rd1 rd2 legacy hl H. induction ranges as [|[off en] r IH]; intro acc; simpl; [reflexivity|].
  destruct ((en + two64 - off) mod two64 =? 0); [apply IH|].
  rewrite H. destruct (rd2 legacy (off + hl) _); try reflexivity. simpl.
  destruct (idx_decode a) as [dec|]; [|reflexivity]. destruct (minishard_ok dec); try reflexivity. apply IH.
Qed.

Lemma algo_ext : forall ex1 ex2 rd1 rd2 missing hl cmc,
  ex1 s_shard = ex2 s_shard -> ex1 s_index = ex2 s_index -> ex1 s_data = ex2 s_data ->
  (forall lg o l, rd1 lg o l = rd2 lg o l) ->
  shard_fetch_pure idx_decode locate data_decode ex1 rd1 missing hl cmc
  = shard_fetch_pure idx_decode locate data_decode ex2 rd2 missing hl cmc.
Proof.
  intros ex1 ex2 rd1 rd2 missing hl cmc E1 E2 E3 Hr. unfold shard_fetch_pure.
  rewrite E1, E2, E3.
  assert (Hgo : forall legacy,
    bind (rd1 legacy 0 hl) (fun hdr =>
      bind (populate_pure idx_decode rd1 legacy hl (pairs (words64 (length hdr) hdr)) []) (fun idxs =>
        match locate idxs cmc with
        | Ok (off, len) => bind (rd1 legacy off len) (fun raw =>
            match data_decode raw with Ok b => Ok b | Crash c => Crash c | _ => IOErr end)
        | Crash c => Crash c | _ => IOErr end))
    = bind (rd2 legacy 0 hl) (fun hdr =>
      bind (populate_pure idx_decode rd2 legacy hl (pairs (words64 (length hdr) hdr)) []) (fun idxs =>
        match locate idxs cmc with
        | Ok (off, len) => bind (rd2 legacy off len) (fun raw =>
            match data_decode raw with Ok b => Ok b | Crash c => Crash c | _ => IOErr end)
        | Crash c => Crash c | _ => IOErr end))).
  { intro legacy. rewrite Hr. destruct (rd2 legacy 0 hl) as [hdr| | | | | |]; try reflexivity. simpl.
    rewrite (populate_ext rd1 rd2 legacy hl (Hr legacy)).
    destruct (populate_pure idx_decode rd2 legacy hl _ []) as [idxs| | | | | |]; try reflexivity. simpl.
    destruct (locate idxs cmc) as [[off len]| | | | | |]; try reflexivity. rewrite Hr. reflexivity. }
  destruct (ex2 s_shard) as [[|]| | | | | |]; try reflexivity; simpl; [apply Hgo|].
  destruct (ex2 s_index) as [[|]| | | | | |]; try reflexivity; simpl.
  destruct (ex2 s_data) as [[|]| | | | | |]; try reflexivity; simpl. apply Hgo.
Qed.

(* if a stricter source (rd1) yields data, a laxer one (rd2) yields the same *)
Lemma populate_mono : forall rd1 rd2 legacy hl,
  (forall o l x, rd1 legacy o l = Ok x -> rd2 legacy o l = Ok x) ->
  forall ranges acc r, populate_pure idx_decode rd1 legacy hl ranges acc = Ok r ->
                       populate_pure idx_decode rd2 legacy hl ranges acc = Ok r.
Proof.
  intros rd1 rd2 legacy hl H. induction ranges as [|[off en] r IH]; intros acc res; simpl; [auto|].
  destruct ((en + two64 - off) mod two64 =? 0); [apply IH|].
  destruct (rd1 legacy (off + hl) _) as [raw| | | | | |] eqn:E; try discriminate.
  rewrite (H _ _ _ E). simpl.
  destruct (idx_decode raw) as [dec|]; [|discriminate]. destruct (minishard_ok dec); try discriminate. apply IH.
Qed.

Lemma algo_mono : forall ex rd1 rd2 m1 m2 hl cmc d,
  (forall lg o l x, rd1 lg o l = Ok x -> rd2 lg o l = Ok x) ->
  (forall x, m1 = Ok x -> m2 = Ok x) ->
  shard_fetch_pure idx_decode locate data_decode ex rd1 m1 hl cmc = Ok d ->
  shard_fetch_pure idx_decode locate data_decode ex rd2 m2 hl cmc = Ok d.
Proof.
  intros ex rd1 rd2 m1 m2 hl cmc d Hr Hm. unfold shard_fetch_pure.
  assert (Hgo : forall legacy,
    bind (rd1 legacy 0 hl) (fun hdr =>
      bind (populate_pure idx_decode rd1 legacy hl (pairs (words64 (length hdr) hdr)) []) (fun idxs =>
        match locate idxs cmc with
        | Ok (off, len) => bind (rd1 legacy off len) (fun raw =>
            match data_decode raw with Ok b => Ok b | Crash c => Crash c | _ => IOErr end)
        | Crash c => Crash c | _ => IOErr end)) = Ok d ->
    bind (rd2 legacy 0 hl) (fun hdr =>
      bind (populate_pure idx_decode rd2 legacy hl (pairs (words64 (length hdr) hdr)) []) (fun idxs =>
        match locate idxs cmc with
        | Ok (off, len) => bind (rd2 legacy off len) (fun raw =>
            match data_decode raw with Ok b => Ok b | Crash c => Crash c | _ => IOErr end)
        | Crash c => Crash c | _ => IOErr end)) = Ok d).
  { intro legacy. destruct (rd1 legacy 0 hl) as [hdr| | | | | |] eqn:E0; try discriminate.
    rewrite (Hr _ _ _ _ E0). simpl.
    destruct (populate_pure idx_decode rd1 legacy hl _ []) as [idxs| | | | | |] eqn:Ep; try discriminate.
    rewrite (populate_mono rd1 rd2 legacy hl (Hr legacy) _ _ _ Ep). simpl.
    destruct (locate idxs cmc) as [[off len]| | | | | |]; try discriminate.
    destruct (rd1 legacy off len) as [raw| | | | | |] eqn:E1; try discriminate.
    rewrite (Hr _ _ _ _ E1). simpl. auto. }
  destruct (ex s_shard) as [[|]| | | | | |]; try discriminate; simpl; [apply Hgo|].
  destruct (ex s_index) as [[|]| | | | | |]; try discriminate; simpl; [|apply Hm].
  destruct (ex s_data) as [[|]| | | | | |]; try discriminate; simpl; [apply Hgo | apply Hm].
Qed.
End ALGO_FACTS.

(* --- the documented server over a tree answers like the local files --- *)
Section SERVE_SHARD.
Variable B : Type.
Variable plain : list N -> B.
Variable gunzip : B -> gzres.
Variable unplain : B -> option (list N).
Variable slice : B -> N -> N -> option B.
Hypothesis Hunplain : forall x, unplain (plain x) = Some x.
(* Range semantics of the server on an unencoded file *)
Hypothesis Hslice : forall d x a b, unplain d = Some x ->
  slice d a b = if lenN x <=? a then None
                else Some (plain (firstn (N.to_nat (b + 1 - a)) (skipn (N.to_nat a) x))).

Variable sc : scfg.
Variable t : fs B.
Variable upath : list N.            (* URL path of the scale directory, no trailing slash *)
Variable name : list N.             (* shard name (hex digits) *)
Hypothesis Hrw : s_rewrite sc = false.          (* sharded data: no rewriting *)
Hypothesis Htc : tree_closed B t.
Definition sdir : path := s_root sc ++ ne_parts upath.
Hypothesis Hclean : cleanb sdir = true.
Hypothesis Hname : no_slash name /\ name <> [].
(* "Sharded data must be served without any Content-Encoding": no
   pre-compressed twin of a shard file is picked up by gzip_static *)
Hypothesis Hnogz : forall suffix, In suffix [s_shard; s_index; s_data] ->
  file_at B t (with_gz (shard_file sdir name suffix)) = None.

(* the shard files hold plain bytes *)
Hypothesis Hplain : forall suffix d, In suffix [s_shard; s_index; s_data] ->
  lookup B t (shard_file sdir name suffix) = Some (File d) -> exists x, unplain d = Some x.

Definition scale_url : list N := s_origin sc ++ upath ++ [slash].

Lemma suffix_facts : forall suffix, In suffix [s_shard; s_index; s_data] ->
  no_slash (name ++ suffix) /\ name ++ suffix <> [] /\ is_dotdot (name ++ suffix) = false.
Proof.
  intros suffix Hs. destruct Hname as [Hn Hne]. split; [|split].
  - apply Forall_app. split; [exact Hn|].
    destruct Hs as [<-|[<-|[<-|[]]]]; repeat constructor; unfold slash; discriminate.
  - intro E. apply app_eq_nil in E as [E _]. contradiction.
  - apply bytes_eqb_neq. intro E. apply (f_equal (@length _)) in E. rewrite app_length in E.
    destruct Hs as [<-|[<-|[<-|[]]]]; simpl in E; lia.
Qed.

Lemma shard_url_parts : forall suffix, In suffix [s_shard; s_index; s_data] ->
  url_to_parts sc ((scale_url ++ name) ++ suffix) = Some (ne_parts upath ++ [name ++ suffix]).
Proof.
  intros suffix Hs. destruct (suffix_facts suffix Hs) as [H1 [H2 _]].
  assert (E : (scale_url ++ name) ++ suffix = s_origin sc ++ (upath ++ slash :: (name ++ suffix)))
    by (unfold scale_url; rewrite <- !app_assoc; reflexivity).
  unfold url_to_parts. rewrite E, starts_with_app, skipn_app_exact. f_equal.
  change (ne_parts (upath ++ slash :: (name ++ suffix)) = ne_parts upath ++ [name ++ suffix]).
  rewrite ne_parts_app, (ne_parts_comp _ H1 H2). reflexivity.
Qed.

Lemma shard_file_clean : forall suffix, In suffix [s_shard; s_index; s_data] ->
  cleanb (shard_file sdir name suffix) = true.
Proof.
  intros suffix Hs. destruct (suffix_facts suffix Hs) as [_ [_ H3]].
  unfold shard_file. rewrite cleanb_app, Hclean. simpl. rewrite H3. reflexivity.
Qed.

(* what the server finds for a shard file *)
Lemma serve_shard_found : forall suffix m rg, In suffix [s_shard; s_index; s_data] ->
  serve B (plain []) slice sc t 0%nat
        {| r_meth := m; r_url := (scale_url ++ name) ++ suffix; r_range := rg |}
  = serve_parts B (plain []) slice sc t (ne_parts upath ++ [name ++ suffix]) m rg.
Proof. intros suffix m rg Hs. unfold serve. simpl. rewrite (shard_url_parts suffix Hs). reflexivity. Qed.

Lemma found_shard : forall suffix, In suffix [s_shard; s_index; s_data] ->
  forall m rg,
  serve_parts B (plain []) slice sc t (ne_parts upath ++ [name ++ suffix]) m rg =
  match file_at B t (shard_file sdir name suffix) with
  | None => Resp 404 false (plain [])
  | Some d =>
      match m with
      | HEAD => Resp 200 false (plain [])
      | GET => match rg with
               | None => Resp 200 false d
               | Some (a, b) => if b <? a then Resp 200 false d
                                else match slice d a b with
                                     | Some s => Resp 206 false s
                                     | None => Resp 416 false (plain [])
                                     end
               end
      end
  end.
Proof.
  intros suffix Hs m rg. unfold serve_parts. rewrite Hrw.
  replace (s_root sc ++ ne_parts upath ++ [name ++ suffix]) with (shard_file sdir name suffix)
    by (unfold shard_file, sdir; rewrite app_assoc; reflexivity).
  rewrite (Hnogz suffix Hs). destruct (s_gzip_static sc);
    destruct (file_at B t (shard_file sdir name suffix)); reflexivity.
Qed.

Lemma file_at_is_file : forall p, cleanb p = true ->
  is_file B t p = match file_at B t p with Some _ => true | None => false end.
Proof.
  intros p Hc. unfold file_at. rewrite (has_dotdot_clean p Hc).
  destruct (lookup B t p) as [[d|]|] eqn:El.
  - apply (lookup_is_file B t p d Htc Hc El).
  - apply is_file_false; [exact Hc|]. intros b Hb. congruence.
  - apply is_file_false; [exact Hc|]. intros b Hb. congruence.
Qed.

(* existence probes agree *)
Lemma serve_ex_local : forall suffix, In suffix [s_shard; s_index; s_data] ->
  http_ex B (serve B (plain []) slice sc t) ((scale_url ++ name) ++ suffix)
  = local_ex B t sdir name suffix.
Proof.
  intros suffix Hs. unfold http_ex, local_ex.
  rewrite (serve_shard_found suffix HEAD None Hs), (found_shard suffix Hs).
  rewrite (file_at_is_file _ (shard_file_clean suffix Hs)).
  destruct (file_at B t (shard_file sdir name suffix)); reflexivity.
Qed.

Lemma pick_suffix : forall legacy hl off, In (fst (pick legacy hl off)) [s_shard; s_index; s_data].
Proof.
  intros legacy hl off. unfold pick. destruct legacy; [destruct (off <? hl)|]; simpl; auto.
Qed.

(* reads agree with the local seek+read, plus the length check *)
Lemma serve_rd_local : forall hl legacy off len,
  http_rd B plain gunzip unplain (serve B (plain []) slice sc t) (scale_url ++ name) hl legacy off len
  = local_rd B unplain true t sdir name hl legacy off len.
Proof.
  intros hl legacy off len. unfold http_rd, local_rd.
  destruct (N.eqb_spec len 0) as [|Hlen]; [reflexivity|].
  pose proof (pick_suffix legacy hl off) as Hs.
  destruct (pick legacy hl off) as [suffix o]. simpl in Hs.
  rewrite (serve_shard_found suffix GET _ Hs), (found_shard suffix Hs).
  unfold file_at. rewrite (has_dotdot_clean _ (shard_file_clean suffix Hs)).
  destruct (lookup B t (shard_file sdir name suffix)) as [[d|]|] eqn:El; try reflexivity.
  assert (Hba : (o + len - 1 <? o) = false) by (apply N.ltb_ge; lia).
  rewrite Hba.
  destruct (unplain d) as [x|] eqn:Eu.
  - rewrite (Hslice d x o (o + len - 1) Eu).
    replace (o + len - 1 + 1 - o) with len by lia.
    destruct (N.leb_spec (lenN x) o) as [Hle|Hgt].
    + (* range starts beyond the file: 416 *)
      replace (is_error_status 416) with true by reflexivity.
      assert (Hy : firstn (N.to_nat len) (skipn (N.to_nat o) x) = []).
      { rewrite skipn_all2; [apply firstn_nil|]. unfold lenN in Hle. lia. }
      rewrite Hy. change (lenN (@nil N)) with 0.
      destruct (N.eqb_spec 0 len); [lia | reflexivity].
    + replace (is_error_status 206) with false by reflexivity.
      unfold content. rewrite Hunplain.
      destruct (lenN (firstn (N.to_nat len) (skipn (N.to_nat o) x)) =? len); reflexivity.
  - destruct (Hplain suffix d Hs El) as [x Hx]. congruence.
Qed.

Variable idx_decode : list N -> option (list N).
Variable locate : list (list N) -> N -> outcome (N * N).
Variable data_decode : list N -> outcome (list N).

(* Sharded datasets: for a scale directory served as documented (no
   rewriting, no Content-Encoding, Range support), the chunk that the sharded
   HTTP reader returns for an identifier - HEAD probes for .shard vs legacy
   .index/.data, Range reads of the shard index and of the minishard indices,
   the lookup, the Range read of the chunk - is what the local reader's
   algorithm returns on the files, reading with a length check; a missing
   shard is an I/O error. *)
Theorem http_eq_local_sharded : forall hl cmc n,
  fst (hrun B (serve B (plain []) slice sc t) n
         (hs_fetch B plain gunzip unplain idx_decode locate data_decode scale_url name hl cmc))
  = omap B plain
      (shard_fetch_pure idx_decode locate data_decode
         (local_ex B t sdir name) (local_rd B unplain true t sdir name hl) IOErr hl cmc).
Proof.
  intros hl cmc n.
  rewrite (hs_fetch_is_algo B plain gunzip unplain idx_decode locate data_decode
             (serve B (plain []) slice sc t) (fun _ _ _ => eq_refl)).
  f_equal. apply algo_ext.
  - apply serve_ex_local. simpl. auto.
  - apply serve_ex_local. simpl. auto.
  - apply serve_ex_local. simpl. auto.
  - intros lg o l. apply serve_rd_local.
Qed.

End SERVE_SHARD.

(* the length check only ever turns data into an error: whenever the checked
   reader returns bytes, the local reader as coded (plain seek + read, a
   missing shard failing its assertion) returns the same bytes *)
Theorem sharded_checked_is_local :
  forall (B : Type) (unplain : B -> option (list N)) idx_decode locate data_decode
         (t : fs B) dir name hl cmc d,
  shard_fetch_pure idx_decode locate data_decode
    (local_ex B t dir name) (local_rd B unplain true t dir name hl) IOErr hl cmc = Ok d ->
  shard_fetch_pure idx_decode locate data_decode
    (local_ex B t dir name) (local_rd B unplain false t dir name hl) (Crash AssertionError) hl cmc = Ok d.
Proof.
  intros B unplain idx_decode locate data_decode t dir name hl cmc d.
  apply algo_mono; [|intros x Hx; discriminate].
  intros lg o l x. unfold local_rd. destruct (l =? 0); [auto|].
  destruct (pick lg hl o) as [suffix o']. destruct (lookup B t (shard_file dir name suffix)) as [[f|]|]; auto.
  destruct (unplain f) as [y|]; auto. simpl andb.
  destruct (negb (lenN (firstn (N.to_nat l) (skipn (N.to_nat o') y)) =? l)); [discriminate | auto].
Qed.

(* ... and in-bounds reads are not affected by the check *)
Lemma local_rd_in_bounds : forall (B : Type) (unplain : B -> option (list N)) (t : fs B) dir name hl lg off len f y,
  lookup B t (shard_file dir name (fst (pick lg hl off))) = Some (File f) -> unplain f = Some y ->
  snd (pick lg hl off) + len <= lenN y ->
  local_rd B unplain true t dir name hl lg off len = local_rd B unplain false t dir name hl lg off len.
Proof.
  intros B unplain t dir name hl lg off len f y Hl Hu Hb. unfold local_rd.
  destruct (len =? 0); [reflexivity|]. destruct (pick lg hl off) as [suffix o]. simpl in *.
  rewrite Hl, Hu. simpl andb.
  assert (E : lenN (firstn (N.to_nat len) (skipn (N.to_nat o) y)) = len).
  { unfold lenN in *. rewrite firstn_length, skipn_length. lia. }
  rewrite E, N.eqb_refl. reflexivity.
Qed.

(* ---------- witness: a real one-chunk shard, served ---------- *)

Definition le64 (n : N) : list N :=
  [n mod 256; (n / 256) mod 256; 0; 0; 0; 0; 0; 0].
(* minishard_bits = 0: 16-byte shard index (start 1, end 25), chunk data "A",
   minishard index (id 0, offset 0, size 1) *)
Definition w_shard : list N :=
  le64 1 ++ le64 25 ++ [65] ++ le64 0 ++ le64 0 ++ le64 1.
Definition w_site : scfg :=
  {| s_origin := [104]; s_root := []; s_rewrite := false; s_gzip_static := true |}.
Definition w_http_tree : fs blob :=
  [([[107]], Dir); ([[107]; [48;46;115;104;97;114;100]], File (BPlain w_shard))].
Definition w_slice (d : blob) (a b : N) : option blob :=
  match d with
  | BPlain x => if lenN x <=? a then None
                else Some (BPlain (firstn (N.to_nat (b + 1 - a)) (skipn (N.to_nat a) x)))
  | _ => None end.
Definition w_unplain (d : blob) : option (list N) := match d with BPlain x => Some x | _ => None end.
(* the local reader's answer for identifier 0: 1 byte at offset 16 *)
Definition w_locate (_ : list (list N)) (_ : N) : outcome (N * N) := Ok (16, 1).

Definition w_fetch : outcome blob :=
  fst (hrun blob (serve blob (BPlain []) w_slice w_site w_http_tree) 0
         (hs_fetch blob BPlain (blob_gunzip []) w_unplain (fun b => Some b) w_locate (fun b => Ok b)
                   [104;47;107;47] [48] 16 0)).
Definition w_local (checked : bool) : outcome (list N) :=
  shard_fetch_pure (fun b => Some b) w_locate (fun b => Ok b)
    (local_ex blob w_http_tree [[107]] [48]) (local_rd blob w_unplain checked w_http_tree [[107]] [48] 16)
    (if checked then IOErr else Crash AssertionError) 16 0.

Lemma http_sharded_witness :
  w_fetch = Ok (BPlain [65]) /\ w_local true = Ok [65] /\ w_local false = Ok [65].
Proof. vm_compute. repeat split. Qed.

(* a missing shard (HTTP 404 on every probe) is an I/O error *)
Definition w_all_404 : server blob := fun _ _ => Resp 404 false (BPlain []).
Lemma missing_shard_io_error :
  fst (hrun blob w_all_404 0
         (hs_fetch blob BPlain (blob_gunzip []) w_unplain (fun b => Some b) w_locate (fun b => Ok b)
                   [104;47;107;47] [48] 16 0)) = IOErr.
Proof. vm_compute. reflexivity. Qed.
