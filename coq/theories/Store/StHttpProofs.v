(* Proofs for C14: HTTP reads through the documented static server equal
   local reads (plain datasets); dispatch; status handling; the sharded HTTP
   reader never returns data. *)
From Coq Require Import NArith ZArith Arith List Bool Lia.
From NGS Require Import Val Ints StFS StFSProofs StFileAccessor StFileAccessorProofs
                        StRefineProofs StSharded StHttp.
Import ListNotations.
Open Scope N_scope.

(* ---------- URL strings ---------- *)

Definition ne_parts (s : list N) : path :=
  filter (fun c => negb (bytes_eqb c [])) (split_slash s).

Lemma ne_split_app : forall a b cur,
  filter (fun c => negb (bytes_eqb c [])) (split_slash_aux (a ++ slash :: b) cur)
  = filter (fun c => negb (bytes_eqb c [])) (split_slash_aux a cur)
    ++ filter (fun c => negb (bytes_eqb c [])) (split_slash_aux b []).
Proof.
  induction a as [|x a IH]; intros b cur.
  - simpl. destruct (negb (bytes_eqb (rev cur) [])); reflexivity.
  - simpl. destruct (x =? slash).
    + simpl. rewrite IH. destruct (negb (bytes_eqb (rev cur) [])); reflexivity.
    + apply IH.
Qed.

Lemma ne_parts_app : forall a b, ne_parts (a ++ slash :: b) = ne_parts a ++ ne_parts b.
Proof. intros. unfold ne_parts, split_slash. apply ne_split_app. Qed.

Lemma ne_parts_comp : forall k, no_slash k -> k <> [] -> ne_parts k = [k].
Proof.
  intros k Hk Hne. unfold ne_parts, split_slash. rewrite split_no_slash by exact Hk. simpl.
  destruct k; [contradiction | reflexivity].
Qed.

Lemma starts_with_app : forall a b, starts_with a (a ++ b) = true.
Proof. induction a as [|x a IH]; intro b; simpl; [reflexivity|]. rewrite N.eqb_refl. apply IH. Qed.

Lemma skipn_app_exact : forall (A : Type) (a b : list A), skipn (length a) (a ++ b) = b.
Proof. induction a; intro b; simpl; auto. Qed.

(* ---------- the rewrite rule recognises flat chunk names ---------- *)

Lemma split_on_no : forall ch a cur, Forall (fun x => x <> ch) a -> split_on ch a cur = [rev cur ++ a].
Proof.
  induction a as [|x a IH]; intros cur Ha; simpl.
  - rewrite app_nil_r. reflexivity.
  - inversion Ha; subst. destruct (N.eqb_spec x ch); [contradiction|].
    rewrite IH by assumption. simpl. rewrite <- app_assoc. reflexivity.
Qed.

Lemma split_on_at : forall ch a r cur, Forall (fun x => x <> ch) a ->
  split_on ch (a ++ ch :: r) cur = (rev cur ++ a) :: split_on ch r [].
Proof.
  induction a as [|x a IH]; intros r cur Ha; simpl.
  - rewrite N.eqb_refl, app_nil_r. reflexivity.
  - inversion Ha; subst. destruct (N.eqb_spec x ch); [contradiction|].
    rewrite IH by assumption. simpl. rewrite <- app_assoc. reflexivity.
Qed.

Lemma all_digits_iff : forall l, Forall digit l -> all_digits l = true.
Proof.
  induction l as [|x l IH]; intro H; [reflexivity|]. inversion H; subst. simpl.
  rewrite IH by assumption. unfold is_digit. destruct H2 as [Ha Hb].
  apply N.leb_le in Ha, Hb. rewrite Ha, Hb. reflexivity.
Qed.

Lemma find_byte_digits : forall l r, Forall digit l -> find_byte 45 (l ++ 45 :: r) = Some (length l).
Proof.
  induction l as [|x l IH]; intros r H; [reflexivity|]. inversion H; subst. simpl.
  destruct (N.eqb_spec x 45) as [E|E]; [subst; exfalso; apply not_digit_45; assumption|].
  rewrite IH by assumption. reflexivity.
Qed.

Lemma dec_Z_nonneg : forall z, (0 <= z)%Z -> dec_Z z = dec_N (Z.to_N z).
Proof. intros z H. unfold dec_Z. destruct (Z.ltb_spec z 0); [lia | reflexivity]. Qed.

Lemma axis_re_ok : forall a b, (0 <= a)%Z -> (0 <= b)%Z -> axis_re (spec_axis a b) = true.
Proof.
  intros a b Ha Hb. unfold axis_re, spec_axis. rewrite !dec_Z_nonneg by assumption. simpl app.
  rewrite find_byte_digits by apply dec_N_digits.
  rewrite firstn_app, firstn_all, Nat.sub_diag. simpl firstn. rewrite app_nil_r.
  replace (skipn (S (length (dec_N (Z.to_N a)))) (dec_N (Z.to_N a) ++ 45 :: dec_N (Z.to_N b)))
    with (dec_N (Z.to_N b)).
  2:{ change (45 :: dec_N (Z.to_N b)) with ([45] ++ dec_N (Z.to_N b)). rewrite app_assoc.
      replace (S (length (dec_N (Z.to_N a)))) with (length (dec_N (Z.to_N a) ++ [45]))
        by (rewrite app_length; simpl; lia).
      rewrite skipn_app_exact. reflexivity. }
  rewrite !all_digits_iff by apply dec_N_digits.
  pose proof (dec_N_nonempty (Z.to_N a)). pose proof (dec_N_nonempty (Z.to_N b)).
  destruct (dec_N (Z.to_N a)); [contradiction|]. destruct (dec_N (Z.to_N b)); [contradiction|]. reflexivity.
Qed.

Lemma spec_axis_no_usc : forall a b, (0 <= a)%Z -> (0 <= b)%Z -> Forall (fun x => x <> 95) (spec_axis a b).
Proof.
  intros a b Ha Hb. unfold spec_axis. rewrite !dec_Z_nonneg by assumption.
  assert (Hd : forall n, Forall (fun x => x <> 95) (dec_N n)).
  { intro n. eapply Forall_impl; [|apply dec_N_digits]. intros x [H1 H2]. lia. }
  apply Forall_app; split; [apply Hd|]. apply Forall_app; split; [|apply Hd].
  constructor; [lia | constructor].
Qed.

Definition nonneg (c : coords) : Prop :=
  (0 <= cx0 c /\ 0 <= cx1 c /\ 0 <= cy0 c /\ 0 <= cy1 c /\ 0 <= cz0 c /\ 0 <= cz1 c)%Z.

Lemma flat_axes_ok : forall c, nonneg c ->
  flat_axes (spec_flat_name c)
  = Some (spec_axis (cx0 c) (cx1 c), spec_axis (cy0 c) (cy1 c), spec_axis (cz0 c) (cz1 c)).
Proof.
  intros c [H1 [H2 [H3 [H4 [H5 H6]]]]]. unfold flat_axes, spec_flat_name. simpl app.
  rewrite split_on_at by (apply spec_axis_no_usc; assumption).
  rewrite split_on_at by (apply spec_axis_no_usc; assumption).
  rewrite split_on_no by (apply spec_axis_no_usc; assumption). simpl rev. simpl app.
  rewrite !axis_re_ok by assumption. reflexivity.
Qed.

Lemma rewrite_target_none : forall h l, flat_axes l = None -> rewrite_target (h ++ [l]) = h ++ [l].
Proof.
  intros h l H. unfold rewrite_target. rewrite rev_app_distr. simpl.
  destruct (rev h); [reflexivity|]. rewrite H. reflexivity.
Qed.

Lemma rewrite_target_flat : forall h l a b c, h <> [] -> flat_axes l = Some (a, b, c) ->
  rewrite_target (h ++ [l]) = h ++ [a; b; c].
Proof.
  intros h l a b c Hh H. unfold rewrite_target. rewrite rev_app_distr. simpl.
  destruct (rev h) as [|x r] eqn:E.
  - apply (f_equal (@rev _)) in E. rewrite rev_involutive in E. contradiction.
  - rewrite H. rewrite <- E, rev_involutive. reflexivity.
Qed.

Lemma rewrite_target_deep : forall (d : path) key ax ay az, flat_axes az = None ->
  rewrite_target (d ++ [key; ax; ay; az]) = (d ++ [key]) ++ [ax; ay; az].
Proof.
  intros d key ax ay az H.
  replace (d ++ [key; ax; ay; az]) with ((d ++ [key; ax; ay]) ++ [az]) by (rewrite <- app_assoc; reflexivity).
  rewrite rewrite_target_none by exact H. rewrite <- !app_assoc. reflexivity.
Qed.

Lemma rewrite_target_flat3 : forall (d : path) key l a b c, flat_axes l = Some (a, b, c) ->
  rewrite_target (d ++ [key] ++ [l]) = (d ++ [key]) ++ [a; b; c].
Proof.
  intros d key l a b c H. rewrite app_assoc. apply rewrite_target_flat; [|exact H].
  intro E. apply app_eq_nil in E as [_ E]. discriminate.
Qed.

(* ---------- HTTP == local, plain datasets ---------- *)

Section EQ.
Variable B : Type.
Variable plain : list N -> B.
Variable gz : N -> list N -> B.
Variable gunzip : B -> gzres.
Hypothesis Hgz : forall l b, gunzip (gz l b) = GzOk b.
Variable slice : B -> N -> N -> option B.

Variable c : cfg.
Variable ex : path -> bool.
Variable U X : list path.
Hypothesis Hbase : cleanb (base c) = true.
Hypothesis HU : forall n, In n U -> n <> [] /\ cleanb n = true /\ gzfree n = true.
Hypothesis HPF : forall n m, In n U -> In m U -> prefix n m -> n = m.
Hypothesis HX : forall o, In o X -> ~ In o U /\ o <> [] /\ cleanb o = true /\ gzfree o = true.

(* the server: document root + dataset directory = the accessor's base; the
   rewrite block is configured iff the dataset is deep; gzip_static on *)
Variable sc : scfg.
Variable dpath : list N.                    (* URL path of the dataset, without trailing slash *)
Hypothesis Hroot : base c = s_root sc ++ ne_parts dpath.
Hypothesis Hrw : s_rewrite sc = negb (flat c).
Hypothesis Hgs : s_gzip_static sc = true.
Definition base_url : list N := s_origin sc ++ dpath ++ [slash].

Notation Inv := (Inv B plain gz c ex U).
Notation phys := (phys c ex).
Notation zipped := (zipped c ex).

Definition out_data (o : outcome (resval B)) : outcome B :=
  match o with
  | Ok (VData d) => Ok d
  | Ok _ => Crash TypeError
  | FormatErr => FormatErr | InfoErr => InfoErr | AccessErr => AccessErr | IOErr => IOErr
  | Refused => Refused | Crash k => Crash k
  end.

Lemma has_dotdot_clean : forall p, cleanb p = true -> existsb is_dotdot p = false.
Proof.
  induction p as [|x p IH]; intro H; [reflexivity|]. simpl in *.
  apply andb_true_iff in H as [H1 H2]. apply negb_true_iff in H1. rewrite H1. simpl. apply IH, H2.
Qed.

Lemma serve_parts_target : forall t p1 p2 m0 r,
  (if s_rewrite sc then rewrite_target p1 else p1) = (if s_rewrite sc then rewrite_target p2 else p2) ->
  serve_parts B (plain []) slice sc t p1 m0 r = serve_parts B (plain []) slice sc t p2 m0 r.
Proof. intros t p1 p2 m0 r H. unfold serve_parts. rewrite H. reflexivity. Qed.

(* what the server finds for a name of the universe *)
Lemma serve_finds : forall t m n, Inv t m -> In n U ->
  serve_parts B (plain []) slice sc t (ne_parts dpath ++ n) GET None =
  match aget m n with
  | Some b => Resp 200 (zipped n) (enc B plain gz c ex n b)
  | None => Resp 404 false (plain [])
  end
  \/ s_rewrite sc = true /\ flat_axes (last n []) <> None.
Proof.
  intros t m n HI Hn. destruct (HU n Hn) as [Hne [Hcl Hfr]].
  destruct (s_rewrite sc) eqn:Erw.
  - (* rewrite on: either the last component is not a flat chunk name ... *)
    destruct (flat_axes (last n [])) eqn:Efa; [right; split; [reflexivity | discriminate]|].
    left. unfold serve_parts. rewrite Erw.
    assert (Htarget : rewrite_target (ne_parts dpath ++ n) = ne_parts dpath ++ n).
    { destruct (snoc_cases _ n) as [-> | [h [l E]]]; [contradiction|]. subst n.
      rewrite last_last in Efa. rewrite app_assoc. apply rewrite_target_none. exact Efa. }
    rewrite Htarget, Hgs, app_assoc, <- Hroot.
    clear Htarget.
    assert (Hcg : cleanb (with_gz (base c ++ n)) = true)
      by (rewrite with_gz_app by exact Hne; apply probe_clean; [exact Hbase | apply cleanb_with_gz; exact Hcl]).
    assert (Hcp : cleanb (base c ++ n) = true) by (apply probe_clean; assumption).
    unfold file_at. rewrite (has_dotdot_clean _ Hcg), (has_dotdot_clean _ Hcp).
    rewrite with_gz_app by exact Hne.
    pose proof (i_phys B plain gz c ex U t m HI n Hn) as Hph.
    unfold StRefineProofs.phys, relphys in Hph.
    destruct (aget m n) as [b|] eqn:Eg.
    + destruct (StRefineProofs.zipped c ex n) eqn:Ez.
      * rewrite Hph. unfold enc. rewrite Ez. reflexivity.
      * assert (Hnone : forall d, lookup B t (base c ++ with_gz n) <> Some (File d)).
        { intros d Hl. destruct (i_files B plain gz c ex U t m HI _ d Hl (prefix_app _ _)) as [s [Hs E]].
          unfold StRefineProofs.phys in E. apply app_inv_head in E. symmetry in E.
          apply (relphys_eq_gz c ex U HU) in E as [-> Hz]; auto. congruence. }
        destruct (lookup B t (base c ++ with_gz n)) as [[d|]|] eqn:El;
          [exfalso; exact (Hnone d eq_refl) | |]; rewrite Hph; unfold enc; rewrite Ez; reflexivity.
    + assert (Hnone1 : forall d, lookup B t (base c ++ with_gz n) <> Some (File d)).
      { intros d Hl. destruct (i_files B plain gz c ex U t m HI _ d Hl (prefix_app _ _)) as [s [Hs E]].
        unfold StRefineProofs.phys in E. apply app_inv_head in E. symmetry in E.
        apply (relphys_eq_gz c ex U HU) in E as [-> Hz]; auto.
        rewrite Hz in Hph. congruence. }
      assert (Hnone2 : forall d, lookup B t (base c ++ n) <> Some (File d)).
      { intros d Hl. destruct (i_files B plain gz c ex U t m HI _ d Hl (prefix_app _ _)) as [s [Hs E]].
        unfold StRefineProofs.phys in E. apply app_inv_head in E. symmetry in E.
        apply (relphys_eq_free c ex U HU) in E as [-> Hz]; auto.
        rewrite Hz in Hph. congruence. }
      destruct (lookup B t (base c ++ with_gz n)) as [[d|]|] eqn:El1;
        [exfalso; exact (Hnone1 d eq_refl) | |];
        (destruct (lookup B t (base c ++ n)) as [[d|]|] eqn:El2;
         [exfalso; exact (Hnone2 d eq_refl) | reflexivity | reflexivity]).
  - (* rewrite off *)
    left. unfold serve_parts. rewrite Erw, Hgs, app_assoc, <- Hroot.
    assert (Hcg : cleanb (with_gz (base c ++ n)) = true)
      by (rewrite with_gz_app by exact Hne; apply probe_clean; [exact Hbase | apply cleanb_with_gz; exact Hcl]).
    assert (Hcp : cleanb (base c ++ n) = true) by (apply probe_clean; assumption).
    unfold file_at. rewrite (has_dotdot_clean _ Hcg), (has_dotdot_clean _ Hcp).
    rewrite with_gz_app by exact Hne.
    pose proof (i_phys B plain gz c ex U t m HI n Hn) as Hph.
    unfold StRefineProofs.phys, relphys in Hph.
    destruct (aget m n) as [b|] eqn:Eg.
    + destruct (StRefineProofs.zipped c ex n) eqn:Ez.
      * rewrite Hph. unfold enc. rewrite Ez. reflexivity.
      * assert (Hnone : forall d, lookup B t (base c ++ with_gz n) <> Some (File d)).
        { intros d Hl. destruct (i_files B plain gz c ex U t m HI _ d Hl (prefix_app _ _)) as [s [Hs E]].
          unfold StRefineProofs.phys in E. apply app_inv_head in E. symmetry in E.
          apply (relphys_eq_gz c ex U HU) in E as [-> Hz]; auto. congruence. }
        destruct (lookup B t (base c ++ with_gz n)) as [[d|]|] eqn:El;
          [exfalso; exact (Hnone d eq_refl) | |]; rewrite Hph; unfold enc; rewrite Ez; reflexivity.
    + assert (Hnone1 : forall d, lookup B t (base c ++ with_gz n) <> Some (File d)).
      { intros d Hl. destruct (i_files B plain gz c ex U t m HI _ d Hl (prefix_app _ _)) as [s [Hs E]].
        unfold StRefineProofs.phys in E. apply app_inv_head in E. symmetry in E.
        apply (relphys_eq_gz c ex U HU) in E as [-> Hz]; auto.
        rewrite Hz in Hph. congruence. }
      assert (Hnone2 : forall d, lookup B t (base c ++ n) <> Some (File d)).
      { intros d Hl. destruct (i_files B plain gz c ex U t m HI _ d Hl (prefix_app _ _)) as [s [Hs E]].
        unfold StRefineProofs.phys in E. apply app_inv_head in E. symmetry in E.
        apply (relphys_eq_free c ex U HU) in E as [-> Hz]; auto.
        rewrite Hz in Hph. congruence. }
      destruct (lookup B t (base c ++ with_gz n)) as [[d|]|] eqn:El1;
        [exfalso; exact (Hnone1 d eq_refl) | |];
        (destruct (lookup B t (base c ++ n)) as [[d|]|] eqn:El2;
         [exfalso; exact (Hnone2 d eq_refl) | reflexivity | reflexivity]).
Qed.

(* the client on such a response *)
Lemma client_on_found : forall n m,
  (match (match aget m n with
          | Some b => Resp 200 (zipped n) (enc B plain gz c ex n b)
          | None => Resp 404 false (plain [])
          end) with
   | ConnErr => AccessErr
   | Resp st e body =>
       if is_error_status st then AccessErr
       else match content B plain gunzip e body with Some x => Ok x | None => AccessErr end
   end) = out_data (to_model B plain (spec_fetch m n)).
Proof.
  intros n m. unfold spec_fetch. destruct (aget m n) as [b|]; [|reflexivity].
  simpl is_error_status. cbv iota. unfold content, enc.
  destruct (StRefineProofs.zipped c ex n); [rewrite Hgz|]; reflexivity.
Qed.

Lemma url_parts_rel : forall rel,
  url_to_parts sc (base_url ++ rel) = Some (ne_parts dpath ++ ne_parts rel).
Proof.
  intro rel. unfold url_to_parts, base_url. rewrite <- !app_assoc, starts_with_app, skipn_app_exact.
  f_equal. simpl app. apply ne_parts_app.
Qed.

(* chunks: the flat URL, through the documented server, gives what the local
   accessor gives *)
Theorem http_eq_local_chunk : forall t m key co,
  Inv t m -> op_ok c ex U X (OFetchChunk key co) -> nonneg co ->
  fst (hrun B (serve B (plain []) slice sc t) 0
            (http_fetch_chunk B plain gunzip base_url key co))
  = out_data (fst (run_op B plain gz gunzip c t (OFetchChunk key co))).
Proof.
  intros t m key co HI Hok Hnn. pose proof Hok as [Hk [Hin Hoth]].
  destruct (op_refines B plain gz gunzip Hgz c ex U X Hbase HU HPF HX t m _ HI Hok) as [t' [Hr _]].
  rewrite Hr. unfold spec_op. simpl op_name. cbv iota. simpl fst.
  apply simple_comp_facts in Hk as [Hns [Hkeep [_ Hkne]]].
  unfold http_fetch_chunk, http_fetch_file. simpl hrun. unfold serve. simpl r_url.
  rewrite chunk_str_flat_eq, url_parts_rel, ne_parts_app.
  rewrite (ne_parts_comp key Hns Hkne).
  rewrite (ne_parts_comp _ (name_char_no_slash _ (spec_flat_name_chars co)) (spec_flat_name_nonempty co)).
  simpl r_meth. simpl r_range.
  (* the server's target is the dataset-relative configured-layout path *)
  assert (Hserve : serve_parts B (plain []) slice sc t
                     (ne_parts dpath ++ [key] ++ [spec_flat_name co]) GET None
                   = match aget m (spec_chunk_rel (flat c) key co) with
                     | Some b => Resp 200 (zipped (spec_chunk_rel (flat c) key co))
                                      (enc B plain gz c ex (spec_chunk_rel (flat c) key co) b)
                     | None => Resp 404 false (plain [])
                     end).
  { destruct (Bool.bool_dec (flat c) true) as [Ef|Ef]; [|apply not_true_is_false in Ef].
    - (* flat dataset: no rewriting *)
      destruct (serve_finds t m _ HI Hin) as [H | [H _]].
      + rewrite Ef in H |- *. simpl spec_chunk_rel in H |- *. exact H.
      + rewrite Hrw, Ef in H. discriminate.
    - (* deep dataset: the rewrite block maps the flat name to the deep path *)
      assert (Hrw' : s_rewrite sc = true) by (rewrite Hrw, Ef; reflexivity).
      destruct (serve_finds t m _ HI Hin) as [H | [_ H]].
      + rewrite Ef in H |- *. simpl spec_chunk_rel in H |- *. rewrite <- H.
        assert (Hno : flat_axes (spec_axis (cz0 co) (cz1 co)) = None).
        { unfold flat_axes. destruct Hnn as [_ [_ [_ [_ [H5 H6]]]]].
          rewrite split_on_no by (apply spec_axis_no_usc; assumption). reflexivity. }
        apply serve_parts_target. rewrite Hrw'.
        etransitivity; [apply (rewrite_target_flat3 _ _ _ _ _ _ (flat_axes_ok co Hnn))|].
        symmetry. apply rewrite_target_deep. exact Hno.
      + exfalso. apply H. rewrite Ef. simpl spec_chunk_rel. simpl last.
        unfold flat_axes. destruct Hnn as [_ [_ [_ [_ [H5 H6]]]]].
        rewrite split_on_no by (apply spec_axis_no_usc; assumption). reflexivity. }
  match goal with
  | |- context [serve_parts B ?e slice sc t ?p GET None] =>
      replace (serve_parts B e slice sc t p GET None)
        with (match aget m (spec_chunk_rel (flat c) key co) with
              | Some b => Resp 200 (StRefineProofs.zipped c ex (spec_chunk_rel (flat c) key co))
                               (enc B plain gz c ex (spec_chunk_rel (flat c) key co) b)
              | None => Resp 404 false (plain [])
              end) by (symmetry; exact Hserve)
  end.
  unfold spec_fetch.
  destruct (aget m (spec_chunk_rel (flat c) key co)) as [b|]; [|reflexivity].
  simpl is_error_status. cbv iota. unfold content, enc.
  destruct (StRefineProofs.zipped c ex (spec_chunk_rel (flat c) key co)); [rewrite Hgz|]; reflexivity.
Qed.

(* files (info, meshes, ...): URL-safe relative names without "." components *)
Theorem http_eq_local_file : forall t m name n,
  Inv t m -> is_absolute name = false -> spec_norm name = Some n -> ne_parts name = n -> In n U ->
  (s_rewrite sc = false \/ flat_axes (last n []) = None) ->
  fst (hrun B (serve B (plain []) slice sc t) 0 (http_fetch_file B plain gunzip base_url name))
  = out_data (fst (run_op B plain gz gunzip c t (OFetchFile name))).
Proof.
  intros t m name n HI Hrel Hsn Hnp Hin Hnr.
  assert (Hok : op_ok c ex U X (OFetchFile name)).
  { split; [exact Hrel|]. intros p Hp. rewrite Hsn in Hp. inversion Hp; subst. exact Hin. }
  destruct (op_refines B plain gz gunzip Hgz c ex U X Hbase HU HPF HX t m _ HI Hok) as [t' [Hr _]].
  rewrite Hr. unfold spec_op. simpl op_name. rewrite Hsn. simpl fst.
  unfold http_fetch_file. simpl hrun. unfold serve. simpl r_url.
  rewrite url_parts_rel, Hnp. simpl r_meth. simpl r_range.
  destruct (serve_finds t m n HI Hin) as [H | [H1 H2]].
  - rewrite H. unfold spec_fetch. destruct (aget m n) as [b|]; [|reflexivity].
    simpl is_error_status. cbv iota. unfold content, enc.
    destruct (StRefineProofs.zipped c ex n); [rewrite Hgz|]; reflexivity.
  - destruct Hnr as [Hnr | Hnr]; [congruence | contradiction].
Qed.

End EQ.

(* ---------- status handling ---------- *)

Section STATUS.
Variable B : Type.
Variable plain : list N -> B.
Variable gunzip : B -> gzres.

Definition failing (r : resp B) : Prop :=
  match r with ConnErr => True | Resp st _ _ => is_error_status st = true end.

Theorem fetch_status_to_error : forall (srv : server B) n bu rel,
  failing (srv n {| r_meth := GET; r_url := bu ++ rel; r_range := None |}) ->
  fst (hrun B srv n (http_fetch_file B plain gunzip bu rel)) = AccessErr.
Proof.
  intros srv n bu rel H. unfold http_fetch_file. simpl.
  destruct (srv n _) as [st e body|]; [|reflexivity]. simpl in H. rewrite H. reflexivity.
Qed.

(* the only ways to get data: a non-error status (and a decodable body) *)
Theorem fetch_ok_inv : forall (srv : server B) n bu rel d,
  fst (hrun B srv n (http_fetch_file B plain gunzip bu rel)) = Ok d ->
  exists st e body, srv n {| r_meth := GET; r_url := bu ++ rel; r_range := None |} = Resp st e body
                    /\ is_error_status st = false /\ content B plain gunzip e body = Some d.
Proof.
  intros srv n bu rel d H. unfold http_fetch_file in H. simpl in H.
  destruct (srv n _) as [st e body|]; [|discriminate].
  destruct (is_error_status st) eqn:Es; [discriminate|].
  destruct (content B plain gunzip e body) eqn:Ec; [|discriminate].
  inversion H; subst. exists st, e, body. auto.
Qed.

Theorem exists_status : forall (srv : server B) n bu rel,
  fst (hrun B srv n (http_file_exists B bu rel)) =
  match srv n {| r_meth := HEAD; r_url := bu ++ rel; r_range := None |} with
  | ConnErr => AccessErr
  | Resp st _ _ => if st =? 404 then Ok false else if is_error_status st then AccessErr else Ok true
  end.
Proof.
  intros srv n bu rel. unfold http_file_exists. simpl.
  destruct (srv n _) as [st e body|]; [|reflexivity].
  destruct (st =? 404); [reflexivity|]. destruct (is_error_status st); reflexivity.
Qed.

(* ---------- the sharded HTTP reader, as coded, never returns data ---------- *)

Variable unplain : B -> option (list N).
Variable idx_decode : list N -> option (list N).
Variable locate : list (list N) -> N -> outcome (N * N).
Variable data_decode : list N -> outcome (list N).

Definition never_ok (p : hprog B (outcome B)) : Prop :=
  forall (srv : server B) n d, fst (hrun B srv n p) <> Ok d.

(* stronger: every outcome is an I/O error or a crash *)
Definition err_only (p : hprog B (outcome B)) : Prop :=
  forall (srv : server B) n, exists e, fst (hrun B srv n p) = e /\ match e with Ok _ => False | _ => True end.

Lemma err_only_never : forall p, err_only p -> never_ok p.
Proof. intros p H srv n d E. destruct (H srv n) as [e [He Hn]]. rewrite E in He. subst e. exact Hn. Qed.

Lemma err_ret : forall e : outcome B, match e with Ok _ => False | _ => True end -> err_only (HRet e).
Proof. intros e H srv n. exists e. split; [reflexivity | exact H]. Qed.

Lemma err_file_exists : forall url k, (forall b, err_only (k b)) ->
  err_only (hs_file_exists B url k).
Proof.
  intros url k Hk srv n. unfold hs_file_exists. simpl.
  destruct (srv n _) as [st e body|]; [|eexists; split; [reflexivity | exact I]].
  destruct (st =? 200); [apply Hk|]. destruct (st =? 404); [apply Hk|].
  destruct (is_error_status st); [eexists; split; [reflexivity | exact I] | apply Hk].
Qed.

Lemma err_read_bytes : forall su legacy hl off len k, (forall bs, err_only (k bs)) ->
  err_only (hs_read_bytes B plain gunzip unplain su legacy hl off len k).
Proof.
  intros su legacy hl off len k Hk srv n. unfold hs_read_bytes.
  destruct (if legacy then if off <? hl then (su ++ s_index, off) else (su ++ s_data, off - hl)
            else (su ++ s_shard, off)) as [url o]. simpl.
  destruct (srv n _) as [st e body|]; [|eexists; split; [reflexivity | exact I]].
  destruct (is_error_status st); [eexists; split; [reflexivity | exact I]|].
  destruct (content B plain gunzip e body) as [x|]; [|eexists; split; [reflexivity | exact I]].
  destruct (unplain x) as [bs|]; [|eexists; split; [reflexivity | exact I]].
  destruct (lenN bs =? len); [apply Hk | eexists; split; [reflexivity | exact I]].
Qed.

Lemma err_populate : forall ranges su legacy hl acc k, (forall l, err_only (k l)) ->
  err_only (hs_populate B plain gunzip unplain idx_decode su legacy hl ranges acc k).
Proof.
  induction ranges as [|[off en] r IH]; intros su legacy hl acc k Hk; simpl.
  - apply Hk.
  - destruct ((en + two64 - off) mod two64 =? 0); [apply IH; exact Hk|].
    apply err_read_bytes. intro raw.
    destruct (idx_decode raw) as [dec|]; [|apply err_ret; exact I].
    destruct (minishard_ok dec); try (apply err_ret; exact I).
    apply IH. exact Hk.
Qed.

Theorem http_sharded_never_data : forall scale_url shard_name hl cmc,
  err_only (hs_fetch B plain gunzip unplain idx_decode locate data_decode false
                     scale_url shard_name hl cmc).
Proof.
  intros scale_url shard_name hl cmc. unfold hs_fetch.
  assert (Hgo : forall legacy,
    err_only (hs_read_bytes B plain gunzip unplain (scale_url ++ shard_name) legacy hl 0 hl
      (fun hdr => hs_populate B plain gunzip unplain idx_decode (scale_url ++ shard_name) legacy hl
                    (pairs (words64 (length hdr) hdr)) []
                    (fun idxs => if negb false then HRet (Crash AssertionError)
                                 else match locate idxs cmc with
                                      | Ok (off, len) =>
                                          hs_read_bytes B plain gunzip unplain (scale_url ++ shard_name) legacy hl off len
                                            (fun raw => match data_decode raw with
                                                        | Ok b => HRet (Ok (plain b))
                                                        | Crash c => HRet (Crash c)
                                                        | _ => HRet IOErr end)
                                      | Crash c => HRet (Crash c)
                                      | _ => HRet IOErr end)))).
  { intro legacy. apply err_read_bytes. intro hdr. apply err_populate. intro l. simpl. apply err_ret. exact I. }
  apply err_file_exists. intros [|]; [apply Hgo|].
  apply err_file_exists. intros [|]; [|apply err_ret; exact I].
  apply err_file_exists. intros [|]; [apply Hgo | apply err_ret; exact I].
Qed.

End STATUS.

(* ---------- dispatch ---------- *)

(* the property's reading of "the info declares sharding": at least one scale
   and every scale carries the sharded-v1 type *)
Definition spec_declares (l : list pscale) : Prop :=
  l <> [] /\ forall s, In s l -> s = SType (Some s_sharded_v1).

Lemma info_is_sharded_spec : forall l, info_is_sharded l = true <-> spec_declares l.
Proof.
  intro l. unfold info_is_sharded, spec_declares. rewrite andb_true_iff, forallb_forall. split.
  - intros [H1 H2]. split; [intro E; subst l; discriminate|].
    intros s Hs. specialize (H2 s Hs). destruct s as [| | |[t|]]; try discriminate.
    simpl in H2. apply bytes_eqb_eq in H2. subst t. reflexivity.
  - intros [H1 H2]. split; [destruct l; [contradiction | reflexivity]|].
    intros s Hs. rewrite (H2 s Hs). reflexivity.
Qed.

Section DISPATCH.
Variable B : Type.
Variable plain : list N -> B.
Variable gunzip : B -> gzres.
Variable parse_info : B -> pinfo.

Definition info_reply (r : resp B) : outcome B :=
  match r with
  | ConnErr => AccessErr
  | Resp st enc body =>
      if is_error_status st then AccessErr
      else match content B plain gunzip enc body with Some x => Ok x | None => AccessErr end
  end.

Definition sel_sharded (s : selection) : bool :=
  match s with SelShardedHttp _ | SelShardedFile _ => true | _ => false end.

(* when get_accessor_for_url returns an accessor for an http(s) URL, it is the
   sharded one exactly when the "sharding" option key is present or the info
   (first response) parses to an object that declares sharding for all scales *)
Theorem dispatch_iff : forall (srv : server B) url o bu s,
  http_init url = Ok bu ->
  fst (hrun B srv 0 (dispatch_http B plain gunzip parse_info url o)) = DOk s ->
  (sel_sharded s = true <->
   o_shard_present o = true \/
   exists d l, info_reply (srv 0%nat {| r_meth := GET; r_url := bu ++ s_info; r_range := None |}) = Ok d
               /\ parse_info d = PScales l /\ spec_declares l).
Proof.
  intros srv url o bu s Hi Hd. unfold dispatch_http in Hd. rewrite Hi in Hd.
  destruct (o_shard_present o) eqn:Eo.
  - (* forced *)
    simpl in Hd. fold (info_reply (srv 0%nat {| r_meth := GET; r_url := bu ++ s_info; r_range := None |})) in Hd.
    destruct (info_reply _) as [d| | | | | |k]; try discriminate.
    destruct (sharded_http_ctor_check (parse_info d)); try discriminate.
    inversion Hd; subst. simpl. split; auto.
  - simpl in Hd. fold (info_reply (srv 0%nat {| r_meth := GET; r_url := bu ++ s_info; r_range := None |})) in Hd.
    destruct (info_reply (srv 0%nat _)) as [d| | | | | |k] eqn:Er; simpl in Hd; try discriminate.
    + destruct (parse_info d) as [|k| |l] eqn:Ep; simpl in Hd; try discriminate.
      * inversion Hd; subst. simpl. split; [discriminate|].
        intros [H|[d' [l' [H1 [H2 _]]]]]; [discriminate|]. inversion H1; subst. congruence.
      * destruct (info_is_sharded l) eqn:Es.
        -- simpl in Hd.
           fold (info_reply (srv 1%nat {| r_meth := GET; r_url := bu ++ s_info; r_range := None |})) in Hd.
           destruct (info_reply (srv 1%nat _)) as [d2| | | | | |k2]; try discriminate.
           destruct (sharded_http_ctor_check (parse_info d2)); try discriminate.
           inversion Hd; subst. simpl. split; [|reflexivity]. intros _. right.
           exists d, l. split; [reflexivity | split; [exact Ep | apply info_is_sharded_spec; exact Es]].
        -- inversion Hd; subst. simpl. split; [discriminate|].
           intros [H|[d' [l' [H1 [H2 H3]]]]]; [discriminate|]. inversion H1; subst.
           rewrite Ep in H2. inversion H2; subst. apply info_is_sharded_spec in H3. congruence.
    + (* info not retrievable: plain accessor *)
      inversion Hd; subst. simpl. split; [discriminate|].
      intros [H|[d' [l' [H1 _]]]]; discriminate.
Qed.

End DISPATCH.

(* ---------- base URL ---------- *)

Theorem http_init_on_guard : forall url, u_path (urlsplit url) <> [] -> exists bu, http_init url = Ok bu.
Proof.
  intros url H. unfold http_init. destruct (rev (u_path (urlsplit url))) eqn:E.
  - apply (f_equal (@rev _)) in E. rewrite rev_involutive in E. contradiction.
  - eexists. reflexivity.
Qed.

Lemma empty_path_refuted :
  exists url, u_path (urlsplit url) = [] /\ http_init url = Crash IndexError.
Proof.
  (* "http://h:80" *)
  exists [104;116;116;112;58;47;47;104;58;56;48]. vm_compute. split; reflexivity.
Qed.

(* ---------- witness: a real shard, served; local read vs HTTP ---------- *)

Definition le64 (n : N) : list N :=
  [n mod 256; (n / 256) mod 256; 0; 0; 0; 0; 0; 0].
(* minishard_bits = 0: 16-byte shard index (start 1, end 25), chunk data "A",
   minishard index (id 0, offset 0, size 1) *)
Definition w_shard : list N :=
  le64 1 ++ le64 25 ++ [65] ++ le64 0 ++ le64 0 ++ le64 1.
Definition w_site : scfg :=
  {| s_origin := [104]; s_root := []; s_rewrite := false; s_gzip_static := true |}.
Definition w_http_tree : fs blob :=
  [([[107]], Dir); ([[107]; [48;46;115;104;97;114;100]], File (BPlain w_shard))].
Definition w_slice (d : blob) (a b : N) : option blob :=
  match d with
  | BPlain x => if lenN x <=? a then None
                else Some (BPlain (firstn (N.to_nat (b + 1 - a)) (skipn (N.to_nat a) x)))
  | _ => None end.
Definition w_unplain (d : blob) : option (list N) := match d with BPlain x => Some x | _ => None end.
(* the local reader's answer for identifier 0: 1 byte at offset 16 *)
Definition w_locate (_ : list (list N)) (_ : N) : outcome (N * N) := Ok (16, 1).

Definition w_fetch (use_ro : bool) : outcome blob :=
  fst (hrun blob (serve blob (BPlain []) w_slice w_site w_http_tree) 0
         (hs_fetch blob BPlain (blob_gunzip []) w_unplain (fun b => Some b) w_locate (fun b => Ok b)
                   use_ro [104;47;107;47] [48] 16 0)).

Lemma http_sharded_refuted_witness :
  w_fetch false = Crash AssertionError /\ w_fetch true = Ok (BPlain [65]).
Proof. vm_compute. split; reflexivity. Qed.

(* C18: a missing shard (HTTP 404 on every probe) surfaces as AssertionError,
   not as a data-access / I/O error *)
Definition w_all_404 : server blob := fun _ _ => Resp 404 false (BPlain []).
Lemma missing_shard_assertion_refuted :
  fst (hrun blob w_all_404 0
         (hs_fetch blob BPlain (blob_gunzip []) w_unplain (fun b => Some b) w_locate (fun b => Ok b)
                   false [104;47;107;47] [48] 16 0)) = Crash AssertionError.
Proof. vm_compute. reflexivity. Qed.
