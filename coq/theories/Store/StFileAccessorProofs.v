(* Proofs for C12, part A: decimal printing is injective, chunk names are
   injective, the model's chunk paths are the documented ones. *)
From Coq Require Import NArith ZArith Arith List Bool Lia.
From NGS Require Import Val Ints StFS StFSProofs StFileAccessor.
Import ListNotations.
Open Scope N_scope.

(* ---------- digits ---------- *)

Definition digit (c : N) : Prop := 48 <= c /\ c <= 57.

Definition val_digits (l : list N) (a : N) : N := fold_left (fun a d => 10 * a + (d - 48)) l a.

Lemma dec_aux_digits : forall f n acc, Forall digit acc -> Forall digit (dec_aux f n acc).
Proof.
  induction f as [|f IH]; intros n acc Ha; cbn [dec_aux]; [exact Ha|].
  assert (Hd : digit (48 + n mod 10)).
  { pose proof (N.mod_upper_bound n 10 ltac:(discriminate)) as Hm. unfold digit.
    remember (n mod 10) as r eqn:Er. clear Er. lia. }
  destruct (n <? 10); [constructor; assumption | apply IH; constructor; assumption].
Qed.

Lemma dec_aux_app : forall f n acc, exists l, dec_aux f n acc = l ++ acc /\ (f <> 0%nat -> l <> []).
Proof.
  induction f as [|f IH]; intros n acc; cbn [dec_aux].
  - exists []. split; [reflexivity | intro H; contradiction].
  - destruct (n <? 10).
    + exists [48 + n mod 10]. split; [reflexivity | intros _; discriminate].
    + destruct (IH (n / 10) ((48 + n mod 10) :: acc)) as [l [Hl _]].
      exists (l ++ [48 + n mod 10]). rewrite Hl, <- app_assoc. split; [reflexivity|].
      intros _ E. apply app_eq_nil in E as [_ E]. discriminate.
Qed.

Lemma dec_aux_val : forall f n acc, n < 2 ^ N.of_nat f -> f <> 0%nat ->
  val_digits (dec_aux f n acc) 0 = val_digits acc n.
Proof.
  induction f as [|f IH]; intros n acc Hn Hf; [contradiction|].
  cbn [dec_aux]. destruct (N.ltb_spec n 10) as [Hlt|Hge].
  - unfold val_digits. cbn [fold_left]. f_equal. rewrite N.mod_small by exact Hlt. lia.
  - assert (Hf' : f <> 0%nat).
    { intro E. subst f. simpl in Hn. lia. }
    rewrite IH; [|  | exact Hf'].
    + unfold val_digits. cbn [fold_left]. f_equal.
      pose proof (N.div_mod n 10 ltac:(discriminate)) as Hdm.
      remember (n / 10) as q eqn:Eq. remember (n mod 10) as r eqn:Er. clear Eq Er. lia.
    + rewrite Nat2N.inj_succ, N.pow_succ_r' in Hn.
      apply N.div_lt_upper_bound; [discriminate|].
      remember (2 ^ N.of_nat f) as pw eqn:Ep. clear Ep. lia.
Qed.

Lemma dec_N_fuel : forall n, n < 2 ^ N.of_nat (S (N.to_nat (N.log2 n))).
Proof.
  intro n. rewrite Nat2N.inj_succ, N2Nat.id.
  destruct n as [|p]; [reflexivity|]. apply N.log2_spec. reflexivity.
Qed.

Lemma dec_N_val : forall n, val_digits (dec_N n) 0 = n.
Proof.
  intro n. unfold dec_N. rewrite dec_aux_val; [reflexivity | apply dec_N_fuel | discriminate].
Qed.

Lemma dec_N_inj : forall a b, dec_N a = dec_N b -> a = b.
Proof. intros a b H. rewrite <- (dec_N_val a), <- (dec_N_val b), H. reflexivity. Qed.

Lemma dec_N_digits : forall n, Forall digit (dec_N n).
Proof. intro n. apply dec_aux_digits. constructor. Qed.

Lemma dec_N_nonempty : forall n, dec_N n <> [].
Proof.
  intro n. unfold dec_N. destruct (dec_aux_app (S (N.to_nat (N.log2 n))) n []) as [l [Hl Hne]].
  rewrite Hl, app_nil_r. apply Hne. discriminate.
Qed.

(* a run of digits followed by a non-digit splits uniquely *)
Lemma digits_split : forall l1 l2 c1 c2 r1 r2,
  Forall digit l1 -> Forall digit l2 -> ~ digit c1 -> ~ digit c2 ->
  l1 ++ c1 :: r1 = l2 ++ c2 :: r2 -> l1 = l2 /\ c1 :: r1 = c2 :: r2.
Proof.
  induction l1 as [|x l1 IH]; intros l2 c1 c2 r1 r2 H1 H2 Hc1 Hc2 E.
  - destruct l2 as [|y l2]; [split; [reflexivity | exact E]|].
    simpl in E. inversion E; subst. inversion H2; subst. contradiction.
  - destruct l2 as [|y l2].
    + simpl in E. inversion E; subst. inversion H1; subst. contradiction.
    + simpl in E. inversion E; subst. inversion H1; inversion H2; subst.
      destruct (IH l2 c1 c2 r1 r2) as [-> Hr]; auto.
Qed.

Lemma digits_end : forall l1 l2 c r,
  Forall digit l1 -> Forall digit l2 -> ~ digit c -> l1 = l2 ++ c :: r -> False.
Proof.
  intros l1 l2 c r H1 H2 Hc E. subst l1.
  apply Forall_app in H1 as [_ H1]. inversion H1; subst. contradiction.
Qed.

Lemma not_digit_45 : ~ digit 45. Proof. unfold digit. lia. Qed.
Lemma not_digit_95 : ~ digit 95. Proof. unfold digit. lia. Qed.
Lemma not_digit_47 : ~ digit 47. Proof. unfold digit. lia. Qed.

Lemma dec_Z_split : forall a b c1 c2 r1 r2, ~ digit c1 -> ~ digit c2 ->
  dec_Z a ++ c1 :: r1 = dec_Z b ++ c2 :: r2 -> a = b /\ c1 :: r1 = c2 :: r2.
Proof.
  intros a b c1 c2 r1 r2 Hc1 Hc2 E. unfold dec_Z in E.
  destruct (Z.ltb_spec a 0) as [Ha|Ha]; destruct (Z.ltb_spec b 0) as [Hb|Hb].
  - simpl in E. inversion E as [E'].
    apply digits_split in E' as [E1 E2]; try apply dec_N_digits; auto.
    apply dec_N_inj in E1. split; [lia | exact E2].
  - exfalso. pose proof (dec_N_digits (Z.to_N b)) as Hd. pose proof (dec_N_nonempty (Z.to_N b)) as Hn.
    destruct (dec_N (Z.to_N b)) as [|y l]; [contradiction|]. simpl in E. inversion E; subst.
    inversion Hd; subst. apply not_digit_45. assumption.
  - exfalso. pose proof (dec_N_digits (Z.to_N a)) as Hd. pose proof (dec_N_nonempty (Z.to_N a)) as Hn.
    destruct (dec_N (Z.to_N a)) as [|y l]; [contradiction|]. simpl in E. inversion E; subst.
    inversion Hd; subst. apply not_digit_45. assumption.
  - apply digits_split in E as [E1 E2]; try apply dec_N_digits; auto.
    apply dec_N_inj in E1. split; [lia | exact E2].
Qed.

Lemma dec_Z_inj : forall a b, dec_Z a = dec_Z b -> a = b.
Proof.
  intros a b E. assert (E' : dec_Z a ++ 45 :: [] = dec_Z b ++ 45 :: []) by (rewrite E; reflexivity).
  apply dec_Z_split in E' as [H _]; auto using not_digit_45.
Qed.

(* characters of a printed integer: digits or '-' *)
Definition name_char (c : N) : Prop := digit c \/ c = 45 \/ c = 95.

Lemma dec_Z_chars : forall z, Forall name_char (dec_Z z).
Proof.
  intro z. unfold dec_Z. destruct (z <? 0)%Z.
  - constructor; [right; left; reflexivity|].
    eapply Forall_impl; [|apply dec_N_digits]. intros c H. left. exact H.
  - eapply Forall_impl; [|apply dec_N_digits]. intros c H. left. exact H.
Qed.

Lemma dec_Z_nonempty : forall z, dec_Z z <> [].
Proof.
  intro z. unfold dec_Z. destruct (z <? 0)%Z; [discriminate | apply dec_N_nonempty].
Qed.

(* ---------- chunk names ---------- *)

Lemma spec_axis_split : forall a b a' b' c c' r r', ~ digit c -> ~ digit c' ->
  spec_axis a b ++ c :: r = spec_axis a' b' ++ c' :: r' -> a = a' /\ b = b' /\ c :: r = c' :: r'.
Proof.
  intros a b a' b' c c' r r' Hc Hc' E. unfold spec_axis in E.
  repeat rewrite <- app_assoc in E. simpl in E.
  apply dec_Z_split in E as [-> E]; auto using not_digit_45. inversion E as [E'].
  apply dec_Z_split in E' as [-> E']; auto.
Qed.

Lemma spec_axis_inj : forall a b a' b', spec_axis a b = spec_axis a' b' -> a = a' /\ b = b'.
Proof.
  intros a b a' b' E.
  assert (E' : spec_axis a b ++ 47 :: [] = spec_axis a' b' ++ 47 :: []) by (rewrite E; reflexivity).
  apply spec_axis_split in E' as [-> [-> _]]; auto using not_digit_47.
Qed.

Lemma coords_eq : forall c c',
  cx0 c = cx0 c' -> cx1 c = cx1 c' -> cy0 c = cy0 c' -> cy1 c = cy1 c' ->
  cz0 c = cz0 c' -> cz1 c = cz1 c' -> c = c'.
Proof. intros [] []; simpl; intros; subst; reflexivity. Qed.

Lemma spec_flat_name_inj : forall c c', spec_flat_name c = spec_flat_name c' -> c = c'.
Proof.
  intros c c' E. unfold spec_flat_name in E. repeat rewrite <- app_assoc in E. simpl in E.
  apply spec_axis_split in E as [H1 [H2 E]]; auto using not_digit_95. inversion E as [E'].
  apply spec_axis_split in E' as [H3 [H4 E']]; auto using not_digit_95. inversion E' as [E''].
  apply spec_axis_inj in E'' as [H5 H6]. apply coords_eq; assumption.
Qed.

Lemma spec_chunk_rel_inj : forall f k c k' c',
  spec_chunk_rel f k c = spec_chunk_rel f k' c' -> k = k' /\ c = c'.
Proof.
  intros f k c k' c' E. destruct f; simpl in E.
  - inversion E as [[Hk Hn]]. apply spec_flat_name_inj in Hn. auto.
  - inversion E as [[Hk H1 H2 H3]].
    apply spec_axis_inj in H1 as [? ?], H2 as [? ?], H3 as [? ?]. split; [reflexivity|].
    apply coords_eq; assumption.
Qed.

(* ---------- parsing the formatted string ---------- *)

Definition no_slash (l : list N) : Prop := Forall (fun c => c <> slash) l.

Lemma split_no_slash : forall a cur, no_slash a -> split_slash_aux a cur = [rev cur ++ a].
Proof.
  induction a as [|x a IH]; intros cur Ha; simpl.
  - rewrite app_nil_r. reflexivity.
  - inversion Ha; subst. destruct (N.eqb_spec x slash) as [E|E]; [contradiction|].
    rewrite IH by assumption. simpl. rewrite <- app_assoc. reflexivity.
Qed.

Lemma split_at_slash : forall a r cur, no_slash a ->
  split_slash_aux (a ++ slash :: r) cur = (rev cur ++ a) :: split_slash_aux r [].
Proof.
  induction a as [|x a IH]; intros r cur Ha; simpl.
  - rewrite app_nil_r. reflexivity.
  - inversion Ha; subst. destruct (N.eqb_spec x slash) as [E|E]; [contradiction|].
    rewrite IH by assumption. simpl. rewrite <- app_assoc. reflexivity.
Qed.

Lemma name_char_no_slash : forall l, Forall name_char l -> no_slash l.
Proof.
  intros l H. eapply Forall_impl; [|exact H]. intros c [[H1 H2]|[->| ->]]; unfold slash; lia.
Qed.

Lemma spec_axis_chars : forall a b, Forall name_char (spec_axis a b).
Proof.
  intros a b. unfold spec_axis. apply Forall_app. split; [apply dec_Z_chars|].
  apply Forall_app. split; [constructor; [right; left; reflexivity | constructor] | apply dec_Z_chars].
Qed.

Lemma spec_flat_name_chars : forall c, Forall name_char (spec_flat_name c).
Proof.
  intro c. unfold spec_flat_name.
  assert (Hu : Forall name_char [95]) by (constructor; [right; right; reflexivity | constructor]).
  apply Forall_app; split; [apply spec_axis_chars|].
  apply Forall_app; split; [exact Hu|].
  apply Forall_app; split; [apply spec_axis_chars|].
  apply Forall_app; split; [exact Hu | apply spec_axis_chars].
Qed.

Lemma keep_name : forall l, Forall name_char l -> l <> [] -> keep_comp l = true.
Proof.
  intros l H Hne. destruct l as [|x l]; [contradiction|]. unfold keep_comp.
  apply negb_true_iff. apply bytes_eqb_neq. intro E. inversion E; subst.
  inversion H as [|? ? Hx Hl]; subst. destruct Hx as [[Ha Hb]|[Ha|Ha]]; lia.
Qed.

Lemma spec_axis_nonempty : forall a b, spec_axis a b <> [].
Proof.
  intros a b E. unfold spec_axis in E. apply app_eq_nil in E as [E _]. exact (dec_Z_nonempty a E).
Qed.

Lemma spec_flat_name_nonempty : forall c, spec_flat_name c <> [].
Proof.
  intros c E. unfold spec_flat_name in E. apply app_eq_nil in E as [E _]. exact (spec_axis_nonempty _ _ E).
Qed.

Lemma simple_comp_facts : forall k, simple_comp k = true ->
  no_slash k /\ keep_comp k = true /\ is_dotdot k = false /\ k <> [].
Proof.
  intros k H. unfold simple_comp in H.
  apply andb_true_iff in H as [H H3]. apply andb_true_iff in H as [H1 H2].
  apply negb_true_iff in H1, H3. repeat split; try assumption.
  - apply Forall_forall. intros c Hc E. subst c.
    assert (existsb (N.eqb slash) k = true).
    { apply existsb_exists. exists slash. split; [exact Hc | apply N.eqb_refl]. }
    congruence.
  - intro E. subst k. discriminate.
Qed.

Lemma root_kind_rel : forall k r, k <> [] -> no_slash k -> root_kind (k ++ r) = 0%nat.
Proof.
  intros k r Hne Hk. destruct k as [|x k]; [contradiction|]. inversion Hk; subst.
  simpl. destruct (N.eqb_spec x slash); [contradiction | reflexivity].
Qed.

Lemma chunk_str_flat_eq : forall k c, chunk_str_flat k c = k ++ slash :: spec_flat_name c.
Proof.
  intros k c. unfold chunk_str_flat, spec_flat_name, spec_axis, axis_name, dash, usc.
  repeat rewrite <- app_assoc. simpl. repeat rewrite <- app_assoc. reflexivity.
Qed.

Lemma chunk_str_deep_eq : forall k c,
  chunk_str_deep k c = k ++ slash :: spec_axis (cx0 c) (cx1 c) ++ slash :: spec_axis (cy0 c) (cy1 c)
                         ++ slash :: spec_axis (cz0 c) (cz1 c).
Proof.
  intros k c. unfold chunk_str_deep, spec_axis, axis_name, dash.
  repeat rewrite <- app_assoc. simpl. repeat rewrite <- app_assoc. reflexivity.
Qed.

(* str.split("/") + pathlib's filter distributes over a '/' *)
Lemma keep_split_app : forall a b cur,
  filter keep_comp (split_slash_aux (a ++ slash :: b) cur)
  = filter keep_comp (split_slash_aux a cur) ++ filter keep_comp (split_slash_aux b []).
Proof.
  induction a as [|x a IH]; intros b cur.
  - simpl. destruct (keep_comp (rev cur)); reflexivity.
  - simpl. destruct (x =? slash).
    + simpl. rewrite IH. destruct (keep_comp (rev cur)); reflexivity.
    + apply IH.
Qed.

Lemma parse_parts_app : forall a b, parse_parts (a ++ slash :: b) = parse_parts a ++ parse_parts b.
Proof. intros. unfold parse_parts, split_slash. apply keep_split_app. Qed.

Lemma parse_parts_name : forall l, Forall name_char l -> l <> [] -> parse_parts l = [l].
Proof.
  intros l H Hne. unfold parse_parts, split_slash.
  rewrite split_no_slash by (apply name_char_no_slash; exact H). simpl.
  rewrite (keep_name l H Hne). reflexivity.
Qed.

Lemma parse_flat_tail : forall co, parse_parts (spec_flat_name co) = spec_chunk_tail true co.
Proof. intro co. apply parse_parts_name; [apply spec_flat_name_chars | apply spec_flat_name_nonempty]. Qed.

Lemma parse_deep_tail : forall co,
  parse_parts (spec_axis (cx0 co) (cx1 co) ++ slash :: spec_axis (cy0 co) (cy1 co)
               ++ slash :: spec_axis (cz0 co) (cz1 co)) = spec_chunk_tail false co.
Proof.
  intro co. rewrite !parse_parts_app.
  rewrite !parse_parts_name by (try apply spec_axis_chars; apply spec_axis_nonempty). reflexivity.
Qed.

Lemma name_not_dotdot : forall l, Forall name_char l -> is_dotdot l = false.
Proof.
  intros l H. apply bytes_eqb_neq. intro E. subst l. inversion H as [|? ? Hx Hl]; subst.
  destruct Hx as [[Ha Hb]|[Ha|Ha]]; lia.
Qed.

Lemma tail_no_dotdot : forall f co, existsb is_dotdot (spec_chunk_tail f co) = false.
Proof.
  intros f co. destruct f; simpl.
  - rewrite (name_not_dotdot _ (spec_flat_name_chars co)). reflexivity.
  - rewrite !(name_not_dotdot _ (spec_axis_chars _ _)). reflexivity.
Qed.

Lemma root_kind_rel_key : forall k r, k <> [] -> is_absolute k = false -> root_kind (k ++ r) = 0%nat.
Proof.
  intros k r Hne Ha. destruct k as [|x k]; [contradiction|]. simpl in *.
  destruct (x =? slash) eqn:E; [|reflexivity]. unfold slash in E. congruence.
Qed.

(* path_spec: for a non-empty relative key the model's chunk path is the
   documented one (key components, then the flat name or the three axis
   directories), and keys mentioning ".." are refused *)
Lemma chunk_path_spec : forall c f k co, k <> [] -> is_absolute k = false ->
  chunk_path c f k co = option_map (app (base c)) (spec_chunk_name f k co).
Proof.
  intros c f k co Hne Ha. unfold chunk_path, checked_path_gen, spec_chunk_name, spec_key.
  destruct k as [|x k'] eqn:Ek; [contradiction|]. rewrite <- Ek in *. rewrite Ha.
  assert (Hparse : parse_parts (if f then chunk_str_flat k co else chunk_str_deep k co)
                   = parse_parts k ++ spec_chunk_tail f co).
  { destruct f.
    - rewrite chunk_str_flat_eq, parse_parts_app, parse_flat_tail. reflexivity.
    - rewrite chunk_str_deep_eq, parse_parts_app, parse_deep_tail. reflexivity. }
  assert (Hroot : root_kind (if f then chunk_str_flat k co else chunk_str_deep k co) = 0%nat).
  { destruct f; [rewrite chunk_str_flat_eq | rewrite chunk_str_deep_eq]; apply root_kind_rel_key; assumption. }
  rewrite Hroot, Hparse. unfold rel_ok. rewrite existsb_app, tail_no_dotdot, orb_false_r. simpl andb.
  unfold parse_parts. rewrite andb_true_r.
  destruct (existsb is_dotdot (filter keep_comp (split_slash k))); reflexivity.
Qed.

Lemma spec_chunk_tail_inj : forall f co co', spec_chunk_tail f co = spec_chunk_tail f co' -> co = co'.
Proof.
  intros f co co' E. destruct f; simpl in E.
  - inversion E as [Hn]. apply spec_flat_name_inj. exact Hn.
  - inversion E as [[H1 H2 H3]].
    apply spec_axis_inj in H1 as [? ?], H2 as [? ?], H3 as [? ?]. apply coords_eq; assumption.
Qed.

Lemma tail_length : forall f co co', length (spec_chunk_tail f co) = length (spec_chunk_tail f co').
Proof. intros [] co co'; reflexivity. Qed.

(* different (key components, coordinates) give different paths *)
Lemma chunk_path_inj : forall c f k co k' co' p,
  k <> [] -> is_absolute k = false -> k' <> [] -> is_absolute k' = false ->
  chunk_path c f k co = Some p -> chunk_path c f k' co' = Some p ->
  spec_key k = spec_key k' /\ co = co'.
Proof.
  intros c f k co k' co' p Hk Ha Hk' Ha' E1 E2.
  rewrite chunk_path_spec in E1, E2 by assumption. unfold spec_chunk_name in *.
  destruct (spec_key k) as [kp|] eqn:Es; [|discriminate].
  destruct (spec_key k') as [kp'|] eqn:Es'; [|discriminate].
  simpl in E1, E2. inversion E1 as [H1]. inversion E2 as [H2]. rewrite <- H2 in H1.
  apply app_inv_head in H1.
  assert (Hl : length kp = length kp').
  { apply (f_equal (@length _)) in H1. rewrite !app_length, (tail_length f co co') in H1. lia. }
  assert (Hkp : kp = kp').
  { apply (f_equal (firstn (length kp))) in H1.
    rewrite firstn_app, firstn_all, Nat.sub_diag in H1. simpl in H1. rewrite app_nil_r in H1.
    rewrite Hl, firstn_app, firstn_all, Nat.sub_diag in H1. simpl in H1. rewrite app_nil_r in H1. exact H1. }
  subst kp'. apply app_inv_head in H1. split; [reflexivity | eapply spec_chunk_tail_inj; exact H1].
Qed.
