(* Faults and interruptions (C18).

   Every accessor operation is a program over primitive calls (StFS.prog);
   the calls it makes, in order, are its TRACE (StFS.trace).  Here:
   - [run_sched]: a fault schedule (call number -> errno) makes the scheduled
     calls fail with an OSError carrying that errno; [run_fault k e] is the
     schedule with the single fault (k, e).  A failing write leaves
     [trunc data] in the file (an arbitrary prefix: [trunc] is a parameter);
     every other failing call leaves the tree as it was.
   - [run_cut k]: the process is interrupted at call k: the first k calls have
     happened, call k has not, except that an interrupted write has left
     [trunc data].
   The reader side is the accessor's own fetch program run on the resulting
   tree. *)
From Coq Require Import NArith List Bool Lia.
From NGS Require Import Val Ints StFS.
Import ListNotations.

Section FAULTS.
Variable B : Type.
Variable empty : B.
Variable trunc : B -> B.

Definition fail_effect (t : fs B) (c : call B) : fs B :=
  match c with CWrite p d => write_at B t p (trunc d) | _ => t end.

Fixpoint run_sched {A} (s : nat -> option errno) (n : nat) (t : fs B) (p : prog B A)
  : A * fs B :=
  match p with
  | Ret a => (a, t)
  | Do c k =>
      match s n with
      | Some e => run_sched s (S n) (fail_effect t c) (k (RErr e))
      | None => let '(r, t') := exec_call B empty t c in run_sched s (S n) t' (k r)
      end
  end.

Fixpoint run_fault {A} (k : nat) (e : errno) (t : fs B) (p : prog B A) {struct p} : A * fs B :=
  match p with
  | Ret a => (a, t)
  | Do c kont =>
      match k with
      | O => run B empty (fail_effect t c) (kont (RErr e))
      | S k' => let '(r, t') := exec_call B empty t c in run_fault k' e t' (kont r)
      end
  end.

(* number of calls of the fault-free run *)
Definition ncalls {A} (t : fs B) (p : prog B A) : nat := length (trace B empty t p).

Fixpoint run_cut {A} (k : nat) (t : fs B) (p : prog B A) {struct p} : fs B :=
  match p with
  | Ret _ => t
  | Do c kont =>
      match k with
      | O => fail_effect t c
      | S k' => let '(r, t') := exec_call B empty t c in run_cut k' t' (kont r)
      end
  end.

End FAULTS.
