(* Faults and interruptions (C18).

   Every accessor operation is a program over primitive calls (StFS.prog);
   the calls it makes, in order, are its TRACE (StFS.trace).  Here:
   - [run_sched]: a fault schedule (call number -> errno) makes the scheduled
     calls fail with an OSError carrying that errno; [run_fault k e] is the
     schedule with the single fault (k, e).  A failing write leaves
     [trunc data] in the file (an arbitrary prefix: [trunc] is a parameter);
     every other failing call leaves the tree as it was.
   - [run_cut k]: the process is interrupted at call k: the first k calls have
     happened, call k has not, except that an interrupted write has left
     [trunc data].
   The reader side is the accessor's own fetch program run on the resulting
   tree. *)
From Coq Require Import NArith List Bool Lia.
From NGS Require Import Val Ints StFS.
Import ListNotations.

Section FAULTS.
Variable B : Type.
Variable empty : B.
Variable trunc : B -> B.

Definition fail_effect (t : fs B) (c : call B) : fs B :=
  match c with CWrite p d => write_at B t p (trunc d) | _ => t end.

Fixpoint run_sched {A} (s : nat -> option errno) (n : nat) (t : fs B) (p : prog B A)
  : A * fs B :=
  match p with
  | Ret a => (a, t)
  | Do c k =>
      match s n with
      | Some e => run_sched s (S n) (fail_effect t c) (k (RErr e))
      | None => let '(r, t') := exec_call B empty t c in run_sched s (S n) t' (k r)
      end
  end.

Fixpoint run_fault {A} (k : nat) (e : errno) (t : fs B) (p : prog B A) {struct p} : A * fs B :=
  match p with
  | Ret a => (a, t)
  | Do c kont =>
      match k with
      | O => run B empty (fail_effect t c) (kont (RErr e))
      | S k' => let '(r, t') := exec_call B empty t c in run_fault k' e t' (kont r)
      end
  end.

(* number of calls of the fault-free run *)
Definition ncalls {A} (t : fs B) (p : prog B A) : nat := length (trace B empty t p).

Fixpoint run_cut {A} (k : nat) (t : fs B) (p : prog B A) {struct p} : fs B :=
  match p with
  | Ret _ => t
  | Do c kont =>
      match k with
      | O => fail_effect t c
      | S k' => let '(r, t') := exec_call B empty t c in run_cut k' t' (kont r)
      end
  end.

End FAULTS.

(* ====================================================================== *)
(* ShardedFileAccessor.close() as a program over the primitives (C18).

   sharded_file_accessor.py: ShardedFileAccessor.close -> every ShardedScale in
   insertion order -> every Shard in insertion order -> Shard.close; the first
   exception aborts the whole close.  Shard.close of a dirty shard:
       self.file_path.parent.mkdir(exist_ok=True, parents=True)
       with open(self.file_path, "wb") as fp:
           fp.write(zero header)
           for minishard in key order:  minishard.close(); fp.write(its data)
           for minishard in key order:  fp.write(its encoded index)
           fp.seek(0); fp.write(shard index)
       self.dirty = False
       for minishard in key order:  del minishard.databytearray
   and of a clean shard: nothing.  The write buffers are released only once
   the shard file is complete, so a close that failed can be repeated (the
   accessor itself does so at interpreter exit: atexit.register(self.close)).

   The payload is abstract (the byte strings are the shard writer's business,
   Shard/ShardFile.v, ShardSession.v; the harness hands in what the real
   writer produces): per shard the zero header, the data of each minishard in
   key order, their encoded indices, the final shard index.  The writer state
   that matters here is, per shard, the dirty flag.
   Every write is one primitive call; the file content after a write is given
   cumulatively.
   Scope: the data of a minishard is ONE write.  That is always so with the
   in-memory buffers (InMemByteArray yields itself once) and with the on-disk
   buffers while a minishard holds at most 4096 bytes (OnDiskByteArray yields
   4096-byte reads); a larger on-disk minishard is several writes - not
   modelled, the harness reports a write sequence that is not of this shape. *)
From NGS Require Import Val.

Inductive cres := COk | CIOErr.                  (* close returned / OSError *)

Record shard_desc := {
  sd_dir : path;                 (* <base>/<scale key> *)
  sd_file : path;                (* <base>/<scale key>/<shard>.shard *)
  sd_zero : list N;
  sd_data : list (list N);       (* per minishard, key order *)
  sd_idx : list (list N);        (* per minishard, key order *)
  sd_hdr : list N                (* the shard index written last, over the zero header *)
}.

Definition sd_n (d : shard_desc) : nat := length (sd_data d).
(* file content after the zero header and the first i data blocks *)
Definition cum_data (d : shard_desc) (i : nat) : list N := sd_zero d ++ concat (firstn i (sd_data d)).
(* ... after all data and the first j indices *)
Definition cum_idx (d : shard_desc) (j : nat) : list N :=
  sd_zero d ++ concat (sd_data d) ++ concat (firstn j (sd_idx d)).
Definition complete (d : shard_desc) : list N := sd_hdr d ++ concat (sd_data d) ++ concat (sd_idx d).

Section CLOSE.
Variable B : Type.
Variable plain : list N -> B.
Notation prog := (prog B).

(* the exception leaves the with-block: fp.close(), then the OSError propagates
   (or the one raised by that close) *)
Definition leave (f : path) : prog cres := Do (CClose f) (fun _ => Ret CIOErr).

(* index writes j, j+1, ... (fuel = number left), then the shard index, then close *)
Fixpoint idx_writes (d : shard_desc) (j fuel : nat) : prog cres :=
  match fuel with
  | O =>
      Do (CWrite (sd_file d) (plain (complete d))) (fun r =>
      match r with
      | RErr _ => leave (sd_file d)
      | _ => Do (CClose (sd_file d)) (fun r => match r with RErr _ => Ret CIOErr | _ => Ret COk end)
      end)
  | S f =>
      Do (CWrite (sd_file d) (plain (cum_idx d (S j)))) (fun r =>
      match r with
      | RErr _ => leave (sd_file d)
      | _ => idx_writes d (S j) f
      end)
  end.

(* data writes i, i+1, ...; the buffers stay until the shard is complete *)
Fixpoint data_writes (d : shard_desc) (i fuel : nat) : prog cres :=
  match fuel with
  | O => idx_writes d 0 (length (sd_idx d))
  | S f =>
      Do (CWrite (sd_file d) (plain (cum_data d (S i)))) (fun r =>
      match r with
      | RErr _ => leave (sd_file d)
      | _ => data_writes d (S i) f
      end)
  end.

(* Shard.close; the new dirty flag is false after COk and unchanged after CIOErr *)
Definition shard_close_prog (d : shard_desc) (dirty : bool) : prog cres :=
  if negb dirty then Ret COk else
  Do (CMakedirs (sd_dir d)) (fun r =>
  match r with
  | RErr _ => Ret CIOErr
  | _ =>
    Do (COpen (sd_file d) MW) (fun r =>
    match r with
    | RErr _ => Ret CIOErr
    | _ =>
      Do (CWrite (sd_file d) (plain (sd_zero d))) (fun r =>
      match r with
      | RErr _ => leave (sd_file d)
      | _ => data_writes d 0 (sd_n d)
      end)
    end)
  end).

Fixpoint pbindp {A C} (p : prog A) (f : A -> prog C) : prog C :=
  match p with
  | Ret a => f a
  | Do c k => Do c (fun r => pbindp (k r) f)
  end.

(* ShardedScale.close / ShardedFileAccessor.close: all shards in insertion
   order, the first exception aborts; [done] = dirty flags of the shards
   already handled, reversed *)
Fixpoint close_shards (l : list (shard_desc * bool)) (done : list bool) : prog (cres * list bool) :=
  match l with
  | [] => Ret (COk, rev done)
  | (d, st) :: r =>
      pbindp (shard_close_prog d st) (fun x =>
        match x with
        | COk => close_shards r (false :: done)
        | CIOErr => Ret (CIOErr, rev done ++ st :: map snd r)
        end)
  end.

Definition close_prog (l : list (shard_desc * bool)) : prog (cres * list bool) := close_shards l [].

(* close(), then close() again on the state the first one left *)
Definition retry_descs (l : list (shard_desc * bool)) (sts : list bool) : list (shard_desc * bool) :=
  combine (map fst l) sts.

End CLOSE.

(* decidable forms of the hypotheses of the tree theorems about close
   (StFaultsProofs: apart, NoDup of the shard files, good); the harness has them
   evaluated on every case it generates *)
Definition wfb (d : shard_desc) : bool :=
  forallb (fun c => negb (is_dotdot c)) (sd_file d) &&
  match rev (sd_file d) with c :: r => path_eqb (rev r) (sd_dir d) | [] => false end.
Definition apartb (ds : list shard_desc) : bool :=
  forallb wfb ds &&
  forallb (fun x => forallb (fun y => negb (is_prefix (sd_file x) (sd_dir y))) ds) ds.
Fixpoint nodupb (l : list path) : bool :=
  match l with [] => true | p :: r => negb (existsb (path_eqb p) r) && nodupb r end.

Section CLOSECHK.
Variable B : Type.
Definition closedb (t : fs B) : bool :=
  forallb (fun e => match fst e with
                    | [] => true
                    | _ => match lookup B t (removelast (fst e)) with Some Dir => true | _ => false end
                    end) t.
Definition goodb (ds : list shard_desc) (t : fs B) : bool :=
  closedb t &&
  forallb (fun d =>
    forallb (fun k => match lookup B t (firstn k (sd_dir d)) with Some (File _) => false | _ => true end)
            (seq 0 (S (length (sd_dir d)))) &&
    match lookup B t (sd_file d) with Some Dir => false | _ => true end) ds.
Definition close_hyps (l : list (shard_desc * bool)) (t : fs B) : bool :=
  apartb (map fst l) && nodupb (map (fun x => sd_file (fst x)) l) && goodb (map fst l) t.
End CLOSECHK.

(* what a failing write of the close leaves in the file: the content before
   that write (the writes are sequential; only the last one seeks back) *)
Fixpoint prev_table_data (d : shard_desc) (i fuel : nat) : list (list N * list N) :=
  match fuel with
  | O => []
  | S f => (cum_data d (S i), cum_data d i) :: prev_table_data d (S i) f
  end.
Fixpoint prev_table_idx (d : shard_desc) (j fuel : nat) : list (list N * list N) :=
  match fuel with
  | O => []
  | S f => (cum_idx d (S j), cum_idx d j) :: prev_table_idx d (S j) f
  end.
Definition prev_table (d : shard_desc) : list (list N * list N) :=
  (sd_zero d, []) :: prev_table_data d 0 (sd_n d) ++ prev_table_idx d 0 (length (sd_idx d))
  ++ [(complete d, cum_idx d (length (sd_idx d)))].
