(* Faults and interruptions (C18).

   Every accessor operation is a program over primitive calls (StFS.prog);
   the calls it makes, in order, are its TRACE (StFS.trace).  Here:
   - [run_sched]: a fault schedule (call number -> errno) makes the scheduled
     calls fail with an OSError carrying that errno; [run_fault k e] is the
     schedule with the single fault (k, e).  A failing write leaves
     [trunc data] in the file (an arbitrary prefix: [trunc] is a parameter);
     every other failing call leaves the tree as it was.
   - [run_cut k]: the process is interrupted at call k: the first k calls have
     happened, call k has not, except that an interrupted write has left
     [trunc data].
   The reader side is the accessor's own fetch program run on the resulting
   tree. *)
From Coq Require Import NArith List Bool Lia.
From NGS Require Import Val Ints StFS.
Import ListNotations.

Section FAULTS.
Variable B : Type.
Variable empty : B.
Variable trunc : B -> B.

Definition fail_effect (t : fs B) (c : call B) : fs B :=
  match c with CWrite p d => write_at B t p (trunc d) | _ => t end.

Fixpoint run_sched {A} (s : nat -> option errno) (n : nat) (t : fs B) (p : prog B A)
  : A * fs B :=
  match p with
  | Ret a => (a, t)
  | Do c k =>
      match s n with
      | Some e => run_sched s (S n) (fail_effect t c) (k (RErr e))
      | None => let '(r, t') := exec_call B empty t c in run_sched s (S n) t' (k r)
      end
  end.

Fixpoint run_fault {A} (k : nat) (e : errno) (t : fs B) (p : prog B A) {struct p} : A * fs B :=
  match p with
  | Ret a => (a, t)
  | Do c kont =>
      match k with
      | O => run B empty (fail_effect t c) (kont (RErr e))
      | S k' => let '(r, t') := exec_call B empty t c in run_fault k' e t' (kont r)
      end
  end.

(* number of calls of the fault-free run *)
Definition ncalls {A} (t : fs B) (p : prog B A) : nat := length (trace B empty t p).

Fixpoint run_cut {A} (k : nat) (t : fs B) (p : prog B A) {struct p} : fs B :=
  match p with
  | Ret _ => t
  | Do c kont =>
      match k with
      | O => fail_effect t c
      | S k' => let '(r, t') := exec_call B empty t c in run_cut k' t' (kont r)
      end
  end.

End FAULTS.

(* ====================================================================== *)
(* ShardedFileAccessor.close() as a program over the primitives (C18).

   sharded_file_accessor.py: ShardedFileAccessor.close -> every ShardedScale in
   insertion order -> every Shard in insertion order -> Shard.close; the first
   exception aborts the whole close.  Shard.close of a dirty shard:
       self.file_path.parent.mkdir(exist_ok=True, parents=True)
       with open(self.file_path, "wb") as fp:
           fp.write(zero header)
           for minishard in key order:  minishard.close(); fp.write(its data);
                                        del minishard.databytearray
           for minishard in key order:  fp.write(its encoded index)
           fp.seek(0); fp.write(shard index)
       self.dirty = False
   and of a clean shard: nothing.  A minishard whose buffer was deleted by an
   earlier, failed close raises AttributeError when its data is iterated.

   The payload is abstract (the byte strings are the shard writer's business,
   Shard/ShardFile.v, ShardSession.v; the harness hands in what the real
   writer produces): per shard the zero header, the data of each minishard in
   key order, their encoded indices, the final shard index.  The writer state
   that matters here is, per shard, the dirty flag and the number of
   minishards (a prefix in key order) whose buffer has been deleted - in
   ShardSession.v this is [sh_dirty] and the [ws_dead] pairs of that shard.
   Every write is one primitive call; the file content after a write is given
   cumulatively.
   Scope: the data of a minishard is ONE write.  That is always so with the
   in-memory buffers (InMemByteArray yields itself once) and with the on-disk
   buffers while a minishard holds at most 4096 bytes (OnDiskByteArray yields
   4096-byte reads); a larger on-disk minishard is several writes and its
   buffer is deleted after the last of them - not modelled, the harness
   reports a write sequence that is not of this shape. *)
From NGS Require Import Val.

Inductive cres := COk | CIOErr | CAttrErr.      (* close returned / OSError / AttributeError *)

Record shard_desc := {
  sd_dir : path;                 (* <base>/<scale key> *)
  sd_file : path;                (* <base>/<scale key>/<shard>.shard *)
  sd_zero : list N;
  sd_data : list (list N);       (* per minishard, key order *)
  sd_idx : list (list N);        (* per minishard, key order *)
  sd_hdr : list N                (* the shard index written last, over the zero header *)
}.
Record shst := { sh_dirty : bool; sh_dead : nat }.

Definition sd_n (d : shard_desc) : nat := length (sd_data d).
(* file content after the zero header and the first i data blocks *)
Definition cum_data (d : shard_desc) (i : nat) : list N := sd_zero d ++ concat (firstn i (sd_data d)).
(* ... after all data and the first j indices *)
Definition cum_idx (d : shard_desc) (j : nat) : list N :=
  sd_zero d ++ concat (sd_data d) ++ concat (firstn j (sd_idx d)).
Definition complete (d : shard_desc) : list N := sd_hdr d ++ concat (sd_data d) ++ concat (sd_idx d).

Section CLOSE.
Variable B : Type.
Variable plain : list N -> B.
Notation prog := (prog B).

(* the exception leaves the with-block: fp.close(), then it propagates (an
   OSError raised by that close replaces it) *)
Definition leave (f : path) (r : cres) (st : shst) : prog (cres * shst) :=
  Do (CClose f) (fun rp => match rp with RErr _ => Ret (CIOErr, st) | _ => Ret (r, st) end).

(* index writes j, j+1, ... (fuel = number left), then the shard index, then close *)
Fixpoint idx_writes (d : shard_desc) (j fuel : nat) : prog (cres * shst) :=
  let dead := {| sh_dirty := true; sh_dead := sd_n d |} in
  match fuel with
  | O =>
      Do (CWrite (sd_file d) (plain (complete d))) (fun r =>
      match r with
      | RErr _ => leave (sd_file d) CIOErr dead
      | _ => Do (CClose (sd_file d)) (fun r =>
             match r with
             | RErr _ => Ret (CIOErr, dead)
             | _ => Ret (COk, {| sh_dirty := false; sh_dead := sd_n d |})
             end)
      end)
  | S f =>
      Do (CWrite (sd_file d) (plain (cum_idx d (S j)))) (fun r =>
      match r with
      | RErr _ => leave (sd_file d) CIOErr dead
      | _ => idx_writes d (S j) f
      end)
  end.

(* data writes i, i+1, ...; the buffer of minishard i is deleted after its write *)
Fixpoint data_writes (d : shard_desc) (i fuel : nat) : prog (cres * shst) :=
  match fuel with
  | O => idx_writes d 0 (length (sd_idx d))
  | S f =>
      Do (CWrite (sd_file d) (plain (cum_data d (S i)))) (fun r =>
      match r with
      | RErr _ => leave (sd_file d) CIOErr {| sh_dirty := true; sh_dead := i |}
      | _ => data_writes d (S i) f
      end)
  end.

(* Shard.close *)
Definition shard_close_prog (d : shard_desc) (st : shst) : prog (cres * shst) :=
  if negb (sh_dirty st) then Ret (COk, st) else
  Do (CMakedirs (sd_dir d)) (fun r =>
  match r with
  | RErr _ => Ret (CIOErr, st)
  | _ =>
    Do (COpen (sd_file d) MW) (fun r =>
    match r with
    | RErr _ => Ret (CIOErr, st)
    | _ =>
      Do (CWrite (sd_file d) (plain (sd_zero d))) (fun r =>
      match r with
      | RErr _ => leave (sd_file d) CIOErr st
      | _ =>
          match sh_dead st with
          | O => data_writes d 0 (sd_n d)
          | S _ => leave (sd_file d) CAttrErr st       (* iterating a deleted databytearray *)
          end
      end)
    end)
  end).

Fixpoint pbindp {A C} (p : prog A) (f : A -> prog C) : prog C :=
  match p with
  | Ret a => f a
  | Do c k => Do c (fun r => pbindp (k r) f)
  end.

(* ShardedScale.close / ShardedFileAccessor.close: all shards in insertion
   order, the first exception aborts; [done] = states of the shards already
   handled, reversed *)
Fixpoint close_shards (l : list (shard_desc * shst)) (done : list shst) : prog (cres * list shst) :=
  match l with
  | [] => Ret (COk, rev done)
  | (d, st) :: r =>
      pbindp (shard_close_prog d st) (fun x =>
        match fst x with
        | COk => close_shards r (snd x :: done)
        | e => Ret (e, rev done ++ snd x :: map snd r)
        end)
  end.

Definition close_prog (l : list (shard_desc * shst)) : prog (cres * list shst) := close_shards l [].

(* close(), then close() again on the state the first one left *)
Definition retry_descs (l : list (shard_desc * shst)) (sts : list shst) : list (shard_desc * shst) :=
  combine (map fst l) sts.

End CLOSE.

(* what a failing write of the close leaves in the file: the content before
   that write (the writes are sequential; only the last one seeks back) *)
Fixpoint prev_table_data (d : shard_desc) (i fuel : nat) : list (list N * list N) :=
  match fuel with
  | O => []
  | S f => (cum_data d (S i), cum_data d i) :: prev_table_data d (S i) f
  end.
Fixpoint prev_table_idx (d : shard_desc) (j fuel : nat) : list (list N * list N) :=
  match fuel with
  | O => []
  | S f => (cum_idx d (S j), cum_idx d j) :: prev_table_idx d (S j) f
  end.
Definition prev_table (d : shard_desc) : list (list N * list N) :=
  (sd_zero d, []) :: prev_table_data d 0 (sd_n d) ++ prev_table_idx d 0 (length (sd_idx d))
  ++ [(complete d, cum_idx d (length (sd_idx d)))].
