(* Link C14 <-> C05, proofs.

   Part A  the source-generic shard algorithm of C14 (StHttp.shard_fetch_pure)
           with [locate := link_locate sp] IS the package reader of C05
           (ShardReader.shard_fetch_raw) on a source [s], for every byte
           source that answers the reads which the reader issues on [s] the
           way [s] does ([agree_on]).
   Part B  trees of StFS.v versus C05's sources / directory listings; the
           checked local read of C14 equals C05's seek + read on every read
           that satisfies [inb]; hence C14_http_sharded_eq_local_reader.
   Part C  the files written by the sharded writer (ShardTopProofs.
           session_files) satisfy the guard: where the shard index, the
           minishard indices and the chunk of a stored identifier lie.
   Part D  the closed end-to-end theorems and the kernel-evaluated example. *)
From Coq Require Import NArith ZArith Arith List Bool Lia ZifyBool ZifyNat ZifyN.
From NGS Require Import Val Ints Morton MortonProofs ShardBytes MiniShard ShardFile ShardReader
  ShardSpecReader ShardCanon MiniShardProofs ShardFileProofs ShardReaderProofs ShardLayoutProofs
  ShardCloseProofs ShardSpecProofs ShardTopProofs ShardWfProofs ShardImplProofs
  StFS StFSProofs StFileAccessor StFileAccessorProofs StSharded StHttp StHttpProofs LinkHttpShard.
Import ListNotations.
Open Scope N_scope.

(* ====================================================================== *)
(* Part A *)

(* ---------- the two developments' byte helpers coincide ---------- *)
Lemma unle_eq : forall b, StHttp.unle b = ShardBytes.unle b.
Proof. induction b as [|x r IH]; [reflexivity|]. cbn [StHttp.unle ShardBytes.unle]. rewrite IH. reflexivity. Qed.

Lemma words64_eq : forall k l fuel, length l = (8 * k)%nat -> (k <= fuel)%nat ->
  StHttp.words64 fuel l = ShardBytes.words64 k l.
Proof.
  induction k as [|k IH]; intros l fuel Hl Hf.
  - destruct l; [|simpl in Hl; lia]. destruct fuel; reflexivity.
  - destruct fuel as [|fuel]; [lia|].
    destruct l as [|x l]; [simpl in Hl; lia|].
    cbn [StHttp.words64 ShardBytes.words64]. rewrite unle_eq. f_equal.
    apply IH; [|lia]. rewrite skipn_length. lia.
Qed.

Lemma pairs_eq : forall l, StHttp.pairs l = pairs_of l.
Proof.
  assert (H : forall l, StHttp.pairs l = pairs_of l /\ forall a, StHttp.pairs (a :: l) = pairs_of (a :: l)).
  { induction l as [|b r [IH1 IH2]]; [split; reflexivity|]. split; [apply IH2|].
    intro a. cbn [StHttp.pairs pairs_of]. rewrite IH1. reflexivity. }
  intro l. apply H.
Qed.

Lemma length_words64 : forall n b, length (ShardBytes.words64 n b) = n.
Proof. induction n as [|n IH]; intro b; [reflexivity|]. cbn [ShardBytes.words64 length]. rewrite IH. reflexivity. Qed.

Lemma beqb_eq : forall a b, ShardBytes.bytes_eqb a b = StFS.bytes_eqb a b.
Proof. reflexivity. Qed.   (* two copies of the same fixpoint *)

(* ---------- ReadableMiniShardCMC's checks ---------- *)
Lemma parse_index_ok : forall dec,
  parse_index dec = match minishard_ok dec with
                    | Ok _ => Ok (words_of dec)
                    | Crash c => Crash c
                    | _ => IOErr
                    end.
Proof.
  intro dec. unfold parse_index, frombuffer64, minishard_ok, words_of, lenN.
  assert (Hm8 : N.of_nat (length dec) mod 8 = N.of_nat (Nat.modulo (length dec) 8)).
  { change 8 with (N.of_nat 8). rewrite <- Nat2N.inj_mod. reflexivity. }
  assert (Hd8 : N.of_nat (length dec) / 8 = N.of_nat (Nat.div (length dec) 8)).
  { change 8 with (N.of_nat 8). rewrite <- Nat2N.inj_div. reflexivity. }
  rewrite Hm8, Hd8.
  destruct (Nat.eqb_spec (Nat.modulo (length dec) 8) 0) as [E8|E8].
  - replace (N.of_nat (Nat.modulo (length dec) 8) =? 0) with true by (symmetry; apply N.eqb_eq; lia).
    cbn [negb bind]. rewrite length_words64.
    assert (Hm3 : N.of_nat (Nat.div (length dec) 8) mod 3 = N.of_nat (Nat.modulo (Nat.div (length dec) 8) 3)).
    { change 3 with (N.of_nat 3). rewrite <- Nat2N.inj_mod. reflexivity. }
    rewrite Hm3.
    destruct (Nat.eqb_spec (Nat.modulo (Nat.div (length dec) 8) 3) 0) as [E3|E3].
    + replace (N.of_nat (Nat.modulo (Nat.div (length dec) 8) 3) =? 0) with true by (symmetry; apply N.eqb_eq; lia).
      cbn [negb].
      pose proof (Nat.div_mod (length dec) 8 ltac:(lia)) as Hdm.
      destruct (N.eqb_spec (N.of_nat (length dec)) 0) as [E0|E0].
      * assert (Hz : Nat.div (length dec) 8 = 0%nat) by (replace (length dec) with 0%nat by lia; reflexivity).
        rewrite Hz. reflexivity.
      * destruct (Nat.div (length dec) 8) as [|q] eqn:Eq; [lia|]. reflexivity.
    + replace (N.of_nat (Nat.modulo (Nat.div (length dec) 8) 3) =? 0) with false by (symmetry; apply N.eqb_neq; lia).
      reflexivity.
  - replace (N.of_nat (Nat.modulo (length dec) 8) =? 0) with false by (symmetry; apply N.eqb_neq; lia).
    reflexivity.
Qed.

(* ---------- the reader = locate, then read ---------- *)
Lemma mini_fetch_locate : forall sp s ws cmc,
  mini_fetch_raw sp s ws cmc =
  bind (mini_locate sp ws cmc) (fun '(off, len) => read_bytes sp s off len).
Proof.
  intros sp s ws cmc. unfold mini_fetch_raw, mini_locate. destruct ws as [|w0 rest]; [reflexivity|].
  destruct (ShardReader.walk rest w0 0 cmc) as [[i tally]| | | | | |]; try reflexivity. cbn [bind].
  destruct (negb (tally =? cmc)); [reflexivity|].
  destruct (nth_error (w0 :: rest) (2 * Nat.div (length (w0 :: rest)) 3 + i)); reflexivity.
Qed.

Lemma fetch_with_locate : forall sp s d cmc, s <> SrcNone ->
  fetch_with sp s d cmc = bind (dict_locate sp d cmc) (fun '(off, len) => read_bytes sp s off len).
Proof.
  intros sp s d cmc Hs. unfold fetch_with, dict_locate.
  destruct s as [|f|i dt]; [congruence| |];
    (destruct (alookup _ d) as [ws|]; [apply mini_fetch_locate | reflexivity]).
Qed.

Lemma tame_walk : forall rest tally i cmc, tame (ShardReader.walk rest tally i cmc).
Proof.
  induction rest as [|d r IH]; intros tally i cmc; cbn [ShardReader.walk]; destruct (tally <? cmc); try exact I.
  apply IH.
Qed.

Lemma tame_dict_locate : forall sp d cmc, tame (dict_locate sp d cmc).
Proof.
  intros sp d cmc. unfold dict_locate. destruct (alookup _ d) as [ws|]; [|exact I].
  unfold mini_locate. destruct ws as [|w0 rest]; [exact I|].
  pose proof (tame_walk rest w0 0%nat cmc) as Hw.
  destruct (ShardReader.walk rest w0 0 cmc) as [[i tally]| | | | | |]; cbn [bind]; try exact Hw; try exact I.
  destruct (negb (tally =? cmc)); [exact I|].
  destruct (nth_error _ _); exact I.
Qed.

Lemma dict_of_app : forall sp a b d, dict_of sp (a ++ b) d = dict_of sp b (dict_of sp a d).
Proof. intros sp a. induction a as [|x a IH]; intros b d; [reflexivity|]. cbn [app dict_of]. apply IH. Qed.

(* ---------- the generic algorithm over a source that answers like [s] ---------- *)
Section Algo.
Variable sp : sparams.
Variable idx_decode : bytes -> option bytes.
Variable data_o : bytes -> outcome bytes.
Variable s : src.
Variable rd : bool -> N -> N -> outcome (list N).
Variable lg : bool.

Notation HL := (hl sp).

(* one slot of the shard index: a uint64 start word, and if the slot is not
   empty, the source answers the read of the minishard index like [s] *)
Definition slot_agree (oe : N * N) : Prop :=
  fst oe < two64 /\
  (sub64 (snd oe) (fst oe) = 0 \/
   (fst oe + HL < two64 /\
    rd lg (fst oe + HL) (sub64 (snd oe) (fst oe)) = read_bytes sp s (fst oe + HL) (sub64 (snd oe) (fst oe)))).

Definition agree_on (cmc : N) : Prop :=
  rd lg 0 HL = read_bytes sp s 0 HL /\
  (forall h, read_bytes sp s 0 HL = Ok h ->
     Nat.modulo (length h) 8 = 0%nat /\ Forall slot_agree (pairs_of (words_of h))) /\
  (forall d off len, populate sp (idx_o idx_decode) s = Ok d -> dict_locate sp d cmc = Ok (off, len) ->
     rd lg off len = read_bytes sp s off len).

Lemma populate_link : forall slots acc, Forall slot_agree slots ->
  populate_slots sp (idx_o idx_decode) s slots (dict_of sp (rev acc) [])
  = bind (populate_pure idx_decode rd lg HL slots acc) (fun l => Ok (dict_of sp l [])).
Proof.
  induction slots as [|[o e] r IH]; intros acc Hall.
  - reflexivity.
  - inversion Hall as [|x y Hoe Hr]; subst. destruct Hoe as [Ho Hcase]. cbn [fst snd] in Ho, Hcase.
    cbn [populate_slots populate_pure].
    assert (Elen : (e + two64 - o) mod two64 = sub64 e o).
    { unfold sub64. rewrite (N.mod_small o two64 Ho). reflexivity. }
    rewrite Elen.
    destruct (N.eqb_spec (sub64 e o) 0) as [E0|E0]; [apply IH; exact Hr|].
    destruct Hcase as [Hz|[Hlt Hrd]]; [contradiction|].
    assert (Ea : add64 o HL = o + HL) by (unfold add64; apply N.mod_small; exact Hlt).
    rewrite Ea, Hrd.
    destruct (read_bytes sp s (o + HL) (sub64 e o)) as [raw| | | | | |]; try reflexivity.
    cbn [bind]. unfold idx_o at 1.
    destruct (idx_decode raw) as [dec|]; [|reflexivity]. cbn [bind].
    rewrite parse_index_ok.
    destruct (minishard_ok dec) as [u| | | | | |]; try reflexivity. cbn [bind].
    specialize (IH (dec :: acc) Hr). cbn [rev] in IH. rewrite dict_of_app in IH. cbn [dict_of] in IH.
    exact IH.
Qed.

Definition routes (ex : list N -> outcome bool) : Prop :=
  (ex s_shard = Ok true /\ lg = false) \/
  (ex s_shard = Ok false /\ ex s_index = Ok true /\ ex s_data = Ok true /\ lg = true).

Theorem algo_is_reader : forall ex missing cmc,
  s <> SrcNone -> routes ex -> agree_on cmc ->
  shard_fetch_pure idx_decode (link_locate sp) data_o ex rd missing HL cmc
  = bind (shard_fetch_raw sp (idx_o idx_decode) s cmc) (fun raw => dec_norm (data_o raw)).
Proof.
  intros ex missing cmc Hs Hroute (Hhdr & Hslots & Hchunk).
  assert (Hgo :
    bind (rd lg 0 HL) (fun hdr =>
    bind (populate_pure idx_decode rd lg HL (StHttp.pairs (StHttp.words64 (length hdr) hdr)) []) (fun idxs =>
      match link_locate sp idxs cmc with
      | Ok (off, len) =>
          bind (rd lg off len) (fun raw =>
            match data_o raw with Ok b => Ok b | Crash c => Crash c | _ => IOErr end)
      | Crash c => Crash c
      | _ => IOErr
      end))
    = bind (shard_fetch_raw sp (idx_o idx_decode) s cmc) (fun raw => dec_norm (data_o raw))).
  { unfold shard_fetch_raw.
    assert (Epop : populate sp (idx_o idx_decode) s =
                   bind (read_bytes sp s 0 HL) (fun h => bind (frombuffer64 h) (fun ws =>
                     populate_slots sp (idx_o idx_decode) s (pairs_of ws) [])))
      by (destruct s; [congruence | reflexivity | reflexivity]).
    rewrite Hhdr.
    destruct (read_bytes sp s 0 HL) as [h| | | | | |] eqn:Eh;
      try (rewrite Epop; reflexivity).
    destruct (Hslots h eq_refl) as [Hm8 Hall].
    cbn [bind].
    assert (Efb : frombuffer64 h = Ok (words_of h)).
    { unfold frombuffer64, words_of. rewrite Hm8. reflexivity. }
    assert (Ew : StHttp.pairs (StHttp.words64 (length h) h) = pairs_of (words_of h)).
    { rewrite pairs_eq. f_equal. unfold words_of. apply words64_eq.
      - pose proof (Nat.div_mod (length h) 8 ltac:(lia)). lia.
      - pose proof (Nat.div_mod (length h) 8 ltac:(lia)). lia. }
    rewrite Ew.
    pose proof (populate_link (pairs_of (words_of h)) [] Hall) as Hpl. cbn [rev] in Hpl.
    assert (Epop' : populate sp (idx_o idx_decode) s =
                    bind (populate_pure idx_decode rd lg HL (pairs_of (words_of h)) [])
                         (fun l => Ok (dict_of sp l []))).
    { rewrite Epop. cbn [bind]. rewrite Efb. cbn [bind]. exact Hpl. }
    destruct (populate_pure idx_decode rd lg HL (pairs_of (words_of h)) []) as [idxs| | | | | |] eqn:Epp;
      try (rewrite Epop'; reflexivity).
    cbn [bind] in Epop'. rewrite Epop'. cbn [bind].
    rewrite (fetch_with_locate sp s _ cmc Hs).
    unfold link_locate.
    pose proof (tame_dict_locate sp (dict_of sp idxs []) cmc) as Ht.
    destruct (dict_locate sp (dict_of sp idxs []) cmc) as [[off len]| | | | | |] eqn:El;
      try reflexivity; try (exfalso; exact Ht).
    cbn [bind]. rewrite (Hchunk _ off len Epop' El).
    destruct (read_bytes sp s off len) as [raw| | | | | |]; try reflexivity. }
  unfold shard_fetch_pure.
  destruct Hroute as [(E1 & ->)|(E1 & E2 & E3 & ->)].
  - rewrite E1. cbn [bind]. exact Hgo.
  - rewrite E1. cbn [bind]. rewrite E2. cbn [bind]. rewrite E3. cbn [bind]. exact Hgo.
Qed.

End Algo.

(* ====================================================================== *)
(* Part B *)

Lemma two63_val : two63 = 9223372036854775808.
Proof. reflexivity. Qed.
Lemma two64_val : two64 = 18446744073709551616.
Proof. reflexivity. Qed.

(* the shard index length is a multiple of 16 whatever minishard_bits is *)
Lemma hl_mod8 : forall sp, hl sp mod 8 = 0.
Proof.
  intro sp. unfold hl, header_len_model, mul64. rewrite two64_val.
  set (x := pow2_64 (sp_m sp)).
  pose proof (N.div_mod (x * 16) 18446744073709551616 ltac:(discriminate)) as H1.
  pose proof (N.mod_upper_bound (x * 16) 18446744073709551616 ltac:(discriminate)) as H2.
  set (r := (x * 16) mod 18446744073709551616) in *. set (q := (x * 16) / 18446744073709551616) in *.
  pose proof (N.div_mod r 8 ltac:(discriminate)) as H3.
  pose proof (N.mod_upper_bound r 8 ltac:(discriminate)) as H4.
  lia.
Qed.

(* ---------- one read: C14's checked local read vs C05's seek + read ---------- *)
Lemma file_read_inb : forall f o len, rd_inb f o len = true ->
  file_read f o len = Ok (firstn (N.to_nat len) (skipn (N.to_nat o) f)) /\
  lenN (firstn (N.to_nat len) (skipn (N.to_nat o) f)) = len.
Proof.
  intros f o len H. unfold rd_inb in H. apply andb_prop in H. destruct H as [Ho Hl].
  apply N.ltb_lt in Ho. pose proof two63_val as E63.
  unfold file_read.
  destruct (N.leb_spec two63 o) as [Hbad|_]; [lia|].
  destruct (N.eqb_spec len 0) as [->|Hne].
  - destruct (N.leb_spec (two63 - 1) 0) as [Hbad|_]; [lia|].
    split; [|reflexivity]. f_equal. unfold ShardBytes.slice.
    destruct (lenN f <=? o); [reflexivity|]. rewrite N.min_0_l. reflexivity.
  - cbn [orb] in Hl. apply andb_prop in Hl. destruct Hl as [Hl1 Hl2].
    apply N.ltb_lt in Hl1. apply N.leb_le in Hl2.
    destruct (N.leb_spec (two63 - 1) len) as [Hbad|_]; [lia|].
    split.
    + f_equal. unfold ShardBytes.slice. destruct (N.leb_spec (lenN f) o) as [Hbad|_]; [lia|].
      rewrite N.min_l by lia. reflexivity.
    + unfold lenN in *. rewrite firstn_length, skipn_length. lia.
Qed.

Lemma checked_read_inb : forall f o len, rd_inb f o len = true ->
  (if len =? 0 then Ok []
   else let y := firstn (N.to_nat len) (skipn (N.to_nat o) f) in
        if true && negb (lenN y =? len) then IOErr else Ok y) = file_read f o len.
Proof.
  intros f o len H. destruct (file_read_inb f o len H) as [E1 E2]. rewrite E1.
  destruct (N.eqb_spec len 0) as [->|Hne]; [reflexivity|].
  cbn zeta. rewrite E2, N.eqb_refl. reflexivity.
Qed.

Lemma read_inb_len : forall sp s off len x, inb sp s off len = true ->
  read_bytes sp s off len = Ok x -> lenN x = len.
Proof.
  intros sp s off len x H E. destruct s as [|f|i d]; cbn [inb read_bytes] in *; [discriminate| |].
  - destruct (file_read_inb f off len H) as [E1 E2]. congruence.
  - destruct (off <? hl sp).
    + destruct (file_read_inb i off len H) as [E1 E2]. congruence.
    + destruct (file_read_inb d (off - hl sp) len H) as [E1 E2]. congruence.
Qed.

Lemma forall_pairs_of : forall (P : N -> Prop) ws, Forall P ws ->
  Forall (fun oe => P (fst oe) /\ P (snd oe)) (pairs_of ws).
Proof.
  intros P.
  assert (H : forall ws, (Forall P ws -> Forall (fun oe => P (fst oe) /\ P (snd oe)) (pairs_of ws)) /\
                         (forall a, Forall P (a :: ws) -> Forall (fun oe => P (fst oe) /\ P (snd oe)) (pairs_of (a :: ws)))).
  { induction ws as [|b r [IH1 IH2]]; [split; intros; constructor|]. split; [apply IH2|].
    intros a Hall. inversion Hall as [|x y Ha Hr]; subst. inversion Hr as [|x y Hb Hr']; subst.
    cbn [pairs_of]. constructor; [split; assumption | apply IH1; exact Hr']. }
  intro ws. apply H.
Qed.

(* the in-bounds guard implies the agreement that Part A needs.  General form:
   the byte source needs to answer like [s] only on the reads that do not
   straddle the end of the shard index ([apart]); this is what a legacy
   .index/.data pair offers *)
Definition apart (sp : sparams) (off len : N) : Prop := off + len <= hl sp \/ hl sp <= off.

Lemma inb_agree_gen : forall sp idx_decode s rd lg cmc,
  (forall off len, inb sp s off len = true -> apart sp off len -> rd lg off len = read_bytes sp s off len) ->
  fetch_inb sp idx_decode s cmc = true ->
  (forall d off len, populate sp (idx_o idx_decode) s = Ok d -> dict_locate sp d cmc = Ok (off, len) ->
     apart sp off len) ->
  agree_on sp idx_decode s rd lg cmc.
Proof.
  intros sp idx_decode s rd lg cmc Hrd Hg Hap. unfold fetch_inb in Hg.
  apply andb_prop in Hg. destruct Hg as [Hh Hc]. unfold hdr_inb in Hh.
  apply andb_prop in Hh. destruct Hh as [Hh0 Hh1].
  split; [apply Hrd; [exact Hh0 | left; lia]|]. split.
  - intros h Eh. rewrite Eh in Hh1. apply andb_prop in Hh1. destruct Hh1 as [Hw Hsl].
    pose proof (read_inb_len sp s 0 (hl sp) h Hh0 Eh) as Hlen.
    split.
    + pose proof (hl_mod8 sp) as Hm. rewrite <- Hlen in Hm. unfold lenN in Hm.
      change 8 with (N.of_nat 8) in Hm. rewrite <- Nat2N.inj_mod in Hm. lia.
    + assert (Hw' : Forall (fun w => w < two64) (words_of h)).
      { apply Forall_forall. intros w Hin. rewrite forallb_forall in Hw. apply N.ltb_lt. apply Hw. exact Hin. }
      pose proof (forall_pairs_of _ _ Hw') as Hp.
      unfold slots_inb in Hsl. rewrite forallb_forall in Hsl.
      apply Forall_forall. intros [o e] Hin. rewrite Forall_forall in Hp.
      destruct (Hp (o, e) Hin) as [Ho _]. cbn [fst snd] in *.
      split; [exact Ho|]. specialize (Hsl (o, e) Hin). cbn beta iota in Hsl.
      apply orb_prop in Hsl. destruct Hsl as [Hz|Hin'].
      * left. apply N.eqb_eq. exact Hz.
      * right. apply andb_prop in Hin'. destruct Hin' as [Hlt Hib]. apply N.ltb_lt in Hlt.
        split; [exact Hlt | apply Hrd; [exact Hib | right; lia]].
  - intros d off len Ep El. pose proof (Hap d off len Ep El) as Ha. rewrite Ep, El in Hc. apply Hrd; assumption.
Qed.

Lemma inb_agree : forall sp idx_decode s rd lg cmc,
  (forall off len, inb sp s off len = true -> rd lg off len = read_bytes sp s off len) ->
  fetch_inb sp idx_decode s cmc = true -> agree_on sp idx_decode s rd lg cmc.
Proof.
  intros sp idx_decode s rd lg cmc Hrd Hg. unfold fetch_inb in Hg.
  apply andb_prop in Hg. destruct Hg as [Hh Hc]. unfold hdr_inb in Hh.
  apply andb_prop in Hh. destruct Hh as [Hh0 Hh1].
  split; [apply Hrd; exact Hh0|]. split.
  - intros h Eh. rewrite Eh in Hh1. apply andb_prop in Hh1. destruct Hh1 as [Hw Hsl].
    pose proof (read_inb_len sp s 0 (hl sp) h Hh0 Eh) as Hlen.
    split.
    + pose proof (hl_mod8 sp) as Hm. rewrite <- Hlen in Hm. unfold lenN in Hm.
      change 8 with (N.of_nat 8) in Hm. rewrite <- Nat2N.inj_mod in Hm. lia.
    + assert (Hw' : Forall (fun w => w < two64) (words_of h)).
      { apply Forall_forall. intros w Hin. rewrite forallb_forall in Hw. apply N.ltb_lt. apply Hw. exact Hin. }
      pose proof (forall_pairs_of _ _ Hw') as Hp.
      unfold slots_inb in Hsl. rewrite forallb_forall in Hsl.
      apply Forall_forall. intros [o e] Hin. rewrite Forall_forall in Hp.
      destruct (Hp (o, e) Hin) as [Ho _]. cbn [fst snd] in *.
      split; [exact Ho|]. specialize (Hsl (o, e) Hin). cbn beta iota in Hsl.
      apply orb_prop in Hsl. destruct Hsl as [Hz|Hin'].
      * left. apply N.eqb_eq. exact Hz.
      * right. apply andb_prop in Hin'. destruct Hin' as [Hlt Hib]. apply N.ltb_lt in Hlt.
        split; [exact Hlt | apply Hrd; exact Hib].
  - intros d off len Ep El. rewrite Ep, El in Hc. apply Hrd. exact Hc.
Qed.

(* dec_norm is the identity on the outcomes a decoder has *)
Lemma dec_norm_tame : forall o, tame o -> dec_norm o = o.
Proof. intros o H. destruct o; try reflexivity; destruct H. Qed.

(* ---------- a tree as a source ---------- *)
Section TreeSrc.
Variable B : Type.
Variable unplain : B -> option (list N).
Variable sp : sparams.
Variable t : fs B.
Variable dir : path.
Variable name : list N.
Hypothesis Htc : tree_closed B t.
Hypothesis Hclean : cleanb dir = true.
Hypothesis Hname : no_slash name /\ name <> [].
Hypothesis Hpl : forall suffix d, In suffix [s_shard; s_index; s_data] ->
  lookup B t (shard_file dir name suffix) = Some (File d) -> exists x, unplain d = Some x.

Notation s := (tree_src B unplain t dir name).

Lemma shard_file_clean' : forall suffix, In suffix [s_shard; s_index; s_data] ->
  cleanb (shard_file dir name suffix) = true.
Proof.
  intros suffix Hs. destruct (suffix_facts name Hname suffix Hs) as [_ [_ H3]].
  unfold shard_file. rewrite cleanb_app, Hclean. simpl. rewrite H3. reflexivity.
Qed.

Lemma tree_file_some : forall p x, tree_file B unplain t p = Some x ->
  exists d, lookup B t p = Some (File d) /\ unplain d = Some x.
Proof.
  intros p x H. unfold tree_file in H. destruct (lookup B t p) as [[d|]|]; try discriminate.
  exists d. split; [reflexivity | exact H].
Qed.

Lemma local_ex_tree : forall suffix, In suffix [s_shard; s_index; s_data] ->
  local_ex B t dir name suffix =
  Ok (match tree_file B unplain t (shard_file dir name suffix) with Some _ => true | None => false end).
Proof.
  intros suffix Hs. unfold local_ex, tree_file. f_equal.
  pose proof (shard_file_clean' suffix Hs) as Hc.
  destruct (lookup B t (shard_file dir name suffix)) as [[d|]|] eqn:El.
  - destruct (Hpl suffix d Hs El) as [x Hx]. rewrite Hx. apply (lookup_is_file B t _ d Htc Hc El).
  - apply is_file_false; [exact Hc|]. intros b Hb. congruence.
  - apply is_file_false; [exact Hc|]. intros b Hb. congruence.
Qed.

Lemma tree_routes : s <> SrcNone -> routes (src_legacy s) (local_ex B t dir name).
Proof.
  intro Hs. unfold routes. unfold tree_src in *.
  rewrite (local_ex_tree s_shard) by (simpl; auto).
  destruct (tree_file B unplain t (shard_file dir name s_shard)) as [f|].
  - left. split; reflexivity.
  - right. rewrite (local_ex_tree s_index), (local_ex_tree s_data) by (simpl; auto).
    destruct (tree_file B unplain t (shard_file dir name s_index)) as [i|]; [|congruence].
    destruct (tree_file B unplain t (shard_file dir name s_data)) as [d|]; [|congruence].
    repeat split; reflexivity.
Qed.

Lemma tree_missing : forall idx_decode locate data_decode rd hlen cmc, s = SrcNone ->
  shard_fetch_pure idx_decode locate data_decode (local_ex B t dir name) rd IOErr hlen cmc = IOErr.
Proof.
  intros idx_decode locate data_decode rd hlen cmc Hs. unfold shard_fetch_pure. unfold tree_src in Hs.
  rewrite (local_ex_tree s_shard) by (simpl; auto).
  destruct (tree_file B unplain t (shard_file dir name s_shard)) as [f|]; [discriminate|]. cbn [bind].
  rewrite (local_ex_tree s_index) by (simpl; auto).
  destruct (tree_file B unplain t (shard_file dir name s_index)) as [i|]; [|reflexivity]. cbn [bind].
  rewrite (local_ex_tree s_data) by (simpl; auto).
  destruct (tree_file B unplain t (shard_file dir name s_data)) as [d|]; [discriminate | reflexivity].
Qed.

Lemma local_rd_agree : forall off len, inb sp s off len = true ->
  local_rd B unplain true t dir name (hl sp) (src_legacy s) off len = read_bytes sp s off len.
Proof.
  intros off len. unfold tree_src.
  destruct (tree_file B unplain t (shard_file dir name s_shard)) as [f|] eqn:Ef.
  - destruct (tree_file_some _ _ Ef) as (d & El & Eu). cbn [inb src_legacy read_bytes]. intro H.
    rewrite <- (checked_read_inb f off len H). unfold local_rd, pick.
    destruct (len =? 0); [reflexivity|]. rewrite El, Eu. reflexivity.
  - destruct (tree_file B unplain t (shard_file dir name s_index)) as [i|] eqn:Ei; [|intro H; discriminate].
    destruct (tree_file B unplain t (shard_file dir name s_data)) as [dt|] eqn:Ed; [|intro H; discriminate].
    destruct (tree_file_some _ _ Ei) as (di & Eli & Eui). destruct (tree_file_some _ _ Ed) as (dd & Eld & Eud).
    cbn [inb src_legacy read_bytes]. unfold local_rd, pick.
    destruct (off <? hl sp); intro H.
    + rewrite <- (checked_read_inb i off len H). destruct (len =? 0); [reflexivity|]. rewrite Eli, Eui. reflexivity.
    + rewrite <- (checked_read_inb dt (off - hl sp) len H). destruct (len =? 0); [reflexivity|]. rewrite Eld, Eud. reflexivity.
Qed.

(* C14's shared algorithm on the tree, reading with the length check, is the
   package reader on the tree's files *)
Theorem tree_algo_is_reader : forall idx_decode data_o cmc,
  s <> SrcNone -> fetch_inb sp idx_decode s cmc = true ->
  shard_fetch_pure idx_decode (link_locate sp) data_o
    (local_ex B t dir name) (local_rd B unplain true t dir name (hl sp)) IOErr (hl sp) cmc
  = bind (shard_fetch_raw sp (idx_o idx_decode) s cmc) (fun raw => dec_norm (data_o raw)).
Proof.
  intros idx_decode data_o cmc Hs Hg.
  apply (algo_is_reader sp idx_decode data_o s _ (src_legacy s)); [exact Hs | apply tree_routes; exact Hs|].
  apply inb_agree; [|exact Hg]. intros off len. apply local_rd_agree.
Qed.

End TreeSrc.

(* ---------- shard names are single URL / path components ---------- *)
Lemma hex_digit_ne_slash : forall d, d < 16 -> hex_digit d <> slash.
Proof. intros d H. unfold hex_digit, slash. destruct (d <? 10) eqn:E; lia. Qed.

Lemma hex_pos_chars : forall fuel n acc, no_slash acc -> no_slash (hex_pos fuel n acc).
Proof.
  induction fuel as [|f IH]; intros n acc H; cbn [hex_pos]; [exact H|].
  destruct (n =? 0); [exact H|]. apply IH. constructor; [|exact H].
  apply hex_digit_ne_slash. apply N.mod_lt. discriminate.
Qed.

Lemma hex_pos_nonempty : forall fuel n acc, acc <> [] -> hex_pos fuel n acc <> [].
Proof.
  induction fuel as [|f IH]; intros n acc H; cbn [hex_pos]; [exact H|].
  destruct (n =? 0); [exact H|]. apply IH. discriminate.
Qed.

Lemma shard_name_ok : forall s key,
  no_slash (shard_name_model s key) /\ shard_name_model s key <> [].
Proof.
  intros s key. unfold shard_name_model, rjust, hex_of.
  set (pad := repeat 48 _).
  assert (Hpad : no_slash pad).
  { apply Forall_forall. intros x Hx. apply repeat_spec in Hx. subst x. unfold slash. discriminate. }
  destruct (N.eqb_spec key 0) as [E|E].
  - split.
    + apply Forall_app. split; [exact Hpad|]. constructor; [unfold slash; discriminate | constructor].
    + intro H. apply app_eq_nil in H. destruct H as [_ H]. discriminate.
  - cbn [hex_pos]. destruct (N.eqb_spec key 0) as [E'|_]; [contradiction|]. split.
    + apply Forall_app. split; [exact Hpad|]. apply hex_pos_chars.
      constructor; [|constructor]. apply hex_digit_ne_slash. apply N.mod_lt. discriminate.
    + intro H. apply app_eq_nil in H. destruct H as [_ H]. revert H. apply hex_pos_nonempty. discriminate.
Qed.

(* ---------- directory listings in trees ---------- *)
Lemma with_gz_snoc : forall (p : path) l, with_gz (p ++ [l]) = p ++ [l ++ gz_suffix].
Proof. intros p l. unfold with_gz. rewrite rev_app_distr. cbn [rev app]. rewrite rev_involutive. reflexivity. Qed.

Section Holds.
Variable B : Type.
Variable plain : list N -> B.
Variable unplain : B -> option (list N).
Hypothesis Hunplain : forall x, unplain (plain x) = Some x.
Variable t : fs B.
Variable dir : path.
Variable files : list (bytes * bytes).
Hypothesis Hholds : dir_holds B plain t dir files.

Lemma holds_tree_file : forall n, tree_file B unplain t (dir ++ [n]) = blookup n files.
Proof.
  intro n. pose proof (Hholds n) as H. unfold tree_file. revert H. destruct (blookup n files) as [c|]; intro H.
  - rewrite H. apply Hunplain.
  - destruct (lookup B t (dir ++ [n])) as [[d|]|]; try reflexivity. exfalso. apply (H d). reflexivity.
Qed.

Lemma holds_tree_src : forall sbits key,
  tree_src B unplain t dir (shard_name_model sbits key) = dir_of sbits files key.
Proof.
  intros sbits key. unfold tree_src, dir_of, shard_file. rewrite !holds_tree_file. reflexivity.
Qed.

Lemma holds_plain : forall name suffix d,
  lookup B t (shard_file dir name suffix) = Some (File d) -> exists x, unplain d = Some x.
Proof.
  intros name suffix d H. unfold shard_file in H. pose proof (Hholds (name ++ suffix)) as Hh. revert Hh.
  destruct (blookup (name ++ suffix) files) as [c|]; intro Hh.
  - pose proof (eq_trans (eq_sym H) Hh) as E. injection E as ->. exists c. apply Hunplain.
  - exfalso. apply (Hh d). exact H.
Qed.

Lemma holds_nogz : forall name suffix, blookup ((name ++ suffix) ++ gz_suffix) files = None ->
  file_at B t (with_gz (shard_file dir name suffix)) = None.
Proof.
  intros name suffix H. unfold shard_file. rewrite with_gz_snoc. unfold file_at.
  destruct (existsb is_dotdot (dir ++ [(name ++ suffix) ++ gz_suffix])); [reflexivity|].
  pose proof (Hholds ((name ++ suffix) ++ gz_suffix)) as Hh. rewrite H in Hh.
  destruct (lookup B t (dir ++ [(name ++ suffix) ++ gz_suffix])) as [[d|]|] eqn:El; try reflexivity.
  exfalso. apply (Hh d). exact El.
Qed.
End Holds.

(* ---------- [tree_of]: the smallest tree holding a listing ---------- *)
Section TreeOf.
Variable B : Type.
Variable plain : list N -> B.

Lemma assoc_app : forall (l1 l2 : fs B) p,
  assoc B (l1 ++ l2) p = match assoc B l1 p with Some n => Some n | None => assoc B l2 p end.
Proof.
  induction l1 as [|[q n] r IH]; intros l2 p; [reflexivity|]. cbn [app assoc].
  destruct (path_eqb q p); [reflexivity | apply IH].
Qed.

Lemma lookup_ne : forall (t : fs B) p, p <> [] -> lookup B t p = assoc B t p.
Proof. intros t p H. destruct p; [contradiction | reflexivity]. Qed.

Lemma assoc_chain_some : forall rest pre p nd, assoc B (dir_chain B pre rest) p = Some nd ->
  nd = Dir /\ exists a b, rest = a ++ b /\ a <> [] /\ p = pre ++ a.
Proof.
  induction rest as [|c r IH]; intros pre p nd H; [discriminate|]. cbn [dir_chain assoc] in H.
  destruct (path_eqb (pre ++ [c]) p) eqn:E.
  - injection H as <-. apply path_eqb_eq in E. split; [reflexivity|].
    exists [c], r. split; [reflexivity|]. split; [discriminate | congruence].
  - destruct (IH _ _ _ H) as (Hd & a & b & Er & Ha & Ep). split; [exact Hd|].
    exists (c :: a), b. split; [rewrite Er; reflexivity|]. split; [discriminate|].
    rewrite Ep, <- app_assoc. reflexivity.
Qed.

Lemma assoc_chain_hit : forall rest pre a b, rest = a ++ b -> a <> [] ->
  assoc B (dir_chain B pre rest) (pre ++ a) = Some Dir.
Proof.
  induction rest as [|c r IH]; intros pre a b Er Ha.
  - destruct a; [contradiction | discriminate].
  - destruct a as [|c' a']; [contradiction|]. cbn [app] in Er. injection Er as <- Er.
    cbn [dir_chain assoc]. destruct (path_eqb (pre ++ [c]) (pre ++ c :: a')) eqn:E; [reflexivity|].
    destruct a' as [|x a'']; [rewrite path_eqb_refl in E; discriminate|].
    replace (pre ++ c :: x :: a'') with ((pre ++ [c]) ++ x :: a'') by (rewrite <- app_assoc; reflexivity).
    apply (IH _ _ b Er). discriminate.
Qed.

Lemma assoc_chain_long : forall rest pre p, (length pre + length rest < length p)%nat ->
  assoc B (dir_chain B pre rest) p = None.
Proof.
  intros rest pre p H. destruct (assoc B (dir_chain B pre rest) p) as [nd|] eqn:E; [|reflexivity].
  destruct (assoc_chain_some _ _ _ _ E) as (_ & a & b & Er & _ & Ep). exfalso.
  rewrite Ep, Er in H. rewrite !app_length in H. lia.
Qed.

Lemma path_eqb_snoc : forall (d : path) k n, path_eqb (d ++ [k]) (d ++ [n]) = StFS.bytes_eqb k n.
Proof.
  induction d as [|x d IH]; intros k n; cbn [app path_eqb].
  - apply andb_true_r.
  - rewrite bytes_eqb_refl. cbn [andb]. apply IH.
Qed.

Lemma assoc_files : forall dir (files : list (bytes * bytes)) n,
  assoc B (map (fun nf => (dir ++ [fst nf], File (plain (snd nf)))) files) (dir ++ [n])
  = match blookup n files with Some c => Some (File (plain c)) | None => None end.
Proof.
  intros dir files n. induction files as [|[k c] r IH]; [reflexivity|].
  cbn [map assoc blookup fst snd]. rewrite path_eqb_snoc, <- beqb_eq.
  destruct (ShardBytes.bytes_eqb k n); [reflexivity | exact IH].
Qed.

Lemma assoc_files_some : forall dir (files : list (bytes * bytes)) q nd,
  assoc B (map (fun nf => (dir ++ [fst nf], File (plain (snd nf)))) files) q = Some nd ->
  exists k, q = dir ++ [k].
Proof.
  intros dir files q nd. induction files as [|[k c] r IH]; [discriminate|]. cbn [map assoc fst snd].
  destruct (path_eqb (dir ++ [k]) q) eqn:E; [|exact IH].
  intros _. apply path_eqb_eq in E. exists k. congruence.
Qed.

Theorem tree_of_holds : forall dir files, dir_holds B plain (tree_of B plain dir files) dir files.
Proof.
  intros dir files n.
  assert (E : lookup B (tree_of B plain dir files) (dir ++ [n])
              = match blookup n files with Some c => Some (File (plain c)) | None => None end).
  { rewrite lookup_ne by (intro H; apply app_eq_nil in H; destruct H; discriminate).
    unfold tree_of. rewrite assoc_app, assoc_chain_long by (rewrite app_length; simpl; lia).
    apply assoc_files. }
  rewrite E. destruct (blookup n files); [reflexivity | intros d H; discriminate].
Qed.

Theorem tree_of_closed : forall dir files, tree_closed B (tree_of B plain dir files).
Proof.
  intros dir files p c Hne.
  rewrite lookup_ne in Hne by (intro H; apply app_eq_nil in H; destruct H; discriminate).
  destruct p as [|x p']; [reflexivity|]. rewrite lookup_ne by discriminate.
  unfold tree_of in *. rewrite assoc_app in Hne. rewrite assoc_app.
  assert (Hhit : forall b0, dir = (x :: p') ++ b0 -> assoc B (dir_chain B [] dir) (x :: p') = Some Dir)
    by (intros b0 Eb; apply (assoc_chain_hit dir [] (x :: p') b0 Eb); discriminate).
  destruct (assoc B (dir_chain B [] dir) ((x :: p') ++ [c])) as [nd|] eqn:E1.
  - destruct (assoc_chain_some _ _ _ _ E1) as (_ & a & b & Ed & Ha & Ep). cbn [app] in Ep.
    rewrite (Hhit (c :: b)); [reflexivity|].
    rewrite Ed, <- Ep. cbn [app]. rewrite <- app_assoc. reflexivity.
  - destruct (assoc B (map (fun nf => (dir ++ [fst nf], File (plain (snd nf)))) files) ((x :: p') ++ [c])) as [nd|] eqn:E2;
      [|congruence].
    destruct (assoc_files_some _ _ _ _ E2) as (k & Ek). apply app_inj_tail in Ek. destruct Ek as [Ek _].
    rewrite (Hhit []); [reflexivity | rewrite app_nil_r; congruence].
Qed.

Theorem listing_tree_exists : forall dir files,
  tree_closed B (tree_of B plain dir files) /\ dir_holds B plain (tree_of B plain dir files) dir files.
Proof. intros dir files. split; [apply tree_of_closed | apply tree_of_holds]. Qed.
End TreeOf.

(* ---------- C14_http_sharded_eq_local_reader ---------- *)
Section HttpReader.
Variable B : Type.
Variable plain : list N -> B.
Variable gunzip : B -> gzres.
Variable unplain : B -> option (list N).
Variable slice : B -> N -> N -> option B.
Hypothesis Hunplain : forall x, unplain (plain x) = Some x.
Hypothesis Hslice : forall d x a b, unplain d = Some x ->
  slice d a b = if lenN x <=? a then None
                else Some (plain (firstn (N.to_nat (b + 1 - a)) (skipn (N.to_nat a) x))).
Variable sc : scfg.
Variable t : fs B.
Variable upath : list N.
Hypothesis Hrw : s_rewrite sc = false.
Hypothesis Htc : tree_closed B t.
Hypothesis Hclean : cleanb (sdir sc upath) = true.
Variable sp : sparams.
Variable idx_decode : bytes -> option bytes.
Variable data_o : bytes -> outcome bytes.

(* tree form: any shard name, any tree *)
Section Named.
Variable name : list N.
Hypothesis Hname : no_slash name /\ name <> [].
Hypothesis Hnogz : forall suffix, In suffix [s_shard; s_index; s_data] ->
  file_at B t (with_gz (shard_file (sdir sc upath) name suffix)) = None.
Hypothesis Hpl : forall suffix d, In suffix [s_shard; s_index; s_data] ->
  lookup B t (shard_file (sdir sc upath) name suffix) = Some (File d) -> exists x, unplain d = Some x.

Notation s := (tree_src B unplain t (sdir sc upath) name).

Theorem http_eq_reader_tree_norm : forall cmc n,
  s <> SrcNone -> fetch_inb sp idx_decode s cmc = true ->
  fst (hrun B (serve B (plain []) slice sc t) n
         (http_shard_fetch_named B plain gunzip unplain sp idx_decode data_o (scale_url sc upath) name cmc))
  = omap B plain (bind (shard_fetch_raw sp (idx_o idx_decode) s cmc) (fun raw => dec_norm (data_o raw))).
Proof.
  intros cmc n Hs Hg. unfold http_shard_fetch_named.
  rewrite (http_eq_local_sharded B plain gunzip unplain slice Hunplain Hslice sc t upath name
             Hrw Htc Hclean Hname Hnogz Hpl).
  f_equal. apply (tree_algo_is_reader B unplain sp t (sdir sc upath) name Htc Hclean Hname Hpl); assumption.
Qed.

Theorem http_eq_reader_tree : forall cmc n,
  (forall b, tame (data_o b)) ->
  s <> SrcNone -> fetch_inb sp idx_decode s cmc = true ->
  fst (hrun B (serve B (plain []) slice sc t) n
         (http_shard_fetch_named B plain gunzip unplain sp idx_decode data_o (scale_url sc upath) name cmc))
  = omap B plain (shard_fetch sp (idx_o idx_decode) data_o s cmc).
Proof.
  intros cmc n Ht Hs Hg. rewrite (http_eq_reader_tree_norm cmc n Hs Hg). f_equal. unfold shard_fetch.
  destruct (shard_fetch_raw sp (idx_o idx_decode) s cmc) as [raw| | | | | |]; try reflexivity.
  cbn [bind]. apply dec_norm_tame. apply Ht.
Qed.

(* no shard file at all: the two readers fail differently *)
Theorem http_missing_tree : forall cmc n, s = SrcNone ->
  fst (hrun B (serve B (plain []) slice sc t) n
         (http_shard_fetch_named B plain gunzip unplain sp idx_decode data_o (scale_url sc upath) name cmc))
  = IOErr /\
  shard_fetch sp (idx_o idx_decode) data_o s cmc = Crash AssertionError.
Proof.
  intros cmc n Hs. split.
  - unfold http_shard_fetch_named.
    rewrite (http_eq_local_sharded B plain gunzip unplain slice Hunplain Hslice sc t upath name
               Hrw Htc Hclean Hname Hnogz Hpl).
    rewrite (tree_missing B unplain t (sdir sc upath) name Htc Hclean Hname Hpl); [reflexivity | exact Hs].
  - rewrite Hs. reflexivity.
Qed.
End Named.

(* listing form: the scale directory of the tree holds the listing [files];
   the shard name is computed from the identifier as ShardedScaleBase does *)
Variable files : list (bytes * bytes).
Hypothesis Hholds : dir_holds B plain t (sdir sc upath) files.

Notation skey := (shard_key_model (sp_p sp) (sp_m sp) (sp_s sp)).

Theorem http_sharded_eq_local_reader : forall cmc n,
  (forall b, tame (data_o b)) ->
  (forall suffix, In suffix [s_shard; s_index; s_data] ->
     blookup ((shard_name_of sp cmc ++ suffix) ++ gz_suffix) files = None) ->
  dir_of (sp_s sp) files (skey cmc) <> SrcNone ->
  fetch_inb sp idx_decode (dir_of (sp_s sp) files (skey cmc)) cmc = true ->
  fst (hrun B (serve B (plain []) slice sc t) n
         (http_shard_fetch B plain gunzip unplain sp idx_decode data_o (scale_url sc upath) cmc))
  = omap B plain (scale_fetch sp (idx_o idx_decode) data_o (dir_of (sp_s sp) files) cmc).
Proof.
  intros cmc n Ht Hgz Hs Hg. unfold http_shard_fetch, scale_fetch, shard_name_of.
  rewrite <- (holds_tree_src B plain unplain Hunplain t (sdir sc upath) files Hholds) in *.
  apply http_eq_reader_tree; try assumption.
  - apply shard_name_ok.
  - intros suffix Hin. apply (holds_nogz B plain t (sdir sc upath) files Hholds). apply Hgz. exact Hin.
  - intros suffix d _. apply (holds_plain B plain unplain Hunplain t (sdir sc upath) files Hholds).
Qed.

Theorem http_sharded_missing : forall cmc n,
  (forall suffix, In suffix [s_shard; s_index; s_data] ->
     blookup ((shard_name_of sp cmc ++ suffix) ++ gz_suffix) files = None) ->
  dir_of (sp_s sp) files (skey cmc) = SrcNone ->
  fst (hrun B (serve B (plain []) slice sc t) n
         (http_shard_fetch B plain gunzip unplain sp idx_decode data_o (scale_url sc upath) cmc))
  = IOErr /\
  scale_fetch sp (idx_o idx_decode) data_o (dir_of (sp_s sp) files) cmc = Crash AssertionError.
Proof.
  intros cmc n Hgz Hs. unfold http_shard_fetch, scale_fetch, shard_name_of.
  rewrite <- (holds_tree_src B plain unplain Hunplain t (sdir sc upath) files Hholds) in *.
  apply http_missing_tree; try assumption.
  - apply shard_name_ok.
  - intros suffix Hin. apply (holds_nogz B plain t (sdir sc upath) files Hholds). apply Hgz. exact Hin.
  - intros suffix d _. apply (holds_plain B plain unplain Hunplain t (sdir sc upath) files Hholds).
Qed.

End HttpReader.

(* ====================================================================== *)
(* Part C: the files written by Shard.close satisfy the guard *)

Lemma pairs_of_nth_forall : forall (P : N * N -> Prop) n W, length W = (2 * n)%nat ->
  (forall k, (k < n)%nat -> P (nth (2 * k) W 0, nth (2 * k + 1) W 0)) -> Forall P (pairs_of W).
Proof.
  intros P. induction n as [|n IH]; intros W HL Hk.
  - destruct W; [constructor | simpl in HL; lia].
  - destruct W as [|a [|b r]]; try (simpl in HL; lia). cbn [pairs_of]. constructor.
    + exact (Hk 0%nat ltac:(lia)).
    + apply IH; [simpl in HL; lia|]. intros k Hlt. specialize (Hk (S k) ltac:(lia)).
      replace (2 * S k)%nat with (S (S (2 * k))) in Hk by lia.
      replace (S (S (2 * k)) + 1)%nat with (S (S (2 * k + 1))) in Hk by lia. exact Hk.
Qed.

Lemma skipn_skipn' : forall {A} (l : list A) a b, skipn a (skipn b l) = skipn (b + a) l.
Proof.
  intros A l a b. revert l. induction b as [|b IH]; intro l; [reflexivity|].
  destruct l as [|x l]; [cbn [skipn Nat.add]; apply skipn_nil | cbn [skipn Nat.add]; apply IH].
Qed.

Lemma firstn_skipn_firstn : forall {A} (l : list A) h o n, (o + n <= h)%nat ->
  firstn n (skipn o (firstn h l)) = firstn n (skipn o l).
Proof.
  intros A l h o n H. rewrite skipn_firstn_comm, firstn_firstn. f_equal. lia.
Qed.

Section Session.
Variable sp : sparams.
Variable enc ienc : bytes -> bytes.
Variable idx_decode : bytes -> option bytes.
Hypothesis HB : cbits sp < 2 ^ 64.
Hypothesis Hid : forall b, idx_decode (ienc b) = Some b.
Hypothesis Hne : forall b, b <> [] -> ienc b <> [].
Hypothesis Hm : sp_m sp < 59.
Notation T := (2 ^ sp_m sp).
Notation io := (idx_o idx_decode).

Lemma Hio : forall b, io (ienc b) = Ok b.
Proof. intro b. unfold idx_o. rewrite Hid. reflexivity. Qed.

Lemma T16_small : 16 * T <= 2 ^ 62.
Proof. change (2 ^ 62) with (16 * 2 ^ 58). apply N.mul_le_mono_l. apply N.pow_le_mono_r; [discriminate | lia]. Qed.

Lemma shard_bytes_len : forall d, desc_ok63 sp enc ienc d ->
  lenN (shard_bytes sp enc ienc d)
  = 16 * T + lenN (concat (map (d_data sp enc) d)) + sumlen (d_kl sp enc ienc d 0).
Proof.
  intros d ((Hel & Hs & Hk & Hb) & H63 & Hkey). unfold shard_bytes.
  rewrite !lenN_app, lenN_le64s, <- sumlen_encs. unfold lenN at 1.
  pose proof (fin_slot_le _ 0 T Hs ltac:(lia) Hk) as Hfin.
  rewrite (length_index_words _ _ _ Hs Hfin). lia.
Qed.

(* the shard index of a written file *)
Lemma session_header : forall d, desc_ok63 sp enc ienc d ->
  let f := shard_bytes sp enc ienc d in
  let W := index_words (d_kl sp enc ienc d 0) T (lenN (concat (map (d_data sp enc) d))) in
  rd_inb f 0 (hl sp) = true /\
  read_bytes sp (SrcShard f) 0 (hl sp) = Ok (le64s W) /\ words_of (le64s W) = W /\
  Forall (fun w => w < two64) W /\
  Forall (fun oe => fst oe <= snd oe /\ snd oe + 16 * T <= lenN f) (pairs_of W).
Proof.
  intros d Hd63 f W. pose proof (shard_bytes_len d Hd63) as Hlen. fold f in Hlen.
  pose proof Hd63 as ((Hel & Hs & Hk & Hb) & H63 & Hkey).
  set (D := lenN (concat (map (d_data sp enc) d))) in *. set (ks := d_kl sp enc ienc d 0) in *.
  pose proof (fin_slot_le ks 0 T Hs ltac:(lia) Hk) as Hfin.
  assert (HlenW : length W = (2 * N.to_nat T)%nat) by (apply length_index_words; assumption).
  assert (HlW : lenN (le64s W) = 16 * T) by (rewrite lenN_le64s; unfold lenN; rewrite HlenW; lia).
  pose proof T16_small as HT. pose proof two63_val as E63. pose proof (pow2_pos (sp_m sp)) as HTpos.
  assert (E62 : 2 ^ 62 = 4611686018427387904) by reflexivity.
  assert (E63' : 2 ^ 63 = 9223372036854775808) by reflexivity.
  assert (Hhl : hl sp = 16 * T) by (apply hl_eq; assumption).
  assert (Hinb : rd_inb f 0 (hl sp) = true).
  { unfold rd_inb. rewrite Hhl. apply andb_true_intro. split; [apply N.ltb_lt; lia|].
    apply orb_true_intro. right. apply andb_true_intro. split; [apply N.ltb_lt; lia | apply N.leb_le; lia]. }
  split; [exact Hinb|]. split; [|split; [|split]].
  - cbn [read_bytes]. destruct (file_read_inb f 0 (hl sp) Hinb) as [E _]. rewrite E. f_equal.
    rewrite Hhl. cbn [N.to_nat skipn]. rewrite <- HlW, to_nat_lenN. unfold f, shard_bytes. fold D. fold ks. fold W.
    apply ShardLayoutProofs.firstn_app_exact.
  - assert (HFW : Forall (fun w => w < 2 ^ 64) W).
    { unfold W, index_words. rewrite Forall_app. split.
      - eapply Forall_impl; [|apply (ixwords_le sp HB Hm)]. cbn. intros w Hw. apply lt63_64. lia.
      - apply forall_pairs. apply lt63_64. lia. }
    unfold words_of. rewrite length_le64s.
    replace (Nat.div (8 * length W) 8) with (length W) by (symmetry; rewrite Nat.mul_comm; apply Nat.div_mul; lia).
    rewrite <- (app_nil_r (le64s W)). apply words64_le64s. exact HFW.
  - unfold W, index_words. rewrite two64_eq. rewrite Forall_app. split.
    + eapply Forall_impl; [|apply (ixwords_le sp HB Hm)]. cbn. intros w Hw. apply lt63_64. lia.
    + apply forall_pairs. apply lt63_64. lia.
  - apply (pairs_of_nth_forall _ (N.to_nat T) W HlenW). intros k Hkt.
    destruct (nth_slot_words ks 0 D T (N.of_nat k) Hs ltac:(lia) ltac:(lia) Hfin) as [N1 N2].
    rewrite N.sub_0_r, Nat2N.id in N1, N2. fold (index_words ks T D) in N1, N2. fold W in N1, N2.
    rewrite N1, N2. cbn [fst snd].
    destruct (slot_entry_bounds ks D (N.of_nat k)) as (B1 & B2 & B3). split; [exact B2 | lia].
Qed.

(* where the reader finds entry number i of a canonical minishard index
   (first two thirds of ShardImplProofs.mini_fetch_canon, without the read) *)
Lemma mini_locate_canon : forall Ke sm off n i,
  Ke < 2 ^ (sp_s sp + sp_m sp) ->
  (i < n)%nat -> (forall j, (j < n)%nat -> idn sp Ke j < 2 ^ 64) ->
  16 * T + off + lenN (cdata sp enc sm (Ke * 2 ^ sp_p sp) n) < 2 ^ 63 ->
  mini_locate sp (rows sp enc Ke sm off n) (idn sp Ke i)
  = Ok (16 * T + off + lenN (cdata sp enc sm (Ke * 2 ^ sp_p sp) i), lenN (cpay sp enc sm (Ke * 2 ^ sp_p sp) i)).
Proof.
  intros Ke sm off n i HK Hi Hids Hsz.
  set (mb := Ke * 2 ^ sp_p sp) in *.
  assert (L0 : length (crow0 sp mb n) = n) by (unfold crow0; rewrite map_length, seq_length; reflexivity).
  assert (L1 : length (crow1 off n) = n) by (unfold crow1; rewrite map_length, seq_length; reflexivity).
  assert (L2 : length (crow2 sp enc sm mb n) = n) by (unfold crow2; rewrite map_length, seq_length; reflexivity).
  assert (Lw : length (rows sp enc Ke sm off n) = (3 * n)%nat) by (unfold rows; fold mb; rewrite !app_length; lia).
  destruct n as [|n']; [lia|].
  unfold mini_locate.
  assert (Ews : rows sp enc Ke sm off (S n') =
                idn sp Ke 0 :: (map (cdelta sp mb) (seq 1 (S n' - 1)) ++ crow1 off (S n') ++ crow2 sp enc sm mb (S n'))).
  { unfold rows, crow0. fold mb. cbn [seq map app]. replace (S n' - 1)%nat with n' by lia. reflexivity. }
  rewrite Ews at 1. rewrite Lw.
  replace (Nat.div (3 * S n') 3) with (S n') by (symmetry; rewrite Nat.mul_comm; apply Nat.div_mul; lia).
  rewrite (walk_canon sp Ke HK HB (S n') i _ Hi (Hids i Hi) i 0%nat) by lia. cbn [bind].
  rewrite N.eqb_refl. cbn [negb].
  assert (Esz : nth_error (rows sp enc Ke sm off (S n')) (2 * S n' + i) = Some (lenN (cpay sp enc sm mb i))).
  { unfold rows. fold mb. rewrite nth_error_app2 by lia. rewrite nth_error_app2 by lia.
    replace (2 * S n' + i - length (crow0 sp mb (S n')) - length (crow1 off (S n')))%nat with i by lia.
    unfold crow2. apply (nth_error_map_seq (fun j => lenN (cpay sp enc sm mb j))). exact Hi. }
  rewrite Esz.
  assert (Eo : wslice (S n') (S n' + i + 1) (rows sp enc Ke sm off (S n')) =
               map (fun j => if (j =? 0)%nat then off else 0) (seq 0 (S i))).
  { unfold wslice, rows. fold mb. replace (S n' + i + 1 - S n')%nat with (S i) by lia.
    rewrite <- L0 at 1. rewrite ShardLayoutProofs.skipn_app_exact. rewrite (firstn_app_le sp Ke HK HB) by lia.
    unfold crow1. apply (firstn_map_seq sp Ke HK HB). lia. }
  assert (Es : wslice (2 * S n') (2 * S n' + i) (rows sp enc Ke sm off (S n')) =
               map (fun j => lenN (cpay sp enc sm mb j)) (seq 0 i)).
  { unfold wslice, rows. fold mb. replace (2 * S n' + i - 2 * S n')%nat with i by lia.
    replace (2 * S n')%nat with (length (crow0 sp mb (S n') ++ crow1 off (S n'))) by (rewrite app_length; lia).
    rewrite app_assoc, ShardLayoutProofs.skipn_app_exact. unfold crow2. apply (firstn_map_seq sp Ke HK HB). lia. }
  rewrite Eo, Es.
  pose proof (lenN_cdata_mono sp enc HB mb sm i (S n') ltac:(lia)) as Hmono.
  assert (Hhl : hl sp = 16 * T) by (apply hl_eq; assumption).
  rewrite Hhl.
  set (HL := 16 * T) in *.
  set (Ci := lenN (cdata sp enc sm mb i)) in *. set (Cn := lenN (cdata sp enc sm mb (S n'))) in *.
  assert (B1 : off < 2 ^ 64) by (apply lt63_64; lia).
  assert (B2 : Ci < 2 ^ 64) by (apply lt63_64; lia).
  assert (B3 : HL + off < 2 ^ 64) by (apply lt63_64; lia).
  assert (B4 : HL + off + Ci < 2 ^ 64) by (apply lt63_64; lia).
  subst mb.
  rewrite (sum64_small _ ltac:(rewrite (sum_offs sp Ke HK HB); exact B1)), (sum_offs sp Ke HK HB).
  rewrite (sum64_small _ ltac:(rewrite (sum_sizes sp enc Ke HK HB); exact B2)), (sum_sizes sp enc Ke HK HB).
  fold Ci.
  rewrite (add64_small HL off B3), (add64_small (HL + off) Ci B4). reflexivity.
Qed.

(* where the reader finds a stored entry of a written shard file, through the
   dictionary that populate builds (first half of ShardImplProofs.impl_read_entry) *)
Lemma session_locate : forall d pre e post Ke i,
  desc_ok63 sp enc ienc d -> d = pre ++ e :: post ->
  Ke < 2 ^ (sp_s sp + sp_m sp) -> fst (snd e) = Ke * 2 ^ sp_p sp ->
  (i < ccount sp (snd (snd e)))%nat ->
  let f := shard_bytes sp enc ienc d in
  let off := lenN (concat (map (d_data sp enc) pre)) in
  let st := 16 * T + off + lenN (cdata sp enc (snd (snd e)) (Ke * 2 ^ sp_p sp) i) in
  let ln := lenN (cpay sp enc (snd (snd e)) (Ke * 2 ^ sp_p sp) i) in
  dict_locate sp (pdict sp enc d 0 []) (idn sp Ke i) = Ok (st, ln) /\ st + ln <= lenN f.
Proof.
  intros d pre e post Ke i Hd63 Ed HK Emb Hi f off st ln. pose proof Hd63 as (Hd & H63 & Hkey).
  unfold dict_locate.
  destruct (shard_placement sp enc ienc HB d pre e post Hd Ed) as (a & HkT & _ & _ & _ & A2 & _ & Hend & Hsz & _).
  fold f in A2, Hend. fold off in A2, Hend, Hsz.
  assert (Hel : elem_ok sp e).
  { destruct Hd as (Hf & _). rewrite Forall_forall in Hf. apply Hf. rewrite Ed. apply in_or_app. right. left. reflexivity. }
  destruct (elem_facts sp HB e Hel) as (Ke' & HK' & Emb' & Hok & Hids & Hrank).
  assert (Ke' = Ke) by (rewrite Emb in Emb'; apply N.mul_cancel_r in Emb'; [congruence | apply pow2_nz]). subst Ke'.
  set (n := ccount sp (snd (snd e))) in *. set (sm := snd (snd e)) in *.
  assert (Ekey : minishard_key_model (sp_p sp) (sp_m sp) (idn sp Ke i) = fst e).
  { destruct (Hkey e) as (id0 & Hin0 & Em0); [rewrite Ed; apply in_or_app; right; left; reflexivity|].
    fold sm in Hin0. destruct (Hok id0 Hin0) as (Hlt0 & Hc0 & _).
    assert (Hmb : mbits sp (idn sp Ke i) = mbits sp id0) by (rewrite Hc0; unfold idn; apply mbits_mk; exact HK).
    destruct (mbits_route sp _ _ Hmb) as [R1 _].
    destruct (keys_lt sp HB _ (Hids i Hi)) as (_ & _ & E1 & _). rewrite E1, R1. exact Em0. }
  rewrite Ekey, Ed.
  rewrite pdict_at.
  2: { intros e' He' Eq. destruct Hd as (_ & Hs & _ & _). rewrite Ed, d_kl_app in Hs. cbn [d_kl] in Hs.
       assert (Hkeys : forall dd o, map fst (d_kl sp enc ienc dd o) = map fst dd).
       { induction dd as [|x r IH]; intro o; cbn [d_kl map fst]; [reflexivity | rewrite IH; reflexivity]. }
       assert (Hk' : In (fst e') (map fst (d_kl sp enc ienc post (0 + lenN (concat (map (d_data sp enc) pre)) + lenN (d_data sp enc e))))).
       { rewrite Hkeys. apply in_map. exact He'. }
       apply in_map_iff in Hk'. destruct Hk' as (kl & Ekl & Hkl).
       pose proof (sorted_suffix_gt sp HB Hm _ _ _ _ _ Hs kl Hkl) as Hgt. cbn [fst] in Hgt. lia. }
  rewrite N.add_0_l. fold off.
  assert (Erows : d_rows sp enc e off = rows sp enc Ke sm off n) by (unfold d_rows, rows; fold sm; fold n; rewrite Emb; reflexivity).
  rewrite Erows.
  pose proof (shard_bytes_len d Hd63) as Hlen. fold f in Hlen.
  unfold d_data in A2, Hend. fold sm in A2, Hend. rewrite Emb in A2, Hend. fold n in A2, Hend.
  split.
  - apply (mini_locate_canon Ke sm off n i HK Hi Hids). lia.
  - destruct (cdata_split sp enc HB (Ke * 2 ^ sp_p sp) sm n i Hi) as (rest & Esplit).
    rewrite Esplit in A2. apply at_inner in A2. apply at_end in A2. exact A2.
Qed.

(* the guard holds for every entry of every minishard of a written shard file *)
Theorem desc_guard : forall d pre e post Ke i,
  desc_ok63 sp enc ienc d -> d = pre ++ e :: post ->
  Ke < 2 ^ (sp_s sp + sp_m sp) -> fst (snd e) = Ke * 2 ^ sp_p sp ->
  (i < ccount sp (snd (snd e)))%nat ->
  fetch_inb sp idx_decode (SrcShard (shard_bytes sp enc ienc d)) (idn sp Ke i) = true.
Proof.
  intros d pre e post Ke i Hd63 Ed HK Emb Hi.
  destruct (session_header d Hd63) as (Hinb & Erd & Ewo & HFW & Hslots).
  destruct (session_locate d pre e post Ke i Hd63 Ed HK Emb Hi) as (Eloc & Hin).
  pose proof (shard_bytes_len d Hd63) as Hlen. pose proof Hd63 as (_ & H63 & _).
  pose proof (populate_written sp enc ienc io HB Hio Hne Hm d Hd63) as Epop.
  set (f := shard_bytes sp enc ienc d) in *.
  pose proof two63_val as E63. pose proof two64_val as E64.
  assert (E63' : 2 ^ 63 = 9223372036854775808) by reflexivity.
  assert (Hhl : hl sp = 16 * T) by (apply hl_eq; assumption).
  pose proof (pow2_pos (sp_m sp)) as HTpos.
  unfold fetch_inb. apply andb_true_intro. split.
  - unfold hdr_inb. cbn [inb]. rewrite Hinb, Erd, Ewo. cbn [andb]. apply andb_true_intro. split.
    + apply forallb_forall. intros w Hw. rewrite Forall_forall in HFW. apply N.ltb_lt. apply HFW. exact Hw.
    + unfold slots_inb. apply forallb_forall. intros [o e0] Hoe. rewrite Forall_forall in Hslots.
      destruct (Hslots (o, e0) Hoe) as [H1 H2]. cbn [fst snd] in H1, H2.
      rewrite sub64_small by (try exact H1; rewrite <- two64_eq; lia).
      destruct (N.eqb_spec (e0 - o) 0) as [Ez|Enz]; [reflexivity|]. cbn [orb].
      apply andb_true_intro. split; [apply N.ltb_lt; lia|].
      cbn [inb]. unfold rd_inb. apply andb_true_intro. split; [apply N.ltb_lt; lia|].
      apply orb_true_intro. right. apply andb_true_intro. split; [apply N.ltb_lt; lia | apply N.leb_le; lia].
  - rewrite Epop, Eloc. cbn [inb]. unfold rd_inb.
    apply andb_true_intro. split; [apply N.ltb_lt; lia|].
    destruct (N.eqb_spec (lenN (cpay sp enc (snd (snd e)) (Ke * 2 ^ sp_p sp) i)) 0) as [Ez|Enz]; [reflexivity|].
    cbn [orb]. apply andb_true_intro. split; [apply N.ltb_lt; lia | apply N.leb_le; lia].
Qed.

End Session.

(* ====================================================================== *)
(* Part D: end to end *)

Lemma rd_inb_iff : forall f o len,
  rd_inb f o len = true <-> o < two63 /\ (len = 0 \/ (len < two63 - 1 /\ o + len <= lenN f)).
Proof.
  intros f o len. unfold rd_inb. rewrite andb_true_iff, orb_true_iff, andb_true_iff.
  rewrite N.ltb_lt, N.eqb_eq, N.ltb_lt, N.leb_le. reflexivity.
Qed.

(* a read that does not straddle the end of the shard index is answered by the
   legacy .index/.data pair exactly as by the single file *)
Lemma legacy_read_same : forall sp f off len,
  hl sp <= lenN f -> apart sp off len -> inb sp (SrcShard f) off len = true ->
  let sL := SrcLegacy (firstn (N.to_nat (hl sp)) f) (skipn (N.to_nat (hl sp)) f) in
  inb sp sL off len = true /\ read_bytes sp sL off len = read_bytes sp (SrcShard f) off len.
Proof.
  intros sp f off len Hhl Hap Hin sL. unfold sL. cbn [inb read_bytes] in *.
  pose proof Hin as Hin'. apply rd_inb_iff in Hin'. destruct Hin' as [Ho Hl].
  destruct (file_read_inb f off len Hin) as [E _]. rewrite E.
  destruct (N.ltb_spec off (hl sp)) as [Hlt|Hge].
  - assert (Hfit : off + len <= hl sp) by (destruct Hap as [H|H]; lia).
    assert (Hi : rd_inb (firstn (N.to_nat (hl sp)) f) off len = true).
    { apply rd_inb_iff. split; [exact Ho|]. destruct Hl as [Hz|[H1 H2]]; [left; exact Hz|]. right. split; [exact H1|].
      unfold lenN in *. rewrite firstn_length. lia. }
    split; [exact Hi|]. destruct (file_read_inb _ off len Hi) as [E' _]. rewrite E'. f_equal.
    apply firstn_skipn_firstn. lia.
  - assert (Hi : rd_inb (skipn (N.to_nat (hl sp)) f) (off - hl sp) len = true).
    { apply rd_inb_iff. split; [lia|]. destruct Hl as [Hz|[H1 H2]]; [left; exact Hz|]. right. split; [exact H1|].
      unfold lenN in *. rewrite skipn_length. lia. }
    split; [exact Hi|]. destruct (file_read_inb _ (off - hl sp) len Hi) as [E' _]. rewrite E'. f_equal.
    rewrite skipn_skipn'. do 2 f_equal. lia.
Qed.

Lemma shard_ne_gz : forall a x : bytes, a ++ dot_shard <> x ++ gz_suffix.
Proof.
  intros a x E. apply (f_equal (@rev N)) in E. rewrite !rev_app_distr in E. cbn in E. discriminate.
Qed.

Section EndToEnd.
Variable B : Type.
Variable plain : list N -> B.
Variable gunzip : B -> gzres.
Variable unplain : B -> option (list N).
Variable slice : B -> N -> N -> option B.
Hypothesis Hunplain : forall x, unplain (plain x) = Some x.
Hypothesis Hslice : forall d x a b, unplain d = Some x ->
  slice d a b = if lenN x <=? a then None
                else Some (plain (firstn (N.to_nat (b + 1 - a)) (skipn (N.to_nat a) x))).
Variable sp : sparams.
Variable enc ienc : bytes -> bytes.
Variable idx_decode : bytes -> option bytes.
Variable data_o : bytes -> outcome bytes.
Hypothesis HB : cbits sp < 2 ^ 64.
Hypothesis Hid : forall b, idx_decode (ienc b) = Some b.
Hypothesis Hdo : forall b, data_o (enc b) = Ok b.
Hypothesis Hne : forall b, b <> [] -> ienc b <> [].
Hypothesis Hm : sp_m sp < 59.
Notation T := (2 ^ sp_m sp).
Notation io := (idx_o idx_decode).
Notation skey := (shard_key_model (sp_p sp) (sp_m sp) (sp_s sp)).

Variable ops : list (N * bytes).
Variable id : N.
Variable b : bytes.
Hypothesis Hv : ops_valid sp ops.
Hypothesis H63 : sizes_ok63 sp enc ienc ops.
Hypothesis Hin : In (id, b) ops.

Notation d := (desc_of sp ops (skey id)).
Notation f := (shard_bytes sp enc ienc (desc_of sp ops (skey id))).

(* everything C05 knows about the shard file of a stored identifier *)
Lemma stored_facts :
  dir_of (sp_s sp) (session_files sp enc ienc ops) (skey id) = SrcShard f /\
  fetch_inb sp idx_decode (SrcShard f) id = true /\
  (exists raw, shard_fetch_raw sp io (SrcShard f) id = Ok raw /\ data_o raw = Ok b) /\
  hl sp <= lenN f /\
  (forall dct off len, populate sp io (SrcShard f) = Ok dct -> dict_locate sp dct id = Ok (off, len) ->
     hl sp <= off).
Proof.
  pose proof (Hio _ _ Hid) as Hio'.
  pose proof (dir_of_session sp enc ienc HB Hm ops id b Hv H63 Hin) as Edir.
  destruct (desc_position sp ops id b Hv Hin) as (pre & e & post & Ed & Ee & Hl).
  pose proof (desc_of_ok63 sp enc ienc HB Hm ops (skey id) Hv H63) as Hd63.
  assert (Hel : elem_ok sp e).
  { destruct Hd63 as ((Hf & _) & _). rewrite Forall_forall in Hf. apply Hf. rewrite Ed. apply in_or_app. right. left. reflexivity. }
  destruct (elem_facts sp HB e Hel) as (Ke & HK & Emb & Hok & Hids & Hrank).
  destruct (Hrank id b Hl) as (Hi & Eid).
  assert (Hhl : hl sp = 16 * T) by (apply hl_eq; assumption).
  split; [exact Edir|]. split; [|split; [|split]].
  - pose proof (desc_guard sp enc ienc idx_decode HB Hid Hne Hm d pre e post Ke _ Hd63 Ed HK Emb Hi) as G.
    rewrite <- Eid in G. exact G.
  - pose proof (impl_reads_canonical sp enc ienc io data_o HB Hio' Hdo Hne Hm ops id b Hv H63 Hin) as Hc.
    unfold scale_fetch, shard_fetch in Hc. rewrite Edir in Hc.
    destruct (shard_fetch_raw sp io (SrcShard f) id) as [raw| | | | | |]; try discriminate.
    exists raw. split; [reflexivity | exact Hc].
  - rewrite (shard_bytes_len sp enc ienc HB Hm d Hd63), Hhl. lia.
  - intros dct off len Ep El.
    rewrite (populate_written sp enc ienc io HB Hio' Hne Hm d Hd63) in Ep. injection Ep as <-.
    destruct (session_locate sp enc ienc idx_decode HB Hid Hne Hm d pre e post Ke _ Hd63 Ed HK Emb Hi) as (Eloc & _).
    rewrite <- Eid in Eloc. rewrite Eloc in El.
    pose proof (f_equal (fun o : outcome (N * N) => match o with Ok p => fst p | _ => 0 end) El) as E.
    cbn beta iota in E. cbn [fst] in E. rewrite <- E, Hhl. lia.
Qed.

Lemma session_no_gz : forall x, blookup (x ++ gz_suffix) (session_files sp enc ienc ops) = None.
Proof.
  intro x. apply blookup_none. intros nv Hnv Ename.
  rewrite (session_files_explicit sp enc ienc HB ops ltac:(lia) Hv (sizes63_ok sp enc ienc HB Hm ops H63)) in Hnv.
  apply in_map_iff in Hnv. destruct Hnv as (kv & <- & _). cbn [fst] in Ename. unfold shard_file_name in Ename.
  apply shard_ne_gz in Ename. exact Ename.
Qed.

Variable sc : scfg.
Variable t : fs B.
Variable upath : list N.
Hypothesis Hrw : s_rewrite sc = false.
Hypothesis Htc : tree_closed B t.
Hypothesis Hclean : cleanb (sdir sc upath) = true.

(* C14_http_sharded_returns_stored, single .shard files *)
Theorem http_sharded_returns_stored :
  dir_holds B plain t (sdir sc upath) (session_files sp enc ienc ops) ->
  forall n,
  fst (hrun B (serve B (plain []) slice sc t) n
         (http_shard_fetch B plain gunzip unplain sp idx_decode data_o (scale_url sc upath) id))
  = Ok (plain b).
Proof.
  intros Hholds n. destruct stored_facts as (Edir & Hg & (raw & Eraw & Edec) & _ & _).
  unfold http_shard_fetch, shard_name_of.
  assert (Esrc : tree_src B unplain t (sdir sc upath) (shard_name_model (sp_s sp) (skey id)) = SrcShard f).
  { rewrite (holds_tree_src B plain unplain Hunplain t (sdir sc upath) _ Hholds). exact Edir. }
  rewrite (http_eq_reader_tree_norm B plain gunzip unplain slice Hunplain Hslice sc t upath Hrw Htc Hclean
             sp idx_decode data_o (shard_name_model (sp_s sp) (skey id))).
  - rewrite Esrc, Eraw. cbn [bind]. rewrite Edec. reflexivity.
  - apply shard_name_ok.
  - intros suffix _. apply (holds_nogz B plain t (sdir sc upath) _ Hholds). apply session_no_gz.
  - intros suffix d0 _. apply (holds_plain B plain unplain Hunplain t (sdir sc upath) _ Hholds).
  - rewrite Esrc. discriminate.
  - rewrite Esrc. exact Hg.
Qed.

(* ... and the legacy layout of the same shard file: its first hl bytes as
   <name>.index, the rest as <name>.data, no <name>.shard *)
Theorem http_sharded_legacy_returns_stored : forall files' fl,
  dir_holds B plain t (sdir sc upath) files' ->
  blookup (shard_name_of sp id ++ ext_shard) (session_files sp enc ienc ops) = Some fl ->
  blookup (shard_name_of sp id ++ ext_shard) files' = None ->
  blookup (shard_name_of sp id ++ ext_index) files' = Some (firstn (N.to_nat (hl sp)) fl) ->
  blookup (shard_name_of sp id ++ ext_data) files' = Some (skipn (N.to_nat (hl sp)) fl) ->
  (forall suffix, In suffix [s_shard; s_index; s_data] ->
     blookup ((shard_name_of sp id ++ suffix) ++ gz_suffix) files' = None) ->
  forall n,
  fst (hrun B (serve B (plain []) slice sc t) n
         (http_shard_fetch B plain gunzip unplain sp idx_decode data_o (scale_url sc upath) id))
  = Ok (plain b).
Proof.
  intros files' fl Hholds Hfl Hns Hix Hdt Hgz n.
  destruct stored_facts as (Edir & Hg & (raw & Eraw & Edec) & Hhl & Hoff).
  assert (Efl : fl = f).
  { unfold dir_of in Edir. unfold shard_name_of in Hfl. rewrite Hfl in Edir. congruence. }
  subst fl.
  set (name := shard_name_model (sp_s sp) (skey id)).
  set (sL := SrcLegacy (firstn (N.to_nat (hl sp)) f) (skipn (N.to_nat (hl sp)) f)).
  assert (Esrc : tree_src B unplain t (sdir sc upath) name = sL).
  { unfold name. rewrite (holds_tree_src B plain unplain Hunplain t (sdir sc upath) _ Hholds).
    unfold dir_of. unfold shard_name_of in Hns, Hix, Hdt. rewrite Hns, Hix, Hdt. reflexivity. }
  assert (Hname : no_slash name /\ name <> []) by apply shard_name_ok.
  assert (Hnogz : forall suffix, In suffix [s_shard; s_index; s_data] ->
            file_at B t (with_gz (shard_file (sdir sc upath) name suffix)) = None).
  { intros suffix Hs. apply (holds_nogz B plain t (sdir sc upath) _ Hholds). apply Hgz. exact Hs. }
  assert (Hpl : forall suffix d0, In suffix [s_shard; s_index; s_data] ->
            lookup B t (shard_file (sdir sc upath) name suffix) = Some (File d0) -> exists x, unplain d0 = Some x).
  { intros suffix d0 _. apply (holds_plain B plain unplain Hunplain t (sdir sc upath) _ Hholds). }
  unfold http_shard_fetch, http_shard_fetch_named, shard_name_of. fold name.
  rewrite (http_eq_local_sharded B plain gunzip unplain slice Hunplain Hslice sc t upath name
             Hrw Htc Hclean Hname Hnogz Hpl).
  rewrite (algo_is_reader sp idx_decode data_o (SrcShard f) _ true).
  - rewrite Eraw. cbn [bind]. rewrite Edec. reflexivity.
  - discriminate.
  - pose proof (tree_routes B unplain t (sdir sc upath) name Htc Hclean Hname Hpl) as Hr.
    rewrite Esrc in Hr. apply Hr. discriminate.
  - apply inb_agree_gen; [|exact Hg|].
    + intros off len Hi Hap.
      destruct (legacy_read_same sp f off len Hhl Hap Hi) as [HiL EL]. fold sL in HiL, EL.
      pose proof (local_rd_agree B unplain sp t (sdir sc upath) name off len) as Hl. rewrite Esrc in Hl.
      rewrite <- EL. apply Hl. exact HiL.
    + intros dct off len Ep El. right. apply (Hoff dct off len Ep El).
Qed.

End EndToEnd.

(* ====================================================================== *)
(* Non-vacuity: the dataset of C05's reader example (minishard_bits = 2,
   shard_bits = 2, preshift_bits = 0; four chunks, one of them empty, all in
   shard 2, minishards 0 and 2), written by the writer model, put into a tree
   below /k, served by the documented server at "h", read by the sharded HTTP
   accessor model; the same with shard 2 in the legacy .index/.data layout.
   Everything below is evaluated by the kernel. *)
Definition ex_sp : sparams := {| sp_m := 2; sp_s := 2; sp_p := 0 |}.
Definition ex_ops : list (N * bytes) := [(10, [9; 9; 9]); (8, [2; 2; 2]); (26, []); (40, [7])].
Definition ex_raw (b : bytes) : bytes := b.
Definition ex_dec (b : bytes) : option bytes := Some b.
Definition ex_data (b : bytes) : outcome bytes := Ok b.
Definition ex_files : list (bytes * bytes) := session_files ex_sp ex_raw ex_raw ex_ops.
Definition ex_upath : list N := [47; 107].                      (* "/k" *)
Definition ex_tree : fs blob := tree_of blob BPlain (sdir w_site ex_upath) ex_files.
Definition ex_legacy_files : list (bytes * bytes) :=
  match blookup (shard_name_of ex_sp 10 ++ ext_shard) ex_files with
  | Some fl => legacy_split (hl ex_sp) (shard_name_of ex_sp 10) fl
  | None => []
  end.
Definition ex_legacy_tree : fs blob := tree_of blob BPlain (sdir w_site ex_upath) ex_legacy_files.
Definition ex_fetch (t : fs blob) (id : N) : outcome blob :=
  fst (hrun blob (serve blob (BPlain []) w_slice w_site t) 0
         (http_shard_fetch blob BPlain (blob_gunzip []) w_unplain ex_sp ex_dec ex_data
            (scale_url w_site ex_upath) id)).

Lemma w_unplain_plain : forall x, w_unplain (BPlain x) = Some x.
Proof. reflexivity. Qed.

Lemma w_slice_range : forall d x a b, w_unplain d = Some x ->
  w_slice d a b = if lenN x <=? a then None
                  else Some (BPlain (firstn (N.to_nat (b + 1 - a)) (skipn (N.to_nat a) x))).
Proof. intros [x'|l0 x'|k0 o0] x a b H; simpl in H; try discriminate. injection H as ->. reflexivity. Qed.

Example http_sharded_example :
  (* hypotheses of C14_http_sharded_returns_stored *)
  cbits ex_sp < 2 ^ 64 /\ sp_m ex_sp < 59 /\ ops_valid ex_sp ex_ops /\ sizes_ok63 ex_sp ex_raw ex_raw ex_ops /\
  (forall b, ex_dec (ex_raw b) = Some b) /\ (forall b, ex_data (ex_raw b) = Ok b) /\
  (forall b : bytes, b <> [] -> ex_raw b <> []) /\
  s_rewrite w_site = false /\ tree_closed blob ex_tree /\ cleanb (sdir w_site ex_upath) = true /\
  dir_holds blob BPlain ex_tree (sdir w_site ex_upath) ex_files /\
  (* every stored chunk comes back over HTTP *)
  map (ex_fetch ex_tree) [10; 8; 26; 40]
    = [Ok (BPlain [9; 9; 9]); Ok (BPlain [2; 2; 2]); Ok (BPlain []); Ok (BPlain [7])] /\
  (* legacy layout of the same shard file: hypotheses and result *)
  (exists fl, blookup (shard_name_of ex_sp 10 ++ ext_shard) ex_files = Some fl /\
     blookup (shard_name_of ex_sp 10 ++ ext_shard) ex_legacy_files = None /\
     blookup (shard_name_of ex_sp 10 ++ ext_index) ex_legacy_files = Some (firstn (N.to_nat (hl ex_sp)) fl) /\
     blookup (shard_name_of ex_sp 10 ++ ext_data) ex_legacy_files = Some (skipn (N.to_nat (hl ex_sp)) fl) /\
     lenN (firstn (N.to_nat (hl ex_sp)) fl) = 64 /\ lenN (skipn (N.to_nat (hl ex_sp)) fl) = 127) /\
  tree_closed blob ex_legacy_tree /\
  dir_holds blob BPlain ex_legacy_tree (sdir w_site ex_upath) ex_legacy_files /\
  map (ex_fetch ex_legacy_tree) [10; 8; 26; 40]
    = [Ok (BPlain [9; 9; 9]); Ok (BPlain [2; 2; 2]); Ok (BPlain []); Ok (BPlain [7])] /\
  (* C14_http_sharded_eq_local_reader beyond the stored identifiers: the guard
     holds and both readers agree on an identifier in a gap (24), on one whose
     minishard does not exist (9), and in the legacy layout *)
  forallb (fun id => fetch_inb ex_sp ex_dec (dir_of 2 ex_files 2) id) [10; 8; 26; 40; 24; 9] = true /\
  forallb (fun id => fetch_inb ex_sp ex_dec (dir_of 2 ex_legacy_files 2) id) [10; 8; 26; 40; 24; 9] = true /\
  ex_fetch ex_tree 24 = Ok (BPlain []) /\
  scale_fetch ex_sp (idx_o ex_dec) ex_data (dir_of 2 ex_files) 24 = Ok [] /\
  ex_fetch ex_tree 9 = Crash AssertionError /\
  scale_fetch ex_sp (idx_o ex_dec) ex_data (dir_of 2 ex_files) 9 = Crash AssertionError /\
  ex_fetch ex_legacy_tree 24 = Ok (BPlain []) /\
  (* C14_http_sharded_missing: identifier 1 lives in shard 0, which was never written *)
  dir_of 2 ex_files (shard_key_model 0 2 2 1) = SrcNone /\
  ex_fetch ex_tree 1 = IOErr /\
  scale_fetch ex_sp (idx_o ex_dec) ex_data (dir_of 2 ex_files) 1 = Crash AssertionError.
Proof.
  destruct impl_hyps_example as (H1 & H2 & H3 & H4 & _).
  split; [exact H1|]. split; [exact H2|]. split; [exact H3|]. split; [exact H4|].
  split; [reflexivity|]. split; [reflexivity|]. split; [intros b Hb; exact Hb|].
  split; [reflexivity|]. split; [apply tree_of_closed|]. split; [reflexivity|].
  split; [apply tree_of_holds|]. split; [vm_compute; reflexivity|].
  split.
  { vm_compute. eexists. repeat split. }
  split; [apply tree_of_closed|]. split; [apply tree_of_holds|].
  vm_compute. repeat split.
Qed.
