(* Glue between the chunk representation of the conversion models (VolModel's
   vchunk / ConvModel's cchunk: (X,Y,Z) extents + flat data in (C,Z,Y,X)
   order) and the 4-D arrays [arr4] of the chunk codecs, and the concrete
   codecs obtained through it.  With these, the abstract codec parameters of
   C01_convert_pointwise and C13_convert_pointwise are instantiated (proofs
   and closed statements: LinkVolumeProofs.v).

   The voxel type is the element type [num] of the data-type transformer
   (Convert.v), so that the element-wise map f of the conversion models IS
   [convert_scalar i o], with no wrapper around it.

   A vchunk does not carry its channel axis: the number of channels is the
   codec's (info["num_channels"]); a chunk whose data length is not
   num_channels * X * Y * Z is not a (num_channels, Z, Y, X) array.  An array
   handed to an encoder for an unsigned integer data type holds integers of
   that type: anything else (a float element, a value outside the type's
   range, a negative extent) is not such an array, and the model says so
   explicitly (Crash TypeError, as LinkCodec.raw_enc does) instead of
   encoding something. *)
From Coq Require Import NArith ZArith List Bool Lia.
From NGS Require Import Val Ints PioModel Words Arr4 CSegEncode CSegDecode RawCodec LinkCodec.
From NGS Require Import DType Convert.
Import ListNotations.

(* ---- data types ---- *)

(* unsigned integer types: the integer types Neuroglancer stores *)
Definition uint_dt (d : DType.dtype) : bool := is_int d && negb (is_signed d).

(* np.dtype(d).itemsize *)
Definition dt_isz (d : DType.dtype) : N :=
  match d with
  | I8 | U8 => 1 | I16 | U16 => 2 | I32 | DType.U32 | F32 => 4 | I64 | DType.U64 | F64 => 8
  end%N.

(* the two label types of compressed_segmentation as scalar types *)
Definition label_dt (dt : Words.dtype) : DType.dtype :=
  match dt with Words.U32 => DType.U32 | Words.U64 => DType.U64 end.

(* ---- elements ---- *)

(* an element of an unsigned integer array with values below [bound] *)
Definition num_to_N (bound : N) (v : num) : option N :=
  match v with
  | NI z => if ((0 <=? z) && (z <? Z.of_N bound))%Z then Some (Z.to_N z) else None
  | NF _ => None
  end.

Fixpoint nums_to_N (bound : N) (l : list num) : option (list N) :=
  match l with
  | [] => Some []
  | v :: r =>
      match num_to_N bound v, nums_to_N bound r with
      | Some n, Some ns => Some (n :: ns)
      | _, _ => None
      end
  end.

Definition N_to_num (n : N) : num := NI (Z.of_N n).

(* an integer volume as a volume of elements *)
Definition zvol (vol : Z -> Z -> Z -> Z -> Z) : Z -> Z -> Z -> Z -> num :=
  fun x y z ch => NI (vol x y z ch).

(* ---- chunks ---- *)

Definition nchunk := (triple * list num)%type.    (* = vchunk num = cchunk num *)

(* the (nc, Z, Y, X) array of a chunk, if it is one *)
Definition arr_of_chunk (bound nc : N) (ch : nchunk) : option arr4 :=
  let '(x, y, z) := fst ch in
  if ((0 <=? x) && (0 <=? y) && (0 <=? z))%Z then
    match nums_to_N bound (snd ch) with
    | Some d =>
        let a := {| a_c := nc; a_z := Z.to_N z; a_y := Z.to_N y; a_x := Z.to_N x; a_data := d |} in
        if (lenN d =? size4 a)%N then Some a else None
    | None => None
    end
  else None.

Definition chunk_of_arr (a : arr4) : nchunk := (arr_shape a, map N_to_num (a_data a)).

(* ---- codecs on chunks, from codecs on arrays ---- *)

Definition venc (bound nc : N) (enc : arr4 -> outcome (list N))
           (_ : list N) (ch : nchunk) : outcome (list N) :=
  match arr_of_chunk bound nc ch with
  | Some a => enc a
  | None => Crash TypeError
  end.

(* decode(buf, chunk_size).  A negative chunk size (an info file with a
   negative chunk size; -1 even means "infer this axis" to np.reshape) is
   outside the modelled domain of the array codecs, whose extents are
   naturals: the model reports InvalidFormatError for it instead of decoding
   with a clipped extent, so a result, when there is one, always has exactly
   the requested extents. *)
Definition vdec (dec : N -> N -> N -> list N -> outcome arr4)
           (_ : list N) (b : list N) (e : triple) : outcome nchunk :=
  let '(x, y, z) := e in
  if ((0 <=? x) && (0 <=? y) && (0 <=? z))%Z then
    bind (dec (Z.to_N x) (Z.to_N y) (Z.to_N z) b) (fun a => Ok (chunk_of_arr a))
  else FormatErr.

(* RawChunkEncoder for an unsigned integer type of [isz] bytes *)
Definition vraw_enc (isz nc : N) : list N -> nchunk -> outcome (list N) :=
  venc (two8 ^ isz) nc (raw_encode isz nc).
Definition vraw_dec (isz nc : N) : list N -> list N -> triple -> outcome nchunk :=
  vdec (raw_decode isz nc).

(* CompressedSegmentationEncoder *)
Definition vcseg_enc (dt : Words.dtype) (nc : N) (g : geom) : list N -> nchunk -> outcome (list N) :=
  venc (dt_bound dt) nc (cseg_encode dt nc g).
Definition vcseg_dec (dt : Words.dtype) (nc : N) (g : geom) : list N -> list N -> triple -> outcome nchunk :=
  vdec (cseg_decode dt nc g).
