(* Closed instance of PioHandlesProofs.handles_read_last_written: a dataset
   whose scales each use the raw or the compressed_segmentation codec (per-scale
   encoder selection, the last scale with a key wins as in PrecomputedIO's
   dictionaries), with the modelled codecs of C10 / C02. *)
From Coq Require Import NArith ZArith List Bool Lia.
From NGS Require Import Val Ints PioModel PioProofs PioHandles PioHandlesProofs Words Arr4 CSegEncode
     CSegDecode RawCodec LinkCodec LinkProofs.
Import ListNotations.

Record dinfo := {
  d_isz : N;                                   (* item size of the data type, bytes *)
  d_nc : N;                                    (* num_channels *)
  d_dt : dtype;                                (* label type used by compressed_segmentation scales *)
  d_scales : list (scale * option geom)        (* Some g: compressed_segmentation with block geometry g *)
}.

Definition d_scales_of (i : dinfo) : list scale := map fst (d_scales i).

Fixpoint enc_sel (l : list (scale * option geom)) (k : list N) : option (option geom) :=
  match l with
  | [] => None
  | (s, e) :: r => match enc_sel r k with
                   | Some x => Some x
                   | None => if key_eqb k (sc_key s) then Some e else None
                   end
  end.

Definition d_encode (i : dinfo) (k : list N) (a : arr4) : outcome (list N) :=
  match enc_sel (d_scales i) k with
  | Some (Some g) => cseg_enc (d_dt i) (d_nc i) g k a
  | Some None => raw_enc (d_isz i) (d_nc i) k a
  | None => Crash KeyError
  end.

Definition d_decode (i : dinfo) (k : list N) (b : list N) (e : triple) : outcome arr4 :=
  match enc_sel (d_scales i) k with
  | Some (Some g) => cseg_dec (d_dt i) (d_nc i) g k b e
  | Some None => raw_dec (d_isz i) (d_nc i) k b e
  | None => Crash KeyError
  end.

Lemma d_roundtrip i : d_isz i <> 0%N ->
  forall k a b, d_encode i k a = Ok b -> d_decode i k b (arr_shape a) = Ok a.
Proof.
  intros Hisz k a b. unfold d_encode, d_decode.
  destruct (enc_sel (d_scales i) k) as [[g|]|]; intro He.
  - apply cseg_link_roundtrip; exact He.
  - apply raw_link_roundtrip; [exact Hisz|exact He].
  - discriminate He.
Qed.

Theorem handles_read_last_written_codecs :
  forall (check : dinfo -> outcome unit) ops (st : hstate dinfo (list N)) i h j k c,
  d_isz i <> 0%N ->
  Forall (no_overwrite dinfo arr4) ops -> Forall (hwell_shaped dinfo arr4 arr_shape) ops ->
  agree dinfo (list N) st -> h_info st = Some i -> h_chunks st = [] ->
  nth_error (h_handles (fst (hrun dinfo arr4 (list N) d_scales_of check d_encode d_decode st ops))) h = Some j ->
  check_valid (d_scales_of i) k c = Ok tt ->
  read_chunk arr4 (list N) (d_decode j) (d_scales_of j)
    (h_chunks (fst (hrun dinfo arr4 (list N) d_scales_of check d_encode d_decode st ops))) k c
  = match last_written arr4 (list N) (d_encode i) (d_scales_of i)
            (proj dinfo arr4 check i (length (h_handles st)) ops) k c None with
    | Some a => Ok a
    | None => AccessErr
    end.
Proof.
  intros check ops st i h j k c Hisz Hno Hws Hag Hi He Hn Hv.
  exact (handles_read_last_written dinfo arr4 (list N) d_scales_of check d_encode d_decode arr_shape
           ops st i h j k c (d_roundtrip i Hisz) Hno Hws Hag Hi He Hn Hv).
Qed.
