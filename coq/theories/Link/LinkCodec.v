(* Instantiation of the abstract codec of PioModel (C03) with the modelled
   raw and compressed_segmentation encoders (C02/C10): the hypothesis
   "decode (encode chunk) = chunk" of C03_io_refinement is then discharged by
   the codec theorems, giving closed statements about writing and reading
   real chunks through the I/O layer. *)
From Coq Require Import NArith ZArith List Bool Lia.
From NGS Require Import Val Ints PioModel Words Arr4 CSegEncode CSegDecode RawCodec.
Import ListNotations.

(* an array of a NumPy dtype always holds values below 2^(8*itemsize): the
   model makes that explicit (an ill-formed array is not a NumPy array) *)
Definition raw_enc (isz nc : N) (_ : list N) (a : arr4) : outcome (list N) :=
  if wf_arrb (two8 ^ isz) a then raw_encode isz nc a else Crash TypeError.
Definition raw_dec (isz nc : N) (_ : list N) (b : list N) (e : triple) : outcome arr4 :=
  let '(x, y, z) := e in raw_decode isz nc (Z.to_N x) (Z.to_N y) (Z.to_N z) b.

Definition cseg_enc (dt : dtype) (nc : N) (g : geom) (_ : list N) (a : arr4) : outcome (list N) :=
  if wf_arrb (dt_bound dt) a then cseg_encode dt nc g a else Crash TypeError.
Definition cseg_dec (dt : dtype) (nc : N) (g : geom) (_ : list N) (b : list N) (e : triple)
  : outcome arr4 :=
  let '(x, y, z) := e in cseg_decode dt nc g (Z.to_N x) (Z.to_N y) (Z.to_N z) b.

(* (X, Y, Z) extents of a (C, Z, Y, X) array *)
Definition arr_shape (a : arr4) : triple := (Z.of_N (a_x a), Z.of_N (a_y a), Z.of_N (a_z a)).
