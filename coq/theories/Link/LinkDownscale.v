(* Link between the two separately developed downscaling layers.

   C06 (Pyramid/PyrTiling.v) proves the tiling of compute_dyadic_downscaling
   for its OWN executable downscalers [ds_stride], [ds_avg], [ds_majority] over
   the functional array type [arr].  C07 (Num/Downscale.v) models the package's
   StridingDownscaler / MajorityDownscaler / AveragingDownscaler over nested
   lists [arr4] and proves them equal to the specifications [stride_spec],
   [is_majority] / [majority_ref] / [majority_spec], [avg_spec] / [mean_rhe].

   This file defines the conversion between the two array representations and
   proves that the C06 downscalers ARE the C07 specifications (hence, through
   the C07 theorems, the C07 models), voxel by voxel and as whole arrays; the
   tiling theorem of C06 is then restated for the package's averaging model. *)
From Coq Require Import ZArith QArith List Bool Arith Lia.
From NGS Require Import Val Ints DType FloatModel Convert Downscale DownscaleProofs
     ConvertFloatProofs AverageProofs AverageBlock.
From NGS Require Import PyrScales PyrScalesProofs PyrTiling PyrTilingProofs PyrCompute
     PyrComputeProofs.
Import ListNotations.
Close Scope Q_scope.
Open Scope Z_scope.
Ltac Zify.zify_post_hook ::= Z.to_euclidean_division_equations.

(* ---------- the two array representations ---------- *)

(* reading a (C, Z, Y, X) nested list at a channel and an (x, y, z) position *)
Definition get4z {A} (d : A) (a : arr4 A) (c : Z) (p : t3) : A :=
  let '(x, y, z) := p in get4 d a (Z.to_nat c) (Z.to_nat z) (Z.to_nat y) (Z.to_nat x).

(* (x, y, z) extents of a (nz, ny, nx) list shape *)
Definition sh3 (nz ny nx : nat) : t3 := (Z.of_nat nx, Z.of_nat ny, Z.of_nat nz).

(* C07 array of shape (nc, nz, ny, nx) -> C06 array, by indexing *)
Definition arr_of4 (nc nz ny nx : nat) (a : arr4 Z) : arr :=
  {| a_c := Z.of_nat nc; a_sh := sh3 nz ny nx; a_get := get4z 0 a |}.

(* C06 array -> C07 array, by tabulation *)
Definition arr4_of (a : arr) : arr4 Z :=
  let '(sx, sy, sz) := a_sh a in
  tab (Z.to_nat (a_c a)) (fun c => tab (Z.to_nat sz) (fun z => tab (Z.to_nat sy) (fun y =>
  tab (Z.to_nat sx) (fun x => a_get a (Z.of_nat c) (Z.of_nat x, Z.of_nat y, Z.of_nat z))))).

(* factors: the Python sequence (Dx, Dy, Dz) of a triple, and its components
   as the C07 layer reads them *)
Definition fx_of (f : t3) : nat := fac (list3 f) 0.
Definition fy_of (f : t3) : nat := fac (list3 f) 1.
Definition fz_of (f : t3) : nat := fac (list3 f) 2.

Lemma fx_of_eq : forall f, fx_of f = Z.to_nat (get3 AX f).
Proof. intros [[x y] z]. reflexivity. Qed.
Lemma fy_of_eq : forall f, fy_of f = Z.to_nat (get3 AY f).
Proof. intros [[x y] z]. reflexivity. Qed.
Lemma fz_of_eq : forall f, fz_of f = Z.to_nat (get3 AZ f).
Proof. intros [[x y] z]. reflexivity. Qed.

Lemma arr4_of_arr_of4 : forall nc nz ny nx (a : arr4 Z),
  rect4 nc nz ny nx a -> arr4_of (arr_of4 nc nz ny nx a) = a.
Proof.
  intros nc nz ny nx a Hr. unfold arr4_of, arr_of4, sh3. cbn [a_sh a_c a_get].
  rewrite !Nat2Z.id. symmetry. etransitivity; [exact (rect4_tab Z 0 nc nz ny nx a Hr)|].
  apply tab_ext. intros c _. apply tab_ext. intros z _. apply tab_ext. intros y _.
  apply tab_ext. intros x _. unfold get4z. rewrite !Nat2Z.id. reflexivity.
Qed.

Lemma arr4_of_rect : forall a,
  rect4 (Z.to_nat (a_c a)) (Z.to_nat (get3 AZ (a_sh a))) (Z.to_nat (get3 AY (a_sh a)))
        (Z.to_nat (get3 AX (a_sh a))) (arr4_of a).
Proof.
  intros a. unfold arr4_of. destruct (a_sh a) as [[sx sy] sz]. cbn [get3]. apply rect_tab4.
Qed.

Lemma arr_of4_arr4_of : forall a,
  0 <= a_c a -> (forall ax, 0 <= get3 ax (a_sh a)) ->
  arr_eq (arr_of4 (Z.to_nat (a_c a)) (Z.to_nat (get3 AZ (a_sh a))) (Z.to_nat (get3 AY (a_sh a)))
                  (Z.to_nat (get3 AX (a_sh a))) (arr4_of a)) a.
Proof.
  intros a Hc Hs. pose proof (Hs AX) as Hx. pose proof (Hs AY) as Hy. pose proof (Hs AZ) as Hz.
  unfold arr_eq, arr_of4, arr4_of, sh3. destruct (a_sh a) as [[sx sy] sz] eqn:Esh.
  cbn [get3 a_sh a_c a_get] in *. rewrite !Z2Nat.id by assumption.
  split; [reflexivity | split; [reflexivity|]].
  intros c [[x y] z] Hci Hp.
  pose proof (Hp AX) as Px. pose proof (Hp AY) as Py. pose proof (Hp AZ) as Pz. cbn [get3] in *.
  unfold get4z. rewrite get4_tab4 by lia. rewrite !Z2Nat.id by lia. reflexivity.
Qed.

(* ---------- ceil_div on Z and on nat ---------- *)

Lemma ceil_div_of_nat : forall n f, (1 <= f)%nat ->
  ceil_div (Z.of_nat n) (Z.of_nat f) = Z.of_nat (cdiv n f).
Proof.
  intros n f Hf. unfold ceil_div, cdiv.
  rewrite Nat2Z.inj_div. replace (Z.of_nat (n + f - 1)) with (Z.of_nat n - 1 + 1 * Z.of_nat f) by lia.
  rewrite Z.div_add by lia. reflexivity.
Qed.

(* positive factors as naturals *)
Definition fpos (f : t3) : Prop := forall ax, 1 <= get3 ax f.

Lemma ds_shape_sh3 : forall f nc nz ny nx (a : arr4 Z), fpos f ->
  ds_shape f (arr_of4 nc nz ny nx a)
  = sh3 (cdiv nz (fz_of f)) (cdiv ny (fy_of f)) (cdiv nx (fx_of f)).
Proof.
  intros f nc nz ny nx a Hf. rewrite fx_of_eq, fy_of_eq, fz_of_eq.
  pose proof (Hf AX) as Hx. pose proof (Hf AY) as Hy. pose proof (Hf AZ) as Hz.
  destruct f as [[fx fy] fz]. cbn [get3] in *.
  unfold ds_shape, arr_of4, sh3, cdiv3. cbn [a_sh zip3].
  rewrite <- (Z2Nat.id fx) at 1 by lia. rewrite <- (Z2Nat.id fy) at 1 by lia.
  rewrite <- (Z2Nat.id fz) at 1 by lia.
  rewrite !ceil_div_of_nat by lia. reflexivity.
Qed.

(* ---------- striding ---------- *)

Lemma link_stride_at : forall f nc nz ny nx (a : arr4 Z) c z y x, fpos f ->
  a_get (ds_stride f (arr_of4 nc nz ny nx a)) (Z.of_nat c) (Z.of_nat x, Z.of_nat y, Z.of_nat z)
  = stride_spec_at 0 (fx_of f) (fy_of f) (fz_of f) a c z y x.
Proof.
  intros f nc nz ny nx a c z y x Hf. rewrite fx_of_eq, fy_of_eq, fz_of_eq.
  pose proof (Hf AX) as Hx. pose proof (Hf AY) as Hy. pose proof (Hf AZ) as Hz.
  destruct f as [[fx fy] fz]. cbn [get3] in *.
  unfold ds_stride, arr_of4, stride_spec_at, get4z, mul3. cbn [a_get zip3].
  f_equal; lia.
Qed.

(* the C06 striding downscaler is the C07 specification array *)
Theorem link_stride : forall f nc nz ny nx (a : arr4 Z), fpos f ->
  arr4_of (ds_stride f (arr_of4 nc nz ny nx a))
  = stride_spec 0 (fx_of f) (fy_of f) (fz_of f) nc nz ny nx a.
Proof.
  intros f nc nz ny nx a Hf. unfold arr4_of.
  change (a_sh (ds_stride f (arr_of4 nc nz ny nx a))) with (ds_shape f (arr_of4 nc nz ny nx a)).
  rewrite (ds_shape_sh3 f nc nz ny nx a Hf). unfold sh3.
  change (a_c (ds_stride f (arr_of4 nc nz ny nx a))) with (Z.of_nat nc).
  rewrite !Nat2Z.id. unfold stride_spec.
  apply tab_ext. intros c _. apply tab_ext. intros z _. apply tab_ext. intros y _.
  apply tab_ext. intros x _. apply link_stride_at. exact Hf.
Qed.

(* the same, read at integer coordinates of the C06 array *)
Lemma f_as_nat : forall f, fpos f ->
  f = (Z.of_nat (fx_of f), Z.of_nat (fy_of f), Z.of_nat (fz_of f)).
Proof.
  intros f Hf. rewrite fx_of_eq, fy_of_eq, fz_of_eq.
  pose proof (Hf AX) as Hx. pose proof (Hf AY) as Hy. pose proof (Hf AZ) as Hz.
  destruct f as [[fx fy] fz]. cbn [get3] in *. rewrite !Z2Nat.id by lia. reflexivity.
Qed.

Lemma fpos_nat : forall f, fpos f -> (1 <= fx_of f /\ 1 <= fy_of f /\ 1 <= fz_of f)%nat.
Proof.
  intros f Hf. rewrite fx_of_eq, fy_of_eq, fz_of_eq.
  pose proof (Hf AX) as Hx. pose proof (Hf AY) as Hy. pose proof (Hf AZ) as Hz. lia.
Qed.

(* in-range output voxel of a downscaled C06 array, in natural coordinates *)
Lemma out_voxel_nat : forall f nc nz ny nx (a : arr4 Z) c p, fpos f ->
  0 <= c < Z.of_nat nc ->
  (forall ax, 0 <= get3 ax p < get3 ax (ds_shape f (arr_of4 nc nz ny nx a))) ->
  exists c' z y x, c = Z.of_nat c' /\ p = (Z.of_nat x, Z.of_nat y, Z.of_nat z) /\
    (c' < nc /\ z < cdiv nz (fz_of f) /\ y < cdiv ny (fy_of f) /\ x < cdiv nx (fx_of f))%nat.
Proof.
  intros f nc nz ny nx a c p Hf Hc Hp. rewrite (ds_shape_sh3 f nc nz ny nx a Hf) in Hp.
  pose proof (Hp AX) as Px. pose proof (Hp AY) as Py. pose proof (Hp AZ) as Pz.
  destruct p as [[x y] z]. unfold sh3 in *. cbn [get3] in *.
  exists (Z.to_nat c), (Z.to_nat z), (Z.to_nat y), (Z.to_nat x).
  rewrite !Z2Nat.id by lia. repeat split; lia.
Qed.

Theorem link_stride_pointwise : forall f nc nz ny nx (a : arr4 Z) c p, fpos f ->
  0 <= c < Z.of_nat nc ->
  (forall ax, 0 <= get3 ax p < get3 ax (a_sh (ds_stride f (arr_of4 nc nz ny nx a)))) ->
  a_get (ds_stride f (arr_of4 nc nz ny nx a)) c p
  = get4z 0 (stride_spec 0 (fx_of f) (fy_of f) (fz_of f) nc nz ny nx a) c p.
Proof.
  intros f nc nz ny nx a c p Hf Hc Hp.
  destruct (out_voxel_nat f nc nz ny nx a c p Hf Hc Hp) as (c' & z & y & x & -> & -> & H1 & H2 & H3 & H4).
  rewrite link_stride_at by exact Hf. unfold get4z, stride_spec. rewrite !Nat2Z.id.
  rewrite get4_tab4 by assumption. reflexivity.
Qed.

(* ... and the C06 striding downscaler is what the C07 model returns *)
Lemma check_base_list3 : forall f, fpos f -> check_factors_base (list3 f) = true.
Proof.
  intros f Hf. pose proof (Hf AX) as Hx. pose proof (Hf AY) as Hy. pose proof (Hf AZ) as Hz.
  destruct f as [[fx fy] fz]. cbn [get3] in *. unfold check_factors_base, list3.
  cbn [length Nat.eqb forallb andb]. rewrite !andb_true_iff. repeat split; apply Z.leb_le; lia.
Qed.

Theorem link_stride_model : forall f nc nz ny nx (a : arr4 Z), fpos f -> rect4 nc nz ny nx a ->
  stride_model (list3 f) a = Ok (arr4_of (ds_stride f (arr_of4 nc nz ny nx a))).
Proof.
  intros f nc nz ny nx a Hf Hr.
  destruct (stride_spec_full Z 0 (list3 f) nc nz ny nx a (check_base_list3 f Hf) Hr)
    as (out & E & _ & _ & Eo).
  rewrite E, Eo. rewrite (link_stride f nc nz ny nx a Hf). reflexivity.
Qed.

(* ---------- generic facts on flat_map ---------- *)

Lemma flat_map_nil : forall A B (g : A -> list B) l,
  (forall a, In a l -> g a = []) -> flat_map g l = [].
Proof.
  intros A B g l. induction l as [|a r IH]; intros H. reflexivity.
  cbn [flat_map]. rewrite (H a (or_introl eq_refl)). rewrite IH. reflexivity.
  intros b Hb. apply H. right. exact Hb.
Qed.

Lemma flat_map_ext_in' : forall A B (g h : A -> list B) l,
  (forall a, In a l -> g a = h a) -> flat_map g l = flat_map h l.
Proof.
  intros A B g h l. induction l as [|a r IH]; intros H. reflexivity.
  cbn [flat_map]. rewrite (H a (or_introl eq_refl)). rewrite IH. reflexivity.
  intros b Hb. apply H. right. exact Hb.
Qed.

Lemma flat_map_flat_map : forall A B C (g : A -> list B) (h : B -> list C) l,
  flat_map h (flat_map g l) = flat_map (fun a => flat_map h (g a)) l.
Proof.
  intros A B C g h l. induction l as [|a r IH]. reflexivity.
  cbn [flat_map]. rewrite flat_map_app, IH. reflexivity.
Qed.

Lemma flat_map_map : forall A B C (g : A -> B) (h : B -> list C) l,
  flat_map h (map g l) = flat_map (fun a => h (g a)) l.
Proof.
  intros A B C g h l. induction l as [|a r IH]. reflexivity.
  cbn [flat_map map]. rewrite IH. reflexivity.
Qed.

Lemma map_as_flat_map : forall A B (g : A -> B) l, map g l = flat_map (fun a => [g a]) l.
Proof. intros A B g l. induction l as [|a r IH]. reflexivity. cbn [flat_map map app]. rewrite IH. reflexivity. Qed.

Lemma map_filter_flat : forall A B (P : A -> bool) (G : A -> B) l,
  map G (filter P l) = flat_map (fun o => if P o then [G o] else []) l.
Proof.
  intros A B P G l. induction l as [|a r IH]. reflexivity.
  cbn [filter flat_map]. destruct (P a); cbn [map app]; rewrite IH; reflexivity.
Qed.

(* the offsets of a block, as three nested loops over naturals *)
Lemma flat_offs : forall B (h : t3 -> list B) fx fy fz,
  flat_map h (offs (Z.of_nat fx, Z.of_nat fy, Z.of_nat fz))
  = flat_map (fun dz => flat_map (fun dy => flat_map (fun dx =>
      h (Z.of_nat dx, Z.of_nat dy, Z.of_nat dz)) (seq 0 fx)) (seq 0 fy)) (seq 0 fz).
Proof.
  intros B h fx fy fz. unfold offs, levels. rewrite !Nat2Z.id.
  rewrite flat_map_flat_map, flat_map_map. apply flat_map_ext. intro dz.
  rewrite flat_map_flat_map, flat_map_map. apply flat_map_ext. intro dy.
  rewrite !flat_map_map. reflexivity.
Qed.

(* ---------- Python slices as loops ---------- *)

Lemma firstn_snoc : forall A (d : A) l f,
  firstn (S f) l = firstn f l ++ (if (f <? length l)%nat then [nth f l d] else []).
Proof.
  intros A d l. induction l as [|a r IH]; intros f.
  - rewrite !firstn_nil. reflexivity.
  - destruct f as [|f'].
    + reflexivity.
    + rewrite firstn_cons, (IH f'). rewrite firstn_cons. reflexivity.
Qed.

Lemma firstn_loop : forall A (d : A) l f,
  firstn f l = flat_map (fun i => if (i <? length l)%nat then [nth i l d] else []) (seq 0 f).
Proof.
  intros A d l f. induction f as [|f IH]. reflexivity.
  rewrite (firstn_snoc A d), seq_S, flat_map_app, <- IH. cbn [flat_map Nat.add]. rewrite app_nil_r. reflexivity.
Qed.

Lemma nth_skipn' : forall A (d : A) k l i, nth i (skipn k l) d = nth (k + i) l d.
Proof.
  intros A d k. induction k as [|k IH]; intros l i. reflexivity.
  destruct l as [|a r]. destruct i; reflexivity. cbn [skipn Nat.add nth]. apply IH.
Qed.

(* l[i*f : i*f + f] *)
Lemma blk_loop : forall A (d : A) f i l,
  blk f i l = flat_map (fun k => if (i * f + k <? length l)%nat then [nth (i * f + k) l d] else [])
                       (seq 0 f).
Proof.
  intros A d f i l. unfold blk. rewrite (firstn_loop A d). apply flat_map_ext. intro k.
  rewrite skipn_length, nth_skipn'.
  destruct (Nat.ltb_spec k (length l - i * f)); destruct (Nat.ltb_spec (i * f + k) (length l));
    try reflexivity; lia.
Qed.

Lemma flat_map_blk : forall A B (d : A) (K : A -> list B) f i l,
  flat_map K (blk f i l)
  = flat_map (fun k => if (i * f + k <? length l)%nat then K (nth (i * f + k) l d) else []) (seq 0 f).
Proof.
  intros A B d K f i l. rewrite (blk_loop A d), flat_map_flat_map. apply flat_map_ext. intro k.
  destruct (i * f + k <? length l)%nat; cbn [flat_map]. apply app_nil_r. reflexivity.
Qed.

(* the C07 block of an output voxel, as three nested loops *)
Lemma block_at_loop : forall fx fy fz nz ny nx (vol : list (list (list Z))) z y x,
  rect3 nz ny nx vol ->
  block_at fx fy fz vol z y x
  = flat_map (fun dz => flat_map (fun dy => flat_map (fun dx =>
      if ((x * fx + dx <? nx) && (y * fy + dy <? ny) && (z * fz + dz <? nz))%nat
      then [nth (x * fx + dx) (nth (y * fy + dy) (nth (z * fz + dz) vol []) []) 0] else [])
      (seq 0 fx)) (seq 0 fy)) (seq 0 fz).
Proof.
  intros fx fy fz nz ny nx vol z y x [Lz H3]. unfold block_at.
  rewrite <- flat_map_concat_map. rewrite (flat_map_blk _ _ []). rewrite Lz.
  apply flat_map_ext. intro dz.
  destruct (Nat.ltb_spec (z * fz + dz) nz) as [Hz|Hz].
  - assert (H2 : rect2 ny nx (nth (z * fz + dz) vol [])) by (apply Forall_nth_def; [exact H3 | lia]).
    destruct H2 as [Ly H2]. rewrite <- flat_map_concat_map. rewrite (flat_map_blk _ _ []). rewrite Ly.
    apply flat_map_ext. intro dy.
    destruct (Nat.ltb_spec (y * fy + dy) ny) as [Hy|Hy].
    + assert (H1 : rect1 nx (nth (y * fy + dy) (nth (z * fz + dz) vol []) []))
        by (apply Forall_nth_def; [exact H2 | lia]).
      unfold rect1 in H1. rewrite (blk_loop _ 0). rewrite H1. apply flat_map_ext. intro dx.
      rewrite !andb_true_r. reflexivity.
    + symmetry. apply flat_map_nil. intros dx _. rewrite andb_false_r. reflexivity.
  - symmetry. apply flat_map_nil. intros dy _. apply flat_map_nil. intros dx _.
    rewrite andb_false_r. reflexivity.
Qed.

(* ---------- majority: the blocks coincide ---------- *)

(* the list of labels ds_majority takes the majority of is, element for
   element, the clamped block of the C07 layer *)
Lemma link_majority_block : forall fx fy fz nc nz ny nx (a : arr4 Z) c z y x,
  rect4 nc nz ny nx a -> (c < nc)%nat ->
  let f := (Z.of_nat fx, Z.of_nat fy, Z.of_nat fz) in
  let p := (Z.of_nat x, Z.of_nat y, Z.of_nat z) in
  let A := arr_of4 nc nz ny nx a in
  map (fun o => a_get A (Z.of_nat c) (add3 (mul3 p f) o))
      (filter (fun o => forall3_2 Z.ltb (add3 (mul3 p f) o) (a_sh A)) (offs f))
  = majority_block_at fx fy fz a c z y x.
Proof.
  intros fx fy fz nc nz ny nx a c z y x Hr Hc f p A.
  unfold majority_block_at.
  rewrite (block_at_loop fx fy fz nz ny nx (nth c a []) z y x (rect4_vol _ nc nz ny nx a c Hr Hc)).
  rewrite map_filter_flat. unfold f at 3. rewrite flat_offs.
  apply flat_map_ext. intro dz. apply flat_map_ext. intro dy. apply flat_map_ext. intro dx.
  unfold f, p, A, arr_of4, sh3, add3, mul3, get4z, get4. cbn [a_sh a_get zip3 forall3_2].
  replace (Z.of_nat x * Z.of_nat fx + Z.of_nat dx <? Z.of_nat nx)
    with (x * fx + dx <? nx)%nat
    by (destruct (Nat.ltb_spec (x * fx + dx) nx); destruct (Z.ltb_spec (Z.of_nat x * Z.of_nat fx + Z.of_nat dx) (Z.of_nat nx)); try reflexivity; lia).
  replace (Z.of_nat y * Z.of_nat fy + Z.of_nat dy <? Z.of_nat ny)
    with (y * fy + dy <? ny)%nat
    by (destruct (Nat.ltb_spec (y * fy + dy) ny); destruct (Z.ltb_spec (Z.of_nat y * Z.of_nat fy + Z.of_nat dy) (Z.of_nat ny)); try reflexivity; lia).
  replace (Z.of_nat z * Z.of_nat fz + Z.of_nat dz <? Z.of_nat nz)
    with (z * fz + dz <? nz)%nat
    by (destruct (Nat.ltb_spec (z * fz + dz) nz); destruct (Z.ltb_spec (Z.of_nat z * Z.of_nat fz + Z.of_nat dz) (Z.of_nat nz)); try reflexivity; lia).
  rewrite Nat2Z.id.
  replace (Z.to_nat (Z.of_nat x * Z.of_nat fx + Z.of_nat dx)) with (x * fx + dx)%nat by lia.
  replace (Z.to_nat (Z.of_nat y * Z.of_nat fy + Z.of_nat dy)) with (y * fy + dy)%nat by lia.
  replace (Z.to_nat (Z.of_nat z * Z.of_nat fz + Z.of_nat dz)) with (z * fz + dz)%nat by lia.
  reflexivity.
Qed.

(* ---------- majority: the C06 scan computes the C07 statistic ---------- *)

Lemma count_of_occ : forall v l, count_of v l = Z.of_nat (occ v l).
Proof.
  intros v l. unfold count_of, occ. f_equal. induction l as [|a r IH]. reflexivity.
  cbn [filter count_occ]. destruct (Z.eqb_spec v a) as [E|E]; destruct (Z.eq_dec a v) as [E'|E'];
    try congruence; cbn [length]; rewrite IH; reflexivity.
Qed.

(* v is at least as good a candidate as w *)
Definition dominates (l : list Z) (v w : Z) : Prop :=
  (occ w l < occ v l)%nat \/ (occ w l = occ v l /\ v <= w).

Lemma dominates_refl : forall l v, dominates l v v.
Proof. intros l v. right. split; [reflexivity | lia]. Qed.

Lemma dominates_trans : forall l u v w, dominates l u v -> dominates l v w -> dominates l u w.
Proof. intros l u v w [H1|[H1 H2]] [H3|[H3 H4]]; unfold dominates; lia. Qed.

Definition maj_step (l : list Z) (best : Z * Z) (v : Z) : Z * Z :=
  let c := count_of v l in
  if PyrTiling.better v c (fst best) (snd best) then (v, c) else best.

Lemma maj_fold : forall l t bv,
  let r := fold_left (maj_step l) t (bv, count_of bv l) in
  In (fst r) (bv :: t) /\ dominates l (fst r) bv /\ forall w, In w t -> dominates l (fst r) w.
Proof.
  intros l t. induction t as [|v t IH]; intros bv.
  - cbn [fold_left fst]. split; [left; reflexivity | split; [apply dominates_refl | intros w []]].
  - cbn [fold_left].
    assert (Es : maj_step l (bv, count_of bv l) v
                 = if PyrTiling.better v (count_of v l) bv (count_of bv l)
                   then (v, count_of v l) else (bv, count_of bv l)) by reflexivity.
    rewrite Es. clear Es.
    destruct (PyrTiling.better v (count_of v l) bv (count_of bv l)) eqn:Eb.
    + destruct (IH v) as [I1 [I2 I3]]. cbv zeta.
      assert (Hvb : dominates l v bv).
      { unfold PyrTiling.better in Eb. rewrite !count_of_occ in Eb. unfold dominates.
        apply orb_true_iff in Eb. destruct Eb as [Eb|Eb].
        - apply Z.ltb_lt in Eb. lia.
        - apply andb_true_iff in Eb. destruct Eb as [E1 E2]. apply Z.eqb_eq in E1. apply Z.ltb_lt in E2. lia. }
      split; [right; exact I1 | split].
      * eapply dominates_trans; [exact I2 | exact Hvb].
      * intros w [<-|Hw]; [exact I2 | apply I3; exact Hw].
    + destruct (IH bv) as [I1 [I2 I3]]. cbv zeta.
      assert (Hbv : dominates l bv v).
      { unfold PyrTiling.better in Eb. rewrite !count_of_occ in Eb. unfold dominates.
        apply orb_false_iff in Eb. destruct Eb as [E1 E2]. apply Z.ltb_ge in E1.
        apply andb_false_iff in E2. destruct E2 as [E2|E2].
        - apply Z.eqb_neq in E2. lia.
        - apply Z.ltb_ge in E2. lia. }
      split; [destruct I1 as [I1|I1]; [left; exact I1 | right; right; exact I1] | split].
      * exact I2.
      * intros w [<-|Hw]; [eapply dominates_trans; [exact I2 | exact Hbv] | apply I3; exact Hw].
Qed.

Theorem majority_is_majority : forall l, l <> [] -> is_majority l (majority l).
Proof.
  intros l Hl. destruct l as [|v0 t] eqn:El; [congruence|]. rewrite <- El.
  assert (Em : majority l = fst (fold_left (maj_step l) l (v0, count_of v0 l))).
  { rewrite El at 1. unfold majority. rewrite <- El. reflexivity. }
  rewrite Em. destruct (maj_fold l l v0) as [I1 [I2 I3]]. cbv zeta in *.
  split.
  - destruct I1 as [I1|I1]; [|exact I1]. rewrite <- I1. rewrite El. left. reflexivity.
  - intros w Hw. exact (I3 w Hw).
Qed.

(* ---------- majority: the agreement ---------- *)

Lemma link_majority_at : forall f nc nz ny nx (a : arr4 Z) c z y x, fpos f ->
  rect4 nc nz ny nx a ->
  (c < nc)%nat -> (z < cdiv nz (fz_of f))%nat -> (y < cdiv ny (fy_of f))%nat ->
  (x < cdiv nx (fx_of f))%nat ->
  let v := a_get (ds_majority f (arr_of4 nc nz ny nx a)) (Z.of_nat c)
                 (Z.of_nat x, Z.of_nat y, Z.of_nat z) in
  let b := majority_block_at (fx_of f) (fy_of f) (fz_of f) a c z y x in
  is_majority b v /\ majority_ref b = Some v.
Proof.
  intros f nc nz ny nx a c z y x Hf Hr Hc Hz Hy Hx v b.
  destruct (fpos_nat f Hf) as [Fx [Fy Fz]].
  assert (Hne : b <> []).
  { unfold b, majority_block_at.
    apply (block_at_nonempty Z _ _ _ nz ny nx); try assumption.
    apply (rect4_vol _ nc); assumption. }
  assert (Ev : v = majority b).
  { unfold v, b. cbn [ds_majority a_get]. f_equal.
    assert (G : forall g, g = (Z.of_nat (fx_of f), Z.of_nat (fy_of f), Z.of_nat (fz_of f)) ->
      map (fun o => a_get (arr_of4 nc nz ny nx a) (Z.of_nat c)
                      (add3 (mul3 (Z.of_nat x, Z.of_nat y, Z.of_nat z) g) o))
          (filter (fun o => forall3_2 Z.ltb (add3 (mul3 (Z.of_nat x, Z.of_nat y, Z.of_nat z) g) o)
                                      (a_sh (arr_of4 nc nz ny nx a))) (offs g))
      = majority_block_at (fx_of f) (fy_of f) (fz_of f) a c z y x).
    { intros g ->.
      exact (link_majority_block (fx_of f) (fy_of f) (fz_of f) nc nz ny nx a c z y x Hr Hc). }
    apply G. apply f_as_nat. exact Hf. }
  assert (Hm : is_majority b v) by (rewrite Ev; apply majority_is_majority; exact Hne).
  split; [exact Hm|].
  destruct (majority_ref_spec b Hne) as [w [Ew Hw]]. rewrite Ew. f_equal.
  exact (is_majority_unique b w v Hw Hm).
Qed.

(* at integer coordinates of the C06 array: every in-range voxel of the C06
   majority downscaler is the C07 statistic of the C07 block *)
Theorem link_majority_pointwise : forall f nc nz ny nx (a : arr4 Z) c p, fpos f ->
  rect4 nc nz ny nx a -> 0 <= c < Z.of_nat nc ->
  (forall ax, 0 <= get3 ax p < get3 ax (a_sh (ds_majority f (arr_of4 nc nz ny nx a)))) ->
  let v := a_get (ds_majority f (arr_of4 nc nz ny nx a)) c p in
  let b := majority_block_at (fx_of f) (fy_of f) (fz_of f) a (Z.to_nat c)
             (Z.to_nat (get3 AZ p)) (Z.to_nat (get3 AY p)) (Z.to_nat (get3 AX p)) in
  is_majority b v /\ majority_ref b = Some v /\
  get4z None (majority_spec (fx_of f) (fy_of f) (fz_of f) nc nz ny nx a) c p = Some v.
Proof.
  intros f nc nz ny nx a c p Hf Hr Hc Hp.
  destruct (out_voxel_nat f nc nz ny nx a c p Hf Hc Hp) as (c' & z & y & x & -> & -> & H1 & H2 & H3 & H4).
  cbn [get3]. rewrite !Nat2Z.id.
  destruct (link_majority_at f nc nz ny nx a c' z y x Hf Hr H1 H2 H3 H4) as [Hm Hs].
  cbv zeta in *. split; [exact Hm | split; [exact Hs|]].
  unfold get4z, majority_spec. rewrite !Nat2Z.id. rewrite get4_tab4 by assumption. exact Hs.
Qed.

Lemma map4_tab4 : forall A B (h : A -> B) nc nz ny nx (g : nat -> nat -> nat -> nat -> A),
  map4 h (tab nc (fun c => tab nz (fun z => tab ny (fun y => tab nx (fun x => g c z y x)))))
  = tab nc (fun c => tab nz (fun z => tab ny (fun y => tab nx (fun x => h (g c z y x))))).
Proof.
  intros. unfold map4, tab. rewrite map_map. apply map_ext. intros c'.
  rewrite map_map. apply map_ext. intros z'. rewrite map_map. apply map_ext. intros y'.
  rewrite map_map. reflexivity.
Qed.

(* as whole arrays *)
Theorem link_majority : forall f nc nz ny nx (a : arr4 Z), fpos f -> rect4 nc nz ny nx a ->
  map4 Some (arr4_of (ds_majority f (arr_of4 nc nz ny nx a)))
  = majority_spec (fx_of f) (fy_of f) (fz_of f) nc nz ny nx a.
Proof.
  intros f nc nz ny nx a Hf Hr. unfold arr4_of.
  change (a_sh (ds_majority f (arr_of4 nc nz ny nx a))) with (ds_shape f (arr_of4 nc nz ny nx a)).
  rewrite (ds_shape_sh3 f nc nz ny nx a Hf). unfold sh3.
  change (a_c (ds_majority f (arr_of4 nc nz ny nx a))) with (Z.of_nat nc).
  rewrite !Nat2Z.id. rewrite map4_tab4. unfold majority_spec.
  apply tab_ext. intros c Hc. apply tab_ext. intros z Hz. apply tab_ext. intros y Hy.
  apply tab_ext. intros x Hx. symmetry.
  apply (link_majority_at f nc nz ny nx a c z y x Hf Hr Hc Hz Hy Hx).
Qed.

(* two arrays of one shape with the same elements are equal *)
Lemma rect4_ext : forall A (d : A) nc nz ny nx (a b : arr4 A),
  rect4 nc nz ny nx a -> rect4 nc nz ny nx b ->
  (forall c z y x, (c < nc)%nat -> (z < nz)%nat -> (y < ny)%nat -> (x < nx)%nat ->
     get4 d a c z y x = get4 d b c z y x) -> a = b.
Proof.
  intros A d nc nz ny nx a b Ha Hb H.
  rewrite (rect4_tab A d nc nz ny nx a Ha), (rect4_tab A d nc nz ny nx b Hb).
  apply tab_ext. intros c Hc. apply tab_ext. intros z Hz. apply tab_ext. intros y Hy.
  apply tab_ext. intros x Hx. apply H; assumption.
Qed.

(* ... and the C06 majority downscaler is what the C07 model returns *)
Theorem link_majority_model : forall f nc nz ny nx (a : arr4 Z), fpos f -> rect4 nc nz ny nx a ->
  majority_model (list3 f) nz ny nx a = Ok (arr4_of (ds_majority f (arr_of4 nc nz ny nx a))).
Proof.
  intros f nc nz ny nx a Hf Hr.
  destruct (majority_spec_full (list3 f) nc nz ny nx a (check_base_list3 f Hf) Hr)
    as (out & E & Ro & Ho).
  rewrite E. f_equal.
  fold (fx_of f) in Ro, Ho. fold (fy_of f) in Ro, Ho. fold (fz_of f) in Ro, Ho.
  apply (rect4_ext Z 0 nc (cdiv nz (fz_of f)) (cdiv ny (fy_of f)) (cdiv nx (fx_of f))).
  - exact Ro.
  - pose proof (arr4_of_rect (ds_majority f (arr_of4 nc nz ny nx a))) as R.
    change (a_sh (ds_majority f (arr_of4 nc nz ny nx a))) with (ds_shape f (arr_of4 nc nz ny nx a)) in R.
    rewrite (ds_shape_sh3 f nc nz ny nx a Hf) in R. unfold sh3 in R. cbn [get3] in R.
    change (a_c (ds_majority f (arr_of4 nc nz ny nx a))) with (Z.of_nat nc) in R.
    rewrite !Nat2Z.id in R. exact R.
  - intros c z y x Hc Hz Hy Hx.
    apply (is_majority_unique (majority_block_at (fx_of f) (fy_of f) (fz_of f) a c z y x)).
    + apply Ho; assumption.
    + unfold arr4_of.
      change (a_sh (ds_majority f (arr_of4 nc nz ny nx a))) with (ds_shape f (arr_of4 nc nz ny nx a)).
      rewrite (ds_shape_sh3 f nc nz ny nx a Hf). unfold sh3.
      change (a_c (ds_majority f (arr_of4 nc nz ny nx a))) with (Z.of_nat nc).
      rewrite !Nat2Z.id. rewrite get4_tab4 by assumption.
      apply (link_majority_at f nc nz ny nx a c z y x Hf Hr Hc Hz Hy Hx).
Qed.

(* ---------- averaging: the blocks coincide ---------- *)

(* the padded block of the C07 specification, over Z *)
Definition block_pad (fx fy fz nz ny nx : nat) (V : arr4 Z) (c z y x : nat) : list Z :=
  flat_map (fun dz => flat_map (fun dy => map (fun dx =>
      get4 0 V c (pad_index nz (z * fz + dz)) (pad_index ny (y * fy + dy)) (pad_index nx (x * fx + dx)))
    (seq 0 fx)) (seq 0 fy)) (seq 0 fz).

Lemma nth_map_nil : forall A B (g : A -> B) (l : list (list A)) n,
  nth n (map (map g) l) [] = map g (nth n l []).
Proof. intros A B g l n. change (@nil B) with (map g []). apply map_nth. Qed.

Lemma get4_map4_d : forall A B (h : A -> B) (d : A) (a : arr4 A) c z y x,
  get4 (h d) (map4 h a) c z y x = h (get4 d a c z y x).
Proof.
  intros A B h d a c z y x. unfold get4, map4.
  rewrite (nth_map_nil _ _ (map (map h))), (nth_map_nil _ _ (map h)), (nth_map_nil _ _ h).
  apply map_nth.
Qed.

Lemma map_flat_map' : forall A B C (h : B -> C) (g : A -> list B) l,
  map h (flat_map g l) = flat_map (fun a => map h (g a)) l.
Proof.
  intros A B C h g l. induction l as [|a r IH]. reflexivity.
  cbn [flat_map]. rewrite map_app, IH. reflexivity.
Qed.

Lemma block_values_pad : forall fx fy fz nz ny nx (V : arr4 Z) c z y x,
  block_values None fx fy fz nz ny nx (map4 inject_Z V) c z y x
  = map inject_Z (block_pad fx fy fz nz ny nx V c z y x).
Proof.
  intros. unfold block_values, block_pad, padded_get.
  rewrite map_flat_map'. apply flat_map_ext. intro dz.
  rewrite map_flat_map'. apply flat_map_ext. intro dy.
  rewrite map_map. apply map_ext. intro dx.
  exact (get4_map4_d Z Q inject_Z 0 V c _ _ _).
Qed.

(* the list ds_avg sums is, element for element, that padded block *)
Lemma link_avg_block : forall fx fy fz nc nz ny nx (V : arr4 Z) c z y x,
  let f := (Z.of_nat fx, Z.of_nat fy, Z.of_nat fz) in
  let p := (Z.of_nat x, Z.of_nat y, Z.of_nat z) in
  let A := arr_of4 nc nz ny nx V in
  map (fun o => a_get A (Z.of_nat c) (min3 (add3 (mul3 p f) o) (sub3 (a_sh A) one3))) (offs f)
  = block_pad fx fy fz nz ny nx V c z y x.
Proof.
  intros fx fy fz nc nz ny nx V c z y x f p A. unfold block_pad.
  rewrite map_as_flat_map. unfold f at 2. rewrite flat_offs.
  apply flat_map_ext. intro dz. apply flat_map_ext. intro dy.
  rewrite map_as_flat_map. apply flat_map_ext. intro dx.
  unfold f, p, A, arr_of4, sh3, add3, mul3, min3, sub3, one3, get4z. cbn [a_sh a_get zip3].
  rewrite Nat2Z.id.
  replace (Z.to_nat (Z.min (Z.of_nat x * Z.of_nat fx + Z.of_nat dx) (Z.of_nat nx - 1)))
    with (pad_index nx (x * fx + dx))
    by (unfold pad_index; destruct (Nat.ltb_spec (x * fx + dx) nx); lia).
  replace (Z.to_nat (Z.min (Z.of_nat y * Z.of_nat fy + Z.of_nat dy) (Z.of_nat ny - 1)))
    with (pad_index ny (y * fy + dy))
    by (unfold pad_index; destruct (Nat.ltb_spec (y * fy + dy) ny); lia).
  replace (Z.to_nat (Z.min (Z.of_nat z * Z.of_nat fz + Z.of_nat dz) (Z.of_nat nz - 1)))
    with (pad_index nz (z * fz + dz))
    by (unfold pad_index; destruct (Nat.ltb_spec (z * fz + dz) nz); lia).
  reflexivity.
Qed.

Lemma flat_map_length_const : forall A B (g : A -> list B) k l,
  (forall a, length (g a) = k) -> length (flat_map g l) = (length l * k)%nat.
Proof.
  intros A B g k l H. induction l as [|a r IH]. reflexivity.
  cbn [flat_map length]. rewrite app_length, H, IH. lia.
Qed.

Lemma block_pad_length : forall fx fy fz nz ny nx V c z y x,
  length (block_pad fx fy fz nz ny nx V c z y x) = (fz * (fy * fx))%nat.
Proof.
  intros. unfold block_pad.
  rewrite (flat_map_length_const _ _ _ (fy * fx)%nat), seq_length. reflexivity.
  intro dz. rewrite (flat_map_length_const _ _ _ fx), seq_length. reflexivity.
  intro dy. rewrite map_length, seq_length. reflexivity.
Qed.

(* ---------- averaging: exact mean, rounded half to even ---------- *)

Lemma qsum_inject : forall l, qsum (map inject_Z l) = inject_Z (sumZ l).
Proof.
  induction l as [|a r IH]. reflexivity.
  cbn [map qsum sumZ fold_right]. fold (qsum (map inject_Z r)). fold (sumZ r).
  rewrite IH. symmetry. apply inject_Z_plus.
Qed.

Lemma qmean_inject : forall l n, Z.of_nat (length l) = Zpos n ->
  (qmean (map inject_Z l) == sumZ l # n)%Q.
Proof.
  intros l n Hn. unfold qmean. rewrite map_length, Hn, qsum_inject.
  symmetry. apply Qmake_Qdiv.
Qed.

Lemma rhe_Q_make : forall s d, rhe_Q (s # d) = rhe_div s (Zpos d).
Proof.
  intros s d. unfold rhe_Q, rhe_div. cbn [Qnum Qden].
  set (q := s / Zpos d). set (r := s mod Zpos d).
  destruct (Z.compare_spec (2 * r) (Zpos d)) as [E|E|E];
    destruct (Z.ltb_spec (2 * r) (Zpos d)); destruct (Z.ltb_spec (Zpos d) (2 * r));
    try reflexivity; lia.
Qed.

Lemma mean_rhe_inject : forall dt l, is_int dt = true -> l <> [] ->
  mean_rhe dt (map inject_Z l) = NI (clamp dt (rhe_div (sumZ l) (Z.of_nat (length l)))).
Proof.
  intros dt l Hi Hl. unfold mean_rhe, nearest_sat. rewrite Hi.
  assert (Hn : Z.of_nat (length l) = Zpos (Pos.of_nat (length l))).
  { destruct l as [|a r]; [congruence|]. cbn [length]. lia. }
  rewrite (rhe_Q_Qeq _ _ (qmean_inject l _ Hn)), rhe_Q_make, <- Hn. reflexivity.
Qed.

Lemma sumZ_bounds : forall lo hi l, Forall (fun v => lo <= v <= hi) l ->
  Z.of_nat (length l) * lo <= sumZ l <= Z.of_nat (length l) * hi.
Proof.
  intros lo hi l H. induction H as [|a r Ha Hr IH]. cbn. lia.
  cbn [sumZ fold_right length]. fold (sumZ r). lia.
Qed.

Lemma rhe_div_bounds : forall lo hi s n, 0 < n -> n * lo <= s <= n * hi ->
  lo <= rhe_div s n <= hi.
Proof.
  intros lo hi s n Hn Hs. unfold rhe_div.
  pose proof (Z.div_mod s n ltac:(lia)) as E. pose proof (Z.mod_pos_bound s n Hn) as B.
  set (q := s / n) in *. set (r := s mod n) in *.
  assert (Hq : lo <= q) by nia.
  assert (Hq' : q <= hi) by nia.
  assert (Hq'' : 0 < r -> q + 1 <= hi) by (intro; nia).
  destruct (Z.ltb_spec (2 * r) n); [lia|].
  destruct (Z.ltb_spec n (2 * r)); [lia|].
  destruct (Z.even q); lia.
Qed.

Lemma get4_Forall4 : forall A (P : A -> Prop) (d : A) nc nz ny nx (V : arr4 A) c z y x,
  rect4 nc nz ny nx V -> Forall4 P V ->
  (c < nc)%nat -> (z < nz)%nat -> (y < ny)%nat -> (x < nx)%nat -> P (get4 d V c z y x).
Proof.
  intros A P d nc nz ny nx V c z y x [Lc R3] HF Hc Hz Hy Hx. unfold Forall4 in HF. unfold get4.
  assert (R3c : rect3 nz ny nx (nth c V [])) by (apply Forall_nth_def; [exact R3 | lia]).
  assert (F3c : Forall (Forall (Forall P)) (nth c V [])) by (apply Forall_nth_def; [exact HF | lia]).
  destruct R3c as [Lz R2].
  assert (R2z : rect2 ny nx (nth z (nth c V []) [])) by (apply Forall_nth_def; [exact R2 | lia]).
  assert (F2z : Forall (Forall P) (nth z (nth c V []) [])) by (apply Forall_nth_def; [exact F3c | lia]).
  destruct R2z as [Ly R1].
  assert (R1y : rect1 nx (nth y (nth z (nth c V []) []) [])) by (apply Forall_nth_def; [exact R1 | lia]).
  assert (F1y : Forall P (nth y (nth z (nth c V []) []) [])) by (apply Forall_nth_def; [exact F2z | lia]).
  unfold rect1 in R1y. apply Forall_nth_def; [exact F1y | lia].
Qed.

Lemma block_pad_Forall : forall (P : Z -> Prop) fx fy fz nc nz ny nx V c z y x,
  rect4 nc nz ny nx V -> Forall4 P V -> (c < nc)%nat ->
  (1 <= nz)%nat -> (1 <= ny)%nat -> (1 <= nx)%nat ->
  Forall P (block_pad fx fy fz nz ny nx V c z y x).
Proof.
  intros P fx fy fz nc nz ny nx V c z y x Hr HF Hc Pz Py Px. apply Forall_forall. intros v Hv.
  unfold block_pad in Hv. apply in_flat_map in Hv. destruct Hv as [dz [_ Hv]].
  apply in_flat_map in Hv. destruct Hv as [dy [_ Hv]].
  apply in_map_iff in Hv. destruct Hv as [dx [<- _]].
  apply (get4_Forall4 Z P 0 nc nz ny nx); try assumption; apply pad_index_lt; assumption.
Qed.

(* ---------- averaging: the agreement ---------- *)

Lemma ds_avg_block : forall f nc nz ny nx (V : arr4 Z) c z y x, fpos f ->
  a_get (ds_avg f (arr_of4 nc nz ny nx V)) (Z.of_nat c) (Z.of_nat x, Z.of_nat y, Z.of_nat z)
  = let b := block_pad (fx_of f) (fy_of f) (fz_of f) nz ny nx V c z y x in
    rhe_div (sumZ b) (Z.of_nat (length b)).
Proof.
  intros f nc nz ny nx V c z y x Hf. cbv zeta. cbn [ds_avg a_get].
  assert (G : forall g, g = (Z.of_nat (fx_of f), Z.of_nat (fy_of f), Z.of_nat (fz_of f)) ->
    map (fun o => a_get (arr_of4 nc nz ny nx V) (Z.of_nat c)
                    (min3 (add3 (mul3 (Z.of_nat x, Z.of_nat y, Z.of_nat z) g) o)
                          (sub3 (a_sh (arr_of4 nc nz ny nx V)) one3))) (offs g)
    = block_pad (fx_of f) (fy_of f) (fz_of f) nz ny nx V c z y x
    /\ prod3 g = Z.of_nat (fz_of f * (fy_of f * fx_of f))).
  { intros g ->. split.
    - exact (link_avg_block (fx_of f) (fy_of f) (fz_of f) nc nz ny nx V c z y x).
    - unfold prod3. lia. }
  destruct (G f (f_as_nat f Hf)) as [E1 E2]. rewrite E1, E2, block_pad_length. reflexivity.
Qed.

Lemma link_avg_at : forall dt f nc nz ny nx (V : arr4 Z) c z y x, fpos f ->
  is_int dt = true -> rect4 nc nz ny nx V ->
  (c < nc)%nat -> (z < cdiv nz (fz_of f))%nat -> (y < cdiv ny (fy_of f))%nat ->
  (x < cdiv nx (fx_of f))%nat ->
  let v := a_get (ds_avg f (arr_of4 nc nz ny nx V)) (Z.of_nat c)
                 (Z.of_nat x, Z.of_nat y, Z.of_nat z) in
  mean_rhe dt (block_values None (fx_of f) (fy_of f) (fz_of f) nz ny nx (map4 inject_Z V) c z y x)
    = NI (clamp dt v) /\
  get4 (NI 0) (avg_spec dt None (fx_of f) (fy_of f) (fz_of f) nc nz ny nx (map4 inject_Z V)) c z y x
    = NI (clamp dt v) /\
  (Forall4 (in_range dt) V -> clamp dt v = v).
Proof.
  intros dt f nc nz ny nx V c z y x Hf Hi Hr Hc Hz Hy Hx v.
  destruct (fpos_nat f Hf) as [Fx [Fy Fz]].
  pose proof (cdiv_pos nz _ z Fz Hz) as Pz. pose proof (cdiv_pos ny _ y Fy Hy) as Py.
  pose proof (cdiv_pos nx _ x Fx Hx) as Px.
  set (b := block_pad (fx_of f) (fy_of f) (fz_of f) nz ny nx V c z y x).
  assert (Lb : length b = (fz_of f * (fy_of f * fx_of f))%nat) by apply block_pad_length.
  assert (Hne : b <> []).
  { intro E. rewrite E in Lb. cbn [length] in Lb. nia. }
  assert (Ev : v = rhe_div (sumZ b) (Z.of_nat (length b))).
  { unfold v. rewrite (ds_avg_block f nc nz ny nx V c z y x Hf). reflexivity. }
  assert (Em : mean_rhe dt (block_values None (fx_of f) (fy_of f) (fz_of f) nz ny nx
                              (map4 inject_Z V) c z y x) = NI (clamp dt v)).
  { rewrite block_values_pad. fold b. rewrite (mean_rhe_inject dt b Hi Hne), Ev. reflexivity. }
  split; [exact Em | split].
  - unfold avg_spec. rewrite get4_tab4 by assumption. exact Em.
  - intro HF. rewrite Ev.
    assert (Hb : Forall (in_range dt) b)
      by (apply (block_pad_Forall (in_range dt) _ _ _ nc); assumption).
    pose proof (sumZ_bounds (imin dt) (imax dt) b Hb) as Sb.
    assert (Hlen : 0 < Z.of_nat (length b)) by (destruct b; [congruence | cbn [length]; lia]).
    pose proof (rhe_div_bounds (imin dt) (imax dt) (sumZ b) (Z.of_nat (length b)) Hlen Sb) as Rb.
    unfold clamp. lia.
Qed.

(* at integer coordinates of the C06 array: every in-range voxel of the C06
   averaging downscaler is the C07 "mean of the edge-padded block, rounded half
   to even" (mean_rhe over block_values with outside value None), i.e. the
   voxel of avg_spec; values of the integer type dt stay in its range *)
Theorem link_avg_pointwise : forall dt f nc nz ny nx (V : arr4 Z) c p, fpos f ->
  is_int dt = true -> rect4 nc nz ny nx V -> Forall4 (in_range dt) V ->
  0 <= c < Z.of_nat nc ->
  (forall ax, 0 <= get3 ax p < get3 ax (a_sh (ds_avg f (arr_of4 nc nz ny nx V)))) ->
  let v := a_get (ds_avg f (arr_of4 nc nz ny nx V)) c p in
  mean_rhe dt (block_values None (fx_of f) (fy_of f) (fz_of f) nz ny nx (map4 inject_Z V)
                 (Z.to_nat c) (Z.to_nat (get3 AZ p)) (Z.to_nat (get3 AY p)) (Z.to_nat (get3 AX p)))
    = NI v /\
  get4z (NI 0) (avg_spec dt None (fx_of f) (fy_of f) (fz_of f) nc nz ny nx (map4 inject_Z V)) c p
    = NI v.
Proof.
  intros dt f nc nz ny nx V c p Hf Hi Hr HF Hc Hp.
  destruct (out_voxel_nat f nc nz ny nx V c p Hf Hc Hp) as (c' & z & y & x & -> & -> & H1 & H2 & H3 & H4).
  cbn [get3]. unfold get4z. rewrite !Nat2Z.id.
  destruct (link_avg_at dt f nc nz ny nx V c' z y x Hf Hi Hr H1 H2 H3 H4) as [Hm [Hs Hcl]].
  cbv zeta in *. rewrite (Hcl HF) in Hm, Hs. split; assumption.
Qed.

(* as whole arrays: any integers, any integer dtype (the specification
   saturates), and without saturation on data of the type *)
Theorem link_avg_clamp : forall dt f nc nz ny nx (V : arr4 Z), fpos f ->
  is_int dt = true -> rect4 nc nz ny nx V ->
  map4 (fun v => NI (clamp dt v)) (arr4_of (ds_avg f (arr_of4 nc nz ny nx V)))
  = avg_spec dt None (fx_of f) (fy_of f) (fz_of f) nc nz ny nx (map4 inject_Z V).
Proof.
  intros dt f nc nz ny nx V Hf Hi Hr. unfold arr4_of.
  change (a_sh (ds_avg f (arr_of4 nc nz ny nx V))) with (ds_shape f (arr_of4 nc nz ny nx V)).
  rewrite (ds_shape_sh3 f nc nz ny nx V Hf). unfold sh3.
  change (a_c (ds_avg f (arr_of4 nc nz ny nx V))) with (Z.of_nat nc).
  rewrite !Nat2Z.id. rewrite map4_tab4. unfold avg_spec.
  apply tab_ext. intros c Hc. apply tab_ext. intros z Hz. apply tab_ext. intros y Hy.
  apply tab_ext. intros x Hx. symmetry.
  apply (link_avg_at dt f nc nz ny nx V c z y x Hf Hi Hr Hc Hz Hy Hx).
Qed.

Theorem link_avg : forall dt f nc nz ny nx (V : arr4 Z), fpos f ->
  is_int dt = true -> rect4 nc nz ny nx V -> Forall4 (in_range dt) V ->
  map4 NI (arr4_of (ds_avg f (arr_of4 nc nz ny nx V)))
  = avg_spec dt None (fx_of f) (fy_of f) (fz_of f) nc nz ny nx (map4 inject_Z V).
Proof.
  intros dt f nc nz ny nx V Hf Hi Hr HF. unfold arr4_of.
  change (a_sh (ds_avg f (arr_of4 nc nz ny nx V))) with (ds_shape f (arr_of4 nc nz ny nx V)).
  rewrite (ds_shape_sh3 f nc nz ny nx V Hf). unfold sh3.
  change (a_c (ds_avg f (arr_of4 nc nz ny nx V))) with (Z.of_nat nc).
  rewrite !Nat2Z.id. rewrite map4_tab4. unfold avg_spec.
  apply tab_ext. intros c Hc. apply tab_ext. intros z Hz. apply tab_ext. intros y Hy.
  apply tab_ext. intros x Hx. symmetry.
  destruct (link_avg_at dt f nc nz ny nx V c z y x Hf Hi Hr Hc Hz Hy Hx) as [Hm [_ Hcl]].
  cbv zeta in *. rewrite (Hcl HF) in Hm. exact Hm.
Qed.

(* ---------- the package's AveragingDownscaler model (float64) ---------- *)

(* factors 1 or 2 along every axis: what AveragingDownscaler supports and what
   compute_dyadic_downscaling infers *)
Definition f12 (f : t3) : Prop := forall ax, get3 ax f = 1 \/ get3 ax f = 2.

Lemma f12_fpos : forall f, f12 f -> fpos f.
Proof. intros f H ax. destruct (H ax); lia. Qed.

Lemma check_avg_list3 : forall f, f12 f -> check_factors_avg (list3 f) = true.
Proof.
  intros f Hf. pose proof (Hf AX) as Hx. pose proof (Hf AY) as Hy. pose proof (Hf AZ) as Hz.
  destruct f as [[fx fy] fz]. cbn [get3] in *. unfold check_factors_avg, list3.
  cbn [length Nat.eqb forallb andb]. rewrite !andb_true_iff, !orb_true_iff, !Z.eqb_eq. tauto.
Qed.

(* on uint8 / uint16 / uint32 data the float64 model of AveragingDownscaler
   (edge padding) returns exactly the C06 averaging downscaler.  Through
   C07 avg_exact, hence through Flocq's real-number axioms. *)
Theorem link_avg_model : forall dt f nc nz ny nx (V : arr4 Z), f12 f ->
  small_uint dt = true -> rect4 nc nz ny nx V -> Forall4 (in_range dt) V ->
  avg_model dt None (list3 f) (map4 NI V)
  = Ok (map4 NI (arr4_of (ds_avg f (arr_of4 nc nz ny nx V)))).
Proof.
  intros dt f nc nz ny nx V Hf Hd Hr HF.
  pose proof (avg_exact_small_uint dt 3 None (list3 f) nc nz ny nx V Hd (check_avg_list3 f Hf)
                ltac:(lia) I Hr HF) as E.
  cbn [option_map] in E. rewrite E. f_equal. symmetry.
  apply link_avg; try assumption. apply f12_fpos; exact Hf.
  destruct dt; try discriminate Hd; reflexivity.
Qed.

(* ---------- the tiling theorem of C06, for the C07 models ---------- *)

(* what a chunk of the result must contain, relative to the array [out] a C07
   downscaler model returned for the WHOLE previous level: at every voxel the
   buffer holds a written value v, and [out] holds (the encoding h of) v at the
   chunk's global position *)
Definition chunk_is_model_restriction {B} (h : Z -> B) (d : B) (out : arr4 B) (g : geom)
           (ch : t3 * t3 * buffer) : Prop :=
  let '(lo, hi, buf) := ch in
  exists idx, In idx (ndindex (chunk_range g)) /\ lo = new_lo g idx /\ hi = new_hi g idx /\
    forall c p, 0 <= c < g_ch g -> (forall a, 0 <= get3 a p < get3 a (sub3 hi lo)) ->
      exists v, b_get buf c p = Val v /\ get4z d out c (add3 lo p) = h v.

Lemma get4z_arr4_of : forall B (h : Z -> B) (d : B) (D : arr) c q,
  0 <= c < a_c D -> (forall ax, 0 <= get3 ax q < get3 ax (a_sh D)) ->
  get4z d (map4 h (arr4_of D)) c q = h (a_get D c q).
Proof.
  intros B h d D c q Hc Hq. pose proof (arr4_of_rect D) as R.
  pose proof (Hq AX) as Qx. pose proof (Hq AY) as Qy. pose proof (Hq AZ) as Qz.
  destruct q as [[x y] z]. unfold get4z.
  rewrite (get4_map4 Z B h 0 d _ _ _ _ (arr4_of D) _ _ _ _ R) by (cbn [get3] in *; lia).
  f_equal. unfold arr4_of. destruct (a_sh D) as [[sx sy] sz]. cbn [get3] in *.
  rewrite get4_tab4 by lia. rewrite !Z2Nat.id by lia. reflexivity.
Qed.

Lemma tile_level_sizes : forall ds g lvl chunks, tile_level ds g lvl = Ok chunks ->
  g_ns g = cdiv3 (g_os g) (factors g).
Proof.
  intros ds g lvl chunks H. unfold tile_level in H.
  destruct (eqb3 (g_ns g) (cdiv3 (g_os g) (factors g))) eqn:Es; [|discriminate H].
  apply eqb3_spec. exact Es.
Qed.

Lemma factors_f12 : forall g, f12 (factors g).
Proof. intros g ax. rewrite get3_factors. apply ax_f_cases. Qed.

Theorem tiling_sound_model_gen : forall ds B (h : Z -> B) (d : B),
  ds_shape_prop ds -> ds_local_prop ds ->
  forall g lvl chunks,
  geom_pos g = true -> a_sh lvl = g_os g -> a_c lvl = g_ch g ->
  tile_level ds g lvl = Ok chunks ->
  Forall (chunk_is_model_restriction h d (map4 h (arr4_of (ds (factors g) lvl))) g) chunks.
Proof.
  intros ds B h d Hs Hl g lvl chunks Hpos Hsh Hch H.
  pose proof (tiling_sound ds Hs Hl g lvl chunks Hpos Hsh Hch H) as S.
  pose proof (tile_level_sizes ds g lvl chunks H) as Ens.
  destruct (geom_pos_spec g Hpos) as [_ [_ [_ [Pnc _]]]].
  eapply Forall_impl; [|exact S]. intros [[lo hi] buf] (idx & Hin & -> & -> & Hv).
  exists idx. split; [exact Hin | split; [reflexivity | split; [reflexivity|]]].
  intros c p Hc Hp. exists (a_get (ds (factors g) lvl) c (add3 (new_lo g idx) p)).
  split; [apply Hv; assumption|].
  destruct (Hs (factors g) lvl) as [Esh Ec].
  apply get4z_arr4_of.
  - rewrite Ec, Hch. exact Hc.
  - intro ax. rewrite Esh, Hsh, <- Ens. specialize (Hp ax).
    pose proof (in_range_idx g idx Hpos Hin ax) as [I1 I2]. specialize (Pnc ax).
    unfold add3, sub3, new_hi, new_lo, min3, mul3, add3 in *.
    rewrite ?get3_zip3, ?get3_one3 in *. nia.
Qed.

Lemma map4_id : forall A (a : arr4 A), map4 (fun v => v) a = a.
Proof.
  intros A a. unfold map4.
  rewrite (map_ext _ (fun v => v)); [apply map_id|]. intro vol.
  rewrite (map_ext _ (fun v => v)); [apply map_id|]. intro pl.
  rewrite (map_ext _ (fun v => v)); [apply map_id|]. intro row. apply map_id.
Qed.

(* level = the C07 array V of shape (nc, nz, ny, nx) *)
Definition level_geom (g : geom) (nc nz ny nx : nat) : Prop :=
  geom_pos g = true /\ g_os g = sh3 nz ny nx /\ g_ch g = Z.of_nat nc.

(* StridingDownscaler model on the whole previous level (axiom-free) *)
Theorem tiling_sound_stride_model : forall nc nz ny nx (V : arr4 Z) g chunks,
  rect4 nc nz ny nx V -> level_geom g nc nz ny nx ->
  tile_level ds_stride g (arr_of4 nc nz ny nx V) = Ok chunks ->
  exists out, stride_model (list3 (factors g)) V = Ok out /\
    Forall (chunk_is_model_restriction (fun v => v) 0 out g) chunks.
Proof.
  intros nc nz ny nx V g chunks Hr (Hpos & Hos & Hch) H.
  exists (arr4_of (ds_stride (factors g) (arr_of4 nc nz ny nx V))). split.
  - apply link_stride_model; [apply f12_fpos, factors_f12 | exact Hr].
  - rewrite <- (map4_id _ (arr4_of _)).
    apply (tiling_sound_model_gen ds_stride Z (fun v => v) 0 stride_shape stride_local);
      try assumption; symmetry; assumption.
Qed.

(* MajorityDownscaler model on the whole previous level (axiom-free) *)
Theorem tiling_sound_majority_model : forall nc nz ny nx (V : arr4 Z) g chunks,
  rect4 nc nz ny nx V -> level_geom g nc nz ny nx ->
  tile_level ds_majority g (arr_of4 nc nz ny nx V) = Ok chunks ->
  exists out, majority_model (list3 (factors g)) nz ny nx V = Ok out /\
    Forall (chunk_is_model_restriction (fun v => v) 0 out g) chunks.
Proof.
  intros nc nz ny nx V g chunks Hr (Hpos & Hos & Hch) H.
  exists (arr4_of (ds_majority (factors g) (arr_of4 nc nz ny nx V))). split.
  - apply link_majority_model; [apply f12_fpos, factors_f12 | exact Hr].
  - rewrite <- (map4_id _ (arr4_of _)).
    apply (tiling_sound_model_gen ds_majority Z (fun v => v) 0 majority_shape majority_local);
      try assumption; symmetry; assumption.
Qed.

(* AveragingDownscaler (edge padding) float64 model on the whole previous
   level, uint8 / uint16 / uint32 data: a transition that does not raise wrote,
   in every chunk, the restriction of what the package's model computes on the
   entire previous level (which C07_avg_exact proves equal to avg_spec). *)
Theorem tiling_sound_avg_model : forall dt nc nz ny nx (V : arr4 Z) g chunks,
  small_uint dt = true -> rect4 nc nz ny nx V -> Forall4 (in_range dt) V ->
  level_geom g nc nz ny nx ->
  tile_level ds_avg g (arr_of4 nc nz ny nx V) = Ok chunks ->
  exists out, avg_model dt None (list3 (factors g)) (map4 NI V) = Ok out /\
    out = avg_spec dt None (fx_of (factors g)) (fy_of (factors g)) (fz_of (factors g))
                   nc nz ny nx (map4 inject_Z V) /\
    Forall (chunk_is_model_restriction NI (NI 0) out g) chunks.
Proof.
  intros dt nc nz ny nx V g chunks Hd Hr HF (Hpos & Hos & Hch) H.
  exists (map4 NI (arr4_of (ds_avg (factors g) (arr_of4 nc nz ny nx V)))). split; [|split].
  - apply link_avg_model; try assumption. apply factors_f12.
  - apply link_avg; try assumption. apply f12_fpos, factors_f12.
    destruct dt; try discriminate Hd; reflexivity.
  - apply (tiling_sound_model_gen ds_avg num NI (NI 0) PyrTilingProofs.avg_shape avg_local);
      try assumption; symmetry; assumption.
Qed.

(* ---------- the three agreements, composed (Properties/C06.v) ---------- *)

Theorem downscalers_are_C07_spec : forall f nc nz ny nx (V : arr4 Z),
  (forall ax, 1 <= get3 ax f) -> rect4 nc nz ny nx V ->
  let A := arr_of4 nc nz ny nx V in
  let fx := fx_of f in let fy := fy_of f in let fz := fz_of f in
  (* as whole arrays *)
  arr4_of (ds_stride f A) = stride_spec 0 fx fy fz nc nz ny nx V /\
  map4 Some (arr4_of (ds_majority f A)) = majority_spec fx fy fz nc nz ny nx V /\
  (forall dt, is_int dt = true -> Forall4 (in_range dt) V ->
     map4 NI (arr4_of (ds_avg f A)) = avg_spec dt None fx fy fz nc nz ny nx (map4 inject_Z V)) /\
  (* voxel by voxel, at the coordinates of the C06 array *)
  forall c p, 0 <= c < Z.of_nat nc ->
    (forall ax, 0 <= get3 ax p < get3 ax (cdiv3 (sh3 nz ny nx) f)) ->
    let c' := Z.to_nat c in
    let z := Z.to_nat (get3 AZ p) in let y := Z.to_nat (get3 AY p) in
    let x := Z.to_nat (get3 AX p) in
    a_get (ds_stride f A) c p = get4z 0 (stride_spec 0 fx fy fz nc nz ny nx V) c p /\
    is_majority (majority_block_at fx fy fz V c' z y x) (a_get (ds_majority f A) c p) /\
    majority_ref (majority_block_at fx fy fz V c' z y x) = Some (a_get (ds_majority f A) c p) /\
    get4z None (majority_spec fx fy fz nc nz ny nx V) c p = Some (a_get (ds_majority f A) c p) /\
    (forall dt, is_int dt = true -> Forall4 (in_range dt) V ->
       mean_rhe dt (block_values None fx fy fz nz ny nx (map4 inject_Z V) c' z y x)
         = NI (a_get (ds_avg f A) c p) /\
       get4z (NI 0) (avg_spec dt None fx fy fz nc nz ny nx (map4 inject_Z V)) c p
         = NI (a_get (ds_avg f A) c p)).
Proof.
  intros f nc nz ny nx V Hf Hr A fx fy fz.
  split; [apply link_stride; exact Hf|].
  split; [apply link_majority; assumption|].
  split; [intros dt Hi HF; apply link_avg; assumption|].
  intros c p Hc Hp c' z y x.
  split; [apply link_stride_pointwise; assumption|].
  destruct (link_majority_pointwise f nc nz ny nx V c p Hf Hr Hc Hp) as [M1 [M2 M3]].
  split; [exact M1 | split; [exact M2 | split; [exact M3|]]].
  intros dt Hi HF. apply link_avg_pointwise; assumption.
Qed.

(* ---------- non-vacuity ---------- *)

Definition ex_V : arr4 Z := [[[[1; 2; 4]; [250; 255; 7]]]].
Definition ex_L : arr4 Z := [[[[5; 2; 2]; [7; 7; 9]]]].
Definition ex_geom : geom :=
  {| g_os := (3, 2, 1); g_ns := (2, 1, 1); g_oc := (2, 2, 1); g_nc := (1, 1, 1); g_ch := 1 |}.

Lemma rect4_ex : forall a b c d e g : Z, rect4 1 1 2 3 [[[[a; b; c]; [d; e; g]]]].
Proof.
  intros. split; [reflexivity|]. repeat constructor.
Qed.

(* the hypotheses of the link theorems are met by concrete data, and the two
   layers then compute the same concrete arrays *)
Example link_examples :
  (forall ax, 1 <= get3 ax (2, 2, 1)) /\ f12 (2, 2, 1) /\
  rect4 1 1 2 3 ex_V /\ rect4 1 1 2 3 ex_L /\
  small_uint U8 = true /\ Forall4 (in_range U8) ex_V /\
  arr4_of (ds_stride (2, 2, 1) (arr_of4 1 1 2 3 ex_L)) = [[[[5; 2]]]] /\
  stride_model [2; 2; 1] ex_L = Ok [[[[5; 2]]]] /\
  arr4_of (ds_majority (2, 2, 1) (arr_of4 1 1 2 3 ex_L)) = [[[[7; 2]]]] /\
  majority_model [2; 2; 1] 1 2 3 ex_L = Ok [[[[7; 2]]]] /\
  majority_spec 2 2 1 1 1 2 3 ex_L = [[[[Some 7; Some 2]]]] /\
  arr4_of (ds_avg (2, 2, 1) (arr_of4 1 1 2 3 ex_V)) = [[[[127; 6]]]] /\
  avg_model U8 None [2; 2; 1] (map4 NI ex_V) = Ok [[[[NI 127; NI 6]]]] /\
  avg_spec U8 None 2 2 1 1 1 2 3 (map4 inject_Z ex_V) = [[[[NI 127; NI 6]]]].
Proof.
  split; [intros ax; destruct ax; cbn; lia|].
  split; [intros ax; destruct ax; cbn; lia|].
  split; [apply rect4_ex|]. split; [apply rect4_ex|]. split; [reflexivity|].
  split; [repeat constructor; vm_compute; discriminate|].
  repeat split; vm_compute; reflexivity.
Qed.

(* a transition on that level which the tiling processes: the hypotheses of
   the tiling corollaries are met and their conclusion is not empty *)
Example tiling_examples :
  level_geom ex_geom 1 1 2 3 /\ factors ex_geom = (2, 2, 1) /\ compat ex_geom = true /\
  (exists chunks, tile_level ds_avg ex_geom (arr_of4 1 1 2 3 ex_V) = Ok chunks /\ length chunks = 2%nat) /\
  (exists chunks, tile_level ds_stride ex_geom (arr_of4 1 1 2 3 ex_L) = Ok chunks /\ length chunks = 2%nat) /\
  (exists chunks, tile_level ds_majority ex_geom (arr_of4 1 1 2 3 ex_L) = Ok chunks /\ length chunks = 2%nat).
Proof.
  assert (Hc : compat ex_geom = true) by (vm_compute; reflexivity).
  assert (Hl : forall ds (Hs : ds_shape_prop ds) (Hloc : ds_local_prop ds) V,
            exists chunks, tile_level ds ex_geom (arr_of4 1 1 2 3 V) = Ok chunks /\ length chunks = 2%nat).
  { intros ds Hs Hloc V.
    destruct (tiling_exact ds Hs Hloc ex_geom (arr_of4 1 1 2 3 V) Hc eq_refl eq_refl)
      as (chunks & E & Elo & _).
    exists chunks. split; [exact E|].
    rewrite <- (map_length (fun c => fst (fst c)) chunks), Elo. reflexivity. }
  split; [repeat split|]. split; [reflexivity|]. split; [exact Hc|].
  split; [apply Hl; [exact PyrTilingProofs.avg_shape | exact avg_local]|].
  split; [apply Hl; [exact stride_shape | exact stride_local]|].
  apply Hl; [exact majority_shape | exact majority_local].
Qed.

(* the C06 striding and majority downscalers are what the C07 MODELS of
   StridingDownscaler / MajorityDownscaler return on the converted array *)
Theorem downscalers_are_C07_models : forall f nc nz ny nx (V : arr4 Z),
  (forall ax, 1 <= get3 ax f) -> rect4 nc nz ny nx V ->
  stride_model (list3 f) V = Ok (arr4_of (ds_stride f (arr_of4 nc nz ny nx V))) /\
  majority_model (list3 f) nz ny nx V = Ok (arr4_of (ds_majority f (arr_of4 nc nz ny nx V))).
Proof.
  intros f nc nz ny nx V Hf Hr. split.
  - apply link_stride_model; assumption.
  - apply link_majority_model; assumption.
Qed.
