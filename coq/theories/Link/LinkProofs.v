(* Closed instances of the I/O refinement theorem of C03 (PioProofs.io_refinement):
   the abstract codec is instantiated with the modelled raw and
   compressed_segmentation codecs (LinkCodec) and its round-trip hypothesis is
   discharged by the codec theorems raw_roundtrip (C10) and
   encode_impl_roundtrip (C02). *)
From Coq Require Import NArith ZArith List Bool Lia.
From NGS Require Import Val Ints PioModel PioProofs Words Arr4 CSegEncode CSegDecode RawCodec
     CSegDecodeProofs CSegImplProofs LinkCodec.
Import ListNotations.

(* the boolean well-formedness test reflects the predicate *)
Lemma wf_arrb_wf_arr bound a : wf_arrb bound a = true -> wf_arr bound a.
Proof.
  unfold wf_arrb, wf_arr. intros H.
  apply andb_true_iff in H. destruct H as [Hl Hf].
  apply N.eqb_eq in Hl. split; [exact Hl|].
  apply Forall_forall. intros v Hv.
  rewrite forallb_forall in Hf. apply N.ltb_lt. apply Hf. exact Hv.
Qed.

Lemma raw_link_roundtrip isz nc : isz <> 0%N ->
  forall (k : list N) (a : arr4) (b : list N),
  raw_enc isz nc k a = Ok b -> raw_dec isz nc k b (arr_shape a) = Ok a.
Proof.
  intros Hisz k a b He. unfold raw_enc in He.
  destruct (wf_arrb (two8 ^ isz) a) eqn:Hwf; [|discriminate He].
  unfold raw_dec, arr_shape. rewrite !N2Z.id.
  apply raw_roundtrip; [exact Hisz|apply wf_arrb_wf_arr; exact Hwf|exact He].
Qed.

Lemma cseg_link_roundtrip dt nc g :
  forall (k : list N) (a : arr4) (b : list N),
  cseg_enc dt nc g k a = Ok b -> cseg_dec dt nc g k b (arr_shape a) = Ok a.
Proof.
  intros k a b He. unfold cseg_enc in He.
  destruct (wf_arrb (dt_bound dt) a) eqn:Hwf; [|discriminate He].
  unfold cseg_dec, arr_shape. rewrite !N2Z.id.
  apply encode_impl_roundtrip; [apply wf_arrb_wf_arr; exact Hwf|exact He].
Qed.

Theorem io_refinement_raw : forall isz nc scales ops k c,
  isz <> 0%N ->
  Forall (well_shaped arr4 arr_shape) ops ->
  check_valid scales k c = Ok tt ->
  read_chunk arr4 (list N) (raw_dec isz nc) scales
    (fst (run arr4 (list N) (raw_enc isz nc) (raw_dec isz nc) scales [] ops)) k c
  = match last_written arr4 (list N) (raw_enc isz nc) scales ops k c None with
    | Some a => Ok a
    | None => AccessErr
    end.
Proof.
  intros isz nc scales ops k c Hisz HF Hv.
  exact (io_refinement arr4 (list N) (raw_enc isz nc) (raw_dec isz nc) arr_shape
           (raw_link_roundtrip isz nc Hisz) scales ops k c HF Hv).
Qed.

Theorem io_refinement_cseg : forall dt nc g scales ops k c,
  Forall (well_shaped arr4 arr_shape) ops ->
  check_valid scales k c = Ok tt ->
  read_chunk arr4 (list N) (cseg_dec dt nc g) scales
    (fst (run arr4 (list N) (cseg_enc dt nc g) (cseg_dec dt nc g) scales [] ops)) k c
  = match last_written arr4 (list N) (cseg_enc dt nc g) scales ops k c None with
    | Some a => Ok a
    | None => AccessErr
    end.
Proof.
  intros dt nc g scales ops k c HF Hv.
  exact (io_refinement arr4 (list N) (cseg_enc dt nc g) (cseg_dec dt nc g) arr_shape
           (cseg_link_roundtrip dt nc g) scales ops k c HF Hv).
Qed.
