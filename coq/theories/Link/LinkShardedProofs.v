(* Link C03 <-> C09 <-> C04/C05, proofs: PrecomputedIO over the sharded
   accessor model (LinkSharded.v) returns, through a freshly opened reader,
   exactly the chunks written, whatever the order of the writes.

   Proof plan.
   1. position level -> identifier level.  A position accepted by
      validate_chunk_coords for a scale with one cubic chunk size is on the
      lattice and in the grid of the ShardVolumeSpec built from the same info,
      so get_cmc succeeds (C09_get_cmc_total_spec), the identifier is below
      2^(total bits) <= 2^64 (C09_cmc_below_total_bits), distinct positions
      get distinct identifiers (C09_ids_distinct), and the rank bound of
      [ops_valid] follows from [rank_room]: the hypothesis [ops_valid] of the
      C05 theorems is discharged.
   2. the write phase is [run_cmc_stores] on [sh_ops] (the encoded chunks that
      reach the sharded writer), for EVERY write list.
   3. C05_impl_reads_canonical / C05_order_independent / close_all_ok on
      [sh_ops], then the codec round trip of C03. *)
From Coq Require Import NArith ZArith List Bool Lia Permutation.
From NGS Require Import Val Ints Morton MortonProofs ShardBytes MiniShard ShardFile ShardReader
  ShardSpecReader ShardCanon MiniShardProofs ShardFileProofs ShardCloseProofs ShardSpecProofs
  ShardTopProofs ShardImplProofs ShardWitness PioModel PioProofs LinkSharded.
Import ListNotations.
Open Scope N_scope.

(* ================================================================== *)
(* 1. identifiers, ranks                                               *)
(* ================================================================== *)

(* rank <= id, and 2 * rank <= id + (id mod P) as soon as there is one class bit *)
Lemma grank_bounds : forall P M id, 0 < P -> 0 < M ->
  grank P M id <= id /\ (2 <= M -> 2 * grank P M id <= id + id mod P).
Proof.
  intros P M id HP HM. unfold grank.
  assert (HPM : P * M <> 0) by lia.
  pose proof (N.div_mod id (P * M) HPM) as E.
  pose proof (N.mod_lt id (P * M) HPM) as Hrest.
  set (q := id / (P * M)) in *. set (rest := id mod (P * M)) in *.
  assert (HPnz : P <> 0) by lia.
  pose proof (N.div_mod rest P HPnz) as E2.
  pose proof (N.mod_lt rest P HPnz) as Hr.
  set (t := rest / P) in *. set (r := rest mod P) in *.
  assert (Er : id mod P = r).
  { rewrite E, E2. replace (P * M * q + (P * t + r)) with ((M * q + t) * P + r) by lia.
    apply mod_mul_add; lia. }
  rewrite Er. split; [|intro H2]; nia.
Qed.

Lemma rank_room_bound : forall sp id,
  id < 2 ^ 64 -> (id < 2 ^ 63 \/ (0 < sp_s sp + sp_m sp /\ sp_p sp < 64)) ->
  rank sp id + 1 < 2 ^ 64.
Proof.
  intros sp id Hid Hroom. rewrite rank_eq.
  destruct (grank_bounds (2 ^ sp_p sp) (2 ^ (sp_s sp + sp_m sp)) id (pow2_pos _) (pow2_pos _))
    as [Hle H2].
  change (2 ^ 64) with (2 * 2 ^ 63) in *.
  destruct Hroom as [H63 | [Hsm Hp]]; [lia|].
  assert (HM : 2 <= 2 ^ (sp_s sp + sp_m sp)).
  { change 2 with (2 ^ 1) at 1. apply N.pow_le_mono_r; lia. }
  specialize (H2 HM).
  assert (HP : 2 ^ sp_p sp <= 2 ^ 63) by (apply N.pow_le_mono_r; lia).
  pose proof (N.mod_lt id (2 ^ sp_p sp) (pow2_nz _)) as Hr.
  set (g := grank _ _ id) in *. set (r := id mod 2 ^ sp_p sp) in *. set (P := 2 ^ sp_p sp) in *.
  set (T := 2 ^ 63) in *. assert (1 < T) by (subst T; reflexivity). lia.
Qed.

(* ================================================================== *)
(* 2. accepted positions are chunk origins of the ShardVolumeSpec      *)
(* ================================================================== *)

Lemma mk_vspec_cubic_inv : forall cs sx sy sz v,
  mk_vspec [cs; cs; cs] [sx; sy; sz] = Ok v ->
  (0 < cs /\ 0 < sx /\ 0 < sy /\ 0 < sz)%Z /\
  v = {| vs_chunk := cs; vs_grid := [grid_of sx cs; grid_of sy cs; grid_of sz cs];
         vs_nbits := map N.log2_up [grid_of sx cs; grid_of sy cs; grid_of sz cs] |} /\
  sumN (vs_nbits v) <= 64.
Proof.
  intros cs sx sy sz v. unfold mk_vspec. cbn [length Nat.eqb andb].
  destruct (all_pos [sx; sy; sz]) eqn:Hs; cbn [negb andb]; [|discriminate].
  destruct (all_pos [cs; cs; cs]) eqn:Hc; cbn [negb andb]; [|discriminate].
  destruct (all_same [cs; cs; cs]); cbn [negb]; [|discriminate].
  cbn [nth map].
  match goal with |- context [64 <? ?s] => destruct (N.ltb_spec 64 s) as [Hb|Hb] end; [discriminate|].
  intro H. injection H as <-. cbn [vs_nbits].
  unfold all_pos in Hs, Hc. cbn [forallb] in Hs, Hc.
  rewrite !andb_true_iff, !Z.ltb_lt in Hs, Hc.
  split; [lia|]. split; [reflexivity | exact Hb].
Qed.

(* the ShardVolumeSpec the accessor builds from the info entry of such a scale *)
Lemma sh_vspec_cubic : forall key sx sy sz cs,
  sh_vspec (cubic_scale key sx sy sz cs) = mk_vspec [cs; cs; cs] [sx; sy; sz].
Proof. reflexivity. Qed.

Lemma key_eqb_refl' : forall k, key_eqb k k = true.
Proof. intro k. unfold key_eqb. destruct (list_eq_dec N.eq_dec k k); congruence. Qed.

(* the [find_scale] hypothesis of the theorems for a dataset with one scale *)
Lemma find_scale_single : forall s, find_scale [s] (sc_key s) = Some s.
Proof. intro s. cbn [find_scale]. rewrite key_eqb_refl'. reflexivity. Qed.

(* one axis: an accepted lower bound is i * cs with i inside the grid, and the
   upper bound is determined by the lower bound *)
Lemma axis_in_grid : forall mn mx cs s, (0 < cs)%Z -> (0 < s)%Z ->
  on_grid_axis mn mx cs s ->
  (mn mod cs = 0 /\ 0 <= mn /\ mn / cs < Z.of_N (grid_of s cs) /\ mx = Z.min (mn + cs) s)%Z.
Proof.
  intros mn mx cs s Hcs Hs (i & Hi & -> & Hlt & Hmx).
  split; [apply Z.mod_mul; lia|]. split; [nia|]. split; [|exact Hmx].
  rewrite Z.div_mul by lia. unfold grid_of, ceil_div.
  assert (Hq : (i <= (s - 1) / cs)%Z) by (apply Z.div_le_lower_bound; lia).
  rewrite Z2N.id by lia. lia.
Qed.

Section Positions.
  Variable scales : list PioModel.scale.
  Variable key : list N.
  Variables sx sy sz cs : Z.
  Variable v : vspec.
  Hypothesis Hfind : find_scale scales key = Some (cubic_scale key sx sy sz cs).
  Hypothesis Hv : mk_vspec [cs; cs; cs] [sx; sy; sz] = Ok v.

  Lemma valid_on_grid : forall c, check_valid scales key c = Ok tt ->
    on_grid (cubic_scale key sx sy sz cs) c.
  Proof.
    intros c Hc. unfold check_valid in Hc. rewrite Hfind in Hc.
    destruct (mk_vspec_cubic_inv _ _ _ _ _ Hv) as ((Hcs & _) & _).
    assert (HF : Forall pos_triple (sc_chunk_sizes (cubic_scale key sx sy sz cs))).
    { constructor; [|constructor]. cbn. lia. }
    destruct (validate_iff (cubic_scale key sx sy sz cs) c eq_refl HF) as [Hiff [Ht|Hf]].
    - apply Hiff. exact Ht.
    - rewrite Hf in Hc. discriminate.
  Qed.

  (* accepted position -> get_cmc succeeds, identifier below 2^(total bits) *)
  Lemma valid_get_cmc : forall c, check_valid scales key c = Ok tt ->
    exists id, sh_cmc v c = Ok id /\ id < 2 ^ sumN (vs_nbits v) /\ id < 2 ^ 64.
  Proof.
    intros c Hc. pose proof (valid_on_grid c Hc) as Hg.
    destruct c as [[[[[x0 x1] y0] y1] z0] z1]. unfold sh_cmc. cbn [origin].
    destruct (mk_vspec_cubic_inv _ _ _ _ _ Hv) as ((Hcs & Hsx & Hsy & Hsz) & Ev & Hsum).
    unfold on_grid in Hg. cbn [cubic_scale sc_size sc_chunk_sizes] in Hg.
    destruct Hg as (t & [<-|[]] & Gx & Gy & Gz).
    apply axis_in_grid in Gx, Gy, Gz; try assumption.
    destruct Gx as (Gx1 & Gx2 & Gx3 & _). destruct Gy as (Gy1 & Gy2 & Gy3 & _).
    destruct Gz as (Gz1 & Gz2 & Gz3 & _).
    rewrite (get_cmc_total_spec _ _ _ x0 y0 z0 Hv).
    assert (Hon : on_lattice_in_grid v x0 y0 z0 = true).
    { rewrite Ev. unfold on_lattice_in_grid. cbn [vs_chunk vs_grid combine forallb].
      rewrite Gx1, Gy1, Gz1.
      rewrite !(proj2 (Z.leb_le _ _)) by assumption.
      rewrite !(proj2 (Z.ltb_lt _ _)) by assumption. reflexivity. }
    rewrite Hon. eexists. split; [reflexivity|].
    assert (Hlt : forall p, cmc_spec (vs_grid v) p < 2 ^ sumN (vs_nbits v)).
    { intro p. rewrite Ev. cbn [vs_grid vs_nbits]. apply (cmc_spec_lt _ p). reflexivity. }
    split; [apply Hlt|].
    eapply N.lt_le_trans; [apply Hlt|]. apply N.pow_le_mono_r; [discriminate | exact Hsum].
  Qed.

  (* an accepted 6-tuple is determined by its origin *)
  Lemma valid_origin_inj : forall c c',
    check_valid scales key c = Ok tt -> check_valid scales key c' = Ok tt ->
    origin c = origin c' -> c = c'.
  Proof.
    intros c c' Hc Hc' Eo.
    pose proof (valid_on_grid c Hc) as Hg. pose proof (valid_on_grid c' Hc') as Hg'.
    destruct c as [[[[[x0 x1] y0] y1] z0] z1]. destruct c' as [[[[[x0' x1'] y0'] y1'] z0'] z1'].
    cbn [origin] in Eo. injection Eo as <- <- <-.
    destruct (mk_vspec_cubic_inv _ _ _ _ _ Hv) as ((Hcs & Hsx & Hsy & Hsz) & _ & _).
    unfold on_grid in Hg, Hg'. cbn [cubic_scale sc_size sc_chunk_sizes] in Hg, Hg'.
    destruct Hg as (t & [<-|[]] & Gx & Gy & Gz). destruct Hg' as (t' & [<-|[]] & Gx' & Gy' & Gz').
    apply axis_in_grid in Gx, Gy, Gz, Gx', Gy', Gz'; try assumption.
    destruct Gx as (_ & _ & _ & ->). destruct Gy as (_ & _ & _ & ->). destruct Gz as (_ & _ & _ & ->).
    destruct Gx' as (_ & _ & _ & ->). destruct Gy' as (_ & _ & _ & ->). destruct Gz' as (_ & _ & _ & ->).
    reflexivity.
  Qed.

  (* two accepted positions with the same identifier are the same position *)
  Lemma valid_id_inj : forall c c' id,
    check_valid scales key c = Ok tt -> check_valid scales key c' = Ok tt ->
    sh_cmc v c = Ok id -> sh_cmc v c' = Ok id -> c = c'.
  Proof.
    intros c c' id Hc Hc' H1 H2. apply valid_origin_inj; try assumption. unfold sh_cmc in H1, H2.
    destruct (origin c) as [[x y] z]. destruct (origin c') as [[x' y'] z'].
    exact (get_cmc_inj _ _ _ _ _ _ _ _ _ _ Hv H1 H2).
  Qed.
End Positions.

(* ================================================================== *)
(* 3. the write phase is run_cmc_stores on sh_ops (every write list)   *)
(* ================================================================== *)

Section WritePhase.
  Variable chunk : Type.
  Variable encode : list N -> chunk -> outcome bytes.
  Variable sp : sparams.
  Variable denc : bytes -> bytes.
  Variable scales : list PioModel.scale.
  Variable v : vspec.
  Variable key : list N.

  Notation ops_of := (sh_ops chunk encode scales v key).
  Notation write_all := (sh_write_all chunk encode sp denc scales v key).

  Lemma sh_store_chunk_cmc : forall st buf c,
    sh_store_chunk sp denc v st buf c =
    match sh_cmc v c with
    | Ok id => scale_store_cmc sp denc st buf id
    | e => (st, bind e (fun _ => Ok tt))
    end.
  Proof.
    intros st buf c. unfold sh_store_chunk, sh_cmc, store_chunk.
    destruct (origin c) as [[x y] z]. destruct (get_cmc_model v x y z); reflexivity.
  Qed.

  Lemma sh_ops_cons : forall w r, ops_of (w :: r) =
    match check_valid scales key (snd w), encode key (fst w) with
    | Ok _, Ok buf => match sh_cmc v (snd w) with Ok id => [(id, buf)] | _ => [] end
    | _, _ => []
    end ++ ops_of r.
  Proof. reflexivity. Qed.

  (* state: for EVERY write list (also with rejected positions, failing
     encoders, repeated positions) the writer state after the write phase is
     the one reached by the identifier-level stores of sh_ops *)
  Lemma write_state : forall ws st,
    snd (write_all st ws) = fst (run_cmc_stores sp denc st (ops_of ws)).
  Proof.
    induction ws as [|[ch c] r IH]; intro st; [reflexivity|].
    rewrite sh_ops_cons. cbn [sh_write_all fst snd]. unfold sh_write_chunk.
    destruct (check_valid scales key c) as [u| | | | | |cr] eqn:Ec;
      try (specialize (IH st); destruct (write_all st r) as [os st2]; cbn [snd app] in *; exact IH).
    destruct (encode key ch) as [buf| | | | | |cr] eqn:Ee;
      try (specialize (IH st); destruct (write_all st r) as [os st2]; cbn [snd app bind] in *; exact IH).
    rewrite sh_store_chunk_cmc.
    destruct (sh_cmc v c) as [id| | | | | |cr] eqn:Em;
      try (specialize (IH st); destruct (write_all st r) as [os st2]; cbn [snd app bind] in *; exact IH).
    cbn [app run_cmc_stores].
    destruct (scale_store_cmc sp denc st buf id) as [st1 o].
    specialize (IH st1). destruct (write_all st1 r) as [os st2].
    destruct (run_cmc_stores sp denc st1 (ops_of r)) as [st3 os3]. cbn [fst snd] in *. exact IH.
  Qed.

  (* outcomes: when every position is accepted and resolves to an identifier
     and no identifier-level store raises, a write fails exactly when its
     encoder does, with the encoder's exception *)
  Lemma write_outs : forall ws st,
    Forall (fun w => check_valid scales key (snd w) = Ok tt /\
                     exists id, sh_cmc v (snd w) = Ok id) ws ->
    snd (run_cmc_stores sp denc st (ops_of ws)) = map (fun _ => Ok tt) (ops_of ws) ->
    fst (write_all st ws) = map (fun w => bind (encode key (fst w)) (fun _ => Ok tt)) ws.
  Proof.
    induction ws as [|[ch c] r IH]; intros st HF Hos; [reflexivity|].
    inversion HF as [|? ? [Hc (id & Hid)] HFr]; subst. cbn [fst snd] in Hc, Hid.
    rewrite sh_ops_cons in Hos. cbn [fst snd] in Hos. rewrite Hc, Hid in Hos.
    cbn [sh_write_all map fst snd]. unfold sh_write_chunk. rewrite Hc.
    destruct (encode key ch) as [buf| | | | | |cr] eqn:Ee;
      try (cbn [app] in Hos; specialize (IH st HFr Hos);
           destruct (write_all st r) as [os st2]; cbn [fst bind] in *; rewrite IH; reflexivity).
    rewrite sh_store_chunk_cmc, Hid.
    cbn [app run_cmc_stores map] in Hos.
    destruct (scale_store_cmc sp denc st buf id) as [st1 o].
    destruct (run_cmc_stores sp denc st1 (ops_of r)) as [st3 os3] eqn:Er.
    cbn [snd] in Hos. injection Hos as -> Hos3.
    assert (Hos' : snd (run_cmc_stores sp denc st1 (ops_of r)) = map (fun _ => Ok tt) (ops_of r))
      by (rewrite Er; exact Hos3).
    specialize (IH st1 HFr Hos'). destruct (write_all st1 r) as [os st2].
    cbn [fst bind] in *. rewrite IH. reflexivity.
  Qed.

  Lemma in_sh_ops : forall ws id b, In (id, b) (ops_of ws) <->
    exists ch c, In (ch, c) ws /\ (exists u, check_valid scales key c = Ok u) /\
                 encode key ch = Ok b /\ sh_cmc v c = Ok id.
  Proof.
    intros ws id b. unfold sh_ops. rewrite in_flat_map. split.
    - intros ([ch c] & Hin & H). cbn [fst snd] in H.
      destruct (check_valid scales key c) as [u| | | | | |cr] eqn:Ec; try (exfalso; exact H).
      destruct (encode key ch) as [buf| | | | | |cr] eqn:Ee; try (exfalso; exact H).
      destruct (sh_cmc v c) as [i| | | | | |cr] eqn:Em; try (exfalso; exact H).
      destruct H as [H|[]]. injection H as -> ->.
      exists ch, c. split; [exact Hin|]. split; [exists u; exact Ec|]. split; assumption.
    - intros (ch & c & Hin & (u & Hc) & He & Hm). exists (ch, c). split; [exact Hin|].
      cbn [fst snd]. rewrite Hc, He, Hm. left. reflexivity.
  Qed.

  Lemma sh_ops_perm : forall ws1 ws2, Permutation ws1 ws2 -> Permutation (ops_of ws1) (ops_of ws2).
  Proof. intros ws1 ws2 H. unfold sh_ops. apply Permutation_flat_map. exact H. Qed.
End WritePhase.

(* ================================================================== *)
(* 4. the end-to-end theorems                                          *)
(* ================================================================== *)

Section RoundTrip.
  Variable chunk : Type.
  Variable encode : list N -> chunk -> outcome bytes.
  Variable decode : list N -> bytes -> triple -> outcome chunk.
  Variable shape_of : chunk -> triple.
  Variable sp : sparams.
  Variable denc ienc : bytes -> bytes.
  Variable ddec idec : bytes -> outcome bytes.
  Variable scales : list PioModel.scale.
  Variable key : list N.
  Variables sx sy sz cs : Z.
  Variable v : vspec.

  Hypothesis roundtrip : forall k ch b, encode k ch = Ok b -> decode k b (shape_of ch) = Ok ch.
  Hypothesis HB : cbits sp < 2 ^ 64.
  Hypothesis Hm : sp_m sp < 59.
  Hypothesis Hdo : forall b, ddec (denc b) = Ok b.
  Hypothesis Hio : forall b, idec (ienc b) = Ok b.
  Hypothesis Hne : forall b, b <> [] -> ienc b <> [].
  Hypothesis Hfind : find_scale scales key = Some (cubic_scale key sx sy sz cs).
  Hypothesis Hv : mk_vspec [cs; cs; cs] [sx; sy; sz] = Ok v.
  Hypothesis Hroom : rank_room sp v.

  Notation ops_of := (sh_ops chunk encode scales v key).
  Notation session := (sh_session chunk encode sp denc ienc scales v key).
  Notation files := (sh_files chunk encode sp denc ienc scales v key).
  Notation read_chunk := (sh_read_chunk chunk decode sp ddec idec scales v).
  Notation valid_ws := (Forall (fun w : chunk * PioModel.coords => check_valid scales key (snd w) = Ok tt)).

  Lemma session_fst : forall ws,
    fst (session ws) = fst (sh_write_all chunk encode sp denc scales v key [] ws).
  Proof. intro ws. unfold sh_session. destruct (sh_write_all _ _ _ _ _ _ _ [] ws). reflexivity. Qed.

  Lemma session_snd : forall ws,
    snd (session ws) = scale_close sp ienc (fst (run_cmc_stores sp denc [] (ops_of ws))).
  Proof.
    intro ws. rewrite <- write_state. unfold sh_session, sh_close.
    destruct (sh_write_all _ _ _ _ _ _ _ [] ws). reflexivity.
  Qed.

  Lemma files_session : forall ws, files ws = session_files sp denc ienc (ops_of ws).
  Proof. intro ws. unfold sh_files, session_files. rewrite session_snd. reflexivity. Qed.

  (* identifier-level validity from position-level validity (C09) *)
  Lemma id_facts : forall c id, check_valid scales key c = Ok tt -> sh_cmc v c = Ok id ->
    id < 2 ^ 64 /\ rank sp id + 1 < 2 ^ 64.
  Proof.
    intros c id Hc Hid.
    destruct (valid_get_cmc scales key sx sy sz cs v Hfind Hv c Hc) as (id' & Hid' & Hbits & H64).
    assert (id' = id) by congruence. subst id'.
    split; [exact H64|]. apply rank_room_bound; [exact H64|].
    destruct Hroom as [Hs|Hr]; [left | right; exact Hr].
    eapply N.lt_le_trans; [exact Hbits|]. apply N.pow_le_mono_r; [discriminate | clear - Hs; lia].
  Qed.

  Lemma valid_tt : forall c u, check_valid scales key c = Ok u -> check_valid scales key c = Ok tt.
  Proof. intros c [] H. exact H. Qed.

  Theorem ops_valid_of_positions : forall ws,
    NoDup (map snd ws) -> valid_ws ws -> ops_valid sp (ops_of ws).
  Proof.
    intros ws Hnd HF. split.
    - induction ws as [|[ch c] r IH]; [constructor|].
      cbn [map snd] in Hnd. inversion Hnd as [|? ? Hnotin Hndr]; subst.
      inversion HF as [|? ? Hc HFr]; subst. cbn [snd] in Hc.
      rewrite sh_ops_cons. cbn [fst snd]. rewrite Hc.
      destruct (encode key ch) as [buf| | | | | |cr]; try (cbn [app]; apply IH; assumption).
      destruct (sh_cmc v c) as [id| | | | | |cr] eqn:Eid; try (cbn [app]; apply IH; assumption).
      cbn [app map fst]. constructor; [|apply IH; assumption].
      intro Hin. apply in_map_iff in Hin. destruct Hin as ([id' b'] & E & Hin'). cbn [fst] in E. subst id'.
      apply in_sh_ops in Hin'. destruct Hin' as (ch' & c' & Hin' & (u & Hc') & _ & Hid').
      apply valid_tt in Hc'.
      assert (c = c') by (exact (valid_id_inj scales key sx sy sz cs v Hfind Hv c c' id Hc Hc' Eid Hid')).
      subst c'. apply Hnotin. change c with (snd (ch', c)). apply in_map. exact Hin'.
    - intros id Hin. apply in_map_iff in Hin. destruct Hin as ([id' b] & E & Hin). cbn [fst] in E. subst id'.
      apply in_sh_ops in Hin. destruct Hin as (ch & c & _ & (u & Hc) & _ & Hid).
      apply (id_facts c id (valid_tt c u Hc) Hid).
  Qed.

  Lemma valid_resolves : forall ws, valid_ws ws ->
    Forall (fun w => check_valid scales key (snd w) = Ok tt /\ exists id, sh_cmc v (snd w) = Ok id) ws.
  Proof.
    intros ws HF. rewrite Forall_forall in *. intros w Hw. split; [apply HF; exact Hw|].
    destruct (valid_get_cmc scales key sx sy sz cs v Hfind Hv (snd w) (HF w Hw)) as (id & Hid & _).
    exists id. exact Hid.
  Qed.

  (* no write to distinct accepted positions is refused by the sharded writer:
     a write fails exactly when the chunk encoder fails *)
  Theorem writes_all_ok : forall ws,
    NoDup (map snd ws) -> valid_ws ws ->
    fst (session ws) = map (fun w => bind (encode key (fst w)) (fun _ => Ok tt)) ws.
  Proof.
    intros ws Hnd HF. rewrite session_fst. apply write_outs; [apply valid_resolves; exact HF|].
    apply stores_all_ok; [exact HB|]. apply ops_valid_of_positions; assumption.
  Qed.

  (* every Shard.close returns normally and writes its file *)
  Theorem sh_close_all_ok : forall ws,
    NoDup (map snd ws) -> valid_ws ws -> sizes_ok63 sp denc ienc (ops_of ws) ->
    forall name r, In (name, r) (snd (session ws)) -> exists f, r = Ok (Some f).
  Proof.
    intros ws Hnd HF H63 name r Hin. rewrite session_snd in Hin.
    apply (close_all_ok sp denc ienc (ops_of ws) HB ltac:(lia)
             (ops_valid_of_positions ws Hnd HF) (sizes63_ok sp denc ienc HB Hm _ H63) name r Hin).
  Qed.

  (* the round trip: after close, a freshly opened reader returns exactly the
     chunk written at every position whose write succeeded *)
  Theorem read_back : forall ws,
    NoDup (map snd ws) -> valid_ws ws -> sizes_ok63 sp denc ienc (ops_of ws) ->
    forall ch c b, In (ch, c) ws -> encode key ch = Ok b -> shape_of ch = extents c ->
    read_chunk (files ws) key c = Ok ch.
  Proof.
    intros ws Hnd HF H63 ch c b Hin He Hsh.
    assert (Hc : check_valid scales key c = Ok tt).
    { rewrite Forall_forall in HF. apply (HF (ch, c) Hin). }
    destruct (valid_get_cmc scales key sx sy sz cs v Hfind Hv c Hc) as (id & Hid & _).
    assert (Hop : In (id, b) (ops_of ws)).
    { apply in_sh_ops. exists ch, c. split; [exact Hin|]. split; [exists tt; exact Hc|]. split; assumption. }
    unfold sh_read_chunk, sh_fetch_chunk. rewrite Hc, Hid. cbn [bind].
    rewrite files_session.
    rewrite (impl_reads_canonical sp denc ienc idec ddec HB Hio Hdo Hne Hm (ops_of ws) id b
               (ops_valid_of_positions ws Hnd HF) H63 Hop).
    cbn [bind]. rewrite <- Hsh. apply roundtrip. exact He.
  Qed.

  Theorem chunk_io_roundtrip : forall ws,
    NoDup (map snd ws) -> valid_ws ws -> sizes_ok63 sp denc ienc (ops_of ws) ->
    fst (session ws) = map (fun w => bind (encode key (fst w)) (fun _ => Ok tt)) ws /\
    (forall name r, In (name, r) (snd (session ws)) -> exists f, r = Ok (Some f)) /\
    (forall ch c b, In (ch, c) ws -> encode key ch = Ok b -> shape_of ch = extents c ->
       read_chunk (files ws) key c = Ok ch).
  Proof.
    intros ws Hnd HF H63. split; [apply writes_all_ok; assumption|].
    split; [apply sh_close_all_ok; assumption | apply read_back; assumption].
  Qed.

  (* order independence: two orders of the same writes give the expected
     outcome for every write, byte-identical files, hence the same result for
     EVERY read (written or not) through a fresh reader *)
  Theorem chunk_io_order_independent : forall ws1 ws2,
    NoDup (map snd ws1) -> valid_ws ws1 -> Permutation ws1 ws2 ->
    fst (session ws1) = map (fun w => bind (encode key (fst w)) (fun _ => Ok tt)) ws1 /\
    fst (session ws2) = map (fun w => bind (encode key (fst w)) (fun _ => Ok tt)) ws2 /\
    snd (session ws1) = snd (session ws2) /\
    files ws1 = files ws2 /\
    (forall k c, read_chunk (files ws1) k c = read_chunk (files ws2) k c).
  Proof.
    intros ws1 ws2 Hnd HF Hp.
    assert (Hnd2 : NoDup (map snd ws2)).
    { eapply Permutation_NoDup; [apply Permutation_map; exact Hp | exact Hnd]. }
    assert (HF2 : valid_ws ws2).
    { rewrite Forall_forall in *. intros w Hw. apply HF.
      eapply Permutation_in; [apply Permutation_sym; exact Hp | exact Hw]. }
    split; [apply writes_all_ok; assumption|]. split; [apply writes_all_ok; assumption|].
    assert (Es : snd (session ws1) = snd (session ws2)).
    { rewrite !session_snd.
      apply (order_independent sp denc ienc HB (ops_of ws1) (ops_of ws2)
               (ops_valid_of_positions ws1 Hnd HF) (sh_ops_perm chunk encode scales v key ws1 ws2 Hp)). }
    assert (Ef : files ws1 = files ws2) by (unfold sh_files; rewrite Es; reflexivity).
    split; [exact Es|]. split; [exact Ef|]. intros k c. rewrite Ef. reflexivity.
  Qed.

  (* a position that no successful write addressed holds no voxel data: the
     fresh reader's fetch_chunk raises or returns the empty byte string *)
  Theorem unwritten_position_empty : forall ws,
    (forall y, ddec [] = Ok y -> y = []) ->
    NoDup (map snd ws) -> valid_ws ws -> sizes_ok63 sp denc ienc (ops_of ws) ->
    forall c buf, check_valid scales key c = Ok tt ->
    (forall ch b, In (ch, c) ws -> encode key ch <> Ok b) ->
    sh_fetch_chunk sp ddec idec v (files ws) c = Ok buf -> buf = [].
  Proof.
    intros ws Hempty Hnd HF H63 c buf Hc Hnot Hf.
    destruct (valid_get_cmc scales key sx sy sz cs v Hfind Hv c Hc) as (id & Hid & _ & H64).
    unfold sh_fetch_chunk in Hf. rewrite Hid in Hf. cbn [bind] in Hf. rewrite files_session in Hf.
    apply (never_stored sp denc ienc idec ddec HB Hio Hne Hm Hempty (ops_of ws) id buf
             (ops_valid_of_positions ws Hnd HF) H63 H64); [|exact Hf].
    intro Hin. apply in_map_iff in Hin. destruct Hin as ([id' b] & E & Hin). cbn [fst] in E. subst id'.
    apply in_sh_ops in Hin. destruct Hin as (ch & c' & Hin & (u & Hc') & He & Hid').
    apply valid_tt in Hc'.
    assert (c = c') by (exact (valid_id_inj scales key sx sy sz cs v Hfind Hv c c' id Hc Hc' Hid Hid')).
    subst c'. exact (Hnot ch b Hin He).
  Qed.
End RoundTrip.

(* ================================================================== *)
(* 5. executable checks of the hypotheses, non-vacuity                 *)
(* ================================================================== *)

(* [sizes_ok63] quantifies over all shard numbers; only the shards that
   receive a chunk have to be looked at *)
Definition shard_size_okb (sp : sparams) (enc ienc : bytes -> bytes) (ops : list (N * bytes)) (sk : N)
  : bool :=
  16 * 2 ^ sp_m sp + lenN (concat (map (d_data sp enc) (desc_of sp ops sk))) +
  sumlen (d_kl sp enc ienc (desc_of sp ops sk) 0) <? 2 ^ 63.

Lemma sizes_ok63_check : forall sp enc ienc ops,
  sp_m sp < 59 ->
  forallb (shard_size_okb sp enc ienc ops)
          (map (fun o => shard_key_model (sp_p sp) (sp_m sp) (sp_s sp) (fst o)) ops) = true ->
  sizes_ok63 sp enc ienc ops.
Proof.
  intros sp enc ienc ops Hm Hall sk.
  destruct (in_dec N.eq_dec sk (map (fun o => shard_key_model (sp_p sp) (sp_m sp) (sp_s sp) (fst o)) ops))
    as [Hin|Hnot].
  - rewrite forallb_forall in Hall. specialize (Hall sk Hin). unfold shard_size_okb in Hall.
    apply N.ltb_lt in Hall. exact Hall.
  - assert (Ef : filter (fun o => shard_key_model (sp_p sp) (sp_m sp) (sp_s sp) (fst o) =? sk) ops = []).
    { clear Hall. induction ops as [|o r IH]; [reflexivity|]. cbn [filter].
      destruct (N.eqb_spec (shard_key_model (sp_p sp) (sp_m sp) (sp_s sp) (fst o)) sk) as [E|E].
      - exfalso. apply Hnot. left. exact E.
      - apply IH. intro H. apply Hnot. right. exact H. }
    assert (Ed : desc_of sp ops sk = []).
    { unfold desc_of, used_minis. rewrite Ef. reflexivity. }
    rewrite Ed. cbn [map concat d_kl sumlen fold_right]. change (lenN (@nil N)) with 0.
    assert (H2 : 2 ^ sp_m sp <= 2 ^ 58) by (apply N.pow_le_mono_r; lia).
    change (2 ^ 63) with (32 * 2 ^ 58). set (T := 2 ^ sp_m sp) in *. set (U := 2 ^ 58) in *.
    assert (0 < U) by (subst U; reflexivity). lia.
Qed.

Lemma Forall_forallb : forall {A} (P : A -> Prop) (f : A -> bool) l,
  (forall x, f x = true -> P x) -> forallb f l = true -> Forall P l.
Proof.
  intros A P f l Hf H. apply Forall_forall. intros x Hx. apply Hf.
  rewrite forallb_forall in H. apply H. exact Hx.
Qed.

Fixpoint nodup_coordsb (l : list PioModel.coords) : bool :=
  match l with
  | [] => true
  | c :: r => negb (existsb (coords_eqb c) r) && nodup_coordsb r
  end.

Lemma coords_eqb_refl : forall c, coords_eqb c c = true.
Proof.
  intro c. destruct c as [[[[[a1 a2] a3] a4] a5] a6]. unfold coords_eqb.
  rewrite !Z.eqb_refl. reflexivity.
Qed.

Lemma nodup_coordsb_ok : forall l, nodup_coordsb l = true -> NoDup l.
Proof.
  induction l as [|c r IH]; intro H; [constructor|].
  cbn [nodup_coordsb] in H. apply andb_true_iff in H. destruct H as [H1 H2].
  constructor; [|apply IH; exact H2].
  intro Hin. apply negb_true_iff in H1.
  assert (existsb (coords_eqb c) r = true).
  { apply existsb_exists. exists c. split; [exact Hin | apply coords_eqb_refl]. }
  congruence.
Qed.

Definition okb {A} (o : outcome A) : bool := match o with Ok _ => true | _ => false end.

(* every hypothesis of chunk_io_roundtrip holds on the example dataset, and
   its three conclusions are confirmed by evaluating the model in the kernel *)
Lemma sh_example :
  (forall k ch b, ex_encode k ch = Ok b -> ex_decode k b (fst ch) = Ok ch) /\
  cbits ex_sp < 2 ^ 64 /\ sp_m ex_sp < 59 /\
  (forall b, raw_dec (raw_enc b) = Ok b) /\ (forall b : bytes, b <> [] -> raw_enc b <> []) /\
  find_scale ex_scales ex_key = Some (cubic_scale ex_key 20 30 13 8) /\
  mk_vspec [8; 8; 8]%Z [20; 30; 13]%Z = Ok ex_v /\
  rank_room ex_sp ex_v /\
  length ex_ws = 24%nat /\
  NoDup (map snd ex_ws) /\
  Forall (fun w => check_valid ex_scales ex_key (snd w) = Ok tt) ex_ws /\
  Forall (fun w => fst (fst w) = extents (snd w)) ex_ws /\
  sizes_ok63 ex_sp raw_enc raw_enc (sh_ops ex_chunk ex_encode ex_scales ex_v ex_key ex_ws) /\
  hd_error ex_ws = Some (((4, 6, 5)%Z, [54; 54; 54]), (16, 20, 24, 30, 8, 13)%Z) /\
  fst (ex_session ex_ws) = map (fun _ => Ok tt) ex_ws /\
  forallb (fun nr => okb (snd nr)) (snd (ex_session ex_ws)) = true /\
  length (ex_files ex_ws) = 4%nat /\
  map (fun w => ex_read (ex_files ex_ws) (snd w)) ex_ws = map (fun w => Ok (fst w)) ex_ws /\
  (* the same chunks written in increasing order: byte-identical files *)
  snd (ex_session (rev ex_ws)) = snd (ex_session ex_ws).
Proof.
  split; [intros k [sh b0] b H; injection H as <-; reflexivity|].
  split; [reflexivity|]. split; [reflexivity|]. split; [reflexivity|].
  split; [intros b H; exact H|]. split; [reflexivity|]. split; [reflexivity|].
  split; [left; reflexivity|]. split; [reflexivity|].
  split; [apply nodup_coordsb_ok; vm_compute; reflexivity|].
  split.
  { apply (Forall_forallb _ (fun w => okb (check_valid ex_scales ex_key (snd w)))).
    - intros w H. destruct (check_valid ex_scales ex_key (snd w)) as [[]| | | | | |]; try discriminate H.
      reflexivity.
    - vm_compute. reflexivity. }
  split.
  { apply (Forall_forallb _ (fun w => let '(a, b, c) := fst (fst w) in let '(a', b', c') := extents (snd w) in
                                     ((a =? a') && (b =? b') && (c =? c'))%Z)).
    - intros [[[[a b] c] pl] co] H. cbn [fst snd] in *. destruct (extents co) as [[a' b'] c'].
      rewrite !andb_true_iff, !Z.eqb_eq in H. destruct H as [[-> ->] ->]. reflexivity.
    - vm_compute. reflexivity. }
  split; [apply sizes_ok63_check; [reflexivity | vm_compute; reflexivity]|].
  vm_compute. repeat split; reflexivity.
Qed.

(* A SECOND write to a position is not handled uniformly by the sharded writer
   (MiniShard.store_cmc_chunk):
   - if the first chunk has already been appended to its minishard (its
     identifier is below next_cmc) the second store raises RuntimeError and
     the first chunk stays: here position (0,0,0), identifier 0;
   - if the first chunk is still in the reorder buffer (waiting for a smaller
     identifier of its class) the second store silently replaces it
     ("_chunk_buffer[cmc] = ..."): here position (0,16,0), identifier 16,
     rank 1 of the class of identifier 0, written before position (0,0,0).
   So with repeated positions the outcome depends on the order of the writes;
   the theorems above therefore require pairwise distinct positions. *)
Lemma sh_second_store_example :
  let c0 := ex_coords 20 30 13 8 0 0 0 in
  let c16 := ex_coords 20 30 13 8 0 2 0 in
  let A := ((8, 8, 8)%Z, [1]) in let B := ((8, 8, 8)%Z, [2]) in let C := ((8, 8, 8)%Z, [3]) in
  sh_cmc ex_v c0 = Ok 0 /\ sh_cmc ex_v c16 = Ok 16 /\
  (* refused: first write wins *)
  fst (ex_session [(A, c0); (B, c0)]) = [Ok tt; Crash RuntimeError] /\
  ex_read (ex_files [(A, c0); (B, c0)]) c0 = Ok A /\
  (* silently replaced: last write wins *)
  fst (ex_session [(A, c16); (B, c16); (C, c0)]) = [Ok tt; Ok tt; Ok tt] /\
  ex_read (ex_files [(A, c16); (B, c16); (C, c0)]) c16 = Ok B /\
  (* ... and the same three writes in another order: the repeated one is refused *)
  fst (ex_session [(C, c0); (A, c16); (B, c16)]) = [Ok tt; Ok tt; Crash RuntimeError] /\
  ex_read (ex_files [(C, c0); (A, c16); (B, c16)]) c16 = Ok A.
Proof. vm_compute. repeat split; reflexivity. Qed.
