From Coq Require Import NArith ZArith List Bool Lia.
From NGS Require Import Val Ints PioModel VolModel ConvModel ConvProofs PioHandles PioHandlesProofs LinkPipeline.
Import ListNotations.
Open Scope Z_scope.

Section PipelineProofs.
  Variable I : Type.
  Variable V : Type.
  Variable bytes : Type.
  Variable scales_of : I -> list scale.
  Variable check_info : I -> outcome unit.
  Variable encode : I -> list N -> vchunk V -> outcome bytes.
  Variable decode : I -> list N -> bytes -> triple -> outcome (vchunk V).
  Variable f : V -> V.
  Variable geom_of : I -> list N * triple * triple * Z.

  Notation p_step := (p_step I V bytes scales_of check_info encode decode).
  Notation p_run := (p_run I V bytes scales_of check_info encode decode).
  Notation no_new := (no_new I V).

  (* an operation other than an initialisation never changes the stored info *)
  Lemma step_no_new_info (st : pds I bytes) o : no_new o -> h_info (fst (p_step st o)) = h_info st.
  Proof.
    intros Hn. unfold LinkPipeline.p_step.
    destruct o as [i ow| |h ch k c|h k c]; cbn [PioHandles.hstep]; [contradiction Hn| | |].
    - destruct (h_info st) as [i|] eqn:Ei; [|exact Ei].
      destruct (new_handle_spec I (vchunk V) bytes check_info st (Some i) i) as (H1 & _).
      rewrite H1. reflexivity.
    - destruct (nth_error (h_handles st) h) as [j|]; [|reflexivity].
      destruct (write_chunk (vchunk V) bytes (encode j) (scales_of j) (h_chunks st) ch k c); reflexivity.
    - destruct (nth_error (h_handles st) h) as [j|]; reflexivity.
  Qed.

  Lemma run_no_new_info : forall ops (st : pds I bytes),
    Forall no_new ops -> h_info (fst (p_run st ops)) = h_info st.
  Proof.
    induction ops as [|o r IH]; intros st HF; [reflexivity|].
    inversion HF as [|? ? Ho Hr]; subst.
    unfold LinkPipeline.p_run.
    rewrite (hrun_cons I (vchunk V) bytes scales_of check_info encode decode st o r).
    fold (p_step st o). 
    change (hrun I (vchunk V) bytes scales_of check_info encode decode) with p_run.
    rewrite (IH _ Hr). apply step_no_new_info. exact Ho.
  Qed.

  Lemma via_no_new h : forall ops, Forall no_new (map (via I V h) ops).
  Proof.
    induction ops as [|o r IH]; [constructor|].
    cbn [map]. constructor; [destruct o; exact I0 || exact Logic.I|exact IH].
  Qed.

  (* hypothesis 1 of C19_all_in_one_eq_steps: a freshly initialised dataset
     carries the info it was initialised with (even when the PrecomputedIO
     constructor then rejects it: the file is written first) *)
  Lemma new_dataset_stores oi :
    p_stored_info I bytes (p_new_dataset I V bytes scales_of check_info encode decode oi) = oi.
  Proof.
    destruct oi as [i|]; [|reflexivity].
    unfold p_stored_info, p_new_dataset, LinkPipeline.p_step. cbn [PioHandles.hstep PioHandles.h_empty h_info].
    destruct (new_handle_spec I (vchunk V) bytes check_info (h_empty I bytes) (Some i) i) as (H1 & _).
    exact H1.
  Qed.

  (* hypothesis 2: the volume-writing command leaves the stored info alone *)
  Lemma write_volume_keeps_info (opts : Type) v (o : opts) oi d :
    p_stored_info I bytes (p_write_volume I V bytes scales_of check_info encode decode f geom_of opts v o oi d)
    = p_stored_info I bytes d.
  Proof.
    unfold p_stored_info, p_write_volume. destruct oi as [i|]; [|reflexivity].
    destruct (geom_of i) as [[[key size] cs] nch].
    apply run_no_new_info. constructor; [exact Logic.I|apply via_no_new].
  Qed.

  (* the closed statement: with the dataset, its initialisation, the re-read of
     the info and the volume-writing step all taken from the models of C03 and
     C01, the all-in-one command and the documented sequence of commands
     produce the same dataset - for every info generator, scale generator and
     pyramid computation *)
  Theorem all_in_one_eq_steps_handles :
    forall (vol_opts : Type)
           (gen_info : pvol V -> vol_opts -> option I) (fill_scales : option I -> option I)
           (compute_scales : vol_opts -> option I -> pds I bytes -> pds I bytes) v o,
    all_in_one (option I) (pds I bytes) (pvol V) vol_opts gen_info fill_scales
               (p_new_dataset I V bytes scales_of check_info encode decode)
               (p_write_volume I V bytes scales_of check_info encode decode f geom_of vol_opts)
               compute_scales v o
    = step_by_step (option I) (pds I bytes) (pvol V) vol_opts gen_info fill_scales
               (p_new_dataset I V bytes scales_of check_info encode decode)
               (p_stored_info I bytes)
               (p_write_volume I V bytes scales_of check_info encode decode f geom_of vol_opts)
               compute_scales v o.
  Proof.
    intros vol_opts gen_info fill_scales compute_scales v o.
    apply all_in_one_eq_steps.
    - apply new_dataset_stores.
    - intros v' o' i d. apply write_volume_keeps_info.
  Qed.
End PipelineProofs.
