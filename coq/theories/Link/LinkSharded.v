(* Link C03 <-> C09 <-> C04/C05: PrecomputedIO's write_chunk / read_chunk over
   the SHARDED accessor model (Shard/ShardFile.v writer, Shard/ShardReader.v
   reader, Shard/Morton.v get_cmc) instead of the abstract chunk store of
   Pio/PioModel.v, for ONE scale of a sharded dataset.

     precomputed_io.PrecomputedIO.write_chunk:
        assert self.validate_chunk_coords(scale_key, chunk_coords)
        buf = encoder.encode(chunk)
        self.accessor.store_chunk(buf, scale_key, chunk_coords, mime_type=...)
     sharded_file_accessor.ShardedFileAccessor.store_chunk:
        self.shard_dict[key].store_chunk(buf, chunk_coords)       (ShardedScale)
     sharded_base.ShardedScaleBase.store_chunk:
        cmc = self.shard_volume_spec.get_cmc(chunk_coords)        (C09)
        return self.store_cmc_chunk(buf, cmc)                     (C05 writer)
     ShardedFileAccessor.close: every ShardedScale.close -> Shard.close writes
        one <shard>.shard file per used shard                     (C04 layout)

     precomputed_io.PrecomputedIO.read_chunk (on a NEW accessor object):
        assert self.validate_chunk_coords(scale_key, chunk_coords)
        buf = self.accessor.fetch_chunk(scale_key, chunk_coords)
        chunk = encoder.decode(buf, (xmax - xmin, ymax - ymin, zmax - zmin))
     ShardedFileAccessor.fetch_chunk -> ShardedScaleBase.fetch_chunk:
        cmc = self.shard_volume_spec.get_cmc(chunk_coords)
        return self.fetch_cmc_chunk(cmc)       (Shard(...) parses the file, C05 reader)

   Definitions only; proofs are in LinkShardedProofs.v.

   Scope (faithfulness notes).
   * One scale: the accessor keeps one ShardedScale per scale key; all
     operations below address the scale [k].  [v] is the ShardVolumeSpec the
     accessor builds for that scale from the info ([sh_vspec]: exactly one
     chunk size, ShardVolumeSpec(chunk_sizes, size) = Morton.mk_vspec, which
     accepts only cubic chunks and at most 64 identifier bits); the functions
     take the constructed [v], the theorems assume its construction succeeded.
   * get_cmc reads only xmin, ymin, zmin of the 6-tuple.
   * The writer is the fresh-directory writer of ShardFile.v (no shard file
     present before the session); the reader is a function of the directory
     content only, i.e. a freshly opened accessor.
   * An exception raised by store_chunk is returned as the outcome of that
     write and the session continues (the writer state after a failing store
     is the one ShardFile.v computes).
   * [plain_files]: the directory after close() = the files of the shards
     whose Shard.close returned normally (under the hypotheses of the theorems
     all of them do: LinkShardedProofs.sh_close_all_ok). *)
From Coq Require Import NArith ZArith List Bool.
From NGS Require Import Val Ints Morton ShardBytes MiniShard ShardFile ShardReader ShardWitness PioModel.
Import ListNotations.
Open Scope N_scope.

(* chunk origin of a PrecomputedIO 6-tuple *)
Definition origin (c : PioModel.coords) : Z * Z * Z :=
  let '(x0, _, y0, _, z0, _) := c in (x0, y0, z0).

(* ShardVolumeSpec.get_cmc(chunk_coords): only xmin, ymin, zmin are read *)
Definition sh_cmc (v : vspec) (c : PioModel.coords) : outcome N :=
  let '(x, y, z) := origin c in get_cmc_model v x y z.

(* get_volume_shard_spec / fetch_chunk: the volume spec of a scale of the info.
   "chunk_sizes, = scale.get("chunk_sizes")" needs exactly one chunk size; any
   exception is (re-raised as) ShardedIOError *)
Definition sh_vspec (s : PioModel.scale) : outcome vspec :=
  match sc_chunk_sizes s with
  | [(a, b, c)] => let '(sx, sy, sz) := sc_size s in mk_vspec [a; b; c] [sx; sy; sz]
  | _ => IOErr
  end.

(* the info entry of a scale with one cubic chunk size and no voxel offset *)
Definition cubic_scale (key : list N) (sx sy sz cs : Z) : PioModel.scale :=
  {| sc_key := key; sc_size := (sx, sy, sz); sc_chunk_sizes := [(cs, cs, cs)];
     sc_voxel_offset := Some (0, 0, 0)%Z |}.

Section LinkSharded.
  Variable chunk : Type.
  Variable encode : list N -> chunk -> outcome bytes.            (* chunk encoder of the scale *)
  Variable decode : list N -> bytes -> triple -> outcome chunk.

  Variable sp : sparams.                                         (* sharding parameters *)
  Variable denc ienc : bytes -> bytes.                           (* shard_spec.data_encoder / index_encoder *)
  Variable ddec idec : bytes -> outcome bytes.                   (* shard_spec.data_decoder / index_decoder *)

  (* ShardedFileAccessor.store_chunk(buf, key, coords) on the scale's writer state *)
  Definition sh_store_chunk (v : vspec) (st : ShardFile.scale) (buf : bytes) (c : PioModel.coords)
    : ShardFile.scale * outcome unit :=
    let '(x, y, z) := origin c in ShardFile.store_chunk sp denc v st buf x y z.

  (* PrecomputedIO.write_chunk *)
  Definition sh_write_chunk (scales : list PioModel.scale) (v : vspec) (st : ShardFile.scale)
             (ch : chunk) (k : list N) (c : PioModel.coords) : outcome unit * ShardFile.scale :=
    match check_valid scales k c with
    | Ok _ =>
        match encode k ch with
        | Ok buf => let '(st', r) := sh_store_chunk v st buf c in (r, st')
        | e => (bind e (fun _ => Ok tt), st)          (* e is not Ok here: bind only changes the type *)
        end
    | e => (e, st)
    end.

  (* the write phase: a list of (chunk, position) writes on scale k *)
  Fixpoint sh_write_all (scales : list PioModel.scale) (v : vspec) (k : list N)
           (st : ShardFile.scale) (ws : list (chunk * PioModel.coords))
    : list (outcome unit) * ShardFile.scale :=
    match ws with
    | [] => ([], st)
    | (ch, c) :: r =>
        let '(o, st1) := sh_write_chunk scales v st ch k c in
        let '(os, st2) := sh_write_all scales v k st1 r in
        (o :: os, st2)
    end.

  (* accessor.close(): one (file name, result of Shard.close) per shard *)
  Definition sh_close (st : ShardFile.scale) : list (bytes * outcome (option bytes)) :=
    scale_close sp ienc st.

  (* write phase from a fresh directory, then close: outcome of every write,
     outcome of every Shard.close, directory content afterwards *)
  Definition sh_session (scales : list PioModel.scale) (v : vspec) (k : list N)
             (ws : list (chunk * PioModel.coords))
    : list (outcome unit) * list (bytes * outcome (option bytes)) :=
    let '(os, st) := sh_write_all scales v k [] ws in (os, sh_close st).

  Definition sh_files (scales : list PioModel.scale) (v : vspec) (k : list N)
             (ws : list (chunk * PioModel.coords)) : list (bytes * bytes) :=
    plain_files (snd (sh_session scales v k ws)).

  (* ShardedFileAccessor.fetch_chunk(key, coords) of a freshly opened accessor
     on a directory with the given files *)
  Definition sh_fetch_chunk (v : vspec) (files : list (bytes * bytes)) (c : PioModel.coords)
    : outcome bytes :=
    bind (sh_cmc v c) (fun id => scale_fetch sp idec ddec (dir_of (sp_s sp) files) id).

  (* PrecomputedIO.read_chunk through that accessor *)
  Definition sh_read_chunk (scales : list PioModel.scale) (v : vspec) (files : list (bytes * bytes))
             (k : list N) (c : PioModel.coords) : outcome chunk :=
    bind (check_valid scales k c) (fun _ =>
    bind (sh_fetch_chunk v files c) (fun buf => decode k buf (extents c))).

  (* specification side: the (identifier, encoded chunk) pairs that reach
     ShardedScale.store_cmc_chunk during the write phase, in order *)
  Definition sh_ops (scales : list PioModel.scale) (v : vspec) (k : list N)
             (ws : list (chunk * PioModel.coords)) : list (N * bytes) :=
    flat_map (fun w =>
      match check_valid scales k (snd w), encode k (fst w) with
      | Ok _, Ok buf => match sh_cmc v (snd w) with Ok id => [(id, buf)] | _ => [] end
      | _, _ => []
      end) ws.
End LinkSharded.

(* identifier 2^64 - 1 is the only one whose rank in its (shard, minishard)
   class can be 2^64 - 1 (close() would have to append 2^64 entries and the
   uint64 counter _appended wraps); it exists only when the grid uses all 64
   identifier bits, and its rank is that large only without shard / minishard
   bits or with preshift_bits >= 64 *)
Definition rank_room (sp : sparams) (v : vspec) : Prop :=
  sumN (vs_nbits v) < 64 \/ (0 < sp_s sp + sp_m sp /\ sp_p sp < 64).

(* ---------- executable instance used by the non-vacuity examples ----------
   chunk = (extents, payload bytes); the codec stores the payload as is and
   decoding checks nothing but hands back the requested extents *)
Definition ex_chunk : Type := (triple * list N)%type.
Definition ex_encode (_ : list N) (ch : ex_chunk) : outcome bytes := Ok (snd ch).
Definition ex_decode (_ : list N) (b : bytes) (sh : triple) : outcome ex_chunk := Ok (sh, b).

(* all chunks of a gx x gy x gz grid of a volume (sx, sy, sz) with chunk size
   cs, x slowest; payload of chunk (x, y, z) = three copies of the byte
   x + 7 y + 31 z, as in ShardWitness.grid_ops; border chunks are clipped *)
Definition ex_coords (sx sy sz cs : Z) (x y z : nat) : PioModel.coords :=
  let lo := fun i => (Z.of_nat i * cs)%Z in
  (lo x, Z.min (lo x + cs) sx, lo y, Z.min (lo y + cs) sy, lo z, Z.min (lo z + cs) sz)%Z.

Definition ex_writes (sx sy sz cs : Z) (gx gy gz : nat) : list (ex_chunk * PioModel.coords) :=
  flat_map (fun x => flat_map (fun y => map (fun z =>
     let c := ex_coords sx sy sz cs x y z in
     ((extents c, repeat (N.of_nat (x + 7 * y + 31 * z)) 3), c)) (seq 0 gz)) (seq 0 gy)) (seq 0 gx).

(* the dataset of the examples: volume 20 x 30 x 13, chunk size 8 (grid
   3 x 4 x 2, the far chunks clipped to 4 / 6 / 5 voxels), 2 minishard bits,
   2 shard bits, no preshift (identifiers 0..31: shards 2 and 3 use the
   minishards {0, 2} only), raw data and index encoding, scale key "10um";
   the 24 chunks are written in DEcreasing (x, y, z) order *)
Definition ex_key : list N := [49; 48; 117; 109].
Definition ex_scales : list PioModel.scale := [cubic_scale ex_key 20 30 13 8].
Definition ex_sp : sparams := {| sp_m := 2; sp_s := 2; sp_p := 0 |}.
Definition ex_v : vspec :=
  {| vs_chunk := 8; vs_grid := [3; 4; 2]; vs_nbits := [2; 2; 1] |}.
Definition ex_ws : list (ex_chunk * PioModel.coords) := rev (ex_writes 20 30 13 8 3 4 2).

Definition ex_session (ws : list (ex_chunk * PioModel.coords)) :=
  sh_session ex_chunk ex_encode ex_sp raw_enc raw_enc ex_scales ex_v ex_key ws.
Definition ex_files (ws : list (ex_chunk * PioModel.coords)) : list (bytes * bytes) :=
  sh_files ex_chunk ex_encode ex_sp raw_enc raw_enc ex_scales ex_v ex_key ws.
Definition ex_read (fs : list (bytes * bytes)) (c : PioModel.coords) : outcome ex_chunk :=
  sh_read_chunk ex_chunk ex_decode ex_sp raw_dec raw_dec ex_scales ex_v fs ex_key c.
