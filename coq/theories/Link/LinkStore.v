(* Link C03 <-> C12: PrecomputedIO's write_chunk / read_chunk over the FILE
   ACCESSOR MODEL (StFileAccessor.v: FileAccessor over the abstract file
   system, flat / deep chunk paths, gzip as an oracle, probe order) instead of
   the abstract chunk store of PioModel.v.

     precomputed_io.PrecomputedIO.write_chunk:
        assert self.validate_chunk_coords(scale_key, chunk_coords)
        buf = encoder.encode(chunk)
        self.accessor.store_chunk(buf, scale_key, chunk_coords,
                                  mime_type=encoder.mime_type)   # overwrite=True (default)
     precomputed_io.PrecomputedIO.read_chunk:
        assert self.validate_chunk_coords(scale_key, chunk_coords)
        buf = self.accessor.fetch_chunk(scale_key, chunk_coords)
        chunk = encoder.decode(buf, (xmax - xmin, ymax - ymin, zmax - zmin))

   Definitions only; proofs are in LinkStoreProofs.v.

   Oracles (Section variables, as in the Store files):
     B, plain, gz, gunzip   file contents and the gzip pair of StFileAccessor.v
     raw : B -> bytes       the byte string that a file content is when the
                            accessor hands it back to Python (fetch_chunk
                            returns f.read()); the only fact used about it is
                            raw (plain b) = b.  The executable instance is
                            [blob_raw] below.
     mime_of : key -> bytes the MIME type of the encoder of a scale
                            (encoder.mime_type: "application/octet-stream"
                            for raw and compressed_segmentation, "image/jpeg"
                            for jpeg); [octet_mime] is the constant function
                            for the first two. *)
From Coq Require Import NArith ZArith List Bool.
From NGS Require Import Val Ints PioModel StFS StFileAccessor StRefineProofs.
Import ListNotations.

(* PrecomputedIO passes the 6-tuple to the accessor unchanged *)
Definition to_co (c : PioModel.coords) : StFileAccessor.coords :=
  let '(x0, x1, y0, y1, z0, z1) := c in
  {| cx0 := x0; cx1 := x1; cy0 := y0; cy1 := y1; cz0 := z0; cz1 := z1 |}.

(* "application/octet-stream" *)
Definition mime_octet : list N :=
  [97;112;112;108;105;99;97;116;105;111;110;47;111;99;116;101;116;45;115;116;114;101;97;109]%N.
Definition octet_mime (_ : list N) : list N := mime_octet.

(* ---- the guard on the dataset's scale keys ----
   A key is usable as ONE directory name below the dataset directory:
   non-empty, no '/', not "." or ".." ([simple_comp], StFileAccessor.v) and not
   ending in ".gz" (C12's guard: no accepted name has a component ending in
   ".gz", because "<name>.gz" is where the gzip copy of <name> lives). *)
Definition key_ok (k : list N) : bool := simple_comp k && negb (ends_gz k).
Definition scales_ok (scales : list scale) : bool := forallb (fun s => key_ok (sc_key s)) scales.

(* a clearly stronger, purely lexical predicate: non-empty strings over
   [A-Za-z0-9_-] (no '.', no '/') *)
Definition plain_char (c : N) : bool :=
  ((48 <=? c) && (c <=? 57) || (65 <=? c) && (c <=? 90) || (97 <=? c) && (c <=? 122)
   || (c =? 95) || (c =? 45))%N.
Definition plain_key (k : list N) : bool :=
  match k with [] => false | _ => forallb plain_char k end.

Section LinkStore.
  Variable chunk : Type.
  Variable encode : list N -> chunk -> outcome (list N).
  Variable decode : list N -> list N -> triple -> outcome chunk.

  Variable B : Type.
  Variable plain : list N -> B.
  Variable gz : N -> list N -> B.
  Variable gunzip : B -> gzres.
  Variable raw : B -> list N.
  Variable mime_of : list N -> list N.

  (* the value of accessor.fetch_chunk as a byte string.  FileAccessor's
     fetch_chunk only ever returns data (LinkStoreProofs.fetch_chunk_data: for
     EVERY file system the other two constructors cannot come back), so the
     TypeError branch is unreachable; it is there only to keep the function
     total without inventing a byte string. *)
  Definition fetched_bytes (v : resval B) : outcome (list N) :=
    match v with
    | VData d => Ok (raw d)
    | _ => Crash TypeError
    end.

  (* write_chunk: the file system is the state; it is threaded through even
     when the accessor fails (a failing store_chunk may have created
     directories) *)
  Definition fa_write_chunk (cf : cfg) (scales : list scale) (t : fs B)
             (ch : chunk) (k : list N) (c : PioModel.coords) : outcome unit * fs B :=
    match check_valid scales k c with
    | Ok _ =>
        match encode k ch with
        | Ok buf =>
            let '(r, t') := run_op B plain gz gunzip cf t
                              (OStoreChunk k (to_co c) buf (mime_of k) true) in
            (bind r (fun _ => Ok tt), t')
        | e => (bind e (fun _ => Ok tt), t)
        end
    | e => (bind e (fun _ => Ok tt), t)
    end.

  Definition fa_read_chunk (cf : cfg) (scales : list scale) (t : fs B)
             (k : list N) (c : PioModel.coords) : outcome chunk * fs B :=
    match check_valid scales k c with
    | Ok _ =>
        let '(r, t') := run_op B plain gz gunzip cf t (OFetchChunk k (to_co c)) in
        (bind r (fun v => bind (fetched_bytes v) (fun buf => decode k buf (extents c))), t')
    | e => (bind e (fun _ => Crash AssertionError), t)   (* e is not Ok here: bind only changes the type *)
    end.

  (* a sequence of PrecomputedIO operations (the op type of PioModel.v), same
     shape of result as PioModel.run: final state, one outcome per operation *)
  Fixpoint fa_run (cf : cfg) (scales : list scale) (t : fs B) (ops : list (PioModel.op chunk))
    : fs B * list (outcome (option chunk)) :=
    match ops with
    | [] => (t, [])
    | Write _ ch k c :: r =>
        let '(res, t1) := fa_write_chunk cf scales t ch k c in
        let '(t2, out) := fa_run cf scales t1 r in
        (t2, bind res (fun _ => Ok None) :: out)
    | Read _ k c :: r =>
        let '(res, t1) := fa_read_chunk cf scales t k c in
        let '(t2, out) := fa_run cf scales t1 r in
        (t2, bind res (fun x => Ok (Some x)) :: out)
    end.
End LinkStore.

(* executable instance of [raw] on the tagged contents of StFileAccessor.v: a
   plain file is its bytes; the bytes of a gzip stream or of a cut file are
   not predicted by the model (never read raw under the guard) *)
Definition blob_raw (d : blob) : list N :=
  match d with BPlain b => b | _ => [] end.
