(* C19 over the handle model of C03: the two abstract hypotheses of
   C19_all_in_one_eq_steps ("a command that re-opens the dataset reads back the
   info that was stored", "writing chunks does not change it") are not assumed
   but derived from PioHandles: the dataset is an hstate, get_IO_for_new_dataset
   is HNew, every later command opens its own PrecomputedIO object (HOpen) and
   writes the chunks of VolModel.convert_ops through it. *)
From Coq Require Import NArith ZArith List Bool Lia.
From NGS Require Import Val Ints PioModel VolModel ConvModel PioHandles.
Import ListNotations.
Open Scope Z_scope.

Section Pipeline.
  Variable I : Type.                               (* the info *)
  Variable V : Type.                               (* a voxel value *)
  Variable bytes : Type.
  Variable scales_of : I -> list scale.
  Variable check_info : I -> outcome unit.
  Variable encode : I -> list N -> vchunk V -> outcome bytes.
  Variable decode : I -> list N -> bytes -> triple -> outcome (vchunk V).
  Variable f : V -> V.                             (* element-wise conversion (C11) *)
  (* full-resolution scale described by an info: key, size, chunk size, channels *)
  Variable geom_of : I -> list N * triple * triple * Z.

  Definition pds := hstate I bytes.
  Definition pvol := Z -> Z -> Z -> Z -> V.

  Definition p_step := hstep I (vchunk V) bytes scales_of check_info encode decode.
  Definition p_run := hrun I (vchunk V) bytes scales_of check_info encode decode.

  (* get_IO_for_new_dataset on an empty destination (None: no info was produced) *)
  Definition p_new_dataset (oi : option I) : pds :=
    match oi with
    | Some i => fst (p_step (h_empty I bytes) (HNew I (vchunk V) i false))
    | None => h_empty I bytes
    end.

  Definition p_stored_info (d : pds) : option I := h_info d.

  Definition via (h : nat) (o : op (vchunk V)) : hop I (vchunk V) :=
    match o with
    | Write _ ch k c => HWrite I (vchunk V) h ch k c
    | Read _ k c => HRead I (vchunk V) h k c
    end.

  (* volume-to-precomputed: open the dataset, then write every chunk of the
     full-resolution grid through that object *)
  Definition p_write_volume (opts : Type) (v : pvol) (o : opts) (oi : option I) (d : pds) : pds :=
    match oi with
    | None => d
    | Some i =>
        let '(key, size, cs, nch) := geom_of i in
        fst (p_run d (HOpen I (vchunk V)
                      :: map (via (length (h_handles d))) (convert_ops V f v nch key size cs)))
    end.

  Definition no_new (o : hop I (vchunk V)) : Prop :=
    match o with HNew _ _ _ _ => False | _ => True end.
End Pipeline.
