(* Link C14 <-> C05: the sharded HTTP reader of StHttp.v with its abstract
   parameters instantiated by the package reader of Shard/ShardReader.v.

   C14 (StHttp.v) models the transport side of sharded_http_accessor.HttpShard:
   HEAD probes, Range requests, the length check, and leaves open
     idx_decode   shard_spec.index_decoder           (None = zlib.error)
     locate       "which minishard holds an identifier and where its chunk
                  lies", a function of the decoded minishard indices
     data_decode  shard_spec.data_decoder
   C05 (ShardReader.v) models exactly that computation for the local reader:
   populate_minishard_dict (empty slots skipped, every index filed under the
   minishard number of its FIRST identifier), ReadableMiniShardCMC's checks,
   the flat index walk and the uint64 offset sums of fetch_cmc_chunk.  Both
   classes inherit this code from sharded_base.ShardCMC, so the instantiation
   below is what HttpShard really runs.

     [link_locate sp]   the C05 algorithm as a C14 [locate]
     [idx_o]            C14's index decoder in C05's outcome form
     [http_shard_fetch] ShardedHttpScale.fetch_cmc_chunk: shard name from the
                        identifier, then HttpShard(...) and fetch_cmc_chunk

   Translation layer between the two representations of files:
     C14: a tree [fs B] (StFS.v) with contents [B] and [plain : list N -> B];
     C05: a directory listing [list (bytes * bytes)] (name -> content) and,
          per shard, a [src] (SrcShard f | SrcLegacy idx dat | SrcNone).
     [tree_src]   the C05 source that a tree holds for a shard name
     [dir_holds]  "directory [dir] of the tree holds exactly the listing"
     [tree_of]    the smallest such tree (ancestors of [dir] + the files)

   Guards of the agreement theorem:
     [rd_inb] / [inb]   one read lies inside the file it addresses and below
                        the limits of the local seek/read (offset < 2^63,
                        length < 2^63 - 1); a zero-length read only needs the
                        offset limit
     [fetch_inb]        every read that the package reader issues for an
                        identifier (shard index, every non-empty slot of the
                        shard index, the chunk) satisfies [inb], and the words
                        of the shard index are uint64 values

   Definitions only; proofs are in LinkHttpShardProofs.v. *)
From Coq Require Import NArith ZArith List Bool Lia.
From NGS Require Import Val Ints Morton ShardBytes MiniShard ShardFile ShardReader
                        StFS StFileAccessor StSharded StHttp.
Import ListNotations.
Open Scope N_scope.

(* C14's normalisation of what a decoder raises (HttpShard lets an OSError
   through as such, anything else is a crash) *)
Definition dec_norm (o : outcome bytes) : outcome bytes :=
  match o with Ok b => Ok b | Crash c => Crash c | _ => IOErr end.

(* the outcomes a decoder can have in C14: bytes, an OSError, another exception *)
Definition tame {A} (o : outcome A) : Prop :=
  match o with Ok _ | IOErr | Crash _ => True | _ => False end.

Section LinkReader.
Variable sp : sparams.
Variable idx_decode : bytes -> option bytes.

(* shard_spec.index_decoder as C05 takes it *)
Definition idx_o (b : bytes) : outcome bytes :=
  match idx_decode b with Some d => Ok d | None => Crash ZlibError end.

(* np.frombuffer(decoded, dtype=uint64) once ReadableMiniShardCMC accepted it *)
Definition words_of (b : bytes) : list N := ShardBytes.words64 (Nat.div (length b) 8) b.

(* ro_minishard_dict from the decoded indices in slot order:
   self.ro_minishard_dict[self.get_minishard_key(index[0])] = minishard *)
Fixpoint dict_of (idxs : list bytes) (d : list (N * list N)) : list (N * list N) :=
  match idxs with
  | [] => d
  | dec :: r =>
      let ws := words_of dec in
      dict_of r (ShardBytes.aset (minishard_key_model (sp_p sp) (sp_m sp) (hd 0 ws)) ws d)
  end.

(* ReadableMiniShardCMC.fetch_cmc_chunk up to (not including) read_bytes:
   the byte range of the chunk (ShardReader.mini_fetch_raw without its read) *)
Definition mini_locate (ws : list N) (cmc : N) : outcome (N * N) :=
  match ws with
  | [] => Crash IndexError
  | w0 :: rest =>
      let n := Nat.div (length ws) 3 in
      bind (ShardReader.walk rest w0 0 cmc) (fun '(i, tally) =>
      if negb (tally =? cmc) then IOErr else
      match nth_error ws (2 * n + i) with
      | None => Crash IndexError
      | Some blen =>
          Ok (add64 (add64 (hl sp) (sum64 (wslice n (n + i + 1) ws)))
                    (sum64 (wslice (2 * n) (2 * n + i) ws)), blen)
      end)
  end.

(* Shard.fetch_cmc_chunk up to the read: assert minishard_key in ro_minishard_dict *)
Definition dict_locate (d : list (N * list N)) (cmc : N) : outcome (N * N) :=
  match alookup (minishard_key_model (sp_p sp) (sp_m sp) cmc) d with
  | None => Crash AssertionError
  | Some ws => mini_locate ws cmc
  end.

(* the instance of C14's [locate] *)
Definition link_locate (idxs : list bytes) (cmc : N) : outcome (N * N) :=
  dict_locate (dict_of idxs []) cmc.

(* which of C14's two read modes a source is read in *)
Definition src_legacy (s : src) : bool := match s with SrcLegacy _ _ => true | _ => false end.

(* ---------- guards ---------- *)
Definition rd_inb (f : bytes) (o len : N) : bool :=
  (o <? two63) && ((len =? 0) || ((len <? two63 - 1) && (o + len <=? lenN f))).

Definition inb (s : src) (off len : N) : bool :=
  match s with
  | SrcNone => false
  | SrcShard f => rd_inb f off len
  | SrcLegacy i d => if off <? hl sp then rd_inb i off len else rd_inb d (off - hl sp) len
  end.

(* every non-empty slot (start, end) of the shard index: a range of the file *)
Definition slots_inb (s : src) (slots : list (N * N)) : bool :=
  forallb (fun '(o, e) => (sub64 e o =? 0) || ((o + hl sp <? two64) && inb s (o + hl sp) (sub64 e o))) slots.

(* the shard index is wholly there, is an array of uint64, and its slots are ranges of the file *)
Definition hdr_inb (s : src) : bool :=
  inb s 0 (hl sp) &&
  match read_bytes sp s 0 (hl sp) with
  | Ok h => forallb (fun w => w <? two64) (words_of h) && slots_inb s (pairs_of (words_of h))
  | _ => true
  end.

(* ... and so is the chunk range that the reader computes for [cmc] (if it gets that far) *)
Definition fetch_inb (s : src) (cmc : N) : bool :=
  hdr_inb s &&
  match populate sp idx_o s with
  | Ok d => match dict_locate d cmc with Ok (off, len) => inb s off len | _ => true end
  | _ => true
  end.

End LinkReader.

(* ---------- trees <-> directory listings ---------- *)
Section LinkTree.
Variable B : Type.
Variable plain : list N -> B.
Variable unplain : B -> option (list N).

(* the bytes of a plain file of the tree *)
Definition tree_file (t : fs B) (p : path) : option bytes :=
  match lookup B t p with Some (File d) => unplain d | _ => None end.

(* ShardCMC.__init__ on a tree: <name>.shard, else <name>.index + <name>.data *)
Definition tree_src (t : fs B) (dir : path) (name : list N) : src :=
  match tree_file t (shard_file dir name s_shard) with
  | Some f => SrcShard f
  | None =>
      match tree_file t (shard_file dir name s_index), tree_file t (shard_file dir name s_data) with
      | Some i, Some d => SrcLegacy i d
      | _, _ => SrcNone
      end
  end.

(* directory [dir] of [t] holds exactly the files of the listing *)
Definition dir_holds (t : fs B) (dir : path) (files : list (bytes * bytes)) : Prop :=
  forall n : comp,
    match blookup n files with
    | Some c => lookup B t (dir ++ [n]) = Some (File (plain c))
    | None => forall d, lookup B t (dir ++ [n]) <> Some (File d)
    end.

(* every non-empty prefix of [pre ++ rest] longer than [pre] is a directory *)
Fixpoint dir_chain (pre rest : path) : fs B :=
  match rest with
  | [] => []
  | c :: r => (pre ++ [c], Dir) :: dir_chain (pre ++ [c]) r
  end.

Definition tree_of (dir : path) (files : list (bytes * bytes)) : fs B :=
  dir_chain [] dir ++ map (fun nf => (dir ++ [fst nf], File (plain (snd nf)))) files.

(* the legacy layout of one shard file: the shard index apart from the rest *)
Definition legacy_split (hlen : N) (stem : bytes) (f : bytes) : list (bytes * bytes) :=
  [(stem ++ ext_index, firstn (N.to_nat hlen) f); (stem ++ ext_data, skipn (N.to_nat hlen) f)].

End LinkTree.

(* ---------- the sharded HTTP accessor with the package reader plugged in ---------- *)
Section LinkFetch.
Variable B : Type.
Variable plain : list N -> B.
Variable gunzip : B -> gzres.
Variable unplain : B -> option (list N).
Variable sp : sparams.
Variable idx_decode : bytes -> option bytes.
Variable data_o : bytes -> outcome bytes.

Definition shard_name_of (cmc : N) : list N :=
  shard_name_model (sp_s sp) (shard_key_model (sp_p sp) (sp_m sp) (sp_s sp) cmc).

(* HttpShard(<scale url>, <shard name>, spec) . fetch_cmc_chunk(cmc) *)
Definition http_shard_fetch_named (scale_url name : list N) (cmc : N) : hprog B (outcome B) :=
  hs_fetch B plain gunzip unplain idx_decode (link_locate sp) data_o scale_url name (hl sp) cmc.

(* ShardedScaleBase.fetch_cmc_chunk over HTTP *)
Definition http_shard_fetch (scale_url : list N) (cmc : N) : hprog B (outcome B) :=
  http_shard_fetch_named scale_url (shard_name_of cmc) cmc.

End LinkFetch.
