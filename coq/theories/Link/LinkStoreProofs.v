(* Link C03 <-> C12, proofs: the file accessor model implements the abstract
   chunk store of PioModel.v for PrecomputedIO's chunk operations, for every
   configuration (flat / deep, gzip on / off, any level) and every sequence of
   operations, from a fresh dataset directory, provided the dataset's scale
   keys are single directory names ([scales_ok]).

   Proof plan.  C12's one-step refinement [op_refines] (StRefineProofs.v)
   relates one accessor operation to the abstract map name -> bytes under the
   invariant [Inv]; it needs a finite universe U of names (and X of
   other-layout names) that is prefix-free, ".gz"-free and clean.  Here
   U := the documented chunk names  key :: tail(layout, coords)  of the
   positions the history touches, X := the same under the other layout; the
   side conditions follow from [key_ok] and from the shape of printed
   coordinates.  [Rel] ties PioModel's store to the abstract map through the
   (injective) chunk naming, and the simulation is an induction over the
   history. *)
From Coq Require Import NArith ZArith Arith List Bool Lia.
From NGS Require Import Val Ints PioModel PioProofs StFS StFSProofs StFileAccessor
                        StFileAccessorProofs StRefineProofs StC12Proofs LinkStore.
Import ListNotations.

(* ---------- keys ---------- *)

Lemma key_ok_facts : forall k, key_ok k = true ->
  k <> [] /\ is_absolute k = false /\ spec_key k = Some [k] /\
  is_dotdot k = false /\ ends_gz k = false.
Proof.
  intros k H. unfold key_ok in H. apply andb_true_iff in H as [Hs Hg].
  apply negb_true_iff in Hg.
  destruct (simple_comp_facts k Hs) as [Hns [Hkeep [Hdd Hne]]].
  assert (Habs : is_absolute k = false).
  { destruct k as [|a r]; [reflexivity|]. inversion Hns as [|? ? Ha Hr]; subst.
    cbn [is_absolute]. apply N.eqb_neq. exact Ha. }
  repeat split; try assumption.
  unfold spec_key. destruct k as [|a r] eqn:Ek; [contradiction|]. rewrite <- Ek in *.
  rewrite Habs. unfold split_slash. rewrite (split_no_slash k [] Hns).
  cbn [rev app filter]. rewrite Hkeep. cbn [existsb]. rewrite Hdd. reflexivity.
Qed.

Lemma ends_gz_inv : forall k, ends_gz k = true -> exists r, rev k = 122%N :: 103%N :: 46%N :: r.
Proof.
  intros k. unfold ends_gz. destruct (rev k) as [|x [|y [|z r]]]; intro H.
  - discriminate H.
  - exfalso. destruct x as [|p]; [discriminate H|].
    do 7 (destruct p as [p|p|]; try discriminate H).
  - exfalso. destruct x as [|p]; [discriminate H|].
    do 7 (destruct p as [p|p|]; try discriminate H).
    all: destruct y as [|p]; [discriminate H|].
    all: do 7 (destruct p as [p|p|]; try discriminate H).
  - exists r.
    assert (x = 122%N /\ y = 103%N /\ z = 46%N) as (-> & -> & ->); [|reflexivity].
    destruct x as [|p]; [discriminate H|].
    do 7 (destruct p as [p|p|]; try discriminate H).
    destruct y as [|p]; [discriminate H|].
    do 7 (destruct p as [p|p|]; try discriminate H).
    destruct z as [|p]; [discriminate H|].
    do 6 (destruct p as [p|p|]; try discriminate H).
    auto.
Qed.

Lemma name_char_not_gz : forall l, Forall name_char l -> ends_gz l = false.
Proof.
  intros l H. destruct (ends_gz l) eqn:E; [|reflexivity]. exfalso.
  apply ends_gz_inv in E as [r Hr].
  assert (Hin : In 122%N l) by (apply in_rev; rewrite Hr; left; reflexivity).
  rewrite Forall_forall in H. specialize (H _ Hin).
  destruct H as [[H1 H2]|[H|H]]; lia.
Qed.

Lemma tail_clean : forall f co, cleanb (spec_chunk_tail f co) = true.
Proof.
  intros f co. destruct f; cbn [spec_chunk_tail cleanb forallb].
  - rewrite (name_not_dotdot _ (spec_flat_name_chars co)). reflexivity.
  - rewrite !(name_not_dotdot _ (spec_axis_chars _ _)). reflexivity.
Qed.

Lemma tail_gzfree : forall f co, gzfree (spec_chunk_tail f co) = true.
Proof.
  intros f co. destruct f; cbn [spec_chunk_tail gzfree forallb].
  - rewrite (name_char_not_gz _ (spec_flat_name_chars co)). reflexivity.
  - rewrite !(name_char_not_gz _ (spec_axis_chars _ _)). reflexivity.
Qed.

Lemma tail_len : forall f co, length (spec_chunk_tail f co) = if f then 1%nat else 3%nat.
Proof. intros [] co; reflexivity. Qed.

(* the lexical predicate is stronger than the guard *)
Lemma plain_char_facts : forall c, plain_char c = true -> c <> 46%N /\ c <> 47%N.
Proof.
  intros c H. unfold plain_char in H.
  repeat (apply orb_true_iff in H as [H|H]);
    try (apply andb_true_iff in H as [H1 H2]; apply N.leb_le in H1, H2; lia);
    apply N.eqb_eq in H; lia.
Qed.

Lemma plain_key_ok : forall k, plain_key k = true -> key_ok k = true.
Proof.
  intros k H. unfold plain_key in H. destruct k as [|a r] eqn:Ek; [discriminate|].
  rewrite <- Ek in *. rewrite forallb_forall in H.
  assert (Hno : forall x, In x k -> x <> 46%N /\ x <> 47%N)
    by (intros x Hx; apply plain_char_facts, H, Hx).
  unfold key_ok, simple_comp. repeat (apply andb_true_iff; split).
  - apply negb_true_iff. destruct (existsb (N.eqb slash) k) eqn:E; [|reflexivity].
    apply existsb_exists in E as [x [Hx E]]. apply N.eqb_eq in E. subst x.
    destruct (Hno _ Hx) as [_ Hs]. exfalso. apply Hs. reflexivity.
  - unfold keep_comp. rewrite Ek. rewrite <- Ek. apply negb_true_iff, bytes_eqb_neq.
    intro E. rewrite E in Hno. destruct (Hno 46%N (or_introl eq_refl)) as [Hd _]. apply Hd. reflexivity.
  - apply negb_true_iff, bytes_eqb_neq. intro E. rewrite E in Hno.
    destruct (Hno 46%N (or_introl eq_refl)) as [Hd _]. apply Hd. reflexivity.
  - apply negb_true_iff. destruct (ends_gz k) eqn:E; [|reflexivity]. exfalso.
    apply ends_gz_inv in E as [r' Er].
    assert (Hin : In 46%N k).
    { apply in_rev. rewrite Er. right. right. left. reflexivity. }
    destruct (Hno _ Hin) as [Hd _]. apply Hd. reflexivity.
Qed.

(* ---------- chunk names of positions ---------- *)

Definition pos := (list N * PioModel.coords)%type.

Definition cname (f : bool) (p : pos) : path := fst p :: spec_chunk_tail f (to_co (snd p)).

Definition universe (f : bool) (P : list pos) : list path :=
  map (cname f) (filter (fun p => key_ok (fst p)) P).

Definition positions {chunk : Type} (ops : list (PioModel.op chunk)) : list pos :=
  map (fun o => match o with Write _ _ k c => (k, c) | Read _ k c => (k, c) end) ops.

Lemma in_universe : forall f P n, In n (universe f P) <->
  exists k c, In (k, c) P /\ key_ok k = true /\ n = cname f (k, c).
Proof.
  intros f P n. unfold universe. rewrite in_map_iff. split.
  - intros [[k c] [E Hin]]. apply filter_In in Hin as [Hin Hk]. exists k, c. auto.
  - intros [k [c [Hin [Hk E]]]]. exists (k, c). split; [auto|]. apply filter_In. auto.
Qed.

Lemma cname_len : forall f p, length (cname f p) = S (if f then 1%nat else 3%nat).
Proof. intros f p. unfold cname. cbn [length]. rewrite tail_len. reflexivity. Qed.

Lemma universe_HU : forall f P n, In n (universe f P) ->
  n <> [] /\ cleanb n = true /\ gzfree n = true.
Proof.
  intros f P n H. apply in_universe in H as [k [c [_ [Hk ->]]]].
  destruct (key_ok_facts k Hk) as [_ [_ [_ [Hdd Hgz]]]].
  unfold cname. cbn [fst snd]. split; [discriminate|]. split.
  - change (cleanb (k :: spec_chunk_tail f (to_co c)))
      with (negb (is_dotdot k) && cleanb (spec_chunk_tail f (to_co c))).
    rewrite Hdd, tail_clean. reflexivity.
  - change (gzfree (k :: spec_chunk_tail f (to_co c)))
      with (negb (ends_gz k) && gzfree (spec_chunk_tail f (to_co c))).
    rewrite Hgz, tail_gzfree. reflexivity.
Qed.

Lemma universe_HPF : forall f P n m, In n (universe f P) -> In m (universe f P) ->
  prefix n m -> n = m.
Proof.
  intros f P n m Hn Hm [r Hr].
  apply in_universe in Hn as [k [c [_ [_ ->]]]]. apply in_universe in Hm as [k' [c' [_ [_ ->]]]].
  assert (Hl : length r = 0%nat).
  { apply (f_equal (@length _)) in Hr. rewrite app_length, !cname_len in Hr. lia. }
  destruct r; [|discriminate]. rewrite app_nil_r in Hr. symmetry. exact Hr.
Qed.

Lemma universe_HX : forall f P o, In o (universe (negb f) P) ->
  ~ In o (universe f P) /\ o <> [] /\ cleanb o = true /\ gzfree o = true.
Proof.
  intros f P o H. split; [|apply (universe_HU (negb f) P o H)].
  intro H2. apply in_universe in H as [k [c [_ [_ ->]]]]. apply in_universe in H2 as [k' [c' [_ [_ E]]]].
  apply (f_equal (@length _)) in E. rewrite !cname_len in E. destruct f; discriminate.
Qed.

Lemma to_co_inj : forall c c', to_co c = to_co c' -> c = c'.
Proof.
  intros [[[[[a1 a2] a3] a4] a5] a6] [[[[[b1 b2] b3] b4] b5] b6] E.
  cbn [to_co] in E. inversion E. reflexivity.
Qed.

Lemma coords_eqb_refl : forall c, coords_eqb c c = true.
Proof.
  intros [[[[[a1 a2] a3] a4] a5] a6]. unfold coords_eqb. rewrite !Z.eqb_refl. reflexivity.
Qed.

(* the naming is injective: equality of names is equality of positions *)
Lemma cname_eqb : forall f k c k' c',
  path_eqb (cname f (k, c)) (cname f (k', c')) = key_eqb k' k && coords_eqb c' c.
Proof.
  intros f k c k' c'. apply Bool.eq_iff_eq_true. split.
  - intro H. apply path_eqb_eq in H. unfold cname in H. cbn [fst snd] in H.
    inversion H as [[Hk Ht]]. apply spec_chunk_tail_inj, to_co_inj in Ht. subst.
    rewrite key_eqb_refl, coords_eqb_refl. reflexivity.
  - intro H. apply andb_true_iff in H as [H1 H2].
    apply key_eqb_eq in H1. apply coords_eqb_eq in H2. subst. apply path_eqb_refl.
Qed.

(* PioModel's store and C12's abstract map hold the same bytes at every position *)
Definition Rel (f : bool) (st : store (list N)) (m : amap) : Prop :=
  forall k c, PioModel.lookup (list N) st k c = aget m (cname f (k, c)).

Lemma Rel_nil : forall f, Rel f [] [].
Proof. intros f k c. reflexivity. Qed.

Lemma Rel_write : forall f st m k c buf, Rel f st m ->
  Rel f ((k, c, buf) :: st) (aset m (cname f (k, c)) buf).
Proof.
  intros f st m k c buf HR k' c'. cbn [PioModel.lookup]. rewrite aget_aset, cname_eqb.
  destruct (key_eqb k' k && coords_eqb c' c); [reflexivity | apply HR].
Qed.

Lemma find_scale_in : forall scales k s, find_scale scales k = Some s -> In s scales /\ k = sc_key s.
Proof.
  induction scales as [|s0 r IH]; intros k s H; [discriminate|]. cbn [find_scale] in H.
  destruct (find_scale r k) as [s'|] eqn:E.
  - inversion H; subst. destruct (IH k s E) as [H1 H2]. split; [right; exact H1 | exact H2].
  - destruct (key_eqb k (sc_key s0)) eqn:Ek; [|discriminate]. inversion H; subst.
    split; [left; reflexivity | apply key_eqb_eq; exact Ek].
Qed.

Lemma check_valid_key : forall scales k c u, scales_ok scales = true ->
  check_valid scales k c = Ok u -> key_ok k = true.
Proof.
  intros scales k c u Hs H. unfold check_valid in H.
  destruct (find_scale scales k) as [s|] eqn:E; [|discriminate].
  destruct (find_scale_in scales k s E) as [Hin ->].
  unfold scales_ok in Hs. rewrite forallb_forall in Hs. apply Hs. exact Hin.
Qed.

Lemma bind_bind_const : forall (A C D : Type) (e : outcome A) (x : C) (y : D),
  bind (bind e (fun _ => Ok x)) (fun _ => Ok y) = bind e (fun _ => Ok y).
Proof. intros A C D e x y. destruct e; reflexivity. Qed.

(* ---------- fetch_chunk only ever returns data ---------- *)

Section Leaves.
  Variable B : Type.
  Variable plain : list N -> B.

  (* a property of every value a program can return, whatever the primitives answer *)
  Fixpoint leaves {A} (Q : A -> Prop) (p : prog B A) : Prop :=
    match p with
    | Ret a => Q a
    | Do _ k => forall r, leaves Q (k r)
    end.

  Lemma leaves_run : forall A (Q : A -> Prop) (p : prog B A), leaves Q p ->
    forall t, Q (fst (StFS.run B (plain []) t p)).
  Proof.
    intros A Q p. induction p as [a | cl k IH]; intros H t; cbn [StFS.run]; [exact H|].
    destruct (exec_call B (plain []) t cl) as [r t']. apply IH, H.
  Qed.
End Leaves.

Definition data_or_error {B} (o : outcome (resval B)) : Prop :=
  match o with Ok (VData _) => True | Ok _ => False | Crash _ => False | _ => True end.

Lemma leaves_read_handle : forall B plain gunzip p z,
  leaves B (@data_or_error B) (read_handle B plain gunzip p z).
Proof.
  intros B plain gunzip p z. unfold read_handle. cbn [leaves].
  intros [b| |d|e]; cbn [leaves]; intros r; try exact I.
  destruct r; cbn [leaves]; try exact I;
    (destruct z; [unfold gunzip_out; destruct (gunzip d); exact I | exact I]).
Qed.

Lemma leaves_probe : forall B A (Q : A -> Prop) q f (fail : prog B A) k,
  leaves B Q fail -> (forall f', leaves B Q (k f')) -> leaves B Q (probe B q f fail k).
Proof.
  intros B A Q q f fail k Hf Hk. unfold probe. cbn [leaves].
  intros [[|]| |d|e]; cbn [leaves]; try exact Hf.
  - intros [x| |d|e]; try exact Hf; apply Hk.
  - intros [[|]| |d|e]; cbn [leaves]; try exact Hf; try apply Hk.
    intros [x| |d|e]; try exact Hf; apply Hk.
  - intros [[|]| |d'|e]; cbn [leaves]; try exact Hf; try apply Hk.
    intros [x| |d''|e]; try exact Hf; apply Hk.
  - intros [[|]| |d'|e]; cbn [leaves]; try exact Hf; try apply Hk.
    intros [x| |d''|e]; try exact Hf; apply Hk.
Qed.

(* for EVERY file system, configuration, key and position: fetch_chunk returns
   data or fails; so the TypeError branch of [fetched_bytes] is unreachable *)
Theorem fetch_chunk_data : forall B plain gz gunzip cf t k co,
  data_or_error (fst (run_op B plain gz gunzip cf t (OFetchChunk k co))).
Proof.
  intros B plain gz gunzip cf t k co. unfold run_op. apply leaves_run.
  cbn [op_prog]. unfold fa_fetch_chunk.
  destruct (chunk_path cf true k co) as [pf|]; [|exact I].
  apply leaves_probe; [exact I|]. intro f1.
  destruct (chunk_path cf false k co) as [pd|]; [|exact I].
  apply leaves_probe; [exact I|]. intros [[p z]|]; [apply leaves_read_handle | exact I].
Qed.

Theorem fetched_bytes_no_type_error : forall B plain gz gunzip raw cf t k co,
  bind (fst (run_op B plain gz gunzip cf t (OFetchChunk k co))) (fetched_bytes B raw)
  <> Crash TypeError.
Proof.
  intros B plain gz gunzip raw cf t k co.
  pose proof (fetch_chunk_data B plain gz gunzip cf t k co) as Hd.
  destruct (fst (run_op B plain gz gunzip cf t (OFetchChunk k co))) as [v| | | | | |cr];
    cbn [bind data_or_error] in *; try discriminate; try contradiction.
  destruct v; cbn [fetched_bytes]; try discriminate; contradiction.
Qed.

(* ---------- the simulation ---------- *)

Section Sim.
  Variable chunk : Type.
  Variable encode : list N -> chunk -> outcome (list N).
  Variable decode : list N -> list N -> triple -> outcome chunk.
  Variable B : Type.
  Variable plain : list N -> B.
  Variable gz : N -> list N -> B.
  Variable gunzip : B -> gzres.
  Variable raw : B -> list N.
  Variable mime_of : list N -> list N.
  Hypothesis Hgz : forall l b, gunzip (gz l b) = GzOk b.
  Hypothesis Hraw : forall b, raw (plain b) = b.

  Variable cf : cfg.
  Variable scales : list scale.
  Variable P : list pos.
  Hypothesis Hbase : cleanb (base cf) = true.
  Hypothesis Hsc : scales_ok scales = true.

  Let U := universe (flat cf) P.
  Let X := universe (negb (flat cf)) P.
  (* the accessor-level invariant, for some assignment of a form (plain / .gz)
     to the names (the MIME type is free per operation since the accessor
     removes the other form of a name when it stores it) *)
  Definition INV (t : fs B) (m : amap) : Prop := exists fm, Inv B plain gz cf U fm t m.
  Notation REL := (Rel (flat cf)).
  Notation fa_write := (fa_write_chunk chunk encode B plain gz gunzip mime_of cf scales).
  Notation fa_read := (fa_read_chunk chunk decode B plain gz gunzip raw cf scales).
  Notation fa_run' := (fa_run chunk encode decode B plain gz gunzip raw mime_of cf scales).
  Notation pio_write := (write_chunk chunk (list N) encode scales).
  Notation pio_read := (read_chunk chunk (list N) decode scales).
  Notation pio_run := (PioModel.run chunk (list N) encode decode scales).

  Lemma step_refines : forall t m o, INV t m -> op_ok cf U X o ->
    exists t', run_op B plain gz gunzip cf t o
               = (to_model B plain (fst (spec_op (flat cf) m o)), t')
            /\ INV t' (snd (spec_op (flat cf) m o)).
  Proof.
    intros t m o [fm HI] Hok.
    destruct (op_refines B plain gz gunzip Hgz cf U X Hbase
             (universe_HU (flat cf) P) (universe_HPF (flat cf) P) (universe_HX (flat cf) P)
             fm t m o HI Hok) as [t' [fm' [Hr HI']]].
    exists t'. split; [exact Hr | exists fm'; exact HI'].
  Qed.

  Lemma store_step : forall t m k c buf, INV t m -> key_ok k = true -> In (k, c) P ->
    exists t', run_op B plain gz gunzip cf t (OStoreChunk k (to_co c) buf (mime_of k) true)
               = (Ok VUnit, t')
            /\ INV t' (aset m (cname (flat cf) (k, c)) buf).
  Proof.
    intros t m k c buf HI Hk Hin.
    destruct (key_ok_facts k Hk) as [Hne [Habs [Hsk _]]].
    assert (Hname : spec_chunk_name (flat cf) k (to_co c) = Some (cname (flat cf) (k, c))).
    { unfold spec_chunk_name. rewrite Hsk. reflexivity. }
    assert (Hok : op_ok cf U X (OStoreChunk k (to_co c) buf (mime_of k) true)).
    { cbn [op_ok]. split; [exact Hne|]. split; [exact Habs|].
      intros p Hp. rewrite Hname in Hp. inversion Hp; subst p.
      apply in_universe. exists k, c. auto. }
    destruct (step_refines t m _ HI Hok) as [t' [Hr HI']].
    unfold spec_op in Hr, HI'. cbn [op_name] in Hr, HI'. rewrite Hname in Hr, HI'.
    unfold spec_store in Hr, HI'.
    exists t'. destruct (aget m (cname (flat cf) (k, c))); cbn [fst snd to_model] in Hr, HI';
      (split; [exact Hr | exact HI']).
  Qed.

  Lemma fetch_step : forall t m k c, INV t m -> key_ok k = true -> In (k, c) P ->
    exists t', run_op B plain gz gunzip cf t (OFetchChunk k (to_co c))
               = (match aget m (cname (flat cf) (k, c)) with
                  | Some b => Ok (VData (plain b))
                  | None => AccessErr
                  end, t')
            /\ INV t' m.
  Proof.
    intros t m k c HI Hk Hin.
    destruct (key_ok_facts k Hk) as [Hne [Habs [Hsk _]]].
    assert (Hname : spec_chunk_name (flat cf) k (to_co c) = Some (cname (flat cf) (k, c))).
    { unfold spec_chunk_name. rewrite Hsk. reflexivity. }
    assert (Hok : op_ok cf U X (OFetchChunk k (to_co c))).
    { cbn [op_ok]. split; [exact Hne|]. split; [exact Habs|].
      intros kp Hp. rewrite Hsk in Hp. inversion Hp; subst kp.
      split; apply in_universe; exists k, c; auto. }
    destruct (step_refines t m _ HI Hok) as [t' [Hr HI']].
    unfold spec_op in Hr, HI'. cbn [op_name] in Hr, HI'. rewrite Hname in Hr, HI'.
    cbn [fst snd] in Hr, HI'. unfold spec_fetch in Hr.
    exists t'. split; [|exact HI'].
    rewrite Hr. destruct (aget m (cname (flat cf) (k, c))); reflexivity.
  Qed.

  (* one write_chunk: same outcome as over the abstract store, and the states stay related *)
  Lemma write_step : forall t st m ch k c, INV t m -> REL st m -> In (k, c) P ->
    exists t' m',
      fa_write t ch k c = (bind (pio_write st ch k c) (fun _ => Ok tt), t') /\
      INV t' m' /\
      REL (match pio_write st ch k c with Ok st' => st' | _ => st end) m'.
  Proof.
    intros t st m ch k c HI HR Hin. unfold fa_write_chunk, write_chunk.
    destruct (check_valid scales k c) as [u| | | | | |cr] eqn:Ecv; cbn [bind];
      try (exists t, m; split; [reflexivity | split; assumption]).
    pose proof (check_valid_key scales k c u Hsc Ecv) as Hk.
    destruct (encode k ch) as [buf| | | | | |cr] eqn:Ee; cbn [bind];
      try (exists t, m; split; [reflexivity | split; assumption]).
    destruct (store_step t m k c buf HI Hk Hin) as [t' [Hr HI']].
    rewrite Hr. cbn [bind]. exists t', (aset m (cname (flat cf) (k, c)) buf).
    split; [reflexivity|]. split; [exact HI' | apply Rel_write; exact HR].
  Qed.

  (* one read_chunk: same outcome as over the abstract store *)
  Lemma read_step : forall t st m k c, INV t m -> REL st m -> In (k, c) P ->
    exists t', fa_read t k c = (pio_read st k c, t') /\ INV t' m.
  Proof.
    intros t st m k c HI HR Hin. unfold fa_read_chunk, read_chunk.
    destruct (check_valid scales k c) as [u| | | | | |cr] eqn:Ecv; cbn [bind];
      try (exists t; split; [reflexivity | assumption]).
    pose proof (check_valid_key scales k c u Hsc Ecv) as Hk.
    destruct (fetch_step t m k c HI Hk Hin) as [t' [Hr HI']].
    rewrite Hr, (HR k c). exists t'. split; [|exact HI'].
    destruct (aget m (cname (flat cf) (k, c))) as [b|]; cbn [bind fetched_bytes]; [|reflexivity].
    rewrite Hraw. reflexivity.
  Qed.

  Lemma pio_run_write : forall st ch k c r,
    pio_run st (Write chunk ch k c :: r)
    = let '(s2, out) := pio_run (match pio_write st ch k c with Ok st' => st' | _ => st end) r in
      (s2, bind (pio_write st ch k c) (fun _ => Ok None) :: out).
  Proof.
    intros st ch k c r. cbn [PioModel.run].
    destruct (pio_write st ch k c); reflexivity.
  Qed.

  Lemma sim_run : forall ops t st m, INV t m -> REL st m -> incl (positions ops) P ->
    snd (fa_run' t ops) = snd (pio_run st ops) /\
    exists m', INV (fst (fa_run' t ops)) m' /\ REL (fst (pio_run st ops)) m'.
  Proof.
    induction ops as [|o r IH]; intros t st m HI HR Hin.
    - cbn [fa_run PioModel.run fst snd]. split; [reflexivity|]. exists m. auto.
    - assert (Hr : incl (positions r) P) by (intros x Hx; apply Hin; right; exact Hx).
      destruct o as [ch k c | k c].
      + assert (Hkc : In (k, c) P) by (apply Hin; left; reflexivity).
        destruct (write_step t st m ch k c HI HR Hkc) as [t' [m' [Hw [HI' HR']]]].
        rewrite pio_run_write. cbn [fa_run]. rewrite Hw.
        destruct (IH t' _ m' HI' HR' Hr) as [Hout Hst].
        destruct (fa_run' t' r) as [t2 out]. destruct (pio_run _ r) as [s2 out'].
        cbn [fst snd] in *. split; [|exact Hst].
        rewrite bind_bind_const. f_equal. exact Hout.
      + assert (Hkc : In (k, c) P) by (apply Hin; left; reflexivity).
        destruct (read_step t st m k c HI HR Hkc) as [t' [Hrd HI']].
        cbn [fa_run PioModel.run]. rewrite Hrd.
        destruct (IH t' st m HI' HR Hr) as [Hout Hst].
        destruct (fa_run' t' r) as [t2 out]. destruct (pio_run st r) as [s2 out'].
        cbn [fst snd] in *. split; [|exact Hst]. f_equal. exact Hout.
  Qed.

  Lemma inv_start : forall t0, fresh B cf t0 -> INV t0 [].
  Proof. intros t0 Hf. exists (fun _ => false). apply inv_fresh; [apply universe_HU | exact Hf]. Qed.
End Sim.

(* ---------- the closed statements ---------- *)

Section Final.
  Variable chunk : Type.
  Variable encode : list N -> chunk -> outcome (list N).
  Variable decode : list N -> list N -> triple -> outcome chunk.
  Variable B : Type.
  Variable plain : list N -> B.
  Variable gz : N -> list N -> B.
  Variable gunzip : B -> gzres.
  Variable raw : B -> list N.
  Variable mime_of : list N -> list N.
  Hypothesis Hgz : forall l b, gunzip (gz l b) = GzOk b.
  Hypothesis Hraw : forall b, raw (plain b) = b.

  (* (b) the simulation: every outcome of every operation of the history is
     the one PioModel.run computes over the abstract store *)
  Theorem fa_simulation : forall cf scales ops t0,
    cleanb (base cf) = true -> scales_ok scales = true -> fresh B cf t0 ->
    snd (fa_run chunk encode decode B plain gz gunzip raw mime_of cf scales t0 ops)
    = snd (PioModel.run chunk (list N) encode decode scales [] ops).
  Proof.
    intros cf scales ops t0 Hb Hs Hf.
    destruct (sim_run chunk encode decode B plain gz gunzip raw mime_of Hgz Hraw cf scales
                (positions ops) Hb Hs ops t0 [] []) as [H _].
    - apply inv_start. exact Hf.
    - apply Rel_nil.
    - apply incl_refl.
    - exact H.
  Qed.

  (* ... and so is a read_chunk issued after the history, at any position *)
  Theorem fa_read_after_run : forall cf scales ops t0 k c,
    cleanb (base cf) = true -> scales_ok scales = true -> fresh B cf t0 ->
    fst (fa_read_chunk chunk decode B plain gz gunzip raw cf scales
           (fst (fa_run chunk encode decode B plain gz gunzip raw mime_of cf scales t0 ops)) k c)
    = read_chunk chunk (list N) decode scales
        (fst (PioModel.run chunk (list N) encode decode scales [] ops)) k c.
  Proof.
    intros cf scales ops t0 k c Hb Hs Hf.
    set (P := (k, c) :: positions ops).
    destruct (sim_run chunk encode decode B plain gz gunzip raw mime_of Hgz Hraw cf scales
                P Hb Hs ops t0 [] []) as [_ [m' [HI HR]]].
    - apply inv_start. exact Hf.
    - apply Rel_nil.
    - intros x Hx. right. exact Hx.
    - destruct (read_step chunk decode B plain gz gunzip raw Hgz Hraw cf scales P Hb Hs
                  _ _ m' k c HI HR (or_introl eq_refl)) as [t' [Hr _]].
      rewrite Hr. reflexivity.
  Qed.

  (* (c) end to end: C03_io_refinement with the file accessor model as the store *)
  Theorem fa_io_refinement :
    forall (shape_of : chunk -> triple),
    (forall k ch b, encode k ch = Ok b -> decode k b (shape_of ch) = Ok ch) ->
    forall cf scales ops t0 k c,
    cleanb (base cf) = true -> scales_ok scales = true -> fresh B cf t0 ->
    Forall (well_shaped chunk shape_of) ops ->
    check_valid scales k c = Ok tt ->
    fst (fa_read_chunk chunk decode B plain gz gunzip raw cf scales
           (fst (fa_run chunk encode decode B plain gz gunzip raw mime_of cf scales t0 ops)) k c)
    = match last_written chunk (list N) encode scales ops k c None with
      | Some ch => Ok ch
      | None => AccessErr
      end.
  Proof.
    intros shape_of Hrt cf scales ops t0 k c Hb Hs Hf Hws Hcv.
    rewrite (fa_read_after_run cf scales ops t0 k c Hb Hs Hf).
    exact (io_refinement chunk (list N) encode decode shape_of Hrt scales ops k c Hws Hcv).
  Qed.
End Final.

(* ---------- non-vacuity: a concrete history on the executable instance ---------- *)

(* chunks carrying their shape; the codec keeps the payload as is *)
Definition ex_chunk := (triple * list N)%type.
Definition ex_encode (_ : list N) (ch : ex_chunk) : outcome (list N) := Ok (snd ch).
Definition ex_decode (_ : list N) (b : list N) (sh : triple) : outcome ex_chunk := Ok (sh, b).

Definition ex_key : list N := [49; 48; 117; 109]%N.                         (* "10um" *)
Definition ex_scales : list scale :=
  [ {| sc_key := ex_key; sc_size := (100, 100, 100)%Z; sc_chunk_sizes := [(64, 64, 64)%Z];
       sc_voxel_offset := Some (0, 0, 0)%Z |} ].
Definition ex_c0 : PioModel.coords := (0, 64, 0, 64, 0, 64)%Z.
Definition ex_c1 : PioModel.coords := (64, 100, 0, 64, 0, 64)%Z.
(* two writes to the same position with another position in between, then reads;
   the last operation reads a valid position that was never written *)
Definition ex_ops : list (PioModel.op ex_chunk) :=
  [ Write ex_chunk ((64, 64, 64)%Z, [1; 2; 3]%N) ex_key ex_c0;
    Write ex_chunk ((36, 64, 64)%Z, [4; 5]%N) ex_key ex_c1;
    Write ex_chunk ((64, 64, 64)%Z, [7]%N) ex_key ex_c0;
    Read ex_chunk ex_key ex_c0;
    Read ex_chunk ex_key ex_c1;
    Read ex_chunk ex_key (0, 64, 64, 100, 0, 64)%Z ].

Lemma link_example : forall f g,
  (forall l b, blob_gunzip [] (BGz l b) = GzOk b) /\
  (forall b, blob_raw (BPlain b) = b) /\
  (forall k ch b, ex_encode k ch = Ok b -> ex_decode k b (fst ch) = Ok ch) /\
  cleanb (base (w_cfg f g)) = true /\ scales_ok ex_scales = true /\ plain_key ex_key = true /\
  fresh blob (w_cfg f g) [([[119%N]], Dir)] /\
  Forall (well_shaped ex_chunk fst) ex_ops /\
  check_valid ex_scales ex_key ex_c0 = Ok tt /\
  snd (fa_run ex_chunk ex_encode ex_decode blob BPlain BGz (blob_gunzip []) blob_raw octet_mime
         (w_cfg f g) ex_scales [([[119%N]], Dir)] ex_ops)
  = [Ok None; Ok None; Ok None;
     Ok (Some ((64, 64, 64)%Z, [7]%N)); Ok (Some ((36, 64, 64)%Z, [4; 5]%N)); AccessErr].
Proof.
  intros f g. split; [reflexivity|]. split; [reflexivity|]. split.
  { intros k [sh p] b E. inversion E. reflexivity. }
  split; [reflexivity|]. split; [reflexivity|]. split; [reflexivity|].
  split; [apply fresh_example|]. split.
  { repeat constructor. }
  split; [reflexivity|].
  destruct f, g; vm_compute; reflexivity.
Qed.
