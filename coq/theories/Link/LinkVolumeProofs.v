(* Closed instances of C01_convert_pointwise and C13_convert_pointwise: the
   abstract codecs are instantiated with the modelled raw (and
   compressed_segmentation) codecs through the glue of LinkVolume.v, the
   element-wise map with the data-type transformer [convert_scalar i o] of
   C11 on integer types, and every codec hypothesis is discharged:
     - "decode (encode chunk) = chunk"  by raw_roundtrip / encode_impl_roundtrip,
     - "the source decoder returns the requested shape" by the definition of
       raw_decode / cseg_decode_shape,
     - "encode always succeeds" (C01) is not assumed: the conversion loop only
       encodes the chunks it builds, whose length is right by construction of
       [extract] and whose values are in range because the transformer
       saturates (int_to_int_exact).
   Statements are re-exported in Properties/C01.v and Properties/C13.v. *)
From Coq Require Import NArith ZArith List Bool Lia ZifyBool ZifyNat ZifyN.
From NGS Require Import Val Ints PioModel PioProofs VolModel VolProofs ConvModel ConvProofs.
From NGS Require Import Words Arr4 CSegEncode CSegDecode RawCodec WordsProofs
     CSegDecodeProofs CSegImplProofs LinkCodec LinkProofs.
From NGS Require Import DType Convert ConvertProofs LinkVolume.
Import ListNotations.
Open Scope Z_scope.

(* ---------- data types ---------- *)
Lemma uint_bounds o : uint_dt o = true ->
  is_int o = true /\ imin o = 0 /\ Z.of_N (two8 ^ dt_isz o) = imax o + 1 /\ dt_isz o <> 0%N.
Proof.
  destruct o; try discriminate; intros _; (split; [reflexivity|]); (split; [reflexivity|]);
    (split; [vm_compute; reflexivity|discriminate]).
Qed.

Lemma uint_in_range_bound o r : uint_dt o = true ->
  (in_range o r <-> 0 <= r < Z.of_N (two8 ^ dt_isz o)).
Proof.
  intros Ho. destruct (uint_bounds o Ho) as (_ & Hmin & Hmax & _).
  unfold in_range. rewrite Hmin, Hmax. lia.
Qed.

(* ---------- elements ---------- *)
Lemma num_to_N_some bound v n : num_to_N bound v = Some n ->
  v = N_to_num n /\ (n < bound)%N.
Proof.
  unfold num_to_N, N_to_num. destruct v as [z|x]; [|discriminate].
  destruct ((0 <=? z) && (z <? Z.of_N bound)) eqn:E; [|discriminate].
  intros H. injection H as <-.
  apply andb_true_iff in E. destruct E as [E1 E2].
  apply Z.leb_le in E1. apply Z.ltb_lt in E2.
  split; [f_equal; lia|lia].
Qed.

Lemma num_to_N_ok bound z : 0 <= z < Z.of_N bound -> num_to_N bound (NI z) = Some (Z.to_N z).
Proof.
  intros Hz. unfold num_to_N.
  assert (((0 <=? z) && (z <? Z.of_N bound)) = true) as ->
    by (apply andb_true_iff; split; [apply Z.leb_le|apply Z.ltb_lt]; lia).
  reflexivity.
Qed.

Lemma nums_to_N_some bound : forall l d, nums_to_N bound l = Some d ->
  map N_to_num d = l /\ Forall (fun v => (v < bound)%N) d.
Proof.
  induction l as [|v r IH]; intros d H.
  - cbn [nums_to_N] in H. injection H as <-. split; [reflexivity|constructor].
  - cbn [nums_to_N] in H.
    destruct (num_to_N bound v) as [n|] eqn:En; [|discriminate].
    destruct (nums_to_N bound r) as [ns|] eqn:Er; [|discriminate].
    injection H as <-.
    destruct (num_to_N_some _ _ _ En) as [-> Hn].
    destruct (IH ns eq_refl) as [Hm Hf].
    split; [cbn [map]; rewrite Hm; reflexivity|constructor; assumption].
Qed.

Definition int_below (bound : N) (v : num) : Prop :=
  exists z, v = NI z /\ 0 <= z < Z.of_N bound.

Lemma nums_to_N_ok bound : forall l, Forall (int_below bound) l ->
  exists d, nums_to_N bound l = Some d /\ length d = length l.
Proof.
  induction l as [|v r IH]; intros HF.
  - exists []. split; reflexivity.
  - inversion HF as [|? ? Hv Hr]; subst.
    destruct Hv as (z & -> & Hz).
    destruct (IH Hr) as (d & Ed & Hl).
    exists (Z.to_N z :: d). cbn [nums_to_N]. rewrite (num_to_N_ok bound z Hz), Ed.
    split; [reflexivity|cbn [length]; rewrite Hl; reflexivity].
Qed.

(* ---------- chunks and arrays ---------- *)
Lemma arr_of_chunk_some bound nc ch a : arr_of_chunk bound nc ch = Some a ->
  wf_arr bound a /\ a_c a = nc /\ chunk_of_arr a = ch.
Proof.
  unfold arr_of_chunk. destruct ch as [[[x y] z] data]. cbn [fst snd].
  destruct ((0 <=? x) && (0 <=? y) && (0 <=? z)) eqn:Ee; [|discriminate].
  destruct (nums_to_N bound data) as [d|] eqn:Ed; [|discriminate].
  match goal with |- context [(lenN d =? ?s)%N] => destruct (lenN d =? s)%N eqn:El end; [|discriminate].
  intros H. injection H as <-.
  apply N.eqb_eq in El.
  destruct (nums_to_N_some _ _ _ Ed) as [Hm Hf].
  rewrite !andb_true_iff, !Z.leb_le in Ee. destruct Ee as [[Hx Hy] Hz].
  split; [split; [exact El|exact Hf]|]. split; [reflexivity|].
  unfold chunk_of_arr, arr_shape. cbn [a_x a_y a_z a_data].
  rewrite !Z2N.id by assumption. rewrite Hm. reflexivity.
Qed.

(* the chunks the encoder accepts *)
Lemma arr_of_chunk_ok bound nc x y z data :
  0 <= x -> 0 <= y -> 0 <= z ->
  Forall (int_below bound) data ->
  Z.of_nat (length data) = Z.of_N nc * (z * (y * x)) ->
  exists a, arr_of_chunk bound nc ((x, y, z), data) = Some a /\ a_c a = nc.
Proof.
  intros Hx Hy Hz HF Hlen.
  destruct (nums_to_N_ok bound data HF) as (d & Ed & Hl).
  unfold arr_of_chunk. cbn [fst snd].
  assert (((0 <=? x) && (0 <=? y) && (0 <=? z)) = true) as ->
    by (rewrite !andb_true_iff, !Z.leb_le; auto).
  rewrite Ed.
  match goal with |- context [(lenN d =? ?s)%N] => assert ((lenN d =? s)%N = true) as -> end.
  { apply N.eqb_eq. unfold size4, lenN. cbn [a_c a_z a_y a_x]. rewrite Hl.
    apply N2Z.inj. rewrite nat_N_Z, Hlen, !N2Z.inj_mul, !Z2N.id by assumption. ring. }
  eexists. split; reflexivity.
Qed.

(* ---------- the codecs on chunks ---------- *)
Lemma venc_vdec_roundtrip bound nc enc dec :
  (forall a b, wf_arr bound a -> enc a = Ok b -> dec (a_x a) (a_y a) (a_z a) b = Ok a) ->
  forall (k : list N) (ch : nchunk) (b : list N),
  venc bound nc enc k ch = Ok b -> vdec dec k b (fst ch) = Ok ch.
Proof.
  intros Hrt k ch b He. unfold venc in He.
  destruct (arr_of_chunk bound nc ch) as [a|] eqn:Ea; [|discriminate He].
  destruct (arr_of_chunk_some _ _ _ _ Ea) as (Hwf & _ & Hch).
  rewrite <- Hch. unfold chunk_of_arr at 1. cbn [fst]. unfold arr_shape, vdec.
  assert (((0 <=? Z.of_N (a_x a)) && (0 <=? Z.of_N (a_y a)) && (0 <=? Z.of_N (a_z a))) = true) as ->
    by (rewrite !andb_true_iff, !Z.leb_le; lia).
  rewrite !N2Z.id. rewrite (Hrt a b Hwf He). reflexivity.
Qed.

Lemma vdec_shape dec :
  (forall cx cy cz b a, dec cx cy cz b = Ok a -> a_x a = cx /\ a_y a = cy /\ a_z a = cz) ->
  forall (k : list N) (b : list N) (e : triple) (ch : nchunk), vdec dec k b e = Ok ch -> fst ch = e.
Proof.
  intros Hsh k b [[x y] z] ch. unfold vdec.
  destruct ((0 <=? x) && (0 <=? y) && (0 <=? z)) eqn:Ee; [|discriminate].
  rewrite !andb_true_iff, !Z.leb_le in Ee. destruct Ee as [[Hx Hy] Hz].
  destruct (dec (Z.to_N x) (Z.to_N y) (Z.to_N z) b) as [a| | | | | |cr] eqn:Ed; cbn [bind]; try discriminate.
  intros H. injection H as <-.
  destruct (Hsh _ _ _ _ _ Ed) as (Ex & Ey & Ez).
  unfold chunk_of_arr, arr_shape. cbn [fst]. rewrite Ex, Ey, Ez, !Z2N.id by assumption. reflexivity.
Qed.

(* what a successful decode returned *)
Lemma vdec_ok dec k b e ch : vdec dec k b e = Ok ch ->
  exists a, (let '(x, y, z) := e in dec (Z.to_N x) (Z.to_N y) (Z.to_N z) b = Ok a) /\ ch = chunk_of_arr a.
Proof.
  destruct e as [[x y] z]. unfold vdec.
  destruct ((0 <=? x) && (0 <=? y) && (0 <=? z)); [|discriminate].
  destruct (dec (Z.to_N x) (Z.to_N y) (Z.to_N z) b) as [a| | | | | |cr]; cbn [bind]; try discriminate.
  intros H. injection H as <-. exists a. split; reflexivity.
Qed.

(* ---- raw ---- *)
Lemma raw_decode_shape isz nc cx cy cz b a : raw_decode isz nc cx cy cz b = Ok a ->
  a_x a = cx /\ a_y a = cy /\ a_z a = cz.
Proof.
  unfold raw_decode.
  destruct (isz =? 0)%N; [discriminate|].
  destruct (negb (lenN b mod isz =? 0)%N); [discriminate|].
  destruct (negb (lenN b / isz =? nc * cz * cy * cx)%N); [discriminate|].
  intros H. injection H as <-. repeat split.
Qed.

Lemma vraw_roundtrip isz nc : isz <> 0%N ->
  forall (k : list N) (ch : nchunk) (b : list N),
  vraw_enc isz nc k ch = Ok b -> vraw_dec isz nc k b (fst ch) = Ok ch.
Proof.
  intros Hisz. unfold vraw_enc, vraw_dec. apply venc_vdec_roundtrip.
  intros a b Hwf He. apply raw_roundtrip; assumption.
Qed.

Lemma vraw_dec_shape isz nc :
  forall (k : list N) (b : list N) (e : triple) (ch : nchunk), vraw_dec isz nc k b e = Ok ch -> fst ch = e.
Proof. unfold vraw_dec. apply vdec_shape. intros cx cy cz b a. apply raw_decode_shape. Qed.

(* ---- compressed_segmentation ---- *)
Lemma vcseg_roundtrip dt nc g :
  forall (k : list N) (ch : nchunk) (b : list N),
  vcseg_enc dt nc g k ch = Ok b -> vcseg_dec dt nc g k b (fst ch) = Ok ch.
Proof.
  unfold vcseg_enc, vcseg_dec. apply venc_vdec_roundtrip.
  intros a b Hwf He. apply encode_impl_roundtrip; assumption.
Qed.

Lemma vcseg_dec_shape dt nc g :
  forall (k : list N) (b : list N) (e : triple) (ch : nchunk), vcseg_dec dt nc g k b e = Ok ch -> fst ch = e.
Proof.
  unfold vcseg_dec. apply vdec_shape. intros cx cy cz b a Hd.
  destruct (cseg_decode_shape _ _ _ _ _ _ _ _ Hd) as ((_ & Hz & Hy & Hx) & _). auto.
Qed.

(* ====================================================================== *)
(* C01: volume_to_precomputed through the raw codec, integer data types    *)
(* ====================================================================== *)

(* ---------- the chunks built by the loop ---------- *)
Lemma axis_chunk_bounds s c a b : 0 < s -> 0 < c ->
  In (a, b) (axis_chunks_z s c) -> 0 <= a < b /\ b <= s.
Proof.
  intros Hs Hc Hin. apply in_axis_chunks_z in Hin; [|assumption..].
  destruct Hin as (i & Hi & -> & Hlt & ->). nia.
Qed.

Lemma extract_length V f vol nch x0 x1 y0 y1 z0 z1 :
  x0 <= x1 -> y0 <= y1 -> z0 <= z1 -> 0 <= nch ->
  Z.of_nat (length (extract V f vol nch (x0, x1, y0, y1, z0, z1)))
  = nch * ((z1 - z0) * ((y1 - y0) * (x1 - x0))).
Proof.
  intros Hx Hy Hz Hn. unfold extract.
  rewrite (length_flat_map_uniform _ _
            (length (zrange z0 z1) * (length (zrange y0 y1) * length (zrange x0 x1)))%nat).
  - rewrite !zrange_length, !Nat2Z.inj_mul, !Z2Nat.id by lia. ring.
  - intros ch _. apply length_flat_map_uniform.
    intros z _. apply length_flat_map_uniform.
    intros y _. apply map_length.
Qed.

Lemma extract_In V f vol nch x0 x1 y0 y1 z0 z1 v :
  In v (extract V f vol nch (x0, x1, y0, y1, z0, z1)) ->
  exists x y z ch, x0 <= x < x1 /\ y0 <= y < y1 /\ z0 <= z < z1 /\ 0 <= ch < nch /\
                   v = f (vol x y z ch).
Proof.
  unfold extract. intros H.
  apply in_flat_map in H. destruct H as (ch & Hch & H).
  apply in_flat_map in H. destruct H as (z & Hz & H).
  apply in_flat_map in H. destruct H as (y & Hy & H).
  apply in_map_iff in H. destruct H as (x & Hv & Hx).
  apply in_zrange in Hch, Hz, Hy, Hx.
  exists x, y, z, ch. repeat split; try lia. symmetry. exact Hv.
Qed.

(* ---------- the conversion loop, encoder success required only on the
   chunks the loop builds ---------- *)
Section ConvertRel.
  Variable V : Type.
  Variable f : V -> V.
  Variable vol : Z -> Z -> Z -> Z -> V.
  Variable nch : Z.
  Variable bytes : Type.
  Variable encode : list N -> vchunk V -> outcome bytes.
  Variable decode : list N -> bytes -> triple -> outcome (vchunk V).
  Hypothesis roundtrip : forall k ch b, encode k ch = Ok b -> decode k b (vshape V ch) = Ok ch.

  Lemma last_written_writes_rel scales key c : forall l acc,
    (forall c', In c' l -> check_valid scales key c' = Ok tt) ->
    (forall c', In c' l -> exists b, encode key (mk_chunk V f vol nch c') = Ok b) ->
    acc = Some (mk_chunk V f vol nch c) \/ In c l ->
    last_written (vchunk V) bytes encode scales
      (map (fun c' => Write (vchunk V) (mk_chunk V f vol nch c') key c') l) key c acc
    = Some (mk_chunk V f vol nch c).
  Proof.
    induction l as [|c' l IH]; intros acc Hval Henc H.
    - destruct H as [H|[]]. exact H.
    - cbn [map last_written].
      unfold write_chunk at 1.
      rewrite (Hval c') by (left; reflexivity). cbn [bind].
      destruct (Henc c' (or_introl eq_refl)) as [b Eb]. rewrite Eb. cbn [bind].
      rewrite key_eqb_refl. cbn [andb].
      assert (forall c'', In c'' l -> check_valid scales key c'' = Ok tt) as Hval'
        by (intros c'' Hc''; apply Hval; right; exact Hc'').
      assert (forall c'', In c'' l -> exists b, encode key (mk_chunk V f vol nch c'') = Ok b) as Henc'
        by (intros c'' Hc''; apply Henc; right; exact Hc'').
      destruct (coords_eqb c c') eqn:E.
      + apply coords_eqb_eq in E. subst c'. apply IH; [exact Hval'|exact Henc'|]. left; reflexivity.
      + apply IH; [exact Hval'|exact Henc'|].
        destruct H as [H|[H|H]].
        * left; exact H.
        * subst c'. rewrite coords_eqb_refl in E. discriminate.
        * right; exact H.
  Qed.

  Lemma convert_pointwise_rel :
    forall key sx sy sz cx cy cz,
    0 < nch -> pos_triple (sx, sy, sz) -> pos_triple (cx, cy, cz) ->
    (forall c, In c (vgrid (sx, sy, sz) (cx, cy, cz)) ->
               exists b, encode key (mk_chunk V f vol nch c) = Ok b) ->
    let s := {| sc_key := key; sc_size := (sx, sy, sz); sc_chunk_sizes := [(cx, cy, cz)];
                sc_voxel_offset := Some (0, 0, 0) |} in
    let st := fst (run (vchunk V) bytes encode decode [s] []
                       (convert_ops V f vol nch key (sx, sy, sz) (cx, cy, cz))) in
    forall x y z ch,
    0 <= x < sx -> 0 <= y < sy -> 0 <= z < sz -> 0 <= ch < nch ->
    let c := chunk_of (sx, sy, sz) (cx, cy, cz) x y z in
    exists data,
      read_chunk (vchunk V) bytes decode [s] st key c = Ok (extents c, data) /\
      voxel_in V c data x y z ch = Some (f (vol x y z ch)).
  Proof.
    intros key sx sy sz cx cy cz Hn Hs Hc Henc s st x y z ch Hx Hy Hz Hch c.
    exists (extract V f vol nch c). split.
    - assert (forall c', In c' (vgrid (sx, sy, sz) (cx, cy, cz)) ->
                check_valid [s] key c' = Ok tt) as Hval.
      { intros c' Hc'. apply check_valid_single. apply vgrid_valid; assumption. }
      assert (In c (vgrid (sx, sy, sz) (cx, cy, cz))) as Hin
        by (apply chunk_of_in_vgrid; assumption).
      unfold st, convert_ops.
      rewrite (io_refinement (vchunk V) bytes encode decode (vshape V) roundtrip [s] _ key c
                 (convert_well_shaped V f vol nch key _) (Hval c Hin)).
      rewrite (last_written_writes_rel [s] key c _ None Hval Henc (or_intror Hin)).
      reflexivity.
    - destruct Hc as (Hcx & Hcy & Hcz).
      unfold c, chunk_of.
      apply extract_voxel; try assumption; apply axis_chunk_of_contains; assumption.
  Qed.
End ConvertRel.

(* C01_convert_pointwise with "encode always succeeds" weakened to "encode
   succeeds on the chunks the loop builds" *)
Lemma convert_pointwise_enc_on_grid :
  forall (V : Type) (f : V -> V) (vol : Z -> Z -> Z -> Z -> V) (nch : Z) (bytes : Type)
         (encode : list N -> vchunk V -> outcome bytes)
         (decode : list N -> bytes -> triple -> outcome (vchunk V)),
  (forall k ch b, encode k ch = Ok b -> decode k b (vshape V ch) = Ok ch) ->
  forall key size cs,
  (forall c, In c (vgrid size cs) -> exists b, encode key (mk_chunk V f vol nch c) = Ok b) ->
  0 < nch -> pos_triple size -> pos_triple cs ->
  let s := {| sc_key := key; sc_size := size; sc_chunk_sizes := [cs];
              sc_voxel_offset := Some (0, 0, 0) |} in
  let st := fst (run (vchunk V) bytes encode decode [s] []
                     (convert_ops V f vol nch key size cs)) in
  forall x y z ch,
  let '(sx, sy, sz) := size in
  0 <= x < sx -> 0 <= y < sy -> 0 <= z < sz -> 0 <= ch < nch ->
  let c := chunk_of size cs x y z in
  exists data,
    read_chunk (vchunk V) bytes decode [s] st key c = Ok (extents c, data) /\
    voxel_in V c data x y z ch = Some (f (vol x y z ch)).
Proof.
  intros V f vol nch bytes encode decode Hrt key size cs.
  destruct size as [[sx sy] sz], cs as [[cx cy] cz].
  intros Henc Hn Hs Hc s st x y z ch Hx Hy Hz Hch c.
  exact (convert_pointwise_rel V f vol nch bytes encode decode Hrt key
           sx sy sz cx cy cz Hn Hs Hc Henc x y z ch Hx Hy Hz Hch).
Qed.

(* ---------- the raw encoder accepts every chunk the loop builds ---------- *)
Lemma vraw_enc_grid_ok (i o : DType.dtype) (vol : Z -> Z -> Z -> Z -> Z) nch key sx sy sz cx cy cz :
  is_int i = true -> uint_dt o = true ->
  0 < nch -> pos_triple (sx, sy, sz) -> pos_triple (cx, cy, cz) ->
  (forall x y z ch, 0 <= x < sx -> 0 <= y < sy -> 0 <= z < sz -> 0 <= ch < nch ->
                    in_range i (vol x y z ch)) ->
  forall c, In c (vgrid (sx, sy, sz) (cx, cy, cz)) ->
  exists b, vraw_enc (dt_isz o) (Z.to_N nch) key
              (mk_chunk num (convert_scalar i o) (zvol vol) nch c) = Ok b.
Proof.
  intros Hi Ho Hn (Hsx & Hsy & Hsz) (Hcx & Hcy & Hcz) Hvol c Hin.
  apply in_vgrid in Hin. destruct c as [[[[[x0 x1] y0] y1] z0] z1].
  destruct Hin as (Hx & Hy & Hz).
  apply axis_chunk_bounds in Hx, Hy, Hz; try assumption.
  destruct (uint_bounds o Ho) as (Hio & _).
  unfold mk_chunk, extents.
  destruct (arr_of_chunk_ok (two8 ^ dt_isz o) (Z.to_N nch) (x1 - x0) (y1 - y0) (z1 - z0)
              (extract num (convert_scalar i o) (zvol vol) nch (x0, x1, y0, y1, z0, z1)))
    as (a & Ea & Hc); try lia.
  - apply Forall_forall. intros v Hv.
    apply extract_In in Hv. destruct Hv as (x & y & z & ch & Bx & By & Bz & Bch & ->).
    unfold zvol. rewrite int_to_int_exact by (try assumption; apply Hvol; lia).
    eexists. split; [reflexivity|].
    apply (uint_in_range_bound o _ Ho). apply clamp_in_range. exact Hio.
  - rewrite extract_length by lia. rewrite Z2N.id by lia. reflexivity.
  - unfold vraw_enc, venc.
    match goal with |- context [arr_of_chunk ?b ?n ?c] =>
      replace (arr_of_chunk b n c) with (Some a) by (symmetry; exact Ea) end.
    unfold raw_encode. rewrite Hc, N.eqb_refl. cbn [negb].
    eexists. reflexivity.
Qed.

(* C01, closed: unsigned output type o, any integer input type i, the raw
   encoding of o, the transformer of C11.  Every voxel reads back as the
   saturation of the input value into the output type. *)
Lemma convert_pointwise_raw_int :
  forall (i o : DType.dtype) (vol : Z -> Z -> Z -> Z -> Z) (nch : Z) (key : list N) (size cs : triple),
  is_int i = true -> uint_dt o = true ->
  0 < nch -> pos_triple size -> pos_triple cs ->
  (forall x y z ch, let '(sx, sy, sz) := size in
     0 <= x < sx -> 0 <= y < sy -> 0 <= z < sz -> 0 <= ch < nch -> in_range i (vol x y z ch)) ->
  let enc := vraw_enc (dt_isz o) (Z.to_N nch) in
  let dec := vraw_dec (dt_isz o) (Z.to_N nch) in
  let s := {| sc_key := key; sc_size := size; sc_chunk_sizes := [cs];
              sc_voxel_offset := Some (0, 0, 0) |} in
  let st := fst (run (vchunk num) (list N) enc dec [s] []
                     (convert_ops num (convert_scalar i o) (zvol vol) nch key size cs)) in
  forall x y z ch,
  let '(sx, sy, sz) := size in
  0 <= x < sx -> 0 <= y < sy -> 0 <= z < sz -> 0 <= ch < nch ->
  let c := chunk_of size cs x y z in
  exists data,
    read_chunk (vchunk num) (list N) dec [s] st key c = Ok (extents c, data) /\
    voxel_in num c data x y z ch = Some (NI (clamp o (vol x y z ch))).
Proof.
  intros i o vol nch key size cs Hi Ho Hn.
  destruct size as [[sx sy] sz], cs as [[cx cy] cz].
  intros Hs Hc Hvol enc dec s st x y z ch Hx Hy Hz Hch c.
  destruct (uint_bounds o Ho) as (Hio & _ & _ & Hisz).
  assert (forall x y z ch, 0 <= x < sx -> 0 <= y < sy -> 0 <= z < sz -> 0 <= ch < nch ->
                           in_range i (vol x y z ch)) as Hvol'
    by (intros x' y' z' ch'; exact (Hvol x' y' z' ch')).
  destruct (convert_pointwise_rel num (convert_scalar i o) (zvol vol) nch (list N) enc dec
              (vraw_roundtrip (dt_isz o) (Z.to_N nch) Hisz)
              key sx sy sz cx cy cz Hn Hs Hc
              (vraw_enc_grid_ok i o vol nch key sx sy sz cx cy cz Hi Ho Hn Hs Hc Hvol')
              x y z ch Hx Hy Hz Hch) as (data & Hr & Hv).
  exists data. split; [exact Hr|].
  etransitivity; [exact Hv|]. f_equal. unfold zvol.
  apply int_to_int_exact; try assumption. apply Hvol'; assumption.
Qed.

(* ====================================================================== *)
(* C13: convert-chunks from a raw source, integer data types               *)
(* ====================================================================== *)

(* ---------- items of a byte string are below 256^itemsize ---------- *)
Lemma bytes_ok_firstn n (l : list N) : bytes_ok l -> bytes_ok (firstn n l).
Proof.
  unfold bytes_ok. intros H. revert n. induction H as [|b l Hb Hl IH]; intros [|n]; cbn [firstn];
    constructor; auto.
Qed.

Lemma bytes_ok_skipn n (l : list N) : bytes_ok l -> bytes_ok (skipn n l).
Proof.
  unfold bytes_ok. intros H. revert n. induction H as [|b l Hb Hl IH]; intros [|n]; cbn [skipn];
    try constructor; auto.
Qed.

Lemma items_of_bound n : forall cnt (l : list N), bytes_ok l ->
  Forall (fun v => (v < two8 ^ N.of_nat n)%N) (items_of n cnt l).
Proof.
  induction cnt as [|cnt IH]; intros l Hl; cbn [items_of]; constructor.
  - pose proof (le_val_bound (firstn n l) (bytes_ok_firstn n l Hl)) as Hb.
    eapply N.lt_le_trans; [exact Hb|].
    apply N.pow_le_mono_r; [discriminate|].
    pose proof (firstn_le_length n l). lia.
  - apply IH. apply bytes_ok_skipn. exact Hl.
Qed.

Lemma raw_decode_bound isz nc cx cy cz b a : bytes_ok b ->
  raw_decode isz nc cx cy cz b = Ok a -> Forall (fun v => (v < two8 ^ isz)%N) (a_data a).
Proof.
  intros Hb. unfold raw_decode.
  destruct (isz =? 0)%N; [discriminate|].
  destruct (negb (lenN b mod isz =? 0)%N); [discriminate|].
  destruct (negb (lenN b / isz =? nc * cz * cy * cx)%N); [discriminate|].
  intros H. injection H as <-. cbn [a_data].
  pose proof (items_of_bound (N.to_nat isz) (N.to_nat (lenN b / isz)) b Hb) as HF.
  rewrite N2Nat.id in HF. exact HF.
Qed.

(* ---------- what a successful read of a raw source chunk returns ---------- *)
Lemma read_raw_src (i : DType.dtype) nc sscales (src : store (list N)) k c (ch : cchunk num) :
  uint_dt i = true ->
  (forall k c b, lookup (list N) src k c = Some b -> bytes_ok b) ->
  read_chunk (cchunk num) (list N) (vraw_dec (dt_isz i) nc) sscales src k c = Ok ch ->
  exists zs, ch = (extents c, map NI zs) /\ Forall (in_range i) zs /\
    (let '(ex, ey, ez) := extents c in Z.of_nat (length zs) = Z.of_N nc * (ez * ey * ex)).
Proof.
  intros Hi Hsrc Hr. unfold read_chunk in Hr.
  destruct (check_valid sscales k c) as [u| | | | | |cr]; cbn [bind] in Hr; try discriminate.
  destruct (lookup (list N) src k c) as [b|] eqn:El; [|discriminate].
  pose proof (vraw_dec_shape _ _ _ _ _ _ Hr) as Hsh.
  destruct (uint_bounds i Hi) as (_ & _ & _ & Hisz).
  unfold vraw_dec in Hr. apply vdec_ok in Hr. destruct Hr as (a & Hd & ->).
  unfold chunk_of_arr in Hsh. cbn [fst] in Hsh.
  destruct (extents c) as [[ex ey] ez].
  exists (map Z.of_N (a_data a)). split; [|split].
  - unfold chunk_of_arr. rewrite Hsh, map_map. reflexivity.
  - pose proof (raw_decode_bound _ _ _ _ _ _ _ (Hsrc _ _ _ El) Hd) as HF.
    apply Forall_forall. intros z Hz. apply in_map_iff in Hz. destruct Hz as (n & <- & Hn).
    rewrite Forall_forall in HF. specialize (HF n Hn).
    apply (uint_in_range_bound i _ Hi). lia.
  - rewrite map_length.
    destruct (raw_decode_total (dt_isz i) nc (Z.to_N ex) (Z.to_N ey) (Z.to_N ez) b Hisz)
      as [(a' & E & (_ & Hz & Hy & Hx) & Hlen & _)|(E & _)]; rewrite E in Hd; [|discriminate].
    injection Hd as ->.
    unfold arr_shape in Hsh. injection Hsh as <- <- <-.
    rewrite !N2Z.id in Hlen. unfold lenN in Hlen.
    rewrite <- nat_N_Z, Hlen, !N2Z.inj_mul. ring.
Qed.

(* ---------- C13 for a raw source and any round-tripping destination codec ---------- *)
Lemma convert_pointwise_from_raw :
  forall (i o : DType.dtype) (nc : N)
         (denc : list N -> cchunk num -> outcome (list N))
         (ddec : list N -> list N -> triple -> outcome (cchunk num)),
  (forall k ch b, denc k ch = Ok b -> ddec k b (fst ch) = Ok ch) ->
  forall (sscales dscales : list scale) (src dst : store (list N)) (tr : list event),
  uint_dt i = true -> is_int o = true ->
  (forall k c b, lookup (list N) src k c = Some b -> bytes_ok b) ->
  let sdec := vraw_dec (dt_isz i) nc in
  convert_chunks num (convert_scalar i o) (list N) (list N) sdec denc sscales dscales src []
    = Ok (dst, tr) ->
  forall s cs c,
  In s dscales -> In cs (sc_chunk_sizes s) -> In c (cgrid (sc_size s) cs) ->
  exists zs,
    read_chunk (cchunk num) (list N) sdec sscales src (sc_key s) c = Ok (extents c, map NI zs) /\
    Forall (in_range i) zs /\
    (let '(ex, ey, ez) := extents c in Z.of_nat (length zs) = Z.of_N nc * (ez * ey * ex)) /\
    read_chunk (cchunk num) (list N) ddec dscales dst (sc_key s) c
      = Ok (extents c, map (fun z => NI (clamp o z)) zs).
Proof.
  intros i o nc denc ddec Hrt sscales dscales src dst tr Hi Ho Hsrc sdec Hconv s cs c Hs Hcs Hc.
  destruct (uint_bounds i Hi) as (Hii & _).
  destruct (convert_pointwise_sec num (convert_scalar i o) (list N) (list N) sdec denc
              sscales dscales src ddec Hrt (vraw_dec_shape (dt_isz i) nc)
              dst tr Hconv s cs c Hs Hcs Hc) as (ch & Hrs & Hrd).
  destruct (read_raw_src i nc sscales src (sc_key s) c ch Hi Hsrc Hrs) as (zs & -> & HF & Hlen).
  exists zs. split; [exact Hrs|]. split; [exact HF|]. split; [exact Hlen|].
  rewrite Hrd. unfold tmap. cbn [fst snd]. rewrite map_map. do 2 f_equal.
  apply map_ext_in. intros z Hz. rewrite Forall_forall in HF.
  apply int_to_int_exact; try assumption. apply HF. exact Hz.
Qed.

(* closed: raw source of type i, raw destination of type o *)
Lemma convert_pointwise_raw_to_raw :
  forall (i o : DType.dtype) (nc : N)
         (sscales dscales : list scale) (src dst : store (list N)) (tr : list event),
  uint_dt i = true -> uint_dt o = true ->
  (forall k c b, lookup (list N) src k c = Some b -> bytes_ok b) ->
  let sdec := vraw_dec (dt_isz i) nc in
  let denc := vraw_enc (dt_isz o) nc in
  let ddec := vraw_dec (dt_isz o) nc in
  convert_chunks num (convert_scalar i o) (list N) (list N) sdec denc sscales dscales src []
    = Ok (dst, tr) ->
  forall s cs c,
  In s dscales -> In cs (sc_chunk_sizes s) -> In c (cgrid (sc_size s) cs) ->
  exists zs,
    read_chunk (cchunk num) (list N) sdec sscales src (sc_key s) c = Ok (extents c, map NI zs) /\
    Forall (in_range i) zs /\
    (let '(ex, ey, ez) := extents c in Z.of_nat (length zs) = Z.of_N nc * (ez * ey * ex)) /\
    read_chunk (cchunk num) (list N) ddec dscales dst (sc_key s) c
      = Ok (extents c, map (fun z => NI (clamp o z)) zs).
Proof.
  intros i o nc sscales dscales src dst tr Hi Ho Hsrc sdec denc ddec.
  destruct (uint_bounds o Ho) as (Hio & _ & _ & Hisz).
  exact (convert_pointwise_from_raw i o nc denc ddec (vraw_roundtrip (dt_isz o) nc Hisz)
           sscales dscales src dst tr Hi Hio Hsrc).
Qed.

(* closed: raw source of type i, compressed_segmentation destination of label
   type dt (uint32 / uint64), any block size *)
Lemma convert_pointwise_raw_to_cseg :
  forall (i : DType.dtype) (dt : Words.dtype) (nc : N) (g : geom)
         (sscales dscales : list scale) (src dst : store (list N)) (tr : list event),
  uint_dt i = true ->
  (forall k c b, lookup (list N) src k c = Some b -> bytes_ok b) ->
  let o := label_dt dt in
  let sdec := vraw_dec (dt_isz i) nc in
  let denc := vcseg_enc dt nc g in
  let ddec := vcseg_dec dt nc g in
  convert_chunks num (convert_scalar i o) (list N) (list N) sdec denc sscales dscales src []
    = Ok (dst, tr) ->
  forall s cs c,
  In s dscales -> In cs (sc_chunk_sizes s) -> In c (cgrid (sc_size s) cs) ->
  exists zs,
    read_chunk (cchunk num) (list N) sdec sscales src (sc_key s) c = Ok (extents c, map NI zs) /\
    Forall (in_range i) zs /\
    (let '(ex, ey, ez) := extents c in Z.of_nat (length zs) = Z.of_N nc * (ez * ey * ex)) /\
    read_chunk (cchunk num) (list N) ddec dscales dst (sc_key s) c
      = Ok (extents c, map (fun z => NI (clamp o z)) zs).
Proof.
  intros i dt nc g sscales dscales src dst tr Hi Hsrc o sdec denc ddec.
  assert (is_int o = true) as Hio by (destruct dt; reflexivity).
  exact (convert_pointwise_from_raw i o nc denc ddec (vcseg_roundtrip dt nc g)
           sscales dscales src dst tr Hi Hio Hsrc).
Qed.

(* ====================================================================== *)
(* C01: the bytes that the conversion leaves in the store                  *)
(* ====================================================================== *)

Lemma flat_map_map_ext_in {A B C} (g : A -> list B) (g' : A -> list C) (p : C -> B) : forall l,
  (forall a, In a l -> g a = map p (g' a)) -> flat_map g l = map p (flat_map g' l).
Proof.
  induction l as [|a l IH]; intros H; [reflexivity|].
  cbn [flat_map]. rewrite map_app, (H a) by (left; reflexivity). f_equal.
  apply IH. intros a' Ha'. apply H. right; exact Ha'.
Qed.

(* the extracted chunk depends only on the voxels inside the chunk *)
Lemma extract_ext_map {V W} (f : V -> V) (vol : Z -> Z -> Z -> Z -> V)
      (f' : W -> W) (vol' : Z -> Z -> Z -> Z -> W) (p : W -> V) nch x0 x1 y0 y1 z0 z1 :
  (forall x y z ch, x0 <= x < x1 -> y0 <= y < y1 -> z0 <= z < z1 -> 0 <= ch < nch ->
                    f (vol x y z ch) = p (f' (vol' x y z ch))) ->
  extract V f vol nch (x0, x1, y0, y1, z0, z1)
  = map p (extract W f' vol' nch (x0, x1, y0, y1, z0, z1)).
Proof.
  intros H. unfold extract.
  apply flat_map_map_ext_in. intros ch Hch. apply in_zrange in Hch.
  apply flat_map_map_ext_in. intros z Hz. apply in_zrange in Hz.
  apply flat_map_map_ext_in. intros y Hy. apply in_zrange in Hy.
  rewrite map_map. apply map_ext_in. intros x Hx. apply in_zrange in Hx.
  apply H; assumption.
Qed.

Lemma map_N_to_num_inv : forall (d : list N) (zs : list Z),
  map N_to_num d = map NI zs -> d = map Z.to_N zs.
Proof.
  induction d as [|n d IH]; intros [|z zs] H; try discriminate; [reflexivity|].
  cbn [map] in *. unfold N_to_num at 1 in H. injection H as Hz Hr.
  rewrite <- Hz, N2Z.id. f_equal. apply IH. exact Hr.
Qed.

Section ConvertStored.
  Variable V : Type.
  Variable f : V -> V.
  Variable vol : Z -> Z -> Z -> Z -> V.
  Variable nch : Z.
  Variable bytes : Type.
  Variable encode : list N -> vchunk V -> outcome bytes.
  Variable decode : list N -> bytes -> triple -> outcome (vchunk V).

  (* after the loop the store holds, at every grid position, the encoding of
     the chunk built for that position *)
  Lemma convert_stored_rel :
    forall key sx sy sz cx cy cz,
    pos_triple (sx, sy, sz) -> pos_triple (cx, cy, cz) ->
    (forall c, In c (vgrid (sx, sy, sz) (cx, cy, cz)) ->
               exists b, encode key (mk_chunk V f vol nch c) = Ok b) ->
    let s := {| sc_key := key; sc_size := (sx, sy, sz); sc_chunk_sizes := [(cx, cy, cz)];
                sc_voxel_offset := Some (0, 0, 0) |} in
    let st := fst (run (vchunk V) bytes encode decode [s] []
                       (convert_ops V f vol nch key (sx, sy, sz) (cx, cy, cz))) in
    forall c, In c (vgrid (sx, sy, sz) (cx, cy, cz)) ->
    exists b, lookup bytes st key c = Some b /\ encode key (mk_chunk V f vol nch c) = Ok b.
  Proof.
    intros key sx sy sz cx cy cz Hs Hc Henc s st c Hin.
    assert (forall c', In c' (vgrid (sx, sy, sz) (cx, cy, cz)) ->
              check_valid [s] key c' = Ok tt) as Hval.
    { intros c' Hc'. apply check_valid_single. apply vgrid_valid; assumption. }
    pose proof (run_refines (vchunk V) bytes encode decode (vshape V) [s]
                  (convert_ops V f vol nch key (sx, sy, sz) (cx, cy, cz)) [] key c None
                  (convert_well_shaped V f vol nch key _) eq_refl) as H.
    unfold convert_ops in H at 2.
    rewrite (last_written_writes_rel V f vol nch bytes encode [s] key c _ None Hval Henc
               (or_intror Hin)) in H.
    cbn [agrees] in H. destruct H as (b & Hl & He & _).
    exists b. split; assumption.
  Qed.
End ConvertStored.

(* closed: the stored object of every grid chunk is the little-endian raw
   encoding, item size of o, of the saturated input values in (C,Z,Y,X) order *)
Lemma convert_stored_raw_int :
  forall (i o : DType.dtype) (vol : Z -> Z -> Z -> Z -> Z) (nch : Z) (key : list N) (size cs : triple),
  is_int i = true -> uint_dt o = true ->
  0 < nch -> pos_triple size -> pos_triple cs ->
  (forall x y z ch, let '(sx, sy, sz) := size in
     0 <= x < sx -> 0 <= y < sy -> 0 <= z < sz -> 0 <= ch < nch -> in_range i (vol x y z ch)) ->
  let enc := vraw_enc (dt_isz o) (Z.to_N nch) in
  let dec := vraw_dec (dt_isz o) (Z.to_N nch) in
  let s := {| sc_key := key; sc_size := size; sc_chunk_sizes := [cs];
              sc_voxel_offset := Some (0, 0, 0) |} in
  let st := fst (run (vchunk num) (list N) enc dec [s] []
                     (convert_ops num (convert_scalar i o) (zvol vol) nch key size cs)) in
  forall c, In c (vgrid size cs) ->
  lookup (list N) st key c
  = Some (flat_map (le_bytes (N.to_nat (dt_isz o)))
                   (map Z.to_N (extract Z (clamp o) vol nch c))).
Proof.
  intros i o vol nch key size cs Hi Ho Hn.
  destruct size as [[sx sy] sz], cs as [[cx cy] cz].
  intros Hs Hc Hvol enc dec s st c Hin.
  assert (forall x y z ch, 0 <= x < sx -> 0 <= y < sy -> 0 <= z < sz -> 0 <= ch < nch ->
                           in_range i (vol x y z ch)) as Hvol'
    by (intros x' y' z' ch'; exact (Hvol x' y' z' ch')).
  destruct (uint_bounds o Ho) as (Hio & _).
  destruct (convert_stored_rel num (convert_scalar i o) (zvol vol) nch (list N) enc dec
              key sx sy sz cx cy cz Hs Hc
              (vraw_enc_grid_ok i o vol nch key sx sy sz cx cy cz Hi Ho Hn Hs Hc Hvol')
              c Hin) as (b & Hl & He).
  etransitivity; [exact Hl|]. f_equal.
  unfold enc, vraw_enc, venc in He.
  destruct (arr_of_chunk (two8 ^ dt_isz o) (Z.to_N nch)
              (mk_chunk num (convert_scalar i o) (zvol vol) nch c)) as [a|] eqn:Ea; [|discriminate He].
  destruct (arr_of_chunk_some _ _ _ _ Ea) as (_ & Hac & Hch).
  unfold raw_encode in He. rewrite Hac, N.eqb_refl in He. cbn [negb] in He.
  injection He as <-. f_equal.
  apply map_N_to_num_inv.
  unfold chunk_of_arr, mk_chunk in Hch. injection Hch as _ Hd. rewrite Hd.
  destruct c as [[[[[x0 x1] y0] y1] z0] z1].
  apply in_vgrid in Hin. destruct Hin as (Hx & Hy & Hz).
  destruct Hs as (Hsx & Hsy & Hsz). destruct Hc as (Hcx & Hcy & Hcz).
  apply axis_chunk_bounds in Hx, Hy, Hz; try assumption.
  apply extract_ext_map. intros x y z ch Bx By Bz Bch.
  unfold zvol. apply int_to_int_exact; try assumption. apply Hvol'; lia.
Qed.

(* ====================================================================== *)
(* non-vacuity                                                            *)
(* ====================================================================== *)

(* C01: a 3x2x2 int16 volume with 2 channels whose values run from -150 to
   1261, written as uint8 in chunks of 2x2x4 (not dividing / larger than the
   volume): the hypotheses of convert_pointwise_raw_int hold, and the chunks
   read back saturated at both ends *)
Definition lv_vol (x y z ch : Z) : Z := 200 * x + 10 * y + z + 1000 * ch - 150.
Definition lv_scale : scale :=
  {| sc_key := [7%N]; sc_size := (3, 2, 2); sc_chunk_sizes := [(2, 2, 4)];
     sc_voxel_offset := Some (0, 0, 0) |}.

Example convert_pointwise_raw_int_nonvacuous :
  is_int I16 = true /\ uint_dt U8 = true /\ 0 < 2 /\ pos_triple (3, 2, 2) /\ pos_triple (2, 2, 4) /\
  (forall x y z ch, 0 <= x < 3 -> 0 <= y < 2 -> 0 <= z < 2 -> 0 <= ch < 2 ->
                    in_range I16 (lv_vol x y z ch)) /\
  let enc := vraw_enc (dt_isz U8) (Z.to_N 2) in
  let dec := vraw_dec (dt_isz U8) (Z.to_N 2) in
  let st := fst (run (vchunk num) (list N) enc dec [lv_scale] []
                     (convert_ops num (convert_scalar I16 U8) (zvol lv_vol) 2 [7%N] (3, 2, 2) (2, 2, 4))) in
  chunk_of (3, 2, 2) (2, 2, 4) 1 0 1 = (0, 2, 0, 2, 0, 2) /\
  read_chunk (vchunk num) (list N) dec [lv_scale] st [7%N] (0, 2, 0, 2, 0, 2)
  = Ok ((2, 2, 2), map NI [0; 50; 0; 60; 0; 51; 0; 61; 255; 255; 255; 255; 255; 255; 255; 255]) /\
  lookup (list N) st [7%N] (2, 3, 0, 2, 0, 2) = Some [250; 255; 251; 255; 255; 255; 255; 255]%N.
Proof.
  split; [reflexivity|]. split; [reflexivity|]. split; [lia|].
  split; [cbn; lia|]. split; [cbn; lia|]. split.
  - intros x y z ch Hx Hy Hz Hch. unfold in_range, lv_vol.
    change (imin I16) with (-32768). change (imax I16) with 32767. lia.
  - cbv zeta. split; [reflexivity|]. split; vm_compute; reflexivity.
Qed.

(* C13: a uint16 raw source with two chunks (one of them an edge chunk) holding
   300, 7 and 65535, converted to uint8 raw: the hypotheses of
   convert_pointwise_raw_to_raw hold, the command succeeds, and the
   destination holds 255, 7 and 255 *)
Definition lv_scales : list scale :=
  [ {| sc_key := [1%N]; sc_size := (3, 1, 1); sc_chunk_sizes := [(2, 1, 1)];
       sc_voxel_offset := Some (0, 0, 0) |} ].
Definition lv_src16 : store (list N) :=
  [ ([1%N], (0, 2, 0, 1, 0, 1), [44; 1; 7; 0]%N);
    ([1%N], (2, 3, 0, 1, 0, 1), [255; 255]%N) ].

Example convert_pointwise_raw_to_raw_nonvacuous :
  uint_dt U16 = true /\ uint_dt U8 = true /\
  (forall k c b, lookup (list N) lv_src16 k c = Some b -> bytes_ok b) /\
  exists dst tr,
    convert_chunks num (convert_scalar U16 U8) (list N) (list N)
      (vraw_dec (dt_isz U16) 1) (vraw_enc (dt_isz U8) 1) lv_scales lv_scales lv_src16 []
      = Ok (dst, tr) /\
    read_chunk (cchunk num) (list N) (vraw_dec (dt_isz U16) 1) lv_scales lv_src16 [1%N] (0, 2, 0, 1, 0, 1)
      = Ok ((2, 1, 1), map NI [300; 7]) /\
    read_chunk (cchunk num) (list N) (vraw_dec (dt_isz U8) 1) lv_scales dst [1%N] (0, 2, 0, 1, 0, 1)
      = Ok ((2, 1, 1), map NI [255; 7]) /\
    lookup (list N) dst [1%N] (2, 3, 0, 1, 0, 1) = Some [255%N].
Proof.
  split; [reflexivity|]. split; [reflexivity|]. split.
  - intros k c b H. unfold lv_src16 in H. cbn [lookup] in H.
    repeat match type of H with
           | (if ?e then _ else _) = _ => destruct e
           end; try discriminate; injection H as <-;
      unfold bytes_ok; repeat (apply Forall_cons; [reflexivity|]); apply Forall_nil.
  - eexists. eexists. split; [vm_compute; reflexivity|].
    split; [vm_compute; reflexivity|]. split; vm_compute; reflexivity.
Qed.

(* C13: a uint64 raw source holding 2^40, 7 and 2^32-1 converted to uint32
   compressed_segmentation with 8x8x8 blocks: the command succeeds and the
   destination decodes to 2^32-1, 7 and 2^32-1 *)
Definition lv_src64 : store (list N) :=
  [ ([1%N], (0, 2, 0, 1, 0, 1), [0; 0; 0; 0; 0; 1; 0; 0;  7; 0; 0; 0; 0; 0; 0; 0]%N);
    ([1%N], (2, 3, 0, 1, 0, 1), [255; 255; 255; 255; 0; 0; 0; 0]%N) ].
Definition lv_geom : geom := {| g_bx := 8; g_by := 8; g_bz := 8 |}%N.

Example convert_pointwise_raw_to_cseg_nonvacuous :
  uint_dt DType.U64 = true /\
  (forall k c b, lookup (list N) lv_src64 k c = Some b -> bytes_ok b) /\
  exists dst tr,
    convert_chunks num (convert_scalar DType.U64 (label_dt Words.U32)) (list N) (list N)
      (vraw_dec (dt_isz DType.U64) 1) (vcseg_enc Words.U32 1 lv_geom) lv_scales lv_scales lv_src64 []
      = Ok (dst, tr) /\
    read_chunk (cchunk num) (list N) (vraw_dec (dt_isz DType.U64) 1) lv_scales lv_src64 [1%N] (0, 2, 0, 1, 0, 1)
      = Ok ((2, 1, 1), map NI [1099511627776; 7]) /\
    read_chunk (cchunk num) (list N) (vcseg_dec Words.U32 1 lv_geom) lv_scales dst [1%N] (0, 2, 0, 1, 0, 1)
      = Ok ((2, 1, 1), map NI [4294967295; 7]) /\
    read_chunk (cchunk num) (list N) (vcseg_dec Words.U32 1 lv_geom) lv_scales dst [1%N] (2, 3, 0, 1, 0, 1)
      = Ok ((1, 1, 1), map NI [4294967295]).
Proof.
  split; [reflexivity|]. split.
  - intros k c b H. unfold lv_src64 in H. cbn [lookup] in H.
    repeat match type of H with
           | (if ?e then _ else _) = _ => destruct e
           end; try discriminate; injection H as <-;
      unfold bytes_ok; repeat (apply Forall_cons; [reflexivity|]); apply Forall_nil.
  - eexists. eexists. split; [vm_compute; reflexivity|].
    split; [vm_compute; reflexivity|]. split; vm_compute; reflexivity.
Qed.
