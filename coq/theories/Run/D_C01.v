(* Dispatch fragment for C01. *)
From Coq Require Import NArith ZArith List String.
From NGS Require Import Val Ints PioModel VolModel.
Import ListNotations.
Open Scope string_scope.

Definition v_coords (c : coords) : val :=
  let '(a, b, c1, d, e, f) := c in VL [VZ a; VZ b; VZ c1; VZ d; VZ e; VZ f].

Definition d_c01 (op : string) (a : val) : option val :=
  match op, a with
  | "vol_writes", VL [shape; VZ nch; cs; VL data] =>
      (* data: the whole volume as a flat list in (C,Z,Y,X) order *)
      match getZs shape, getZs cs, all_some (map getZ data) with
      | Some [sx; sy; sz], Some [cx; cy; cz], Some data =>
          let vol x y z ch := nth (Z.to_nat (((ch * sz + z) * sy + y) * sx + x)) data 0%Z in
          Some (VL (map (fun c => VL [v_coords c; vZs (extract Z (fun v => v) vol nch c)])
                        (vgrid (sx, sy, sz) (cx, cy, cz))))
      | _, _, _ => Some bad end
  | _, _ => None
  end.
