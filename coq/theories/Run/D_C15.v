(* Dispatch fragment for C15 (slice stacks and orientation codes). *)
From Coq Require Import NArith ZArith List String.
From NGS Require Import Val Ints SlSlices.
Import ListNotations.
Open Scope string_scope.

Definition get_dir (v : val) : option dirinfo :=
  match v with
  | VL [VZ f; VZ h; VZ w; ch] =>
      Some {| d_files := f; d_h := h; d_w := w;
              d_ch := match ch with VZ k => Some k | _ => None end |}
  | _ => None end.

Definition get_job (v : val) : option job :=
  match v with
  | VL [VS code; size; chunk; VZ nch; VL dirs] =>
      match getZs size, getZs chunk, all_some (map get_dir dirs) with
      | Some size, Some chunk, Some dirs =>
          Some {| j_code := code; j_size := size; j_chunk := chunk; j_nch := nch; j_dirs := dirs |}
      | _, _, _ => None end
  | _ => None end.

Definition v_src (o : option src) : val :=
  match o with
  | Some s => VL [VZ (s_dir s); VZ (s_file s); VZ (s_row s); VZ (s_col s); VZ (s_ch s)]
  | None => VT "none" end.

Definition v_coords (ck : chunk) : val :=
  let '(xa, xb, ya, yb, za, zb) := ck_coords ck in vZs [xa; xb; ya; yb; za; zb].

Definition Zabs_nat (z : Z) : nat := Z.to_nat z.

(* all voxels, x fastest, then y, z, c *)
Definition voxel_map (f : Z -> Z -> Z -> Z -> option src) (sx sy sz nc : Z) : val :=
  VL (flat_map (fun c => flat_map (fun z => flat_map (fun y => map (fun x => v_src (f x y z c))
        (zrange 0 sx)) (zrange 0 sy)) (zrange 0 sz)) (zrange 0 nc)).

Definition d_c15 (op : string) (a : val) : option val :=
  match op, a with
  | "slices_run", j =>
      match get_job j with
      | Some j =>
          let '(ds, res) := run j in
          match j_size j with
          | [sx; sy; sz] =>
              Some (VL [VL (map v_coords ds); v_outcome (fun _ => VL []) res;
                        voxel_map (read_back ds) sx sy sz (j_nch j);
                        voxel_map (designated (j_code j) (sx, sy, sz) (j_dirs j)) sx sy sz (j_nch j);
                        vbool (c15_wf j); vbool (job_wf j)])
          | _ => Some (VL [VL (map v_coords ds); v_outcome (fun _ => VL []) res])
          end
      | None => Some bad end
  | "slice_order", VL names =>
      match all_some (map getS names) with
      | Some names => Some (VL (map VS (slice_order names)))
      | None => Some bad end
  | "invert_permutation", p =>
      match getZs p with Some p => Some (v_outcome vZs (invert_permutation p)) | None => Some bad end
  | "permute", VL [s; p] =>
      match getZs s, getZs p with
      | Some s, Some p => Some (v_outcome vZs (permute s p))
      | _, _ => Some bad end
  | "slice_indices", VL [VZ len; VZ start; stop; VZ step] =>
      Some (vZs (slice_indices len start (match stop with VZ s => Some s | _ => None end) step))
  | _, _ => None
  end.
